/-
  QV.Model.FusionObs — what can be OBSERVED while a (fused) queue runs, and the circuit
  object that `Circuit.fuse` returns.  Import-free apart from the fusion and simulator models.

  Part 1 (observation points).  A queue entry is an ordinary gate, a `CallbackGate` (records a
  value computed from the WHOLE state at its position), a collapsing measurement
  `M(*qs, collapse=True)` (looks at the reduced state on its qubits, draws an outcome, projects
  and renormalises) or a deferred measurement `M(*qs)` (no action while the queue runs).
  `orun` executes a list of entries and keeps the OBSERVATION TRACE: for every observing entry,
  in execution order, its id (position in the original queue) and what it saw.  Randomness and
  floating point are parameters: the outcome is `draw log r` for an arbitrary oracle `draw`
  that may depend on everything observed so far and on the reduced state `r`; the
  normalisation factor is `nrm r k` for an arbitrary function `nrm`.
  The simulator is a parameter too (`QSpace`): state vectors and density matrices are the two
  instances `svSpace`, `dmSpace`.

  Part 2 (the fused circuit object).  `Circuit.__init__`, `Circuit._shallow_copy`,
  `Circuit.fuse` and `Circuit.repeated_execution` on the level of the attributes that
  execution consults.

  NOT modelled: noise channels.  The unchanged code lets a `Channel` take part in fusion like an
  ordinary gate and refuses at execution (`matrix` is not defined for channels); the check
  accepts a refusal and otherwise demands that no entry is lost, that the real fused queue is
  `~ₜ` the input with the channel as an opaque entry on its qubits (the proved decision
  procedure `traceEqB`) and that the final density matrix is unchanged (search).  A gate whose
  parameters are substituted from measurement outcomes at every shot is, once kept out of
  fusion, an entry of kind 1 of `FIn` (marked, barrier on its own qubits).

  Transliterated from
    * `gates/measurements.py`  `M.apply` / `M.apply_density_matrix` (collapse branch)
    * `gates/special.py`       `CallbackGate.apply`
    * `models/circuit.py`      `Circuit.__init__`, `_shallow_copy`, `fuse`, `repeated_execution`
    * `backends/numpy.py`      `execute_circuit` (choice single pass / shot loop)
-/
import QV.Model.Fusion
namespace QV

/-! ### Part 1: observation points -/

/-- what a queue entry does when the queue runs. -/
inductive OItem (α : Type)
  | gate (g : MGate α)
  | callback
  | collapse (qs : List Nat)
  | defer (qs : List Nat)

/-- what an observing entry saw: a callback the whole state, a collapsing measurement the
reduced state on its qubits and the outcome drawn. -/
inductive Obs (S R : Type)
  | whole (s : S)
  | reduced (r : R) (k : Nat)

/-- state of a run: the quantum state and the observation trace so far. -/
structure ORun (S R : Type) where
  st : S
  log : List (Nat × Obs S R)

/-- the simulator: gate application, multiplication by a scalar, reduced state on a list of
qubits. -/
structure QSpace (α S R : Type) where
  app : MGate α → S → S
  smul : α → S → S
  red : List Nat → S → R

section
variable {α : Type} [Zero α] [One α] [Add α] [Mul α]

/-- projector on outcome `k` (as the local index of the qubits `qs`). -/
def projGate (qs : List Nat) (k : Nat) : MGate α :=
  { mat := fun i j => if i = k ∧ j = k then 1 else 0, targets := qs, controls := [] }

/-- an entry read as a gate (only used for the members of a fused group, which are gates). -/
def OItem.asGate : OItem α → MGate α
  | .gate g => g
  | _ => { mat := fun i j => if i = j then 1 else 0, targets := [], controls := [] }

variable {S R : Type}

/-- one entry `(id, item)` of the queue. -/
def ostep (sp : QSpace α S R) (draw : List (Nat × Obs S R) → R → Nat) (nrm : R → Nat → α)
    (r : ORun S R) (e : Nat × OItem α) : ORun S R :=
  match e.2 with
  | .gate g => { r with st := sp.app g r.st }
  | .callback => { r with log := r.log ++ [(e.1, Obs.whole r.st)] }
  | .collapse qs =>
    let o := sp.red qs r.st
    let k := draw r.log o
    { st := sp.smul (nrm o k) (sp.app (projGate qs k) r.st),
      log := r.log ++ [(e.1, Obs.reduced o k)] }
  | .defer _ => r

/-- run a queue: final state and observation trace. -/
def orun (sp : QSpace α S R) (draw : List (Nat × Obs S R) → R → Nat) (nrm : R → Nat → α)
    (es : List (Nat × OItem α)) (r : ORun S R) : ORun S R :=
  es.foldl (ostep sp draw nrm) r

/-- the original queue as a list of entries. -/
def origItems (sem : Nat → OItem α) (len : Nat) : List (Nat × OItem α) :=
  (List.range len).map (fun i => (i, sem i))

/-- one group of the fused queue as an entry (`_Queue.from_fused`): a group with one member is
that entry of the original queue, any other group is ONE gate whose matrix is `matrix_fused`
of its members on the group's qubit list. -/
def groupItem (sem : Nat → OItem α) (p : List Nat × List Nat) : Nat × OItem α :=
  match p.1 with
  | [i] => (i, sem i)
  | ms => (ms.headD 0, OItem.gate (fusedGate p.2 (ms.map (fun i => (sem i).asGate))))

/-- the fused queue as a list of entries. -/
def fusedItems (sem : Nat → OItem α) (grps : List (List Nat × List Nat)) :
    List (Nat × OItem α) :=
  grps.map (groupItem sem)

/-- qubits of the register that are not listed. -/
def others (n : Nat) (qs : List Nat) : List Nat := (List.range n).filter (fun q => !qs.contains q)

/-- state vectors of an `n`-qubit register. -/
def svSpace (conj : α → α) (n : Nat) : QSpace α (Lab → α) (DM α) where
  app := applyGate
  smul := fun c ψ x => c * ψ x
  red := fun qs ψ => ptrace (others n qs) (fun x y => ψ x * conj (ψ y))

/-- density matrices of an `n`-qubit register. -/
def dmSpace (conj : α → α) (n : Nat) : QSpace α (DM α) (DM α) where
  app := applyGateDM conj
  smul := fun c ρ x y => c * ρ x y
  red := fun qs ρ => ptrace (others n qs) ρ

end

/-- the seeded variant C07-7 of `_Queue.to_fused`: the neighbour links of a special gate are
made over `gate.qubits` (empty for a `CallbackGate`) instead of over all qubits, so the
callback is no barrier.  On the level of the model this is the fusion of the queue in which
every special gate is an entry without qubits that takes no part in fusion. -/
def noBarrier (queue : List FIn) : List FIn :=
  queue.map (fun g => if g.kind == 2 then ({ qs := [], kind := 1 } : FIn) else g)

/-! ### Part 2: the circuit object -/

/-- `Circuit.init_kwargs` -/
structure InitKw where
  nqubits : Nat
  density_matrix : Bool
  wire_names : List Nat
  deriving DecidableEq, Repr, Inhabited

/-- the attributes of a `Circuit` that execution and fusion consult.  `measurements` holds the
positions (in the ORIGINAL queue) of the measurement gates that are not collapsing. -/
structure CircObj where
  init_kwargs : InitKw
  nqubits : Nat
  density_matrix : Bool
  has_collapse : Bool
  has_unitary_channel : Bool
  measurements : List Nat
  queue : List (List Nat)
  deriving DecidableEq, Repr, Inhabited

/-- `Circuit.__init__(**kwargs)` -/
def CircObj.init (kw : InitKw) : CircObj :=
  { init_kwargs := kw, nqubits := kw.nqubits, density_matrix := kw.density_matrix,
    has_collapse := false, has_unitary_channel := false, measurements := [], queue := [] }

/-- a circuit object as the constructor and `Circuit.add` leave it. -/
def CircObj.Consistent (c : CircObj) : Prop :=
  c.nqubits = c.init_kwargs.nqubits ∧ c.density_matrix = c.init_kwargs.density_matrix

/-- `Circuit._shallow_copy` -/
def CircObj.shallowCopy (c : CircObj) : CircObj :=
  let new := CircObj.init c.init_kwargs
  let new := { new with measurements := c.measurements }
  let new := { new with has_collapse := c.has_collapse }
  { new with has_unitary_channel := c.has_unitary_channel }

/-- `Circuit.fuse(max_qubits)`: `entries` is what fusion sees of the gates of the queue; the
new queue is a list of groups of positions of the original queue. -/
def CircObj.fuse (c : CircObj) (entries : List FIn) (maxq : Nat) : CircObj :=
  let circuit := c.shallowCopy
  { circuit with queue := fuseModel c.nqubits maxq entries }

/-- `Circuit.repeated_execution` -/
def CircObj.repeatedExecution (c : CircObj) : Bool :=
  c.has_collapse || (c.has_unitary_channel && !c.density_matrix)

/-- `NumpyBackend.execute_circuit`: a circuit with `repeated_execution` is run once per shot
from a fresh copy of the initial state (shot `k` consumes its own randomness `draw k`),
otherwise the queue is run ONCE and all shots are sampled from the final state.  The result
is the list of runs (final state + observation trace). -/
def execObj {α S R : Type} [Zero α] [One α] [Add α] [Mul α] (sp : QSpace α S R)
    (draw : Nat → List (Nat × Obs S R) → R → Nat) (nrm : R → Nat → α)
    (c : CircObj) (items : List (Nat × OItem α)) (nshots : Nat) (s0 : S) : List (ORun S R) :=
  if c.repeatedExecution then
    (List.range nshots).map (fun k => orun sp (draw k) nrm items { st := s0, log := [] })
  else [orun sp (draw 0) nrm items { st := s0, log := [] }]

end QV
