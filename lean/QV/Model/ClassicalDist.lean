/-
  QV.Model.ClassicalDist — executable mirror of the classical-distribution helpers of
  `qibo/quantum_info/utils.py`:

    * `hamming_weight(bitstring, return_indexes)`
        int ↦ `f"{n:b}"`, then `[m.start() for m in finditer("1", s)]` (or its length)
    * `hamming_distance(b1, b2, return_indexes)`
        left-pad both strings with "0" to the longer length, positionwise
        `|int(a_i) - int(b_i)|`, then `hamming_weight` of the difference string
    * `total_variation_distance(p, q)` = ½ · ‖p − q‖₁    (`sumAbsDiff` is the 1-norm part)
    * the algebra behind `hellinger_distance` / `hellinger_fidelity`
        H² = ½ Σ (√p_i − √q_i)²,   fidelity = (1 − H²)²

  Import-free (the driver runs this file with `lean --run`).
-/
namespace QV.CD

/-! ### bit strings -/

/-- binary digits least-significant first; `0 ↦ []`. -/
def bitsLE (n : Nat) : List Bool :=
  if h : n = 0 then [] else (n % 2 == 1) :: bitsLE (n / 2)
termination_by n
decreasing_by omega

/-- binary digits most-significant first, as Python `f"{n:b}"` (`0 ↦ "0"`). -/
def bitsOfNat (n : Nat) : List Bool :=
  if n = 0 then [false] else (bitsLE n).reverse

/-- positions (counted from `i`) of the `true` entries. -/
def onesIdxFrom : Nat → List Bool → List Nat
  | _, [] => []
  | i, b :: l => if b then i :: onesIdxFrom (i + 1) l else onesIdxFrom (i + 1) l

/-- positions of the `true` entries: Python `[m.start() for m in finditer("1", s)]`. -/
def onesIdx (l : List Bool) : List Nat := onesIdxFrom 0 l

/-- `hamming_weight(bitstring)` for a bit list. -/
def hammingWeightBits (l : List Bool) : Nat := (onesIdx l).length

/-- `hamming_weight(n)` for an integer. -/
def hammingWeightNat (n : Nat) : Nat := hammingWeightBits (bitsOfNat n)

/-- `hamming_weight(n, return_indexes=True)` for an integer. -/
def hammingWeightNatIdx (n : Nat) : List Nat := onesIdx (bitsOfNat n)

/-- Python `"0" * (k - len(s)) + s`. -/
def padLeft (k : Nat) (l : List Bool) : List Bool :=
  List.replicate (k - l.length) false ++ l

/-- pad both to the longer length, positionwise `|int(a_i) - int(b_i)|` (= `a_i != b_i`). -/
def diffBits (a b : List Bool) : List Bool :=
  List.zipWith (fun x y => x != y)
    (padLeft (max a.length b.length) a) (padLeft (max a.length b.length) b)

/-- `hamming_distance(a, b)` on bit lists. -/
def hammingDistanceBits (a b : List Bool) : Nat := hammingWeightBits (diffBits a b)

/-- `hamming_distance(a, b, return_indexes=True)` on bit lists. -/
def hammingDistanceIdx (a b : List Bool) : List Nat := onesIdx (diffBits a b)

/-- `hamming_distance` of two integers through their binary strings. -/
def hammingDistanceNat (a b : Nat) : Nat :=
  hammingDistanceBits (bitsOfNat a) (bitsOfNat b)

/-- `hamming_distance(a, b, return_indexes=True)` of two integers: positions in the common-length
(left-padded) binary strings, NOT in the binary string of `a xor b` (which drops the leading
zeros where the top bits agree). -/
def hammingDistanceNatIdx (a b : Nat) : List Nat :=
  hammingDistanceIdx (bitsOfNat a) (bitsOfNat b)

/-! ### distributions -/

section
variable {α : Type}

/-- Σ_i |p_i − q_i| with |x| := max x (−x): twice the total variation distance. -/
def sumAbsDiff [Zero α] [Add α] [Sub α] [Neg α] [Max α] (p q : List α) : α :=
  (List.zipWith (fun x y => max (x - y) (-(x - y))) p q).foldr (· + ·) 0

/-- Σ a_i². -/
def sumSq [Zero α] [Add α] [Mul α] (a : List α) : α :=
  (a.map (fun x => x * x)).foldr (· + ·) 0

/-- Σ a_i b_i. -/
def dot [Zero α] [Add α] [Mul α] (a b : List α) : α :=
  (List.zipWith (fun x y => x * y) a b).foldr (· + ·) 0

/-- Σ (a_i − b_i)². -/
def sumSqDiff [Zero α] [Add α] [Mul α] [Sub α] (a b : List α) : α :=
  (List.zipWith (fun x y => (x - y) * (x - y)) a b).foldr (· + ·) 0

end

end QV.CD
