/-
  QV.Model.Measure — executable model of qibo's measurement reporting (import-free).

  MODELLED (hand model, tied to /repo by the correspondence suites of tools/props/C03.py):

    backends/numpy.py   calculate_probabilities, calculate_probabilities_density_matrix,
                        _order_probabilities, samples_to_binary, samples_to_decimal,
                        calculate_frequencies, update_frequencies, sample_frequencies,
                        collapse_state, collapse_density_matrix (+ _append_zeros)
    result.py           MeasurementOutcomes.samples / frequencies (global + per register,
                        binary / decimal), the caches _samples / _frequencies
    measurements.py     MeasurementResult.samples / frequencies and their caches
    gates/measurements.py  M.apply / M.apply_density_matrix (collapsing measurement)

  Conventions: a basis label is `Lab = Nat → Bool` (qubit ↦ bit); array index = big-endian
  reading of the listed qubits (`Lab.idx`), first listed qubit = most significant bit.
  A shot is the decimal index drawn by `sample_shots`; a binary row is a `List Nat` of 0/1.
  Randomness is an input: the draws of `np.random.choice` / `np.random.shuffle` are an
  `Oracle` value.
-/
import QV.Core.Bits
import QV.Model.Sim
namespace QV

/-! ## probabilities -/

/-- the all-zero label (used as the base label of index ↦ label conversions). -/
def zeroLab : Lab := fun _ => false

/-- `unmeasured_qubits = tuple(i for i in range(nqubits) if i not in qubits)`. -/
def unmeasured (n : Nat) (qs : List Nat) : List Nat :=
  (List.range n).filter fun i => !qs.contains i

/-- keys of the dict `reduced` of `_order_probabilities`: the measured qubits, ascending. -/
def measuredAsc (n : Nat) (qs : List Nat) : List Nat :=
  (List.range n).filter fun i => qs.contains i

section Probs
variable {β : Type} [Zero β] [Add β]

/-- `np.sum(|ψ|², axis=unmeasured_qubits)`: a table over the measured qubits in ASCENDING
order (`w` is the weight of a basis label: `|ψ x|²`, or `ρ x x` for density matrices). -/
def reducedProbs (n : Nat) (qs : List Nat) (w : Lab → β) : Nat → β := fun j =>
  sumOver (unmeasured n qs) w (Lab.withIdx zeroLab (measuredAsc n qs) j)

/-- `_order_probabilities`: `np.transpose(probs, [reduced.get(i) for i in qubits])` — output
axis `j` is the axis of qubit `qubits[j]` of the ascending table. -/
def orderProbabilities (n : Nat) (qs : List Nat) (red : Nat → β) : Nat → β := fun k =>
  red (Lab.idx (measuredAsc n qs) (Lab.withIdx zeroLab qs k))

/-- `calculate_probabilities(state, qubits, nqubits)` (flattened, index `k < 2^|qubits|`). -/
def calculateProbabilities (n : Nat) (qs : List Nat) (w : Lab → β) : Nat → β :=
  orderProbabilities n qs (reducedProbs n qs w)

/-- SPEC: Born marginal of the weight `w` on the ordered qubit list `qs`: outcome `k` (bits of
`k` assigned to `qs` in the given order, first listed = most significant) gets the total
weight of all labels of the `n`-qubit register that carry this assignment. -/
def born (n : Nat) (qs : List Nat) (w : Lab → β) : Nat → β := fun k =>
  sumOver (unmeasured n qs) w (Lab.withIdx zeroLab qs k)

/-- total weight of the register (`‖ψ‖²`, or the trace). -/
def totalWeight (n : Nat) (w : Lab → β) : β := sumOver (List.range n) w zeroLab

end Probs

/-- diagonal of a density matrix (the `"abab->a"` einsum reads only `ρ x x`). -/
def diagOf {α : Type} (ρ : DM α) : Lab → α := fun x => ρ x x

/-- `calculate_probabilities_density_matrix` before the final `np.abs`. -/
def calculateProbabilitiesDM {α : Type} [Zero α] [Add α] (n : Nat) (qs : List Nat) (ρ : DM α) :
    Nat → α :=
  calculateProbabilities n qs (diagOf ρ)

/-! ## samples: binary ↔ decimal, frequencies -/

/-- `samples_to_binary`: row of one shot, `mod(right_shift(s, [k-1, …, 0]), 2)`. -/
def samplesToBinary (k s : Nat) : List Nat :=
  (List.range k).map fun j => (s >>> (k - 1 - j)) % 2

/-- `samples_to_decimal`: `matmul(row, 2 ** [k-1, …, 0])`. -/
def samplesToDecimal : List Nat → Nat
  | [] => 0
  | b :: bs => b * 2 ^ bs.length + samplesToDecimal bs

/-- a frequency table: key (decimal outcome) ↦ count.  `collections.Counter` semantics. -/
abbrev Freq := Nat → Nat

/-- `calculate_frequencies(samples)` = `np.unique(samples, return_counts=True)`. -/
def hist (T : List Nat) : Freq := fun v => T.count v

/-- `update_frequencies`: `frequencies[res] += counts` for one batch of drawn samples. -/
def updateFrequencies (F : Freq) (batch : List Nat) : Freq := fun v => F v + batch.count v

/-- sizes of the successive `sample_shots` calls made by `sample_frequencies`:
`nshots // B` full batches, then one of `nshots % B`. -/
def batchSizes (nshots B : Nat) : List Nat := List.replicate (nshots / B) B ++ [nshots % B]

/-- `sample_frequencies` given the arrays returned by its successive `sample_shots` calls. -/
def sampleFrequencies (batches : List (List Nat)) : Freq :=
  batches.foldl updateFrequencies (fun _ => 0)

/-- `np.concatenate([np.repeat(x, f) for x, f in frequencies.items()])`, keys ascending. -/
def repeatFreq (k : Nat) (F : Freq) : List Nat :=
  (List.range (2 ^ k)).flatMap fun v => List.replicate (F v) v

/-- a shuffle: `new[i] = old[perm[i]]`. -/
def applyPerm (perm : List Nat) (l : List Nat) : List Nat := perm.map fun i => l.getD i 0

/-! ## registers -/

/-- `qubit_map.get(q)` for the qubits of one register: positions in the global measurement. -/
def positions (glob reg : List Nat) : List Nat := reg.map fun q => glob.idxOf q

/-- `samples[:, rqubits]` on one row. -/
def pick (row : List Nat) (pos : List Nat) : List Nat := pos.map fun p => row.getD p 0

/-- decimal value of a register in a global shot `s` of `k` measured qubits. -/
def projDec (k : Nat) (pos : List Nat) (s : Nat) : Nat :=
  samplesToDecimal (pick (samplesToBinary k s) pos)

/-- the per-register counter built from the global frequencies in
`MeasurementOutcomes.frequencies` (the "frequencies first" path): every global key adds its
count to the register key `Σ_i bit[qubit_map[q_i]] · 2^(len-i-1)`. -/
def regFreqOfGlobal (k : Nat) (pos : List Nat) (F : Freq) : Freq := fun r =>
  (((List.range (2 ^ k)).filter fun v => projDec k pos v == r).map F).sum

/-! ## the result object as a state machine over accessor calls -/

/-- static data of a result: registers (one per measurement gate, qubits in the order given). -/
structure RCfg where
  nregs : Nat
  reg : Nat → List Nat

namespace RCfg
/-- `measurement_gate.target_qubits`: concatenation of the registers' qubits. -/
def glob (c : RCfg) : List Nat := (List.range c.nregs).flatMap c.reg
def k (c : RCfg) : Nat := c.glob.length
def pos (c : RCfg) (i : Nat) : List Nat := positions c.glob (c.reg i)
end RCfg

/-- the random draws, as inputs. -/
structure Oracle where
  /-- array returned by `sample_shots(probs, nshots)` in `samples()` -/
  shots : List Nat
  /-- arrays returned by the successive `sample_shots` calls of `sample_frequencies` -/
  batches : List (List Nat)
  /-- permutation applied by `np.random.shuffle` -/
  perm : List Nat

/-- caches: `MeasurementOutcomes._samples/_frequencies`, `MeasurementResult._samples/_frequencies`
of every measurement gate. -/
structure RState where
  gSamples : Option (List (List Nat)) := none
  gFreq : Option Freq := none
  rSamples : Nat → Option (List (List Nat)) := fun _ => none
  rFreq : Nat → Option Freq := fun _ => none

inductive ROp
  | samples (binary registers : Bool)
  | freqs (binary registers : Bool)
  | regSamples (i : Nat) (binary : Bool)      -- circuit.add(M).samples(binary)
  | regFreqs (i : Nat) (binary : Bool)        -- circuit.add(M).frequencies(binary)

inductive ROut
  | rows (t : List (List Nat))
  | decs (t : List Nat)
  | regRows (t : Nat → List (List Nat))
  | regDecs (t : Nat → List Nat)
  /-- keys are decimal outcomes; with `binary=True` the same keys written with `zfill(k)` -/
  | freq (F : Freq)
  | regFreq (F : Nat → Freq)

/-- state of a result built with `samples=` (repeated execution): the table is registered
globally and, column-selected, in every gate. -/
def RState.withSamples (c : RCfg) (T : List Nat) : RState :=
  let t := T.map (samplesToBinary c.k)
  { gSamples := some t, rSamples := fun i => some (t.map (pick · (c.pos i))) }

/-- `MeasurementOutcomes.samples()` up to the point where `_samples` is filled. -/
def ensureSamples (c : RCfg) (o : Oracle) (s : RState) : RState × List (List Nat) :=
  match s.gSamples with
  | some t => (s, t)
  | none =>
    let dec := match s.gFreq with
      | some F => applyPerm o.perm (repeatFreq c.k F)   -- repeat + shuffle
      | none => o.shots                                -- new samples
    let t := dec.map (samplesToBinary c.k)
    ({ s with gSamples := some t, rSamples := fun i => some (t.map (pick · (c.pos i))) }, t)

/-- `MeasurementResult.samples()` of gate `i`. -/
def ensureRegSamples (c : RCfg) (o : Oracle) (s : RState) (i : Nat) :
    RState × List (List Nat) :=
  match s.rSamples i with
  | some t => (s, t)
  | none =>
    let s' := (ensureSamples c o s).1
    (s', (s'.rSamples i).getD [])

/-- `MeasurementResult.frequencies()` of gate `i` (decimal keys). -/
def ensureRegFreq (c : RCfg) (o : Oracle) (s : RState) (i : Nat) : RState × Freq :=
  match s.rFreq i with
  | some F => (s, F)
  | none =>
    let (s', t) := ensureRegSamples c o s i
    let F := hist (t.map samplesToDecimal)
    ({ s' with rFreq := fun j => if j = i then some F else s'.rFreq j }, F)

/-- `MeasurementOutcomes.frequencies()` up to the point where `_frequencies` is filled. -/
def ensureFreq (c : RCfg) (o : Oracle) (s : RState) : RState × Freq :=
  match s.gFreq with
  | some F => (s, F)
  | none =>
    if s.gSamples.isSome then
      let (s', t) := ensureSamples c o s
      let F := hist (t.map samplesToDecimal)
      ({ s' with gFreq := some F }, F)
    else
      let F := sampleFrequencies o.batches
      ({ s with gFreq := some F,
                rFreq := fun i => some (regFreqOfGlobal c.k (c.pos i) F) }, F)

/-- `frequencies(registers=True)`: every gate's `result.frequencies()`. -/
def allRegFreq (c : RCfg) (o : Oracle) (s : RState) : RState × (Nat → Freq) :=
  let s1 := (ensureSamplesIfNeeded s)
  ({ s1 with rFreq := fun i => some ((ensureRegFreq c o s1 i).2) }, fun i => (ensureRegFreq c o s1 i).2)
where
  /-- a gate without cached frequencies asks for its samples, which fills every gate. -/
  ensureSamplesIfNeeded (s : RState) : RState :=
    if (List.range c.nregs).all (fun i => (s.rFreq i).isSome) then s else (ensureSamples c o s).1

def rstep (c : RCfg) (o : Oracle) (s : RState) : ROp → RState × ROut
  | .samples b r =>
    let (s', t) := ensureSamples c o s
    if r then
      if b then (s', .regRows fun i => (s'.rSamples i).getD [])
      else (s', .regDecs fun i => ((s'.rSamples i).getD []).map samplesToDecimal)
    else if b then (s', .rows t) else (s', .decs (t.map samplesToDecimal))
  | .freqs _ r =>
    let (s', F) := ensureFreq c o s
    if r then
      let (s'', G) := allRegFreq c o s'
      (s'', .regFreq G)
    else (s', .freq F)
  | .regSamples i b =>
    let (s', t) := ensureRegSamples c o s i
    if b then (s', .rows t) else (s', .decs (t.map samplesToDecimal))
  | .regFreqs i _ =>
    let (s', F) := ensureRegFreq c o s i
    (s', .freq F)

/-- run a history of accessor calls; the outputs in call order. -/
def rrun (c : RCfg) (o : Oracle) : RState → List ROp → List ROut
  | _, [] => []
  | s, op :: ops => (rstep c o s op).2 :: rrun c o (rstep c o s op).1 ops

/-- SPEC: what an accessor returns when the result holds the shot table `T` (decimals). -/
def rview (c : RCfg) (T : List Nat) : ROp → ROut
  | .samples true false => .rows (T.map (samplesToBinary c.k))
  | .samples false false => .decs T
  | .samples true true => .regRows fun i => T.map fun s => pick (samplesToBinary c.k s) (c.pos i)
  | .samples false true => .regDecs fun i => T.map (projDec c.k (c.pos i))
  | .freqs _ false => .freq (hist T)
  | .freqs _ true => .regFreq fun i => hist (T.map (projDec c.k (c.pos i)))
  | .regSamples i true => .rows (T.map fun s => pick (samplesToBinary c.k s) (c.pos i))
  | .regSamples i false => .decs (T.map (projDec c.k (c.pos i)))
  | .regFreqs i _ => .freq (hist (T.map (projDec c.k (c.pos i))))

/-- SPEC: the one shot table behind a fresh result, determined by the draws and by whether the
first call asks for global frequencies (then shots are only materialised later, by
repeat-and-shuffle) or for anything else (then `sample_shots` is called). -/
def theTable (c : RCfg) (o : Oracle) : List ROp → List Nat
  | .freqs _ _ :: _ => applyPerm o.perm (repeatFreq c.k (sampleFrequencies o.batches))
  | _ => o.shots

/-! ## collapse -/

section Collapse
variable {α : Type} [Zero α]

/-- `collapse_state(state, qubits, shot, nqubits, normalize=False)`: keep the amplitudes whose
bits on `qubits` spell `shot` (big-endian in the order of `qubits`), zero elsewhere. -/
def collapseState (qs : List Nat) (shot : Nat) (ψ : Lab → α) : Lab → α := fun x =>
  if Lab.idx qs x = shot then ψ x else 0

/-- `collapse_density_matrix(…, normalize=False)`. -/
def collapseDM (qs : List Nat) (shot : Nat) (ρ : DM α) : DM α := fun x y =>
  if Lab.idx qs x = shot ∧ Lab.idx qs y = shot then ρ x y else 0

/-- insertion into an ascending list -/
def insertAsc (a : Nat) : List Nat → List Nat
  | [] => [a]
  | b :: l => if a ≤ b then a :: b :: l else b :: insertAsc a l

/-- `sorted(self.target_qubits)` -/
def sortAsc : List Nat → List Nat
  | [] => []
  | a :: l => insertAsc a (sortAsc l)

/-- bits recorded for a collapsing measurement of `targets` when the shot drawn over the
ascending qubit list is `shotAsc`: one bit per target, IN THE ORDER THE TARGETS WERE GIVEN. -/
def recordedBits (targets : List Nat) (shotAsc : Nat) : List Nat :=
  targets.map fun t => if Lab.withIdx zeroLab (sortAsc targets) shotAsc t then 1 else 0

/-- `M.apply` with `collapse=True` given the drawn shot: recorded bits and (un-normalised)
collapsed state. -/
def mApply (targets : List Nat) (shotAsc : Nat) (ψ : Lab → α) : List Nat × (Lab → α) :=
  (recordedBits targets shotAsc, collapseState (sortAsc targets) shotAsc ψ)

end Collapse

/-! ## circuits with mid-circuit collapse (driver side) -/

/-- one step of a circuit as executed for ONE shot.  `measure ts bits`: a collapsing `M(*ts)`
whose recorded outcome was `bits` (one per target, in the order of `ts`).
`cgate g m j`: gate applied iff bit `j` of the `m`-th measurement is 1. -/
inductive COp (α : Type)
  | gate (g : MGate α)
  | measure (targets : List Nat) (bits : List Nat)
  | cgate (g : MGate α) (m j : Nat)

section Circ
variable {α : Type} [Zero α] [Add α] [Mul α]

def bitOf (recs : List (List Nat)) (m j : Nat) : Nat := (recs.getD m []).getD j 0

def crunSV : List (COp α) → List (List Nat) → (Lab → α) → (Lab → α)
  | [], _, ψ => ψ
  | .gate g :: ops, recs, ψ => crunSV ops recs (applyGate g ψ)
  | .measure ts bits :: ops, recs, ψ =>
    crunSV ops (recs ++ [bits]) (collapseState ts (samplesToDecimal bits) ψ)
  | .cgate g m j :: ops, recs, ψ =>
    crunSV ops recs (if bitOf recs m j = 1 then applyGate g ψ else ψ)

def crunDM (conj : α → α) : List (COp α) → List (List Nat) → DM α → DM α
  | [], _, ρ => ρ
  | .gate g :: ops, recs, ρ => crunDM conj ops recs (applyGateDM conj g ρ)
  | .measure ts bits :: ops, recs, ρ =>
    crunDM conj ops (recs ++ [bits]) (collapseDM ts (samplesToDecimal bits) ρ)
  | .cgate g m j :: ops, recs, ρ =>
    crunDM conj ops recs (if bitOf recs m j = 1 then applyGateDM conj g ρ else ρ)

end Circ

end QV
