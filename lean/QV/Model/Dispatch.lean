/-
  QV.Model.Dispatch — the call graph of the conversion wrappers of
  `qibo/quantum_info/superoperator_transformations.py` (import-free).

  The 30 functions `a_to_b` and the helpers `to_choi/to_liouville/to_pauli_liouville/to_chi/
  to_stinespring` are either PRIMITIVES (index / spectral code of their own: modelled and proved
  in QV.Model.Superop, Dilation, …) or WRAPPERS: pipelines `x₁ = f₁(x, …); x₂ = f₂(x₁, …); …;
  return x_k` that hand every configuration parameter (`order`, `normalize`, `pauli_order`,
  `initial_state_env`, `nqubits`, `dim_env`) on to the next function.  A wrapper is described by
  a `Row`; `chainOk` is the decidable condition "well typed chain, the data flows through, and
  every parameter that matters for the representation entering or leaving a step is the
  caller's own"; `tableOk` processes the wrappers in call order.  `table` is the call graph of
  the current source; tools/props/C17_networks.py regenerates it from the source (ast) on every
  run, compares, and evaluates `tableOk` on the regenerated rows.
-/
namespace QV.Dispatch

inductive Rep where
  | op | kraus | choi | liouville | pauli | chi | stinespring
  deriving DecidableEq, Repr

/-- configuration parameters of the conversion functions. -/
inductive Par where
  | order | norm | po | env | nq | denv
  deriving DecidableEq, Repr

/-- what a wrapper passes for a parameter of the callee: its own parameter of the same name, a
literal (coded), or nothing (the callee's default applies). -/
inductive Arg where
  | caller | lit (n : Nat) | dflt
  deriving DecidableEq, Repr

structure Args where
  order : Arg
  norm : Arg
  po : Arg
  env : Arg
  nq : Arg
  denv : Arg
  deriving DecidableEq, Repr

def Args.get (a : Args) : Par → Arg
  | .order => a.order | .norm => a.norm | .po => a.po | .env => a.env | .nq => a.nq | .denv => a.denv

/-- runtime configuration (coded values). -/
structure Cfg where
  order : Nat
  norm : Nat
  po : Nat
  env : Nat
  nq : Nat
  denv : Nat

def Cfg.get (c : Cfg) : Par → Nat
  | .order => c.order | .norm => c.norm | .po => c.po | .env => c.env | .nq => c.nq | .denv => c.denv

/-- the defaults of the library: `order="row"`, `normalize=False`, `pauli_order="IXYZ"`,
`initial_state_env=None`, `nqubits=None` (all coded 0). -/
def dflt : Par → Nat := fun _ => 0

def evalArg (c : Cfg) (p : Par) : Arg → Nat
  | .caller => c.get p
  | .lit n => n
  | .dflt => dflt p

/-- the configuration the callee runs with. -/
def evalArgs (a : Args) (c : Cfg) : Cfg :=
  { order := evalArg c .order a.order, norm := evalArg c .norm a.norm, po := evalArg c .po a.po,
    env := evalArg c .env a.env, nq := evalArg c .nq a.nq, denv := evalArg c .denv a.denv }

/-- the parameters a representation depends on: Choi and Liouville matrices on the
vectorisation order, Pauli-Liouville and χ matrices on the normalisation and the Pauli ordering
(not on the vectorisation order), a Stinespring matrix on the environment state and the number
of system qubits; its environment dimension `dim_env` travels with the matrix (it is data, not
configuration: `stepOk` asks that a step reading a Stinespring matrix receives the caller's). -/
def relevant : Rep → List Par
  | .op => []
  | .kraus => []
  | .choi => [.order]
  | .liouville => [.order]
  | .pauli => [.norm, .po]
  | .chi => [.norm, .po]
  | .stinespring => [.env, .nq]

structure Step where
  callee : String
  src : Rep
  dst : Rep
  /-- the first argument is (derived from) the previous result / the wrapper's first parameter -/
  data : Bool
  args : Args
  deriving DecidableEq, Repr

structure Row where
  name : String
  src : Rep
  dst : Rep
  steps : List Step
  deriving DecidableEq, Repr

abbrev Typing := String × Rep × Rep

def stepOk (Γ : List Typing) (st : Step) : Bool :=
  Γ.contains (st.callee, st.src, st.dst) && st.data
    && (relevant st.src ++ relevant st.dst).all (fun p => st.args.get p == .caller)
    && (st.src != .stinespring || st.args.denv == .caller)

def chainOk (Γ : List Typing) : Rep → List Step → Rep → Bool
  | s, [], d => s == d
  | s, st :: rest, d => st.src == s && stepOk Γ st && chainOk Γ st.dst rest d

/-- wrappers in call order: each may use the primitives and the wrappers before it. -/
def tableOk (Γ : List Typing) : List Row → Bool
  | [] => true
  | r :: rs => !r.steps.isEmpty && chainOk Γ r.src r.steps r.dst
      && tableOk ((r.name, r.src, r.dst) :: Γ) rs

/-! ### the call graph of the current source -/

/-- every parameter handed on. -/
def allC : Args := ⟨.caller, .caller, .caller, .caller, .caller, .caller⟩
/-- only `order`. -/
def ordC : Args := ⟨.caller, .dflt, .dflt, .dflt, .dflt, .dflt⟩
/-- `normalize, order, pauli_order`. -/
def pauC : Args := ⟨.caller, .caller, .caller, .dflt, .dflt, .dflt⟩
/-- `nqubits, initial_state_env`. -/
def envC : Args := ⟨.dflt, .dflt, .dflt, .caller, .caller, .dflt⟩
/-- `dim_env, initial_state_env, nqubits`. -/
def stiC : Args := ⟨.dflt, .dflt, .dflt, .caller, .caller, .caller⟩
/-- `order, nqubits, initial_state_env` (+ precision_tol, validate_cp). -/
def oenC : Args := ⟨.caller, .dflt, .dflt, .caller, .caller, .dflt⟩

/-- typings of the primitives.  `liouville_to_pauli` / `pauli_to_liouville` are the two basis
changes `B · B†` / `B† · B` and are also used as Choi → χ / χ → Choi (`T17_kraus_chi_path`,
`T17_chi_choi_roundtrip`); `_reshuffling` is Choi ↔ Liouville (`T17_choi_liouville_roundtrip`);
`kraus_to_stinespring` applied to `[(partition, U)]` is the dilation of the one-operator family. -/
def prims : List Typing :=
  [ ("to_choi", .op, .choi), ("to_pauli_liouville", .op, .pauli),
    ("_reshuffling", .choi, .liouville), ("_reshuffling", .liouville, .choi),
    ("kraus_to_choi", .kraus, .choi), ("kraus_to_chi", .kraus, .chi),
    ("kraus_to_stinespring", .kraus, .stinespring), ("kraus_to_stinespring", .op, .stinespring),
    ("choi_to_kraus", .choi, .kraus), ("stinespring_to_kraus", .stinespring, .kraus),
    ("liouville_to_pauli", .liouville, .pauli), ("liouville_to_pauli", .choi, .chi),
    ("pauli_to_liouville", .pauli, .liouville), ("pauli_to_liouville", .chi, .choi) ]

def st (callee : String) (src dst : Rep) (args : Args) : Step := ⟨callee, src, dst, true, args⟩

def table : List Row :=
  [ ⟨"to_liouville", .op, .liouville,
      [st "to_choi" .op .choi ordC, st "_reshuffling" .choi .liouville ordC]⟩,
    ⟨"to_chi", .op, .chi, [st "to_choi" .op .choi ordC, st "liouville_to_pauli" .choi .chi pauC]⟩,
    ⟨"to_stinespring", .op, .stinespring, [st "kraus_to_stinespring" .op .stinespring envC]⟩,
    ⟨"choi_to_liouville", .choi, .liouville, [st "_reshuffling" .choi .liouville ordC]⟩,
    ⟨"liouville_to_choi", .liouville, .choi, [st "_reshuffling" .liouville .choi ordC]⟩,
    ⟨"choi_to_pauli", .choi, .pauli,
      [st "choi_to_liouville" .choi .liouville ordC, st "liouville_to_pauli" .liouville .pauli pauC]⟩,
    ⟨"choi_to_chi", .choi, .chi, [st "liouville_to_pauli" .choi .chi pauC]⟩,
    ⟨"choi_to_stinespring", .choi, .stinespring,
      [st "choi_to_kraus" .choi .kraus ordC, st "kraus_to_stinespring" .kraus .stinespring envC]⟩,
    ⟨"kraus_to_liouville", .kraus, .liouville,
      [st "kraus_to_choi" .kraus .choi ordC, st "choi_to_liouville" .choi .liouville ordC]⟩,
    ⟨"kraus_to_pauli", .kraus, .pauli,
      [st "kraus_to_choi" .kraus .choi ordC, st "choi_to_pauli" .choi .pauli pauC]⟩,
    ⟨"liouville_to_kraus", .liouville, .kraus,
      [st "liouville_to_choi" .liouville .choi ordC, st "choi_to_kraus" .choi .kraus ordC]⟩,
    ⟨"liouville_to_chi", .liouville, .chi,
      [st "liouville_to_choi" .liouville .choi ordC, st "liouville_to_pauli" .choi .chi pauC]⟩,
    ⟨"liouville_to_stinespring", .liouville, .stinespring,
      [st "liouville_to_choi" .liouville .choi ordC,
       st "choi_to_stinespring" .choi .stinespring oenC]⟩,
    ⟨"pauli_to_choi", .pauli, .choi,
      [st "pauli_to_liouville" .pauli .liouville pauC, st "liouville_to_choi" .liouville .choi ordC]⟩,
    ⟨"pauli_to_kraus", .pauli, .kraus,
      [st "pauli_to_liouville" .pauli .liouville pauC, st "liouville_to_kraus" .liouville .kraus ordC]⟩,
    ⟨"pauli_to_chi", .pauli, .chi,
      [st "pauli_to_liouville" .pauli .liouville pauC, st "liouville_to_chi" .liouville .chi pauC]⟩,
    ⟨"pauli_to_stinespring", .pauli, .stinespring,
      [st "pauli_to_liouville" .pauli .liouville pauC,
       st "liouville_to_stinespring" .liouville .stinespring oenC]⟩,
    ⟨"chi_to_choi", .chi, .choi, [st "pauli_to_liouville" .chi .choi pauC]⟩,
    ⟨"chi_to_liouville", .chi, .liouville,
      [st "pauli_to_liouville" .chi .choi pauC, st "choi_to_liouville" .choi .liouville ordC]⟩,
    ⟨"chi_to_pauli", .chi, .pauli,
      [st "pauli_to_liouville" .chi .choi pauC, st "choi_to_pauli" .choi .pauli pauC]⟩,
    ⟨"chi_to_kraus", .chi, .kraus,
      [st "pauli_to_liouville" .chi .choi pauC, st "choi_to_kraus" .choi .kraus ordC]⟩,
    ⟨"chi_to_stinespring", .chi, .stinespring,
      [st "chi_to_choi" .chi .choi pauC, st "choi_to_stinespring" .choi .stinespring oenC]⟩,
    ⟨"stinespring_to_choi", .stinespring, .choi,
      [st "stinespring_to_kraus" .stinespring .kraus stiC, st "kraus_to_choi" .kraus .choi ordC]⟩,
    ⟨"stinespring_to_liouville", .stinespring, .liouville,
      [st "stinespring_to_kraus" .stinespring .kraus stiC,
       st "kraus_to_liouville" .kraus .liouville ordC]⟩,
    ⟨"stinespring_to_pauli", .stinespring, .pauli,
      [st "stinespring_to_kraus" .stinespring .kraus stiC, st "kraus_to_pauli" .kraus .pauli pauC]⟩,
    ⟨"stinespring_to_chi", .stinespring, .chi,
      [st "stinespring_to_kraus" .stinespring .kraus stiC, st "kraus_to_chi" .kraus .chi pauC]⟩ ]

/-! ### canonical text (driver) -/

def Rep.str : Rep → String
  | .op => "op" | .kraus => "kraus" | .choi => "choi" | .liouville => "liouville"
  | .pauli => "pauli" | .chi => "chi" | .stinespring => "stinespring"

def Arg.str : Arg → String
  | .caller => "C" | .lit n => s!"L{n}" | .dflt => "D"

def Args.str (a : Args) : String :=
  " ".intercalate [a.order.str, a.norm.str, a.po.str, a.env.str, a.nq.str, a.denv.str]

def Step.str (s : Step) : String :=
  s!"{s.callee} {s.src.str} {s.dst.str} {if s.data then 1 else 0} {s.args.str}"

def Row.str (r : Row) : String :=
  s!"{r.name} {r.src.str} {r.dst.str} {r.steps.length} " ++ " ".intercalate (r.steps.map Step.str)

end QV.Dispatch
