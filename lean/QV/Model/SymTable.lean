/-
  QV.Model.SymTable — the CONCRETE translation tables of `transpiler/decompositions.py` as
  symbolic data: every row of `gpi2_dec`, `u3_dec`, `cz_dec`, `iswap_dec`, `opt_dec`,
  `cnot_dec_temp` whose emitted gates carry parameters that are expressions (`Ex`) in the
  parameters of the gate being translated.  The value `C10_sym : SymTables` is REGENERATED from
  the source on every run (tools/props/C10.py: the rows are traced on symbolic parameters; the
  parameter expressions are the traced `parameters` of the emitted gate objects).

  Import-free (no Mathlib): the checks below are evaluated by `lean --run` (stage 1) and decided
  by the kernel (`decide +kernel`) in `QV/Gen/C10_Ob*.lean`.  Their meaning over ℝ/ℂ is proved in
  `QV/Proofs/SymTable.lean`, the end-to-end corollary in `QV/Props/C10e.lean`.
-/
import QV.Core.Oblig
import QV.Model.Unroller
namespace QV

/-- simultaneous substitution of the parameters: `par i ↦ σ[i]` (`par i` itself beyond the list). -/
def Ex.subst (σ : List Ex) : Ex → Ex
  | .rat n d => .rat n d
  | .I => .I
  | .pi => .pi
  | .sqrt2 => .sqrt2
  | .par i => σ.getD i (.par i)
  | .add a b => .add (a.subst σ) (b.subst σ)
  | .sub a b => .sub (a.subst σ) (b.subst σ)
  | .mul a b => .mul (a.subst σ) (b.subst σ)
  | .div a b => .div (a.subst σ) (b.subst σ)
  | .neg a => .neg (a.subst σ)
  | .cos a => .cos (a.subst σ)
  | .sin a => .sin (a.subst σ)
  | .exp a => .exp (a.subst σ)
  | .conj a => .conj (a.subst σ)

def substMat (σ : List Ex) (m : List (List Ex)) : List (List Ex) := m.map fun r => r.map (Ex.subst σ)

/-- syntactically real expressions: rationals, `π`, `√2`, parameters, `+ - * /`, negation. -/
def Ex.isRealB : Ex → Bool
  | .rat _ _ => true
  | .pi => true
  | .sqrt2 => true
  | .par _ => true
  | .add a b => a.isRealB && b.isRealB
  | .sub a b => a.isRealB && b.isRealB
  | .mul a b => a.isRealB && b.isRealB
  | .div a b => a.isRealB && b.isRealB
  | .neg a => a.isRealB
  | _ => false

/-- every row of the matrix has as many entries as the matrix has rows. -/
def squareB (m : List (List Ex)) : Bool := m.all fun r => r.length == m.length

namespace Unroll

/-- class matrices / arities from generated association lists. -/
def cmOfL (l : List (Nat × List (List Ex))) (c : Nat) : List (List Ex) :=
  ((l.find? fun p => p.1 == c).map (·.2)).getD []

def arOfL (l : List (Nat × Nat)) (c : Nat) : Option Nat :=
  (l.find? fun p => p.1 == c).map (·.2)

/-- one emitted gate of a table row: class, template qubits, parameters as expressions in the
    parameters of the gate being translated. -/
structure SymGate where
  cls    : Nat
  qubits : List Nat
  params : List Ex := []
  deriving Repr, Inhabited

/-- one row (one branch of one entry) of one table.
    `keyParams` describes the branch: the row is the one the code produces when the parameters `θ`
    of the gate satisfy `θ i = keyParams[i](θ)` for every `i` (generic branch: `keyParams = [par 0,
    par 1, …]`; the branch `l == 0` of `_u3_to_gpi2`: `[par 0, par 1, 0]`).
    `ob` is the traced obligation of the row (QV/Gen/C10_Defs.lean: matrices of the emitted gates
    and of the key gate, on that branch). -/
structure SymRow where
  tab       : Nat
  cls       : Nat
  keyParams : List Ex
  gates     : List SymGate
  ob        : Ob
  deriving Repr, Inhabited

/-- the six tables: keys of `decompositions` per table, rows (special branches before the generic
    one), `width` = a bound on the number of gates of a row (used to derive tags). -/
structure SymTables where
  classes : List (List Nat)
  rows    : List SymRow
  width   : Nat
  deriving Repr, Inhabited

/-- tag of the `j`-th gate emitted by row `r` for a key gate whose tag is `tag`: odd numbers encode
    `(tag, r, j)`, even numbers are the caller's own tags. -/
def SymTables.derive (S : SymTables) (tag r j : Nat) : Nat :=
  2 * ((tag * S.rows.length + r) * S.width + j) + 1

/-- the dispatch-level gates of row `r` for a key gate with tag `tag`. -/
def SymTables.emit (S : SymTables) (tag r : Nat) (row : SymRow) : List UGate :=
  row.gates.zipIdx.map fun p => ⟨p.1.cls, p.1.qubits, S.derive tag r p.2, false⟩

/-- traced gate `s` of the obligation is the class matrix of `g.cls` at the parameters `g.params`,
    on `g.qubits`, plain; the parameters are real expressions; the class has the right arity. -/
def gateCheck (ar : Nat → Option Nat) (cm : Nat → List (List Ex)) (np : Nat) (g : SymGate)
    (s : SGate) : Bool :=
  (s.targets == g.qubits) && (s.controls == []) && !s.dagger &&
  squareB (cm g.cls) && squareB s.mat &&
  matEqCheck np (substMat g.params (cm g.cls)) s.mat &&
  g.params.all Ex.isRealB && (ar g.cls == some g.qubits.length)

/-- key gate of the row: the class matrix of `row.cls` on that branch, template qubits. -/
def keyCheck (cm : Nat → List (List Ex)) (row : SymRow) : Bool :=
  let r := row.ob.rs.headD default
  (r.targets == List.range row.ob.n) && (r.controls == []) && !r.dagger &&
  squareB (cm row.cls) && squareB r.mat &&
  matEqCheck row.ob.np (substMat row.keyParams (cm row.cls)) r.mat

def zipAll {α β : Type} (p : α → β → Bool) : List α → List β → Bool
  | [], [] => true
  | a :: as, b :: bs => p a b && zipAll p as bs
  | _, _ => false

/-- kernel-decided per row (`C10_symrow_*_ok`). -/
def symRowCheck (ar : Nat → Option Nat) (cm : Nat → List (List Ex)) (w : Nat) (row : SymRow) :
    Bool :=
  keyCheck cm row && zipAll (gateCheck ar cm row.ob.np) row.gates row.ob.ls &&
    decide (row.gates.length ≤ w)

def SymTables.check (S : SymTables) (ar : Nat → Option Nat) (cm : Nat → List (List Ex)) : Bool :=
  S.rows.all (symRowCheck ar cm S.width)

/-- closure of one symbolic row under a native set (twin of `closedCheck`, per row): a row of the
    one-qubit table in use emits native classes only; a row of a directly emitted two-qubit table
    emits one-qubit gates (re-translated afterwards) and native classes. -/
def rowNative (nat : Natives) (i : Nat) (row : SymRow) : Bool :=
  row.tab != i || row.gates.all fun g => isNative nat g.cls

def rowDirect (nat : Natives) (i : Nat) (row : SymRow) : Bool :=
  row.tab != i || row.gates.all fun g => g.qubits.length == 1 || isNative nat g.cls

def rowClosedB (nat : Natives) (row : SymRow) : Bool :=
  (if nat.testBit cU3 then rowNative nat 1 row
   else if nat.testBit cGPI2 then rowNative nat 0 row else true) &&
  (if nat.testBit cCZ && nat.testBit ciSWAP then
     rowDirect nat 4 row && rowDirect nat 2 row && rowDirect nat 3 row
   else if nat.testBit cCZ then rowDirect nat 2 row
   else if nat.testBit ciSWAP then rowDirect nat 3 row
   else if nat.testBit cCNOT then rowDirect nat 5 row
   else true)

def SymTables.closedB (S : SymTables) (nat : Natives) : Bool := S.rows.all (rowClosedB nat)

end Unroll
end QV
