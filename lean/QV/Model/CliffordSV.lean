/-
  QV.Model.CliffordSV — the operators the tableau rows and the gates denote on state vectors
  (functions `Lab → GI` of the simulator model QV/Model/Sim.lean), executable and import-free:

    * `pauliOp n w`  : the signed Pauli string `(-1)^r ⊗_{k<n} σ(x k, z k)` of a tableau row, as the
                       product of the one-qubit gates `σ(x k, z k)` on the qubits `k < n` (each applied
                       with the simulator's `applyGate`);
    * `Gate.mgate g` : the simulator gate (matrix of QV/Model/CliffordMat.lean on the gate's qubits);
    * `zeroKet n`    : `|0…0⟩`;  `runSV n gs` : the state vector after a list of Clifford gates.

  The driver materialises these on the `2^n` labels and the check compares `runSV` with the real
  state-vector backend (up to the positive/unit scalars of CliffordMat) on every run.
-/
import QV.Model.Sim
import QV.Model.CliffordMat
namespace QV.Cliff
open QV

/-- a 2×2 / 4×4 matrix as the `Nat`-indexed local matrix of a simulator gate. -/
def nat2 (M : M2) : Nat → Nat → GI := fun i j => M ⟨i % 2, Nat.mod_lt _ (by decide)⟩ ⟨j % 2, Nat.mod_lt _ (by decide)⟩
def nat4 (M : M4) : Nat → Nat → GI := fun i j => M ⟨i % 4, Nat.mod_lt _ (by decide)⟩ ⟨j % 4, Nat.mod_lt _ (by decide)⟩

/-- one-qubit simulator gate with matrix `A` on qubit `q`. -/
def g1 (A : M2) (q : Nat) : MGate GI := { mat := nat2 A, targets := [q] }
/-- two-qubit simulator gate with matrix `M` on the ordered pair `(c, t)`. -/
def g2 (M : M4) (c t : Nat) : MGate GI := { mat := nat4 M, targets := [c, t] }

/-- the tensor factor of the row `w` on qubit `k`. -/
def pauliGate (w : Row) (k : Nat) : MGate GI := g1 (sigma (w.x k) (w.z k)) k

/-- product of the tensor factors on the listed qubits (first listed applied last). -/
def pauliList (qs : List Nat) (w : Row) (ψ : Lab → GI) : Lab → GI :=
  qs.foldr (fun k φ => QV.applyGate (pauliGate w k) φ) ψ

/-- the operator of a tableau row on an `n`-qubit register. -/
def pauliOp (n : Nat) (w : Row) (ψ : Lab → GI) : Lab → GI :=
  fun x => sgn w.r * pauliList (List.range n) w ψ x

/-- the simulator gate of a Clifford gate. -/
def Gate.mgate : Gate → MGate GI
  | .I q => g1 (mat1 "I" 0) q | .H q => g1 (mat1 "H" 0) q | .X q => g1 (mat1 "X" 0) q
  | .Y q => g1 (mat1 "Y" 0) q | .Z q => g1 (mat1 "Z" 0) q | .S q => g1 (mat1 "S" 0) q
  | .SDG q => g1 (mat1 "SDG" 0) q | .SX q => g1 (mat1 "SX" 0) q | .SXDG q => g1 (mat1 "SXDG" 0) q
  | .CNOT c t => g2 (mat2 "CNOT" 0) c t | .CZ c t => g2 (mat2 "CZ" 0) c t
  | .CY c t => g2 (mat2 "CY" 0) c t | .SWAP c t => g2 (mat2 "SWAP" 0) c t
  | .iSWAP c t => g2 (mat2 "iSWAP" 0) c t | .FSWAP c t => g2 (mat2 "FSWAP" 0) c t
  | .ECR c t => g2 (mat2 "ECR" 0) c t
  | .RX q k => g1 (mat1 "RX" k) q | .RY q k => g1 (mat1 "RY" k) q | .RZ q k => g1 (mat1 "RZ" k) q
  | .CRX c t k => g2 (mat2 "CRX" k) c t | .CRY c t k => g2 (mat2 "CRY" k) c t
  | .CRZ c t k => g2 (mat2 "CRZ" k) c t

/-- `|0…0⟩` on `n` qubits. -/
def zeroKet (n : Nat) : Lab → GI := fun x => if (List.range n).all (fun k => !x k) then 1 else 0

/-- state vector (unnormalised, over ℤ[i]) after the gate list, starting from `|0…0⟩`. -/
def runSV (n : Nat) (gs : List Gate) : Lab → GI := runCircuit (gs.map Gate.mgate) (zeroKet n)

/-- tableau row after the gate list. -/
def actAll (gs : List Gate) (w : Row) : Row := gs.foldl (fun s g => g.act s) w

end QV.Cliff
