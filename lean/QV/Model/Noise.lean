/-
  QV.Model.Noise — executable model of qibo's noise attachment and of the two noisy
  simulation modes.  Import-free apart from the simulator model.

  MODELLED (hand model, tied by correspondence on every run):

  * `qibo.noise.NoiseModel.add / apply`  (`attachNoise`): the rule table (insertion-ordered
    list of rules keyed by a gate class or by `None`), the lookup
    `errors[gate.__class__] (+ errors[None] unless the gate is a Channel or an M)`, the
    conditions, the qubit filter `gate.qubits ∩ rule.qubits`, the per-error-type channel
    construction (`combinations(qubits, k)` for Kraus/Unitary errors, one single-qubit
    channel per qubit for Pauli / thermal / damping / reset errors, one channel on all the
    qubits for depolarizing and readout errors, the user's channel as it is for
    `CustomError`) and the placement: readout channels before the gate, the others after
    it.  The loops are written as the Python writes them: a left fold over the queue that
    appends to the noisy circuit, an inner left fold over the rule list that appends to
    two buffers.
  * `Circuit.with_pauli_noise` (`withPauliNoise`): the two passes of the Python (first the
    list of noise gates per gate, then the interleaving).
  * `NumpyBackend.apply_channel` / `UnitaryChannel.apply` (`applyChoice`, `runTape`): a
    trajectory is a list of sampled indices, one per channel met;
    `probabilities = coefficients + (1 - sum,)`, `index ≠ len(gates)` applies `gates[index]`,
    the last index applies nothing.
  * `NumpyBackend.apply_channel_density_matrix` is `applyChannelDM` of `QV.Model.Channels`.
-/
import QV.Model.Sim
import QV.Model.Channels
namespace QV.Noise

/-! ## gates and rules as the noise model sees them -/

/-- what `NoiseModel.apply` reads from a gate of the input queue. -/
structure NGate where
  /-- identity of the object (position in the input queue in the driver) -/
  tag    : Nat
  /-- `gate.__class__` (a code) -/
  cls    : Nat
  /-- `gate.qubits` = controls then targets, in the gate's order -/
  qubits : List Nat
  /-- `isinstance(gate, gates.M)` -/
  isM    : Bool := false
  /-- `isinstance(gate, gates.Channel)` -/
  isChan : Bool := false
deriving DecidableEq, Repr

/-- the error classes of `qibo/noise.py`. `kraus k` / `unitary k`: operators act on `k`
qubits (`int(log2(rank))`); `custom qs`: a ready channel on qubits `qs`. -/
inductive ErrKind
  | kraus (k : Nat) | unitary (k : Nat) | pauli | depol | thermal | ampDamp | phaseDamp
  | readout | reset | custom (qs : List Nat)
deriving DecidableEq, Repr

def ErrKind.isReadout : ErrKind → Bool
  | .readout => true
  | _ => false

/-- one entry `(conditions, error, qubits)` of `NoiseModel.errors[key]`. -/
structure Rule where
  /-- `None` or a gate class -/
  key    : Option Nat
  kind   : ErrKind
  /-- `None` or the tuple of qubits the rule is restricted to -/
  qubits : Option (List Nat)
  /-- `None` / list of callables; an empty list means no condition -/
  conds  : List (NGate → Bool)

/-- an element of the noisy queue: an input gate or a channel created by rule number `rule`
(position in the rule list) on the ordered qubits `qs`. -/
inductive Item
  | gate (g : NGate)
  | chan (rule : Nat) (kind : ErrKind) (qs : List Nat)
deriving DecidableEq, Repr

def Item.isChan : Item → Bool
  | .chan .. => true
  | .gate _ => false

def Item.gate? : Item → Option NGate
  | .gate g => some g
  | .chan .. => none

/-! ## `itertools.combinations` -/

/-- `combinations(l, k)` in itertools order. -/
def combos : List Nat → Nat → List (List Nat)
  | _, 0 => [[]]
  | [], _ + 1 => []
  | x :: xs, k + 1 => (combos xs k).map (x :: ·) ++ combos xs (k + 1)

/-! ## `*Error.channel(qubits, options)` : the qubit tuples of the channels created -/

def channelQubits : ErrKind → List Nat → List (List Nat)
  | .kraus k, qs => combos qs k
  | .unitary k, qs => combos qs k
  | .pauli, qs => qs.map fun q => [q]
  | .depol, qs => [qs]
  | .thermal, qs => qs.map fun q => [q]
  | .ampDamp, qs => qs.map fun q => [q]
  | .phaseDamp, qs => qs.map fun q => [q]
  | .readout, qs => [qs]
  | .reset, qs => qs.map fun q => [q]
  | .custom cq, _ => [cq]

/-! ## `NoiseModel.apply` -/

/-- `self.errors[gate.__class__]` (+ `self.errors[None]` unless Channel or M), each rule with
its position in the model. -/
def errorsList (rules : List Rule) (g : NGate) : List (Nat × Rule) :=
  let ir := rules.zipIdx.map fun p => (p.2, p.1)
  let own := ir.filter fun p => p.2.key == some g.cls
  if g.isM || g.isChan then own else own ++ ir.filter fun p => p.2.key == none

/-- `tuple(set(a) & set(b))`: the common elements, each once, ascending (CPython iterates a
set of small integers in ascending order; the correspondence compares these tuples up to
order). -/
def setInter (a b : List Nat) : List Nat :=
  (List.range (a.foldl max 0 + 1)).filter fun q => a.contains q && b.contains q

/-- `gate.qubits if qubits is None else tuple(set(gate.qubits) & set(qubits))`. -/
def ruleQubits (r : Rule) (g : NGate) : List Nat :=
  match r.qubits with
  | none => g.qubits
  | some f => setInter g.qubits f

/-- `conditions is None or all(condition(gate) for condition in conditions)`. -/
def condsHold (r : Rule) (g : NGate) : Bool := r.conds.all fun c => c g

/-- the channels rule `r` (number `i`) attaches to gate `g` (empty if it does not apply). -/
def ruleChannels (i : Nat) (r : Rule) (g : NGate) : List Item :=
  if condsHold r g then
    if (ruleQubits r g).isEmpty then []
    else (channelQubits r.kind (ruleQubits r g)).map fun c => Item.chan i r.kind c
  else []

/-- the body of the loop over `errors_list`: append to `channels_before` (readout) or to
`channels_after`. -/
def ruleStep (g : NGate) (acc : List Item × List Item) (p : Nat × Rule) : List Item × List Item :=
  let cs := ruleChannels p.1 p.2 g
  if p.2.kind.isReadout then (acc.1 ++ cs, acc.2) else (acc.1, acc.2 ++ cs)

/-- the body of the loop over the queue. -/
def gateStep (rules : List Rule) (noisy : List Item) (g : NGate) : List Item :=
  let ba := (errorsList rules g).foldl (ruleStep g) ([], [])
  noisy ++ ba.1 ++ [Item.gate g] ++ ba.2

/-- `NoiseModel.apply(circuit).queue`. -/
def attachNoise (rules : List Rule) (queue : List NGate) : List Item :=
  queue.foldl (gateStep rules) []

/-! ## `Circuit.with_pauli_noise` -/

/-- first pass: `noise_gates[i]`; `pm q` = `q in noise_map and sum(probabilities) > 0`.
A channel created for qubit `q` is recorded as rule number `q`. -/
def pauliNoiseGates (pm : Nat → Bool) (g : NGate) : List Item :=
  if g.isM then [] else (g.qubits.filter pm).map fun q => Item.chan q ErrKind.pauli [q]

/-- second pass: `for i, gate in enumerate(queue): add(gate); add(noise_gates[i])`. -/
def withPauliNoise (pm : Nat → Bool) (queue : List NGate) : List Item :=
  let noise := queue.map (pauliNoiseGates pm)
  (queue.zip noise).foldl (fun acc p => acc ++ [Item.gate p.1] ++ p.2) []

/-! ## the two noisy simulation modes -/

variable {α : Type} [Zero α] [One α] [Add α] [Sub α] [Neg α] [Mul α]

/-- an element of an executable queue: a unitary gate or a unitary-mixture channel
(`coefficients`, `gates`). -/
inductive QItem (α : Type)
  | gate (g : MGate α)
  | mix (ops : List (α × MGate α))

/-- `coefficient_sum`. -/
def coeffSum (ops : List (α × MGate α)) : α := (ops.map (·.1)).foldl (· + ·) 0

/-- what the sampled entry does to the state: `gates[index]`, or nothing for the extra
index `len(gates)`. -/
def optApply : Option (α × MGate α) → (Lab → α) → (Lab → α)
  | some pu, ψ => applyGate pu.2 ψ
  | none, ψ => ψ

/-- its probability: `(coefficients + (1 - sum,))[index]`. -/
def optProb (ops : List (α × MGate α)) : Option (α × MGate α) → α
  | some pu => pu.1
  | none => 1 - coeffSum ops

/-- `apply_channel` once the index has been sampled (`if index != len(gates)`). -/
def applyChoice (ops : List (α × MGate α)) (i : Nat) (ψ : Lab → α) : Lab → α :=
  optApply ops[i]? ψ

/-- probability of index `i`. -/
def choiceProb (ops : List (α × MGate α)) (i : Nat) : α := optProb ops ops[i]?

/-- one state-vector shot with the sampled indices `tape` (one per channel, in order). -/
def runTape : List (QItem α) → List Nat → (Lab → α) → (Lab → α)
  | [], _, ψ => ψ
  | .gate g :: r, τ, ψ => runTape r τ (applyGate g ψ)
  | .mix ops :: r, i :: τ, ψ => runTape r τ (applyChoice ops i ψ)
  | .mix _ :: r, [], ψ => runTape r [] ψ

/-- probability of the tape. -/
def tapeProb : List (QItem α) → List Nat → α
  | [], _ => 1
  | .gate _ :: r, τ => tapeProb r τ
  | .mix ops :: r, i :: τ => choiceProb ops i * tapeProb r τ
  | .mix _ :: r, [] => tapeProb r []

/-- all tapes: every channel chooses an index in `0 … len(gates)`. -/
def tapes : List (QItem α) → List (List Nat)
  | [] => [[]]
  | .gate _ :: r => tapes r
  | .mix ops :: r => (List.range (ops.length + 1)).flatMap fun i => (tapes r).map (i :: ·)

/-- density-matrix execution: gates by `ρ ↦ GρG†`, channels by
`apply_channel_density_matrix`. -/
def runQueueDM (conj : α → α) (q : List (QItem α)) (ρ : DM α) : DM α :=
  q.foldl (fun s it =>
    match it with
    | .gate g => applyGateDM conj g s
    | .mix ops => applyChannelDM conj (unitaryChan (ops.map (·.1)) (ops.map (·.2))) s) ρ

/-- the probability-weighted sum of the projectors of all trajectories. -/
def trajectoryMean (conj : α → α) (q : List (QItem α)) (ψ : Lab → α) : DM α := fun x y =>
  ((tapes q).map fun τ => tapeProb q τ * (runTape q τ ψ x * conj (runTape q τ ψ y))).foldl (· + ·) 0

end QV.Noise
