/-
  QV.Model.Channels — executable model of qibo's noise channels (import-free).

  Anchors:  gates/channels.py  (constructors of the Kraus operators / coefficients,
            `Channel.to_choi / to_liouville / to_pauli_liouville`, the channel object
            whose `coefficients / gates / coefficient_sum` the simulator iterates over)
            backends/numpy.py  (`apply_channel_density_matrix`,
            `reset_error_density_matrix`, `depolarizing_error_density_matrix`,
            `thermal_error_density_matrix`, `ThermalRelaxationChannel.apply_density_matrix`)
            quantum_info/linalg_operations.py (`partial_trace`)
            quantum_info/superoperator_transformations.py (`vectorization`, `_reshuffling`)

  Density matrices are functions of a row label and a column label (`QV.DM`), gates are
  `QV.MGate`; no register size appears except where the code itself uses it (thermal fast
  path: qubits `(q, q + nqubits)` of the flattened state; superoperator matrices).

  The scalar type is generic.  Square roots / exponentials are *inputs* of the constructors
  (`a` with `a*a = p`), so the same definitions run over Gaussian integers, over complex
  doubles (driver) and over any commutative ring (proofs).

  MODELLED (hand model, tied by correspondence on every run): the effect of the
  reshape / transpose / tensordot / einsum pipelines of the fast paths, in the order the code
  performs them (partial trace → tensor with |0⟩⟨0| or I/2^k at the traced position → X → mix).
-/
import QV.Model.Sim
namespace QV

variable {α : Type} [Zero α] [One α] [Add α] [Sub α] [Neg α] [Mul α]

/-! ### the channel object and the generic path -/

/-- what `apply_channel_density_matrix` reads from a channel. -/
structure Chan (α : Type) where
  coeffs : List α
  gates  : List (MGate α)
  csum   : α

/-- `new_state = c0 * state; for coeff, gate in zip(coefficients, gates):
    new_state += coeff * apply_gate_density_matrix(gate, state)`. -/
def krausFold (conj : α → α) (c0 : α) (terms : List (α × MGate α)) (ρ : DM α) : DM α :=
  terms.foldl (fun acc cg => fun x y => acc x y + cg.1 * applyGateDM conj cg.2 ρ x y)
    (fun x y => c0 * ρ x y)

/-- `NumpyBackend.apply_channel_density_matrix`: `c0 = 1 - coefficient_sum`. -/
def applyChannelDM (conj : α → α) (ch : Chan α) (ρ : DM α) : DM α :=
  krausFold conj (1 - ch.csum) (ch.coeffs.zip ch.gates) ρ

/-! ### partial trace and the closed-form fast paths -/

/-- `partial_trace(ρ, qs)` as a function of the remaining bits: bits `qs` of `x`,`y` are
ignored, `Σ_z ρ(x[qs:=z], y[qs:=z])`. -/
def ptraceSet (qs : List Nat) (ρ : DM α) : DM α := fun x y =>
  sumOver qs (fun z => ρ z (Lab.setMany y qs z)) x

/-- Pauli matrices (local, 2×2). -/
def matX : Nat → Nat → α := fun i j => if i + j = 1 then 1 else 0
def matZ : Nat → Nat → α := fun i j => if i = j then (if i = 0 then 1 else -1) else 0
def matY (I : α) : Nat → Nat → α := fun i j =>
  if i = 0 ∧ j = 1 then -I else if i = 1 ∧ j = 0 then I else 0
def matI : Nat → Nat → α := fun i j => if i = j then 1 else 0

def gX (q : Nat) : MGate α := { mat := matX, targets := [q] }
def gZ (q : Nat) : MGate α := { mat := matZ, targets := [q] }

/-- `tensordot(trace, |0⟩⟨0|)` moved to position `q`: `Tr_q ρ ⊗ |0⟩⟨0|_q`. -/
def traceZero (q : Nat) (ρ : DM α) : DM α := fun x y =>
  if x q = false ∧ y q = false then ptraceSet [q] ρ x y else 0

/-- `reset_error_density_matrix`:
    `state = c0 * state + p_0 * zero;  return state + p_1 * apply_gate_dm(X(q), zero)`
    with `c0 = 1 - p_0 - p_1`. -/
def resetFast (conj : α → α) (c0 p0 p1 : α) (q : Nat) (ρ : DM α) : DM α :=
  let zero := traceZero q ρ
  fun x y => (c0 * ρ x y + p0 * zero x y) + p1 * applyGateDM conj (gX q) zero x y

/-- `depolarizing_error_density_matrix`: `c0 * state + lam * (Tr_qs ρ ⊗ I/2^k)`;
    `c0 = 1 - lam`, `w = lam / 2^k` (the normalised identity is scaled by `lam`). -/
def depolFast (c0 w : α) (qs : List Nat) (ρ : DM α) : DM α := fun x y =>
  c0 * ρ x y + w * (if qs.all (fun q => x q == y q) then ptraceSet qs ρ x y else 0)

/-- `ThermalRelaxationChannel.apply_density_matrix`, regime `t_1 >= t_2`:
    `reset(state) - p_z * state + p_z * apply_gate_dm(Z(q), state)` (repaired target: the
    channel's own qubit). -/
def thermalFastHi (conj : α → α) (c0 p0 p1 pz : α) (q : Nat) (ρ : DM α) : DM α := fun x y =>
  (resetFast conj c0 p0 p1 q ρ x y - pz * ρ x y) + pz * applyGateDM conj (gZ q) ρ x y

/-- flattened density matrix: a state vector on `2n` qubits (row bits then column bits). -/
def flattenDM (n : Nat) (ρ : DM α) : Lab → α := fun z => ρ (fun r => r < n && z r) (fun r => r < n && z (r + n))
def unflattenDM (n : Nat) (ψ : Lab → α) : DM α := fun x y =>
  ψ (fun r => if r < n then x r else (r - n < n && y (r - n)))

/-- the 4×4 matrix of the regime `t_1 < t_2` (row-major on (row bit, column bit)). -/
def thermalMat (p0 p1 e : α) : Nat → Nat → α := fun i j =>
  if i = 0 ∧ j = 0 then 1 - p1 else if i = 0 ∧ j = 3 then p0
  else if i = 1 ∧ j = 1 then e else if i = 2 ∧ j = 2 then e
  else if i = 3 ∧ j = 0 then p1 else if i = 3 ∧ j = 3 then 1 - p0 else 0

/-- `thermal_error_density_matrix`: `apply_gate(Unitary(M, q, q+n), state.ravel(), 2n)`. -/
def thermalFastLo (n : Nat) (M : Nat → Nat → α) (q : Nat) (ρ : DM α) : DM α :=
  unflattenDM n (applyGate { mat := M, targets := [q, q + n] } (flattenDM n ρ))

/-! ### constructors of the built-in channels (`*Channel.__init__`) -/

def mat2 (a b c d : α) : Nat → Nat → α := fun i j =>
  if i = 0 then (if j = 0 then a else b) else (if j = 0 then c else d)

def g1 (q : Nat) (m : Nat → Nat → α) : MGate α := { mat := m, targets := [q] }

/-- a `KrausChannel` from explicit gates: coefficients all `1`, `coefficient_sum = 1`. -/
def krausChan (gs : List (MGate α)) : Chan α :=
  { coeffs := gs.map (fun _ => 1), gates := gs, csum := 1 }

/-- a `UnitaryChannel`: probabilities and gates, `coefficient_sum = Σ p`. -/
def unitaryChan (ps : List α) (gs : List (MGate α)) : Chan α :=
  { coeffs := ps, gates := gs, csum := ps.foldl (· + ·) 0 }

/-- `AmplitudeDampingChannel(q, γ)`: `s = √(1-γ)`, `a = √γ`. -/
def ampDampChan (s a : α) (q : Nat) : Chan α :=
  krausChan [g1 q (mat2 1 0 0 s), g1 q (mat2 0 a 0 0)]

/-- `PhaseDampingChannel(q, γ)`. -/
def phaseDampChan (s a : α) (q : Nat) : Chan α :=
  krausChan [g1 q (mat2 1 0 0 s), g1 q (mat2 0 0 0 a)]

/-- `ResetChannel(q, [p0, p1])`: `a = √p0`, `b = √p1`, `c = √|1-p0-p1|`; the identity
operator is appended iff `p0 + p1 < 1` (`withId`). -/
def resetChan (a b c : α) (withId : Bool) (q : Nat) : Chan α :=
  krausChan ([g1 q (mat2 a 0 0 0), g1 q (mat2 0 a 0 0), g1 q (mat2 0 0 b 0), g1 q (mat2 0 0 0 b)]
    ++ (if withId then [g1 q (mat2 c 0 0 c)] else []))

/-- `ThermalRelaxationChannel`, regime `t_1 >= t_2`: `a = √p0`, `b = √p1`, `z = √p_z`,
`c = √(1-p0-p1-p_z)`. -/
def thermalChanHi (a b z c : α) (q : Nat) : Chan α :=
  krausChan [g1 q (mat2 a 0 0 0), g1 q (mat2 0 a 0 0), g1 q (mat2 0 0 b 0), g1 q (mat2 0 0 0 b),
    g1 q (mat2 z 0 0 (-z)), g1 q (mat2 c 0 0 c)]

/-- `ThermalRelaxationChannel`, regime `t_1 < t_2`: `a = √p0`, `b = √p1` and the two scaled
eigenvectors `diag(x₁, y₁)`, `diag(x₂, y₂)` of the block `[[1-p1, e],[e, 1-p0]]` of the Choi
matrix (`xᵢ = sᵢ·elementᵢ`, `yᵢ = sᵢ`, `sᵢ = √(eigenvalueᵢ / (1 + elementᵢ²))`). -/
def thermalChanLo (a b x1 y1 x2 y2 : α) (q : Nat) : Chan α :=
  krausChan [g1 q (mat2 0 a 0 0), g1 q (mat2 0 0 b 0), g1 q (mat2 x1 0 0 y1), g1 q (mat2 x2 0 0 y2)]

/-- single-qubit Pauli by code: 0 I, 1 X, 2 Y, 3 Z. -/
def pauliMat (I : α) : Nat → Nat → Nat → α
  | 0 => matI
  | 1 => matX
  | 2 => matY I
  | _ => matZ

/-- matrix of a Pauli string on `k = codes.length` qubits (first code = most significant bit). -/
def pauliStringMat (I : α) : List Nat → Nat → Nat → α
  | [], _, _ => 1
  | c :: cs, i, j =>
      pauliMat I c (i / 2 ^ cs.length % 2) (j / 2 ^ cs.length % 2)
        * pauliStringMat I cs (i % 2 ^ cs.length) (j % 2 ^ cs.length)

/-- `PauliNoiseChannel(qubits, [(string, p), …])`: Pauli `string[t]` acts on `qubits[t]`. -/
def pauliChan (I : α) (qs : List Nat) (ops : List (List Nat × α)) : Chan α :=
  unitaryChan (ops.map (·.2)) (ops.map fun o => { mat := pauliStringMat I o.1, targets := qs })

/-- all base-4 strings of length `k` in `itertools.product("IXYZ", repeat=k)` order. -/
def pauliCodes : Nat → List (List Nat)
  | 0 => [[]]
  | k + 1 => [0, 1, 2, 3].flatMap fun c => (pauliCodes k).map (c :: ·)

/-- `DepolarizingChannel(qubits, lam)`: every non-identity string with probability
`u = lam / 4^k`. -/
def depolChan (I u : α) (qs : List Nat) : Chan α :=
  pauliChan I qs (((pauliCodes qs.length).drop 1).map fun c => (c, u))

/-- `ReadoutErrorChannel(qubits, P)`: operators `√P[k,j] · |j⟩⟨k|` for `j, k < d`
(`sq k j = √P[k,j]`), in the order of the double loop (j outer, k inner). -/
def readoutChan (sq : Nat → Nat → α) (d : Nat) (qs : List Nat) : Chan α :=
  krausChan ((List.range d).flatMap fun j => (List.range d).map fun k =>
    { mat := fun r c => if r = j ∧ c = k then sq k j else 0, targets := qs })

/-! ### superoperator views (`to_choi`, `to_liouville`) on an `n`-qubit register -/

/-- full `2^n × 2^n` matrix of a gate (what `FusedGate(*range(n)).append(gate).matrix()`
returns): entry `(i, j)` = amplitude of basis label `i` after applying the gate to `|j⟩`. -/
def fullMat (n : Nat) (g : MGate α) (i j : Nat) : α :=
  applyGate g (fun y => if Lab.toIndex n y = j then 1 else 0) (Lab.ofIndex n i)

/-- the term list `to_choi` iterates over: the channel's terms plus, for channels that are
not plain Kraus / readout channels, the identity with the missing weight `c0 = 1 - Σ coeffs`
when `addId` (`c0 > PRECISION_TOL`). -/
def choiTerms (n : Nat) (ch : Chan α) (addId : Bool) (c0 : α) : List (α × (Nat → Nat → α)) :=
  (ch.coeffs.zip (ch.gates.map (fullMat n))) ++ (if addId then [(c0, matI)] else [])

/-- `Σ coeff · outer(vec(K), conj(vec(K)))`; row vectorisation `vec(K)[i·D+k] = K[i,k]`,
column vectorisation `vec(K)[k·D+i] = K[i,k]`. -/
def choiOf (conj : α → α) (D : Nat) (col : Bool) (terms : List (α × (Nat → Nat → α)))
    (r s : Nat) : α :=
  terms.foldl (fun acc t =>
    let v : Nat → α := fun a => if col then t.2 (a % D) (a / D) else t.2 (a / D) (a % D)
    acc + t.1 * (v r * conj (v s))) 0

/-- `_reshuffling`: row order swaps axes 1,2; column order swaps axes 0,3 of the
`D×D×D×D` tensor. -/
def reshuffle (D : Nat) (col : Bool) (A : Nat → Nat → α) (r s : Nat) : α :=
  let a := r / D; let b := r % D; let c := s / D; let d := s % D
  if col then A (d * D + b) (c * D + a) else A (a * D + c) (b * D + d)

def liouvilleOf (conj : α → α) (D : Nat) (col : Bool) (terms : List (α × (Nat → Nat → α))) :
    Nat → Nat → α :=
  reshuffle D col (choiOf conj D col terms)

/-- `to_pauli_liouville` (pauli_order "IXYZ", unnormalised): `U L U†` with
`U[a, r] = conj(vec_row(P_a)[r])`, `P_a` the `a`-th Pauli string on `n` qubits. -/
def pauliLiouvilleOf (conj : α → α) (I : α) (n : Nat) (L : Nat → Nat → α) (a b : Nat) : α :=
  let D := 2 ^ n
  let codes := pauliCodes n
  let vp : Nat → Nat → α := fun k r => pauliStringMat I (codes.getD k []) (r / D) (r % D)
  (List.range (D * D)).foldl (fun acc r =>
    (List.range (D * D)).foldl (fun acc2 s => acc2 + conj (vp a r) * L r s * vp b s) acc) 0

/-! ### the channel object under representation queries -/

/-- the calls a user can interleave on one channel object. -/
inductive Query where
  | choi | liouville | pauliLiouville
  deriving DecidableEq, Repr

/-- repaired `to_choi`: works on local copies, the object is returned unchanged.
(`to_liouville` and `to_pauli_liouville` call `to_choi`.) -/
def Chan.query (ch : Chan α) (_ : Query) : Chan α := ch

/-- the defective `to_choi` of the original code (F7): the identity term is appended to
`self.coefficients / self.gates` but `coefficient_sum` is not updated. -/
def Chan.queryMutating (ch : Chan α) (idq : List Nat) (addId : Bool) (c0 : α) (_ : Query) : Chan α :=
  if addId then { ch with coeffs := ch.coeffs ++ [c0], gates := ch.gates ++ [{ mat := matI, targets := idq }] }
  else ch

end QV
