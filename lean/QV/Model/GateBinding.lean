/-
  QV.Model.GateBinding — executable model (import-free) of WHICH EXECUTION the gate-level
  measurement result `m = circuit.add(gates.M(...))` (a `MeasurementResult`) describes
  (property C14), for non-repeated executions of ONE circuit object.

  MODELLED (hand model, tied to /repo by the `gate-binding` suite of tools/props/C14.py):
    measurements.py      MeasurementResult.circuit, samples() (own rows, else
                         `self.circuit.final_state.samples()`), reset, register_samples
    models/circuit.py    Circuit.add (`gate.result.circuit = self`), Circuit.__add__ (a new circuit
                         sharing the gate objects), Circuit.final_state (raises before execution)
    backends/numpy.py    execute_circuit: plain branch (reset, `circuit._final_state`), branch
                         "initial state given as a Circuit" (executes the temporary `initial_state +
                         circuit`)
    result.py            samples(): a result draws its rows once and registers them on the gates

  Addresses of circuits: 0 = the circuit object, `t ≥ 1` = the temporary sum circuits.
  Executions are numbered in order.  All measurement gates of the circuit move together.
-/
namespace QV.GB

structure Cfg where
  /-- the branch "initial state is a Circuit" writes `circuit._final_state` and re-binds the
  circuit's measurement results to the circuit (the repair) -/
  rebind : Bool
  /-- `Circuit.add` points the gate's result to the circuit the gate is added to, always
  (`false`: only when it has no circuit yet — the seeded variant C14-9) -/
  addRepoints : Bool := true
  /-- an execution resets the measurement gates' shared results (`false`: the seeded variant C14-10
  for density-matrix circuits, where the reset was moved into `M.apply` only) -/
  resets : Bool := true
deriving DecidableEq, Repr

structure St where
  /-- `gate.result.circuit` -/
  bound : Nat := 0
  /-- `_final_state` of every circuit (execution number) -/
  finals : List (Option Nat) := [none]
  /-- whose rows the gates' results hold (`none` after `reset`) -/
  cache : Option Nat := none
  /-- per execution: its result object has drawn its samples -/
  drawn : List Bool := []
deriving DecidableEq, Repr

inductive Op
  /-- `circuit(nshots=…)` / array initial state -/
  | plain
  /-- `circuit(initial_state=prep_circuit)` -/
  | prep
  /-- `m.samples()` -/
  | readGate
  /-- `results[e].samples()` -/
  | readRes (e : Nat)
deriving DecidableEq, Repr

inductive Ans
  | created (e : Nat)
  /-- the rows of execution `e` -/
  | rows (e : Nat)
  | raises
  /-- returns `None` -/
  | nothing
  | invalid
deriving DecidableEq, Repr

def Op.isExec : Op → Bool
  | .plain => true
  | .prep => true
  | _ => false

def step (c : Cfg) (σ : St) : Op → St × Ans
  | .plain =>
    let e := σ.drawn.length
    ({ σ with finals := σ.finals.set 0 (some e), cache := if c.resets then none else σ.cache,
              drawn := σ.drawn ++ [false] }, .created e)
  | .prep =>
    let e := σ.drawn.length
    let t := σ.finals.length
    let fin := σ.finals ++ [some e]
    ({ bound := if c.rebind then 0 else if c.addRepoints then t else σ.bound,
       finals := if c.rebind then fin.set 0 (some e) else fin,
       cache := if c.resets then none else σ.cache, drawn := σ.drawn ++ [false] }, .created e)
  | .readGate =>
    match σ.cache with
    | some e => (σ, .rows e)
    | none =>
      match (σ.finals[σ.bound]?).join with
      | none => (σ, .raises)
      | some e =>
        if σ.drawn.getD e true then (σ, .nothing)
        else ({ σ with cache := some e, drawn := σ.drawn.set e true }, .rows e)
  | .readRes e =>
    match σ.drawn[e]? with
    | none => (σ, .invalid)
    | some true => (σ, .rows e)
    | some false => ({ σ with cache := some e, drawn := σ.drawn.set e true }, .rows e)

def runFrom (c : Cfg) : St → List Op → List Ans
  | _, [] => []
  | σ, op :: ops => (step c σ op).2 :: runFrom c (step c σ op).1 ops

def stateAfter (c : Cfg) : St → List Op → St
  | σ, [] => σ
  | σ, op :: ops => stateAfter c (step c σ op).1 ops

def run (c : Cfg) (h : List Op) : List Ans := runFrom c {} h

/-- number of executions of a history. -/
def nexec (h : List Op) : Nat := (h.filter Op.isExec).length

end QV.GB
