/-
  QV.Proofs.ChannelsTP — trace preservation / unitality of the constructors that build their
  operators on one ordered target tuple: `ReadoutErrorChannel` (`readoutChan`) and the k-qubit
  `PauliNoiseChannel` (`pauliChan`), for every tuple length.
-/
import Mathlib.Algebra.BigOperators.Group.Finset.Basic
import Mathlib.Algebra.BigOperators.Ring.Finset
import Mathlib.Algebra.BigOperators.Intervals
import Mathlib.Algebra.BigOperators.Group.List.Basic
import Mathlib.Algebra.BigOperators.Ring.List
import QV.Proofs.Channels
import QV.Proofs.Depol
import QV.Proofs.Superop
import Mathlib.Tactic.IntervalCases

namespace QV
open Finset

variable {α : Type} [CommRing α]

/-! ### list sums -/

theorem list_range_map_sum (d : Nat) (f : Nat → α) :
    ((List.range d).map f).sum = ∑ j ∈ range d, f j := by
  induction d with
  | zero => simp
  | succ d ih => rw [List.range_succ, List.map_append, List.sum_append, ih, sum_range_succ]; simp

theorem list_flatMap_map_sum {β γ : Type} (l : List β) (F : β → List γ) (h : γ → α) :
    ((l.flatMap F).map h).sum = (l.map (fun j => ((F j).map h).sum)).sum := by
  induction l with
  | nil => simp
  | cons x xs ih => simp only [List.flatMap_cons, List.map_append, List.sum_append, ih,
      List.map_cons, List.sum_cons]

theorem list_weighted_double_sum {β : Type} (l : List β) (c : β → α) (G : β → Nat → Nat → α)
    (R : Nat → Nat → α) (s : Finset Nat) :
    (l.map (fun t => c t * ∑ a ∈ s, ∑ b ∈ s, G t a b * R a b)).sum
      = ∑ a ∈ s, ∑ b ∈ s, (l.map (fun t => c t * G t a b)).sum * R a b := by
  induction l with
  | nil => simp
  | cons t tl ih =>
    rw [List.map_cons, List.sum_cons, ih]
    simp only [List.map_cons, List.sum_cons, add_mul, sum_add_distrib, mul_sum, mul_assoc]

/-! ### Gram matrices and the partial trace of one Kraus term -/

/-- Gram entry `(M†M)[a,b]` of a local matrix of size `d`. -/
def gram (conj : α → α) (d : Nat) (m : Nat → Nat → α) (a b : Nat) : α :=
  ∑ i ∈ range d, conj (m i a) * m i b

/-- partial trace over the targets of `G ρ G†`, through the Gram matrix of `G`. -/
theorem trN_applyGateDM_gram (conj : α → α) (m : Nat → Nat → α) (ts : List Nat) (hn : ts.Nodup)
    (ρ : DM α) (z : Lab) :
    trN ts (applyGateDM conj { mat := m, targets := ts } ρ) z
      = ∑ a ∈ range (2 ^ ts.length), ∑ b ∈ range (2 ^ ts.length),
          gram conj (2 ^ ts.length) m b a * ρ (Lab.wIdx z ts a) (Lab.wIdx z ts b) := by
  unfold trN
  rw [sumOver_eq_sum' hn]
  have step : ∀ i ∈ range (2 ^ ts.length),
      applyGateDM conj { mat := m, targets := ts } ρ (Lab.wIdx z ts i) (Lab.wIdx z ts i)
        = ∑ a ∈ range (2 ^ ts.length), ∑ b ∈ range (2 ^ ts.length),
            (conj (m i b) * m i a) * ρ (Lab.wIdx z ts a) (Lab.wIdx z ts b) := by
    intro i hi
    rw [applyGateDM_eq_sum conj m ts hn, Lab.idx_wIdx z hn (mem_range.mp hi)]
    simp only [Lab.wIdx_wIdx]
    exact sum_congr rfl fun a _ => sum_congr rfl fun b _ => by ring
  rw [sum_congr rfl step, sum_comm]
  apply sum_congr rfl
  intro a _
  rw [sum_comm]
  apply sum_congr rfl
  intro b _
  rw [gram, sum_mul]

/-- **trace preservation of a Kraus family on one target tuple**: if
`c0·1 + Σ_k c_k K_k†K_k = 1` (entrywise, on indices `< 2^|ts|`) then `Tr_ts` is preserved —
the generalisation of `trN_krausFold_unitary` from unitaries to arbitrary operators. -/
theorem trN_krausFold_sameTargets (conj : α → α) (ts : List Nat) (hn : ts.Nodup) (c0 : α)
    (terms : List (α × (Nat → Nat → α)))
    (hTP : ∀ a b, a < 2 ^ ts.length → b < 2 ^ ts.length →
      c0 * (if a = b then 1 else 0)
        + (terms.map (fun t => t.1 * gram conj (2 ^ ts.length) t.2 a b)).sum
        = if a = b then 1 else 0)
    (ρ : DM α) (z : Lab) :
    trN ts (krausFold conj c0
        (terms.map (fun t => (t.1, ({ mat := t.2, targets := ts } : MGate α)))) ρ) z
      = trN ts ρ z := by
  rw [trN_krausFold, List.map_map]
  simp only [Function.comp_def, trN_applyGateDM_gram conj _ ts hn]
  have e0 : trN ts ρ z = ∑ a ∈ range (2 ^ ts.length), ∑ b ∈ range (2 ^ ts.length),
      (if b = a then (1 : α) else 0) * ρ (Lab.wIdx z ts a) (Lab.wIdx z ts b) := by
    unfold trN
    rw [sumOver_eq_sum' hn]
    apply sum_congr rfl
    intro a ha
    simp only [ite_mul, one_mul, zero_mul]
    rw [sum_ite_eq', if_pos ha]
  rw [list_weighted_double_sum, e0, mul_sum, ← sum_add_distrib]
  apply sum_congr rfl
  intro a ha
  rw [mul_sum, ← sum_add_distrib]
  apply sum_congr rfl
  intro b hb
  linear_combination (ρ (Lab.wIdx z ts a) (Lab.wIdx z ts b)) * hTP b a (mem_range.mp hb) (mem_range.mp ha)

/-! ### `ReadoutErrorChannel`: the operators `√P[k,j]·|j⟩⟨k|` -/

/-- the operator `√P[k,j]·|j⟩⟨k|` (`sq k j = √P[k,j]`). -/
def readoutOp (sq : Nat → Nat → α) (j k : Nat) : Nat → Nat → α :=
  fun r c => if r = j ∧ c = k then sq k j else 0

/-- the index pairs of the constructor's double loop (`j` outer, `k` inner). -/
def readoutPairs (d : Nat) : List (Nat × Nat) :=
  (List.range d).flatMap fun j => (List.range d).map fun k => (j, k)

/-- **the model's gate list is exactly that family**, on the given ordered targets. -/
theorem readoutChan_gates (sq : Nat → Nat → α) (d : Nat) (qs : List Nat) :
    (readoutChan sq d qs).gates
      = (readoutPairs d).map (fun p => ({ mat := readoutOp sq p.1 p.2, targets := qs } : MGate α)) := by
  simp only [readoutChan, krausChan, readoutPairs, List.map_flatMap, List.map_map,
    Function.comp_def]
  rfl

theorem readoutChan_csum (sq : Nat → Nat → α) (d : Nat) (qs : List Nat) :
    (readoutChan sq d qs).csum = 1 := rfl

theorem readoutChan_terms (sq : Nat → Nat → α) (d : Nat) (qs : List Nat) :
    (readoutChan sq d qs).coeffs.zip (readoutChan sq d qs).gates
      = ((readoutPairs d).map (fun p => ((1 : α), readoutOp sq p.1 p.2))).map
          (fun t => (t.1, ({ mat := t.2, targets := qs } : MGate α))) := by
  have hc : (readoutChan sq d qs).coeffs = (readoutChan sq d qs).gates.map (fun _ => (1 : α)) := rfl
  rw [hc, readoutChan_gates, List.map_map, List.map_map]
  conv_lhs => rw [← List.map_id ((readoutPairs d).map _)]
  rw [List.map_map, List.zip_map']
  simp [Function.comp_def]

/-- Gram matrix of one readout operator. -/
theorem gram_readoutOp (conj : α →+* α) (sq : Nat → Nat → α) {d j : Nat} (hj : j < d)
    (k a b : Nat) :
    gram conj d (readoutOp sq j k) a b
      = if a = k ∧ b = k then conj (sq k j) * sq k j else 0 := by
  unfold gram readoutOp
  rw [sum_eq_single j]
  · by_cases ha : a = k <;> by_cases hb : b = k <;> simp [ha, hb]
  · intro i _ hi; simp [hi]
  · intro h; exact absurd (mem_range.mpr hj) h

/-- **`Σ_{j,k} K_{jk}† K_{jk} = diag(Σ_j P[a,j])`** for the operators the constructor builds, in
every dimension `d`. -/
theorem readout_gram_sum (conj : α →+* α) (sq P : Nat → Nat → α)
    (hsq : ∀ k j, sq k j * sq k j = P k j) (hreal : ∀ k j, conj (sq k j) = sq k j)
    (d : Nat) {a : Nat} (ha : a < d) (b : Nat) :
    ((readoutPairs d).map (fun p => (1 : α) * gram conj d (readoutOp sq p.1 p.2) a b)).sum
      = if a = b then ∑ j ∈ range d, P a j else 0 := by
  rw [readoutPairs, list_flatMap_map_sum, list_range_map_sum]
  simp only [List.map_map, Function.comp_def, list_range_map_sum, one_mul]
  have inner : ∀ j ∈ range d, ∑ k ∈ range d, gram conj d (readoutOp sq j k) a b
      = if a = b then P a j else 0 := by
    intro j hj
    rw [sum_congr rfl (fun k _ => gram_readoutOp conj sq (mem_range.mp hj) k a b)]
    rw [sum_eq_single a]
    · by_cases hab : a = b
      · subst hab; simp [hreal, hsq]
      · have : ¬ b = a := fun h => hab h.symm
        simp [hab, this]
    · intro k _ hk
      have : ¬ a = k := fun h => hk h.symm
      simp [this]
    · intro h; exact absurd (mem_range.mpr ha) h
  rw [sum_congr rfl inner]
  by_cases hab : a = b <;> simp [hab]

/-- the trace-preservation condition on the operators, entry by entry. -/
def ReadoutTP (conj : α → α) (sq : Nat → Nat → α) (d : Nat) : Prop :=
  ∀ a b, a < d → b < d →
    ((readoutPairs d).map (fun p => (1 : α) * gram conj d (readoutOp sq p.1 p.2) a b)).sum
      = if a = b then 1 else 0

/-- **trace preserving ⇔ row-stochastic**, every dimension. -/
theorem readoutTP_iff (conj : α →+* α) (sq P : Nat → Nat → α)
    (hsq : ∀ k j, sq k j * sq k j = P k j) (hreal : ∀ k j, conj (sq k j) = sq k j) (d : Nat) :
    ReadoutTP conj sq d ↔ ∀ a, a < d → ∑ j ∈ range d, P a j = 1 := by
  constructor
  · intro h a ha
    have := h a a ha ha
    rwa [readout_gram_sum conj sq P hsq hreal d ha, if_pos rfl, if_pos rfl] at this
  · intro h a b ha _
    rw [readout_gram_sum conj sq P hsq hreal d ha]
    by_cases hab : a = b
    · subst hab; simp [h a ha]
    · simp [hab]

/-- **label level**: a row-stochastic `P` makes the executed readout channel preserve the
partial trace over its targets, for every tuple length, every `ρ`. -/
theorem trN_readoutChan (conj : α →+* α) (sq P : Nat → Nat → α)
    (hsq : ∀ k j, sq k j * sq k j = P k j) (hreal : ∀ k j, conj (sq k j) = sq k j)
    (qs : List Nat) (hn : qs.Nodup)
    (hP : ∀ a, a < 2 ^ qs.length → ∑ j ∈ range (2 ^ qs.length), P a j = 1) (ρ : DM α) (z : Lab) :
    trN qs (applyChannelDM conj (readoutChan sq (2 ^ qs.length) qs) ρ) z = trN qs ρ z := by
  rw [applyChannelDM, readoutChan_terms, readoutChan_csum]
  apply trN_krausFold_sameTargets conj qs hn
  intro a b ha hb
  rw [List.map_map]
  simp only [Function.comp_def]
  rw [(readoutTP_iff conj sq P hsq hreal (2 ^ qs.length)).mpr hP a b ha hb]
  ring

/-! ### k-qubit Pauli strings: Hermitian and unitary, every string length -/

theorem pauliMat_herm (conj : α →+* α) (I : α) (hcI : conj I = -I) (c i j : Nat) :
    conj (pauliMat I c i j) = pauliMat I c j i := by
  rcases c with _ | _ | _ | c
  · by_cases h : i = j
    · subst h; simp [pauliMat, matI]
    · have : ¬ j = i := fun e => h e.symm
      simp [pauliMat, matI, h, this]
  · by_cases h : i + j = 1
    · have : j + i = 1 := by omega
      simp [pauliMat, matX, h, this]
    · have : ¬ j + i = 1 := by omega
      simp [pauliMat, matX, h, this]
  · simp only [pauliMat, matY]
    by_cases h1 : i = 0 ∧ j = 1
    · obtain ⟨rfl, rfl⟩ := h1; simp [hcI]
    · by_cases h2 : i = 1 ∧ j = 0
      · obtain ⟨rfl, rfl⟩ := h2; simp [hcI]
      · have h3 : ¬ (j = 0 ∧ i = 1) := fun h => h2 ⟨h.2, h.1⟩
        have h4 : ¬ (j = 1 ∧ i = 0) := fun h => h1 ⟨h.2, h.1⟩
        simp [h1, h2, h3, h4]
  · by_cases h : i = j
    · subst h; by_cases h0 : i = 0 <;> simp [pauliMat, matZ, h0]
    · have : ¬ j = i := fun e => h e.symm
      simp [pauliMat, matZ, h, this]

theorem pauliStringMat_herm (conj : α →+* α) (I : α) (hcI : conj I = -I) :
    ∀ (codes : List Nat) (i j : Nat),
      conj (pauliStringMat I codes i j) = pauliStringMat I codes j i
  | [], _, _ => by simp [pauliStringMat]
  | c :: cs, i, j => by
    simp only [pauliStringMat, map_mul, pauliMat_herm conj I hcI,
      pauliStringMat_herm conj I hcI cs]

theorem pauliMat_unitary (conj : α →+* α) (I : α) (hI : I * I = -1) (hcI : conj I = -I)
    (c : Nat) {i j : Nat} (hi : i < 2) (hj : j < 2) :
    ∑ a ∈ range 2, conj (pauliMat I c a i) * pauliMat I c a j = if i = j then 1 else 0 := by
  rcases c with _ | _ | _ | c <;> interval_cases i <;> interval_cases j <;>
    simp [pauliMat, matI, matX, matY, matZ, hcI, hI]

/-- **every Pauli string is unitary** (`P†P = 1` on indices `< 2^k`, every `k`), by induction
over the Kronecker structure. -/
theorem pauliStringMat_unitary (conj : α →+* α) (I : α) (hI : I * I = -1) (hcI : conj I = -I) :
    ∀ (codes : List Nat) (i j : Nat), i < 2 ^ codes.length → j < 2 ^ codes.length →
      ∑ k ∈ range (2 ^ codes.length),
          conj (pauliStringMat I codes k i) * pauliStringMat I codes k j
        = if i = j then 1 else 0
  | [], i, j, hi, hj => by
    simp at hi hj; subst hi; subst hj; simp [pauliStringMat]
  | c :: cs, i, j, hi, hj => by
    have hm : 0 < 2 ^ cs.length := Nat.two_pow_pos _
    rw [List.length_cons, Nat.pow_succ, Nat.mul_comm] at hi hj ⊢
    rw [QV.Superop.sum_range_mul]
    have hij := msb_eq_iff hm hi hj
    have e : ∀ a ∈ range 2, ∀ b ∈ range (2 ^ cs.length),
        conj (pauliStringMat I (c :: cs) (a * 2 ^ cs.length + b) i)
            * pauliStringMat I (c :: cs) (a * 2 ^ cs.length + b) j
          = (conj (pauliMat I c a (i / 2 ^ cs.length % 2)) * pauliMat I c a (j / 2 ^ cs.length % 2))
            * (conj (pauliStringMat I cs b (i % 2 ^ cs.length))
                * pauliStringMat I cs b (j % 2 ^ cs.length)) := by
      intro a ha b hb
      have ha' : a < 2 := mem_range.mp ha
      have hb' := mem_range.mp hb
      simp only [pauliStringMat, QV.Superop.mul_add_div' a hb', QV.Superop.mul_add_mod' a hb',
        Nat.mod_eq_of_lt ha', map_mul]
      ring
    rw [sum_congr rfl (fun a ha => sum_congr rfl (e a ha))]
    simp only [← mul_sum]
    rw [← sum_mul,
      pauliStringMat_unitary conj I hI hcI cs _ _ (Nat.mod_lt _ hm) (Nat.mod_lt _ hm),
      pauliMat_unitary conj I hI hcI c (Nat.mod_lt _ (by decide)) (Nat.mod_lt _ (by decide))]
    by_cases e1 : i = j
    · subst e1; simp
    · rw [if_neg e1]
      by_cases e2 : i / 2 ^ cs.length % 2 = j / 2 ^ cs.length % 2
      · have e3 : ¬ (i % 2 ^ cs.length = j % 2 ^ cs.length) := fun e3 => e1 (hij.mp ⟨e2, e3⟩)
        rw [if_neg e3, mul_zero]
      · rw [if_neg e2, zero_mul]

/-- the other side, `P P† = 1`, from Hermiticity. -/
theorem pauliStringMat_unitary_row (conj : α →+* α) (I : α) (hI : I * I = -1)
    (hcI : conj I = -I) (codes : List Nat) {i j : Nat} (hi : i < 2 ^ codes.length)
    (hj : j < 2 ^ codes.length) :
    ∑ a ∈ range (2 ^ codes.length),
        pauliStringMat I codes i a * conj (pauliStringMat I codes j a)
      = if i = j then 1 else 0 := by
  rw [← pauliStringMat_unitary conj I hI hcI codes i j hi hj]
  apply sum_congr rfl
  intro a _
  rw [pauliStringMat_herm conj I hcI codes j a, pauliStringMat_herm conj I hcI codes a i]

/-! ### `PauliNoiseChannel` on `k` qubits: the channel object, trace preservation, unitality -/

/-- the terms `apply_channel_density_matrix` iterates over. -/
theorem pauliChan_terms (I : α) (qs : List Nat) (ops : List (List Nat × α)) :
    (pauliChan I qs ops).coeffs.zip (pauliChan I qs ops).gates
      = ops.map (fun o => (o.2, ({ mat := pauliStringMat I o.1, targets := qs } : MGate α))) := by
  simp only [pauliChan, unitaryChan]
  rw [List.zip_map']

/-- `coefficient_sum` is the sum of the coefficients, by construction. -/
theorem pauliChan_csum (I : α) (qs : List Nat) (ops : List (List Nat × α)) :
    (pauliChan I qs ops).csum
      = (((pauliChan I qs ops).coeffs.zip (pauliChan I qs ops).gates).map (·.1)).sum := by
  rw [pauliChan_terms, List.map_map]
  simp only [pauliChan, unitaryChan, Function.comp_def]
  rw [foldl_add_eq_sum, zero_add]

theorem unitaryChan_csum (ps : List α) (gs : List (MGate α)) (hlen : ps.length = gs.length) :
    (unitaryChan ps gs).csum = (((unitaryChan ps gs).coeffs.zip (unitaryChan ps gs).gates).map (·.1)).sum := by
  simp only [unitaryChan]
  rw [foldl_add_eq_sum, zero_add, List.map_fst_zip (by omega)]

/-- **the k-qubit Pauli noise channel preserves the trace** over every register containing its
targets: every operator list, every ordered duplicate-free tuple, every `ρ`. -/
theorem trN_pauliChan (conj : α →+* α) (I : α) (hI : I * I = -1) (hcI : conj I = -I)
    (ts : List Nat) (hn : ts.Nodup) (ops : List (List Nat × α))
    (hlen : ∀ o ∈ ops, o.1.length = ts.length) (qs : List Nat) (hsub : ∀ t, t ∈ ts → t ∈ qs)
    (ρ : DM α) (z : Lab) :
    trN qs (applyChannelDM conj (pauliChan I ts ops) ρ) z = trN qs ρ z := by
  unfold applyChannelDM
  apply trN_krausFold_unitary conj qs
  · intro t ht
    rw [pauliChan_terms] at ht
    obtain ⟨o, ho, rfl⟩ := List.mem_map.mp ht
    refine ⟨hn, by simp, hsub, ?_⟩
    intro i j hi hj
    have hl := hlen o ho
    simp only at hi hj ⊢
    rw [← hl] at hi hj ⊢
    exact pauliStringMat_unitary conj I hI hcI o.1 i j hi hj
  · rw [pauliChan_csum]; ring

/-- `1_ts ⊗ τ`: the identity on the tuple `ts` tensored with any operator `τ` on the other
qubits (`τ` must not look at the bits of `ts`). -/
def idTensor (ts : List Nat) (τ : DM α) : DM α := fun x y =>
  (if Lab.idx ts x = Lab.idx ts y then 1 else 0) * τ x y

/-- `τ` does not look at the bits of `ts`. -/
def DM.IgnoresBits (ts : List Nat) (τ : DM α) : Prop :=
  ∀ x y a b, τ (Lab.wIdx x ts a) (Lab.wIdx y ts b) = τ x y

/-- a gate with `M M† = 1` fixes `1_ts ⊗ τ`. -/
theorem applyGateDM_idTensor (conj : α → α) (m : Nat → Nat → α) (ts : List Nat) (hn : ts.Nodup)
    (hrow : ∀ i j, i < 2 ^ ts.length → j < 2 ^ ts.length →
      ∑ a ∈ range (2 ^ ts.length), m i a * conj (m j a) = if i = j then 1 else 0)
    (τ : DM α) (hτ : DM.IgnoresBits ts τ) :
    applyGateDM conj { mat := m, targets := ts } (idTensor ts τ) = idTensor ts τ := by
  funext x y
  rw [applyGateDM_eq_sum conj m ts hn]
  have inner : ∀ a ∈ range (2 ^ ts.length),
      ∑ b ∈ range (2 ^ ts.length), m (Lab.idx ts x) a * conj (m (Lab.idx ts y) b)
          * idTensor ts τ (Lab.wIdx x ts a) (Lab.wIdx y ts b)
        = m (Lab.idx ts x) a * conj (m (Lab.idx ts y) a) * τ x y := by
    intro a ha
    rw [sum_eq_single a]
    · simp only [idTensor, hτ x y a a, Lab.idx_wIdx x hn (mem_range.mp ha),
        Lab.idx_wIdx y hn (mem_range.mp ha), if_true, one_mul]
    · intro b hb hba
      have : ¬ (Lab.idx ts (Lab.wIdx x ts a) = Lab.idx ts (Lab.wIdx y ts b)) := by
        rw [Lab.idx_wIdx x hn (mem_range.mp ha), Lab.idx_wIdx y hn (mem_range.mp hb)]
        exact fun h => hba h.symm
      simp [idTensor, this]
    · intro h; exact absurd ha h
  rw [sum_congr rfl inner, ← sum_mul, hrow _ _ (Lab.idx_lt ts x) (Lab.idx_lt ts y), idTensor]

/-- **the k-qubit Pauli noise channel is unital**: `Σ_s p_s P_s 1 P_s† + (1 − Σ p)·1 = 1` on the
targets, tensored with anything on the other qubits. -/
theorem pauliChan_unital (conj : α →+* α) (I : α) (hI : I * I = -1) (hcI : conj I = -I)
    (ts : List Nat) (hn : ts.Nodup) (ops : List (List Nat × α))
    (hlen : ∀ o ∈ ops, o.1.length = ts.length) (τ : DM α) (hτ : DM.IgnoresBits ts τ) :
    applyChannelDM conj (pauliChan I ts ops) (idTensor ts τ) = idTensor ts τ := by
  funext x y
  rw [applyChannelDM, krausFold_eq, pauliChan_csum, pauliChan_terms, List.map_map, List.map_map]
  have e : ∀ o ∈ ops, (fun t : α × MGate α => t.1 * applyGateDM conj t.2 (idTensor ts τ) x y)
        ((fun o : List Nat × α => (o.2, ({ mat := pauliStringMat I o.1, targets := ts } : MGate α))) o)
      = o.2 * idTensor ts τ x y := by
    intro o ho
    have hl := hlen o ho
    simp only
    rw [applyGateDM_idTensor conj _ ts hn (fun i j hi hj => by
      rw [← hl] at hi hj ⊢
      exact pauliStringMat_unitary_row conj I hI hcI o.1 hi hj) τ hτ]
  rw [List.map_congr_left (l := ops) (f := (fun t : α × MGate α => t.1 * applyGateDM conj t.2 (idTensor ts τ) x y) ∘
      (fun o : List Nat × α => (o.2, ({ mat := pauliStringMat I o.1, targets := ts } : MGate α))))
      (g := fun o => o.2 * idTensor ts τ x y) (fun o ho => e o ho)]
  rw [List.sum_map_mul_right]
  simp only [Function.comp_def]
  ring

/-- the identity of a register `R ⊇ ts` is of the form `1_ts ⊗ τ`. -/
def idReg (R : List Nat) : DM α := fun x y => if R.all (fun q => x q == y q) then 1 else 0

theorem idReg_eq_idTensor (ts R : List Nat) (hsub : ∀ t, t ∈ ts → t ∈ R) :
    (idReg R : DM α) = idTensor ts (idReg (R.filter (fun q => !ts.contains q))) := by
  funext x y
  simp only [idReg, idTensor]
  by_cases h : R.all (fun q => x q == y q) = true
  · have h1 : Lab.idx ts x = Lab.idx ts y := by
      rw [idx_eq_iff]; intro r hr
      have := List.all_eq_true.mp h r (hsub r hr); simpa using this
    have h2 : (R.filter (fun q => !ts.contains q)).all (fun q => x q == y q) = true := by
      rw [List.all_eq_true]; intro r hr
      exact List.all_eq_true.mp h r (List.mem_filter.mp hr).1
    rw [if_pos h, if_pos h1, if_pos h2, one_mul]
  · rw [if_neg h]
    by_cases h1 : Lab.idx ts x = Lab.idx ts y
    · have h2 : ¬ ((R.filter (fun q => !ts.contains q)).all (fun q => x q == y q) = true) := by
        intro h2; apply h
        rw [List.all_eq_true]; intro r hr
        by_cases hm : r ∈ ts
        · have := (idx_eq_iff ts x y).mp h1 r hm; simpa using this
        · exact List.all_eq_true.mp h2 r (List.mem_filter.mpr ⟨hr, by simpa using hm⟩)
      rw [if_pos h1, if_neg h2, mul_zero]
    · rw [if_neg h1, zero_mul]

theorem idReg_filter_ignores (ts R : List Nat) :
    DM.IgnoresBits ts (idReg (R.filter (fun q => !ts.contains q)) : DM α) := by
  intro x y a b
  simp only [idReg]
  have : ∀ r ∈ R.filter (fun q => !ts.contains q),
      (Lab.wIdx x ts a r == Lab.wIdx y ts b r) = (x r == y r) := by
    intro r hr
    have hm : r ∉ ts := by simpa using (List.mem_filter.mp hr).2
    rw [Lab.wIdx_of_not_mem _ _ hm, Lab.wIdx_of_not_mem _ _ hm]
  have hall : ((R.filter (fun q => !ts.contains q)).all
        fun q => Lab.wIdx x ts a q == Lab.wIdx y ts b q)
      = ((R.filter (fun q => !ts.contains q)).all fun q => x q == y q) := by
    rw [Bool.eq_iff_iff, List.all_eq_true, List.all_eq_true]
    exact forall₂_congr (fun r hr => by rw [this r hr])
  rw [hall]

/-- the Pauli noise channel fixes the identity of every register containing its targets. -/
theorem pauliChan_unital_register (conj : α →+* α) (I : α) (hI : I * I = -1) (hcI : conj I = -I)
    (ts : List Nat) (hn : ts.Nodup) (ops : List (List Nat × α))
    (hlen : ∀ o ∈ ops, o.1.length = ts.length) (R : List Nat) (hsub : ∀ t, t ∈ ts → t ∈ R) :
    applyChannelDM conj (pauliChan I ts ops) (idReg R) = idReg R := by
  rw [idReg_eq_idTensor ts R hsub]
  exact pauliChan_unital conj I hI hcI ts hn ops hlen _ (idReg_filter_ignores ts R)

end QV
