/-
  QV.Proofs.FusionObs — observation traces are invariant under the reorderings that fusion
  performs.

  * `OItem.supp n` : the qubits an entry depends on, plus the VIRTUAL qubit `n` for every entry
    that is not an ordinary gate (all observing entries share the oracle / the log, so two of
    them never commute; a callback depends on all qubits).
  * `QSpace.Lawful` : what is needed from the simulator (disjoint gates commute, gates are
    linear, isometric gates off the observed qubits keep the reduced state, a fused gate acts as
    its members); `svSpace_lawful`, `dmSpace_lawful`.
  * `ostep_comm`, `orun_traceEq` : trace-equivalent (w.r.t. `OItem.supp n`) queues have the same
    final state and the same observation trace, for every oracle.
  * `orun_fusedItems` : a queue of fused groups runs as the concatenation of the groups.
  * `fuseModel_traceEqV` : the flattened fused queue of the model of `Circuit.fuse` is trace
    equivalent to the input queue w.r.t. the support WITH the virtual qubit (from
    `fuseModel_traceEq`, `fuseModel_filter_kept` and completeness of the projection criterion).
-/
import QV.Model.FusionObs
import QV.Proofs.FusionKeep
import QV.Proofs.FusionTrace
import QV.Proofs.FusedMat
import QV.Proofs.PTrace
import QV.Proofs.LightCone
namespace QV
open Finset

section sem
variable {α : Type} [CommSemiring α] {S R : Type}

/-- qubits an entry depends on; `n` is the virtual qubit shared by all non-gate entries. -/
def OItem.supp (n : Nat) : OItem α → List Nat
  | .gate g => g.targets ++ g.controls
  | .callback => List.range n ++ [n]
  | .collapse qs => qs ++ [n]
  | .defer qs => qs ++ [n]

/-- members of a fused group on the qubit list `Q`. -/
def MemberOK (Q : List Nat) (g : MGate α) : Prop :=
  g.targets.Nodup ∧ g.controls.Nodup ∧ (∀ c, c ∈ g.controls → c ∉ g.targets) ∧
    ∀ q, q ∈ g.controls ++ g.targets → q ∈ Q

/-- a well-formed entry of an `n`-qubit circuit (`iso g` : the gate's matrix is an isometry). -/
def OItem.WF (iso : MGate α → Prop) (n : Nat) : OItem α → Prop
  | .gate g => MemberOK (List.range n) g ∧ g.targets ++ g.controls ≠ [] ∧ iso g
  | .callback => True
  | .collapse qs => qs.Nodup ∧ ∀ q ∈ qs, q < n
  | .defer _ => True

/-- what the theorems need from the simulator. -/
structure QSpace.Lawful (sp : QSpace α S R) (iso : MGate α → Prop) (n : Nat) : Prop where
  comm : ∀ g h : MGate α, g.targets.Nodup → h.targets.Nodup →
    (∀ r, r ∈ g.targets ++ g.controls → r ∉ h.targets ++ h.controls) →
    ∀ s, sp.app g (sp.app h s) = sp.app h (sp.app g s)
  smul : ∀ (g : MGate α) c s, sp.app g (sp.smul c s) = sp.smul c (sp.app g s)
  red : ∀ qs (g : MGate α), MemberOK (List.range n) g → iso g →
    (∀ q, q ∈ g.controls ++ g.targets → q ∉ qs) → ∀ s, sp.red qs (sp.app g s) = sp.red qs s
  fused : ∀ Q (ms : List (MGate α)), Q.Nodup → (∀ g ∈ ms, MemberOK Q g) →
    ∀ s, sp.app (fusedGate Q ms) s = ms.foldl (fun s g => sp.app g s) s

variable {sp : QSpace α S R} {iso : MGate α → Prop} {n : Nat}
variable (draw : List (Nat × Obs S R) → R → Nat) (nrm : R → Nat → α)

omit [CommSemiring α] in
theorem not_disjoint_virtual {a b : List Nat} {n : Nat} :
    disjointB (a ++ [n]) (b ++ [n]) = true → False := by
  intro h
  exact (disjointB_iff.1 h) n (by simp) (by simp)

omit [CommSemiring α] in
theorem gate_callback_dep {g : MGate α} (hg : OItem.WF iso n (.gate g)) :
    disjointB (g.targets ++ g.controls) (List.range n ++ [n]) = true → False := by
  intro h
  obtain ⟨hm, hne, _⟩ := hg
  obtain ⟨q, hq⟩ := List.exists_mem_of_ne_nil _ hne
  have hlt : q ∈ List.range n := hm.2.2.2 q (by
    rcases List.mem_append.1 hq with h | h
    · exact List.mem_append_right _ h
    · exact List.mem_append_left _ h)
  exact (disjointB_iff.1 h) q hq (List.mem_append_left _ hlt)

/-- a gate and a collapsing measurement on disjoint qubits commute — including what the
measurement observes and the outcome it draws. -/
theorem ostep_gate_collapse (law : sp.Lawful iso n) (i j : Nat) (g : MGate α) (qs : List Nat)
    (hg : OItem.WF iso n (.gate g)) (hq : OItem.WF iso n (.collapse qs))
    (hd : disjointB (g.targets ++ g.controls) (qs ++ [n]) = true) (r : ORun S R) :
    ostep sp draw nrm (ostep sp draw nrm r (i, .gate g)) (j, .collapse qs)
      = ostep sp draw nrm (ostep sp draw nrm r (j, .collapse qs)) (i, .gate g) := by
  obtain ⟨hm, _, hiso⟩ := hg
  have hdis : ∀ q, q ∈ g.targets ++ g.controls → q ∉ qs := fun q hq' hq'' =>
    (disjointB_iff.1 hd) q hq' (List.mem_append_left _ hq'')
  have hred : sp.red qs (sp.app g r.st) = sp.red qs r.st :=
    law.red qs g hm hiso (fun q hq' => hdis q (by
      rcases List.mem_append.1 hq' with h | h
      · exact List.mem_append_right _ h
      · exact List.mem_append_left _ h)) r.st
  simp only [ostep]
  rw [hred, law.smul]
  congr 2
  exact (law.comm g (projGate qs _) hm.1 hq.1 (fun q hq' => by
    simpa [projGate] using hdis q hq') r.st).symm

/-- **independent entries commute** (final state AND observation trace). -/
theorem ostep_comm (law : sp.Lawful iso n) (a b : Nat × OItem α)
    (ha : a.2.WF iso n) (hb : b.2.WF iso n)
    (hd : disjointB (a.2.supp n) (b.2.supp n) = true) (r : ORun S R) :
    ostep sp draw nrm (ostep sp draw nrm r a) b = ostep sp draw nrm (ostep sp draw nrm r b) a := by
  obtain ⟨i, ia⟩ := a
  obtain ⟨j, ib⟩ := b
  cases ia with
  | gate g =>
    cases ib with
    | gate h =>
      simp only [ostep]
      congr 1
      exact (law.comm g h ha.1.1 hb.1.1 (disjointB_iff.1 hd) r.st).symm
    | callback => exact (gate_callback_dep ha hd).elim
    | collapse qs => exact ostep_gate_collapse draw nrm law i j g qs ha hb hd r
    | defer qs => rfl
  | callback =>
    cases ib with
    | gate h => exact (gate_callback_dep hb (by rw [disjointB_comm]; exact hd)).elim
    | callback => exact (not_disjoint_virtual hd).elim
    | collapse qs => exact (not_disjoint_virtual hd).elim
    | defer qs => exact (not_disjoint_virtual hd).elim
  | collapse qs =>
    cases ib with
    | gate h =>
      exact (ostep_gate_collapse draw nrm law j i h qs hb ha
        (by rw [disjointB_comm]; exact hd) r).symm
    | callback => exact (not_disjoint_virtual hd).elim
    | collapse qs' => exact (not_disjoint_virtual hd).elim
    | defer qs' => exact (not_disjoint_virtual hd).elim
  | defer qs =>
    cases ib with
    | gate h => rfl
    | callback => exact (not_disjoint_virtual hd).elim
    | collapse qs' => exact (not_disjoint_virtual hd).elim
    | defer qs' => exact (not_disjoint_virtual hd).elim

/-- **trace-equivalent queues have the same final state and the same observation trace.** -/
theorem orun_traceEq (law : sp.Lawful iso n) {l₁ l₂ : List (Nat × OItem α)}
    (h : TraceEq (fun e : Nat × OItem α => e.2.supp n) l₁ l₂)
    (hwf : ∀ e ∈ l₁, e.2.WF iso n) (r : ORun S R) :
    orun sp draw nrm l₁ r = orun sp draw nrm l₂ r :=
  traceEq_foldl_of (ostep sp draw nrm) (fun e => e.2.WF iso n)
    (fun a b ha hb hd s => ostep_comm draw nrm law a b ha hb hd s) h hwf r

/-- a list of ordinary gates only changes the state. -/
theorem orun_gates (sem : Nat → OItem α) (ms : List Nat)
    (hg : ∀ i ∈ ms, ∃ g, sem i = .gate g) (r : ORun S R) :
    orun sp draw nrm (ms.map (fun i => (i, sem i))) r
      = { r with st := (ms.map (fun i => (sem i).asGate)).foldl (fun s g => sp.app g s) r.st } := by
  induction ms generalizing r with
  | nil => rfl
  | cons i ms ih =>
    obtain ⟨g, hgi⟩ := hg i (List.mem_cons_self ..)
    simp only [orun, List.map_cons, List.foldl_cons]
    have h1 : ostep sp draw nrm r (i, sem i) = { r with st := sp.app g r.st } := by
      simp only [ostep, hgi]
    have h2 : (sem i).asGate = g := by rw [hgi]; rfl
    rw [h1, h2]
    exact ih (fun k hk => hg k (List.mem_cons_of_mem _ hk)) _

/-- **a queue of fused groups runs as the concatenation of its groups**: a group that is not a
single original entry consists of ordinary gates acting inside the group's qubit list. -/
theorem orun_fusedItems (law : sp.Lawful iso n) (sem : Nat → OItem α)
    (grps : List (List Nat × List Nat))
    (hgr : ∀ p ∈ grps, (∃ j, p.1 = [j]) ∨
      (p.2.Nodup ∧ ∀ i ∈ p.1, ∃ g, sem i = .gate g ∧ MemberOK p.2 g)) (r : ORun S R) :
    orun sp draw nrm (fusedItems sem grps) r
      = orun sp draw nrm ((grps.map (·.1)).flatten.map (fun i => (i, sem i))) r := by
  induction grps generalizing r with
  | nil => rfl
  | cons p ps ih =>
    have ih' := ih (fun q hq => hgr q (List.mem_cons_of_mem _ hq))
    simp only [fusedItems, List.map_cons, List.flatten_cons, List.map_append, orun,
      List.foldl_cons, List.foldl_append] at ih' ⊢
    have hstep : ostep sp draw nrm r (groupItem sem p)
        = List.foldl (ostep sp draw nrm) r (p.1.map (fun i => (i, sem i))) := by
      unfold groupItem
      rcases hgr p (List.mem_cons_self ..) with ⟨j, hj⟩ | ⟨hQ, hmem⟩
      · rw [hj]; rfl
      · have hall : ∀ i ∈ p.1, ∃ g, sem i = .gate g := fun i hi =>
          let ⟨g, h1, _⟩ := hmem i hi; ⟨g, h1⟩
        have hrun := orun_gates (sp := sp) draw nrm sem p.1 hall r
        unfold orun at hrun
        rw [hrun]
        have hfused := law.fused p.2 (p.1.map (fun i => (sem i).asGate)) hQ (by
          intro g hg
          obtain ⟨i, hi, rfl⟩ := List.mem_map.1 hg
          obtain ⟨g', h1, h2⟩ := hmem i hi
          rw [h1]; exact h2) r.st
        rw [← hfused]
        match hp : p.1 with
        | [] => rfl
        | [i] =>
          -- a single ordinary gate: the entry itself
          obtain ⟨g, h1, h2⟩ := hmem i (by rw [hp]; simp)
          simp only [ostep, h1]
          congr 1
          have := law.fused p.2 [g] hQ (by
            intro g' hg'; rw [List.mem_singleton] at hg'; subst hg'; exact h2) r.st
          simp only [List.foldl_cons, List.foldl_nil] at this
          rw [← this]
          simp [h1, OItem.asGate]
        | i :: i' :: rest => rfl
    rw [hstep]
    exact ih' _

end sem

/-! ### the simulators are lawful -/

section spaces
variable {α : Type} [CommSemiring α]

/-- `M† M = 1` for the local matrix of a gate. -/
def IsoGate (conj : α → α) (g : MGate α) : Prop :=
  ∀ i j, i < 2 ^ g.targets.length → j < 2 ^ g.targets.length →
    ∑ k ∈ range (2 ^ g.targets.length), conj (g.mat k i) * g.mat k j = if i = j then 1 else 0

theorem mem_others {n q : Nat} {qs : List Nat} : q ∈ others n qs ↔ q < n ∧ q ∉ qs := by
  simp [others]

theorem svSpace_lawful (conj : α → α) (hadd : ∀ a b, conj (a + b) = conj a + conj b)
    (hmul : ∀ a b, conj (a * b) = conj a * conj b) (n : Nat) :
    (svSpace conj n).Lawful (IsoGate conj) n where
  comm := fun g h hg hh hd s => applyGate_comm_of_disjoint g h hg hh hd s
  smul := fun g c s => applyGate_smul g c s
  red := by
    intro qs g hm hiso hd ψ
    show ptrace (others n qs) (fun x y => applyGate g ψ x * conj (applyGate g ψ y))
      = ptrace (others n qs) (fun x y => ψ x * conj (ψ y))
    rw [← applyGateDM_outer conj hadd hmul g ψ ψ]
    exact ptrace_applyGateDM conj _ g hm.1 hm.2.2.1
      (fun q hq => mem_others.2 ⟨List.mem_range.1 (hm.2.2.2 q hq), hd q hq⟩) hiso _
  fused := fun Q ms hQ hms s => applyGate_fusedGate Q hQ ms hms s

end spaces

/-! ### the fused queue is trace equivalent to the input w.r.t. the support with the virtual qubit -/

section comb
variable {G : Type} {supp : G → List Nat}

theorem TraceEq.map_mem {G' : Type} {supp' : G' → List Nat} (f : G → G')
    {l₁ l₂ : List G} (h : TraceEq supp l₁ l₂)
    (hf : ∀ a ∈ l₁, ∀ b ∈ l₁, disjointB (supp a) (supp b) = true →
      disjointB (supp' (f a)) (supp' (f b)) = true) :
    TraceEq supp' (l₁.map f) (l₂.map f) := by
  induction h with
  | nil => exact TraceEq.nil
  | cons a _ ih =>
    exact TraceEq.cons (f a) (ih (fun x hx y hy =>
      hf x (List.mem_cons_of_mem _ hx) y (List.mem_cons_of_mem _ hy)))
  | swap a b l hd =>
    exact TraceEq.swap (f a) (f b) (l.map f)
      (hf a (List.mem_cons_self ..) b (List.mem_cons_of_mem _ (List.mem_cons_self ..)) hd)
  | trans h₁ _ ih₁ ih₂ =>
    exact TraceEq.trans (ih₁ hf) (ih₂ (fun x hx y hy =>
      hf x (h₁.perm.mem_iff.mpr hx) y (h₁.perm.mem_iff.mpr hy)))

theorem proj_map {G' : Type} (supp' : G' → List Nat) (f : G → G') (q : Nat) (l : List G) :
    proj supp' q (l.map f) = (proj (fun a => supp' (f a)) q l).map f := by
  simp only [proj, List.filter_map]
  rfl

/-- support of the entry at position `i` with the virtual qubit `n` for non-gate entries. -/
def suppV (n : Nat) (queue : List FIn) (i : Nat) : List Nat :=
  gateQs n queue i ++ (if kindAt queue i != 0 then [n] else [])

/-- the qubits named by the queue are qubits of the register. -/
def QueueValid (n : Nat) (queue : List FIn) : Prop := ∀ g ∈ queue, ∀ q ∈ g.qs, q < n

theorem gateQs_lt {n : Nat} {queue : List FIn} (hv : QueueValid n queue) {i : Nat}
    (hi : i < queue.length) : ∀ q ∈ gateQs n queue i, q < n := by
  intro q hq
  unfold gateQs at hq
  split_ifs at hq
  · exact List.mem_range.1 hq
  · have : queue.getD i default = queue[i] := by simp [List.getD_eq_getElem?_getD, hi]
    rw [this] at hq
    exact hv _ (List.getElem_mem hi) q hq

theorem fuseModel_traceEqV (n maxq : Nat) (queue : List FIn) (hv : QueueValid n queue)
    (hne : ∀ i, i < queue.length → kindAt queue i = 0 → gateQs n queue i ≠ []) :
    TraceEq (suppV n queue) (List.range queue.length) (fuseModel n maxq queue).flatten := by
  have hperm := fuseModel_perm n maxq queue
  have hlen : ∀ i ∈ (fuseModel n maxq queue).flatten, i < queue.length := fun i hi =>
    List.mem_range.1 (hperm.mem_iff.1 hi)
  have hlen0 : ∀ i ∈ List.range queue.length, i < queue.length := fun i hi => List.mem_range.1 hi
  have hid : ∀ i, i < queue.length → (gItem n queue i).id = i := by
    intro i hi
    simp [gItem, tgates, List.getD_eq_getElem?_getD, hi]
  -- projections on real qubits, on the level of positions
  have hT : TraceEq TGate.qs ((List.range queue.length).map (gItem n queue))
      ((fuseModel n maxq queue).flatten.map (gItem n queue)) := by
    rw [map_gItem_range]; exact fuseModel_traceEq n maxq queue
  have hpq : ∀ q, proj (fun i => (gItem n queue i).qs) q (List.range queue.length)
      = proj (fun i => (gItem n queue i).qs) q (fuseModel n maxq queue).flatten := by
    intro q
    have h := traceEq_proj hT q
    rw [proj_map, proj_map] at h
    have h' := congrArg (List.map TGate.id) h
    rw [List.map_map, List.map_map] at h'
    have hfix : ∀ l : List Nat, (∀ i ∈ l, i < queue.length) →
        l.map (TGate.id ∘ gItem n queue) = l := by
      intro l hl
      conv_rhs => rw [← List.map_id l]
      exact List.map_congr_left (fun i hi => hid i (hl i hi))
    rw [hfix _ (fun i hi => hlen0 i (mem_proj.1 hi).1),
      hfix _ (fun i hi => hlen i (mem_proj.1 hi).1)] at h'
    exact h'
  have hnonempty : ∀ i, i < queue.length → suppV n queue i ≠ [] := by
    intro i hi
    unfold suppV
    by_cases hk : kindAt queue i = 0
    · intro h
      exact hne i hi hk (List.append_eq_nil_iff.1 h).1
    · have : (kindAt queue i != 0) = true := by simpa using hk
      simp [this]
  refine traceEq_of_proj (fun i hi => hnonempty i (hlen0 i hi)) (fun i hi => hnonempty i (hlen i hi))
    (fun q => ?_)
  by_cases hq : q = n
  · subst hq
    have hfil : ∀ l : List Nat, (∀ i ∈ l, i < queue.length) →
        proj (suppV q queue) q l = l.filter (fun g => kindAt queue g != 0) := by
      intro l hl
      unfold proj
      apply List.filter_congr
      intro i hi
      have hnot : q ∉ gateQs q queue i := fun h => Nat.lt_irrefl _ (gateQs_lt hv (hl i hi) q h)
      unfold suppV
      by_cases hk : (kindAt queue i != 0) = true
      · simp [hk]
      · simp [hk, hnot]
    rw [hfil _ hlen0, hfil _ hlen, fuseModel_filter_kept]
  · have hfil : ∀ l : List Nat, (∀ i ∈ l, i < queue.length) →
        proj (suppV n queue) q l = proj (fun i => (gItem n queue i).qs) q l := by
      intro l hl
      unfold proj
      apply List.filter_congr
      intro i hi
      have hg := gItem_qs (n := n) (hl i hi)
      dsimp only
      rw [hg]
      unfold suppV
      by_cases hk : (kindAt queue i != 0) = true
      · simp [hk, hq]
      · simp [hk]
    rw [hfil _ hlen0, hfil _ hlen, hpq q]

end comb

/-! ### readings of the queue -/

section reading
variable {α : Type} [CommSemiring α]

/-- a reading of the positions of a queue as run-time entries that agrees with what fusion
sees: an ordinary gate is a well-formed isometric gate on (some of) the listed qubits, touching
at least one; a special gate is a callback; a measurement is a collapsing or a deferred
measurement on (some of) the listed qubits. -/
def OSemOK (iso : MGate α → Prop) (queue : List FIn) (sem : Nat → OItem α) : Prop :=
  ∀ i, i < queue.length →
    (kindAt queue i = 0 → ∃ g, sem i = .gate g ∧ MemberOK (queue.getD i default).qs g ∧
      g.targets ++ g.controls ≠ [] ∧ iso g) ∧
    (kindAt queue i = 2 → sem i = .callback) ∧
    (kindAt queue i ≠ 0 → kindAt queue i ≠ 2 → ∃ qs, (sem i = .collapse qs ∨ sem i = .defer qs) ∧
      qs.Nodup ∧ ∀ q ∈ qs, q ∈ (queue.getD i default).qs)

variable {iso : MGate α → Prop} {n : Nat} {queue : List FIn} {sem : Nat → OItem α}

theorem getD_mem {i : Nat} (hi : i < queue.length) : queue.getD i default ∈ queue := by
  have : queue.getD i default = queue[i] := by simp [List.getD_eq_getElem?_getD, hi]
  rw [this]; exact List.getElem_mem hi

theorem gateQs_of_ne2 {i : Nat} (h : kindAt queue i ≠ 2) :
    gateQs n queue i = (queue.getD i default).qs := by
  unfold gateQs
  have : ((queue.getD i default).kind == 2) = false := by simpa [kindAt] using h
  rw [this]; rfl

theorem gateQs_of_2 {i : Nat} (h : kindAt queue i = 2) : gateQs n queue i = List.range n := by
  unfold gateQs
  have : ((queue.getD i default).kind == 2) = true := by simpa [kindAt] using h
  rw [this]; rfl

omit [CommSemiring α] in
theorem OSemOK.wf (hv : QueueValid n queue) (hs : OSemOK iso queue sem) {i : Nat}
    (hi : i < queue.length) : (sem i).WF iso n := by
  obtain ⟨h0, h2, h1⟩ := hs i hi
  by_cases hk0 : kindAt queue i = 0
  · obtain ⟨g, hg, hm, hne, hiso⟩ := h0 hk0
    rw [hg]
    exact ⟨⟨hm.1, hm.2.1, hm.2.2.1, fun q hq =>
      List.mem_range.2 (hv _ (getD_mem hi) q (hm.2.2.2 q hq))⟩, hne, hiso⟩
  · by_cases hk2 : kindAt queue i = 2
    · rw [h2 hk2]; trivial
    · obtain ⟨qs, hqs, hnd, hsub⟩ := h1 hk0 hk2
      rcases hqs with h | h <;> rw [h]
      · exact ⟨hnd, fun q hq => hv _ (getD_mem hi) q (hsub q hq)⟩
      · trivial

omit [CommSemiring α] in
theorem OSemOK.supp_sub (hs : OSemOK iso queue sem) {i : Nat} (hi : i < queue.length) :
    ∀ q, q ∈ (sem i).supp n → q ∈ suppV n queue i := by
  obtain ⟨h0, h2, h1⟩ := hs i hi
  intro q hq
  unfold suppV
  by_cases hk0 : kindAt queue i = 0
  · obtain ⟨g, hg, hm, _, _⟩ := h0 hk0
    rw [hg] at hq
    refine List.mem_append_left _ ?_
    rw [gateQs_of_ne2 (by rw [hk0]; decide)]
    refine hm.2.2.2 q ?_
    rcases List.mem_append.1 hq with h | h
    · exact List.mem_append_right _ h
    · exact List.mem_append_left _ h
  · have hk : (kindAt queue i != 0) = true := by simpa using hk0
    rw [hk]
    by_cases hk2 : kindAt queue i = 2
    · rw [h2 hk2] at hq
      rw [gateQs_of_2 hk2]
      exact hq
    · obtain ⟨qs, hqs, _, hsub⟩ := h1 hk0 hk2
      rw [gateQs_of_ne2 hk2]
      have hq' : q ∈ qs ++ [n] := by
        rcases hqs with h | h <;> (rw [h] at hq; exact hq)
      rcases List.mem_append.1 hq' with h | h
      · exact List.mem_append_left _ (hsub q h)
      · exact List.mem_append_right _ (by simpa using h)

omit [CommSemiring α] in
theorem OSemOK.nonempty (hs : OSemOK iso queue sem) :
    ∀ i, i < queue.length → kindAt queue i = 0 → gateQs n queue i ≠ [] := by
  intro i hi hk0 hnil
  obtain ⟨g, _, hm, hne, _⟩ := (hs i hi).1 hk0
  rw [gateQs_of_ne2 (by rw [hk0]; decide)] at hnil
  obtain ⟨q, hq⟩ := List.exists_mem_of_ne_nil _ hne
  have := hm.2.2.2 q (by
    rcases List.mem_append.1 hq with h | h
    · exact List.mem_append_right _ h
    · exact List.mem_append_left _ h)
  rw [hnil] at this
  exact absurd this (by simp)

omit [CommSemiring α] in
/-- the flattened fused queue, read as run-time entries, is trace equivalent to the original
queue w.r.t. the support with the virtual qubit. -/
theorem fuseModel_items_traceEq (maxq : Nat) (hv : QueueValid n queue)
    (hs : OSemOK iso queue sem) :
    TraceEq (fun e : Nat × OItem α => e.2.supp n) (origItems sem queue.length)
      ((fuseModel n maxq queue).flatten.map (fun i => (i, sem i))) := by
  refine TraceEq.map_mem (fun i => (i, sem i)) (fuseModel_traceEqV n maxq queue hv hs.nonempty) ?_
  intro a ha b hb hd
  have ha' := List.mem_range.1 ha
  have hb' := List.mem_range.1 hb
  rw [disjointB_iff] at hd ⊢
  intro q hqa hqb
  exact hd q (hs.supp_sub ha' q hqa) (hs.supp_sub hb' q hqb)

end reading

end QV
