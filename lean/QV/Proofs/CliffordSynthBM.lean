/-
  QV.Proofs.CliffordSynthBM — partial correctness of the Bravyi–Maslov synthesis
  (`_decomposition_BM20`, model in QV/Model/CliffordSynth.lean): whenever the cost-reduction loop
  terminates (no `RuntimeError`), the returned circuit reproduces the tableau.

  * `reduceCost_spec`, `bmLoop_spec` : the reduced tableau is the original one conjugated by the
    gates appended to `inverse_circuit` (the recorded `H, S` stands for the applied
    `SDG, H, SDG, H`), and the loop ends with cost 0;
  * `cost2_zero_local`, `cost3_zero_local` : cost 0 means that rows `q`, `n + q` live on qubit `q`;
  * `localPart_spec` : the single-qubit decompositions rebuild such a tableau;
  * `bm20_spec` : the assembled statement.
-/
import QV.Proofs.CliffordSynth
namespace QV.Cliff

/-! ### the recorded gates of `_reduce_cost` are the applied ones -/

theorem applyGate_congr {f : Gate} {g : Row → Row} (h : ∀ w, f.act w = g w) (T : Tableau) :
    applyGate f T = T.map g := by
  unfold applyGate
  exact List.map_congr_left (fun w _ => h w)

/-- `SDG, H, SDG, H` acts on rows as `H, S` (the two differ by a global phase). -/
theorem sdgH_twice (q : Nat) (w : Row) :
    opH q (opSDG q (opH q (opSDG q w))) = opS q (opH q w) := by
  refine Row.ext' (fun k => ?_) (fun k => ?_) ?_
  · simp only [opH, opSDG, opS, upd, if_true]
    by_cases e : k = q
    · subst e; simp <;> cases w.x k <;> cases w.z k <;> rfl
    · simp [e]
  · simp only [opH, opSDG, opS, upd, if_true]
    by_cases e : k = q
    · subst e; simp <;> cases w.x k <;> cases w.z k <;> rfl
    · simp [e]
  · simp only [opH, opSDG, opS, upd, if_true]
    cases w.x q <;> cases w.z q <;> cases w.r <;> rfl

theorem bmApply_eq (k q : Nat) (hk : k < 3) (T : Tableau) :
    bmApply k q T = runGates (bmRecord k q) T := by
  have hk' : k = 0 ∨ k = 1 ∨ k = 2 := by omega
  rcases hk' with rfl | rfl | rfl
  · rfl
  · rfl
  · show applyGate (.H q) (applyGate (.SDG q) (applyGate (.H q) (applyGate (.SDG q) T)))
      = applyGate (.S q) (applyGate (.H q) T)
    simp only [applyGate, List.map_map]
    refine List.map_congr_left (fun w _ => ?_)
    exact sdgH_twice q w

theorem bmRecord_ok (n k q : Nat) (hq : q < n) :
    ∀ g ∈ bmRecord k q, g.ok n ∧ g.isAG = true := by
  intro g hg
  unfold bmRecord at hg
  split at hg
  · simp only [List.mem_cons, List.mem_nil_iff, or_false] at hg
    rcases hg with rfl | rfl <;> exact ⟨hq, rfl⟩
  · simp only [List.mem_cons, List.mem_nil_iff, or_false] at hg
    rcases hg with rfl | rfl <;> exact ⟨hq, rfl⟩
  · cases hg

theorem mem_bmCandidates {n : Nat} {c t n0 n1 : Nat} (h : (c, t, n0, n1) ∈ bmCandidates n) :
    c < t ∧ t < n ∧ n0 < 3 ∧ n1 < 3 := by
  simp only [bmCandidates, List.mem_flatMap, List.mem_range, List.mem_filter, List.mem_map,
    decide_eq_true_eq, Prod.mk.injEq] at h
  obtain ⟨c', _, t', ⟨ht', hct⟩, a, ha, b, hb, rfl, rfl, rfl, rfl⟩ := h
  exact ⟨hct, ht', ha, hb⟩

theorem runGates_append (a b : List Gate) (T : Tableau) :
    runGates (a ++ b) T = runGates b (runGates a T) := by
  simp [runGates, List.foldl_append]

/-- one successful `_reduce_cost`. -/
theorem reduceCost_spec (cost : Tableau → Nat) (n : Nat) (T : Tableau) (c : Nat) (R : Tableau)
    (gs : List Gate) (h : reduceCost cost n T c = some (R, gs)) :
    R = runGates gs T ∧ (∀ g ∈ gs, g.ok n ∧ g.isAG = true) ∧ cost R + 1 = c := by
  unfold reduceCost at h
  obtain ⟨⟨ctrl, tgt, n0, n1⟩, hm, hf⟩ := List.exists_of_findSome?_eq_some h
  obtain ⟨hct, htn, h0, h1⟩ := mem_bmCandidates hm
  simp only [] at hf
  split at hf
  · rename_i hc
    simp only [Option.some.injEq, Prod.mk.injEq] at hf
    obtain ⟨rfl, rfl⟩ := hf
    refine ⟨?_, ?_, hc⟩
    · rw [runGates_append, runGates_append, ← bmApply_eq n0 ctrl h0, ← bmApply_eq n1 tgt h1]
      rfl
    · intro g hg
      simp only [List.mem_append, List.mem_cons, List.mem_nil_iff, or_false] at hg
      rcases hg with (hg | hg) | rfl
      · exact bmRecord_ok n n0 ctrl (by omega) g hg
      · exact bmRecord_ok n n1 tgt htn g hg
      · exact ⟨⟨by omega, htn, by omega⟩, rfl⟩
  · cases hf

/-- the whole loop: the final tableau is the start conjugated by the recorded gates; cost 0. -/
theorem bmLoop_spec (cost : Tableau → Nat) (n : Nat) :
    ∀ (c : Nat) (T : Tableau) (inv : List Gate) (F : Tableau) (inv' : List Gate),
      cost T = c → bmLoop cost n c T inv = some (F, inv') →
      ∃ gs, inv' = inv ++ gs ∧ F = runGates gs T ∧ (∀ g ∈ gs, g.ok n ∧ g.isAG = true) ∧ cost F = 0
  | 0, T, inv, F, inv', hc, h => by
    simp only [bmLoop, Option.some.injEq, Prod.mk.injEq] at h
    obtain ⟨rfl, rfl⟩ := h
    exact ⟨[], by simp, rfl, (fun _ hg => by cases hg), hc⟩
  | c + 1, T, inv, F, inv', hc, h => by
    simp only [bmLoop] at h
    cases hr : reduceCost cost n T (c + 1) with
    | none => rw [hr] at h; cases h
    | some p =>
      obtain ⟨R, gs⟩ := p
      rw [hr] at h
      simp only [] at h
      obtain ⟨hR, hgs, hcR⟩ := reduceCost_spec cost n T (c + 1) R gs hr
      obtain ⟨gs', e1, e2, e3, e4⟩ := bmLoop_spec cost n c R (inv ++ gs) F inv' (by omega) h
      refine ⟨gs ++ gs', by rw [e1, List.append_assoc], ?_, ?_, e4⟩
      · rw [runGates_append, ← hR]; exact e2
      · intro g hg
        rcases List.mem_append.1 hg with hg | hg
        · exact hgs g hg
        · exact e3 g hg

/-! ### cost 0 ⟹ every pair of rows `q`, `n + q` lives on qubit `q` -/

/-- rows `q` and `n + q` have no X/Z outside qubit `q`. -/
def Local (n : Nat) (T : Tableau) : Prop :=
  ∀ q, q < n → ∀ k, k < n → k ≠ q →
    ((getRow T q).x k = false ∧ (getRow T q).z k = false) ∧
    ((getRow T (n + q)).x k = false ∧ (getRow T (n + q)).z k = false)

theorem rank2_le (a b c d : Bool) : rank2 a b c d ≤ 2 := by
  cases a <;> cases b <;> cases c <;> cases d <;> decide

theorem cost2_zero_local (T : Tableau) (hv : Valid 2 T) (h : cnotCost2 T = 0) : Local 2 T := by
  have s02 := hv.2 0 2 (by omega) (by omega)
  have s10 := hv.2 1 0 (by omega) (by omega)
  have s12 := hv.2 1 2 (by omega) (by omega)
  have s30 := hv.2 3 0 (by omega) (by omega)
  have s32 := hv.2 3 2 (by omega) (by omega)
  simp only [symp, Bool.false_bne] at s02 s10 s12 s30 s32
  unfold cnotCost2 rank2 at h
  simp only [] at h
  have key : ((getRow T 0).x 1 = false ∧ (getRow T 0).z 1 = false) ∧
      ((getRow T 2).x 1 = false ∧ (getRow T 2).z 1 = false) ∧
      ((getRow T 1).x 0 = false ∧ (getRow T 1).z 0 = false) ∧
      ((getRow T 3).x 0 = false ∧ (getRow T 3).z 0 = false) := by
    revert h s02 s10 s12 s30 s32
    cases (getRow T 0).x 0 <;> cases (getRow T 0).z 0 <;> cases (getRow T 0).x 1 <;>
      cases (getRow T 0).z 1 <;> cases (getRow T 2).x 0 <;> cases (getRow T 2).z 0 <;>
      cases (getRow T 2).x 1 <;> cases (getRow T 2).z 1 <;> simp <;>
      cases (getRow T 1).x 0 <;> cases (getRow T 1).z 0 <;> cases (getRow T 3).x 0 <;>
      cases (getRow T 3).z 0 <;> simp
  intro q hq k hk hkq
  have hq' : q = 0 ∨ q = 1 := by omega
  have hk' : k = 0 ∨ k = 1 := by omega
  rcases hq' with rfl | rfl <;> rcases hk' with rfl | rfl
  · exact absurd rfl hkq
  · exact ⟨key.1, key.2.1⟩
  · exact ⟨key.2.2.1, key.2.2.2⟩
  · exact absurd rfl hkq

theorem cost3Table_zero (d1 d2 : List Nat) (a b : Nat) (h : cost3Table d1 d2 a b = 0) :
    d1 = [2, 2, 2] := by
  unfold cost3Table at h
  split at h
  · rename_i h1; simpa using h1
  · split at h
    · cases h
    · split at h
      · cases h
      · split at h
        · cases h
        · split at h
          · cases h
          · split at h <;> cases h

theorem b2n_le (b : Bool) : b2n b ≤ 1 := by cases b <;> decide

theorem sort3_all2 : ∀ x y z : Nat, x ≤ 2 → y ≤ 2 → z ≤ 2 → sort3 x y z = [2, 2, 2] →
    x = 2 ∧ y = 2 ∧ z = 2 := by
  intro x y z hx hy hz
  interval_cases x <;> interval_cases y <;> interval_cases z <;> simp [sort3]

theorem r1Entry_two (T : Tableau) (q : Nat) (h : r1Entry T q q = 2) :
    onlyOn3 (getRow T q).x (getRow T q).z q = true ∧
    onlyOn3 (getRow T (q + 3)).x (getRow T (q + 3)).z q = true := by
  unfold r1Entry at h
  simp only [] at h
  revert h
  cases onlyOn3 (getRow T q).x (getRow T q).z q <;>
    cases onlyOn3 (getRow T (q + 3)).x (getRow T (q + 3)).z q <;>
    cases onlyOn3 (fun k => (getRow T q).x k ^^ (getRow T (q + 3)).x k)
      (fun k => (getRow T q).z k ^^ (getRow T (q + 3)).z k) q <;> simp [b2n]

theorem r1Entry_le (T : Tableau) (q1 q2 : Nat) : r1Entry T q1 q2 ≤ 2 := by
  unfold r1Entry
  simp only []
  have h1 := b2n_le (onlyOn3 (getRow T q1).x (getRow T q1).z q2 ||
    onlyOn3 (getRow T (q1 + 3)).x (getRow T (q1 + 3)).z q2 ||
    onlyOn3 (fun k => (getRow T q1).x k ^^ (getRow T (q1 + 3)).x k)
      (fun k => (getRow T q1).z k ^^ (getRow T (q1 + 3)).z k) q2)
  have h2 := b2n_le (onlyOn3 (getRow T q1).x (getRow T q1).z q2 &&
    onlyOn3 (getRow T (q1 + 3)).x (getRow T (q1 + 3)).z q2 &&
    onlyOn3 (fun k => (getRow T q1).x k ^^ (getRow T (q1 + 3)).x k)
      (fun k => (getRow T q1).z k ^^ (getRow T (q1 + 3)).z k) q2)
  omega

theorem onlyOn3_spec {x z : Nat → Bool} {q : Nat} (h : onlyOn3 x z q = true) (k : Nat) (hk : k < 3)
    (hkq : k ≠ q) : x k = false ∧ z k = false := by
  unfold onlyOn3 at h
  have := List.all_eq_true.1 h k (List.mem_range.2 hk)
  have hne : (k == q) = false := by simpa using hkq
  simpa [hne] using this

theorem cost3_zero_local (T : Tableau) (h : cnotCost3 T = 0) : Local 3 T := by
  unfold cnotCost3 at h
  simp only [] at h
  have hd := cost3Table_zero _ _ _ _ h
  obtain ⟨h0, h1, h2⟩ := sort3_all2 _ _ _ (r1Entry_le T 0 0) (r1Entry_le T 1 1) (r1Entry_le T 2 2) hd
  intro q hq k hk hkq
  have hq' : q = 0 ∨ q = 1 ∨ q = 2 := by omega
  have hcomm : 3 + q = q + 3 := by omega
  rw [hcomm]
  rcases hq' with rfl | rfl | rfl
  · exact ⟨onlyOn3_spec (r1Entry_two T 0 h0).1 k hk hkq, onlyOn3_spec (r1Entry_two T 0 h0).2 k hk hkq⟩
  · exact ⟨onlyOn3_spec (r1Entry_two T 1 h1).1 k hk hkq, onlyOn3_spec (r1Entry_two T 1 h1).2 k hk hkq⟩
  · exact ⟨onlyOn3_spec (r1Entry_two T 2 h2).1 k hk hkq, onlyOn3_spec (r1Entry_two T 2 h2).2 k hk hkq⟩

/-! ### the single-qubit decompositions rebuild a local tableau -/

/-- a gate of a single-qubit decomposition on `q` leaves a row without X/Z on `q` alone. -/
theorem onQubit_fix {q : Nat} {g : Gate} (h : OnQubit q g) (w : Row) (hx : w.x q = false)
    (hz : w.z q = false) : g.act w = w := by
  rcases h with rfl | rfl | rfl | rfl | rfl | rfl <;> simp only [Gate.act]
  · exact Row.ext' (fun _ => rfl) (fun _ => rfl) (by simp [opZ, hx, hz])
  · exact Row.ext' (fun _ => rfl) (fun _ => rfl) (by simp [opX, hx, hz])
  · exact Row.ext' (fun _ => rfl) (fun _ => rfl) (by simp [opY, hx, hz])
  · refine Row.ext' (fun _ => rfl) (fun k => ?_) (by simp [opS, hx, hz])
    simp only [opS_z]; split
    · rename_i e; subst e; simp [hx, hz]
    · rfl
  · refine Row.ext' (fun _ => rfl) (fun k => ?_) (by simp [opSDG, hx, hz])
    simp only [opSDG, upd]; split
    · rename_i e; subst e; simp [hx, hz]
    · rfl
  · refine Row.ext' (fun k => ?_) (fun k => ?_) (by simp [opH, hx, hz])
    · simp only [opH_x]; split
      · rename_i e; subst e; simp [hx, hz]
      · rfl
    · simp only [opH_z]; split
      · rename_i e; subst e; simp [hx, hz]
      · rfl

theorem actAll_fix {q : Nat} (gs : List Gate) (h : ∀ g ∈ gs, OnQubit q g) (w : Row)
    (hx : w.x q = false) (hz : w.z q = false) : actAll gs w = w := by
  induction gs with
  | nil => rfl
  | cons g gs ih =>
    rw [actAll_cons, onQubit_fix (h g (List.mem_cons_self ..)) w hx hz]
    exact ih (fun g' h' => h g' (List.mem_cons_of_mem _ h'))

theorem onQubit_off {q : Nat} {g : Gate} (h : OnQubit q g) (w : Row) (k : Nat) (hk : k ≠ q) :
    (g.act w).x k = w.x k ∧ (g.act w).z k = w.z k := by
  have : k ∉ g.qubits := by
    rcases h with rfl | rfl | rfl | rfl | rfl | rfl <;> simpa [Gate.qubits] using hk
  exact off_gate g w k this

theorem actAll_off {q : Nat} (gs : List Gate) (h : ∀ g ∈ gs, OnQubit q g) (w : Row) (k : Nat)
    (hk : k ≠ q) : (actAll gs w).x k = w.x k ∧ (actAll gs w).z k = w.z k := by
  induction gs generalizing w with
  | nil => exact ⟨rfl, rfl⟩
  | cons g gs ih =>
    rw [actAll_cons]
    have h1 := ih (fun g' h' => h g' (List.mem_cons_of_mem _ h')) (g.act w)
    have h2 := onQubit_off (h g (List.mem_cons_self ..)) w k hk
    exact ⟨h1.1.trans h2.1, h1.2.trans h2.2⟩

/-- the decomposition on qubit `q` turns `X_q`, `Z_q` into the rows with the given bits. -/
theorem singleQubitQ_spec (q : Nat) : ∀ dx dz dr sx sz sr : Bool, ((dx && sz) ^^ (dz && sx)) = true →
    (actAll (singleQubitQ q dx dz dr sx sz sr) (unitX q)).x q = dx ∧
    (actAll (singleQubitQ q dx dz dr sx sz sr) (unitX q)).z q = dz ∧
    (actAll (singleQubitQ q dx dz dr sx sz sr) (unitX q)).r = dr ∧
    (actAll (singleQubitQ q dx dz dr sx sz sr) (unitZ q)).x q = sx ∧
    (actAll (singleQubitQ q dx dz dr sx sz sr) (unitZ q)).z q = sz ∧
    (actAll (singleQubitQ q dx dz dr sx sz sr) (unitZ q)).r = sr := by
  intro dx dz dr sx sz sr hv
  cases dx <;> cases dz <;> cases dr <;> cases sx <;> cases sz <;> cases sr <;>
    simp at hv <;>
    simp [singleQubitQ, actAll, Gate.act, opZ, opX, opY, opS, opSDG, opH, upd, unitX, unitZ]

/-- the rows of the circuit `L_0 ++ … ++ L_{m-1}` (each `L_q` on qubit `q`) on a row that lives on
qubit `j`: only `L_j` acts. -/
theorem actAll_flatMap_range (L : Nat → List Gate) (hL : ∀ q, ∀ g ∈ L q, OnQubit q g) (j : Nat)
    (w : Row) (hw : ∀ k, k ≠ j → w.x k = false ∧ w.z k = false) :
    ∀ m, actAll ((List.range m).flatMap L) w = if j < m then actAll (L j) w else w
  | 0 => by simp [actAll]
  | m + 1 => by
    rw [List.range_succ, List.flatMap_append, actAll_append, actAll_flatMap_range L hL j w hw m]
    simp only [List.flatMap_cons, List.flatMap_nil, List.append_nil]
    by_cases hjm : j < m
    · rw [if_pos hjm, if_pos (by omega)]
      have hne : m ≠ j := by omega
      have hoff := actAll_off (L j) (hL j) w m hne
      exact actAll_fix (L m) (hL m) _ (hoff.1.trans (hw m hne).1) (hoff.2.trans (hw m hne).2)
    · rw [if_neg hjm]
      by_cases hjm' : j = m
      · subst hjm'; rw [if_pos (by omega)]
      · rw [if_neg (by omega)]
        have hne : m ≠ j := fun e => hjm' e.symm
        exact actAll_fix (L m) (hL m) w (hw m hne).1 (hw m hne).2

theorem xorUpTo_single {f : Nat → Bool} (n j : Nat) (hj : j < n)
    (h : ∀ k, k < n → k ≠ j → f k = false) : xorUpTo f n = f j := by
  induction n with
  | zero => omega
  | succ n ih =>
    simp only [xorUpTo]
    by_cases hjn : j = n
    · subst hjn
      have : xorUpTo f j = false := by
        have := xorUpTo_congr (f := f) (g := fun _ => false) j (fun k hk => h k (by omega) (by omega))
        rw [this]
        clear this ih h hj
        induction j with
        | zero => rfl
        | succ j ih => simp [xorUpTo, ih]
      rw [this]; simp
    · rw [ih (by omega) (fun k hk hkj => h k (by omega) hkj), h n (by omega) (fun e => hjn e.symm)]
      simp

/-- the local part of BM20 rebuilds a valid local tableau. -/
theorem localPart_spec (n : Nat) (F : Tableau) (hv : Valid n F) (hl : Local n F) :
    (∀ g ∈ bmLocalPart n F, g.ok n ∧ (∃ q, OnQubit q g)) ∧
      TabEq n (runGates (bmLocalPart n F) (zeroState n)) F := by
  let L : Nat → List Gate := fun q =>
    singleQubitQ q ((getRow F q).x q) ((getRow F q).z q) (getRow F q).r
      ((getRow F (n + q)).x q) ((getRow F (n + q)).z q) (getRow F (n + q)).r
  have hL : ∀ q, ∀ g ∈ L q, OnQubit q g := fun q g hg => mem_singleQubitQ q _ _ _ _ _ _ g hg
  have hdef : bmLocalPart n F = (List.range n).flatMap L := rfl
  refine ⟨?_, ?_⟩
  · intro g hg
    rw [hdef] at hg
    simp only [List.mem_flatMap, List.mem_range] at hg
    obtain ⟨q, hq, hgq⟩ := hg
    exact ⟨onQubit_ok hq (hL q g hgq), q, hL q g hgq⟩
  · intro m hm
    have hlenZ : m < (zeroState n).length := by simp [zeroState]; omega
    rw [getRow_runGates _ _ m hlenZ, hdef]
    -- the symplectic condition on the block of qubit `j`
    have hblock : ∀ j, j < n →
        (((getRow F j).x j && (getRow F (n + j)).z j) ^^ ((getRow F j).z j && (getRow F (n + j)).x j)) = true := by
      intro j hj
      have hs := hv.2 j (n + j) (by omega) (by omega)
      rw [symp_eq_xorUpTo, xorUpTo_single n j hj (fun k hk hkj => by
        have := hl j hj k hk hkj
        simp [term, this.1.1, this.1.2])] at hs
      have : (j + n = n + j ∨ n + j + n = j) := Or.inl (by omega)
      simpa [term, this] using hs
    by_cases hmn : m < n
    · rw [getRow_zero_lo n m hmn]
      have hw : ∀ k, k ≠ m → (unitX m).x k = false ∧ (unitX m).z k = false := by
        intro k hk; simp [unitX, hk]
      rw [actAll_flatMap_range L hL m _ hw n, if_pos hmn]
      have S := singleQubitQ_spec m _ _ (getRow F m).r _ _ (getRow F (n + m)).r (hblock m hmn)
      refine ⟨fun k hk => ?_, S.2.2.1⟩
      by_cases hkm : k = m
      · subst hkm; exact ⟨S.1, S.2.1⟩
      · have hoff := actAll_off (L m) (hL m) (unitX m) k hkm
        have hF := (hl m hmn k hk hkm).1
        rw [hoff.1, hoff.2, hF.1, hF.2]
        simp [unitX, hkm]
    · obtain ⟨j, rfl⟩ : ∃ j, m = n + j := ⟨m - n, by omega⟩
      have hj : j < n := by omega
      rw [getRow_zero_hi n j hj]
      have hw : ∀ k, k ≠ j → (unitZ j).x k = false ∧ (unitZ j).z k = false := by
        intro k hk; simp [unitZ, hk]
      rw [actAll_flatMap_range L hL j _ hw n, if_pos hj]
      have S := singleQubitQ_spec j _ _ (getRow F j).r _ _ (getRow F (n + j)).r (hblock j hj)
      refine ⟨fun k hk => ?_, S.2.2.2.2.2⟩
      by_cases hkj : k = j
      · subst hkj; exact ⟨S.2.2.2.1, S.2.2.2.2.1⟩
      · have hoff := actAll_off (L j) (hL j) (unitZ j) k hkj
        have hF := (hl j hj k hk hkj).2
        rw [hoff.1, hoff.2, hF.1, hF.2]
        simp [unitZ, hkj]

/-! ### assembling: local part, then the inverted recorded circuit -/

theorem onQubit_rowEq {n q : Nat} {g : Gate} (h : OnQubit q g) (hq : q < n) {a b : Row}
    (hab : RowEq n a b) : RowEq n (g.act a) (g.act b) := by
  rcases h with rfl | rfl | rfl | rfl | rfl | rfl
  · exact rowEq_act n (.Z q) rfl hq hab
  · exact rowEq_act n (.X q) rfl hq hab
  · obtain ⟨hb, hr⟩ := hab
    have hq' := hb q hq
    exact ⟨fun k hk => hb k hk, by simp [Gate.act, opY, hr, hq'.1, hq'.2]⟩
  · exact rowEq_act n (.S q) rfl hq hab
  · exact rowEq_act n (.SDG q) rfl hq hab
  · exact rowEq_act n (.H q) rfl hq hab

/-- a circuit `L` that prepares `F`, followed by the inverse of the recorded gates `inv` with
`F = runGates inv T`, prepares `T`. -/
theorem finish_spec (n : Nat) (T F : Tableau) (inv L : List Gate) (hv : Valid n T)
    (hF : F = runGates inv T) (hok : ∀ g ∈ inv, g.ok n ∧ g.isAG = true)
    (hL : TabEq n (runGates L (zeroState n)) F) :
    TabEq n (runGates (L ++ invertCircuit inv) (zeroState n)) T := by
  intro m hm
  have hlenT : m < T.length := by have := hv.1; omega
  have hlenL : m < (runGates L (zeroState n)).length := by
    have : (runGates L (zeroState n)).length = (zeroState n).length := by
      clear hL
      generalize zeroState n = Z
      induction L generalizing Z with
      | nil => rfl
      | cons g L ih => simp only [runGates, List.foldl_cons] at ih ⊢; rw [ih]; simp [applyGate]
    rw [this]; simp [zeroState]; omega
  rw [runGates_append, getRow_runGates _ _ m hlenL]
  have e1 : getRow F m = actAll inv (getRow T m) := by rw [hF]; exact getRow_runGates _ _ m hlenT
  have e2 := rowEq_actAll n (invertCircuit inv) (invert_isAG _ (fun g h => (hok g h).2))
    (invert_ok n _ (fun g h => (hok g h).1)) (hL m hm)
  rw [e1, actAll_invert n _ (fun g h => (hok g h).2) (fun g h => (hok g h).1)] at e2
  exact e2

/-- **BM20, partial correctness**: for any cost function under which "cost 0" implies locality,
whenever `_decomposition_BM20` returns a circuit, that circuit names valid qubits and, executed
on the zero state, gives back every row of the tableau. -/
theorem bm20With_spec (cost : Tableau → Nat) (n : Nat)
    (hcost : ∀ F, Valid n F → cost F = 0 → Local n F) (T : Tableau) (hv : Valid n T)
    (gs : List Gate) (h : bm20With cost n T = some gs) :
    (∀ g ∈ gs, g.ok n) ∧ TabEq n (runGates gs (zeroState n)) T := by
  unfold bm20With at h
  split at h
  · cases h
  · split at h
    · rename_i hn1
      subst hn1
      simp only [Option.some.injEq] at h
      subst h
      have := toCircuit_one T hv
      unfold toCircuitAG04 at this
      rw [if_pos rfl] at this
      exact this
    · cases hl : bmLoop cost n (cost T) T [] with
      | none => rw [hl] at h; cases h
      | some p =>
        obtain ⟨F, inv⟩ := p
        rw [hl] at h
        simp only [Option.some.injEq] at h
        subst h
        obtain ⟨gs', e1, e2, e3, e4⟩ := bmLoop_spec cost n (cost T) T [] F inv rfl hl
        rw [List.nil_append] at e1
        subst e1
        have hvF : Valid n F := by rw [e2]; exact valid_runGates n _ (fun g hg => (e3 g hg).1) T hv
        obtain ⟨hLok, hLeq⟩ := localPart_spec n F hvF (hcost F hvF e4)
        refine ⟨?_, finish_spec n T F inv _ hv e2 e3 hLeq⟩
        intro g hg
        rcases List.mem_append.1 hg with hg | hg
        · exact (hLok g hg).1
        · exact invert_ok n _ (fun g h => (e3 g h).1) g hg

/-- whatever BM20 returns is written in the invertible alphabet. -/
theorem bm20With_isAG (cost : Tableau → Nat) (n : Nat) (T : Tableau) (gs : List Gate)
    (h : bm20With cost n T = some gs) : ∀ g ∈ gs, g.isAG = true := by
  unfold bm20With at h
  split at h
  · cases h
  · split at h
    · simp only [Option.some.injEq] at h
      subst h
      intro g hg
      exact onQubit_isAG (mem_singleQubitQ 0 _ _ _ _ _ _ g hg)
    · cases hl : bmLoop cost n (cost T) T [] with
      | none => rw [hl] at h; cases h
      | some p =>
        obtain ⟨F, inv⟩ := p
        rw [hl] at h
        simp only [Option.some.injEq] at h
        subst h
        obtain ⟨gs', e1, _, e3, _⟩ := bmLoop_spec cost n (cost T) T [] F inv rfl hl
        rw [List.nil_append] at e1
        subst e1
        intro g hg
        rcases List.mem_append.1 hg with hg | hg
        · simp only [bmLocalPart, List.mem_flatMap, List.mem_range] at hg
          obtain ⟨q, _, hgq⟩ := hg
          exact onQubit_isAG (mem_singleQubitQ q _ _ _ _ _ _ g hgq)
        · exact invert_isAG _ (fun g h => (e3 g h).2) g hg

theorem cnotCost_zero_local (n : Nat) (hn : n = 2 ∨ n = 3) (F : Tableau) (hv : Valid n F)
    (h : cnotCost n F = 0) : Local n F := by
  rcases hn with rfl | rfl
  · exact cost2_zero_local F hv (by simpa [cnotCost] using h)
  · exact cost3_zero_local F (by simpa [cnotCost] using h)

/-- `to_circuit("BM20")` with qibo's cost functions: either an exception or a correct circuit. -/
theorem toCircuitBM20_spec (n : Nat) (T : Tableau) (hv : Valid n T) (gs : List Gate)
    (h : toCircuitBM20 n T = some gs) :
    (∀ g ∈ gs, g.ok n) ∧ TabEq n (runGates gs (zeroState n)) T := by
  unfold toCircuitBM20 at h
  by_cases hn : n = 2 ∨ n = 3
  · exact bm20With_spec (cnotCost n) n (fun F hF h0 => cnotCost_zero_local n hn F hF h0) T hv gs h
  · -- n = 0, 1 or n > 3: the loop is not entered with a cost claim (n = 1) or an exception is raised
    unfold bm20With at h
    split at h
    · cases h
    · split at h
      · rename_i hn1
        subst hn1
        simp only [Option.some.injEq] at h
        subst h
        have := toCircuit_one T hv
        unfold toCircuitAG04 at this
        rw [if_pos rfl] at this
        exact this
      · -- n = 0
        have hn0 : n = 0 := by omega
        subst hn0
        exact ⟨fun g hg => by
          cases hl : bmLoop (cnotCost 0) 0 (cnotCost 0 T) T [] with
          | none => rw [hl] at h; cases h
          | some p =>
            rw [hl] at h
            simp only [Option.some.injEq] at h
            subst h
            obtain ⟨gs', e1, _, e3, _⟩ := bmLoop_spec (cnotCost 0) 0 _ T [] p.1 p.2 rfl hl
            rcases List.mem_append.1 hg with hg | hg
            · simp [bmLocalPart] at hg
            · rw [List.nil_append] at e1
              exact invert_ok 0 _ (fun g h => (e3 g (e1 ▸ h)).1) g hg,
          fun m hm => by omega⟩

end QV.Cliff
