/-
  QV.Proofs.FusedMat — the matrix of a fused group (`fusedMat` / `fusedGate` of
  QV/Model/Fusion.lean, qibo's `matrix_fused`) acts on states exactly like running the
  members of the group in queue order.

  Main results
    * `sumRange_eq_sum`      : the executable `sumRange` is a `Finset.sum`
    * `sumOver_delta`        : a sum over assignments against a Kronecker delta collapses
    * `embedEntry_idx`       : entries of the enlarged matrix, read at the local indices of labels
    * `applyGate_embed`      : enlarging a gate to a bigger ordered qubit list does not change
                               its action
    * `applyGate_fusedGate`  : the fused gate acts like the circuit of its members
-/
import QV.Proofs.SimLemmas
import QV.Model.Fusion

namespace QV

open Finset

variable {α : Type} [CommSemiring α]

/-! ### (A) `sumRange` -/

theorem sumRange_eq_sum (d : Nat) (f : Nat → α) : sumRange d f = ∑ k ∈ Finset.range d, f k := by
  unfold sumRange
  induction d with
  | zero => simp
  | succ d ih =>
    rw [List.range_succ, List.foldl_append, ih, Finset.sum_range_succ]
    rfl

theorem matMul_eq_sum (d : Nat) (A B : Nat → Nat → α) :
    matMul d A B = fun i j => ∑ k ∈ Finset.range d, A i k * B k j := by
  funext i j
  exact sumRange_eq_sum d _

/-! ### Kronecker deltas under `sumOver` -/

/-- a sum over the assignments of `qs` against "`y` agrees with `x` on `qs`" keeps one term. -/
theorem sumOver_delta {qs : List Nat} (hn : qs.Nodup) (F : Lab → α) (x z : Lab) :
    sumOver qs (fun y => if qs.all (fun q => x q == y q) then F y else 0) z
      = F (Lab.wIdx z qs (Lab.idx qs x)) := by
  rw [sumOver_eq_sum' hn]
  have hi := Lab.idx_lt qs x
  rw [sum_congr rfl (g := fun k => if Lab.idx qs x = k then F (Lab.wIdx z qs k) else 0)]
  · rw [sum_ite_eq, if_pos (mem_range.mpr hi)]
  · intro k hk
    have hk' := mem_range.mp hk
    by_cases e : Lab.idx qs x = k
    · subst e
      rw [if_pos rfl, if_pos]
      rw [List.all_eq_true]
      intro q hq
      rw [Lab.wIdx_of_mem z x _ hq, Lab.wIdx_idx]
      simp
    · rw [if_neg e, if_neg]
      intro h
      apply e
      rw [List.all_eq_true] at h
      rw [← Lab.idx_wIdx z hn hk']
      exact Lab.idx_congr (fun r hr => eq_of_beq (h r hr))

/-! ### (B) enlarging a gate -/

theorem Lab.ofLocal_idx (Q : List Nat) (x : Lab) {r : Nat} (hr : r ∈ Q) :
    Lab.ofLocal Q (Lab.idx Q x) r = x r := by
  unfold Lab.ofLocal
  rw [Lab.withIdx_eq_wIdx, Lab.wIdx_of_mem _ x _ hr, Lab.wIdx_idx]

/-- entries of the enlarged matrix at the local indices of two labels: the labels themselves
can be used in place of `Lab.ofLocal`. -/
theorem embedEntry_idx (Q : List Nat) (g : MGate α)
    (hsub : ∀ q, q ∈ g.controls ++ g.targets → q ∈ Q) (x y : Lab) :
    embedEntry Q g (Lab.idx Q x) (Lab.idx Q y) =
      if (Q.filter (fun q => !(g.controls ++ g.targets).contains q)).all
          (fun q => x q == y q) then
        if Lab.allOne g.controls x && Lab.allOne g.controls y then
          g.mat (Lab.idx g.targets x) (Lab.idx g.targets y)
        else if (g.controls ++ g.targets).all (fun q => x q == y q) then 1 else 0
      else 0 := by
  have hx : ∀ r ∈ Q, Lab.ofLocal Q (Lab.idx Q x) r = x r := fun r hr => Lab.ofLocal_idx Q x hr
  have hy : ∀ r ∈ Q, Lab.ofLocal Q (Lab.idx Q y) r = y r := fun r hr => Lab.ofLocal_idx Q y hr
  have hall : ∀ l : List Nat, (∀ r ∈ l, r ∈ Q) →
      l.all (fun q => Lab.ofLocal Q (Lab.idx Q x) q == Lab.ofLocal Q (Lab.idx Q y) q)
        = l.all (fun q => x q == y q) := by
    intro l hl
    induction l with
    | nil => rfl
    | cons a l ih =>
      simp only [List.all_cons]
      rw [hx a (hl a (List.mem_cons_self ..)), hy a (hl a (List.mem_cons_self ..)),
        ih (fun r hr => hl r (List.mem_cons_of_mem _ hr))]
  have hcs : ∀ r ∈ g.controls, r ∈ Q := fun r hr => hsub r (List.mem_append_left _ hr)
  have hts : ∀ r ∈ g.targets, r ∈ Q := fun r hr => hsub r (List.mem_append_right _ hr)
  have h1 := hall (Q.filter (fun q => !(g.controls ++ g.targets).contains q))
    (fun r hr => (List.mem_filter.mp hr).1)
  have h2 := hall (g.controls ++ g.targets) hsub
  have h3 : Lab.allOne g.controls (Lab.ofLocal Q (Lab.idx Q x)) = Lab.allOne g.controls x :=
    Lab.allOne_congr fun r hr => hx r (hcs r hr)
  have h4 : Lab.allOne g.controls (Lab.ofLocal Q (Lab.idx Q y)) = Lab.allOne g.controls y :=
    Lab.allOne_congr fun r hr => hy r (hcs r hr)
  have h5 : Lab.idx g.targets (Lab.ofLocal Q (Lab.idx Q x)) = Lab.idx g.targets x :=
    Lab.idx_congr fun r hr => hx r (hts r hr)
  have h6 : Lab.idx g.targets (Lab.ofLocal Q (Lab.idx Q y)) = Lab.idx g.targets y :=
    Lab.idx_congr fun r hr => hy r (hts r hr)
  unfold embedEntry
  simp only []
  rw [h1, h2, h3, h4, h5, h6]

/-- **Enlarging a gate.**  The gate's matrix enlarged to the ordered qubit list `Q` (identity on
the other qubits of `Q`, `block_diag(1, M)` on the controls), applied on `Q` without controls,
acts like the gate itself. -/
theorem applyGate_embed (Q : List Nat) (hQ : Q.Nodup) (g : MGate α) (hn : g.targets.Nodup)
    (hc : g.controls.Nodup) (hd : ∀ c, c ∈ g.controls → c ∉ g.targets)
    (hsub : ∀ q, q ∈ g.controls ++ g.targets → q ∈ Q) (ψ : Lab → α) :
    applyGate { mat := embedEntry Q g, targets := Q, controls := [] } ψ = applyGate g ψ := by
  funext x
  have hL : applyGate { mat := embedEntry Q g, targets := Q, controls := [] } ψ x
      = sumOver Q (fun y => embedEntry Q g (Lab.idx Q x) (Lab.idx Q y) * ψ y) x := by
    unfold applyGate
    rw [if_pos (by rfl)]
  rw [hL]
  simp only [embedEntry_idx Q g hsub]
  obtain ⟨M, ts, cs⟩ := g
  simp only at hn hc hd hsub ⊢
  generalize hoth : Q.filter (fun q => !(cs ++ ts).contains q) = others
  have hmo : ∀ r, r ∈ others ↔ r ∈ Q ∧ r ∉ cs ∧ r ∉ ts := by
    intro r
    rw [← hoth]
    simp [List.mem_filter]
  cases hcx : Lab.allOne cs x
  · -- controls off: only the term `y = x` survives
    rw [applyGate_of_controls_off _ ψ hcx]
    simp only [Bool.false_and, Bool.false_eq_true, if_false]
    have hfun : (fun y : Lab =>
        (if others.all (fun q => x q == y q) = true then
          if (cs ++ ts).all (fun q => x q == y q) = true then (1 : α) else 0 else 0) * ψ y)
        = fun y => if Q.all (fun q => x q == y q) then ψ y else 0 := by
      funext y
      have hiff : Q.all (fun q => x q == y q) = true ↔
          (others.all (fun q => x q == y q) = true ∧
            (cs ++ ts).all (fun q => x q == y q) = true) := by
        simp only [List.all_eq_true, hmo, List.mem_append]
        constructor
        · intro h
          exact ⟨fun q hq => h q hq.1, fun q hq => h q (hsub q (List.mem_append.mpr hq))⟩
        · intro h q hq
          by_cases hq' : q ∈ cs ∨ q ∈ ts
          · exact h.2 q hq'
          · exact h.1 q ⟨hq, fun h1 => hq' (Or.inl h1), fun h1 => hq' (Or.inr h1)⟩
      by_cases h1 : others.all (fun q => x q == y q) = true
      · by_cases h2 : (cs ++ ts).all (fun q => x q == y q) = true
        · rw [if_pos h1, if_pos h2, if_pos (hiff.mpr ⟨h1, h2⟩), one_mul]
        · rw [if_pos h1, if_neg h2, if_neg (fun h => h2 (hiff.mp h).2), zero_mul]
      · rw [if_neg h1, if_neg (fun h => h1 (hiff.mp h).1), zero_mul]
    rw [hfun, sumOver_delta hQ, Lab.wIdx_idx]
  · -- controls on: the sum over `Q` collapses to the sum over the targets
    have hRHS : applyGate { mat := M, targets := ts, controls := cs } ψ x
        = sumOver ts (fun y => M (Lab.idx ts x) (Lab.idx ts y) * ψ y) x := by
      unfold applyGate
      rw [if_pos hcx]
    rw [hRHS]
    simp only [Bool.true_and]
    have hfun : (fun y : Lab =>
        (if others.all (fun q => x q == y q) = true then
          if Lab.allOne cs y = true then M (Lab.idx ts x) (Lab.idx ts y)
          else if (cs ++ ts).all (fun q => x q == y q) = true then (1 : α) else 0
          else 0) * ψ y)
        = fun y => if (others ++ cs).all (fun q => x q == y q) then
            M (Lab.idx ts x) (Lab.idx ts y) * ψ y else 0 := by
      funext y
      have hcsx : ∀ q ∈ cs, x q = true := by
        simpa [Lab.allOne, List.all_eq_true] using hcx
      have hiff : Lab.allOne cs y = true ↔ cs.all (fun q => x q == y q) = true := by
        simp only [Lab.allOne, List.all_eq_true, beq_iff_eq]
        constructor
        · intro h q hq; rw [h q hq, hcsx q hq]
        · intro h q hq; rw [← h q hq, hcsx q hq]
      have hown : (cs ++ ts).all (fun q => x q == y q) = true → Lab.allOne cs y = true := by
        intro h
        rw [hiff]
        rw [List.all_append, Bool.and_eq_true] at h
        exact h.1
      by_cases h1 : others.all (fun q => x q == y q) = true
      · by_cases h2 : Lab.allOne cs y = true
        · rw [if_pos h1, if_pos h2, if_pos]
          rw [List.all_append, Bool.and_eq_true]
          exact ⟨h1, hiff.mp h2⟩
        · rw [if_pos h1, if_neg h2, if_neg (fun h => h2 (hown h)), zero_mul, if_neg]
          rw [List.all_append, Bool.and_eq_true]
          exact fun h => h2 (hiff.mpr h.2)
      · rw [if_neg h1, zero_mul, if_neg]
        rw [List.all_append, Bool.and_eq_true]
        exact fun h => h1 h.1
    rw [hfun]
    have hnod : (ts ++ (others ++ cs)).Nodup := by
      have hno : others.Nodup := by rw [← hoth]; exact hQ.filter _
      rw [List.nodup_append]
      refine ⟨hn, ?_, ?_⟩
      · rw [List.nodup_append]
        refine ⟨hno, hc, ?_⟩
        intro a ha b hb e
        subst e
        exact ((hmo a).mp ha).2.1 hb
      · intro a ha b hb e
        subst e
        rcases List.mem_append.mp hb with hb | hb
        · exact ((hmo a).mp hb).2.2 ha
        · exact hd a hb ha
    have hperm : Q.Perm (ts ++ (others ++ cs)) := by
      rw [List.perm_ext_iff_of_nodup hQ hnod]
      intro a
      simp only [List.mem_append, hmo]
      constructor
      · intro ha
        by_cases h1 : a ∈ ts
        · exact Or.inl h1
        · by_cases h2 : a ∈ cs
          · exact Or.inr (Or.inr h2)
          · exact Or.inr (Or.inl ⟨ha, h2, h1⟩)
      · rintro (h | h | h)
        · exact hsub a (List.mem_append_right _ h)
        · exact h.1
        · exact hsub a (List.mem_append_left _ h)
    have hnod' : (others ++ cs).Nodup := (List.nodup_append.mp hnod).2.1
    rw [sumOver_perm hperm, sumOver_append]
    have hinner : sumOver (others ++ cs) (fun y => if (others ++ cs).all (fun q => x q == y q) then
          M (Lab.idx ts x) (Lab.idx ts y) * ψ y else 0)
        = fun z => (fun y => M (Lab.idx ts x) (Lab.idx ts y) * ψ y)
            (Lab.wIdx z (others ++ cs) (Lab.idx (others ++ cs) x)) := by
      funext z
      exact sumOver_delta hnod' _ x z
    rw [hinner]
    apply sumOver_congr
    intro y hy
    have : Lab.wIdx y (others ++ cs) (Lab.idx (others ++ cs) x) = y := by
      funext r
      by_cases hr : r ∈ others ++ cs
      · rw [Lab.wIdx_of_mem y x _ hr, Lab.wIdx_idx]
        refine (hy r ?_).symm
        intro hrt
        rcases List.mem_append.mp hr with h | h
        · exact ((hmo r).mp h).2.2 hrt
        · exact hd r h hrt
      · rw [Lab.wIdx_of_not_mem _ _ hr]
    simp only [this]

/-! ### (C) the fused gate -/

theorem fusedMat_append (Q : List Nat) (gs : List (MGate α)) (g : MGate α) :
    fusedMat Q (gs ++ [g]) = matMul (2 ^ Q.length) (embedEntry Q g) (fusedMat Q gs) := by
  unfold fusedMat
  rw [List.foldl_append]
  rfl

/-- **The fused gate acts like its members run in queue order.** -/
theorem applyGate_fusedGate (Q : List Nat) (hQ : Q.Nodup) (gs : List (MGate α))
    (hgs : ∀ g ∈ gs, g.targets.Nodup ∧ g.controls.Nodup ∧
      (∀ c, c ∈ g.controls → c ∉ g.targets) ∧
      ∀ q, q ∈ g.controls ++ g.targets → q ∈ Q) (ψ : Lab → α) :
    applyGate (fusedGate Q gs) ψ = runCircuit gs ψ := by
  induction gs using List.reverseRecOn with
  | nil =>
    exact applyGate_one (fusedGate Q []) hQ (fun i j _ _ => rfl) ψ
  | append_singleton gs g ih =>
    obtain ⟨h1, h2, h3, h4⟩ := hgs g (List.mem_append_right _ (List.mem_singleton_self g))
    have ih' := ih (fun g' hg' => hgs g' (List.mem_append_left _ hg'))
    rw [runCircuit_append, runCircuit_cons, runCircuit_nil, ← ih',
      ← applyGate_embed Q hQ g h1 h2 h3 h4]
    unfold fusedGate
    rw [fusedMat_append, matMul_eq_sum,
      applyGate_mul Q [] hQ (fun c hc => by cases hc) (embedEntry Q g) (fusedMat Q gs) ψ]

end QV
