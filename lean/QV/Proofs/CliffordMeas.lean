/-
  QV.Proofs.CliffordMeas — measurement on the tableau: the phase arithmetic of `rowsum` is the
  product of the Pauli operators of the two rows; the scratch row of `_determined_outcome`
  fixes every state fixed by the stabiliser rows; non-degeneracy of the tableau rows, which makes
  that scratch row equal to `± Z_q`.
-/
import QV.Proofs.CliffordSV
import Mathlib.Tactic.IntervalCases

namespace QV.Cliff
open QV Finset

/-! ### powers of `i` -/

theorem ipow_mod (e : Int) : ipow e = ipow (e % 4) := by
  unfold ipow; rw [Int.emod_emod_of_dvd e (by decide : (4 : Int) ∣ 4)]

theorem ipow_add (a b : Int) : ipow (a + b) = ipow a * ipow b := by
  rw [ipow_mod (a + b), Int.add_emod, ← ipow_mod, ipow_mod a, ipow_mod b]
  have ha0 : 0 ≤ a % 4 := Int.emod_nonneg _ (by decide)
  have ha4 : a % 4 < 4 := Int.emod_lt_of_pos _ (by decide)
  have hb0 : 0 ≤ b % 4 := Int.emod_nonneg _ (by decide)
  have hb4 : b % 4 < 4 := Int.emod_lt_of_pos _ (by decide)
  generalize a % 4 = ra at *
  generalize b % 4 = rb at *
  interval_cases ra <;> interval_cases rb <;> decide

theorem sgn_eq_ipow (r : Bool) : sgn r = ipow (2 * b2i r) := by cases r <;> decide

/-! ### product of two Pauli strings -/

theorem pauliList_append (qs rs : List Nat) (w : Row) (ψ : Lab → GI) :
    pauliList (qs ++ rs) w ψ = pauliList qs w (pauliList rs w ψ) := by
  simp [pauliList, List.foldr_append]

/-- one tensor factor: `σ_a σ_b = i^e σ_{a⊕b}` as one-qubit gates (from `_exponent`'s table). -/
theorem pauliGate_mul (m k : Nat) (a b : Row) (ψ : Lab → GI) :
    QV.applyGate (pauliGate a k) (QV.applyGate (pauliGate b k) ψ)
      = fun x => ipow (exponent (a.x k) (a.z k) (b.x k) (b.z k))
          * QV.applyGate (pauliGate (rowsum m a b) k) ψ x := by
  have hn : [k].Nodup := by simp
  have hd : ∀ c, c ∈ ([] : List Nat) → c ∉ [k] := by simp
  have hexp : ∀ x1 z1 x2 z2 : Bool, ∀ i j : Fin 2,
      mul2 (sigma x1 z1) (sigma x2 z2) i j
        = ipow (exponent x1 z1 x2 z2) * sigma (x1 ^^ x2) (z1 ^^ z2) i j := by decide +kernel
  simp only [pauliGate, g1, rowsum]
  rw [applyGate_mul [k] [] hn hd, nat2_mul]
  have hm : nat2 (mul2 (sigma (a.x k) (a.z k)) (sigma (b.x k) (b.z k)))
      = fun i j => ipow (exponent (a.x k) (a.z k) (b.x k) (b.z k))
          * nat2 (sigma (a.x k ^^ b.x k) (a.z k ^^ b.z k)) i j := by
    funext i j; exact hexp _ _ _ _ _ _
  rw [hm]
  exact applyGate_mat_smul _ _ [k] ψ

/-- the strings (signs apart) multiply with the phase `i^(Σ exponents)`. -/
theorem pauliList_mul (n m : Nat) (a b : Row) (ψ : Lab → GI) :
    pauliList (List.range m) a (pauliList (List.range m) b ψ)
      = fun x => ipow (expSum m a b) * pauliList (List.range m) (rowsum n a b) ψ x := by
  induction m generalizing ψ with
  | zero =>
    funext x
    show ψ x = ipow 0 * ψ x
    have : ipow 0 = 1 := rfl
    rw [this, one_mul]
  | succ m ih =>
    have hcomm : ∀ φ, QV.applyGate (pauliGate a m) (pauliList (List.range m) b φ)
        = pauliList (List.range m) b (QV.applyGate (pauliGate a m) φ) := fun φ =>
      pauliList_comm_gate (pauliGate a m) (by simp [pauliGate, g1]) (List.range m) b
        (by intro k hk; simp only [pauliGate, g1, List.append_nil, List.mem_cons, List.mem_nil_iff, or_false]
            have := List.mem_range.1 hk; omega) φ
    rw [List.range_succ, pauliList_append, pauliList_append, pauliList_append]
    simp only [pauliList, List.foldr_cons, List.foldr_nil]
    show pauliList (List.range m) a (QV.applyGate (pauliGate a m) (pauliList (List.range m) b
        (QV.applyGate (pauliGate b m) ψ))) = _
    rw [hcomm, ih, pauliGate_mul n m a b ψ]
    funext x
    rw [show (fun x => ipow (exponent (a.x m) (a.z m) (b.x m) (b.z m)) *
          QV.applyGate (pauliGate (rowsum n a b) m) ψ x)
        = fun x => ipow (exponent (a.x m) (a.z m) (b.x m) (b.z m)) *
          (QV.applyGate (pauliGate (rowsum n a b) m) ψ) x from rfl, pauliList_smul]
    simp only [expSum, ipow_add, mul_assoc]
    rfl

/-- **`_rowsum` is the operator product**: for commuting rows `a`, `b` the row `rowsum n a b`
(sign computed by the `… % 4 == 0` test) denotes `P(a)·P(b)`. -/
theorem pauliOp_rowsum (n : Nat) (a b : Row) (h : symp n a b = false) (ψ : Lab → GI) :
    pauliOp n (rowsum n a b) ψ = pauliOp n a (pauliOp n b ψ) := by
  have hp := expSum_parity n a b
  rw [h] at hp
  have hp' : expSum n a b % 2 = 0 := by simpa [b2i] using hp
  funext x
  unfold pauliOp
  rw [pauliList_smul, pauliList_mul n n a b ψ]
  simp only
  rw [sgn_eq_ipow a.r, sgn_eq_ipow b.r, ← mul_assoc, ← mul_assoc, ← ipow_add, ← ipow_add]
  congr 1
  have ha : b2i a.r = 0 ∨ b2i a.r = 1 := by cases a.r <;> simp [b2i]
  have hb : b2i b.r = 0 ∨ b2i b.r = 1 := by cases b.r <;> simp [b2i]
  have ht : (2 * b2i b.r + 2 * b2i a.r + expSum n a b) % 4 = 0 ∨
      (2 * b2i b.r + 2 * b2i a.r + expSum n a b) % 4 = 2 := by omega
  have he : 2 * b2i a.r + 2 * b2i b.r + expSum n a b = 2 * b2i b.r + 2 * b2i a.r + expSum n a b := by
    ring
  rw [he, ipow_mod (2 * b2i b.r + 2 * b2i a.r + expSum n a b)]
  simp only [rowsum]
  rcases ht with ht | ht <;> rw [ht] <;> decide

/-! ### the scratch row of `_determined_outcome` -/

/-- the accumulation loop of `determinedScratch`, over an arbitrary index list and start row. -/
def scratchFold (n : Nat) (T : Tableau) (q : Nat) (l : List Nat) (s0 : Row) : Row :=
  l.foldl (fun s i => if (getRow T i).x q then rowsum n (getRow T (n + i)) s else s) s0

theorem determinedScratch_eq (n : Nat) (T : Tableau) (q : Nat) :
    determinedScratch n T q = scratchFold n T q (List.range n) Row.zero := rfl

theorem symp_zero_right (n : Nat) (a : Row) : symp n a Row.zero = false := by
  induction n with
  | zero => rfl
  | succ n ih => rw [symp, ih]; simp [Row.zero]

theorem pauliOp_zero (n : Nat) (ψ : Lab → GI) : pauliOp n Row.zero ψ = ψ := by
  funext x
  unfold pauliOp
  rw [pauliList_id (by intro k _; exact ⟨rfl, rfl⟩)]
  show (1 : GI) * ψ x = ψ x
  rw [one_mul]

/-- invariant of the loop: the scratch row fixes `ψ` and commutes with every stabiliser row. -/
theorem scratchFold_inv (n : Nat) (T : Tableau) (q : Nat) (ψ : Lab → GI)
    (hcomm : ∀ i j, i < n → j < n → symp n (getRow T (n + i)) (getRow T (n + j)) = false)
    (hfix : ∀ i, i < n → pauliOp n (getRow T (n + i)) ψ = ψ)
    (l : List Nat) (hl : ∀ i ∈ l, i < n) (s0 : Row) (h0 : pauliOp n s0 ψ = ψ)
    (hc0 : ∀ j, j < n → symp n (getRow T (n + j)) s0 = false) :
    pauliOp n (scratchFold n T q l s0) ψ = ψ ∧
      ∀ j, j < n → symp n (getRow T (n + j)) (scratchFold n T q l s0) = false := by
  induction l generalizing s0 with
  | nil => exact ⟨h0, hc0⟩
  | cons i l ih =>
    have hi : i < n := hl i (List.mem_cons_self ..)
    have hl' : ∀ i' ∈ l, i' < n := fun i' h' => hl i' (List.mem_cons_of_mem _ h')
    simp only [scratchFold, List.foldl_cons]
    by_cases hsel : (getRow T i).x q = true
    · rw [if_pos hsel]
      refine ih hl' _ ?_ ?_
      · rw [pauliOp_rowsum n _ _ (hc0 i hi), h0, hfix i hi]
      · intro j hj
        rw [symp_rowsum_right, hcomm j i hj hi, hc0 j hj]; rfl
    · rw [if_neg hsel]
      exact ih hl' _ h0 hc0

/-- the scratch row of the determined case fixes every state fixed by the (commuting)
stabiliser rows. -/
theorem determinedScratch_fixes (n : Nat) (T : Tableau) (q : Nat) (ψ : Lab → GI)
    (hcomm : ∀ i j, i < n → j < n → symp n (getRow T (n + i)) (getRow T (n + j)) = false)
    (hfix : ∀ i, i < n → pauliOp n (getRow T (n + i)) ψ = ψ) :
    pauliOp n (determinedScratch n T q) ψ = ψ :=
  (scratchFold_inv n T q ψ hcomm hfix (List.range n) (fun _ h => List.mem_range.1 h) Row.zero
    (pauliOp_zero n ψ) (fun _ _ => symp_zero_right n _)).1

/-! ### a state fixed by `(-1)^s Z_q` is supported on `x_q = s` -/

theorem GI.eq_zero_of_neg_eq (a : GI) (h : gi (-1) 0 * a = a) : a = 0 := by
  have h1 := congrArg GI.re h
  have h2 := congrArg GI.im h
  simp [gi] at h1 h2
  exact GI.ext' (by simp; omega) (by simp; omega)

theorem support_of_signed_Z (n q : Nat) (hq : q < n) (s : Row)
    (hx : ∀ k, k < n → s.x k = false) (hz : ∀ k, k < n → s.z k = (k == q))
    (ψ : Lab → GI) (h : pauliOp n s ψ = ψ) (x : Lab) (hne : x q ≠ s.r) : ψ x = 0 := by
  obtain ⟨hp, hnq⟩ := range_perm1 n q hq
  have hcg : ∀ k ∈ List.range n, s.x k = (unitZ q).x k ∧ s.z k = (unitZ q).z k := by
    intro k hk
    have hk' := List.mem_range.1 hk
    exact ⟨by rw [hx k hk']; rfl, by rw [hz k hk']; rfl⟩
  have hv := congrFun h x
  unfold pauliOp at hv
  rw [pauliList_congr hcg, pauliList_perm hp, pauliList_cons,
    pauliList_id (by
      intro j hj
      have : j ≠ q := fun e => hnq (e ▸ hj)
      simp [unitZ, this])] at hv
  simp only [pauliGate, unitZ, g1_apply] at hv
  cases hxq : x q <;> cases hr : s.r <;> rw [hxq, hr] at hne <;> try exact absurd rfl hne
  · have e : x.set q false = x := by rw [← hxq]; exact Lab.set_self x q
    rw [hxq, hr, e] at hv
    simp [nat2, sigma, ofRows2, gi_one, gi_zero, sgn] at hv
    exact GI.eq_zero_of_neg_eq _ hv
  · have e : x.set q true = x := by rw [← hxq]; exact Lab.set_self x q
    rw [hxq, hr, e] at hv
    simp [nat2, sigma, ofRows2, gi_one, gi_zero, sgn] at hv
    exact GI.eq_zero_of_neg_eq _ hv

/-! ### the bit part of every update is an involution that keeps the identity string -/

/-- applying the update twice restores the bits (the gate squares to a Pauli, up to phase). -/
def BitsInvol (f : Row → Row) : Prop := ∀ w k, (f (f w)).x k = w.x k ∧ (f (f w)).z k = w.z k

/-- a string without X/Z below `n` is mapped to such a string. -/
def ZeroPres (n : Nat) (f : Row → Row) : Prop :=
  ∀ w : Row, (∀ k, k < n → w.x k = false ∧ w.z k = false) → ∀ k, k < n → (f w).x k = false ∧ (f w).z k = false

def Inv1 (f0 : Row → Row) : Prop :=
  ∀ x z : Bool, (f0 (f0 (row1 x z))).x 0 = x ∧ (f0 (f0 (row1 x z))).z 0 = z
def Zer1 (f0 : Row → Row) : Prop :=
  (f0 (row1 false false)).x 0 = false ∧ (f0 (row1 false false)).z 0 = false
def Inv2 (f0 : Row → Row) : Prop :=
  ∀ xc zc xt zt : Bool,
    (f0 (f0 (row2 xc zc xt zt))).x 0 = xc ∧ (f0 (f0 (row2 xc zc xt zt))).z 0 = zc ∧
    (f0 (f0 (row2 xc zc xt zt))).x 1 = xt ∧ (f0 (f0 (row2 xc zc xt zt))).z 1 = zt
def Zer2 (f0 : Row → Row) : Prop :=
  (f0 (row2 false false false false)).x 0 = false ∧ (f0 (row2 false false false false)).z 0 = false ∧
  (f0 (row2 false false false false)).x 1 = false ∧ (f0 (row2 false false false false)).z 1 = false

instance (f0 : Row → Row) : Decidable (Inv1 f0) := by unfold Inv1; infer_instance
instance (f0 : Row → Row) : Decidable (Zer1 f0) := by unfold Zer1; infer_instance
instance (f0 : Row → Row) : Decidable (Inv2 f0) := by unfold Inv2; infer_instance
instance (f0 : Row → Row) : Decidable (Zer2 f0) := by unfold Zer2; infer_instance

theorem good1 {n q : Nat} {f f0 : Row → Row} (hq : q < n) (he : Eqv1 f f0 q) (hl : SignLin f0)
    (hoff : Off [q] f) (hi : Inv1 f0) (hz : Zer1 f0) : BitsInvol f ∧ ZeroPres n f := by
  constructor
  · intro w k
    by_cases hk : k = q
    · subst hk
      have e : loc1 k (f (f w)) = flipR w.r (f0 (f0 (row1 (w.x k) (w.z k)))) := by
        rw [he, he, loc1_eq, hl, hl]
      have h1 := congrArg (fun r => r.x 0) e
      have h2 := congrArg (fun r => r.z 0) e
      simp only [loc1, flipR] at h1 h2
      rw [(hi (w.x k) (w.z k)).1] at h1
      rw [(hi (w.x k) (w.z k)).2] at h2
      exact ⟨by simpa using h1, by simpa using h2⟩
    · have hk' : k ∉ [q] := by simpa using hk
      exact ⟨(hoff (f w) k hk').1.trans (hoff w k hk').1, (hoff (f w) k hk').2.trans (hoff w k hk').2⟩
  · intro w hw k hk
    by_cases hkq : k = q
    · subst hkq
      have e : loc1 k (f w) = flipR w.r (f0 (row1 false false)) := by
        rw [he, loc1_eq, hl, (hw k hk).1, (hw k hk).2]
      have h1 := congrArg (fun r => r.x 0) e
      have h2 := congrArg (fun r => r.z 0) e
      simp only [loc1, flipR] at h1 h2
      rw [hz.1] at h1
      rw [hz.2] at h2
      exact ⟨by simpa using h1, by simpa using h2⟩
    · have hk' : k ∉ [q] := by simpa using hkq
      exact ⟨(hoff w k hk').1.trans (hw k hk).1, (hoff w k hk').2.trans (hw k hk).2⟩

theorem good2 {n c t : Nat} {f f0 : Row → Row} (hc : c < n) (ht : t < n) (he : Eqv2 f f0 c t)
    (hl : SignLin f0) (hoff : Off [c, t] f) (hi : Inv2 f0) (hz : Zer2 f0) :
    BitsInvol f ∧ ZeroPres n f := by
  constructor
  · intro w k
    have e : loc2 c t (f (f w)) = flipR w.r (f0 (f0 (row2 (w.x c) (w.z c) (w.x t) (w.z t)))) := by
      rw [he, he, loc2_eq, hl, hl]
    obtain ⟨i1, i2, i3, i4⟩ := hi (w.x c) (w.z c) (w.x t) (w.z t)
    by_cases hkc : k = c
    · subst hkc
      have h1 := congrArg (fun r => r.x 0) e
      have h2 := congrArg (fun r => r.z 0) e
      simp only [loc2, flipR] at h1 h2
      rw [i1] at h1; rw [i2] at h2
      exact ⟨by simpa using h1, by simpa using h2⟩
    · by_cases hkt : k = t
      · subst hkt
        have h1 := congrArg (fun r => r.x 1) e
        have h2 := congrArg (fun r => r.z 1) e
        simp only [loc2, flipR] at h1 h2
        rw [i3] at h1; rw [i4] at h2
        exact ⟨by simpa using h1, by simpa using h2⟩
      · have hk' : k ∉ [c, t] := by simp [hkc, hkt]
        exact ⟨(hoff (f w) k hk').1.trans (hoff w k hk').1, (hoff (f w) k hk').2.trans (hoff w k hk').2⟩
  · intro w hw k hk
    have e : loc2 c t (f w) = flipR w.r (f0 (row2 false false false false)) := by
      rw [he, loc2_eq, hl, (hw c hc).1, (hw c hc).2, (hw t ht).1, (hw t ht).2]
    obtain ⟨z1, z2, z3, z4⟩ := hz
    by_cases hkc : k = c
    · subst hkc
      have h1 := congrArg (fun r => r.x 0) e
      have h2 := congrArg (fun r => r.z 0) e
      simp only [loc2, flipR] at h1 h2
      rw [z1] at h1; rw [z2] at h2
      exact ⟨by simpa using h1, by simpa using h2⟩
    · by_cases hkt : k = t
      · subst hkt
        have h1 := congrArg (fun r => r.x 1) e
        have h2 := congrArg (fun r => r.z 1) e
        simp only [loc2, flipR] at h1 h2
        rw [z3] at h1; rw [z4] at h2
        exact ⟨by simpa using h1, by simpa using h2⟩
      · have hk' : k ∉ [c, t] := by simp [hkc, hkt]
        exact ⟨(hoff w k hk').1.trans (hw k hk).1, (hoff w k hk').2.trans (hw k hk).2⟩

theorem local_rot1 (k : Int) :
    Inv1 (opRX 0 k) ∧ Zer1 (opRX 0 k) ∧ Inv1 (opRY 0 k) ∧ Zer1 (opRY 0 k) ∧
    Inv1 (opRZ 0 k) ∧ Zer1 (opRZ 0 k) := by
  unfold opRX opRY opRZ
  rcases res4_cases k with h | h | h | h <;> rw [h] <;> decide

theorem local_crot (k : Int) :
    Inv2 (opCRX 0 1 k) ∧ Zer2 (opCRX 0 1 k) ∧ Inv2 (opCRY 0 1 k) ∧ Zer2 (opCRY 0 1 k) ∧
    Inv2 (opCRZ 0 1 k) ∧ Zer2 (opCRZ 0 1 k) := by
  unfold opCRX opCRY opCRZ
  rcases res4_cases k with h | h | h | h <;> rw [h] <;> decide

set_option maxRecDepth 100000 in
theorem gate_bits (n : Nat) (g : Gate) (hg : g.ok n) : BitsInvol g.act ∧ ZeroPres n g.act := by
  cases g <;> simp only [Gate.ok] at hg <;> simp only [Gate.act]
  case I q => exact good1 hg (eqv1_id q) signLin_id (off_I q) (by decide) (by decide)
  case H q => exact good1 hg (eqv1_H q) (signLin_H 0) (off_H q) (by decide) (by decide)
  case X q => exact good1 hg (eqv1_X q) (signLin_X 0) (off_X q) (by decide) (by decide)
  case Y q => exact good1 hg (eqv1_Y q) (signLin_Y 0) (off_Y q) (by decide) (by decide)
  case Z q => exact good1 hg (eqv1_Z q) (signLin_Z 0) (off_Z q) (by decide) (by decide)
  case S q => exact good1 hg (eqv1_S q) (signLin_S 0) (off_S q) (by decide) (by decide)
  case SDG q => exact good1 hg (eqv1_SDG q) (signLin_SDG 0) (off_SDG q) (by decide) (by decide)
  case SX q => exact good1 hg (eqv1_SX q) (signLin_SX 0) (off_SX q) (by decide) (by decide)
  case SXDG q => exact good1 hg (eqv1_SXDG q) (signLin_SXDG 0) (off_SXDG q) (by decide) (by decide)
  case CNOT c t =>
    exact good2 hg.1 hg.2.1 (eqv2_CNOT c t hg.2.2) (signLin_CNOT 0 1) (off_CNOT c t) (by decide) (by decide)
  case CZ c t =>
    exact good2 hg.1 hg.2.1 (eqv2_CZ c t hg.2.2) (signLin_CZ 0 1) (off_CZ c t) (by decide) (by decide)
  case CY c t =>
    exact good2 hg.1 hg.2.1 (eqv2_CY c t hg.2.2) (signLin_CY 0 1) (off_CY c t) (by decide) (by decide)
  case SWAP c t =>
    exact good2 hg.1 hg.2.1 (eqv2_SWAP c t hg.2.2) (signLin_SWAP 0 1) (off_SWAP c t) (by decide) (by decide)
  case iSWAP c t =>
    exact good2 hg.1 hg.2.1 (eqv2_iSWAP c t hg.2.2) (signLin_iSWAP 0 1) (off_iSWAP c t) (by decide) (by decide)
  case FSWAP c t =>
    exact good2 hg.1 hg.2.1 (eqv2_FSWAP c t hg.2.2) (signLin_FSWAP 0 1) (off_FSWAP c t) (by decide) (by decide)
  case ECR c t =>
    exact good2 hg.1 hg.2.1 (eqv2_ECR c t hg.2.2) (signLin_ECR 0 1) (off_ECR c t) (by decide) (by decide)
  case RX q k =>
    exact good1 hg (eqv1_RX q k) (signLin_RX 0 k) (off_RX q k) (local_rot1 k).1 (local_rot1 k).2.1
  case RY q k =>
    exact good1 hg (eqv1_RY q k) (signLin_RY 0 k) (off_RY q k) (local_rot1 k).2.2.1 (local_rot1 k).2.2.2.1
  case RZ q k =>
    exact good1 hg (eqv1_RZ q k) (signLin_RZ 0 k) (off_RZ q k) (local_rot1 k).2.2.2.2.1 (local_rot1 k).2.2.2.2.2
  case CRX c t k =>
    exact good2 hg.1 hg.2.1 (eqv2_CRX c t hg.2.2 k) (signLin_CRX 0 1 k) (off_CRX c t k)
      (local_crot k).1 (local_crot k).2.1
  case CRY c t k =>
    exact good2 hg.1 hg.2.1 (eqv2_CRY c t hg.2.2 k) (signLin_CRY 0 1 k) (off_CRY c t k)
      (local_crot k).2.2.1 (local_crot k).2.2.2.1
  case CRZ c t k =>
    exact good2 hg.1 hg.2.1 (eqv2_CRZ c t hg.2.2 k) (signLin_CRZ 0 1 k) (off_CRZ c t k)
      (local_crot k).2.2.2.2.1 (local_crot k).2.2.2.2.2

/-! ### non-degeneracy of the tableau rows -/

theorem symp_congr (n : Nat) {a a' b b' : Row}
    (ha : ∀ k, k < n → a.x k = a'.x k ∧ a.z k = a'.z k)
    (hb : ∀ k, k < n → b.x k = b'.x k ∧ b.z k = b'.z k) : symp n a b = symp n a' b' := by
  induction n with
  | zero => rfl
  | succ n ih =>
    simp only [symp]
    rw [ih (fun k hk => ha k (by omega)) (fun k hk => hb k (by omega)),
      (ha n (by omega)).1, (ha n (by omega)).2, (hb n (by omega)).1, (hb n (by omega)).2]

theorem symp_unitZ_right (n k : Nat) (v : Row) : symp n v (unitZ k) = (decide (k < n) && v.x k) := by
  induction n with
  | zero => simp [symp]
  | succ n ih =>
    rw [symp, ih]
    simp only [unitZ]
    by_cases hkn : n = k
    · subst hkn; simp
    · have h1 : (n == k) = false := by simpa using hkn
      by_cases hlt : k < n
      · have : k < n + 1 := by omega
        simp [h1, hlt, this]
      · have : ¬ k < n + 1 := by omega
        simp [h1, hlt, this]

theorem symp_unitX_right (n k : Nat) (v : Row) : symp n v (unitX k) = (decide (k < n) && v.z k) := by
  induction n with
  | zero => simp [symp]
  | succ n ih =>
    rw [symp, ih]
    simp only [unitX]
    by_cases hkn : n = k
    · subst hkn; simp
    · have h1 : (n == k) = false := by simpa using hkn
      by_cases hlt : k < n
      · have : k < n + 1 := by omega
        simp [h1, hlt, this]
      · have : ¬ k < n + 1 := by omega
        simp [h1, hlt, this]

/-- a string commuting with all `2n` rows has no X or Z below `n`. -/
def NonDeg (n : Nat) (T : Tableau) : Prop :=
  ∀ v : Row, (∀ j, j < 2 * n → symp n v (getRow T j) = false) →
    ∀ k, k < n → v.x k = false ∧ v.z k = false

theorem nonDeg_zeroState (n : Nat) : NonDeg n (zeroState n) := by
  intro v hv k hk
  have h1 := hv k (by omega)
  have h2 := hv (n + k) (by omega)
  rw [getRow_zero_lo n k hk, symp_unitX_right] at h1
  rw [getRow_zero_hi n k hk, symp_unitZ_right] at h2
  simp [hk] at h1 h2
  exact ⟨h2, h1⟩

theorem nonDeg_applyGate (n : Nat) (g : Gate) (hg : g.ok n) (T : Tableau) (hlen : 2 * n < T.length)
    (h : NonDeg n T) : NonDeg n (Cliff.applyGate g T) := by
  obtain ⟨hinv, hzero⟩ := gate_bits n g hg
  intro v hv
  have hgv : ∀ k, k < n → (g.act v).x k = false ∧ (g.act v).z k = false := by
    refine h (g.act v) (fun j hj => ?_)
    have := hv j hj
    rw [getRow_applyGate g T j (by omega)] at this
    rw [← sympInv_gate n g hg (g.act v) (getRow T j),
      symp_congr n (a' := v) (b' := g.act (getRow T j)) (fun k _ => hinv v k) (fun _ _ => ⟨rfl, rfl⟩)]
    exact this
  intro k hk
  have := hzero (g.act v) hgv k hk
  rw [(hinv v k).1, (hinv v k).2] at this
  exact this

theorem nonDeg_runGates (n : Nat) (gs : List Gate) (hg : ∀ g ∈ gs, g.ok n) (T : Tableau)
    (hlen : 2 * n < T.length) (h : NonDeg n T) : NonDeg n (runGates gs T) := by
  induction gs generalizing T with
  | nil => exact h
  | cons g gs ih =>
    simp only [runGates, List.foldl_cons]
    exact ih (fun g' hg' => hg g' (List.mem_cons_of_mem _ hg')) _
      (by simpa [Cliff.applyGate] using hlen)
      (nonDeg_applyGate n g (hg g (List.mem_cons_self ..)) T hlen h)

/-! ### the scratch row of the determined case is `± Z_q` -/

theorem symp_zero_left (n : Nat) (a : Row) : symp n Row.zero a = false := by
  rw [symp_comm, symp_zero_right]

theorem scratchFold_append (n : Nat) (T : Tableau) (q : Nat) (l l' : List Nat) (s0 : Row) :
    scratchFold n T q (l ++ l') s0 = scratchFold n T q l' (scratchFold n T q l s0) := by
  simp [scratchFold, List.foldl_append]

/-- commutation of the partial scratch row with destabiliser `j`: anticommutes iff stabiliser `j`
has already been multiplied in. -/
theorem scratch_symp_destab (n : Nat) (T : Tableau) (q : Nat) (hv : Valid n T) (m : Nat) (hm : m ≤ n)
    (j : Nat) (hj : j < n) :
    symp n (scratchFold n T q (List.range m) Row.zero) (getRow T j)
      = (decide (j < m) && (getRow T j).x q) := by
  induction m with
  | zero => simp [scratchFold, symp_zero_left]
  | succ m ih =>
    have ihm := ih (by omega)
    rw [List.range_succ, scratchFold_append]
    simp only [scratchFold, List.foldl_cons, List.foldl_nil] at ihm ⊢
    have hval : symp n (getRow T (n + m)) (getRow T j) = decide (j = m) := by
      rw [hv.2 (n + m) j (by omega) (by omega)]
      by_cases e : j = m
      · subst e; simp; omega
      · simp [e]; omega
    by_cases hsel : (getRow T m).x q = true
    · rw [if_pos hsel, symp_rowsum_left, hval, ihm]
      by_cases e : j = m
      · subst e; simp [hsel]
      · have h1 : (decide (j < m + 1)) = decide (j < m) := by
          by_cases h : j < m
          · have : j < m + 1 := by omega
            simp [h, this]
          · have : ¬ j < m + 1 := by omega
            simp [h, this]
        simp [e, h1]
    · rw [if_neg hsel, ihm]
      by_cases e : j = m
      · subst e
        have : (getRow T j).x q = false := by simpa using hsel
        simp [this]
      · have h1 : (decide (j < m + 1)) = decide (j < m) := by
          by_cases h : j < m
          · have : j < m + 1 := by omega
            simp [h, this]
          · have : ¬ j < m + 1 := by omega
            simp [h, this]
        rw [h1]

/-- commutation of the scratch row with the stabilisers (no state needed). -/
theorem scratchFold_comm (n : Nat) (T : Tableau) (q : Nat)
    (hcomm : ∀ i j, i < n → j < n → symp n (getRow T (n + i)) (getRow T (n + j)) = false)
    (l : List Nat) (hl : ∀ i ∈ l, i < n) (s0 : Row)
    (hc0 : ∀ j, j < n → symp n (getRow T (n + j)) s0 = false) :
    ∀ j, j < n → symp n (getRow T (n + j)) (scratchFold n T q l s0) = false := by
  induction l generalizing s0 with
  | nil => exact hc0
  | cons i l ih =>
    have hi : i < n := hl i (List.mem_cons_self ..)
    have hl' : ∀ i' ∈ l, i' < n := fun i' h' => hl i' (List.mem_cons_of_mem _ h')
    simp only [scratchFold, List.foldl_cons]
    by_cases hsel : (getRow T i).x q = true
    · rw [if_pos hsel]
      refine ih hl' _ ?_
      intro j hj
      rw [symp_rowsum_right, hcomm j i hj hi, hc0 j hj]; rfl
    · rw [if_neg hsel]
      exact ih hl' _ hc0

/-- **determined case**: if no stabiliser row has an X on qubit `q`, the accumulated scratch row is
`± Z_q` — no X anywhere, a Z exactly on `q` (Aaronson–Gottesman, from the tableau invariant and
the non-degeneracy of the rows). -/
theorem determinedScratch_is_Z (n : Nat) (T : Tableau) (q : Nat) (hq : q < n) (hv : Valid n T)
    (hnd : NonDeg n T) (hnone : ∀ i, i < n → (getRow T (n + i)).x q = false) :
    ∀ k, k < n → (determinedScratch n T q).x k = false ∧ (determinedScratch n T q).z k = (k == q) := by
  have hcomm : ∀ i j, i < n → j < n → symp n (getRow T (n + i)) (getRow T (n + j)) = false := by
    intro i j hi hj
    rw [hv.2 (n + i) (n + j) (by omega) (by omega)]
    simp; omega
  have hstab := scratchFold_comm n T q hcomm (List.range n) (fun _ h => List.mem_range.1 h) Row.zero
    (fun _ _ => symp_zero_right n _)
  rw [← determinedScratch_eq] at hstab
  have hdest := fun j hj => scratch_symp_destab n T q hv n (Nat.le_refl n) j hj
  rw [← determinedScratch_eq] at hdest
  have hzero := hnd (rowsum 0 (determinedScratch n T q) (unitZ q)) (by
    intro j hj
    rw [symp_rowsum_left, symp_comm n (unitZ q), symp_unitZ_right]
    by_cases hjn : j < n
    · rw [hdest j hjn]; simp [hjn, hq]
    · obtain ⟨i, rfl⟩ : ∃ i, j = n + i := ⟨j - n, by omega⟩
      rw [symp_comm, hstab i (by omega), hnone i (by omega)]; simp)
  intro k hk
  have := hzero k hk
  simp only [rowsum, unitZ] at this
  constructor
  · simpa using this.1
  · have h2 := this.2
    revert h2
    cases (determinedScratch n T q).z k <;> cases (k == q) <;> simp

/-! ### closed form of a Pauli string: one amplitude, up to a scalar -/

theorem g1_sigma_apply (xb zb : Bool) (k : Nat) (φ : Lab → GI) (x : Lab) :
    ∃ c : GI, QV.applyGate (g1 (sigma xb zb) k) φ x = c * φ (x.set k (x k ^^ xb)) := by
  rw [g1_apply]
  cases xb <;> cases zb <;> cases hx : x k <;>
    first
    | (refine ⟨1, ?_⟩; simp [nat2, sigma, ofRows2, gi_zero, gi_one]; done)
    | (refine ⟨gi (-1) 0, ?_⟩; simp [nat2, sigma, ofRows2, gi_zero]; done)
    | (refine ⟨gi 0 1, ?_⟩; simp [nat2, sigma, ofRows2, gi_zero]; done)
    | (refine ⟨gi 0 (-1), ?_⟩; simp [nat2, sigma, ofRows2, gi_zero])

/-- `(∏_{k∈qs} σ_k ψ)(x) = c · ψ(x ⊕ (X-part on qs))`. -/
theorem pauliList_closed (qs : List Nat) (hn : qs.Nodup) (w : Row) (ψ : Lab → GI) (x : Lab) :
    ∃ c : GI, pauliList qs w ψ x = c * ψ (fun k => if k ∈ qs then (x k ^^ w.x k) else x k) := by
  induction qs generalizing x with
  | nil => exact ⟨1, by simp [pauliList]⟩
  | cons k qs ih =>
    have hk : k ∉ qs := (List.nodup_cons.1 hn).1
    obtain ⟨c1, h1⟩ := g1_sigma_apply (w.x k) (w.z k) k (pauliList qs w ψ) x
    obtain ⟨c2, h2⟩ := ih (List.nodup_cons.1 hn).2 (x.set k (x k ^^ w.x k))
    refine ⟨c1 * c2, ?_⟩
    rw [pauliList_cons]
    show QV.applyGate (g1 (sigma (w.x k) (w.z k)) k) (pauliList qs w ψ) x = _
    have hfun : (fun j => if j ∈ qs then (x.set k (x k ^^ w.x k)) j ^^ w.x j
          else (x.set k (x k ^^ w.x k)) j)
        = (fun j => if j ∈ k :: qs then x j ^^ w.x j else x j) := by
      funext j
      by_cases hj : j = k
      · subst hj; simp [hk, Lab.set]
      · simp [hj, Lab.set]
    rw [h1, h2, mul_assoc, hfun]

/-- a state fixed by a row with an X on qubit `q < n` has amplitude on both values of bit `q`. -/
theorem both_outcomes (n q : Nat) (hq : q < n) (p : Row) (hp : p.x q = true) (ψ : Lab → GI)
    (hfix : pauliOp n p ψ = ψ) (hnz : ∃ x, ψ x ≠ 0) :
    (∃ x, x q = false ∧ ψ x ≠ 0) ∧ (∃ x, x q = true ∧ ψ x ≠ 0) := by
  have key : ∀ x, ψ x ≠ 0 → ∃ y, y q = !(x q) ∧ ψ y ≠ 0 := by
    intro x hx
    obtain ⟨c, hc⟩ := pauliList_closed (List.range n) List.nodup_range p ψ x
    refine ⟨fun k => if k ∈ List.range n then (x k ^^ p.x k) else x k, ?_, fun h0 => hx ?_⟩
    · simp [List.mem_range.2 hq, hp]
    · have := congrFun hfix x
      unfold pauliOp at this
      rw [← this, hc, h0]; simp
  obtain ⟨x, hx⟩ := hnz
  obtain ⟨y, hy, hy0⟩ := key x hx
  cases hxq : x q
  · exact ⟨⟨x, hxq, hx⟩, ⟨y, by rw [hy, hxq]; rfl, hy0⟩⟩
  · exact ⟨⟨y, by rw [hy, hxq]; rfl, hy0⟩, ⟨x, hxq, hx⟩⟩

/-! ### the state vector of a Clifford circuit is not the zero vector -/

def dag2 (M : M2) : M2 := fun i j => GI.conj (M j i)
def dag4 (M : M4) : M4 := fun i j => GI.conj (M j i)

/-- `M† M = c·1` with a non-zero integer `c`. -/
def SU2 (M : M2) : Prop :=
  (mul2 (dag2 M) M 0 0).re ≠ 0 ∧
    ∀ i j : Fin 2, mul2 (dag2 M) M i j
      = gi (mul2 (dag2 M) M 0 0).re 0 * sigma false false i j
def SU4 (M : M4) : Prop :=
  (mul4 (dag4 M) M 0 0).re ≠ 0 ∧
    ∀ i j : Fin 4, mul4 (dag4 M) M i j
      = gi (mul4 (dag4 M) M 0 0).re 0 * kron (sigma false false) (sigma false false) i j

instance (M : M2) : Decidable (SU2 M) := by unfold SU2; infer_instance
instance (M : M4) : Decidable (SU4 M) := by unfold SU4; infer_instance

theorem GI.eq_zero_of_int_mul (c : Int) (hc : c ≠ 0) (a : GI) (h : gi c 0 * a = 0) : a = 0 := by
  have h1 := congrArg GI.re h
  have h2 := congrArg GI.im h
  simp [gi] at h1 h2
  exact GI.ext' (by simpa using h1.resolve_left hc) (by simpa using h2.resolve_left hc)

theorem g1_id (q : Nat) (φ : Lab → GI) : QV.applyGate (g1 (sigma false false) q) φ = φ := by
  have := pauliList_id (qs := [q]) (w := Row.zero) (fun _ _ => ⟨rfl, rfl⟩) φ
  simpa [pauliList, pauliGate, Row.zero] using this

theorem g1_nonzero (M : M2) (h : SU2 M) (q : Nat) (ψ : Lab → GI) (hnz : ∃ x, ψ x ≠ 0) :
    ∃ x, QV.applyGate (g1 M q) ψ x ≠ 0 := by
  by_contra hall
  have hz : QV.applyGate (g1 M q) ψ = fun _ => 0 := by
    funext x; by_contra hx; exact hall ⟨x, hx⟩
  have hn : [q].Nodup := by simp
  have hd : ∀ c, c ∈ ([] : List Nat) → c ∉ [q] := by simp
  have e : QV.applyGate (g1 (dag2 M) q) (QV.applyGate (g1 M q) ψ)
      = fun x => gi (mul2 (dag2 M) M 0 0).re 0 * ψ x := by
    simp only [g1]
    rw [applyGate_mul [q] [] hn hd, nat2_mul]
    have hm : nat2 (mul2 (dag2 M) M)
        = fun i j => gi (mul2 (dag2 M) M 0 0).re 0 * nat2 (sigma false false) i j := by
      funext i j; exact h.2 _ _
    rw [hm, applyGate_mat_smul]
    funext x
    have := g1_id q ψ
    simp only [g1] at this
    rw [this]
  rw [hz, applyGate_zero] at e
  obtain ⟨x, hx⟩ := hnz
  exact hx (GI.eq_zero_of_int_mul _ h.1 _ (congrFun e x).symm)

theorem g2_id (c t : Nat) (hct : c ≠ t) (φ : Lab → GI) :
    QV.applyGate (g2 (kron (sigma false false) (sigma false false)) c t) φ = φ := by
  rw [← g1_g1_eq_g2 _ _ c t hct, g1_id, g1_id]

theorem g2_nonzero (M : M4) (h : SU4 M) (c t : Nat) (hct : c ≠ t) (ψ : Lab → GI)
    (hnz : ∃ x, ψ x ≠ 0) : ∃ x, QV.applyGate (g2 M c t) ψ x ≠ 0 := by
  by_contra hall
  have hz : QV.applyGate (g2 M c t) ψ = fun _ => 0 := by
    funext x; by_contra hx; exact hall ⟨x, hx⟩
  have hn : [c, t].Nodup := by simp [hct]
  have hd : ∀ r, r ∈ ([] : List Nat) → r ∉ [c, t] := by simp
  have e : QV.applyGate (g2 (dag4 M) c t) (QV.applyGate (g2 M c t) ψ)
      = fun x => gi (mul4 (dag4 M) M 0 0).re 0 * ψ x := by
    simp only [g2]
    rw [applyGate_mul [c, t] [] hn hd, nat4_mul]
    have hm : nat4 (mul4 (dag4 M) M)
        = fun i j => gi (mul4 (dag4 M) M 0 0).re 0
            * nat4 (kron (sigma false false) (sigma false false)) i j := by
      funext i j; exact h.2 _ _
    rw [hm, applyGate_mat_smul]
    funext x
    have := g2_id c t hct ψ
    simp only [g2] at this
    rw [this]
  rw [hz, applyGate_zero] at e
  obtain ⟨x, hx⟩ := hnz
  exact hx (GI.eq_zero_of_int_mul _ h.1 _ (congrFun e x).symm)

theorem su_rot1 (k : Int) : SU2 (mat1 "RX" k) ∧ SU2 (mat1 "RY" k) ∧ SU2 (mat1 "RZ" k) := by
  unfold mat1
  rcases res4_cases k with h | h | h | h <;> rw [h] <;> decide +kernel

theorem su_crot (k : Int) : SU4 (mat2 "CRX" k) ∧ SU4 (mat2 "CRY" k) ∧ SU4 (mat2 "CRZ" k) := by
  unfold mat2
  rcases res4_cases k with h | h | h | h <;> rw [h] <;> decide +kernel

set_option maxRecDepth 100000 in
theorem mgate_nonzero (n : Nat) (g : Gate) (hg : g.ok n) (ψ : Lab → GI) (hnz : ∃ x, ψ x ≠ 0) :
    ∃ x, QV.applyGate g.mgate ψ x ≠ 0 := by
  cases g <;> simp only [Gate.ok] at hg <;> simp only [Gate.mgate]
  case I q => exact g1_nonzero _ (by decide +kernel) q ψ hnz
  case H q => exact g1_nonzero _ (by decide +kernel) q ψ hnz
  case X q => exact g1_nonzero _ (by decide +kernel) q ψ hnz
  case Y q => exact g1_nonzero _ (by decide +kernel) q ψ hnz
  case Z q => exact g1_nonzero _ (by decide +kernel) q ψ hnz
  case S q => exact g1_nonzero _ (by decide +kernel) q ψ hnz
  case SDG q => exact g1_nonzero _ (by decide +kernel) q ψ hnz
  case SX q => exact g1_nonzero _ (by decide +kernel) q ψ hnz
  case SXDG q => exact g1_nonzero _ (by decide +kernel) q ψ hnz
  case CNOT c t => exact g2_nonzero _ (by decide +kernel) c t hg.2.2 ψ hnz
  case CZ c t => exact g2_nonzero _ (by decide +kernel) c t hg.2.2 ψ hnz
  case CY c t => exact g2_nonzero _ (by decide +kernel) c t hg.2.2 ψ hnz
  case SWAP c t => exact g2_nonzero _ (by decide +kernel) c t hg.2.2 ψ hnz
  case iSWAP c t => exact g2_nonzero _ (by decide +kernel) c t hg.2.2 ψ hnz
  case FSWAP c t => exact g2_nonzero _ (by decide +kernel) c t hg.2.2 ψ hnz
  case ECR c t => exact g2_nonzero _ (by decide +kernel) c t hg.2.2 ψ hnz
  case RX q k => exact g1_nonzero _ (su_rot1 k).1 q ψ hnz
  case RY q k => exact g1_nonzero _ (su_rot1 k).2.1 q ψ hnz
  case RZ q k => exact g1_nonzero _ (su_rot1 k).2.2 q ψ hnz
  case CRX c t k => exact g2_nonzero _ (su_crot k).1 c t hg.2.2 ψ hnz
  case CRY c t k => exact g2_nonzero _ (su_crot k).2.1 c t hg.2.2 ψ hnz
  case CRZ c t k => exact g2_nonzero _ (su_crot k).2.2 c t hg.2.2 ψ hnz

theorem runSV_nonzero (n : Nat) (gs : List Gate) (hg : ∀ g ∈ gs, g.ok n) : ∃ x, runSV n gs x ≠ 0 := by
  unfold runSV
  have h0 : ∃ x, zeroKet n x ≠ 0 := ⟨fun _ => false, by simp [zeroKet]; decide⟩
  generalize zeroKet n = ψ at h0
  induction gs generalizing ψ with
  | nil => exact h0
  | cons g gs ih =>
    simp only [List.map_cons, runCircuit_cons]
    exact ih (fun g' hg' => hg g' (List.mem_cons_of_mem _ hg')) _
      (mgate_nonzero n g (hg g (List.mem_cons_self ..)) ψ h0)

/-! ### the branch test of `M` -/

theorem findP_none {n : Nat} {T : Tableau} {q : Nat} (h : findP n T q = none) :
    ∀ i, i < n → (getRow T (n + i)).x q = false := by
  intro i hi
  unfold findP at h
  rw [Option.map_eq_none_iff, List.find?_eq_none] at h
  simpa using h i (List.mem_range.2 hi)

theorem findP_some {n : Nat} {T : Tableau} {q p : Nat} (h : findP n T q = some p) :
    ∃ j, j < n ∧ p = n + j ∧ (getRow T (n + j)).x q = true := by
  unfold findP at h
  rw [Option.map_eq_some_iff] at h
  obtain ⟨j, hj, rfl⟩ := h
  have hx : (getRow T (n + j)).x q = true :=
    List.find?_some (p := fun j => (getRow T (n + j)).x q) hj
  exact ⟨j, List.mem_range.1 (List.mem_of_find?_eq_some hj), rfl, hx⟩

end QV.Cliff
