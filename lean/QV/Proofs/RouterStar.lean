/-
  QV.Proofs.RouterStar — the loop of `StarConnectivityRouter.__call__` (model `starActions`
  / `starTrace`, QV/Model/Router.lean) only generates actions that satisfy their guard on
  the star graph with centre `mid`:
    * `findConnected_mem` : `_find_connected_qubit` returns one of the two routed qubits;
    * `starActions_guards`: one iteration (gate on the centre: executed as is; otherwise
                            SWAP(new_middle, centre) — an edge — after which the gate
                            involves the centre);
    * `starTrace_guards`  : the whole loop, from any state whose maps are inverse
                            permutations.
-/
import QV.Props.C09

set_option linter.unusedSectionVars false
set_option linter.unusedSimpArgs false
set_option linter.unusedVariables false

namespace QV.Router
open QV QV.Props.C09

/-- the star graph with centre `mid` on `n` qubits, as an edge list. -/
def starEdges (n mid : Nat) : List (Nat × Nat) := (List.range n).map fun x => (mid, x)

theorem edgeOk_star_left {n mid x : Nat} (hx : x < n) : edgeOk (starEdges n mid) mid x = true := by
  simp [edgeOk, starEdges, hx]

theorem edgeOk_star_right {n mid x : Nat} (hx : x < n) : edgeOk (starEdges n mid) x mid = true := by
  simp [edgeOk, starEdges, hx]

theorem findConnected_mem (q0 q1 : Nat) (l2p : List Nat) :
    ∀ (rest : List RGate) (poss : List Nat) (nm : Nat),
      findConnected q0 q1 l2p poss rest = some nm → nm = q0 ∨ nm ∈ poss := by
  intro rest
  induction rest with
  | nil => intro poss nm h; simp [findConnected] at h; exact Or.inl h.symm
  | cons g rest ih =>
    intro poss nm h
    unfold findConnected at h
    split at h
    · exact ih _ _ h
    · split at h
      · simp at h
      · split at h
        · rename_i a b hq
          simp only at h
          split at h
          · simp at h; exact Or.inl h.symm
          · rename_i p hp
            simp at h
            subst h
            right
            have : p ∈ poss.filter fun p => p == look l2p a || p == look l2p b := by
              rw [hp]; exact List.mem_cons_self ..
            exact (List.mem_filter.1 this).1
          · rcases ih _ _ h with e | hm
            · exact Or.inl e
            · exact Or.inr (List.mem_filter.1 hm).1
        · exact ih _ _ h

theorem guardsOk_append (n : Nat) (E : List (Nat × Nat)) :
    ∀ (as bs : List Action) (s : RState),
      guardsOk n E s (as ++ bs) = (guardsOk n E s as && guardsOk n E (run s as) bs) := by
  intro as
  induction as with
  | nil => intro bs s; simp [guardsOk, run]
  | cons a as ih =>
    intro bs s
    simp only [List.cons_append, guardsOk, ih, run, List.foldl_cons, Bool.and_assoc]

/-- position lookup in a permutation list. -/
theorem idxOf_perm {n : Nat} {s : RState} (hI : Inv n s) {p : Nat} (hp : p < n) :
    s.l2p.idxOf p < n ∧ look s.l2p (s.l2p.idxOf p) = p := by
  have hl := (hI.2.2.2 p hp).1
  have hmem : p ∈ s.l2p := by
    have h1 : look s.l2p (look s.p2l p) = p := hI.right_inv p
    rw [look_lt (by rw [hI.2.1]; exact hl)] at h1
    rw [← h1]; exact List.getElem_mem _
  have hlt : s.l2p.idxOf p < s.l2p.length := List.idxOf_lt_length_of_mem hmem
  refine ⟨by rw [← hI.2.1]; exact hlt, ?_⟩
  rw [look_lt hlt]
  exact List.getElem_idxOf hlt

theorem gateOk_relabel_pair {E : List (Nat × Nat)} {g : RGate} {σ : Nat → Nat} {a b : Nat}
    (hq : g.qs = [a, b]) (h : edgeOk E (σ a) (σ b) = true) : gateOk E (g.relabel σ) = true := by
  simp [gateOk, RGate.relabel, hq, h]

theorem guards_exec_one {n : Nat} {E : List (Nat × Nat)} {s : RState} {g : RGate}
    (h : gateOk E (g.relabel (look s.l2p)) = true) :
    guardsOk n E s [.exec [g]] = true := by
  simp [guardsOk, guard, wf, edgeGuard, h]

/-- one iteration of the star loop only emits guarded actions. -/
theorem starActions_guards {n mid : Nat} (hmid : mid < n) {s : RState} (hI : Inv n s)
    (g : RGate) (rest : List RGate) (hnd : g.qs.Nodup) (hlt : ∀ q ∈ g.qs, q < n)
    {as : List Action} (h : starActions mid s g rest = some as) :
    guardsOk n (starEdges n mid) s as = true := by
  unfold starActions at h
  by_cases hm : g.meas = true
  · rw [if_pos hm] at h
    split at h
    · simp at h; subst h; rfl
    · simp at h; subst h
      apply guards_exec_one
      simp [gateOk, RGate.relabel, hm]
  · rw [if_neg hm] at h
    rcases hq : g.qs with _ | ⟨a, _ | ⟨b, _ | ⟨c, t⟩⟩⟩
    · simp [hq] at h; subst h
      apply guards_exec_one
      simp [gateOk, RGate.relabel, hq]
    · simp [hq] at h; subst h
      apply guards_exec_one
      simp [gateOk, RGate.relabel, hq]
    · have ha : a < n := hlt a (by simp [hq])
      have hb : b < n := hlt b (by simp [hq])
      have hab : a ≠ b := by
        rw [hq] at hnd; simpa using hnd
      have hr0 : look s.l2p a < n := (hI.2.2.1 a ha).1
      have hr1 : look s.l2p b < n := (hI.2.2.1 b hb).1
      have hr01 : look s.l2p a ≠ look s.l2p b := fun e => hab (hI.l2p_injective e)
      simp only [hq, List.length_cons, List.length_nil, List.map_cons, List.map_nil] at h
      rw [if_neg (by omega)] at h
      split at h
      · rename_i hc
        simp at h; subst h
        apply guards_exec_one
        apply gateOk_relabel_pair hq
        simp only [Bool.or_eq_true, beq_iff_eq] at hc
        rcases hc with hc | hc
        · rw [hc]; exact edgeOk_star_left hr1
        · rw [hc]; exact edgeOk_star_right hr0
      · rename_i hc
        simp only [Bool.or_eq_true, beq_iff_eq, not_or] at hc
        split at h
        · simp at h
        · rename_i nm hf
          simp at h; subst h
          have hnm : nm = look s.l2p a ∨ nm = look s.l2p b := by
            rcases findConnected_mem _ _ _ _ _ _ hf with e | e
            · exact Or.inl e
            · simpa using e
          have hnmn : nm < n := by rcases hnm with e | e <;> rw [e] <;> assumption
          have hnmm : nm ≠ mid := by
            rcases hnm with e | e <;> rw [e]
            · exact hc.1
            · exact hc.2
          obtain ⟨hl0, hv0⟩ := idxOf_perm hI hnmn
          obtain ⟨hl1, hv1⟩ := idxOf_perm hI hmid
          have hne : s.l2p.idxOf nm ≠ s.l2p.idxOf mid := by
            intro e; rw [e, hv1] at hv0; exact hnmm hv0.symm
          have hw : wf n s (.swap (s.l2p.idxOf nm) (s.l2p.idxOf mid)) = true := by
            simp [wf, hne, hl0, hl1]
          have hl2p : ∀ l, look (step s (.swap (s.l2p.idxOf nm) (s.l2p.idxOf mid))).l2p l
              = tr nm mid (look s.l2p l) := by
            intro l
            have : look (step s (.swap (s.l2p.idxOf nm) (s.l2p.idxOf mid))).l2p l
                = tr (look s.l2p (s.l2p.idxOf nm)) (look s.l2p (s.l2p.idxOf mid)) (look s.l2p l) :=
              updateMaps_l2p hI hl0 hl1 hne l
            rw [hv0, hv1] at this
            exact this
          simp only [guardsOk, guard, hw, Bool.true_and, Bool.and_true, Bool.and_eq_true]
          refine ⟨?_, ?_, ?_⟩
          · simp only [edgeGuard, hv0, hv1]
            exact edgeOk_star_right hnmn
          · rfl
          · simp only [edgeGuard, List.all_cons, List.all_nil, Bool.and_true]
            apply gateOk_relabel_pair hq
            rw [hl2p, hl2p]
            rcases hnm with e | e
            · have : tr nm mid (look s.l2p a) = mid := by simp [tr, e]
              rw [this]
              have h2 : tr nm mid (look s.l2p b) = look s.l2p b := by
                simp [tr, e, Ne.symm hr01, hc.2]
              rw [h2]
              exact edgeOk_star_left hr1
            · have : tr nm mid (look s.l2p b) = mid := by simp [tr, e]
              rw [this]
              have h2 : tr nm mid (look s.l2p a) = look s.l2p a := by
                simp [tr, e, hr01, hc.1]
              rw [h2]
              exact edgeOk_star_right hr0
    · simp [hq] at h

/-- the whole loop, from any state with inverse-permutation maps. -/
theorem starTrace_guards {n mid : Nat} (hmid : mid < n) :
    ∀ (queue : List RGate) (s : RState) (as : List Action), Inv n s →
      (∀ g ∈ queue, g.qs.Nodup ∧ ∀ q ∈ g.qs, q < n) →
      starTrace mid s queue = some as → guardsOk n (starEdges n mid) s as = true := by
  intro queue
  induction queue with
  | nil => intro s as _ _ h; simp [starTrace] at h; subst h; rfl
  | cons g rest ih =>
    intro s as hI hq h
    unfold starTrace at h
    cases ha : starActions mid s g rest with
    | none => simp [ha] at h
    | some as1 =>
      simp only [ha] at h
      cases ht : starTrace mid (run s as1) rest with
      | none => simp [ht] at h
      | some as2 =>
        simp only [ht, Option.map_some, Option.some.injEq] at h
        subst h
        have hg := hq g (List.mem_cons_self ..)
        have h1 := starActions_guards hmid hI g rest hg.1 hg.2 ha
        have hI' : Inv n (run s as1) := Inv_run hI as1 (guardsOk_wfAll h1)
        rw [guardsOk_append, h1, Bool.true_and]
        exact ih _ _ hI' (fun g' hg' => hq g' (List.mem_cons_of_mem _ hg')) ht
