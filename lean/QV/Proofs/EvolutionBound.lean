/-
  QV.Proofs.EvolutionBound — the analytic third-order bound of the symmetric Trotter step
  (property C16), for EVERY list of terms, with an explicit constant.

  `HasExp2 f p lam`: "`f t = p₀ + t p₁ + t² p₂ + R(t)` with `‖R(t)‖ ≤ r₃(lam) ‖t‖³` for `‖t‖ ≤ 1`",
  `r₃(x) = eˣ - 1 - x - x²/2`, together with the coefficient bounds `‖p_k‖ ≤ lam^k / k!`.
  It is closed under products with `lam` adding (`HasExp2.mul`; the constants match EXACTLY because
  `e^{x+y} = eˣ e^y`), holds for `t ↦ exp (t • x)` with any `lam ≥ ‖x‖` (`hasExp2_exp`), hence for
  every product of exponentials (`hasExp2_prod`).  With `trunc_trotter` (the coefficients of the
  symmetric product are those of the exponential of the sum):
  `‖S(t) - exp(t • 2Σx)‖ ≤ 2 r₃(2Σ‖x‖) ‖t‖³`.
-/
import QV.Proofs.EvolutionOrder

namespace QV
namespace Evo

open NormedSpace Trunc2

/-- `1 + x + x²/2`. -/
noncomputable def taylor2 (x : ℝ) : ℝ := 1 + x + x ^ 2 / 2

/-- `eˣ - 1 - x - x²/2 = Σ_{k≥3} x^k/k!`. -/
noncomputable def rem3 (x : ℝ) : ℝ := Real.exp x - taylor2 x

theorem rem3_nonneg {x : ℝ} (hx : 0 ≤ x) : 0 ≤ rem3 x := by
  have := Real.quadratic_le_exp_of_nonneg hx
  unfold rem3 taylor2
  linarith

theorem rem3_zero : rem3 0 = 0 := by simp [rem3, taylor2]

/-- the exact addition law of the remainders. -/
theorem rem3_add (x y : ℝ) :
    rem3 (x + y) = rem3 x * Real.exp y + taylor2 x * rem3 y
      + (x * y ^ 2 / 2 + x ^ 2 / 2 * y + x ^ 2 / 2 * (y ^ 2 / 2)) := by
  unfold rem3 taylor2
  rw [Real.exp_add]
  ring

/-- `r₃` is monotone on `[0, ∞)` (from the addition law). -/
theorem rem3_mono {x y : ℝ} (hx : 0 ≤ x) (hxy : x ≤ y) : rem3 x ≤ rem3 y := by
  have hd : 0 ≤ y - x := sub_nonneg.mpr hxy
  have e : y = x + (y - x) := by ring
  rw [e, rem3_add]
  have h1 : rem3 x ≤ rem3 x * Real.exp (y - x) := by
    have := Real.one_le_exp hd
    nlinarith [rem3_nonneg hx]
  have h2 : 0 ≤ taylor2 x * rem3 (y - x) :=
    mul_nonneg (by unfold taylor2; positivity) (rem3_nonneg hd)
  have h3 : 0 ≤ x * (y - x) ^ 2 / 2 + x ^ 2 / 2 * (y - x) + x ^ 2 / 2 * ((y - x) ^ 2 / 2) := by
    positivity
  linarith

/-- `r₃(x) ≤ x³ eˣ / 6` for `x ≥ 0` (termwise: `(n+3)! ≥ 6 n!`). -/
theorem rem3_le {x : ℝ} (hx : 0 ≤ x) : rem3 x ≤ x ^ 3 / 6 * Real.exp x := by
  have hr : HasSum (fun n : ℕ => x ^ n / n.factorial) (Real.exp x) := by
    rw [Real.exp_eq_exp_ℝ]
    exact NormedSpace.expSeries_div_hasSum_exp x
  have hr3 := (hasSum_nat_add_iff' 3).mpr hr
  have er3 : ∑ i ∈ Finset.range 3, x ^ i / (i.factorial : ℝ) = taylor2 x := by
    simp [Finset.sum_range_succ, Nat.factorial, taylor2]
  rw [er3] at hr3
  have hmaj := hr.mul_left (x ^ 3 / 6)
  refine hasSum_le ?_ hr3 hmaj
  intro n
  have hfac : (0 : ℝ) < (n.factorial : ℝ) := by exact_mod_cast Nat.factorial_pos _
  have h6 : 6 * (n.factorial : ℝ) ≤ ((n + 3).factorial : ℝ) := by
    have : 6 * n.factorial ≤ (n + 3).factorial := by
      rw [Nat.factorial_succ, Nat.factorial_succ, Nat.factorial_succ]
      have h1 : 1 ≤ n + 1 := by omega
      have h2 : 2 ≤ n + 1 + 1 := by omega
      have h3 : 3 ≤ n + 2 + 1 := by omega
      calc 6 * n.factorial = 3 * (2 * (1 * n.factorial)) := by ring
        _ ≤ (n + 2 + 1) * ((n + 1 + 1) * ((n + 1) * n.factorial)) :=
          Nat.mul_le_mul h3 (Nat.mul_le_mul h2 (Nat.mul_le_mul h1 le_rfl))
    exact_mod_cast this
  have hfac3 : (0 : ℝ) < ((n + 3).factorial : ℝ) := by exact_mod_cast Nat.factorial_pos _
  rw [div_le_iff₀ hfac3]
  have hxn : 0 ≤ x ^ (n + 3) := by positivity
  calc x ^ (n + 3) = x ^ 3 / 6 * (x ^ n / n.factorial) * (6 * n.factorial) := by
        rw [pow_add]; field_simp
    _ ≤ x ^ 3 / 6 * (x ^ n / n.factorial) * (n + 3).factorial :=
        mul_le_mul_of_nonneg_left h6 (by positivity)

section banach
variable {𝔸 : Type*} [NormedRing 𝔸] [NormedAlgebra ℂ 𝔸]

/-- the quadratic Taylor polynomial with coefficients `p`. -/
def poly2 (p : Trunc2 𝔸) (t : ℂ) : 𝔸 := p.c0 + t • p.c1 + (t * t) • p.c2

/-- second-order expansion with explicit remainder constant. -/
structure HasExp2 (f : ℂ → 𝔸) (p : Trunc2 𝔸) (lam : ℝ) : Prop where
  nonneg : 0 ≤ lam
  b0 : ‖p.c0‖ ≤ 1
  b1 : ‖p.c1‖ ≤ lam
  b2 : ‖p.c2‖ ≤ lam ^ 2 / 2
  rem : ∀ t : ℂ, ‖t‖ ≤ 1 → ‖f t - poly2 p t‖ ≤ rem3 lam * ‖t‖ ^ 3

theorem norm_poly2_le {p : Trunc2 𝔸} {lam : ℝ} (h0 : ‖p.c0‖ ≤ 1) (h1 : ‖p.c1‖ ≤ lam)
    (h2 : ‖p.c2‖ ≤ lam ^ 2 / 2) (_hl : 0 ≤ lam) (t : ℂ) (ht : ‖t‖ ≤ 1) :
    ‖poly2 p t‖ ≤ taylor2 lam := by
  have e1 : ‖t • p.c1‖ ≤ lam := by
    rw [norm_smul]
    calc ‖t‖ * ‖p.c1‖ ≤ 1 * lam := mul_le_mul ht h1 (norm_nonneg _) zero_le_one
      _ = lam := one_mul _
  have e2 : ‖(t * t) • p.c2‖ ≤ lam ^ 2 / 2 := by
    rw [norm_smul, norm_mul]
    have : ‖t‖ * ‖t‖ ≤ 1 := by
      calc ‖t‖ * ‖t‖ ≤ 1 * 1 := mul_le_mul ht ht (norm_nonneg _) zero_le_one
        _ = 1 := one_mul _
    calc ‖t‖ * ‖t‖ * ‖p.c2‖ ≤ 1 * (lam ^ 2 / 2) :=
          mul_le_mul this h2 (norm_nonneg _) zero_le_one
      _ = lam ^ 2 / 2 := one_mul _
  unfold poly2 taylor2
  calc ‖p.c0 + t • p.c1 + (t * t) • p.c2‖ ≤ ‖p.c0‖ + ‖t • p.c1‖ + ‖(t * t) • p.c2‖ :=
        norm_add₃_le
    _ ≤ 1 + lam + lam ^ 2 / 2 := by linarith

/-- the part of `poly2 p t * poly2 q t` beyond second order. -/
theorem poly2_mul (p q : Trunc2 𝔸) (t : ℂ) :
    poly2 p t * poly2 q t = poly2 (p * q) t
      + ((t * t * t) • (p.c1 * q.c2 + p.c2 * q.c1) + (t * t * t * t) • (p.c2 * q.c2)) := by
  simp only [poly2, mul_c0, mul_c1, mul_c2, mul_add, add_mul, smul_add, mul_smul_comm,
    smul_mul_assoc, smul_smul]
  module

/-- **products**: the expansions multiply in `𝔸[a]/(a³)` and the constants add. -/
theorem HasExp2.mul {f g : ℂ → 𝔸} {p q : Trunc2 𝔸} {lam mu : ℝ}
    (hf : HasExp2 f p lam) (hg : HasExp2 g q mu) :
    HasExp2 (fun t => f t * g t) (p * q) (lam + mu) := by
  have hl := hf.nonneg
  have hm := hg.nonneg
  refine ⟨add_nonneg hl hm, ?_, ?_, ?_, ?_⟩
  · rw [mul_c0]
    calc ‖p.c0 * q.c0‖ ≤ ‖p.c0‖ * ‖q.c0‖ := norm_mul_le _ _
      _ ≤ 1 * 1 := mul_le_mul hf.b0 hg.b0 (norm_nonneg _) zero_le_one
      _ = 1 := one_mul _
  · rw [mul_c1]
    have a1 : ‖p.c0 * q.c1‖ ≤ 1 * mu :=
      (norm_mul_le _ _).trans (mul_le_mul hf.b0 hg.b1 (norm_nonneg _) zero_le_one)
    have a2 : ‖p.c1 * q.c0‖ ≤ lam * 1 :=
      (norm_mul_le _ _).trans (mul_le_mul hf.b1 hg.b0 (norm_nonneg _) hl)
    calc ‖p.c0 * q.c1 + p.c1 * q.c0‖ ≤ ‖p.c0 * q.c1‖ + ‖p.c1 * q.c0‖ := norm_add_le _ _
      _ ≤ lam + mu := by linarith
  · rw [mul_c2]
    have a1 : ‖p.c0 * q.c2‖ ≤ 1 * (mu ^ 2 / 2) :=
      (norm_mul_le _ _).trans (mul_le_mul hf.b0 hg.b2 (norm_nonneg _) zero_le_one)
    have a2 : ‖p.c1 * q.c1‖ ≤ lam * mu :=
      (norm_mul_le _ _).trans (mul_le_mul hf.b1 hg.b1 (norm_nonneg _) hl)
    have a3 : ‖p.c2 * q.c0‖ ≤ lam ^ 2 / 2 * 1 :=
      (norm_mul_le _ _).trans (mul_le_mul hf.b2 hg.b0 (norm_nonneg _) (by positivity))
    calc ‖p.c0 * q.c2 + p.c1 * q.c1 + p.c2 * q.c0‖
        ≤ ‖p.c0 * q.c2‖ + ‖p.c1 * q.c1‖ + ‖p.c2 * q.c0‖ := norm_add₃_le
      _ ≤ (lam + mu) ^ 2 / 2 := by nlinarith
  · intro t ht
    have ht0 : 0 ≤ ‖t‖ := norm_nonneg t
    have ht3 : 0 ≤ ‖t‖ ^ 3 := by positivity
    have ht31 : ‖t‖ ^ 3 ≤ 1 := pow_le_one₀ ht0 ht
    have rl := rem3_nonneg hl
    have rm := rem3_nonneg hm
    -- the pieces
    have hA : ‖f t - poly2 p t‖ ≤ rem3 lam * ‖t‖ ^ 3 := hf.rem t ht
    have hB : ‖g t - poly2 q t‖ ≤ rem3 mu * ‖t‖ ^ 3 := hg.rem t ht
    have hP : ‖poly2 p t‖ ≤ taylor2 lam := norm_poly2_le hf.b0 hf.b1 hf.b2 hl t ht
    have hQ : ‖poly2 q t‖ ≤ taylor2 mu := norm_poly2_le hg.b0 hg.b1 hg.b2 hm t ht
    have hgn : ‖g t‖ ≤ Real.exp mu := by
      have : g t = poly2 q t + (g t - poly2 q t) := by abel
      rw [this]
      calc ‖poly2 q t + (g t - poly2 q t)‖ ≤ ‖poly2 q t‖ + ‖g t - poly2 q t‖ := norm_add_le _ _
        _ ≤ taylor2 mu + rem3 mu * 1 := by
            have : rem3 mu * ‖t‖ ^ 3 ≤ rem3 mu * 1 := mul_le_mul_of_nonneg_left ht31 rm
            linarith
        _ = Real.exp mu := by unfold rem3; ring
    have hX : ‖(t * t * t) • (p.c1 * q.c2 + p.c2 * q.c1) + (t * t * t * t) • (p.c2 * q.c2)‖
        ≤ (lam * mu ^ 2 / 2 + lam ^ 2 / 2 * mu + lam ^ 2 / 2 * (mu ^ 2 / 2)) * ‖t‖ ^ 3 := by
      have a1 : ‖p.c1 * q.c2‖ ≤ lam * (mu ^ 2 / 2) :=
        (norm_mul_le _ _).trans (mul_le_mul hf.b1 hg.b2 (norm_nonneg _) hl)
      have a2 : ‖p.c2 * q.c1‖ ≤ lam ^ 2 / 2 * mu :=
        (norm_mul_le _ _).trans (mul_le_mul hf.b2 hg.b1 (norm_nonneg _) (by positivity))
      have a3 : ‖p.c2 * q.c2‖ ≤ lam ^ 2 / 2 * (mu ^ 2 / 2) :=
        (norm_mul_le _ _).trans (mul_le_mul hf.b2 hg.b2 (norm_nonneg _) (by positivity))
      have a12 : ‖p.c1 * q.c2 + p.c2 * q.c1‖ ≤ lam * (mu ^ 2 / 2) + lam ^ 2 / 2 * mu :=
        (norm_add_le _ _).trans (add_le_add a1 a2)
      have n3 : ‖t * t * t‖ = ‖t‖ ^ 3 := by rw [norm_mul, norm_mul]; ring
      have n4 : ‖t * t * t * t‖ ≤ ‖t‖ ^ 3 := by
        rw [norm_mul, n3]
        calc ‖t‖ ^ 3 * ‖t‖ ≤ ‖t‖ ^ 3 * 1 := mul_le_mul_of_nonneg_left ht ht3
          _ = ‖t‖ ^ 3 := mul_one _
      calc ‖(t * t * t) • (p.c1 * q.c2 + p.c2 * q.c1) + (t * t * t * t) • (p.c2 * q.c2)‖
          ≤ ‖(t * t * t) • (p.c1 * q.c2 + p.c2 * q.c1)‖ + ‖(t * t * t * t) • (p.c2 * q.c2)‖ :=
            norm_add_le _ _
        _ = ‖t * t * t‖ * ‖p.c1 * q.c2 + p.c2 * q.c1‖ + ‖t * t * t * t‖ * ‖p.c2 * q.c2‖ := by
            rw [norm_smul, norm_smul]
        _ ≤ ‖t‖ ^ 3 * (lam * (mu ^ 2 / 2) + lam ^ 2 / 2 * mu)
              + ‖t‖ ^ 3 * (lam ^ 2 / 2 * (mu ^ 2 / 2)) := by
            apply add_le_add
            · rw [n3]; exact mul_le_mul_of_nonneg_left a12 ht3
            · exact mul_le_mul n4 a3 (norm_nonneg _) ht3
        _ = _ := by ring
    have split : f t * g t - poly2 (p * q) t
        = (f t - poly2 p t) * g t + poly2 p t * (g t - poly2 q t)
          + ((t * t * t) • (p.c1 * q.c2 + p.c2 * q.c1) + (t * t * t * t) • (p.c2 * q.c2)) := by
      have := poly2_mul p q t
      have e : poly2 (p * q) t = poly2 p t * poly2 q t
          - ((t * t * t) • (p.c1 * q.c2 + p.c2 * q.c1) + (t * t * t * t) • (p.c2 * q.c2)) := by
        rw [this]; abel
      rw [e]
      noncomm_ring
    show ‖f t * g t - poly2 (p * q) t‖ ≤ rem3 (lam + mu) * ‖t‖ ^ 3
    rw [split, rem3_add]
    have m1 : ‖(f t - poly2 p t) * g t‖ ≤ rem3 lam * ‖t‖ ^ 3 * Real.exp mu :=
      (norm_mul_le _ _).trans (mul_le_mul hA hgn (norm_nonneg _) (mul_nonneg rl ht3))
    have m2 : ‖poly2 p t * (g t - poly2 q t)‖ ≤ taylor2 lam * (rem3 mu * ‖t‖ ^ 3) :=
      (norm_mul_le _ _).trans (mul_le_mul hP hB (norm_nonneg _)
        (by unfold taylor2; positivity))
    calc _ ≤ ‖(f t - poly2 p t) * g t‖ + ‖poly2 p t * (g t - poly2 q t)‖ + _ := norm_add₃_le
      _ ≤ rem3 lam * ‖t‖ ^ 3 * Real.exp mu + taylor2 lam * (rem3 mu * ‖t‖ ^ 3)
            + (lam * mu ^ 2 / 2 + lam ^ 2 / 2 * mu + lam ^ 2 / 2 * (mu ^ 2 / 2)) * ‖t‖ ^ 3 :=
          add_le_add (add_le_add m1 m2) hX
      _ = _ := by ring

/-- the constant function `1`. -/
theorem hasExp2_one (h1 : ‖(1 : 𝔸)‖ ≤ 1) : HasExp2 (fun _ => (1 : 𝔸)) 1 0 := by
  refine ⟨le_rfl, h1, by simp, by simp, ?_⟩
  intro t _
  simp [poly2, rem3_zero]

end banach

section complete
variable {𝔸 : Type*} [NormedRing 𝔸] [NormedAlgebra ℂ 𝔸] [CompleteSpace 𝔸]

/-- the remainder of the exponential series after the quadratic term. -/
theorem norm_exp_sub_taylor2_le (y : 𝔸) (tau lam : ℝ) (ht0 : 0 ≤ tau) (ht1 : tau ≤ 1)
    (hl : 0 ≤ lam) (hy : ‖y‖ ≤ tau * lam) :
    ‖exp y - (1 + y + (2⁻¹ : ℂ) • (y * y))‖ ≤ rem3 lam * tau ^ 3 := by
  have hs : HasSum (fun n : ℕ => ((n.factorial : ℂ)⁻¹) • y ^ n) (exp y) :=
    exp_series_hasSum_exp' (𝕂 := ℂ) y
  have hs3 := (hasSum_nat_add_iff' 3).mpr hs
  have e3 : ∑ i ∈ Finset.range 3, ((i.factorial : ℂ)⁻¹) • y ^ i = 1 + y + (2⁻¹ : ℂ) • (y * y) := by
    simp [Finset.sum_range_succ, Nat.factorial, pow_two]
  rw [e3] at hs3
  -- the real majorant
  have hr : HasSum (fun n : ℕ => lam ^ n / n.factorial) (Real.exp lam) := by
    rw [Real.exp_eq_exp_ℝ]
    exact expSeries_div_hasSum_exp lam
  have hr3 := (hasSum_nat_add_iff' 3).mpr hr
  have er3 : ∑ i ∈ Finset.range 3, lam ^ i / (i.factorial : ℝ) = taylor2 lam := by
    simp [Finset.sum_range_succ, Nat.factorial, taylor2]
  rw [er3] at hr3
  have hmaj := hr3.mul_right (tau ^ 3)
  rw [← hs3.tsum_eq]
  refine tsum_of_norm_bounded hmaj ?_
  intro n
  have hfac : (0 : ℝ) < ((n + 3).factorial : ℝ) := by exact_mod_cast Nat.factorial_pos _
  rw [norm_smul, norm_inv, Complex.norm_natCast]
  have hyp : ‖y ^ (n + 3)‖ ≤ (tau * lam) ^ (n + 3) :=
    (norm_pow_le' y (Nat.succ_pos _)).trans (pow_le_pow_left₀ (norm_nonneg _) hy _)
  have htau : tau ^ (n + 3) ≤ tau ^ 3 := by
    rw [pow_add]
    calc tau ^ n * tau ^ 3 ≤ 1 * tau ^ 3 :=
          mul_le_mul_of_nonneg_right (pow_le_one₀ ht0 ht1) (by positivity)
      _ = tau ^ 3 := one_mul _
  calc ((n + 3).factorial : ℝ)⁻¹ * ‖y ^ (n + 3)‖
      ≤ ((n + 3).factorial : ℝ)⁻¹ * ((tau * lam) ^ (n + 3)) :=
        mul_le_mul_of_nonneg_left hyp (by positivity)
    _ = tau ^ (n + 3) * (lam ^ (n + 3) / (n + 3).factorial) := by rw [mul_pow]; field_simp
    _ ≤ tau ^ 3 * (lam ^ (n + 3) / (n + 3).factorial) :=
        mul_le_mul_of_nonneg_right htau (by positivity)
    _ = lam ^ (n + 3) / (n + 3).factorial * tau ^ 3 := mul_comm _ _

/-- one exponential `t ↦ exp (t • x)`. -/
theorem hasExp2_exp (h1 : ‖(1 : 𝔸)‖ ≤ 1) (x : 𝔸) (lam : ℝ) (hx : ‖x‖ ≤ lam) :
    HasExp2 (fun t : ℂ => exp (t • x)) (texp ℂ x) lam := by
  have hl : 0 ≤ lam := (norm_nonneg x).trans hx
  refine ⟨hl, h1, hx, ?_, ?_⟩
  · show ‖(2⁻¹ : ℂ) • (x * x)‖ ≤ lam ^ 2 / 2
    rw [norm_smul]
    have : ‖x * x‖ ≤ lam * lam :=
      (norm_mul_le _ _).trans (mul_le_mul hx hx (norm_nonneg _) hl)
    have h2 : ‖(2⁻¹ : ℂ)‖ = 1 / 2 := by simp
    rw [h2]
    nlinarith
  · intro t ht
    have hy : ‖t • x‖ ≤ ‖t‖ * lam := by
      rw [norm_smul]; exact mul_le_mul_of_nonneg_left hx (norm_nonneg _)
    have := norm_exp_sub_taylor2_le (t • x) ‖t‖ lam (norm_nonneg _) ht hl hy
    have e : poly2 (texp ℂ x) t = 1 + t • x + (2⁻¹ : ℂ) • (t • x * t • x) := by
      simp only [poly2, texp, smul_mul_assoc, mul_smul_comm, smul_smul]
      congr 2
      ring_nf
    rw [e]
    exact this

/-- every product of exponentials, with the sum of the norms as constant. -/
theorem hasExp2_prod (h1 : ‖(1 : 𝔸)‖ ≤ 1) (l : List 𝔸) :
    HasExp2 (fun t : ℂ => (l.map fun x => exp (t • x)).prod) ((l.map (texp ℂ)).prod)
      (l.map fun x => ‖x‖).sum := by
  induction l with
  | nil => simpa using hasExp2_one h1
  | cons x l ih =>
    simp only [List.map_cons, List.prod_cons, List.sum_cons]
    exact (hasExp2_exp h1 x ‖x‖ le_rfl).mul ih

omit [NormedAlgebra ℂ 𝔸] [CompleteSpace 𝔸] in
theorem norm_list_sum_le (l : List 𝔸) : ‖l.sum‖ ≤ (l.map fun x => ‖x‖).sum := by
  induction l with
  | nil => simp
  | cons x l ih =>
    simp only [List.sum_cons, List.map_cons]
    exact (norm_add_le _ _).trans (add_le_add le_rfl ih)

/-- **third-order bound for the symmetric product of exponentials, every list**: with
`L = Σ‖x_j‖`, `‖∏_fwd exp(t x_j) ∏_bwd exp(t x_j) - exp(t·2Σx_j)‖ ≤ 2 r₃(2L) ‖t‖³` for `‖t‖ ≤ 1`. -/
theorem symm_prod_third_order (h1 : ‖(1 : 𝔸)‖ ≤ 1) (xs : List 𝔸) (t : ℂ) (ht : ‖t‖ ≤ 1) :
    ‖((xs ++ xs.reverse).map fun x => exp (t • x)).prod - exp (t • (xs.sum + xs.sum))‖
      ≤ 2 * rem3 (2 * (xs.map fun x => ‖x‖).sum) * ‖t‖ ^ 3 := by
  have hL : ((xs ++ xs.reverse).map fun x => ‖x‖).sum = 2 * (xs.map fun x => ‖x‖).sum := by
    rw [List.map_append, List.sum_append, List.map_reverse, List.sum_reverse]; ring
  have hS := hasExp2_prod h1 (xs ++ xs.reverse)
  rw [trunc_trotter ℂ xs, hL] at hS
  have hE := hasExp2_exp h1 (xs.sum + xs.sum) (2 * (xs.map fun x => ‖x‖).sum) (by
    have := norm_list_sum_le xs
    calc ‖xs.sum + xs.sum‖ ≤ ‖xs.sum‖ + ‖xs.sum‖ := norm_add_le _ _
      _ ≤ _ := by linarith)
  have a := hS.rem t ht
  have b := hE.rem t ht
  set P := poly2 (texp ℂ (xs.sum + xs.sum)) t
  calc ‖((xs ++ xs.reverse).map fun x => exp (t • x)).prod - exp (t • (xs.sum + xs.sum))‖
      = ‖(((xs ++ xs.reverse).map fun x => exp (t • x)).prod - P)
          - (exp (t • (xs.sum + xs.sum)) - P)‖ := by congr 1; abel
    _ ≤ ‖((xs ++ xs.reverse).map fun x => exp (t • x)).prod - P‖
          + ‖exp (t • (xs.sum + xs.sum)) - P‖ := norm_sub_le _ _
    _ ≤ _ := by linarith

end complete

section trotter
variable {𝔸 : Type*} [NormedRing 𝔸] [NormedAlgebra ℂ 𝔸] [CompleteSpace 𝔸]

/-- **the symmetric Trotter step, every list of terms, any Banach algebra**:
`‖S(dt) - exp(-i dt Σh)‖ ≤ 2 (e^L - 1 - L - L²/2) ‖dt‖³` for `‖dt‖ ≤ 1`, `L = Σ‖h_j‖`. -/
theorem trotterProd_third_order (h1 : ‖(1 : 𝔸)‖ ≤ 1) (hs : List 𝔸) (dt : ℂ) (hdt : ‖dt‖ ≤ 1) :
    ‖trotterProd (dt / 2) hs - propagator dt hs.sum‖
      ≤ 2 * rem3 ((hs.map fun h => ‖h‖).sum) * ‖dt‖ ^ 3 := by
  have key := symm_prod_third_order h1 (hs.map fun h => (-(Complex.I / 2)) • h) dt hdt
  have e1 : ((hs.map fun h => (-(Complex.I / 2)) • h)
        ++ (hs.map fun h => (-(Complex.I / 2)) • h).reverse).map (fun x => exp (dt • x))
      = (hs ++ hs.reverse).map (propagator (dt / 2)) := by
    rw [← List.map_reverse, ← List.map_append, List.map_map]
    apply List.map_congr_left
    intro h _
    simp only [Function.comp, propagator, smul_smul]
    congr 2
    ring
  have e2 : (hs.map fun h => (-(Complex.I / 2)) • h).sum = (-(Complex.I / 2)) • hs.sum := by
    rw [List.smul_sum]
  have e3 : dt • ((-(Complex.I / 2)) • hs.sum + (-(Complex.I / 2)) • hs.sum)
      = (-(Complex.I * dt)) • hs.sum := by
    rw [← add_smul, smul_smul]; congr 1; ring
  have e4 : 2 * ((hs.map fun h => (-(Complex.I / 2)) • h).map fun x => ‖x‖).sum
      = (hs.map fun h => ‖h‖).sum := by
    rw [List.map_map]
    have : ((fun x : 𝔸 => ‖x‖) ∘ fun h => (-(Complex.I / 2)) • h) = fun h => (1 / 2 : ℝ) * ‖h‖ := by
      funext h
      simp [Function.comp, norm_smul]
    rw [this, List.sum_map_mul_left]
    ring
  rw [e1, e2, e3, e4] at key
  exact key

/-- **the same bound without restriction on the step** (apply the previous theorem to the terms
`dt • h` and the step `1`): `‖S(dt) - exp(-i dt Σh)‖ ≤ 2 r₃(‖dt‖ Σ‖h_j‖)` for every `dt`; since
`r₃(x) = x³/6 + O(x⁴)` this is `(‖dt‖ L)³ / 3` to leading order. -/
theorem trotterProd_error_le (h1 : ‖(1 : 𝔸)‖ ≤ 1) (hs : List 𝔸) (dt : ℂ) :
    ‖trotterProd (dt / 2) hs - propagator dt hs.sum‖
      ≤ 2 * rem3 (‖dt‖ * (hs.map fun h => ‖h‖).sum) := by
  have key := trotterProd_third_order h1 (hs.map fun h => dt • h) 1 (by simp)
  have e1 : trotterProd ((1 : ℂ) / 2) (hs.map fun h => dt • h) = trotterProd (dt / 2) hs := by
    unfold trotterProd
    rw [← List.map_reverse, ← List.map_append, List.map_map]
    congr 1
    apply List.map_congr_left
    intro h _
    simp only [Function.comp, propagator, smul_smul]
    congr 2
    ring
  have e2 : propagator 1 (hs.map fun h => dt • h).sum = propagator dt hs.sum := by
    rw [← List.smul_sum]
    simp only [propagator, smul_smul]
    congr 2
    ring
  have e3 : ((hs.map fun h => dt • h).map fun h => ‖h‖).sum
      = ‖dt‖ * (hs.map fun h => ‖h‖).sum := by
    rw [List.map_map]
    have : ((fun x : 𝔸 => ‖x‖) ∘ fun h => dt • h) = fun h => ‖dt‖ * ‖h‖ := by
      funext h
      simp [Function.comp, norm_smul]
    rw [this, List.sum_map_mul_left]
  rw [e1, e2, e3] at key
  simpa using key

end trotter

end Evo
end QV
