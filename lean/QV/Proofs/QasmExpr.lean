/-
  Lemmas about `QV.Model.QasmExpr`: python's left-to-right evaluation of the printed
  expression, level by level (factor, term, sum).
-/
import QV.Model.QasmExpr
import Mathlib.Tactic.Common

namespace QV.QasmExpr

variable {ν : Type} [Arith ν]

theorem runToks_append (env : String → ν) (s : St ν) (a b : List (Tok ν)) :
    runToks env s (a ++ b) = runToks env (runToks env s a) b := by
  simp [runToks, List.foldl_append]

theorem runToks_cons (env : String → ν) (s : St ν) (t : Tok ν) (ts : List (Tok ν)) :
    runToks env s (t :: ts) = runToks env (s.step env t) ts := rfl

/-- a factor (atom under unary minus signs) feeds one value into the current term -/
theorem run_factor (env : String → ν) (e : Expr ν) (he : e.isFactor = true) (s : St ν)
    (hs : s.expecting = true) : runToks env s (unroll e) = s.atom (eval env e) := by
  induction e generalizing s with
  | num v => simp [unroll, runToks, St.step, eval]
  | pi => simp [unroll, runToks, St.step, eval]
  | var x => simp [unroll, runToks, St.step, eval]
  | neg e ih =>
    simp only [Expr.isFactor] at he
    obtain ⟨a, b, c, d, f, g, h⟩ := s
    simp only at hs
    subst hs
    simp only [unroll, runToks_cons, St.step, if_true]
    rw [ih he _ rfl]
    simp [St.atom, eval, negN]
  | bin o l r _ _ => simp [Expr.isFactor] at he

/-- a term read from a fresh term position leaves its value as the current term -/
theorem run_term (env : String → ν) (e : Expr ν) (he : e.isTerm = true) (s : St ν)
    (hs : s.expecting = true) (ht : s.term = none) (hn : s.negs = 0) :
    ∃ m, runToks env s (unroll e) = { s with term := some (eval env e), expecting := false, mulop := m } := by
  have factor_case : ∀ e : Expr ν, e.isFactor = true →
      ∃ m, runToks env s (unroll e) = { s with term := some (eval env e), expecting := false, mulop := m } := by
    intro e hf
    refine ⟨s.mulop, ?_⟩
    rw [run_factor env e hf s hs]
    obtain ⟨a, b, c, d, f, g, h⟩ := s
    simp only at hs ht hn
    subst hs ht hn
    simp [St.atom, negN]
  induction e generalizing s with
  | num v => exact factor_case _ rfl
  | pi => exact factor_case _ rfl
  | var x => exact factor_case _ rfl
  | neg e _ => exact factor_case _ (by simpa [Expr.isTerm] using he)
  | bin o l r ihl _ =>
    have key : (o = .mul ∨ o = .div) ∧ l.isTerm = true ∧ r.isFactor = true := by
      cases o <;> simp [Expr.isTerm] at he <;> simp [he]
    obtain ⟨ho, hl, hr⟩ := key
    obtain ⟨m1, h1⟩ := ihl hl s hs ht hn (fun e hf => by
      refine ⟨s.mulop, ?_⟩
      rw [run_factor env e hf s hs]
      obtain ⟨a, b, c, d, f, g, h⟩ := s
      simp only at hs ht hn
      subst hs ht hn
      simp [St.atom, negN])
    refine ⟨o, ?_⟩
    simp only [unroll, runToks_append, runToks_cons, h1]
    have hstep : St.step env { s with term := some (eval env l), expecting := false, mulop := m1 } (.op o)
        = { s with term := some (eval env l), expecting := true, mulop := o } := by
      rcases ho with rfl | rfl <;> simp [St.step]
    rw [hstep, run_factor env r hr _ rfl]
    simp [St.atom, hn, negN, eval]

/-- the state a parenthesis-free expression leaves -/
theorem run_sum (env : String → ν) (e : Expr ν) (he : e.isSum = true) :
    ∃ s : St ν, runToks env {} (unroll e) = s ∧ s.close = some (eval env e)
      ∧ s.expecting = false ∧ s.err = false ∧ s.negs = 0 := by
  have term_case : ∀ e : Expr ν, e.isTerm = true →
      ∃ s : St ν, runToks env {} (unroll e) = s ∧ s.close = some (eval env e)
        ∧ s.expecting = false ∧ s.err = false ∧ s.negs = 0 := by
    intro e ht
    obtain ⟨m, hm⟩ := run_term env e ht {} rfl rfl rfl
    exact ⟨_, hm, by simp [St.close], rfl, rfl, rfl⟩
  induction e with
  | num v => exact term_case _ rfl
  | pi => exact term_case _ rfl
  | var x => exact term_case _ rfl
  | neg e _ => exact term_case _ (by simpa [Expr.isSum] using he)
  | bin o l r ihl _ =>
    by_cases hadd : o = .add ∨ o = .sub
    · have key : l.isSum = true ∧ r.isTerm = true := by
        rcases hadd with rfl | rfl <;> simpa [Expr.isSum] using he
      obtain ⟨hl, hr⟩ := key
      obtain ⟨s1, h1, hc, hx, herr, hneg⟩ := ihl hl
      have hstep : St.step env s1 (.op o)
          = { s1 with sum := some (eval env l), addop := o, term := none, expecting := true } := by
        rcases hadd with rfl | rfl <;> simp [St.step, hx, hc]
      obtain ⟨m, hm⟩ := run_term env r hr
        { s1 with sum := some (eval env l), addop := o, term := none, expecting := true } rfl rfl hneg
      have hrun : runToks env {} (unroll (Expr.bin o l r))
          = { s1 with sum := some (eval env l), addop := o, term := some (eval env r),
                      expecting := false, mulop := m } := by
        simp only [unroll, runToks_append, runToks_cons, h1, hstep]; exact hm
      refine ⟨_, hrun, ?_, rfl, ?_, ?_⟩
      · simp [St.close, eval]
      · simpa using herr
      · simpa using hneg
    · have : (Expr.bin o l r).isTerm = true := by
        cases o <;> simp_all [Expr.isSum, Expr.isTerm]
      exact term_case _ this

end QV.QasmExpr
