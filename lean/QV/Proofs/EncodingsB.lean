/-
  QV.Proofs.EncodingsB — lemmas about the gate lists of QV/Model/EncodingsB.lean:
  controlled single-target gates on basis states, loading chains whose steps are gate blocks,
  the product state of `phase_encoder`, the step lemmas of the hyperspherical binary encoder and
  of the complex Hamming-weight encoder.
-/
import Mathlib.Algebra.Ring.Defs
import Mathlib.Tactic.Ring
import Mathlib.Tactic.Linarith
import Mathlib.Algebra.BigOperators.Intervals
import QV.Proofs.Encodings
import QV.Model.EncodingsB

set_option linter.unusedSimpArgs false
set_option linter.unusedVariables false

namespace QV.Enc
open QV Finset

variable {α : Type} [CommRing α]

/-! ### controlled single-target gates -/

def b2n (b : Bool) : Nat := if b then 1 else 0

/-- pointwise action of a (multi-)controlled gate on one target. -/
theorem applyGate_single (M : Nat → Nat → α) (t : Nat) (cs : List Nat) (ψ : Lab → α) (x : Lab) :
    applyGate ({ mat := M, targets := [t], controls := cs } : MGate α) ψ x
      = if Lab.allOne cs x then
          M (b2n (x t)) 0 * ψ (x.set t false) + M (b2n (x t)) 1 * ψ (x.set t true)
        else ψ x := by
  simp only [applyGate, sumOver, idx_single, Lab.set_same, b2n]
  simp

theorem allOne_set_of_not_mem {cs : List Nat} {t : Nat} (ht : t ∉ cs) (x : Lab) (b : Bool) :
    Lab.allOne cs (x.set t b) = Lab.allOne cs x := by
  apply Lab.allOne_congr
  intro r hr
  exact Lab.set_other _ _ (fun h => ht (h ▸ hr))

theorem set_eq_iff (x v : Lab) (t : Nat) (b : Bool) :
    x.set t b = v ↔ (v t = b ∧ x = v.set t (x t)) := by
  constructor
  · intro h
    subst h
    refine ⟨Lab.set_same _ _ _, ?_⟩
    rw [Lab.set_set, Lab.set_self]
  · rintro ⟨h1, h2⟩
    rw [h2, Lab.set_set, ← h1, Lab.set_self]

theorem eq_set_iff (x v : Lab) (t : Nat) (b : Bool) :
    x = v.set t b ↔ (x t = b ∧ x = v.set t (x t)) := by
  constructor
  · intro h
    have h1 : x t = b := by rw [h, Lab.set_same]
    exact ⟨h1, by rw [h1]; exact h⟩
  · rintro ⟨h1, h2⟩
    rw [h1] at h2; exact h2

/-- on a basis state with all controls on the gate acts by the column of its matrix. -/
theorem single_ket_on (M : Nat → Nat → α) {t : Nat} {cs : List Nat} (ht : t ∉ cs) (v : Lab)
    (hon : Lab.allOne cs v = true) :
    applyGate ({ mat := M, targets := [t], controls := cs } : MGate α) (ket v)
      = fun x => M 0 (b2n (v t)) * ket (v.set t false) x + M 1 (b2n (v t)) * ket (v.set t true) x := by
  classical
  funext x
  rw [applyGate_single]
  by_cases hc : Lab.allOne cs x = true
  · rw [if_pos hc]
    simp only [ket_apply, set_eq_iff x v t, eq_set_iff x v t false, eq_set_iff x v t true]
    by_cases hE : x = v.set t (x t)
    · cases hx : x t <;> cases hv : v t <;> simp [hx, hv, b2n]
    · cases hx : x t <;> cases hv : v t <;> simp [hx, hv, b2n]
  · rw [if_neg hc]
    have h0 : x ≠ v := by intro e; subst e; exact hc hon
    have h1 : ∀ b, x ≠ v.set t b := by
      intro b e; subst e
      rw [allOne_set_of_not_mem ht] at hc; exact hc hon
    simp only [ket_apply, if_neg h0, if_neg (h1 false), if_neg (h1 true)]
    simp

/-- a basis state with a control off is left alone. -/
theorem single_ket_off (M : Nat → Nat → α) {t : Nat} {cs : List Nat} (ht : t ∉ cs) (v : Lab)
    (hoff : Lab.allOne cs v = false) :
    applyGate ({ mat := M, targets := [t], controls := cs } : MGate α) (ket v) = ket v := by
  classical
  funext x
  rw [applyGate_single]
  by_cases hc : Lab.allOne cs x = true
  · rw [if_pos hc]
    have h0 : x ≠ v := by intro e; subst e; rw [hoff] at hc; exact Bool.false_ne_true hc
    have h1 : ∀ b, x.set t b ≠ v := by
      intro b e
      have := allOne_set_of_not_mem ht x b
      rw [e, hoff, hc] at this; exact Bool.false_ne_true this
    simp only [ket_apply, if_neg h0, if_neg (h1 false), if_neg (h1 true)]
    simp
  · rw [if_neg hc]

/-- a diagonal gate multiplies a basis state with all controls on by its diagonal entry. -/
theorem diag_ket_on (a d : α) {t : Nat} {cs : List Nat} (ht : t ∉ cs) (v : Lab)
    (hon : Lab.allOne cs v = true) :
    applyGate ({ mat := mat2 a 0 0 d, targets := [t], controls := cs } : MGate α) (ket v)
      = fun x => (if v t then d else a) * ket v x := by
  rw [single_ket_on _ ht v hon]
  funext x
  cases hv : v t
  · have : v.set t false = v := by rw [← hv, Lab.set_self]
    simp [mat2, b2n, this]
  · have : v.set t true = v := by rw [← hv, Lab.set_self]
    simp [mat2, b2n, this]

/-- a rotation-like gate `[[a, ·], [b, ·]]` on a basis state with all controls on and target bit 0. -/
theorem rot_ket_on (M : Nat → Nat → α) {t : Nat} {cs : List Nat} (ht : t ∉ cs) (v : Lab)
    (hon : Lab.allOne cs v = true) (hv : v t = false) :
    applyGate ({ mat := M, targets := [t], controls := cs } : MGate α) (ket v)
      = fun x => M 0 0 * ket v x + M 1 0 * ket (v.set t true) x := by
  rw [single_ket_on _ ht v hon]
  have : v.set t false = v := by rw [← hv, Lab.set_self]
  simp [hv, b2n, this]


/-! ### product states: one single-qubit gate per qubit applied to `|0…0⟩` (phase_encoder) -/

theorem product_state (M : Nat → Nat → Nat → α) (n : Nat) :
    runCircuit ((List.range n).map
        (fun q => ({ mat := M q, targets := [q], controls := [] } : MGate α))) (ket zeroLab)
      = fun y => ind (∀ q, n ≤ q → y q = false) * ∏ q ∈ range n, M q (b2n (y q)) 0 := by
  induction n with
  | zero =>
    funext y
    simp only [List.range_zero, List.map_nil, runCircuit_nil, range_zero, prod_empty, mul_one]
    rw [ket_eq_ind]
    apply ind_congr
    constructor
    · intro h q _; rw [h]; rfl
    · intro h; funext q; exact h q (Nat.zero_le q)
  | succ n ih =>
    rw [List.range_succ, List.map_append, runCircuit_append, ih]
    simp only [List.map_cons, List.map_nil, runCircuit_cons, runCircuit_nil]
    funext x
    rw [applyGate_single]
    have hall : Lab.allOne [] x = true := rfl
    rw [if_pos hall]
    have h1 : (ind (∀ q, n ≤ q → (x.set n true) q = false) : α) = 0 := by
      apply ind_neg
      intro h
      have := h n (le_refl n)
      rw [Lab.set_same] at this
      exact Bool.noConfusion this
    have h0 : (ind (∀ q, n ≤ q → (x.set n false) q = false) : α)
        = ind (∀ q, n + 1 ≤ q → x q = false) := by
      apply ind_congr
      constructor
      · intro h q hq
        have := h q (by omega)
        rwa [Lab.set_other _ _ (by omega : q ≠ n)] at this
      · intro h q hq
        by_cases hqn : q = n
        · subst hqn; exact Lab.set_same _ _ _
        · rw [Lab.set_other _ _ hqn]; exact h q (by omega)
    have hp : ∀ b : Bool, ∏ q ∈ range n, M q (b2n ((x.set n b) q)) 0
        = ∏ q ∈ range n, M q (b2n (x q)) 0 := by
      intro b
      apply prod_congr rfl
      intro q hq
      have : q ≠ n := by have := mem_range.mp hq; omega
      rw [Lab.set_other _ _ this]
    rw [h1, h0, hp, prod_range_succ]
    ring

theorem phaseEnc_state (P : Par2 α) (n : Nat) (rot : BK)
    (hrot : rot = .RX ∨ rot = .RY ∨ rot = .RZ) :
    runCircuit ((phaseEnc n rot).map (BG.sem P)) (ket zeroLab)
      = fun y => ind (∀ q, n ≤ q → y q = false) *
          ∏ q ∈ range n, (BG.sem P { kind := rot, q0 := q, e := q, f := q }).mat (b2n (y q)) 0 := by
  have h := product_state (fun q => (BG.sem P { kind := rot, q0 := q, e := q, f := q }).mat) n
  rw [← h]
  unfold phaseEnc
  rw [List.map_map]
  congr 1
  apply List.map_congr_left
  intro q _
  rcases hrot with h | h | h <;> subst h <;> rfl

/-! ### loading chains whose steps are blocks of gates -/

/-- state after `m` steps of a chain through `v 0, v 1, …` with step coefficients `A k` (stay) and
`B k` (move on). -/
noncomputable def chainStateAB (A B : Nat → α) (v : Nat → Lab) (m : Nat) : Lab → α := fun x =>
  (∑ k ∈ range m, ((∏ j ∈ range k, B j) * A k) * ket (v k) x)
    + (∏ j ∈ range m, B j) * ket (v m) x

theorem chain_loader_blocks (A B : Nat → α) (G : Nat → List (MGate α)) (v : Nat → Lab) (m : Nat)
    (hstep : ∀ k, k < m → runCircuit (G k) (ket (v k))
      = fun x => A k * ket (v k) x + B k * ket (v (k + 1)) x)
    (hfix : ∀ k, k < m → ∀ j, j < k → runCircuit (G k) (ket (v j)) = ket (v j)) :
    runCircuit ((List.range m).flatMap G) (ket (v 0)) = chainStateAB A B v m := by
  induction m with
  | zero => funext x; simp [runCircuit, chainStateAB]
  | succ m ih =>
    rw [List.range_succ, List.flatMap_append, runCircuit_append,
      ih (fun k hk => hstep k (by omega)) (fun k hk => hfix k (by omega))]
    simp only [List.flatMap_cons, List.flatMap_nil, List.append_nil]
    have e1 : chainStateAB A B v m = fun x =>
        (fun x => ∑ k ∈ range m, (fun k x => ((∏ j ∈ range k, B j) * A k) * ket (v k) x) k x) x
        + (fun x => (∏ j ∈ range m, B j) * ket (v m) x) x := rfl
    rw [e1, runCircuit_add, runCircuit_sum, runCircuit_smul]
    funext x
    have e2 : ∀ k ∈ range m,
        runCircuit (G m) (fun x => ((∏ j ∈ range k, B j) * A k) * ket (v k) x) x
          = ((∏ j ∈ range k, B j) * A k) * ket (v k) x := by
      intro k hk
      rw [runCircuit_smul, hfix m (by omega) k (mem_range.mp hk)]
    simp only []
    rw [sum_congr rfl e2, hstep m (by omega)]
    simp only [chainStateAB]
    rw [sum_range_succ, prod_range_succ]
    ring

theorem chainStateAB_eq (P : Par α) (v : Nat → Lab) (m : Nat) :
    chainStateAB P.c P.s v m = chainState P v m := rfl

/-! ### steps of the loading chains of `hamming_weight_encoder` / `binary_encoder` -/

/-- coefficient that stays on the current basis state / moves on to the next one in step `k`:
`cos θ_k`, `sin θ_k`, for complex data times `exp(∓iφ_k)`. -/
def stepA (P : Par2 α) (cplx : Bool) (k : Nat) : α :=
  if cplx then P.m k * P.m k * P.c k else P.c k
def stepB (P : Par2 α) (cplx : Bool) (k : Nat) : α :=
  if cplx then P.p k * P.p k * P.s k else P.s k

theorem runCircuit_single (g : MGate α) (ψ : Lab → α) : runCircuit [g] ψ = applyGate g ψ := rfl

section rbsstep
variable (P : Par2 α) (hpm : ∀ k, P.p k * P.m k = 1) (cplx : Bool) {a b : Nat} (hab : a ≠ b)
  {cs : List Nat} (ha : a ∉ cs) (hb : b ∉ cs) (k : Nat)
include hab ha hb

theorem rbsStep_move (v : Lab) (hon : Lab.allOne cs v = true) (hva : v a = true) (hvb : v b = false) :
    runCircuit ((rbsStepOn cplx a b cs k).map (BG.sem P)) (ket v)
      = fun x => stepA P cplx k * ket v x + stepB P cplx k * ket (sw a b v) x := by
  have hsv : Lab.allOne cs (sw a b v) = true := by rw [allOne_sw hab ha hb]; exact hon
  have hsva : sw a b v a = false := by rw [sw_apply hab]; simp [hab, hvb]
  have hsvb : sw a b v b = true := by rw [sw_apply hab]; simp [hva]
  cases cplx
  · simp only [rbsStepOn, stepA, stepB, Bool.false_eq_true, if_false, List.map_cons, List.map_nil,
      runCircuit_cons, runCircuit_nil]
    exact crbs_ket_move (P.c k) (P.s k) hab ha hb v hon hva hvb
  · simp only [rbsStepOn, stepA, stepB, if_true, List.map_cons, List.map_nil,
      runCircuit_cons, runCircuit_nil]
    show applyGate ({ mat := matRZ (P.m k) (P.p k), targets := [b], controls := cs } : MGate α)
      (applyGate ({ mat := matRZ (P.p k) (P.m k), targets := [a], controls := cs } : MGate α)
        (applyGate ({ mat := matRBS (P.c k) (P.s k), targets := [a, b], controls := cs } : MGate α) (ket v))) = _
    rw [crbs_ket_move (P.c k) (P.s k) hab ha hb v hon hva hvb]
    rw [applyGate_add, applyGate_smul, applyGate_smul]
    unfold matRZ
    rw [diag_ket_on _ _ ha v hon, diag_ket_on _ _ ha _ hsv]
    simp only [hva, hsva, if_true, Bool.false_eq_true, if_false]
    rw [applyGate_add, applyGate_smul, applyGate_smul, applyGate_smul, applyGate_smul]
    rw [diag_ket_on _ _ hb v hon, diag_ket_on _ _ hb _ hsv]
    simp only [hvb, hsvb, if_true, Bool.false_eq_true, if_false]
    funext x
    ring

include hpm in
theorem rbsStep_fix (v : Lab) (h : Lab.allOne cs v = false ∨ v a = v b) :
    runCircuit ((rbsStepOn cplx a b cs k).map (BG.sem P)) (ket v) = ket v := by
  cases cplx
  · simp only [rbsStepOn, Bool.false_eq_true, if_false, List.map_cons, List.map_nil,
      runCircuit_cons, runCircuit_nil]
    exact crbs_ket_fix (P.c k) (P.s k) hab ha hb v h
  · simp only [rbsStepOn, if_true, List.map_cons, List.map_nil, runCircuit_cons, runCircuit_nil]
    show applyGate ({ mat := matRZ (P.m k) (P.p k), targets := [b], controls := cs } : MGate α)
      (applyGate ({ mat := matRZ (P.p k) (P.m k), targets := [a], controls := cs } : MGate α)
        (applyGate ({ mat := matRBS (P.c k) (P.s k), targets := [a, b], controls := cs } : MGate α) (ket v))) = _
    rw [crbs_ket_fix (P.c k) (P.s k) hab ha hb v h]
    by_cases hon : Lab.allOne cs v = true
    · have hab' : v a = v b := by
        rcases h with h | h
        · rw [h] at hon; exact absurd hon Bool.false_ne_true
        · exact h
      unfold matRZ
      rw [diag_ket_on _ _ ha v hon, applyGate_smul, diag_ket_on _ _ hb v hon]
      funext x
      have hmp : P.m k * P.p k = 1 := by rw [mul_comm]; exact hpm k
      rw [hab']
      cases v b
      · simp only [Bool.false_eq_true, if_false]; rw [← mul_assoc, hpm k, one_mul]
      · simp only [if_true]; rw [← mul_assoc, hmp, one_mul]
    · have hoff : Lab.allOne cs v = false := by
        cases hh : Lab.allOne cs v
        · rfl
        · exact absurd hh hon
      rw [single_ket_off _ ha v hoff, single_ket_off _ hb v hoff]

end rbsstep

/-- coefficients of the rotation that opens the next Hamming-weight block. -/
def ryA (P : Par2 α) (cplx last : Bool) (k : Nat) : α :=
  if cplx then (if last then P.lm0 * P.c k else P.m k * P.m k * P.c k) else P.c k
def ryB (P : Par2 α) (cplx last : Bool) (k : Nat) : α :=
  if cplx then (if last then P.lp1 * P.s k else P.p k * P.p k * P.s k) else P.s k

theorem ryStep_sem (P : Par2 α) (cplx last : Bool) (q : Nat) (cs : List Nat) (k : Nat) :
    ∃ M : Nat → Nat → α, M 0 0 = ryA P cplx last k ∧ M 1 0 = ryB P cplx last k ∧
      (ryStep cplx last q cs k).map (BG.sem P)
        = [({ mat := M, targets := [q], controls := cs } : MGate α)] := by
  cases cplx
  · exact ⟨matRY (P.c k) (P.s k), by simp [matRY, mat2, ryA], by simp [matRY, mat2, ryB], rfl⟩
  · cases last
    · exact ⟨matU3 (P.p k * P.p k) (P.m k * P.m k) (P.p k * P.p k) (P.m k * P.m k) (P.c k) (P.s k),
        by simp [matU3, mat2, ryA], by simp [matU3, mat2, ryB], rfl⟩
    · exact ⟨matU3 P.lp0 P.lm0 P.lp1 P.lm1 (P.c k) (P.s k),
        by simp [matU3, mat2, ryA], by simp [matU3, mat2, ryB], rfl⟩

theorem ryStep_move (P : Par2 α) (cplx last : Bool) {q : Nat} {cs : List Nat} (hq : q ∉ cs) (k : Nat)
    (v : Lab) (hon : Lab.allOne cs v = true) (hv : v q = false) :
    runCircuit ((ryStep cplx last q cs k).map (BG.sem P)) (ket v)
      = fun x => ryA P cplx last k * ket v x + ryB P cplx last k * ket (v.set q true) x := by
  obtain ⟨M, h0, h1, hM⟩ := ryStep_sem P cplx last q cs k
  rw [hM, runCircuit_single, rot_ket_on M hq v hon hv, h0, h1]

theorem ryStep_fix (P : Par2 α) (cplx last : Bool) {q : Nat} {cs : List Nat} (hq : q ∉ cs) (k : Nat)
    (v : Lab) (hoff : Lab.allOne cs v = false) :
    runCircuit ((ryStep cplx last q cs k).map (BG.sem P)) (ket v) = ket v := by
  obtain ⟨M, _, _, hM⟩ := ryStep_sem P cplx last q cs k
  rw [hM, runCircuit_single, single_ket_off M hq v hoff]

/-! ### numbering the steps -/

theorem numberSteps_range (S : Nat → StepFn) (m : Nat) :
    numberSteps ((List.range m).map S) = (List.range m).flatMap (fun k => S k k) := by
  unfold numberSteps
  rw [List.length_map, List.length_range, List.flatten_eq_flatMap]
  have : (List.range m).zipWith (fun k (f : StepFn) => f k) ((List.range m).map S)
      = (List.range m).map (fun k => S k k) := by
    rw [List.zipWith_map_right]
    simp [List.zipWith_self]
  rw [this, List.flatMap_map]
  simp

theorem map_flatMap_sem (P : Par2 α) (m : Nat) (F : Nat → List BG) :
    ((List.range m).flatMap F).map (BG.sem P) = (List.range m).flatMap (fun k => (F k).map (BG.sem P)) := by
  rw [List.map_flatMap]

def ChainStep.A (P : Par2 α) (cplx : Bool) (d : ChainStep) (k : Nat) : α :=
  if d.add then ryA P cplx d.last k else stepA P cplx k
def ChainStep.B (P : Par2 α) (cplx : Bool) (d : ChainStep) (k : Nat) : α :=
  if d.add then ryB P cplx d.last k else stepB P cplx k

/-- the next basis state. -/
def ChainStep.next (d : ChainStep) (v : Lab) : Lab :=
  if d.add then v.set d.a true else sw d.a d.b v

/-- step `d` is well placed on the current basis state `v`. -/
def ChainStep.okAt (d : ChainStep) (v : Lab) : Prop :=
  d.a ∉ d.cs ∧ Lab.allOne d.cs v = true ∧
    (if d.add then v d.a = false else d.a ≠ d.b ∧ d.b ∉ d.cs ∧ v d.a = true ∧ v d.b = false)

/-- step `d` leaves the earlier basis state `u` alone. -/
def ChainStep.fixes (d : ChainStep) (u : Lab) : Prop :=
  Lab.allOne d.cs u = false ∨ (d.add = false ∧ u d.a = u d.b)

/-- **Loading chain (real or complex data).**  Steps `D 0, …, D (m-1)` numbered in queue order,
visited basis states `v 0, …, v m`. -/
theorem loading_chain (P : Par2 α) (hpm : ∀ k, P.p k * P.m k = 1) (cplx : Bool)
    (D : Nat → ChainStep) (v : Nat → Lab) (m : Nat)
    (hon : ∀ k, k < m → (D k).okAt (v k))
    (hnext : ∀ k, k < m → v (k + 1) = (D k).next (v k))
    (hfix : ∀ k, k < m → ∀ j, j < k → (D k).fixes (v j)) :
    runCircuit ((numberSteps ((List.range m).map (fun k => (D k).fn cplx))).map (BG.sem P)) (ket (v 0))
      = chainStateAB (fun k => (D k).A P cplx k) (fun k => (D k).B P cplx k) v m := by
  rw [numberSteps_range, map_flatMap_sem]
  apply chain_loader_blocks
  · intro k hk
    obtain ⟨h1, h2, h3⟩ := hon k hk
    rw [hnext k hk]
    unfold ChainStep.fn ChainStep.A ChainStep.B ChainStep.next
    cases hadd : (D k).add
    · rw [hadd] at h3
      simp only [Bool.false_eq_true, if_false] at h3 ⊢
      obtain ⟨h4, h5, h6, h7⟩ := h3
      exact rbsStep_move P cplx h4 h1 h5 k (v k) h2 h6 h7
    · rw [hadd] at h3
      simp only [if_true] at h3 ⊢
      exact ryStep_move P cplx (D k).last h1 k (v k) h2 h3
  · intro k hk j hj
    obtain ⟨h1, h2, h3⟩ := hon k hk
    have hf := hfix k hk j hj
    unfold ChainStep.fn
    unfold ChainStep.fixes at hf
    cases hadd : (D k).add
    · rw [hadd] at h3 hf
      simp only [Bool.false_eq_true, if_false, true_and] at h3 hf ⊢
      obtain ⟨h4, h5, h6, h7⟩ := h3
      exact rbsStep_fix P hpm cplx h4 h1 h5 k (v j) hf
    · rw [hadd] at hf
      simp only [if_true] at hf ⊢
      rcases hf with hf | hf
      · exact ryStep_fix P cplx (D k).last h1 k (v j) hf
      · exact absurd hf.1 (by simp)

/-- with (complex) partial norms `r` (`r k · A k = x k`, `r k · B k = r (k+1)`, `r m = x m`) the
chain state is the normalised data: `r 0 · state = Σ_k x_k |v k⟩`. -/
theorem chainStateAB_norm (A B : Nat → α) (v : Nat → Lab) (m : Nat) (x r : Nat → α)
    (hlast : r m = x m)
    (hA : ∀ k, k < m → r k * A k = x k)
    (hB : ∀ k, k < m → r k * B k = r (k + 1)) (y : Lab) :
    r 0 * chainStateAB A B v m y = ∑ k ∈ range (m + 1), x k * ket (v k) y :=
  chainState_norm ({ h := 0, w := fun _ => 0, c := A, s := B } : Par α) v m x r hlast hA hB y

/-- state after the chain and the final controlled `RZ(z, 2φ_f)` of
`_get_phase_gate_correction`. -/
noncomputable def chainStateCorr (A B : Nat → α) (d : α) (v : Nat → Lab) (m : Nat) : Lab → α := fun x =>
  (∑ k ∈ range m, ((∏ j ∈ range k, B j) * A k) * ket (v k) x)
    + (∏ j ∈ range m, B j) * d * ket (v m) x

theorem correction_on_chain (P : Par2 α) (A B : Nat → α) (v : Nat → Lab) (m : Nat)
    {z : Nat} {zc : List Nat} (f : Nat) (hz : z ∉ zc)
    (hzon : Lab.allOne zc (v m) = true) (hzv : v m z = false)
    (hzfix : ∀ j, j < m → Lab.allOne zc (v j) = false) :
    applyGate (BG.sem P { kind := .RZ, q0 := z, f := f, dbl := true, ctrl := zc }) (chainStateAB A B v m)
      = chainStateCorr A B (P.m f * P.m f) v m := by
  show applyGate ({ mat := matRZ (P.m f * P.m f) (P.p f * P.p f), targets := [z], controls := zc } : MGate α) _ = _
  have e1 : chainStateAB A B v m = fun x =>
      (fun x => ∑ k ∈ range m, (fun k x => ((∏ j ∈ range k, B j) * A k) * ket (v k) x) k x) x
      + (fun x => (∏ j ∈ range m, B j) * ket (v m) x) x := rfl
  rw [e1, applyGate_add, applyGate_sum, applyGate_smul]
  funext x
  have e2 : ∀ k ∈ range m,
      applyGate ({ mat := matRZ (P.m f * P.m f) (P.p f * P.p f), targets := [z], controls := zc } : MGate α)
          (fun x => ((∏ j ∈ range k, B j) * A k) * ket (v k) x) x
        = ((∏ j ∈ range k, B j) * A k) * ket (v k) x := by
    intro k hk
    rw [applyGate_smul, single_ket_off _ hz (v k) (hzfix k (mem_range.mp hk))]
  simp only []
  rw [sum_congr rfl e2]
  unfold matRZ
  rw [diag_ket_on _ _ hz (v m) hzon]
  simp only [hzv, Bool.false_eq_true, if_false, chainStateCorr]
  ring

theorem chainStateCorr_norm (A B : Nat → α) (d : α) (v : Nat → Lab) (m : Nat) (x r : Nat → α)
    (hlast : r m * d = x m)
    (hA : ∀ k, k < m → r k * A k = x k)
    (hB : ∀ k, k < m → r k * B k = r (k + 1)) (y : Lab) :
    r 0 * chainStateCorr A B d v m y = ∑ k ∈ range (m + 1), x k * ket (v k) y := by
  rw [sum_range_succ]
  have hp := norm_prod ({ h := 0, w := fun _ => 0, c := A, s := B } : Par α) r m hB
  unfold chainStateCorr
  rw [mul_add, mul_sum]
  congr 1
  · apply sum_congr rfl
    intro k hk
    have hk' : k < m := mem_range.mp hk
    rw [← hA k hk', ← hp k (by omega)]
    ring
  · rw [← hlast, ← hp m (le_refl _)]
    ring

end QV.Enc
