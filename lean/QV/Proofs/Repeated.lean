/-
  Lemmas about the model of the shot loop of `execute_circuit_repeated`
  (QV/Model/Repeated.lean): a pass over the queue with results accumulated from earlier shots
  computes the same state, consumes the same draws and appends the same rows as a pass on empty
  results; hence the loop reports exactly the per-shot outcomes, in shot order.
-/
import Mathlib.Data.List.Basic
import Mathlib.Data.List.Flatten
import Mathlib.Tactic.Common
import QV.Model.Repeated
import QV.Proofs.Measure

set_option linter.unusedSectionVars false
set_option linter.unusedSimpArgs false
set_option linter.unusedVariables false

namespace QV.Rep
open QV

variable {σ G : Type}

/-- a result cache holding the rows `h` (`None` when there are none). -/
def ofHist (h : List (List Nat)) : Cache :=
  match h with
  | [] => none
  | _ => some h

theorem addShot_ofHist (h : List (List Nat)) (row : List Nat) :
    addShot (ofHist h) row = ofHist (h ++ [row]) := by
  cases h with
  | nil => rfl
  | cons r rs => simp [ofHist, addShot]

theorem getD_ofHist (h : List (List Nat)) : (ofHist h).getD [] = h := by
  cases h <;> rfl

theorem lastBit_ofHist (H : Nat → List (List Nat)) (m j : Nat) :
    lastBit (fun i => ofHist (H i)) m j = ((H m).getLast?.getD []).getD j 0 := by
  unfold lastBit
  rw [getD_ofHist]

/-- SPEC: rows appended to the result of measurement gate `i` by one pass over `ops` (whose
first measurement gate has index `m`) drawing from `t`. -/
def newRows : List (QOp G) → Nat → List Nat → Nat → List (List Nat)
  | [], _, _, _ => []
  | .meas ts true :: ops, m, t, i =>
    (if i = m then [recordedBits ts (t.headD 0)] else []) ++ newRows ops (m + 1) t.tail i
  | .meas _ false :: ops, m, t, i => newRows ops (m + 1) t i
  | .gate _ :: ops, m, t, i => newRows ops m t i
  | .cgate _ _ _ :: ops, m, t, i => newRows ops m t i
  | .pgate _ _ :: ops, m, t, i => newRows ops m t i

theorem headD_append_of_ne_nil (a b : List Nat) (h : a ≠ []) : (a ++ b).headD 0 = a.headD 0 := by
  cases a with
  | nil => exact absurd rfl h
  | cons x xs => rfl

theorem tail_append_of_ne_nil (a b : List Nat) (h : a ≠ []) : (a ++ b).tail = a.tail ++ b := by
  cases a with
  | nil => exact absurd rfl h
  | cons x xs => rfl

/-- **one pass, accumulated versus fresh.**  `p` runs on results that hold the rows `H` of
earlier shots and on a tape that continues after this shot's draws; `q` runs on the rows `K`
and on this shot's draws only.  If the two agree on the LAST row of every measurement that a
conditioned gate may read (`ok`), they compute the same state, see the same states, consume the
same draws, and both append `newRows`. -/
theorem pass_sim (S : Sem σ G) (ops : List (QOp G)) :
    ∀ (m : Nat) (ok : Nat → Bool) (H K : Nat → List (List Nat)) (tq rest : List Nat) (st : σ)
      (sn : List σ),
      wellFormed ops m ok = true → ncoll ops ≤ tq.length →
      (∀ i, ok i = true → (H i).getLast? = (K i).getLast?) →
      let p := passQueue S ops m { caches := fun i => ofHist (H i), tape := tq ++ rest, state := st, seen := sn }
      let q := passQueue S ops m { caches := fun i => ofHist (K i), tape := tq, state := st, seen := sn }
      p.caches = (fun i => ofHist (H i ++ newRows ops m tq i)) ∧
      q.caches = (fun i => ofHist (K i ++ newRows ops m tq i)) ∧
      p.tape = q.tape ++ rest ∧ q.tape.length + ncoll ops = tq.length ∧
      p.state = q.state ∧ p.seen = q.seen := by
  induction ops with
  | nil =>
    intro m ok H K tq rest st sn _ _ _
    simp [passQueue, newRows, ncoll]
  | cons op ops ih =>
    intro m ok H K tq rest st sn hwf hn hag
    cases op with
    | gate g =>
      simp only [passQueue, newRows, ncoll, wellFormed] at hwf hn ⊢
      exact ih m ok H K tq rest (S.gate g st) sn hwf hn hag
    | cgate g m' j =>
      simp only [wellFormed, Bool.and_eq_true] at hwf
      simp only [passQueue, newRows, ncoll] at hn ⊢
      rw [lastBit_ofHist, lastBit_ofHist, hag m' hwf.1]
      exact ih m ok H K tq rest _ sn hwf.2 hn hag
    | pgate f uses =>
      simp only [wellFormed, Bool.and_eq_true] at hwf
      simp only [passQueue, newRows, ncoll] at hn ⊢
      have hargs : (uses.map fun e => lastBit (fun i => ofHist (H i)) e.1 e.2)
          = uses.map fun e => lastBit (fun i => ofHist (K i)) e.1 e.2 := by
        apply List.map_congr_left
        intro e he
        rw [lastBit_ofHist, lastBit_ofHist, hag e.1 (List.all_eq_true.mp hwf.1 e he)]
      rw [hargs]
      exact ih m ok H K tq rest _ sn hwf.2 hn hag
    | meas ts c =>
      cases c with
      | false =>
        simp only [passQueue, newRows, ncoll, wellFormed] at hwf hn ⊢
        refine ih (m + 1) _ H K tq rest st sn hwf hn ?_
        intro i hi
        by_cases e : i = m
        · simp [e] at hi
        · simp only [e, if_false] at hi; exact hag i hi
      | true =>
        simp only [ncoll] at hn
        have hne : tq ≠ [] := by
          intro h; rw [h] at hn; simp at hn
        simp only [passQueue, newRows, ncoll, wellFormed] at hwf ⊢
        rw [headD_append_of_ne_nil tq rest hne, tail_append_of_ne_nil tq rest hne]
        simp only [addShot_ofHist]
        set row := recordedBits ts (tq.headD 0) with hrow
        have hH : (fun i => if i = m then ofHist (H m ++ [row]) else ofHist (H i))
            = fun i => ofHist ((fun i => if i = m then H i ++ [row] else H i) i) := by
          funext i; by_cases e : i = m
          · subst e; simp
          · simp [e]
        have hK : (fun i => if i = m then ofHist (K m ++ [row]) else ofHist (K i))
            = fun i => ofHist ((fun i => if i = m then K i ++ [row] else K i) i) := by
          funext i; by_cases e : i = m
          · subst e; simp
          · simp [e]
        rw [hH, hK]
        have hlen : ncoll ops ≤ tq.tail.length := by
          rw [List.length_tail]; omega
        have := ih (m + 1) (fun i => if i = m then true else ok i)
          (fun i => if i = m then H i ++ [row] else H i)
          (fun i => if i = m then K i ++ [row] else K i) tq.tail rest
          (S.coll (sortAsc ts) (tq.headD 0) st) (sn ++ [st]) hwf hlen
          (by
            intro i hi
            by_cases e : i = m
            · simp [e]
            · simp only [e, if_false] at hi ⊢; exact hag i hi)
        obtain ⟨h1, h2, h3, h4, h5, h6⟩ := this
        refine ⟨?_, ?_, h3, ?_, h5, h6⟩
        · rw [h1]; funext i
          by_cases e : i = m
          · simp [e, List.append_assoc]
          · simp [e]
        · rw [h2]; funext i
          by_cases e : i = m
          · simp [e, List.append_assoc]
          · simp [e]
        · rw [List.length_tail] at h4
          have : 0 < tq.length := List.length_pos_iff.mpr hne
          beta_reduce at h4 ⊢
          omega

/-! ### the loop -/

/-- SPEC: history of gate `i` after the shots `ds`. -/
def histOf (ops : List (QOp G)) (ds : List (List Nat)) (i : Nat) : List (List Nat) :=
  ds.flatMap fun d => newRows ops 0 d i

def isFin (ops : List (QOp G)) (i : Nat) : Bool := (finals ops 0).any fun e => e.1 == i

/-- coupling between the loop state after the shots `done` and the SPEC. -/
structure LInv (S : Sem σ G) (ops : List (QOp G)) (ψ0 : σ) (done todo : List (List Nat))
    (rest : List Nat) (L : Loop σ) : Prop where
  caches : L.caches = fun i => if isFin ops i then none else ofHist (histOf ops done i)
  tape : L.tape = todo.flatten ++ rest
  rows : L.rows = if (finals ops 0).isEmpty then [] else done.map (rowOf S ops ψ0)
  states : L.states = done.map fun d => (oneShot S ops ψ0 d).state
  seen : L.seen = done.map fun d =>
    (oneShot S ops ψ0 d).seen ++ if (finals ops 0).isEmpty then [] else [(oneShot S ops ψ0 d).state]

theorem shotStep_inv (S : Sem σ G) (ops : List (QOp G)) (ψ0 : σ) (hwf : wellFormed ops 0 (fun _ => false) = true)
    {done todo : List (List Nat)} {d : List Nat} {rest : List Nat} {L : Loop σ}
    (hd : d.length = need ops) (h : LInv S ops ψ0 done (d :: todo) rest L) :
    LInv S ops ψ0 (done ++ [d]) todo rest (shotStep S ops ψ0 L) := by
  have hnc : ncoll ops ≤ d.length := by rw [hd]; unfold need; omega
  -- the accumulated histories
  set H : Nat → List (List Nat) := fun i => if isFin ops i then [] else histOf ops done i with hH
  have hcache : L.caches = fun i => ofHist (H i) := by
    rw [h.caches]; funext i; rw [hH]; cases hf : isFin ops i <;> simp [ofHist, hf]
  have hsim := pass_sim S ops 0 (fun _ => false) H (fun _ => []) d (todo.flatten ++ rest) ψ0 []
    hwf hnc (by intro i hi; cases hi)
  simp only at hsim
  have hq : passQueue S ops 0 { caches := fun i => ofHist ([] : List (List Nat)), tape := d, state := ψ0, seen := [] }
      = oneShot S ops ψ0 d := rfl
  rw [hq] at hsim
  have hp : passQueue S ops 0 { caches := L.caches, tape := L.tape, state := ψ0 }
      = passQueue S ops 0 { caches := fun i => ofHist (H i), tape := d ++ (todo.flatten ++ rest), state := ψ0, seen := [] } := by
    rw [hcache, h.tape]; simp
  obtain ⟨h1, h2, h3, h4, h5, h6⟩ := hsim
  have hhist : ∀ i, histOf ops (done ++ [d]) i = histOf ops done i ++ newRows ops 0 d i := by
    intro i; unfold histOf; simp
  unfold shotStep
  rw [hp]
  by_cases hfin : (finals ops 0).isEmpty = true
  · -- no terminal measurement
    have hnofin : ∀ i, isFin ops i = false := by
      intro i; unfold isFin
      rw [List.isEmpty_iff.mp hfin]; rfl
    have hlen0 : (oneShot S ops ψ0 d).tape.length = 0 := by
      unfold need at hd; rw [if_pos hfin] at hd; omega
    have htape0 : (oneShot S ops ψ0 d).tape = [] := List.length_eq_zero_iff.mp hlen0
    simp only [hfin, if_true]
    refine ⟨?_, ?_, ?_, ?_, ?_⟩
    · show (passQueue S ops 0 _).caches = _
      rw [h1]; funext i
      rw [hnofin i, hhist i, hH]; simp [hnofin i]
    · show (passQueue S ops 0 _).tape = _
      rw [h3, htape0]; rfl
    · show L.rows = _
      simp [h.rows, hfin]
    · show L.states ++ [_] = _
      rw [h.states, h5]; simp
    · show L.seen ++ [_] = _
      rw [h.seen, h6]; simp [hfin]
  · have hfin' : (finals ops 0).isEmpty = false := by simpa using hfin
    have hlen1 : (oneShot S ops ψ0 d).tape.length = 1 := by
      unfold need at hd; rw [hfin'] at hd; simp at hd; omega
    obtain ⟨x, hx⟩ : ∃ x, (oneShot S ops ψ0 d).tape = [x] := List.length_eq_one_iff.mp hlen1
    simp only [hfin', Bool.false_eq_true, if_false]
    refine ⟨?_, ?_, ?_, ?_, ?_⟩
    · show (fun i => if (finals ops 0).any (fun e => e.1 == i) then none else (passQueue S ops 0 _).caches i) = _
      rw [h1]; funext i
      show (if isFin ops i = true then none else _) = _
      cases hf : isFin ops i
      · simp only [Bool.false_eq_true, if_false]
        rw [hhist i, hH]; simp [hf]
      · simp
    · show (passQueue S ops 0 _).tape.tail = _
      rw [h3, hx]; rfl
    · show L.rows ++ [_] = _
      rw [h.rows, h3, hx]
      simp only [hfin', Bool.false_eq_true, if_false, List.map_append, List.map_singleton]
      unfold rowOf
      rw [hx]; rfl
    · show L.states ++ [_] = _
      rw [h.states, h5]; simp
    · show L.seen ++ [_] = _
      rw [h.seen, h5, h6]; simp [hfin']

theorem shotLoop_inv (S : Sem σ G) (ops : List (QOp G)) (ψ0 : σ)
    (hwf : wellFormed ops 0 (fun _ => false) = true) (todo : List (List Nat)) :
    ∀ (done : List (List Nat)) (rest : List Nat) (L : Loop σ),
      (∀ d ∈ todo, d.length = need ops) → LInv S ops ψ0 done todo rest L →
      LInv S ops ψ0 (done ++ todo) [] rest (shotLoop S ops ψ0 todo.length L) := by
  induction todo with
  | nil => intro done rest L _ h; simpa [shotLoop] using h
  | cons d todo ih =>
    intro done rest L hlen h
    have h1 := shotStep_inv S ops ψ0 hwf (hlen d (List.mem_cons_self ..)) h
    have := ih (done ++ [d]) rest _ (fun d' hd' => hlen d' (List.mem_cons_of_mem _ hd')) h1
    simpa [shotLoop] using this

theorem linv_init (S : Sem σ G) (ops : List (QOp G)) (ψ0 : σ) (shots : List (List Nat))
    (rest : List Nat) :
    LInv S ops ψ0 [] shots rest { caches := fun _ => none, tape := shots.flatten ++ rest } := by
  refine ⟨?_, rfl, by simp, rfl, rfl⟩
  funext i
  cases isFin ops i <;> rfl

/-- the state of the loop after all the shots. -/
theorem shotLoop_spec (S : Sem σ G) (ops : List (QOp G)) (ψ0 : σ)
    (hwf : wellFormed ops 0 (fun _ => false) = true) (shots : List (List Nat)) (rest : List Nat)
    (hlen : ∀ d ∈ shots, d.length = need ops) :
    LInv S ops ψ0 shots [] rest
      (shotLoop S ops ψ0 shots.length { caches := fun _ => none, tape := shots.flatten ++ rest }) := by
  have := shotLoop_inv S ops ψ0 hwf shots [] rest _ hlen (linv_init S ops ψ0 shots rest)
  simpa using this

/-! ### what a collapsing measurement records in one shot -/

/-- index (among the draws of one shot) of the draw of the collapsing measurement with
measurement index `i`, if `i` is a collapsing measurement of `ops` (first M has index `m`). -/
def drawIdx : List (QOp G) → Nat → Nat → Nat → Option (Nat × List Nat)
  | [], _, _, _ => none
  | .meas ts true :: ops, m, c, i => if i = m then some (c, ts) else drawIdx ops (m + 1) (c + 1) i
  | .meas _ false :: ops, m, c, i => drawIdx ops (m + 1) c i
  | .gate _ :: ops, m, c, i => drawIdx ops m c i
  | .cgate _ _ _ :: ops, m, c, i => drawIdx ops m c i
  | .pgate _ _ :: ops, m, c, i => drawIdx ops m c i

theorem newRows_of_lt (ops : List (QOp G)) : ∀ (m : Nat) (t : List Nat) (i : Nat), i < m →
    newRows ops m t i = [] := by
  induction ops with
  | nil => intros; rfl
  | cons op ops ih =>
    intro m t i hi
    cases op with
    | gate g => exact ih m t i hi
    | cgate g m' j => exact ih m t i hi
    | pgate f uses => exact ih m t i hi
    | meas ts c =>
      cases c with
      | false => exact ih (m + 1) t i (by omega)
      | true =>
        simp only [newRows]
        rw [if_neg (by omega), ih (m + 1) t.tail i (by omega)]; rfl

/-- a collapsing measurement records exactly ONE row per shot: the bits of its own draw, in
the order of its targets; every other index records nothing. -/
theorem newRows_eq (ops : List (QOp G)) : ∀ (m c : Nat) (t : List Nat) (i : Nat),
    newRows ops m (t.drop c) i
      = match drawIdx ops m c i with
        | some (k, ts) => [recordedBits ts (t.getD k 0)]
        | none => [] := by
  induction ops with
  | nil => intros; rfl
  | cons op ops ih =>
    intro m c t i
    cases op with
    | gate g => exact ih m c t i
    | cgate g m' j => exact ih m c t i
    | pgate f uses => exact ih m c t i
    | meas ts cl =>
      cases cl with
      | false => exact ih (m + 1) c t i
      | true =>
        simp only [newRows, drawIdx]
        have htail : (t.drop c).tail = t.drop (c + 1) := by
          rw [List.tail_drop]
        have hhead : (t.drop c).headD 0 = t.getD c 0 := by
          rw [List.headD_eq_head?_getD, List.head?_drop, List.getD_eq_getElem?_getD]
        by_cases e : i = m
        · subst e
          rw [if_pos rfl, if_pos rfl, htail, newRows_of_lt ops (i + 1) _ i (by omega), hhead]
          rfl
        · rw [if_neg e, if_neg e, htail]
          exact ih (m + 1) (c + 1) t i

end QV.Rep
