/-
  QV.Proofs.HamilTerms — the complete term-list route of `SymbolicHamiltonian.terms`
  (QV/Model/Hamil.lean): `groupPowers` (sympy's automatic powers), `STerm.ofRaw`
  (`SymbolicTerm.__init__`: numbers folded into the coefficient, Pauli powers reduced mod 2,
  other symbols repeated), `TermHam.ofRaw` (factor-free terms go to `constant`),
  `applyGates`.
-/
import QV.Proofs.Hamil

namespace QV

open Finset

variable {α : Type} [CommSemiring α]

/-! ### raw factors -/

/-- the operator a raw factor denotes: a symbol power is the iterated gate, a number is a
scalar multiple. -/
def rawApply (f : RawFactor α) (ψ : Lab → α) : Lab → α :=
  match f with
  | .symPow s k => iter (applyGate s.gate) k ψ
  | .num d => fun x => d * ψ x

/-- a list of raw factors: their product in the written order. -/
def rawsApply (fs : List (RawFactor α)) (ψ : Lab → α) : Lab → α :=
  fs.foldr (fun f φ => rawApply f φ) ψ

theorem rawsApply_cons (f : RawFactor α) (fs : List (RawFactor α)) (ψ : Lab → α) :
    rawsApply (f :: fs) ψ = rawApply f (rawsApply fs ψ) := rfl

theorem wordApply_replicate (s : PSym α) (k : Nat) (ψ : Lab → α) :
    wordApply (List.replicate k s) ψ = iter (applyGate s.gate) k ψ := by
  induction k with
  | zero => rfl
  | succ k ih => rw [List.replicate_succ, wordApply_cons, ih]; rfl

/-- one step of the `SymbolicTerm.__init__` loop. -/
def STerm.step (t : STerm α) (f : RawFactor α) : STerm α :=
  match f with
  | .num d => { t with coef := t.coef * d }
  | .symPow s k =>
    if s.pauli then
      (if k % 2 = 0 then t else { t with factors := t.factors ++ [s] })
    else { t with factors := t.factors ++ List.replicate k s }

theorem STerm.ofRaw_eq (c : α) (fs : List (RawFactor α)) :
    STerm.ofRaw c fs = fs.foldl STerm.step { coef := c, factors := [] } := by
  unfold STerm.ofRaw
  congr 1

/-- **one factor**: the step of `SymbolicTerm.__init__` multiplies the term's operator by
the factor's operator on the right (Pauli powers reduce mod 2 because the symbol is
involutive). -/
theorem STerm.step_denote (hinv : ∀ s : PSym α, s.pauli = true → s.Invol)
    (t : STerm α) (f : RawFactor α) (ψ : Lab → α) :
    (t.step f).denote ψ = t.denote (rawApply f ψ) := by
  funext x
  cases f with
  | num d =>
    simp only [STerm.step, STerm.denote, rawApply]
    have := congrFun (wordApply_smul t.factors d ψ) x
    simp only [wordApply] at this
    rw [this]
    ring
  | symPow s k =>
    simp only [STerm.step, rawApply]
    by_cases hp : s.pauli = true
    · rw [if_pos hp, iter_invol s (hinv s hp)]
      by_cases hk : k % 2 = 0
      · rw [if_pos hk, if_pos hk]
      · rw [if_neg hk, if_neg hk]
        simp only [STerm.denote, List.foldr_append, List.foldr_cons, List.foldr_nil]
    · rw [if_neg hp]
      simp only [STerm.denote, List.foldr_append]
      have := wordApply_replicate s k ψ
      simp only [wordApply] at this
      rw [this]

theorem STerm.foldl_step_denote (hinv : ∀ s : PSym α, s.pauli = true → s.Invol)
    (fs : List (RawFactor α)) (t : STerm α) (ψ : Lab → α) :
    (fs.foldl STerm.step t).denote ψ = t.denote (rawsApply fs ψ) := by
  induction fs generalizing t with
  | nil => rfl
  | cons f fs ih =>
    rw [List.foldl_cons, ih, STerm.step_denote hinv, rawsApply_cons]

/-- **`SymbolicTerm.__init__`**: the term built from a coefficient and a raw factor list
denotes coefficient · product of the factors. -/
theorem STerm.ofRaw_denote (hinv : ∀ s : PSym α, s.pauli = true → s.Invol)
    (c : α) (fs : List (RawFactor α)) (ψ : Lab → α) (x : Lab) :
    (STerm.ofRaw c fs).denote ψ x = c * rawsApply fs ψ x := by
  rw [STerm.ofRaw_eq, STerm.foldl_step_denote hinv]
  rfl

/-! ### grouping equal adjacent symbols into powers -/

theorem groupPowersAux_apply (same : PSym α → PSym α → Bool)
    (hsame : ∀ a b, same a b = true → a = b)
    (ss : List (PSym α)) (cur : PSym α) (k : Nat) (ψ : Lab → α) :
    rawsApply (groupPowersAux same cur k ss) ψ
      = iter (applyGate cur.gate) k (wordApply ss ψ) := by
  induction ss generalizing cur k with
  | nil => rfl
  | cons s ss ih =>
    unfold groupPowersAux
    by_cases h : same cur s = true
    · rw [if_pos h, ih, ← hsame cur s h, wordApply_cons]
      show applyGate cur.gate (iter (applyGate cur.gate) k (wordApply ss ψ)) = _
      rw [iter_comm]
    · rw [if_neg h, rawsApply_cons, ih]
      rfl

/-- **grouping is sound**: the raw factor list of a word denotes the word. -/
theorem groupPowers_apply (same : PSym α → PSym α → Bool)
    (hsame : ∀ a b, same a b = true → a = b) (w : List (PSym α)) (ψ : Lab → α) :
    rawsApply (groupPowers same w) ψ = wordApply w ψ := by
  cases w with
  | nil => rfl
  | cons s ss =>
    show rawsApply (groupPowersAux same s 1 ss) ψ = _
    rw [groupPowersAux_apply same hsame]
    rfl

/-! ### the term list and `apply_gates` -/

theorem STerm.apply_eq_denote (t : STerm α) (ψ : Lab → α) : t.apply ψ = t.denote ψ := by
  funext x
  simp only [STerm.apply, STerm.denote, List.foldl_reverse]

theorem foldl_add_sum {β : Type} (g : β → α) (l : List β) (acc : α) :
    l.foldl (fun a t => a + g t) acc = acc + (l.map g).sum := by
  induction l generalizing acc with
  | nil => simp
  | cons t l ih => simp only [List.foldl_cons, ih, List.map_cons, List.sum_cons, add_assoc]

theorem TermHam.applyGates_eq (h : TermHam α) (ψ : Lab → α) (x : Lab) :
    h.applyGates ψ x = (h.terms.map (fun t => t.denote ψ x)).sum + h.constant * ψ x := by
  unfold TermHam.applyGates
  rw [foldl_add_sum (fun t : STerm α => t.apply ψ x) h.terms 0, zero_add]
  congr 2
  apply List.map_congr_left
  intro t _
  exact congrFun (STerm.apply_eq_denote t ψ) x

/-- one step of the loop of `SymbolicHamiltonian.terms`. -/
def TermHam.step (h : TermHam α) (m : α × List (RawFactor α)) : TermHam α :=
  let t := STerm.ofRaw m.1 m.2
  if t.factors.isEmpty then { h with constant := h.constant + t.coef }
  else { h with terms := h.terms ++ [t] }

theorem TermHam.step_applyGates (h : TermHam α) (m : α × List (RawFactor α)) (ψ : Lab → α)
    (x : Lab) :
    (h.step m).applyGates ψ x = h.applyGates ψ x + (STerm.ofRaw m.1 m.2).denote ψ x := by
  simp only [TermHam.applyGates_eq, TermHam.step]
  by_cases he : (STerm.ofRaw m.1 m.2).factors.isEmpty = true
  · rw [if_pos he]
    have hnil : (STerm.ofRaw m.1 m.2).factors = [] := List.isEmpty_iff.mp he
    simp only [STerm.denote, hnil, List.foldr_nil]
    ring
  · rw [if_neg he]
    simp only [List.map_append, List.sum_append, List.map_cons, List.map_nil, List.sum_cons,
      List.sum_nil, add_zero]
    ring

theorem TermHam.foldl_step_applyGates (ms : List (α × List (RawFactor α))) (h : TermHam α)
    (ψ : Lab → α) (x : Lab) :
    (ms.foldl TermHam.step h).applyGates ψ x
      = h.applyGates ψ x + (ms.map (fun m => (STerm.ofRaw m.1 m.2).denote ψ x)).sum := by
  induction ms generalizing h with
  | nil => simp
  | cons m ms ih =>
    rw [List.foldl_cons, ih, TermHam.step_applyGates]
    simp only [List.map_cons, List.sum_cons, add_assoc]

/-- **`SymbolicHamiltonian.terms` + `apply_gates`**: the term list built from
(coefficient, raw monomial) pairs — factor-free terms kept in `constant` — acts as the sum
of the terms built from every pair. -/
theorem TermHam.ofRaw_applyGates (ms : List (α × List (RawFactor α))) (ψ : Lab → α) (x : Lab) :
    (TermHam.ofRaw ms).applyGates ψ x
      = (ms.map (fun m => (STerm.ofRaw m.1 m.2).denote ψ x)).sum := by
  have e : TermHam.ofRaw ms = ms.foldl TermHam.step ({ terms := [], constant := 0 } : TermHam α) := rfl
  rw [e, TermHam.foldl_step_applyGates]
  simp [TermHam.applyGates_eq]

/-- **The complete term route denotes the form.** -/
theorem TermHam.ofForm_applyGates (same : PSym α → PSym α → Bool)
    (hsame : ∀ a b, same a b = true → a = b)
    (hinv : ∀ s : PSym α, s.pauli = true → s.Invol) (f : PForm α) (ψ : Lab → α) :
    (TermHam.ofForm same f).applyGates ψ = f.denote ψ := by
  funext x
  unfold TermHam.ofForm
  rw [TermHam.ofRaw_applyGates, ← monosDenote_expand f ψ, List.map_map]
  unfold monosDenote monoDenote
  congr 1
  apply List.map_congr_left
  intro m _
  simp only [Function.comp]
  rw [STerm.ofRaw_denote hinv, groupPowers_apply same hsame]

end QV
