/-
  QV.Proofs.HamilSamples — the index computed by the dense
  `Hamiltonian.expectation_from_samples` (QV/Model/Hamil.lean: `denseIndex`), array indices
  of labels, and the diagonal of a matrix read through `mulVec`.
-/
import QV.Proofs.HamilKron
import Mathlib.Algebra.BigOperators.Group.List.Basic
import Mathlib.Algebra.BigOperators.Ring.List

namespace QV

open Finset

/-! ### the array index of a label as a weighted bit sum -/

theorem foldl_add_sum_nat {β : Type} (g : β → Nat) (l : List β) (acc : Nat) :
    l.foldl (fun a t => a + g t) acc = acc + (l.map g).sum := by
  induction l generalizing acc with
  | nil => simp
  | cons t l ih => simp only [List.foldl_cons, ih, List.map_cons, List.sum_cons, Nat.add_assoc]

/-- `Σ_{i<n} bit(x i) · 2^(n-1-i)` is the array index of `x` (qubit 0 most significant). -/
theorem sum_bits_eq_toIndex (x : Lab) (n : Nat) :
    ((List.range n).map (fun i => bit (x i) * 2 ^ (n - 1 - i))).sum = Lab.toIndex n x := by
  unfold Lab.toIndex
  induction n with
  | zero => rfl
  | succ n ih =>
    rw [List.range_succ, List.map_append, List.sum_append, idx_append, ← ih]
    have e : (List.range n).map (fun i => bit (x i) * 2 ^ (n + 1 - 1 - i))
        = (List.range n).map (fun i => 2 * (bit (x i) * 2 ^ (n - 1 - i))) := by
      apply List.map_congr_left
      intro i hi
      have hi' : i < n := List.mem_range.mp hi
      have : n + 1 - 1 - i = (n - 1 - i) + 1 := by omega
      rw [this, pow_succ]
      ring
    rw [e, List.sum_map_mul_left]
    simp [Lab.idx, bit, Nat.mul_comm]

/-- **the dense class's index**: for a qubit map that is a permutation of `0 … n-1`,
`Σ_{i ∈ qubit_map} int(k[qubit_map.index(i)]) · 2^(size-1-i)` is the array index of the
label the key denotes under the map. -/
theorem denseIndex_eq_toIndex (n : Nat) (qm : List Nat) (key : List Bool)
    (hp : qm.Perm (List.range n)) :
    denseIndex qm key = Lab.toIndex n (keyLabel qm key) := by
  have hl : qm.length = n := by rw [hp.length_eq, List.length_range]
  unfold denseIndex
  rw [foldl_add_sum_nat (fun i => bit (keyBit qm key i) * 2 ^ (qm.length - 1 - i)) qm 0,
    Nat.zero_add, hl, (hp.map _).sum_eq]
  exact sum_bits_eq_toIndex (keyLabel qm key) n

/-! ### a label and the label of its array index agree on the register -/

theorem idxOf?_range_lt {n q : Nat} (h : q < n) : (List.range n).idxOf? q = some q := by
  unfold List.idxOf?
  rw [List.findIdx?_eq_some_iff_getElem]
  refine ⟨by simpa using h, by simp, ?_⟩
  intro j hj
  simp
  omega

theorem Lab.ofIndex_toIndex_of_lt (n : Nat) (x : Lab) {q : Nat} (h : q < n) :
    Lab.ofIndex n (Lab.toIndex n x) q = x q := by
  have e := congrFun (Lab.withIdx_idx x (List.range n)) q
  unfold Lab.withIdx at e
  rw [idxOf?_range_lt h] at e
  simp only [List.length_range] at e
  unfold Lab.ofIndex Lab.toIndex
  simp only [h, decide_true, Bool.true_and]
  exact e

/-! ### the diagonal through `mulVec` -/

/-- the basis state `|x⟩` of the `n`-qubit register. -/
def basisState {α : Type} [Zero α] [One α] (n : Nat) (x : Lab) : Lab → α :=
  fun z => if (List.range n).all (fun r => x r == z r) then 1 else 0

theorem basisState_self {α : Type} [Zero α] [One α] (n : Nat) (x : Lab) :
    basisState (α := α) n x x = 1 := by
  simp [basisState]

/-- `(D |x⟩)(x) = D[x, x]`. -/
theorem mulVec_basisState {α : Type} [CommSemiring α] (n : Nat) (D : DM α) (x : Lab) :
    mulVec n D (basisState n x) x = D x x := by
  unfold mulVec basisState
  simp only [mul_comm (D x _)]
  exact sumOver_delta (List.range n) List.nodup_range (fun z => D x z) x x (fun _ _ => rfl)

end QV
