/-
  QV.Proofs.ParallelTape — invariants of the allocation of the ONE global random generator to
  the jobs of a parallel helper (`Tape`, `tapeStep`, `tapeRun` of QV/Model/Parallel.lean), for
  EVERY schedule: every answer of the generator is handed to exactly one job, every job sees its
  answers in increasing stream order, and how MANY answers a job has consumed is a function of its
  own progress only (which ones is schedule dependent — `T14_par_tape_schedule_dependent`).
-/
import QV.Proofs.Parallel

namespace QV.Par

/-- replacing the `j`-th block `g` by `g ++ [x]` permutes the flattening into `flatten ++ [x]`. -/
theorem flatten_set_append_perm {α : Type} (l : List (List α)) (j : Nat) (g : List α) (x : α)
    (h : l[j]? = some g) : ((l.set j (g ++ [x])).flatten).Perm (l.flatten ++ [x]) := by
  induction l generalizing j with
  | nil => simp at h
  | cons a l ih =>
    cases j with
    | zero =>
      simp only [List.getElem?_cons_zero, Option.some.injEq] at h
      subst h
      simp only [List.set_cons_zero, List.flatten_cons, List.append_assoc]
      exact (List.perm_append_comm.append_left _)
    | succ j =>
      simp only [List.getElem?_cons_succ] at h
      simp only [List.set_cons_succ, List.flatten_cons, List.append_assoc]
      exact (ih j h).append_left _

/-- the invariant carried by every schedule. -/
structure TapeInv (progs : List (List Bool)) (τ : Tape) : Prop where
  /-- the answers handed out so far are exactly `0 … cursor-1`, each to exactly one job -/
  perm : τ.got.flatten.Perm (List.range τ.cursor)
  /-- every job received its answers in stream order -/
  sorted : ∀ g ∈ τ.got, g.Pairwise (· < ·)
  /-- nobody holds an answer that has not been drawn -/
  bound : ∀ g ∈ τ.got, ∀ x ∈ g, x < τ.cursor
  /-- the number of answers of a job = the number of drawing steps among those it has executed -/
  count : ∀ (j : Nat) (p : List Bool) (pc : Nat) (g : List Nat), progs[j]? = some p → τ.pcs[j]? = some pc → τ.got[j]? = some g →
    g.length = (p.take pc).count true

theorem tapeInit_inv (progs : List (List Bool)) : TapeInv progs (tapeInit progs) := by
  refine ⟨?_, ?_, ?_, ?_⟩
  · have : ∀ (l : List (List Bool)), (l.map fun _ => ([] : List Nat)).flatten = [] := by
      intro l; induction l with
      | nil => rfl
      | cons a l ih => simp [ih]
    simp [tapeInit, this]
  · intro g hg
    simp only [tapeInit, List.mem_map] at hg
    obtain ⟨_, _, rfl⟩ := hg
    exact List.Pairwise.nil
  · intro g hg x hx
    simp only [tapeInit, List.mem_map] at hg
    obtain ⟨_, _, rfl⟩ := hg
    simp at hx
  · intro j p pc g _ hpc hg
    simp only [tapeInit, List.getElem?_map] at hpc hg
    cases hj : progs[j]? with
    | none => simp [hj] at hg
    | some q =>
      simp only [hj, Option.map_some, Option.some.injEq] at hpc hg
      subst hpc; subst hg
      simp

theorem mem_set_cases {α : Type} {l : List α} {j : Nat} {a b : α} (h : b ∈ l.set j a) :
    b = a ∨ b ∈ l := by
  rcases List.mem_or_eq_of_mem_set h with h | h
  · exact Or.inr h
  · exact Or.inl h

theorem tapeStep_inv (progs : List (List Bool)) (τ : Tape) (j : Nat) (I : TapeInv progs τ) :
    TapeInv progs (tapeStep progs τ j) := by
  unfold tapeStep
  cases hp : progs[j]? with
  | none => exact I
  | some p =>
    cases hpc : τ.pcs[j]? with
    | none => exact I
    | some pc =>
      cases hg : τ.got[j]? with
      | none => exact I
      | some g =>
        cases hb : p[pc]? with
        | none => simpa [hb] using I
        | some b =>
          have hpclt : pc < p.length := by
            rcases List.getElem?_eq_some_iff.mp hb with ⟨h, _⟩; exact h
          have htake : p.take (pc + 1) = p.take pc ++ [b] := by
            have hbe : p[pc] = b := by
              rcases List.getElem?_eq_some_iff.mp hb with ⟨_, h⟩; exact h
            rw [List.take_succ_eq_append_getElem hpclt, hbe]
          have hgmem : g ∈ τ.got := List.mem_of_getElem? hg
          cases b with
          | false =>
            simp only [hb]
            refine ⟨I.perm, I.sorted, I.bound, ?_⟩
            intro k q qc h hq hqc hh
            by_cases hk : k = j
            · subst hk
              have hlen : k < τ.pcs.length := by
                rcases List.getElem?_eq_some_iff.mp hpc with ⟨h, _⟩; exact h
              simp only [List.getElem?_set_self hlen, Option.some.injEq] at hqc
              subst hqc
              rw [hp] at hq; cases hq
              rw [hg] at hh; cases hh
              rw [htake, List.count_append, ← I.count k p pc g hp hpc hg]
              simp
            · have hne : j ≠ k := fun e => hk e.symm
              simp only [List.getElem?_set_ne hne] at hqc
              exact I.count k q qc h hq hqc hh
          | true =>
            simp only [hb]
            refine ⟨?_, ?_, ?_, ?_⟩
            · refine (flatten_set_append_perm τ.got j g τ.cursor hg).trans ?_
              rw [List.range_succ]
              exact I.perm.append_right _
            · intro h hh
              rcases mem_set_cases hh with rfl | hh
              · rw [List.pairwise_append]
                refine ⟨I.sorted g hgmem, List.pairwise_singleton _ _, ?_⟩
                intro x hx y hy
                simp only [List.mem_singleton] at hy
                subst hy
                exact I.bound g hgmem x hx
              · exact I.sorted h hh
            · intro h hh x hx
              rcases mem_set_cases hh with rfl | hh
              · rcases List.mem_append.mp hx with hx | hx
                · exact Nat.lt_succ_of_lt (I.bound g hgmem x hx)
                · simp only [List.mem_singleton] at hx
                  subst hx; exact Nat.lt_succ_self _
              · exact Nat.lt_succ_of_lt (I.bound h hh x hx)
            · intro k q qc h hq hqc hh
              by_cases hk : k = j
              · subst hk
                have hlen : k < τ.pcs.length := by
                  rcases List.getElem?_eq_some_iff.mp hpc with ⟨h, _⟩; exact h
                have hlen2 : k < τ.got.length := by
                  rcases List.getElem?_eq_some_iff.mp hg with ⟨h, _⟩; exact h
                simp only [List.getElem?_set_self hlen, Option.some.injEq] at hqc
                simp only [List.getElem?_set_self hlen2, Option.some.injEq] at hh
                subst hqc; subst hh
                rw [hp] at hq; cases hq
                rw [htake, List.count_append, List.length_append,
                  ← I.count k p pc g hp hpc hg]
                simp
              · have hne : j ≠ k := fun e => hk e.symm
                simp only [List.getElem?_set_ne hne] at hqc hh
                exact I.count k q qc h hq hqc hh

theorem tapeFold_inv (progs : List (List Bool)) :
    ∀ (sched : List Nat) (τ : Tape), TapeInv progs τ → TapeInv progs (sched.foldl (tapeStep progs) τ) := by
  intro sched
  induction sched with
  | nil => intro τ I; exact I
  | cons j sched ih => intro τ I; exact ih _ (tapeStep_inv progs τ j I)

theorem tapeRun_inv (progs : List (List Bool)) (sched : List Nat) :
    TapeInv progs (tapeRun progs sched) :=
  tapeFold_inv progs sched _ (tapeInit_inv progs)

end QV.Par
