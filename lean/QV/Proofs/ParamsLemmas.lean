/-
  QV.Proofs.ParamsLemmas — lemmas about the parameter-bookkeeping model
  (`QV.Model.Params`) used by the C06 property theorems.
-/
import QV.Model.Params
import Mathlib.Tactic.Ring
import Mathlib.Data.List.Basic
set_option linter.unusedSimpArgs false
set_option linter.unusedVariables false
namespace QV.Params

variable {β : Type}

/-! ### the flat loop -/

/-- pieces cut at absolute offsets -/
def splitFrom (ps : List β) : List Nat → Nat → List (List β)
  | [], _ => []
  | w :: rest, off => (ps.drop off).take w :: splitFrom ps rest (off + w)

theorem take_one_drop (ps : List β) (off : Nat) :
    pick ps off = (ps.drop off).take 1 := by
  unfold pick
  induction ps generalizing off with
  | nil => simp
  | cons a t ih =>
    cases off with
    | zero => simp
    | succ n => simpa using ih n

theorem flatLoop_eq_splitFrom (ps : List β) (ws : List Nat) (i : Nat) (k : Int) (off : Nat)
    (h : (i : Int) + k = off) : flatLoop ps ws i k = splitFrom ps ws off := by
  induction ws generalizing i k off with
  | nil => rfl
  | cons w rest ih =>
    have hoff : ((i : Int) + k).toNat = off := by omega
    have hnext : ((i + 1 : Nat) : Int) + (k + (w : Int) - 1) = ((off + w : Nat) : Int) := by
      push_cast; omega
    simp only [flatLoop, splitFrom, hoff]
    rw [ih (i + 1) (k + (w : Int) - 1) (off + w) hnext]
    by_cases hw : w = 1
    · subst hw; simp only [if_true]; rw [take_one_drop]
    · simp [hw]

theorem splitFrom_eq_splitBy (ps : List β) (ws : List Nat) (off : Nat) :
    splitFrom ps ws off = splitBy ws (ps.drop off) := by
  induction ws generalizing off with
  | nil => rfl
  | cons w rest ih => simp [splitFrom, splitBy, ih, List.drop_drop, Nat.add_comm]

theorem flatLoop_eq_splitBy (ps : List β) (ws : List Nat) :
    flatLoop ps ws 0 0 = splitBy ws ps := by
  rw [flatLoop_eq_splitFrom ps ws 0 0 0 (by simp), splitFrom_eq_splitBy]; simp

theorem splitFrom_getElem? (ps : List β) (ws : List Nat) (off i : Nat) (hi : i < ws.length) :
    (splitFrom ps ws off)[i]? = some ((ps.drop (off + (ws.take i).sum)).take ws[i]) := by
  induction ws generalizing off i with
  | nil => simp at hi
  | cons w rest ih =>
    cases i with
    | zero => simp [splitFrom]
    | succ j =>
      have hj : j < rest.length := by simpa using hi
      simp [splitFrom, ih (off + w) j hj, Nat.add_assoc]

theorem splitBy_length (ws : List Nat) (ps : List β) : (splitBy ws ps).length = ws.length := by
  induction ws generalizing ps with
  | nil => rfl
  | cons w rest ih => simp [splitBy, ih]

theorem splitBy_flatten (ws : List Nat) (ps : List β) :
    (splitBy ws ps).flatten = ps.take ws.sum := by
  induction ws generalizing ps with
  | nil => simp [splitBy]
  | cons w rest ih => simp [splitBy, ih, List.take_add]

theorem splitBy_flatten_of_length (ws : List Nat) (ps : List β) (h : ps.length = ws.sum) :
    (splitBy ws ps).flatten = ps := by
  rw [splitBy_flatten, ← h, List.take_length]

theorem splitBy_widthsOK (ws : List Nat) (ps : List β) (h : ws.sum ≤ ps.length) :
    widthsOK ws (splitBy ws ps) = true := by
  induction ws generalizing ps with
  | nil => simp [widthsOK, splitBy]
  | cons w rest ih =>
    have h' : w + rest.sum ≤ ps.length := by simpa using h
    have hr : rest.sum ≤ (ps.drop w).length := by simp; omega
    have := ih (ps.drop w) hr
    simp [widthsOK, splitBy, splitBy_length] at this ⊢
    refine ⟨by omega, this⟩

/-- splitting the flattening of well-sized pieces gives the pieces back -/
theorem splitBy_flatten_inv (ws : List Nat) (vs : List (List β)) (h : widthsOK ws vs = true) :
    splitBy ws vs.flatten = vs := by
  induction ws generalizing vs with
  | nil =>
    cases vs with
    | nil => rfl
    | cons v t => simp [widthsOK] at h
  | cons w rest ih =>
    cases vs with
    | nil => simp [widthsOK] at h
    | cons v t =>
      simp [widthsOK] at h
      obtain ⟨hlen, hw, hall⟩ := h
      have ht : widthsOK rest t = true := by simp [widthsOK, hlen, hall]
      simp [splitBy, hw, ih t ht]

theorem flatten_map_singleton (ps : List β) : (ps.map fun x => [x]).flatten = ps := by
  induction ps with
  | nil => rfl
  | cons a t ih => simp [ih]

/-! ### single assignments -/

@[simp] theorem setAt_length (q : List (PG β)) (i : Nat) (v : List β) :
    (setAt q i v).length = q.length := by
  induction q generalizing i with
  | nil => rfl
  | cons g t ih => cases i <;> simp [setAt, ih]

theorem setAt_skel (q : List (PG β)) (i : Nat) (v : List β) :
    (setAt q i v).map PG.skel = q.map PG.skel := by
  induction q generalizing i with
  | nil => rfl
  | cons g t ih => cases i <;> simp [setAt, ih, PG.skel]

theorem setAt_getElem?_ne (q : List (PG β)) (i j : Nat) (v : List β) (h : i ≠ j) :
    (setAt q i v)[j]? = q[j]? := by
  induction q generalizing i j with
  | nil => rfl
  | cons g t ih =>
    cases i with
    | zero => cases j with
      | zero => exact absurd rfl h
      | succ j => simp [setAt]
    | succ i => cases j with
      | zero => simp [setAt]
      | succ j => simpa [setAt] using ih i j (by omega)

theorem setAt_getElem?_eq (q : List (PG β)) (i : Nat) (v : List β) :
    (setAt q i v)[i]? = q[i]?.map (fun g => { g with vals := v }) := by
  induction q generalizing i with
  | nil => rfl
  | cons g t ih => cases i with
    | zero => simp [setAt]
    | succ i => simpa [setAt] using ih i

theorem setAt_setAt_same (q : List (PG β)) (i : Nat) (a b : List β) :
    setAt (setAt q i a) i b = setAt q i b := by
  induction q generalizing i with
  | nil => rfl
  | cons g t ih => cases i <;> simp [setAt, ih]

theorem setAt_comm (q : List (PG β)) (i j : Nat) (a b : List β) (h : i ≠ j) :
    setAt (setAt q i a) j b = setAt (setAt q j b) i a := by
  induction q generalizing i j with
  | nil => rfl
  | cons g t ih =>
    cases i with
    | zero => cases j with
      | zero => exact absurd rfl h
      | succ j => simp [setAt]
    | succ i => cases j with
      | zero => simp [setAt]
      | succ j => simp [setAt, ih i j (by omega)]

/-! ### sequences of assignments -/

@[simp] theorem assignPerGate_length (q : List (PG β)) (is : List Nat) (vs : List (List β)) :
    (assignPerGate q is vs).length = q.length := by
  induction is generalizing q vs with
  | nil => simp [assignPerGate]
  | cons i t ih => cases vs with
    | nil => simp [assignPerGate]
    | cons v vt => simp [assignPerGate, ih]

theorem assignPerGate_skel (q : List (PG β)) (is : List Nat) (vs : List (List β)) :
    (assignPerGate q is vs).map PG.skel = q.map PG.skel := by
  induction is generalizing q vs with
  | nil => simp [assignPerGate]
  | cons i t ih => cases vs with
    | nil => simp [assignPerGate]
    | cons v vt => simp [assignPerGate, ih, setAt_skel]

/-- positions outside the assigned list keep their gate (value included) -/
theorem assignPerGate_untouched (q : List (PG β)) (is : List Nat) (vs : List (List β)) (j : Nat)
    (h : j ∉ is) : (assignPerGate q is vs)[j]? = q[j]? := by
  induction is generalizing q vs with
  | nil => simp [assignPerGate]
  | cons i t ih => cases vs with
    | nil => simp [assignPerGate]
    | cons v vt =>
      simp at h
      simp [assignPerGate, ih _ _ h.2, setAt_getElem?_ne _ _ _ _ (Ne.symm h.1)]

theorem valsAt_congr (q q' : List (PG β)) (j : Nat) (h : q[j]? = q'[j]?) :
    valsAt q j = valsAt q' j := by simp [valsAt, h]

theorem widthAt_eq_skel (q : List (PG β)) (j : Nat) :
    widthAt q j = match (q.map PG.skel)[j]? with | some s => s.width | none => 0 := by
  simp only [widthAt, List.getElem?_map]
  cases q[j]? <;> simp [PG.skel]

theorem widthAt_of_skel (q q' : List (PG β)) (h : q.map PG.skel = q'.map PG.skel) :
    widthAt q = widthAt q' := by
  funext j; rw [widthAt_eq_skel, widthAt_eq_skel, h]

theorem setAt_comm_assign (q : List (PG β)) (is : List Nat) (vs : List (List β)) (i : Nat)
    (x : List β) (h : i ∉ is) :
    setAt (assignPerGate q is vs) i x = assignPerGate (setAt q i x) is vs := by
  induction is generalizing q vs with
  | nil => simp [assignPerGate]
  | cons i' t ih => cases vs with
    | nil => simp [assignPerGate]
    | cons v vt =>
      simp at h
      simp [assignPerGate, ih _ _ h.2, setAt_comm _ _ _ _ _ (Ne.symm h.1)]

/-- reading back what was assigned (distinct in-range positions) -/
theorem assignPerGate_read (q : List (PG β)) (is : List Nat) (vs : List (List β))
    (hnd : is.Nodup) (hr : ∀ i ∈ is, i < q.length) (hl : is.length = vs.length) :
    is.map (valsAt (assignPerGate q is vs)) = vs := by
  induction is generalizing q vs with
  | nil => cases vs with
    | nil => rfl
    | cons v vt => simp at hl
  | cons i t ih => cases vs with
    | nil => simp at hl
    | cons v vt =>
      simp at hnd hl
      have hi : i < q.length := hr i (by simp)
      have h1 : valsAt (assignPerGate (setAt q i v) t vt) i = v := by
        rw [valsAt_congr _ (setAt q i v) i (assignPerGate_untouched _ _ _ _ hnd.1)]
        simp [valsAt, setAt_getElem?_eq, List.getElem?_eq_getElem hi]
      have h2 := ih (setAt q i v) vt hnd.2 (fun j hj => by simpa using hr j (by simp [hj])) hl
      simp [assignPerGate, h1, h2]

/-- a second assignment to the same positions overrides the first -/
theorem assignPerGate_absorb (q : List (PG β)) (is : List Nat) (ys xs : List (List β))
    (hnd : is.Nodup) (hy : is.length = ys.length) (hx : is.length = xs.length) :
    assignPerGate (assignPerGate q is ys) is xs = assignPerGate q is xs := by
  induction is generalizing q ys xs with
  | nil => simp [assignPerGate]
  | cons i t ih =>
    cases ys with
    | nil => simp at hy
    | cons y yt => cases xs with
      | nil => simp at hx
      | cons x xt =>
        simp at hnd hy hx
        simp only [assignPerGate]
        rw [setAt_comm_assign _ _ _ _ _ hnd.1, setAt_setAt_same, ih _ _ _ hnd.2 hy hx]

theorem length_le_sum (t : List Nat) (ht : ∀ w ∈ t, 1 ≤ w) : t.length ≤ t.sum := by
  induction t with
  | nil => simp
  | cons b u ih =>
    have := ih (fun w hw => ht w (by simp [hw]))
    have hb := ht b (by simp)
    simp; omega

/-- `set_parameters` only looks at the bookkeeping lists, the widths and the queue -/
theorem setParametersList_congr (c' c : Circ β) (xs : List (List β)) (htr : c'.tr = c.tr)
    (hpar : c'.par = c.par) (hw : trWidths c' = trWidths c)
    (hq : ∀ ws : List (List β), ws.length = c.tr.idx.length →
      assignPerGate c'.queue c.tr.idx ws = assignPerGate c.queue c.tr.idx ws) :
    setParametersList c' xs = setParametersList c xs := by
  cases c with
  | mk q par tr =>
    cases c' with
    | mk q' par' tr' =>
      simp only at htr hpar hq
      subst htr hpar
      unfold setParametersList
      simp only [hw]
      by_cases h1 : xs.length = tr'.idx.length
      · simp only [if_pos h1]; rw [hq xs h1]
      · simp only [if_neg h1]
        rw [hq _ (by rw [flatLoop_eq_splitBy, splitBy_length]; simp [trWidths])]

/-! ### the bookkeeping of `Circuit.add` -/

/-- positions (counted from `i`) of the skeletons satisfying `p` -/
def idxWhere (p : Skel → Bool) : List Skel → Nat → List Nat
  | [], _ => []
  | s :: ss, i => if p s then i :: idxWhere p ss (i + 1) else idxWhere p ss (i + 1)

def sumWhere (p : Skel → Bool) (ss : List Skel) : Nat := ((ss.filter p).map (·.width)).sum

def specList (p : Skel → Bool) (ss : List Skel) : PList := ⟨idxWhere p ss 0, sumWhere p ss⟩

def isPar (s : Skel) : Bool := s.isParam
def isTr (s : Skel) : Bool := s.isParam && s.trainable

theorem idxWhere_append (p : Skel → Bool) (ss : List Skel) (s : Skel) (i : Nat) :
    idxWhere p (ss ++ [s]) i = idxWhere p ss i ++ (if p s then [i + ss.length] else []) := by
  induction ss generalizing i with
  | nil => simp [idxWhere]
  | cons a t ih =>
    by_cases ha : p a <;> simp [idxWhere, ha, ih, Nat.add_assoc, Nat.add_comm 1]

theorem sumWhere_append (p : Skel → Bool) (ss : List Skel) (s : Skel) :
    sumWhere p (ss ++ [s]) = sumWhere p ss + (if p s then s.width else 0) := by
  by_cases h : p s <;> simp [sumWhere, List.filter_append, h]

theorem idxWhere_bounds (p : Skel → Bool) (ss : List Skel) (i : Nat) :
    ∀ x ∈ idxWhere p ss i, i ≤ x ∧ x < i + ss.length := by
  induction ss generalizing i with
  | nil => simp [idxWhere]
  | cons a t ih =>
    intro x hx
    by_cases ha : p a
    · simp [idxWhere, ha] at hx
      rcases hx with rfl | hx
      · simp
      · have := ih (i + 1) x hx; simp; omega
    · simp [idxWhere, ha] at hx
      have := ih (i + 1) x hx; simp; omega

theorem idxWhere_nodup (p : Skel → Bool) (ss : List Skel) (i : Nat) :
    (idxWhere p ss i).Nodup := by
  induction ss generalizing i with
  | nil => simp [idxWhere]
  | cons a t ih =>
    by_cases ha : p a
    · simp [idxWhere, ha, ih]
      intro hmem
      have := idxWhere_bounds p t (i + 1) i hmem
      omega
    · simp [idxWhere, ha, ih]

/-- a listed position holds a gate satisfying the predicate -/
theorem idxWhere_sat (p : Skel → Bool) (ss : List Skel) (i : Nat) :
    ∀ x ∈ idxWhere p ss i, ∃ s, ss[x - i]? = some s ∧ p s = true := by
  induction ss generalizing i with
  | nil => simp [idxWhere]
  | cons a t ih =>
    intro x hx
    by_cases ha : p a
    · simp [idxWhere, ha] at hx
      rcases hx with rfl | hx
      · exact ⟨a, by simp, ha⟩
      · obtain ⟨s, hs, hp⟩ := ih (i + 1) x hx
        have hb := idxWhere_bounds p t (i + 1) x hx
        refine ⟨s, ?_, hp⟩
        have : x - i = (x - (i + 1)) + 1 := by omega
        rw [this]; simpa using hs
    · simp [idxWhere, ha] at hx
      obtain ⟨s, hs, hp⟩ := ih (i + 1) x hx
      have hb := idxWhere_bounds p t (i + 1) x hx
      refine ⟨s, ?_, hp⟩
      have : x - i = (x - (i + 1)) + 1 := by omega
      rw [this]; simpa using hs

/-- every position satisfying the predicate is listed -/
theorem idxWhere_complete (p : Skel → Bool) (ss : List Skel) (i j : Nat) (s : Skel)
    (hj : ss[j]? = some s) (hp : p s = true) : i + j ∈ idxWhere p ss i := by
  induction ss generalizing i j with
  | nil => simp at hj
  | cons a t ih =>
    cases j with
    | zero =>
      simp at hj; subst hj; simp [idxWhere, hp]
    | succ j =>
      have := ih (i + 1) j (by simpa using hj)
      have e : i + (j + 1) = i + 1 + j := by omega
      by_cases ha : p a <;> simp [idxWhere, ha, e, this]

/-- the well-formedness invariant: both `_ParametrizedGates` are functions of the queue's
    skeleton -/
def Fresh (c : Circ β) : Prop :=
  c.par = specList isPar (c.queue.map PG.skel) ∧ c.tr = specList isTr (c.queue.map PG.skel)

theorem fresh_empty : Fresh (Circ.empty : Circ β) := by
  simp [Fresh, Circ.empty, specList, idxWhere, sumWhere, PList.empty]

theorem fresh_add (c : Circ β) (g : PG β) (h : Fresh c) : Fresh (c.add g) := by
  obtain ⟨hp, ht⟩ := h
  unfold Circ.add
  by_cases h1 : g.isParam = true
  · by_cases h2 : g.trainable = true
    · simp [Fresh, h1, h2, hp, ht, specList, PList.append, idxWhere_append, sumWhere_append,
        isPar, isTr, PG.skel]
    · simp [Fresh, h1, h2, hp, ht, specList, PList.append, idxWhere_append, sumWhere_append,
        isPar, isTr, PG.skel]
  · simp [Fresh, h1, hp, ht, specList, PList.append, idxWhere_append, sumWhere_append,
      isPar, isTr, PG.skel]

theorem add_queue (c : Circ β) (g : PG β) : (c.add g).queue = c.queue ++ [g] := by
  unfold Circ.add; split <;> [split; skip] <;> rfl

theorem foldl_add_spec (gs : List (PG β)) (c : Circ β) (h : Fresh c) :
    Fresh (gs.foldl Circ.add c) ∧ (gs.foldl Circ.add c).queue = c.queue ++ gs := by
  induction gs generalizing c with
  | nil => simp [h]
  | cons g t ih =>
    have := ih (c.add g) (fresh_add c g h)
    simp [List.foldl, this, add_queue]

theorem build_queue (gs : List (PG β)) : (build gs).queue = gs := by
  have := (foldl_add_spec gs Circ.empty fresh_empty).2
  simpa [build, Circ.empty] using this

theorem build_fresh (gs : List (PG β)) : Fresh (build gs) :=
  (foldl_add_spec gs Circ.empty fresh_empty).1

/-- a circuit is determined by its queue once it is well formed -/
theorem fresh_iff_build (c : Circ β) : Fresh c ↔ c = build c.queue := by
  constructor
  · intro h
    have hb := build_fresh c.queue
    have hq := build_queue c.queue
    obtain ⟨hp, ht⟩ := h
    obtain ⟨hp', ht'⟩ := hb
    rw [hq] at hp' ht'
    cases c with
    | mk q par tr =>
      cases hbd : build q with
      | mk q' par' tr' =>
        simp [hbd] at hq hp' ht'
        simp at hp ht
        simp [hq, hp, ht, hp', ht']
  · intro h; rw [h]; exact build_fresh _

theorem fresh_set_queue (c : Circ β) (q' : List (PG β)) (h : Fresh c)
    (hs : q'.map PG.skel = c.queue.map PG.skel) : Fresh { c with queue := q' } := by
  obtain ⟨hp, ht⟩ := h
  exact ⟨by simpa [hs] using hp, by simpa [hs] using ht⟩

end QV.Params
