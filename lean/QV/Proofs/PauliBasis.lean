/-
  QV.Proofs.PauliBasis — orthogonality of the n-qubit Pauli basis of QV.Model.Superop
  (`pauliN`, any `pauli_order`), by induction on the Kronecker structure.
-/
import Mathlib.Algebra.BigOperators.Group.Finset.Basic
import Mathlib.Algebra.BigOperators.Ring.Finset
import Mathlib.Algebra.BigOperators.Intervals
import Mathlib.Algebra.Ring.Defs
import Mathlib.Tactic.Ring
import Mathlib.Tactic.IntervalCases
import Mathlib.Tactic.LinearCombination
import Mathlib.Algebra.BigOperators.Group.Finset.Sigma
import QV.Proofs.Superop

namespace QV.Superop
open Finset

variable {α : Type} [CommRing α]

/-- what is needed of the conjugation and of the imaginary unit. -/
structure ConjOK (conj : α → α) (im : α) : Prop where
  zero : conj 0 = 0
  one : conj 1 = 1
  neg : ∀ x, conj (-x) = -conj x
  mul : ∀ x y, conj (x * y) = conj x * conj y
  conj_im : conj im = -im
  im_sq : im * im = -1
  invol : ∀ x, conj (conj x) = x

/-- Hilbert–Schmidt product of two single-qubit basis elements. -/
def gram1 (conj : α → α) (im : α) (p q : Nat) : α :=
  ∑ i ∈ range 2, ∑ j ∈ range 2, conj (pauli1 im p i j) * pauli1 im q i j

/-- Hilbert–Schmidt product `tr(P_k† P_l)` of two n-qubit basis elements. -/
def gramN (conj : α → α) (im : α) (po : List Nat) (n k l : Nat) : α :=
  ∑ i ∈ range (2 ^ n), ∑ j ∈ range (2 ^ n), conj (pauliN im po n k i j) * pauliN im po n l i j

theorem gram1_eq {conj : α → α} {im : α} (h : ConjOK conj im) {p q : Nat} (hp : p < 4) (hq : q < 4) :
    gram1 conj im p q = if p = q then 2 else 0 := by
  have hs := h.im_sq
  interval_cases p <;> interval_cases q <;>
    simp [gram1, pauli1, Finset.sum_range_succ, h.zero, h.one, h.neg, h.conj_im] <;>
    first | (linear_combination (-2 : α) * hs) | (linear_combination (2 : α) * hs) | ring


theorem gramN_zero {conj : α → α} {im : α} (h : ConjOK conj im) (po : List Nat) (k l : Nat) :
    gramN conj im po 0 k l = 1 := by
  simp [gramN, pauliN, h.one]

/-- Kronecker step: the Hilbert–Schmidt product factorises over the last qubit. -/
theorem gramN_succ {conj : α → α} {im : α} (h : ConjOK conj im) (po : List Nat) (n k l : Nat) :
    gramN conj im po (n + 1) k l
      = gramN conj im po n (k / 4) (l / 4) * gram1 conj im (po.getD (k % 4) 0) (po.getD (l % 4) 0) := by
  simp only [gramN, gram1, Nat.pow_succ, sum_range_mul]
  have e1 : ∀ a b, b ∈ range 2 → (a * 2 + b) / 2 = a := fun a b hb => mul_add_div' a (mem_range.mp hb)
  have e2 : ∀ a b, b ∈ range 2 → (a * 2 + b) % 2 = b := fun a b hb => mul_add_mod' a (mem_range.mp hb)
  have step : ∀ a ∈ range (2 ^ n), ∀ b ∈ range 2, ∀ a' ∈ range (2 ^ n), ∀ b' ∈ range 2,
      conj (pauliN im po (n + 1) k (a * 2 + b) (a' * 2 + b')) * pauliN im po (n + 1) l (a * 2 + b) (a' * 2 + b')
        = (conj (pauliN im po n (k / 4) a a') * pauliN im po n (l / 4) a a')
          * (conj (pauli1 im (po.getD (k % 4) 0) b b') * pauli1 im (po.getD (l % 4) 0) b b') := by
    intro a _ b hb a' _ b' hb'
    simp only [pauliN, e1 a b hb, e2 a b hb, e1 a' b' hb', e2 a' b' hb', h.mul]
    ring
  rw [Finset.sum_congr rfl (fun a ha => Finset.sum_congr rfl (fun b hb =>
    Finset.sum_congr rfl (fun a' ha' => Finset.sum_congr rfl (fun b' hb' => step a ha b hb a' ha' b' hb'))))]
  rw [Finset.sum_mul_sum]
  refine Finset.sum_congr rfl (fun a _ => Finset.sum_congr rfl (fun b _ => ?_))
  rw [Finset.sum_mul_sum]

/-- validity of a `pauli_order`: a list whose first four entries are a permutation of 0..3. -/
def ValidPO (po : List Nat) : Prop :=
  (∀ a, a < 4 → po.getD a 0 < 4) ∧ (∀ a, a < 4 → ∀ b, b < 4 → po.getD a 0 = po.getD b 0 → a = b)

/-- orthogonality of the n-qubit Pauli basis: `tr(P_k† P_l) = 2^n δ_kl`, for every number of
qubits and every `pauli_order`. -/
theorem gramN_eq {conj : α → α} {im : α} (h : ConjOK conj im) {po : List Nat} (hpo : ValidPO po) :
    ∀ (n k l : Nat), k < 4 ^ n → l < 4 ^ n →
      gramN conj im po n k l = if k = l then (2 : α) ^ n else 0
  | 0, k, l, hk, hl => by
    simp at hk hl
    subst hk; subst hl
    simp [gramN_zero h]
  | n + 1, k, l, hk, hl => by
    have hk4 : k / 4 < 4 ^ n := by rw [Nat.pow_succ] at hk; omega
    have hl4 : l / 4 < 4 ^ n := by rw [Nat.pow_succ] at hl; omega
    have hkm : k % 4 < 4 := Nat.mod_lt _ (by decide)
    have hlm : l % 4 < 4 := Nat.mod_lt _ (by decide)
    rw [gramN_succ h, gramN_eq h hpo n _ _ hk4 hl4, gram1_eq h (hpo.1 _ hkm) (hpo.1 _ hlm)]
    by_cases hkl : k = l
    · subst hkl; simp [pow_succ]
    · rw [if_neg hkl]
      by_cases hq : k / 4 = l / 4
      · have hm : k % 4 ≠ l % 4 := by omega
        have : po.getD (k % 4) 0 ≠ po.getD (l % 4) 0 := fun e => hm (hpo.2 _ hkm _ hlm e)
        rw [if_neg this, mul_zero]
      · rw [if_neg hq, zero_mul]


/-- a sum over the positions of a vectorisation is the double sum over the entries, for every
order (uses the bijection `vecIdx` ↔ `(rowOf, colOf)`). -/
theorem sum_vec_reindex (o : Order) {d n : Nat} (hw : WF o d n) (f : Nat → Nat → α) :
    ∑ m ∈ range (d * d), f (rowOf o d n m) (colOf o d n m) = ∑ i ∈ range d, ∑ j ∈ range d, f i j := by
  rw [← Finset.sum_product']
  refine Finset.sum_nbij' (fun m => (rowOf o d n m, colOf o d n m)) (fun p => vecIdx o d n p.1 p.2)
    ?_ ?_ ?_ ?_ ?_
  · intro m hm
    have hm' := mem_range.mp hm
    exact Finset.mem_product.mpr ⟨mem_range.mpr (rowOf_lt o hw hm'), mem_range.mpr (colOf_lt o hw hm')⟩
  · intro p hp
    have hp' := Finset.mem_product.mp hp
    exact mem_range.mpr (vecIdx_lt o hw (mem_range.mp hp'.1) (mem_range.mp hp'.2))
  · intro m hm
    exact vecIdx_rowOf_colOf o hw (mem_range.mp hm)
  · intro p hp
    have hp' := Finset.mem_product.mp hp
    have h1 := rowOf_vecIdx o hw (mem_range.mp hp'.1) (mem_range.mp hp'.2)
    have h2 := colOf_vecIdx o hw (mem_range.mp hp'.1) (mem_range.mp hp'.2)
    exact Prod.ext h1 h2
  · intro m _
    rfl

/-- `B B† = 2^n · 1` for the un-normalised `comp_basis_to_pauli` matrix, for every number of
qubits, every vectorisation order and every `pauli_order`. -/
theorem compToPauli_mul_conjT {conj : α → α} {im : α} (h : ConjOK conj im) {po : List Nat}
    (hpo : ValidPO po) (o : Order) (n : Nat) {k l : Nat} (hk : k < 4 ^ n) (hl : l < 4 ^ n) :
    matMul (4 ^ n) (compToPauli conj im po o n) (conjT conj (compToPauli conj im po o n)) k l
      = if k = l then (2 : α) ^ n else 0 := by
  have hw : WF o (2 ^ n) n := by
    cases o with
    | row => trivial
    | column => trivial
    | system => rfl
  rw [← gramN_eq h hpo n k l hk hl]
  simp only [matMul, conjT, compToPauli, vectorization, sumRange_eq_sum, h.invol, four_pow, gramN]
  exact sum_vec_reindex o hw (fun i j => conj (pauliN im po n k i j) * pauliN im po n l i j)

end QV.Superop
