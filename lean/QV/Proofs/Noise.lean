/-
  QV.Proofs.Noise — lemmas about the noise-attachment model (QV/Model/Noise.lean):
  the loops of `NoiseModel.apply` / `with_pauli_noise` in block form, what a block contains,
  `combinations`, the set intersection.
-/
import Mathlib.Data.List.Basic
import Mathlib.Data.List.Sublists
import QV.Model.Noise

namespace QV.Noise

/-! ### block form of `NoiseModel.apply` -/

/-- channels placed before the gate: those of the matching readout rules, in rule order. -/
def beforeOf (rules : List Rule) (g : NGate) : List Item :=
  ((errorsList rules g).filter fun p => p.2.kind.isReadout).flatMap fun p => ruleChannels p.1 p.2 g

/-- channels placed after the gate: those of the other matching rules, in rule order. -/
def afterOf (rules : List Rule) (g : NGate) : List Item :=
  ((errorsList rules g).filter fun p => !p.2.kind.isReadout).flatMap fun p => ruleChannels p.1 p.2 g

/-- what one gate contributes to the noisy queue. -/
def block (rules : List Rule) (g : NGate) : List Item :=
  beforeOf rules g ++ Item.gate g :: afterOf rules g

theorem ruleStep_foldl (g : NGate) (l : List (Nat × Rule)) (b a : List Item) :
    l.foldl (ruleStep g) (b, a)
      = (b ++ (l.filter fun p => p.2.kind.isReadout).flatMap (fun p => ruleChannels p.1 p.2 g),
         a ++ (l.filter fun p => !p.2.kind.isReadout).flatMap (fun p => ruleChannels p.1 p.2 g)) := by
  induction l generalizing b a with
  | nil => simp
  | cons p l ih =>
    rw [List.foldl_cons]
    have hs : ruleStep g (b, a) p = if p.2.kind.isReadout then (b ++ ruleChannels p.1 p.2 g, a)
        else (b, a ++ ruleChannels p.1 p.2 g) := rfl
    rw [hs]
    cases h : p.2.kind.isReadout <;> simp [ih, h, List.filter_cons]

theorem gateStep_eq (rules : List Rule) (noisy : List Item) (g : NGate) :
    gateStep rules noisy g = noisy ++ block rules g := by
  unfold gateStep block beforeOf afterOf
  rw [ruleStep_foldl]
  simp

theorem attachNoise_foldl (rules : List Rule) (q : List NGate) (acc : List Item) :
    q.foldl (gateStep rules) acc = acc ++ q.flatMap (block rules) := by
  induction q generalizing acc with
  | nil => simp
  | cons g q ih => rw [List.foldl_cons, ih, gateStep_eq]; simp

/-- the two nested loops of `apply` compute the concatenation of the blocks. -/
theorem attachNoise_eq (rules : List Rule) (q : List NGate) :
    attachNoise rules q = q.flatMap (block rules) := by
  unfold attachNoise
  rw [attachNoise_foldl]; simp

/-! ### what a rule creates -/

theorem ruleChannels_isChan (i : Nat) (r : Rule) (g : NGate) :
    ∀ it ∈ ruleChannels i r g, ∃ qs, it = Item.chan i r.kind qs ∧ qs ∈ channelQubits r.kind (ruleQubits r g) := by
  intro it hit
  unfold ruleChannels at hit
  split at hit
  · split at hit
    · simp at hit
    · simp only [List.mem_map] at hit
      obtain ⟨c, hc, rfl⟩ := hit
      exact ⟨c, rfl, hc⟩
  · simp at hit

theorem ruleChannels_conds (i : Nat) (r : Rule) (g : NGate) (it : Item) (hit : it ∈ ruleChannels i r g) :
    condsHold r g = true ∧ ruleQubits r g ≠ [] := by
  unfold ruleChannels at hit
  split at hit
  · rename_i hc
    split at hit
    · simp at hit
    · rename_i he
      refine ⟨hc, ?_⟩
      intro h; simp [h] at he
  · simp at hit

/-- every element of the rule list of a gate is a rule of the model, at its own position, keyed by
the gate's class or (for gates other than channels and measurements) by `None`. -/
theorem mem_errorsList {rules : List Rule} {g : NGate} {p : Nat × Rule} (hp : p ∈ errorsList rules g) :
    rules[p.1]? = some p.2 ∧
      (p.2.key = some g.cls ∨ (p.2.key = none ∧ g.isM = false ∧ g.isChan = false)) := by
  unfold errorsList at hp
  have hidx : ∀ p : Nat × Rule, p ∈ rules.zipIdx.map (fun p => (p.2, p.1)) → rules[p.1]? = some p.2 := by
    intro p hp
    simp only [List.mem_map] at hp
    obtain ⟨⟨r, i⟩, hri, rfl⟩ := hp
    simpa using List.mem_zipIdx_iff_getElem?.mp hri
  simp only at hp
  split at hp
  · rename_i hm
    simp only [List.mem_filter, beq_iff_eq] at hp
    exact ⟨hidx p hp.1, Or.inl hp.2⟩
  · rename_i hm
    simp only [Bool.or_eq_true, not_or, Bool.not_eq_true] at hm
    simp only [List.mem_append, List.mem_filter, beq_iff_eq] at hp
    rcases hp with hp | hp
    · exact ⟨hidx p hp.1, Or.inl hp.2⟩
    · exact ⟨hidx p hp.1, Or.inr ⟨hp.2, hm.1, hm.2⟩⟩

/-- "rule number `i` prescribes the channel `(kind, qs)` for gate `g`". -/
def Triggered (rules : List Rule) (g : NGate) (i : Nat) (kind : ErrKind) (qs : List Nat) : Prop :=
  ∃ rule : Rule, rules[i]? = some rule ∧ rule.kind = kind ∧
    (rule.key = some g.cls ∨ (rule.key = none ∧ g.isM = false ∧ g.isChan = false)) ∧
    condsHold rule g = true ∧ qs ∈ channelQubits kind (ruleQubits rule g) ∧ ruleQubits rule g ≠ []

theorem mem_beforeOf {rules : List Rule} {g : NGate} {it : Item} (h : it ∈ beforeOf rules g) :
    ∃ i qs, it = Item.chan i ErrKind.readout qs ∧ Triggered rules g i ErrKind.readout qs := by
  unfold beforeOf at h
  simp only [List.mem_flatMap, List.mem_filter] at h
  obtain ⟨p, ⟨hp, hro⟩, hit⟩ := h
  obtain ⟨qs, rfl, hqs⟩ := ruleChannels_isChan _ _ _ it hit
  have hk : p.2.kind = ErrKind.readout := by
    cases hkk : p.2.kind <;> simp [hkk, ErrKind.isReadout] at hro ⊢
  obtain ⟨hc, hne⟩ := ruleChannels_conds _ _ _ _ hit
  obtain ⟨hat, hkey⟩ := mem_errorsList hp
  exact ⟨p.1, qs, by rw [hk], ⟨p.2, hat, hk, hkey, hc, by rw [← hk]; exact hqs, hne⟩⟩

theorem mem_afterOf {rules : List Rule} {g : NGate} {it : Item} (h : it ∈ afterOf rules g) :
    ∃ i kind qs, it = Item.chan i kind qs ∧ kind.isReadout = false ∧ Triggered rules g i kind qs := by
  unfold afterOf at h
  simp only [List.mem_flatMap, List.mem_filter] at h
  obtain ⟨p, ⟨hp, hro⟩, hit⟩ := h
  obtain ⟨qs, rfl, hqs⟩ := ruleChannels_isChan _ _ _ it hit
  obtain ⟨hc, hne⟩ := ruleChannels_conds _ _ _ _ hit
  obtain ⟨hat, hkey⟩ := mem_errorsList hp
  exact ⟨p.1, p.2.kind, qs, rfl, by simpa using hro, ⟨p.2, hat, rfl, hkey, hc, hqs, hne⟩⟩

theorem beforeOf_gate? (rules : List Rule) (g : NGate) : (beforeOf rules g).filterMap Item.gate? = [] := by
  rw [List.filterMap_eq_nil_iff]
  intro it hit
  obtain ⟨i, qs, rfl, _⟩ := mem_beforeOf hit
  rfl

theorem afterOf_gate? (rules : List Rule) (g : NGate) : (afterOf rules g).filterMap Item.gate? = [] := by
  rw [List.filterMap_eq_nil_iff]
  intro it hit
  obtain ⟨i, k, qs, rfl, _⟩ := mem_afterOf hit
  rfl

theorem beforeOf_all_chan (rules : List Rule) (g : NGate) : ∀ it ∈ beforeOf rules g, it.isChan = true := by
  intro it hit
  obtain ⟨i, qs, rfl, _⟩ := mem_beforeOf hit
  rfl

theorem afterOf_all_chan (rules : List Rule) (g : NGate) : ∀ it ∈ afterOf rules g, it.isChan = true := by
  intro it hit
  obtain ⟨i, k, qs, rfl, _⟩ := mem_afterOf hit
  rfl

/-! ### erasing the channels; where a channel sits -/

/-- the noisy queue with the inserted channels erased. -/
def eraseChannels (l : List Item) : List NGate := l.filterMap Item.gate?

/-- the last / first input gate of a stretch of the noisy queue. -/
def lastGate (l : List Item) : Option NGate := (eraseChannels l).getLast?
def firstGate (l : List Item) : Option NGate := (eraseChannels l).head?

theorem eraseChannels_append (a b : List Item) :
    eraseChannels (a ++ b) = eraseChannels a ++ eraseChannels b := List.filterMap_append ..

theorem erase_prefix_nil {a b : List Item} (h : eraseChannels (a ++ b) = []) :
    eraseChannels a = [] ∧ eraseChannels b = [] := by
  rw [eraseChannels_append] at h
  exact List.append_eq_nil_iff.mp h

/-- where an inserted channel sits, and why it is there (both placements at once). -/
theorem placement_aux (rules : List Rule) (i : Nat) (kind : ErrKind) (qs : List Nat) :
    ∀ (q : List NGate) (l1 l2 : List Item), q.flatMap (block rules) = l1 ++ Item.chan i kind qs :: l2 →
      (kind.isReadout = false ∧ ∃ g, lastGate l1 = some g ∧ Triggered rules g i kind qs) ∨
      (kind.isReadout = true ∧ ∃ g, firstGate l2 = some g ∧ Triggered rules g i kind qs) := by
  intro q
  induction q with
  | nil => intro l1 l2 h; simp at h
  | cons g q ih =>
    intro l1 l2 h
    rw [List.flatMap_cons, List.append_eq_append_iff] at h
    -- the channel lies in a later block
    have later : ∀ a', l1 = block rules g ++ a' → q.flatMap (block rules) = a' ++ Item.chan i kind qs :: l2 →
        (kind.isReadout = false ∧ ∃ g, lastGate l1 = some g ∧ Triggered rules g i kind qs) ∨
        (kind.isReadout = true ∧ ∃ g, firstGate l2 = some g ∧ Triggered rules g i kind qs) := by
      intro a' hl1 hR
      rcases ih a' l2 hR with ⟨hk, g', hg', ht⟩ | hr
      · left
        refine ⟨hk, g', ?_, ht⟩
        subst hl1
        unfold lastGate at hg' ⊢
        rw [eraseChannels_append, List.getLast?_append, hg']
        rfl
      · right; exact hr
    rcases h with ⟨a', hl1, hR⟩ | ⟨c', hblock, hc⟩
    · exact later a' hl1 hR
    · cases c' with
      | nil =>
        simp only [List.nil_append, List.append_nil] at hc hblock
        exact later [] (by simp [hblock]) (by simpa using hc.symm)
      | cons d c'' =>
        simp only [List.cons_append, List.cons.injEq] at hc
        obtain ⟨rfl, rfl⟩ := hc
        -- block g = l1 ++ chan :: c''
        unfold block at hblock
        rw [List.append_eq_append_iff] at hblock
        rcases hblock with ⟨a', hl1, hrest⟩ | ⟨b', hbefore, hrest⟩
        · -- the channel lies after the gate
          cases a' with
          | nil => simp at hrest
          | cons e a'' =>
            simp only [List.cons_append, List.cons.injEq] at hrest
            obtain ⟨rfl, hafter⟩ := hrest
            have hmem : Item.chan i kind qs ∈ afterOf rules g := by rw [hafter]; simp
            obtain ⟨i', k', qs', heq, hk, ht⟩ := mem_afterOf hmem
            injection heq with h1 h2 h3
            subst h1 h2 h3
            left
            refine ⟨hk, g, ?_, ht⟩
            have hnil := afterOf_gate? rules g
            rw [hafter] at hnil
            have ha'' := (erase_prefix_nil (a := a'') hnil).1
            subst hl1
            unfold lastGate
            rw [eraseChannels_append]
            have : eraseChannels (Item.gate g :: a'') = [g] := by
              show (Item.gate g :: a'').filterMap Item.gate? = [g]
              rw [List.filterMap_cons]; simp only [Item.gate?]; exact congrArg _ ha''
            rw [this, List.getLast?_append]; rfl
        · -- the channel lies before the gate
          cases b' with
          | nil => simp at hrest
          | cons e b'' =>
            simp only [List.cons_append, List.cons.injEq] at hrest
            obtain ⟨rfl, hc''⟩ := hrest
            have hmem : Item.chan i kind qs ∈ beforeOf rules g := by rw [hbefore]; simp
            obtain ⟨i', qs', heq, ht⟩ := mem_beforeOf hmem
            injection heq with h1 h2 h3
            subst h1 h2 h3
            right
            refine ⟨rfl, g, ?_, ht⟩
            have hnil := beforeOf_gate? rules g
            rw [hbefore] at hnil
            have hb'' : eraseChannels b'' = [] := by
              have := (erase_prefix_nil (a := l1) hnil).2
              show b''.filterMap Item.gate? = []
              have h2 : eraseChannels (Item.chan i ErrKind.readout qs :: b'') = eraseChannels b'' := rfl
              rw [h2] at this; exact this
            subst hc''
            unfold firstGate
            rw [eraseChannels_append, eraseChannels_append, hb'']
            rfl

/-! ### `combinations` and the set intersection -/

theorem combos_sublist : ∀ (l : List Nat) (k : Nat) (c : List Nat), c ∈ combos l k → c.Sublist l ∧ c.length = k
  | _, 0, c, h => by
    cases ‹List Nat› <;> simp_all [combos]
  | [], _ + 1, c, h => by simp [combos] at h
  | x :: xs, k + 1, c, h => by
    simp only [combos, List.mem_append, List.mem_map] at h
    rcases h with ⟨c', hc', rfl⟩ | h
    · obtain ⟨hs, hl⟩ := combos_sublist xs k c' hc'
      exact ⟨hs.cons_cons x, by simp [hl]⟩
    · obtain ⟨hs, hl⟩ := combos_sublist xs (k + 1) c h
      exact ⟨hs.cons x, hl⟩

theorem mem_setInter {a b : List Nat} {q : Nat} : q ∈ setInter a b ↔ q ∈ a ∧ q ∈ b := by
  unfold setInter
  simp only [List.mem_filter, List.mem_range, Bool.and_eq_true, List.contains_iff_mem]
  constructor
  · exact fun h => h.2
  · intro h
    refine ⟨?_, h⟩
    have : ∀ (l : List Nat) (init : Nat), q ∈ l → q ≤ l.foldl max init := by
      intro l
      induction l with
      | nil => simp
      | cons x xs ih =>
        intro init hq
        simp only [List.foldl_cons]
        rcases List.mem_cons.mp hq with rfl | hq
        · have hmono : ∀ (l : List Nat) (i : Nat), i ≤ l.foldl max i := by
            intro l
            induction l with
            | nil => simp
            | cons y ys ih2 => intro i; simp only [List.foldl_cons]; exact le_trans (le_max_left i y) (ih2 _)
          exact le_trans (le_max_right init q) (hmono xs _)
        · exact ih _ hq
    exact Nat.lt_succ_of_le (this a 0 h.1)

theorem setInter_nodup (a b : List Nat) : (setInter a b).Nodup :=
  List.Nodup.filter _ List.nodup_range

/-- the qubits a (non-custom) rule acts on are qubits of the gate. -/
theorem ruleQubits_subset (r : Rule) (g : NGate) : ∀ q ∈ ruleQubits r g, q ∈ g.qubits := by
  intro q hq
  unfold ruleQubits at hq
  split at hq
  · exact hq
  · exact (mem_setInter.mp hq).1

/-- every channel a non-custom error creates acts on some of the qubits it is given, each
once if they are distinct, in their order. -/
theorem channelQubits_sublist (kind : ErrKind) (hk : ∀ cq, kind ≠ ErrKind.custom cq) (qs c : List Nat)
    (hc : c ∈ channelQubits kind qs) : c.Sublist qs := by
  cases kind with
  | kraus k => exact (combos_sublist qs k c hc).1
  | unitary k => exact (combos_sublist qs k c hc).1
  | custom cq => exact absurd rfl (hk cq)
  | depol => simp [channelQubits] at hc; subst hc; exact List.Sublist.refl _
  | readout => simp [channelQubits] at hc; subst hc; exact List.Sublist.refl _
  | pauli | thermal | ampDamp | phaseDamp | reset =>
    simp only [channelQubits, List.mem_map] at hc
    obtain ⟨q, hq, rfl⟩ := hc
    exact List.singleton_sublist.mpr hq

/-! ### block form of `with_pauli_noise` -/

theorem withPauliNoise_foldl (pm : Nat → Bool) (q : List NGate) (acc : List Item) :
    (q.zip (q.map (pauliNoiseGates pm))).foldl (fun acc p => acc ++ [Item.gate p.1] ++ p.2) acc
      = acc ++ q.flatMap (fun g => Item.gate g :: pauliNoiseGates pm g) := by
  induction q generalizing acc with
  | nil => simp
  | cons g q ih =>
    rw [List.map_cons, List.zip_cons_cons, List.foldl_cons, ih]
    simp

theorem withPauliNoise_eq (pm : Nat → Bool) (q : List NGate) :
    withPauliNoise pm q = q.flatMap fun g => Item.gate g :: pauliNoiseGates pm g := by
  unfold withPauliNoise
  rw [withPauliNoise_foldl]; simp

end QV.Noise
