/-
  QV.Proofs.XDecomposeSigned — the multi-controlled-X decomposition of qibo, signs included.

  With `use_toffolis=False` the ladder uses "congruent" Toffolis (`CGate.rtof`) that reverse the
  sign of |c0 c1 t⟩ = |1 0 0⟩.  Here it is proved that these signs cancel: every gate list
  returned by the model of `X.decompose` maps the signed basis state `(-1)^s |b⟩` to
  `(-1)^s |mcxSpec b⟩`.  Ingredients: each congruent Toffoli is an involution on signed basis
  states; the V-shaped chain is a palindrome of such involutions, hence undone by a second run;
  the only other gate of the ladder writes the target only, which no chain gate reads.
-/
import QV.Proofs.XDecompose
set_option linter.unusedSimpArgs false
set_option linter.unusedVariables false
namespace QV

/-! ### running gate lists on signed basis states -/

/-- one gate acting on a signed basis state. -/
def sstep (g : CGate) (sb : Bool × Lab) : Bool × Lab := (xor sb.1 (g.sign sb.2), g.apply sb.2)

theorem runS_nil (sb : Bool × Lab) : runS [] sb = sb := rfl

theorem runS_cons (g : CGate) (gs : List CGate) (sb : Bool × Lab) :
    runS (g :: gs) sb = runS gs (sstep g sb) := rfl

theorem runS_append (gs hs : List CGate) (sb : Bool × Lab) :
    runS (gs ++ hs) sb = runS hs (runS gs sb) := by
  unfold runS
  rw [List.foldl_append]

theorem runS_singleton (g : CGate) (sb : Bool × Lab) : runS [g] sb = sstep g sb := rfl

/-- the bit-assignment part of a signed run is the sign-free run. -/
theorem runS_snd (gs : List CGate) : ∀ sb : Bool × Lab, (runS gs sb).2 = runC gs sb.2 := by
  induction gs with
  | nil => intro sb; rfl
  | cons g gs ih =>
    intro sb
    rw [runS_cons, runC_cons, ih]
    rfl

/-! ### `Lab.set` -/

theorem Lab.set_set_same (b : Lab) (q : Nat) (u v : Bool) : (b.set q u).set q v = b.set q v := by
  funext r
  by_cases h : r = q
  · subst h; rw [Lab.cset_same, Lab.cset_same]
  · rw [Lab.cset_other _ _ _ _ h, Lab.cset_other _ _ _ _ h, Lab.cset_other _ _ _ _ h]

theorem Lab.set_self (b : Lab) (q : Nat) : b.set q (b q) = b := by
  funext r
  by_cases h : r = q
  · subst h; rw [Lab.cset_same]
  · rw [Lab.cset_other _ _ _ _ h]

theorem Lab.set_comm (b : Lab) (a q : Nat) (u v : Bool) (h : a ≠ q) :
    (b.set a u).set q v = (b.set q v).set a u := by
  funext r
  by_cases hq : r = q
  · subst hq
    rw [Lab.cset_same, Lab.cset_other _ _ _ _ (Ne.symm h), Lab.cset_same]
  · by_cases ha : r = a
    · subst ha
      rw [Lab.cset_other _ _ _ _ hq, Lab.cset_same, Lab.cset_same]
    · rw [Lab.cset_other _ _ _ _ hq, Lab.cset_other _ _ _ _ ha, Lab.cset_other _ _ _ _ ha,
        Lab.cset_other _ _ _ _ hq]

/-! ### involutions -/

/-- `g` applied twice is the identity on signed basis states. -/
def SInv (g : CGate) : Prop := ∀ sb : Bool × Lab, sstep g (sstep g sb) = sb

theorem SInv.runS_two {g : CGate} (h : SInv g) (sb : Bool × Lab) : runS [g, g] sb = sb := h sb

theorem sinv_rtof (c0 c1 t : Nat) (h0 : t ≠ c0) (h1 : t ≠ c1) : SInv (.rtof c0 c1 t) := by
  rintro ⟨s, b⟩
  have e0 : ∀ v, (b.set t v) c0 = b c0 := fun v => Lab.cset_other _ _ _ _ (Ne.symm h0)
  have e1 : ∀ v, (b.set t v) c1 = b c1 := fun v => Lab.cset_other _ _ _ _ (Ne.symm h1)
  simp only [sstep, CGate.sign, CGate.apply, e0, e1, Lab.cset_same, Lab.set_set_same]
  have hb : xor (xor (b t) (b c0 && b c1)) (b c0 && b c1) = b t := by
    cases b t <;> cases b c0 <;> cases b c1 <;> rfl
  rw [hb, Lab.set_self]
  refine Prod.ext ?_ rfl
  show xor (xor s (b c0 && !b c1 && !b t)) (b c0 && !b c1 && !(xor (b t) (b c0 && b c1))) = s
  cases s <;> cases b t <;> cases b c0 <;> cases b c1 <;> rfl

theorem sinv_toffoli (c0 c1 t : Nat) (h0 : t ≠ c0) (h1 : t ≠ c1) : SInv (.toffoli c0 c1 t) := by
  rintro ⟨s, b⟩
  have e0 : ∀ v, (b.set t v) c0 = b c0 := fun v => Lab.cset_other _ _ _ _ (Ne.symm h0)
  have e1 : ∀ v, (b.set t v) c1 = b c1 := fun v => Lab.cset_other _ _ _ _ (Ne.symm h1)
  simp only [sstep, CGate.sign, CGate.apply, e0, e1, Lab.cset_same, Lab.set_set_same]
  have hb : xor (xor (b t) (b c0 && b c1)) (b c0 && b c1) = b t := by
    cases b t <;> cases b c0 <;> cases b c1 <;> rfl
  rw [hb, Lab.set_self]
  refine Prod.ext ?_ rfl
  show xor (xor s false) false = s
  cases s <;> rfl

theorem min_max_cases (c0 c1 : Nat) :
    (min c0 c1 = c0 ∧ max c0 c1 = c1) ∨ (min c0 c1 = c1 ∧ max c0 c1 = c0) := by
  by_cases h : c0 ≤ c1
  · exact Or.inl ⟨Nat.min_eq_left h, Nat.max_eq_right h⟩
  · have h' : c1 ≤ c0 := by omega
    exact Or.inr ⟨Nat.min_eq_right h', Nat.max_eq_left h'⟩

/-- a congruent Toffoli whose target differs from its controls is an involution on signed
    basis states (both `use_toffolis` values). -/
theorem sinv_congruent (ut : Bool) (c0 c1 t : Nat) (h0 : t ≠ c0) (h1 : t ≠ c1) :
    SInv (congruent ut c0 c1 t) := by
  have hmin : t ≠ min c0 c1 := by
    rcases min_max_cases c0 c1 with ⟨e, _⟩ | ⟨e, _⟩ <;> rw [e] <;> assumption
  have hmax : t ≠ max c0 c1 := by
    rcases min_max_cases c0 c1 with ⟨_, e⟩ | ⟨_, e⟩ <;> rw [e] <;> assumption
  cases ut
  · exact sinv_rtof _ _ _ hmin hmax
  · exact sinv_toffoli _ _ _ hmin hmax

/-- a list of involutions followed by its reverse is the identity. -/
theorem runS_palindrome (l : List CGate) (h : ∀ g, g ∈ l → SInv g) :
    ∀ sb : Bool × Lab, runS (l ++ l.reverse) sb = sb := by
  induction l with
  | nil => intro sb; rfl
  | cons g l ih =>
    intro sb
    have e : (g :: l) ++ (g :: l).reverse = g :: ((l ++ l.reverse) ++ [g]) := by
      rw [List.reverse_cons, List.cons_append, List.append_assoc]
    rw [e, runS_cons, runS_append, ih (fun g' hg' => h g' (List.mem_cons_of_mem _ hg')),
      runS_singleton]
    exact h g List.mem_cons_self sb

theorem halfV_reverse (G : Nat → CGate) (k : Nat) : (halfV G k).reverse = halfV G k := by
  unfold halfV
  rw [List.reverse_append, List.reverse_append, List.reverse_reverse, List.reverse_singleton,
    List.append_assoc]

theorem mem_halfV (G : Nat → CGate) (k : Nat) (g : CGate) (h : g ∈ halfV G k) :
    ∃ j, j ≤ k ∧ g = G j := by
  unfold halfV at h
  simp only [List.mem_append, List.mem_map, List.mem_range, List.mem_singleton,
    List.mem_reverse] at h
  rcases h with (⟨i, _, e⟩ | e) | ⟨i, _, e⟩
  · exact ⟨k - i, Nat.sub_le _ _, e.symm⟩
  · exact ⟨0, Nat.zero_le _, e⟩
  · exact ⟨k - i, Nat.sub_le _ _, e.symm⟩

/-- the V-shaped chain of involutions run twice is the identity on signed basis states. -/
theorem halfV_twice (G : Nat → CGate) (k : Nat) (h : ∀ j, j ≤ k → SInv (G j))
    (sb : Bool × Lab) : runS (halfV G k) (runS (halfV G k) sb) = sb := by
  have hp := runS_palindrome (halfV G k)
    (fun g hg => by obtain ⟨j, hj, rfl⟩ := mem_halfV G k g hg; exact h j hj) sb
  rwa [halfV_reverse, runS_append] at hp

/-! ### locality -/

/-- the qubits a gate reads or writes. -/
def CGate.qubits : CGate → List Nat
  | .x t => [t]
  | .cnot c t => [c, t]
  | .toffoli c0 c1 t => [c0, c1, t]
  | .rtof c0 c1 t => [c0, c1, t]

theorem CGate.apply_set_of_not_mem (g : CGate) (q : Nat) (v : Bool) (b : Lab)
    (h : q ∉ g.qubits) : g.apply (b.set q v) = (g.apply b).set q v := by
  cases g with
  | x t =>
    simp only [CGate.qubits, List.mem_singleton] at h
    have ht : t ≠ q := Ne.symm h
    simp only [CGate.apply, Lab.cset_other _ _ _ _ ht]
    exact (Lab.set_comm _ _ _ _ _ ht).symm
  | cnot c t =>
    simp only [CGate.qubits, List.mem_cons, List.not_mem_nil, or_false, not_or] at h
    have hc : c ≠ q := Ne.symm h.1
    have ht : t ≠ q := Ne.symm h.2
    simp only [CGate.apply, Lab.cset_other _ _ _ _ ht, Lab.cset_other _ _ _ _ hc]
    exact (Lab.set_comm _ _ _ _ _ ht).symm
  | toffoli c0 c1 t =>
    simp only [CGate.qubits, List.mem_cons, List.not_mem_nil, or_false, not_or] at h
    have hc0 : c0 ≠ q := Ne.symm h.1
    have hc1 : c1 ≠ q := Ne.symm h.2.1
    have ht : t ≠ q := Ne.symm h.2.2
    simp only [CGate.apply, Lab.cset_other _ _ _ _ ht, Lab.cset_other _ _ _ _ hc0,
      Lab.cset_other _ _ _ _ hc1]
    exact (Lab.set_comm _ _ _ _ _ ht).symm
  | rtof c0 c1 t =>
    simp only [CGate.qubits, List.mem_cons, List.not_mem_nil, or_false, not_or] at h
    have hc0 : c0 ≠ q := Ne.symm h.1
    have hc1 : c1 ≠ q := Ne.symm h.2.1
    have ht : t ≠ q := Ne.symm h.2.2
    simp only [CGate.apply, Lab.cset_other _ _ _ _ ht, Lab.cset_other _ _ _ _ hc0,
      Lab.cset_other _ _ _ _ hc1]
    exact (Lab.set_comm _ _ _ _ _ ht).symm

theorem CGate.sign_set_of_not_mem (g : CGate) (q : Nat) (v : Bool) (b : Lab)
    (h : q ∉ g.qubits) : g.sign (b.set q v) = g.sign b := by
  cases g with
  | x t => rfl
  | cnot c t => rfl
  | toffoli c0 c1 t => rfl
  | rtof c0 c1 t =>
    simp only [CGate.qubits, List.mem_cons, List.not_mem_nil, or_false, not_or] at h
    have hc0 : c0 ≠ q := Ne.symm h.1
    have hc1 : c1 ≠ q := Ne.symm h.2.1
    have ht : t ≠ q := Ne.symm h.2.2
    simp only [CGate.sign, Lab.cset_other _ _ _ _ ht, Lab.cset_other _ _ _ _ hc0,
      Lab.cset_other _ _ _ _ hc1]

/-- a gate list that does not touch qubit `q` commutes with overwriting `q`. -/
theorem runS_set_of_not_mem (gs : List CGate) (q : Nat) (v : Bool)
    (h : ∀ g, g ∈ gs → q ∉ g.qubits) : ∀ (s : Bool) (b : Lab),
    runS gs (s, b.set q v) = ((runS gs (s, b)).1, ((runS gs (s, b)).2).set q v) := by
  induction gs with
  | nil => intro s b; rfl
  | cons g gs ih =>
    intro s b
    have hg := h g List.mem_cons_self
    rw [runS_cons, runS_cons]
    have e : sstep g (s, b.set q v) = (xor s (g.sign b), (g.apply b).set q v) := by
      show (xor s (g.sign (b.set q v)), g.apply (b.set q v)) = _
      rw [CGate.sign_set_of_not_mem g q v b hg, CGate.apply_set_of_not_mem g q v b hg]
    rw [e, ih (fun g' hg' => h g' (List.mem_cons_of_mem _ hg'))]
    rfl

theorem not_mem_qubits_congruent (ut : Bool) (c0 c1 t q : Nat) (h0 : q ≠ c0) (h1 : q ≠ c1)
    (ht : q ≠ t) : q ∉ (congruent ut c0 c1 t).qubits := by
  have hmin : q ≠ min c0 c1 := by
    rcases min_max_cases c0 c1 with ⟨e, _⟩ | ⟨e, _⟩ <;> rw [e] <;> assumption
  have hmax : q ≠ max c0 c1 := by
    rcases min_max_cases c0 c1 with ⟨_, e⟩ | ⟨_, e⟩ <;> rw [e] <;> assumption
  cases ut <;>
    simp only [congruent, tof, CGate.qubits, List.mem_cons, List.not_mem_nil, or_false, not_or,
      if_true, if_false, Bool.false_eq_true] <;>
    exact ⟨hmin, hmax, ht⟩

/-! ### sign-preserving gate lists -/

/-- running `gs` never changes the sign bit. -/
def SignPres (gs : List CGate) : Prop := ∀ (s : Bool) (b : Lab), (runS gs (s, b)).1 = s

theorem SignPres.append {p q : List CGate} (hp : SignPres p) (hq : SignPres q) :
    SignPres (p ++ q) := by
  intro s b
  rw [runS_append]
  have e : runS p (s, b) = (s, (runS p (s, b)).2) := Prod.ext (hp s b) rfl
  rw [e]
  exact hq s _

theorem signPres_singleton (g : CGate) (h : ∀ b, g.sign b = false) : SignPres [g] := by
  intro s b
  show xor s (g.sign b) = s
  rw [h b, Bool.xor_false]

theorem sign_tof (c0 c1 t : Nat) (b : Lab) : (tof c0 c1 t).sign b = false := rfl

theorem sign_mcxSmall (cs : List Nat) (t : Nat) (b : Lab) : (mcxSmall cs t).sign b = false := by
  match cs with
  | [] => rfl
  | [c] => rfl
  | c0 :: c1 :: _ => rfl

/-- `F · V · F · V` keeps the sign when `F` is sign-free and writes only `t`, no gate of `V`
    touches `t`, and `V` run twice is the identity. -/
theorem signPres_FVFV (F : CGate) (V : List CGate) (t : Nat)
    (hFs : ∀ b, F.sign b = false) (hFa : ∀ b : Lab, ∃ u, F.apply b = b.set t u)
    (hVt : ∀ g, g ∈ V → t ∉ g.qubits) (hVV : ∀ sb, runS V (runS V sb) = sb) :
    SignPres ((F :: V) ++ (F :: V)) := by
  intro s b
  rw [runS_append, runS_cons, runS_cons]
  obtain ⟨u, hu⟩ := hFa b
  have e1 : sstep F (s, b) = (s, b.set t u) := by
    show (xor s (F.sign b), F.apply b) = _
    rw [hFs b, Bool.xor_false, hu]
  rw [e1, runS_set_of_not_mem V t u hVt s b]
  obtain ⟨u', hu'⟩ := hFa (((runS V (s, b)).2).set t u)
  have e2 : sstep F ((runS V (s, b)).1, ((runS V (s, b)).2).set t u)
      = ((runS V (s, b)).1, ((runS V (s, b)).2).set t u') := by
    show (xor (runS V (s, b)).1 (F.sign _), F.apply _) = _
    rw [hFs, Bool.xor_false, hu', Lab.set_set_same]
  rw [e2, runS_set_of_not_mem V t u' hVt]
  show (runS V ((runS V (s, b)).1, (runS V (s, b)).2)).1 = s
  have e3 : ((runS V (s, b)).1, (runS V (s, b)).2) = runS V (s, b) := rfl
  rw [e3, hVV]

/-! ### the ladder of the model -/

/-- every gate of the V-shaped part of the ladder is a congruent Toffoli whose target differs
    from its controls and that does not touch the target `t` of the multi-controlled X. -/
theorem ladderG_shape (ut : Bool) (cs : List Nat) (t : Nat) (fs : List Nat) (k : Nat)
    (hk : cs.length = k + 3) (hfl : k + 1 ≤ fs.length) (hn : (cs ++ t :: fs).Nodup)
    (j : Nat) (hj : j ≤ k) :
    ∃ x y z, ladderG ut cs t fs k j = congruent ut x y z ∧ z ≠ x ∧ z ≠ y ∧
      t ≠ x ∧ t ≠ y ∧ t ≠ z := by
  rw [List.nodup_append] at hn
  obtain ⟨hcs, htfs, hdis⟩ := hn
  rw [List.nodup_cons] at htfs
  obtain ⟨htf, hfs⟩ := htfs
  have hcf : ∀ x, x ∈ cs → ∀ y, y ∈ fs → y ≠ x := by
    intro x hx y hy e
    exact hdis x hx y (List.mem_cons_of_mem _ hy) e.symm
  have hct : ∀ x, x ∈ cs → t ≠ x := by
    intro x hx e
    exact hdis x hx t List.mem_cons_self e.symm
  have hft : ∀ y, y ∈ fs → t ≠ y := by
    intro y hy e
    exact htf (e ▸ hy)
  by_cases h0 : j = 0
  · subst h0
    refine ⟨cs.getD 0 0, cs.getD 1 0, fs.getD 0 0, by simp [ladderG], ?_, ?_, ?_, ?_, ?_⟩
    · exact hcf _ (getD_mem cs 0 (by omega)) _ (getD_mem fs 0 (by omega))
    · exact hcf _ (getD_mem cs 1 (by omega)) _ (getD_mem fs 0 (by omega))
    · exact hct _ (getD_mem cs 0 (by omega))
    · exact hct _ (getD_mem cs 1 (by omega))
    · exact hft _ (getD_mem fs 0 (by omega))
  · refine ⟨cs.getD (j + 1) 0, fs.getD (j - 1) 0, fs.getD j 0, by simp [ladderG, h0, hj],
      ?_, ?_, ?_, ?_, ?_⟩
    · exact hcf _ (getD_mem cs (j + 1) (by omega)) _ (getD_mem fs j (by omega))
    · exact (getD_ne_of_nodup fs hfs (j - 1) j (by omega) (by omega)).symm
    · exact hct _ (getD_mem cs (j + 1) (by omega))
    · exact hft _ (getD_mem fs (j - 1) (by omega))
    · exact hft _ (getD_mem fs j (by omega))

/-- the doubled ladder keeps the sign. -/
theorem ladder_signPres (ut : Bool) (cs : List Nat) (t : Nat) (fs : List Nat)
    (hm : 3 ≤ cs.length) (hf : cs.length - 2 ≤ fs.length) (hn : (cs ++ t :: fs).Nodup) :
    SignPres (ladderHalf ut cs t fs ++ ladderHalf ut cs t fs) := by
  obtain ⟨k, hk⟩ : ∃ k, cs.length = k + 3 := ⟨cs.length - 3, by omega⟩
  have hfl : k + 1 ≤ fs.length := by omega
  rw [ladderHalf_eq ut cs t fs k hk]
  have hF : ladderG ut cs t fs k (k + 1) = tof (cs.getD (k + 2) 0) (fs.getD k 0) t := by
    simp [ladderG]
  rw [hF]
  apply signPres_FVFV _ _ t (sign_tof _ _ _)
  · intro b
    exact ⟨_, tofLike_toffoli _ _ _ b⟩
  · intro g hg
    obtain ⟨j, hj, rfl⟩ := mem_halfV _ _ _ hg
    obtain ⟨x, y, z, e, _, _, h3, h4, h5⟩ := ladderG_shape ut cs t fs k hk hfl hn j hj
    rw [e]
    exact not_mem_qubits_congruent ut x y z t h3 h4 h5
  · apply halfV_twice
    intro j hj
    obtain ⟨x, y, z, e, h1, h2, _⟩ := ladderG_shape ut cs t fs k hk hfl hn j hj
    rw [e]
    exact sinv_congruent ut x y z h1 h2

/-- the doubled ladder of the model meets the specification, signs included. -/
theorem ladder_spec_signed (ut : Bool) (cs : List Nat) (t : Nat) (fs : List Nat)
    (hm : 3 ≤ cs.length) (hf : cs.length - 2 ≤ fs.length) (hn : (cs ++ t :: fs).Nodup)
    (s : Bool) (b : Lab) :
    runS (ladderHalf ut cs t fs ++ ladderHalf ut cs t fs) (s, b) = (s, mcxSpec cs t b) := by
  refine Prod.ext (ladder_signPres ut cs t fs hm hf hn s b) ?_
  rw [runS_snd]
  exact ladder_spec ut cs t fs hm hf hn b

/-! ### the recursion -/

/-- every gate list returned by the model of `X.decompose` keeps the sign. -/
theorem xDecompose_signPres (ut : Bool) : ∀ (fuel : Nat) (cs : List Nat) (t : Nat) (fs : List Nat)
    (gs : List CGate), (cs ++ t :: fs).Nodup → xDecompose ut fuel cs t fs = .ok gs →
    SignPres gs := by
  intro fuel
  induction fuel with
  | zero => intro cs t fs gs _ h; simp [xDecompose] at h
  | succ fuel ih =>
    intro cs t fs gs hn h
    rw [xDecompose] at h
    dsimp only at h
    split_ifs at h with h12 hv hm hl hf
    · injection h with h; subst h
      exact signPres_singleton _ (sign_mcxSmall cs t)
    · injection h with h; subst h
      exact signPres_singleton _ (sign_mcxSmall cs t)
    · injection h with h; subst h
      exact ladder_signPres ut cs t fs (by omega) (by omega) hn
    · obtain ⟨f0, fs', rfl⟩ : ∃ f0 fs', fs = f0 :: fs' := by
        cases fs with
        | nil => simp at hf
        | cons f0 fs' => exact ⟨f0, fs', rfl⟩
      simp only [List.getD_cons_zero, List.drop_one, List.tail_cons, List.length_cons] at h
      obtain ⟨n1, n2, _⟩ := nodup_parts cs t f0 fs' ((cs.length + 1 + (fs'.length + 1)) / 2) hn
      cases h1 : xDecompose ut fuel (srt (List.take ((cs.length + 1 + (fs'.length + 1)) / 2) cs)) f0
          (List.drop ((cs.length + 1 + (fs'.length + 1)) / 2) cs ++ [t] ++ fs') with
      | ok p1 =>
        rw [h1] at h
        simp only at h
        cases h2 : xDecompose ut fuel (srt (List.drop ((cs.length + 1 + (fs'.length + 1)) / 2) cs ++ [f0])) t
            (List.take ((cs.length + 1 + (fs'.length + 1)) / 2) cs ++ fs') with
        | ok p2 =>
          rw [h2] at h
          simp only at h
          injection h with h; subst h
          have s1 := ih _ _ _ _ ((nodup_srt_append _ _).2 n1) h1
          have s2 := ih _ _ _ _ ((nodup_srt_append _ _).2 n2) h2
          exact (s1.append s2).append (s1.append s2)
        | valueError => rw [h2] at h; simp at h
        | notImplemented => rw [h2] at h; simp at h
        | outOfFuel => rw [h2] at h; simp at h
      | valueError => rw [h1] at h; simp at h
      | notImplemented => rw [h1] at h; simp at h
      | outOfFuel => rw [h1] at h; simp at h

/-- **main theorem, signs included**: whenever the model of `X.decompose` returns a gate list,
    running it maps the signed basis state `(-1)^s |b⟩` to `(-1)^s |b[t := b t xor AND(cs)]⟩`. -/
theorem xDecompose_spec_signed (ut : Bool) (fuel : Nat) (cs : List Nat) (t : Nat) (fs : List Nat)
    (gs : List CGate) (hn : (cs ++ t :: fs).Nodup) (h : xDecompose ut fuel cs t fs = .ok gs)
    (s : Bool) (b : Lab) : runS gs (s, b) = (s, mcxSpec cs t b) := by
  refine Prod.ext (xDecompose_signPres ut fuel cs t fs gs hn h s b) ?_
  rw [runS_snd]
  exact xDecompose_spec ut fuel cs t fs gs hn h b

end QV
