/-
  QV.Proofs.Unroller — lemmas about the dispatch model of QV/Model/Unroller.lean:
  sequencing (`flatMapM`), closure of the tables ⇒ only native classes are emitted,
  classes outside every table ⇒ error, equality up to a phase lifts from table entries
  to gates and circuits, translation commutes with qubit relabelling.
-/
import Mathlib.Algebra.Group.Submonoid.Defs
import Mathlib.Algebra.Ring.Defs
import QV.Model.Unroller
import QV.Model.CircuitOps
import QV.Proofs.SimLemmas

namespace QV.Unroll

/-! ### `flatMapM` -/

theorem flatMapM_nil {α β : Type} (f : α → Option (List β)) : flatMapM f [] = some [] := rfl

theorem flatMapM_cons_some {α β : Type} {f : α → Option (List β)} {x : α} {xs : List α}
    {out : List β} (h : flatMapM f (x :: xs) = some out) :
    ∃ a b, f x = some a ∧ flatMapM f xs = some b ∧ out = a ++ b := by
  simp only [flatMapM] at h
  cases hx : f x with
  | none => simp [hx] at h
  | some a =>
    cases hxs : flatMapM f xs with
    | none => simp [hx, hxs] at h
    | some b =>
      simp [hx, hxs] at h
      exact ⟨a, b, rfl, rfl, h.symm⟩

/-- a property of all pieces is a property of the concatenation. -/
theorem flatMapM_forall {α β : Type} {f : α → Option (List β)} (P : β → Prop) :
    ∀ {l : List α} {out : List β},
      (∀ x ∈ l, ∀ p, f x = some p → ∀ y ∈ p, P y) → flatMapM f l = some out → ∀ y ∈ out, P y
  | [], out, _, h => by
      simp [flatMapM] at h; subst h; intro y hy; simp at hy
  | x :: xs, out, hp, h => by
      obtain ⟨a, b, ha, hb, rfl⟩ := flatMapM_cons_some h
      intro y hy
      rcases List.mem_append.1 hy with hy | hy
      · exact hp x (List.mem_cons_self ..) a ha y hy
      · exact flatMapM_forall P (fun x' hx' => hp x' (List.mem_cons_of_mem _ hx')) hb y hy

theorem flatMapM_none_of_mem {α β : Type} {f : α → Option (List β)} :
    ∀ {l : List α} {x : α}, x ∈ l → f x = none → flatMapM f l = none
  | y :: ys, x, hx, hf => by
      rcases List.mem_cons.1 hx with rfl | hx
      · simp [flatMapM, hf]
      · simp only [flatMapM]
        cases f y with
        | none => rfl
        | some a => simp [flatMapM_none_of_mem hx hf]

theorem flatMapM_congr {α β : Type} {f g : α → Option (List β)} :
    ∀ {l : List α}, (∀ x ∈ l, f x = g x) → flatMapM f l = flatMapM g l
  | [], _ => rfl
  | x :: xs, h => by
      simp only [flatMapM, h x (List.mem_cons_self ..),
        flatMapM_congr (fun y hy => h y (List.mem_cons_of_mem _ hy))]

theorem flatMapM_map {α β γ δ : Type} (f : α → Option (List β)) (f' : γ → Option (List δ))
    (u : α → γ) (v : β → δ) (h : ∀ x, f' (u x) = (f x).map (List.map v)) :
    ∀ l : List α, flatMapM f' (l.map u) = (flatMapM f l).map (List.map v)
  | [] => rfl
  | x :: xs => by
      simp only [List.map_cons, flatMapM, h x, flatMapM_map f f' u v h xs]
      cases f x with
      | none => rfl
      | some a =>
        cases flatMapM f xs with
        | none => rfl
        | some b => simp

/-! ### tables: placing a template keeps class, tag, flag and arity -/

theorem mapM_option_length {α β : Type} {f : α → Option β} :
    ∀ {l : List α} {out : List β}, l.mapM f = some out → out.length = l.length
  | [], out, h => by simp at h; subst h; rfl
  | x :: xs, out, h => by
      rw [List.mapM_cons] at h
      cases hx : f x with
      | none => simp [hx] at h
      | some a =>
        cases hxs : xs.mapM f with
        | none => simp [hx, hxs] at h
        | some b =>
          simp [hx, hxs] at h
          subst h
          simp [mapM_option_length hxs]

theorem mapM_option_mem {α β : Type} {f : α → Option β} :
    ∀ {l : List α} {out : List β}, l.mapM f = some out → ∀ y ∈ out, ∃ x ∈ l, f x = some y
  | [], out, h => by simp at h; subst h; intro y hy; simp at hy
  | x :: xs, out, h => by
      rw [List.mapM_cons] at h
      cases hx : f x with
      | none => simp [hx] at h
      | some a =>
        cases hxs : xs.mapM f with
        | none => simp [hx, hxs] at h
        | some b =>
          simp [hx, hxs] at h
          subst h
          intro y hy
          rcases List.mem_cons.1 hy with rfl | hy
          · exact ⟨x, List.mem_cons_self .., hx⟩
          · obtain ⟨x', hx', hf⟩ := mapM_option_mem hxs y hy
            exact ⟨x', List.mem_cons_of_mem _ hx', hf⟩

theorem place_some {qs : List Nat} {x y : UGate} (h : place qs x = some y) :
    y.cls = x.cls ∧ y.tag = x.tag ∧ y.cb = x.cb ∧ y.qubits.length = x.qubits.length := by
  unfold place at h
  cases hq : x.qubits.mapM (fun i => qs[i]?) with
  | none => simp [hq] at h
  | some q =>
    simp [hq] at h
    subst h
    exact ⟨rfl, rfl, rfl, mapM_option_length hq⟩

/-- what `Table.call` returns for a plain gate: placed copies of one table row. -/
theorem call_some {t : Table} {g : UGate} {out : List UGate} (hcb : g.cb = false)
    (h : t.call g = some out) :
    ∃ d, t.has g.cls = true ∧ t.entry g.cls g.tag = some d ∧
      ∀ y ∈ out, ∃ x ∈ d, y.cls = x.cls ∧ y.cb = x.cb ∧ y.qubits.length = x.qubits.length := by
  unfold Table.call at h
  simp only [hcb] at h
  cases hc : t.check g with
  | none => simp [hc] at h
  | some d =>
    simp [hc] at h
    unfold Table.check at hc
    by_cases hh : t.has g.cls = true
    · simp only [hh, if_true] at hc
      refine ⟨d, hh, hc, fun y hy => ?_⟩
      obtain ⟨x, hx, hp⟩ := mapM_option_mem h y hy
      have := place_some hp
      exact ⟨x, hx, this.1, this.2.2.1, this.2.2.2⟩
    · simp [hh] at hc

theorem call_none_of_not_has {t : Table} {g : UGate} (hcb : g.cb = false)
    (h : t.has g.cls = false) : t.call g = none := by
  simp [Table.call, Table.check, hcb, h]

/-! ### closure ⇒ only native classes -/

/-- the two-qubit tables whose rows are emitted directly under `nat`. -/
def directTables (T : Tables) (nat : Natives) : List Table :=
  if nat.testBit cCZ && nat.testBit ciSWAP then [T.opt, T.cz, T.iswap]
  else if nat.testBit cCZ then [T.cz]
  else if nat.testBit ciSWAP then [T.iswap]
  else if nat.testBit cCNOT then [T.cnot]
  else []

/-- closure property of the tables with respect to a native set:
    rows of the one-qubit table in use only contain native classes; rows of the directly
    emitted two-qubit tables contain plain one-qubit gates (re-translated afterwards) and
    native classes. -/
structure Closed (T : Tables) (nat : Natives) : Prop where
  single : ∀ S, singleTable T nat = some S → ∀ c t d, S.entry c t = some d →
      ∀ x ∈ d, isNative nat x.cls = true
  direct : ∀ t ∈ directTables T nat, ∀ c tg d, t.entry c tg = some d →
      ∀ x ∈ d, (x.qubits.length = 1 ∧ x.cb = false) ∨ isNative nat x.cls = true

theorem single_native {T : Tables} {nat : Natives} (hC : Closed T nat) {g : UGate}
    {out : List UGate} (hg : g.cb = true → isNative nat g.cls = true)
    (h : single T nat g = some out) : ∀ y ∈ out, isNative nat y.cls = true := by
  unfold single at h
  have key : ∀ S, singleTable T nat = some S → S.call g = some out →
      ∀ y ∈ out, isNative nat y.cls = true := by
    intro S hS hc
    by_cases hcb : g.cb = true
    · simp [Table.call, hcb] at hc
      subst hc
      intro y hy
      simp at hy
      subst hy
      exact hg hcb
    · have hcb' : g.cb = false := by simpa using hcb
      obtain ⟨d, _, hd, hall⟩ := call_some hcb' hc
      intro y hy
      obtain ⟨x, hx, hcls, _, _⟩ := hall y hy
      rw [hcls]
      exact hC.single S hS _ _ d hd x hx
  by_cases h3 : nat.testBit cU3 = true
  · simp only [h3, if_true] at h
    exact key T.u3 (by simp [singleTable, h3]) h
  · simp only [h3] at h
    by_cases h2 : nat.testBit cGPI2 = true
    · simp only [h2, if_true] at h
      exact key T.gpi2 (by simp [singleTable, h3, h2]) h
    · simp [h2] at h

/-- a direct call of a closed two-qubit table yields plain 1-qubit gates and natives. -/
theorem direct_call {T : Tables} {nat : Natives} (hC : Closed T nat) {t : Table}
    (ht : t ∈ directTables T nat) {g : UGate} (hcb : g.cb = false) {out : List UGate}
    (h : t.call g = some out) :
    ∀ y ∈ out, (y.qubits.length = 1 ∧ y.cb = false) ∨ isNative nat y.cls = true := by
  obtain ⟨d, _, hd, hall⟩ := call_some hcb h
  intro y hy
  obtain ⟨x, hx, hcls, hcbx, hlen⟩ := hall y hy
  rcases hC.direct t ht _ _ d hd x hx with ⟨h1, h2⟩ | h1
  · exact Or.inl ⟨by rw [hlen]; exact h1, by rw [hcbx]; exact h2⟩
  · exact Or.inr (by rw [hcls]; exact h1)

/-- good intermediate lists: every gate is a plain one-qubit gate or of a native class. -/
def Mid (nat : Natives) (y : UGate) : Prop :=
  (y.qubits.length = 1 ∧ y.cb = false) ∨ isNative nat y.cls = true

theorem twoQ_mid {T : Tables} {nat : Natives} (hC : Closed T nat)
    {rec : UGate → Option (List UGate)}
    (hrec : ∀ g out, rec g = some out → ∀ y ∈ out, isNative nat y.cls = true)
    {g : UGate} (hcb : g.cb = false) {out : List UGate} (h : twoQ T nat rec g = some out) :
    ∀ y ∈ out, Mid nat y := by
  unfold twoQ at h
  by_cases hb : (nat.testBit cCZ && nat.testBit ciSWAP) = true
  · have hdt : directTables T nat = [T.opt, T.cz, T.iswap] := by simp [directTables, hb]
    have mo : T.opt ∈ directTables T nat := by simp [hdt]
    have mc : T.cz ∈ directTables T nat := by simp [hdt]
    have mi : T.iswap ∈ directTables T nat := by simp [hdt]
    rw [if_pos hb] at h
    split at h
    · exact direct_call hC mo hcb h
    · split at h
      · exact direct_call hC mc hcb h
      · cases hc : T.cz.count2q g with
        | none => simp [hc] at h
        | some c =>
          cases hi : T.iswap.count2q g with
          | none => simp [hc, hi] at h
          | some i =>
            simp only [hc, hi, Option.bind_eq_bind, Option.bind_some] at h
            split at h
            · exact direct_call hC mc hcb h
            · split at h
              · exact direct_call hC mi hcb h
              · cases hc1 : T.cz.count1q g with
                | none => simp [hc1] at h
                | some c1 =>
                  cases hi1 : T.iswap.count1q g with
                  | none => simp [hc1, hi1] at h
                  | some i1 =>
                    simp only [hc1, hi1, Option.bind_some] at h
                    split at h
                    · exact direct_call hC mc hcb h
                    · exact direct_call hC mi hcb h
  · rw [if_neg hb] at h
    by_cases hz : nat.testBit cCZ = true
    · have hi : nat.testBit ciSWAP = false := by
        cases hh : nat.testBit ciSWAP with
        | false => rfl
        | true => simp [hz, hh] at hb
      have mc : T.cz ∈ directTables T nat := by simp [directTables, hz, hi]
      rw [if_pos hz] at h
      exact direct_call hC mc hcb h
    · rw [if_neg hz] at h
      by_cases hi : nat.testBit ciSWAP = true
      · have mi : T.iswap ∈ directTables T nat := by simp [directTables, hz, hi]
        rw [if_pos hi] at h
        split at h
        · exact direct_call hC mi hcb h
        · cases hd : T.cz.call g with
          | none => simp [hd] at h
          | some d =>
            simp only [hd, Option.bind_eq_bind, Option.bind_some] at h
            have := flatMapM_forall (fun y => isNative nat y.cls = true)
              (fun x _ p hp => hrec x p hp) h
            exact fun y hy => Or.inr (this y hy)
      · rw [if_neg hi] at h
        by_cases hn : nat.testBit cCNOT = true
        · have mn : T.cnot ∈ directTables T nat := by simp [directTables, hz, hi, hn]
          rw [if_pos hn] at h
          exact direct_call hC mn hcb h
        · rw [if_neg hn] at h
          simp at h

theorem retranslate_native {T : Tables} {nat : Natives} (hC : Closed T nat) {x : UGate}
    (hx : Mid nat x) {p : List UGate} (h : retranslate T nat x = some p) :
    ∀ y ∈ p, isNative nat y.cls = true := by
  unfold retranslate at h
  by_cases h1 : x.qubits.length = 1
  · simp only [h1, if_true] at h
    refine single_native hC (fun hcb => ?_) h
    rcases hx with ⟨_, h2⟩ | h2
    · simp [h2] at hcb
    · exact h2
  · simp only [h1, if_false] at h
    rcases hx with ⟨h2, _⟩ | h2
    · exact absurd h2 h1
    · simp at h
      subst h
      intro y hy
      simp at hy
      subst hy
      exact h2

/-- main induction (over the recursion depth): every emitted gate is of a native class,
    except that a pass-through gate (`I`, `Align`, `M`) is returned as it is. -/
theorem translateAux_native {T : Tables} {nat : Natives} (hC : Closed T nat) :
    ∀ (fuel : Nat) (lo : Bool) (g : UGate) (out : List UGate),
      translateAux T nat fuel lo g = some out →
      (∀ y ∈ out, isNative nat y.cls = true) ∨ (lo = false ∧ passThrough g.cls = true ∧ out = [g])
  | 0, _, _, _, h => by simp [translateAux] at h
  | fuel + 1, lo, g, out, h => by
    unfold translateAux at h
    by_cases hp : passThrough g.cls = true
    · rw [if_pos hp] at h
      cases lo with
      | true => simp at h
      | false =>
        simp at h
        exact Or.inr ⟨rfl, hp, h.symm⟩
    · rw [if_neg hp] at h
      by_cases hcb : g.cb = true
      · rw [if_pos hcb] at h
        cases h
      · have hcb' : g.cb = false := by simpa using hcb
        rw [if_neg hcb] at h
        by_cases h1 : g.qubits.length = 1
        · rw [if_pos h1] at h
          exact Or.inl (single_native hC (fun hh => by simp [hcb'] at hh) h)
        · rw [if_neg h1] at h
          cases hd : twoQ T nat (translateAux T nat fuel true) g with
          | none => simp [hd] at h
          | some d =>
            simp only [hd, Option.bind_eq_bind, Option.bind_some] at h
            have hrec : ∀ g' out', translateAux T nat fuel true g' = some out' →
                ∀ y ∈ out', isNative nat y.cls = true := by
              intro g' out' h'
              rcases translateAux_native hC fuel true g' out' h' with h'' | ⟨h'', _⟩
              · exact h''
              · cases h''
            have hmid := twoQ_mid hC hrec hcb' hd
            exact Or.inl (flatMapM_forall (fun y => isNative nat y.cls = true)
              (fun x hx p hp => retranslate_native hC (hmid x hx) hp) h)

/-! ### classes outside every table -/

/-- the class of `g` is not a key of any translation table. -/
def Unknown (T : Tables) (g : UGate) : Prop :=
  T.gpi2.has g.cls = false ∧ T.u3.has g.cls = false ∧ T.cz.has g.cls = false ∧
  T.iswap.has g.cls = false ∧ T.opt.has g.cls = false ∧ T.cnot.has g.cls = false

theorem translateAux_unknown {T : Tables} {nat : Natives} {g : UGate} (hu : Unknown T g)
    (hp : passThrough g.cls = false) : ∀ (fuel : Nat) (lo : Bool),
    translateAux T nat fuel lo g = none
  | 0, _ => rfl
  | fuel + 1, lo => by
    obtain ⟨h1, h2, h3, h4, h5, h6⟩ := hu
    unfold translateAux
    simp only [hp]
    by_cases hcb : g.cb = true
    · simp [hcb]
    · have hcb' : g.cb = false := by simpa using hcb
      have c1 := call_none_of_not_has (t := T.gpi2) hcb' h1
      have c2 := call_none_of_not_has (t := T.u3) hcb' h2
      have c3 := call_none_of_not_has (t := T.cz) hcb' h3
      have c4 := call_none_of_not_has (t := T.iswap) hcb' h4
      have c6 := call_none_of_not_has (t := T.cnot) hcb' h6
      have hs : single T nat g = none := by
        unfold single; split
        · exact c2
        · split
          · exact c1
          · rfl
      have ht : twoQ T nat (translateAux T nat fuel true) g = none := by
        unfold twoQ
        simp only [h5, h4, c3, c4, c6]
        simp
      simp [hcb', hs, ht]

/-! ### equality up to a phase -/

section Phase
variable {α : Type} [CommSemiring α]

/-- two gate lists act in the same way up to a scalar of the submonoid `P`
    (`P` = the unit circle of ℂ in the application). -/
def PhaseEq (P : Submonoid α) (l₁ l₂ : List (MGate α)) : Prop :=
  ∃ c ∈ P, ∀ (ψ : Lab → α) (x : Lab), runCircuit l₁ ψ x = c * runCircuit l₂ ψ x

theorem PhaseEq.refl (P : Submonoid α) (l : List (MGate α)) : PhaseEq P l l :=
  ⟨1, P.one_mem, fun ψ x => by simp⟩

theorem PhaseEq.trans {P : Submonoid α} {l₁ l₂ l₃ : List (MGate α)}
    (h₁ : PhaseEq P l₁ l₂) (h₂ : PhaseEq P l₂ l₃) : PhaseEq P l₁ l₃ := by
  obtain ⟨c, hc, e₁⟩ := h₁
  obtain ⟨d, hd, e₂⟩ := h₂
  exact ⟨c * d, P.mul_mem hc hd, fun ψ x => by rw [e₁, e₂, mul_assoc]⟩

theorem PhaseEq.append {P : Submonoid α} {l₁ l₁' l₂ l₂' : List (MGate α)}
    (h₁ : PhaseEq P l₁ l₁') (h₂ : PhaseEq P l₂ l₂') : PhaseEq P (l₁ ++ l₂) (l₁' ++ l₂') := by
  obtain ⟨c, hc, e₁⟩ := h₁
  obtain ⟨d, hd, e₂⟩ := h₂
  refine ⟨d * c, P.mul_mem hd hc, fun ψ x => ?_⟩
  rw [runCircuit_append, runCircuit_append, e₂]
  have : runCircuit l₁ ψ = fun y => c * runCircuit l₁' ψ y := funext (e₁ ψ)
  rw [this, runCircuit_smul, mul_assoc]

/-- pieces equal up to phases ⇒ concatenation equal up to a phase. -/
theorem flatMapM_phase {P : Submonoid α} (sem : UGate → MGate α)
    {f : UGate → Option (List UGate)} :
    ∀ {l out : List UGate},
      (∀ x ∈ l, ∀ p, f x = some p → PhaseEq P (p.map sem) [sem x]) →
      flatMapM f l = some out → PhaseEq P (out.map sem) (l.map sem)
  | [], out, _, h => by
      simp [flatMapM] at h; subst h; exact PhaseEq.refl P _
  | x :: xs, out, hp, h => by
      obtain ⟨a, b, ha, hb, rfl⟩ := flatMapM_cons_some h
      have h1 := hp x (List.mem_cons_self ..) a ha
      have h2 := flatMapM_phase sem (fun x' hx' => hp x' (List.mem_cons_of_mem _ hx')) hb
      have := PhaseEq.append h1 h2
      simpa using this

/-- every call of every table reproduces the gate up to a phase (what the generated
    obligations `C10_entry_*` establish entry by entry on the real tables). -/
def TablesOK (P : Submonoid α) (sem : UGate → MGate α) (T : Tables) : Prop :=
  ∀ t ∈ [T.gpi2, T.u3, T.cz, T.iswap, T.opt, T.cnot], ∀ g d, Table.call t g = some d →
    PhaseEq P (d.map sem) [sem g]

theorem single_phase {P : Submonoid α} {sem : UGate → MGate α} {T : Tables} {nat : Natives}
    (hT : TablesOK P sem T) {g : UGate} {out : List UGate} (h : single T nat g = some out) :
    PhaseEq P (out.map sem) [sem g] := by
  unfold single at h
  split at h
  · exact hT T.u3 (by simp) g out h
  · split at h
    · exact hT T.gpi2 (by simp) g out h
    · simp at h

theorem twoQ_phase {P : Submonoid α} {sem : UGate → MGate α} {T : Tables} {nat : Natives}
    (hT : TablesOK P sem T) {rec : UGate → Option (List UGate)}
    (hrec : ∀ g out, rec g = some out → PhaseEq P (out.map sem) [sem g])
    {g : UGate} {out : List UGate} (h : twoQ T nat rec g = some out) :
    PhaseEq P (out.map sem) [sem g] := by
  have ho := hT T.opt (by simp) g out
  have hc := hT T.cz (by simp) g
  have hi := hT T.iswap (by simp) g out
  have hn := hT T.cnot (by simp) g out
  unfold twoQ at h
  split at h
  · split at h
    · exact ho h
    · split at h
      · exact hc out h
      · cases h1 : T.cz.count2q g with
        | none => simp [h1] at h
        | some c =>
          cases h2 : T.iswap.count2q g with
          | none => simp [h1, h2] at h
          | some i =>
            simp only [h1, h2, Option.bind_eq_bind, Option.bind_some] at h
            split at h
            · exact hc out h
            · split at h
              · exact hi h
              · cases h3 : T.cz.count1q g with
                | none => simp [h3] at h
                | some c1 =>
                  cases h4 : T.iswap.count1q g with
                  | none => simp [h3, h4] at h
                  | some i1 =>
                    simp only [h3, h4, Option.bind_some] at h
                    split at h
                    · exact hc out h
                    · exact hi h
  · split at h
    · exact hc out h
    · split at h
      · split at h
        · exact hi h
        · cases hd : T.cz.call g with
          | none => simp [hd] at h
          | some d =>
            simp only [hd, Option.bind_eq_bind, Option.bind_some] at h
            exact (flatMapM_phase sem (fun x _ p hp => hrec x p hp) h).trans (hc d hd)
      · split at h
        · exact hn h
        · simp at h

theorem translateAux_phase {P : Submonoid α} {sem : UGate → MGate α} {T : Tables}
    {nat : Natives} (hT : TablesOK P sem T) :
    ∀ (fuel : Nat) (lo : Bool) (g : UGate) (out : List UGate),
      translateAux T nat fuel lo g = some out → PhaseEq P (out.map sem) [sem g]
  | 0, _, _, _, h => by simp [translateAux] at h
  | fuel + 1, lo, g, out, h => by
    unfold translateAux at h
    split at h
    · split at h
      · simp at h
      · simp at h; subst h; exact PhaseEq.refl P _
    · split at h
      · simp at h
      · split at h
        · exact single_phase hT h
        · cases hd : twoQ T nat (translateAux T nat fuel true) g with
          | none => simp [hd] at h
          | some d =>
            simp only [hd, Option.bind_eq_bind, Option.bind_some] at h
            have h1 := twoQ_phase hT (translateAux_phase hT fuel true) hd
            have h2 := flatMapM_phase (P := P) sem (f := retranslate T nat) (l := d) (out := out)
              (fun x _ p hp => by
                unfold retranslate at hp
                split at hp
                · exact single_phase hT hp
                · simp at hp; subst hp; exact PhaseEq.refl P _) h
            exact h2.trans h1

end Phase

/-! ### relabelling (qubit placement) -/

theorem mapM_getElem?_map (σ : Nat → Nat) (qs : List Nat) :
    ∀ is : List Nat, is.mapM (fun i => (qs.map σ)[i]?) = (is.mapM (fun i => qs[i]?)).map (List.map σ)
  | [] => rfl
  | i :: is => by
      rw [List.mapM_cons, List.mapM_cons, mapM_getElem?_map σ qs is]
      simp only [List.getElem?_map]
      cases qs[i]? with
      | none => rfl
      | some a =>
        cases is.mapM (fun i => qs[i]?) with
        | none => rfl
        | some b => rfl

theorem place_relabel (σ : Nat → Nat) (qs : List Nat) (x : UGate) :
    place (qs.map σ) x = (place qs x).map (UGate.relabel σ) := by
  unfold place
  simp only [Option.bind_eq_bind, mapM_getElem?_map]
  cases x.qubits.mapM (fun i => qs[i]?) with
  | none => rfl
  | some q => rfl

theorem mapM_place_relabel (σ : Nat → Nat) (qs : List Nat) :
    ∀ d : List UGate, d.mapM (place (qs.map σ)) = (d.mapM (place qs)).map (List.map (UGate.relabel σ))
  | [] => rfl
  | x :: xs => by
      rw [List.mapM_cons, List.mapM_cons, mapM_place_relabel σ qs xs, place_relabel]
      cases place qs x with
      | none => rfl
      | some a =>
        cases xs.mapM (place qs) with
        | none => rfl
        | some b => rfl

theorem call_relabel (σ : Nat → Nat) (t : Table) (g : UGate) :
    t.call (g.relabel σ) = (t.call g).map (List.map (UGate.relabel σ)) := by
  unfold Table.call Table.check
  simp only [UGate.relabel]
  by_cases hcb : g.cb = true
  · simp [hcb, UGate.relabel]
  · simp only [hcb]
    by_cases hh : t.has g.cls = true
    · simp only [hh, if_true]
      cases t.entry g.cls g.tag with
      | none => rfl
      | some d => simpa using mapM_place_relabel σ g.qubits d
    · simp [hh]

theorem single_relabel (σ : Nat → Nat) (T : Tables) (nat : Natives) (g : UGate) :
    single T nat (g.relabel σ) = (single T nat g).map (List.map (UGate.relabel σ)) := by
  unfold single
  split
  · exact call_relabel σ _ g
  · split
    · exact call_relabel σ _ g
    · rfl

@[simp] theorem relabel_cls (σ : Nat → Nat) (g : UGate) : (g.relabel σ).cls = g.cls := rfl
@[simp] theorem relabel_cb (σ : Nat → Nat) (g : UGate) : (g.relabel σ).cb = g.cb := rfl
@[simp] theorem relabel_tag (σ : Nat → Nat) (g : UGate) : (g.relabel σ).tag = g.tag := rfl
@[simp] theorem relabel_arity (σ : Nat → Nat) (g : UGate) :
    (g.relabel σ).qubits.length = g.qubits.length := by simp [UGate.relabel]

theorem count2q_relabel (σ : Nat → Nat) (t : Table) (g : UGate) :
    t.count2q (g.relabel σ) = t.count2q g := rfl

theorem count1q_relabel (σ : Nat → Nat) (t : Table) (g : UGate) :
    t.count1q (g.relabel σ) = t.count1q g := rfl

theorem retranslate_relabel (σ : Nat → Nat) (T : Tables) (nat : Natives) (x : UGate) :
    retranslate T nat (x.relabel σ) = (retranslate T nat x).map (List.map (UGate.relabel σ)) := by
  unfold retranslate
  rw [relabel_arity]
  split
  · exact single_relabel σ T nat x
  · rfl

theorem bind_flatMapM_relabel (σ : Nat → Nat) (f : UGate → Option (List UGate))
    (hf : ∀ x, f (x.relabel σ) = (f x).map (List.map (UGate.relabel σ)))
    (o : Option (List UGate)) :
    (o.map (List.map (UGate.relabel σ))).bind (flatMapM f)
      = (o.bind (flatMapM f)).map (List.map (UGate.relabel σ)) := by
  cases o with
  | none => rfl
  | some d => exact flatMapM_map f f (UGate.relabel σ) (UGate.relabel σ) hf d

theorem twoQ_relabel (σ : Nat → Nat) (T : Tables) (nat : Natives)
    (rec : UGate → Option (List UGate))
    (hrec : ∀ x, rec (x.relabel σ) = (rec x).map (List.map (UGate.relabel σ))) (g : UGate) :
    twoQ T nat rec (g.relabel σ) = (twoQ T nat rec g).map (List.map (UGate.relabel σ)) := by
  unfold twoQ
  simp only [relabel_cls, count2q_relabel, count1q_relabel, call_relabel, Option.bind_eq_bind]
  split
  · split
    · rfl
    · split
      · rfl
      · cases T.cz.count2q g with
        | none => rfl
        | some c =>
          cases T.iswap.count2q g with
          | none => rfl
          | some i =>
            simp only [Option.bind_some]
            split
            · rfl
            · split
              · rfl
              · cases T.cz.count1q g with
                | none => rfl
                | some c1 =>
                  cases T.iswap.count1q g with
                  | none => rfl
                  | some i1 =>
                    simp only [Option.bind_some]
                    split <;> rfl
  · split
    · rfl
    · split
      · split
        · rfl
        · exact bind_flatMapM_relabel σ rec hrec _
      · split <;> rfl

/-- translation commutes with every relabelling of the qubits (no injectivity needed:
    the dispatch never looks at the qubit values, only at their number). -/
theorem translateAux_relabel (σ : Nat → Nat) (T : Tables) (nat : Natives) :
    ∀ (fuel : Nat) (lo : Bool) (g : UGate),
      translateAux T nat fuel lo (g.relabel σ)
        = (translateAux T nat fuel lo g).map (List.map (UGate.relabel σ))
  | 0, _, _ => rfl
  | fuel + 1, lo, g => by
    unfold translateAux
    simp only [relabel_cls, relabel_cb, relabel_arity]
    split
    · split <;> rfl
    · split
      · rfl
      · split
        · exact single_relabel σ T nat g
        · rw [twoQ_relabel σ T nat _ (translateAux_relabel σ T nat fuel true) g]
          exact bind_flatMapM_relabel σ _ (retranslate_relabel σ T nat) _

/-! ### finite tables: the closure property is decidable on the data -/

theorem toTable_entry_mem {d : TableData} {c t : Nat} {r : List UGate}
    (h : d.toTable.entry c t = some r) : (c, t, r) ∈ d.rows := by
  simp only [TableData.toTable, Option.map_eq_some_iff] at h
  obtain ⟨row, hf, hr⟩ := h
  have hm := List.mem_of_find?_eq_some hf
  have hp := List.find?_some hf
  simp only [Bool.and_eq_true, beq_iff_eq] at hp
  obtain ⟨h1, h2⟩ := hp
  have : row = (c, t, r) := by
    rcases row with ⟨a, b, e⟩
    simp only at h1 h2 hr
    subst h1; subst h2; subst hr
    rfl
  exact this ▸ hm

theorem nativeRows_sound {nat : Natives} {d : TableData} (h : d.nativeRows nat = true)
    {c t : Nat} {r : List UGate} (he : d.toTable.entry c t = some r) :
    ∀ x ∈ r, isNative nat x.cls = true := by
  have hm := toTable_entry_mem he
  simp only [TableData.nativeRows, List.all_eq_true, Bool.and_eq_true] at h
  exact fun x hx => (h _ hm x hx).1

theorem closedCheck_sound (D : TablesData) (nat : Natives) (h : closedCheck D nat = true) :
    Closed D.toTables nat := by
  unfold closedCheck at h
  rw [Bool.and_eq_true] at h
  obtain ⟨hs, hd⟩ := h
  constructor
  · intro S hS c t d he x hx
    unfold singleTable at hS
    by_cases h3 : nat.testBit cU3 = true
    · rw [if_pos h3] at hS hs
      cases hS
      exact nativeRows_sound hs he x hx
    · rw [if_neg h3] at hS hs
      by_cases h2 : nat.testBit cGPI2 = true
      · rw [if_pos h2] at hS hs
        cases hS
        exact nativeRows_sound hs he x hx
      · rw [if_neg h2] at hS
        cases hS
  · have key : ∀ dd : TableData,
        (dd.rows.all fun r => r.2.2.all fun x =>
          (x.qubits.length == 1 && !x.cb) || isNative nat x.cls) = true →
        ∀ c tg d, dd.toTable.entry c tg = some d →
          ∀ x ∈ d, (x.qubits.length = 1 ∧ x.cb = false) ∨ isNative nat x.cls = true := by
      intro dd hok c tg d he x hx
      have hm := toTable_entry_mem he
      simp only [List.all_eq_true] at hok
      have := hok _ hm x hx
      simp only [Bool.or_eq_true, Bool.and_eq_true, beq_iff_eq, Bool.not_eq_true'] at this
      exact this
    intro t ht
    unfold directTables at ht
    simp only at hd
    by_cases hb : (nat.testBit cCZ && nat.testBit ciSWAP) = true
    · rw [if_pos hb] at ht hd
      simp only [Bool.and_eq_true] at hd
      simp only [TablesData.toTables, List.mem_cons, List.not_mem_nil, or_false] at ht
      rcases ht with rfl | rfl | rfl
      · exact key _ hd.1.1
      · exact key _ hd.1.2
      · exact key _ hd.2
    · rw [if_neg hb] at ht hd
      by_cases hz : nat.testBit cCZ = true
      · rw [if_pos hz] at ht hd
        simp only [TablesData.toTables, List.mem_cons, List.not_mem_nil, or_false] at ht
        subst ht
        exact key _ hd
      · rw [if_neg hz] at ht hd
        by_cases hi : nat.testBit ciSWAP = true
        · rw [if_pos hi] at ht hd
          simp only [TablesData.toTables, List.mem_cons, List.not_mem_nil, or_false] at ht
          subst ht
          exact key _ hd
        · rw [if_neg hi] at ht hd
          by_cases hn : nat.testBit cCNOT = true
          · rw [if_pos hn] at ht hd
            simp only [TablesData.toTables, List.mem_cons, List.not_mem_nil, or_false] at ht
            subst ht
            exact key _ hd
          · rw [if_neg hn] at ht
            simp at ht

end QV.Unroll
