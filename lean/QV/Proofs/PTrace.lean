/-
  QV.Proofs.PTrace — algebra of the partial trace `ptrace` of QV/Model/Fusion.lean and its
  invariance under gates that act only on traced-out qubits.

  Main results
    * `ptrace_append`, `ptrace_perm`, `ptrace_eq_sum`, `ptrace_congr`
    * `ptrace_targets_applyGateDM` : two-label generalisation of `trN_targets_applyGateDM`
    * `ptrace_applyGateDM`         : a gate whose qubits (targets and controls) are all traced
                                     out, with `M† M = 1`, does not change the reduced state
    * `ptrace_runCircuitDM`        : the same for circuits
-/
import QV.Proofs.DMLemmas
import QV.Model.Fusion

namespace QV

open Finset

variable {α : Type} [CommSemiring α]

/-! ### basic algebra of `ptrace` -/

@[simp] theorem ptrace_nil (ρ : DM α) : ptrace [] ρ = ρ := rfl

theorem ptrace_cons (q : Nat) (T : List Nat) (ρ : DM α) (x y : Lab) :
    ptrace (q :: T) ρ x y
      = ptrace T ρ (x.set q false) (y.set q false) + ptrace T ρ (x.set q true) (y.set q true) :=
  rfl

/-- tracing out `S ++ T` is tracing out `T` and then `S`. -/
theorem ptrace_append (S T : List Nat) (ρ : DM α) :
    ptrace (S ++ T) ρ = ptrace S (ptrace T ρ) := by
  induction S with
  | nil => rfl
  | cons p S ih =>
    funext x y
    simp only [List.cons_append, ptrace_cons, ih]

/-- the order of the traced qubits is irrelevant. -/
theorem ptrace_perm {T T' : List Nat} (h : T.Perm T') (ρ : DM α) :
    ptrace T ρ = ptrace T' ρ := by
  induction h with
  | nil => rfl
  | cons q _ ih =>
    funext x y
    simp only [ptrace_cons, ih]
  | swap a b l =>
    funext x y
    by_cases e : a = b
    · subst e; rfl
    · simp only [ptrace_cons, Lab.set_comm _ _ _ e]
      rw [add_add_add_comm]
  | trans _ _ ih1 ih2 => rw [ih1, ih2]

/-- tracing commutes: `ptrace S (ptrace T ρ) = ptrace T (ptrace S ρ)`. -/
theorem ptrace_comm (S T : List Nat) (ρ : DM α) :
    ptrace S (ptrace T ρ) = ptrace T (ptrace S ρ) := by
  rw [← ptrace_append, ← ptrace_append]
  exact ptrace_perm List.perm_append_comm ρ

/-- **Re-indexing.**  On a duplicate-free qubit list the partial trace is the sum over local
indices `k < 2 ^ |T|`, the row and the column label receiving the same assignment. -/
theorem ptrace_eq_sum {T : List Nat} (hn : T.Nodup) (ρ : DM α) (x y : Lab) :
    ptrace T ρ x y = ∑ k ∈ range (2 ^ T.length), ρ (Lab.wIdx x T k) (Lab.wIdx y T k) := by
  induction T generalizing x y with
  | nil => simp
  | cons q T ih =>
    have hq : q ∉ T := (List.nodup_cons.mp hn).1
    have hn' : T.Nodup := (List.nodup_cons.mp hn).2
    have key : ∀ b : Bool, ptrace T ρ (x.set q b) (y.set q b)
        = ∑ k ∈ range (2 ^ T.length),
            ρ ((Lab.wIdx x T k).set q b) ((Lab.wIdx y T k).set q b) := by
      intro b
      rw [ih hn']
      simp only [Lab.wIdx_set_of_not_mem _ _ _ hq]
    rw [ptrace_cons, key, key, List.length_cons, pow_succ, mul_two, sum_range_add]
    congr 1
    · apply sum_congr rfl
      intro k hk
      have hk' : k < 2 ^ T.length := mem_range.mp hk
      rw [Lab.wIdx_cons, Lab.wIdx_cons, Nat.mod_eq_of_lt hk', Nat.div_eq_of_lt hk']
      simp
    · apply sum_congr rfl
      intro k hk
      have hk' : k < 2 ^ T.length := mem_range.mp hk
      rw [Lab.wIdx_cons, Lab.wIdx_cons, Nat.add_mod_left, Nat.mod_eq_of_lt hk',
        Nat.add_div_left _ (Nat.two_pow_pos _), Nat.div_eq_of_lt hk']
      simp

/-- **Congruence.**  Inside `ptrace l · x y` the matrix is only read at pairs of labels that
agree on every traced qubit (and wherever `x` and `y` already agree); two matrices that
coincide on such pairs have the same partial trace.  No duplicate-freeness is needed. -/
theorem ptrace_congr (S : List Nat) {σ σ' : DM α}
    (h : ∀ z z' : Lab, (∀ r, r ∈ S → z r = z' r) → σ z z' = σ' z z')
    (l : List Nat) (x y : Lab) (hS : ∀ r, r ∈ S → r ∈ l ∨ x r = y r) :
    ptrace l σ x y = ptrace l σ' x y := by
  induction l generalizing x y with
  | nil =>
    exact h x y fun r hr => (hS r hr).resolve_left (by simp)
  | cons q l ih =>
    have key : ∀ b : Bool, ptrace l σ (x.set q b) (y.set q b)
        = ptrace l σ' (x.set q b) (y.set q b) := by
      intro b
      apply ih
      intro r hr
      by_cases e : r = q
      · right; subst e; simp
      · rw [Lab.set_other _ _ e, Lab.set_other _ _ e]
        rcases hS r hr with hm | hxy
        · exact Or.inl ((List.mem_cons.mp hm).resolve_left e)
        · exact Or.inr hxy
    rw [ptrace_cons, ptrace_cons, key, key]

/-! ### gates on traced-out qubits -/

/-- the targets-only core: two-label generalisation of `trN_targets_applyGateDM`.  The row
label `z` and the column label `z'` may differ, as long as they see the same control value. -/
theorem ptrace_targets_applyGateDM (conj : α → α) (g : MGate α) (hn : g.targets.Nodup)
    (hd : ∀ c, c ∈ g.controls → c ∉ g.targets)
    (hU : ∀ i j, i < 2 ^ g.targets.length → j < 2 ^ g.targets.length →
      ∑ k ∈ range (2 ^ g.targets.length), conj (g.mat k i) * g.mat k j = if i = j then 1 else 0)
    (ρ : DM α) (z z' : Lab) (hzz : Lab.allOne g.controls z = Lab.allOne g.controls z') :
    ∑ i ∈ range (2 ^ g.targets.length),
        applyGateDM conj g ρ (Lab.wIdx z g.targets i) (Lab.wIdx z' g.targets i)
      = ∑ i ∈ range (2 ^ g.targets.length),
        ρ (Lab.wIdx z g.targets i) (Lab.wIdx z' g.targets i) := by
  cases hc : Lab.allOne g.controls z
  · -- controls off: nothing happens on any of the summed labels
    have hc' : Lab.allOne g.controls z' = false := by rw [← hzz, hc]
    apply sum_congr rfl
    intro i _
    have hci : Lab.allOne g.controls (Lab.wIdx z g.targets i) = false := by
      rw [Lab.allOne_wIdx_of_disjoint z i hd, hc]
    have hci' : Lab.allOne g.controls (Lab.wIdx z' g.targets i) = false := by
      rw [Lab.allOne_wIdx_of_disjoint z' i hd, hc']
    unfold applyGateDM
    rw [applyLeft_eq, applyGate_of_controls_off g _ hci, applyRight_eq,
      applyGate_of_controls_off (g.conjMat conj) _ hci']
  · -- controls on
    have hc' : Lab.allOne g.controls z' = true := by rw [← hzz, hc]
    have step : ∀ i ∈ range (2 ^ g.targets.length),
        applyGateDM conj g ρ (Lab.wIdx z g.targets i) (Lab.wIdx z' g.targets i)
          = ∑ k ∈ range (2 ^ g.targets.length), ∑ j ∈ range (2 ^ g.targets.length),
              (conj (g.mat i j) * g.mat i k) *
                ρ (Lab.wIdx z g.targets k) (Lab.wIdx z' g.targets j) := by
      intro i hi
      unfold applyGateDM
      rw [applyLeft_eq, applyGate_wIdx g hn hd _ hc (mem_range.mp hi)]
      apply sum_congr rfl
      intro k _
      rw [applyRight_wIdx conj g hn hd ρ _ hc' (mem_range.mp hi), mul_sum]
      apply sum_congr rfl
      intro j _
      rw [← mul_assoc, mul_comm (g.mat i k)]
    rw [sum_congr rfl step, sum_comm]
    apply sum_congr rfl
    intro k hk
    rw [sum_comm]
    simp only [← sum_mul]
    rw [sum_congr rfl (g := fun j => if j = k then
        ρ (Lab.wIdx z g.targets k) (Lab.wIdx z' g.targets j) else 0)]
    · rw [sum_ite_eq', if_pos hk]
    · intro j hj
      rw [hU j k (mem_range.mp hj) (mem_range.mp hk)]
      split <;> simp

/-- the targets-only core, phrased with `ptrace`. -/
theorem ptrace_targets_applyGateDM' (conj : α → α) (g : MGate α) (hn : g.targets.Nodup)
    (hd : ∀ c, c ∈ g.controls → c ∉ g.targets)
    (hU : ∀ i j, i < 2 ^ g.targets.length → j < 2 ^ g.targets.length →
      ∑ k ∈ range (2 ^ g.targets.length), conj (g.mat k i) * g.mat k j = if i = j then 1 else 0)
    (ρ : DM α) (z z' : Lab) (hzz : ∀ r, r ∈ g.controls → z r = z' r) :
    ptrace g.targets (applyGateDM conj g ρ) z z' = ptrace g.targets ρ z z' := by
  rw [ptrace_eq_sum hn, ptrace_eq_sum hn]
  exact ptrace_targets_applyGateDM conj g hn hd hU ρ z z' (Lab.allOne_congr hzz)

/-- **Gates on traced-out qubits do not change the reduced state.**  If all qubits of the gate
(targets and controls) are among the traced qubits `T` and its matrix satisfies `M† M = 1`,
then `ρ ↦ G ρ G†` leaves `ptrace T ρ` unchanged.  (Neither `T.Nodup` nor `g.controls.Nodup` is
needed.) -/
theorem ptrace_applyGateDM (conj : α → α) (T : List Nat) (g : MGate α) (hn : g.targets.Nodup)
    (hd : ∀ c, c ∈ g.controls → c ∉ g.targets)
    (hsub : ∀ q, q ∈ g.controls ++ g.targets → q ∈ T)
    (hU : ∀ i j, i < 2 ^ g.targets.length → j < 2 ^ g.targets.length →
      ∑ k ∈ range (2 ^ g.targets.length), conj (g.mat k i) * g.mat k j = if i = j then 1 else 0)
    (ρ : DM α) : ptrace T (applyGateDM conj g ρ) = ptrace T ρ := by
  have hsubT : ∀ t, t ∈ g.targets → t ∈ T := fun t ht => hsub t (List.mem_append_right _ ht)
  obtain ⟨l', hl', hsl⟩ := List.subperm_of_subset hn hsubT
  obtain ⟨l, hl⟩ := hsl.exists_perm_append
  have hperm : T.Perm (l ++ g.targets) :=
    hl.trans ((hl'.append_right l).trans List.perm_append_comm)
  have hcl : ∀ c, c ∈ g.controls → c ∈ l := by
    intro c hc
    have hm : c ∈ l ++ g.targets := hperm.subset (hsub c (List.mem_append_left _ hc))
    exact (List.mem_append.mp hm).resolve_right (hd c hc)
  rw [ptrace_perm hperm, ptrace_perm hperm, ptrace_append, ptrace_append]
  funext x y
  exact ptrace_congr g.controls
    (fun z z' hzz => ptrace_targets_applyGateDM' conj g hn hd hU ρ z z' hzz)
    l x y (fun r hr => Or.inl (hcl r hr))

/-- circuit version, without the (unneeded) duplicate-freeness of the controls. -/
theorem ptrace_runCircuitDM' (conj : α → α) (T : List Nat) (gs : List (MGate α))
    (hgs : ∀ g ∈ gs, g.targets.Nodup ∧ (∀ c, c ∈ g.controls → c ∉ g.targets) ∧
      (∀ q, q ∈ g.controls ++ g.targets → q ∈ T) ∧
      ∀ i j, i < 2 ^ g.targets.length → j < 2 ^ g.targets.length →
        ∑ k ∈ range (2 ^ g.targets.length), conj (g.mat k i) * g.mat k j
          = if i = j then 1 else 0)
    (ρ : DM α) : ptrace T (runCircuitDM conj gs ρ) = ptrace T ρ := by
  induction gs generalizing ρ with
  | nil => rfl
  | cons g gs ih =>
    obtain ⟨hn, hd, hsub, hU⟩ := hgs g (List.mem_cons_self ..)
    rw [runCircuitDM_cons, ih (fun g' hm => hgs g' (List.mem_cons_of_mem _ hm)),
      ptrace_applyGateDM conj T g hn hd hsub hU]

/-- **Circuits on traced-out qubits do not change the reduced state.** -/
theorem ptrace_runCircuitDM (conj : α → α) (T : List Nat) (gs : List (MGate α))
    (hgs : ∀ g ∈ gs, g.targets.Nodup ∧ g.controls.Nodup ∧ (∀ c, c ∈ g.controls → c ∉ g.targets) ∧
      (∀ q, q ∈ g.controls ++ g.targets → q ∈ T) ∧
      ∀ i j, i < 2 ^ g.targets.length → j < 2 ^ g.targets.length →
        ∑ k ∈ range (2 ^ g.targets.length), conj (g.mat k i) * g.mat k j = if i = j then 1 else 0)
    (ρ : DM α) : ptrace T (runCircuitDM conj gs ρ) = ptrace T ρ :=
  ptrace_runCircuitDM' conj T gs
    (fun g hg => ⟨(hgs g hg).1, (hgs g hg).2.2.1, (hgs g hg).2.2.2.1, (hgs g hg).2.2.2.2⟩) ρ

end QV
