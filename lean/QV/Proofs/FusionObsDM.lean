/-
  QV.Proofs.FusionObsDM — the density-matrix simulator is a lawful `QSpace`.

  The only new fact is `applyGateDM_fusedGate`: on density matrices too the fused gate
  (`matrix_fused`) acts as its members in sequence, `F ρ F† = gₖ … g₁ ρ g₁† … gₖ†`, for a
  conjugation that is a ring homomorphism (the conjugate of the product matrix is the product
  of the conjugated matrices).
-/
import QV.Proofs.FusionObs
namespace QV
open Finset

section
variable {α : Type} [CommSemiring α]

theorem embedEntry_conj (conj : α → α) (h0 : conj 0 = 0) (h1 : conj 1 = 1) (Q : List Nat)
    (g : MGate α) (i j : Nat) :
    conj (embedEntry Q g i j) = embedEntry Q (g.conjMat conj) i j := by
  unfold embedEntry
  simp only [MGate.conjMat_controls, MGate.conjMat_targets, MGate.conjMat_mat, apply_ite conj,
    h0, h1]
  rfl

theorem fusedMat_conj (conj : α → α) (hadd : ∀ a b, conj (a + b) = conj a + conj b)
    (hmul : ∀ a b, conj (a * b) = conj a * conj b) (h0 : conj 0 = 0) (h1 : conj 1 = 1)
    (Q : List Nat) (ms : List (MGate α)) (i j : Nat) :
    conj (fusedMat Q ms i j) = fusedMat Q (ms.map (fun g => g.conjMat conj)) i j := by
  induction ms using List.reverseRecOn generalizing i j with
  | nil =>
    show conj (if i = j then 1 else 0) = if i = j then 1 else 0
    split_ifs <;> simp [h0, h1]
  | append_singleton ms g ih =>
    rw [List.map_append, List.map_cons, List.map_nil, fusedMat_append, fusedMat_append,
      matMul_eq_sum, matMul_eq_sum]
    dsimp only
    have hsum : ∀ (s : Finset Nat) (f : Nat → α), conj (∑ k ∈ s, f k) = ∑ k ∈ s, conj (f k) := by
      intro s f
      induction s using Finset.induction_on with
      | empty => simp [h0]
      | insert a s ha ihs => rw [Finset.sum_insert ha, Finset.sum_insert ha, hadd, ihs]
    rw [hsum]
    apply Finset.sum_congr rfl
    intro k _
    rw [hmul, embedEntry_conj conj h0 h1, ih]

theorem fusedGate_conjMat (conj : α → α) (hadd : ∀ a b, conj (a + b) = conj a + conj b)
    (hmul : ∀ a b, conj (a * b) = conj a * conj b) (h0 : conj 0 = 0) (h1 : conj 1 = 1)
    (Q : List Nat) (ms : List (MGate α)) :
    (fusedGate Q ms).conjMat conj = fusedGate Q (ms.map (fun g => g.conjMat conj)) := by
  unfold fusedGate MGate.conjMat
  congr 1
  funext i j
  exact fusedMat_conj conj hadd hmul h0 h1 Q ms i j

/-- all left actions, then … -/
def leftAll (ms : List (MGate α)) (σ : DM α) : DM α := ms.foldl (fun s g => applyLeft g s) σ
/-- … all right actions. -/
def rightAll (conj : α → α) (ms : List (MGate α)) (σ : DM α) : DM α :=
  ms.foldl (fun s g => applyRight conj g s) σ

theorem leftAll_eq (ms : List (MGate α)) (σ : DM α) (x y : Lab) :
    leftAll ms σ x y = runCircuit ms (fun r => σ r y) x := by
  induction ms generalizing σ with
  | nil => rfl
  | cons g ms ih =>
    show leftAll ms (applyLeft g σ) x y = runCircuit ms (applyGate g (fun r => σ r y)) x
    rw [ih]
    rfl

theorem rightAll_eq (conj : α → α) (ms : List (MGate α)) (σ : DM α) (x y : Lab) :
    rightAll conj ms σ x y = runCircuit (ms.map (fun g => g.conjMat conj)) (fun c => σ x c) y := by
  induction ms generalizing σ with
  | nil => rfl
  | cons g ms ih =>
    show rightAll conj ms (applyRight conj g σ) x y
      = runCircuit (ms.map (fun g => g.conjMat conj)) (applyGate (g.conjMat conj) (fun c => σ x c)) y
    rw [ih]
    rfl

theorem rightAll_applyLeft (conj : α → α) (g : MGate α) (ms : List (MGate α)) (σ : DM α) :
    rightAll conj ms (applyLeft g σ) = applyLeft g (rightAll conj ms σ) := by
  induction ms generalizing σ with
  | nil => rfl
  | cons h ms ih =>
    show rightAll conj ms (applyRight conj h (applyLeft g σ))
      = applyLeft g (rightAll conj ms (applyRight conj h σ))
    rw [← applyLeft_applyRight_comm', ih]

theorem runCircuitDM_split (conj : α → α) (ms : List (MGate α)) (ρ : DM α) :
    runCircuitDM conj ms ρ = leftAll ms (rightAll conj ms ρ) := by
  induction ms generalizing ρ with
  | nil => rfl
  | cons g ms ih =>
    rw [runCircuitDM_cons, ih]
    show leftAll ms (rightAll conj ms (applyLeft g (applyRight conj g ρ)))
      = leftAll ms (applyLeft g (rightAll conj ms (applyRight conj g ρ)))
    rw [rightAll_applyLeft]

/-- **on density matrices the fused gate acts as its members in sequence.** -/
theorem applyGateDM_fusedGate (conj : α → α) (hadd : ∀ a b, conj (a + b) = conj a + conj b)
    (hmul : ∀ a b, conj (a * b) = conj a * conj b) (h0 : conj 0 = 0) (h1 : conj 1 = 1)
    (Q : List Nat) (hQ : Q.Nodup) (ms : List (MGate α)) (hms : ∀ g ∈ ms, MemberOK Q g)
    (ρ : DM α) : applyGateDM conj (fusedGate Q ms) ρ = runCircuitDM conj ms ρ := by
  rw [runCircuitDM_split]
  have hR : applyRight conj (fusedGate Q ms) ρ = rightAll conj ms ρ := by
    funext x y
    rw [applyRight_eq, rightAll_eq, fusedGate_conjMat conj hadd hmul h0 h1]
    exact congrFun (applyGate_fusedGate Q hQ _ (by
      intro g hg
      obtain ⟨g', hg', rfl⟩ := List.mem_map.1 hg
      exact hms g' hg') _) y
  unfold applyGateDM
  rw [hR]
  funext x y
  rw [applyLeft_eq, leftAll_eq]
  exact congrFun (applyGate_fusedGate Q hQ ms hms _) x

theorem dmSpace_lawful (conj : α → α) (hadd : ∀ a b, conj (a + b) = conj a + conj b)
    (hmul : ∀ a b, conj (a * b) = conj a * conj b) (h0 : conj 0 = 0) (h1 : conj 1 = 1)
    (n : Nat) : (dmSpace conj n).Lawful (IsoGate conj) n where
  comm := fun g h hg hh hd s => applyGateDM_comm_of_disjoint conj g h hg hh hd s
  smul := fun g c s => applyGateDM_smul conj g c s
  red := by
    intro qs g hm hiso hd ρ
    exact ptrace_applyGateDM conj _ g hm.1 hm.2.2.1
      (fun q hq => mem_others.2 ⟨List.mem_range.1 (hm.2.2.2 q hq), hd q hq⟩) hiso ρ
  fused := fun Q ms hQ hms s => applyGateDM_fusedGate conj hadd hmul h0 h1 Q hQ ms hms s

end

end QV
