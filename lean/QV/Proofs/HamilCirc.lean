/-
  QV.Proofs.HamilCirc — the basis-rotation step of `expectation_from_circuit`
  (QV/Model/HamilCirc.lean): adjoint of a one-qubit gate under the register inner
  product, R† Z R = c·P for the three measurement bases, commutation of gates on
  different qubits through the rotation layer, and the value measured for a Pauli string
  with one factor per qubit, written in any order.
-/
import QV.Proofs.HamilModels
import QV.Model.HamilCirc
import Mathlib.Tactic.Ring
import Mathlib.Tactic.LinearCombination

namespace QV

variable {α : Type} [CommRing α]

/-- scalar conjugation with imaginary unit `im`. -/
structure IsConj (conj : α → α) (im : α) : Prop where
  add : ∀ a b, conj (a + b) = conj a + conj b
  mul : ∀ a b, conj (a * b) = conj a * conj b
  one : conj 1 = 1
  im_conj : conj im = -im
  im_sq : im * im = -1

theorem IsConj.zero {conj : α → α} {im : α} (h : IsConj conj im) : conj 0 = 0 := by
  have := h.add 0 0
  rw [add_zero] at this
  exact (add_eq_left.mp this.symm)

theorem IsConj.neg {conj : α → α} {im : α} (h : IsConj conj im) (a : α) : conj (-a) = -conj a := by
  have := h.add (-a) a
  rw [neg_add_cancel, h.zero] at this
  exact eq_neg_of_add_eq_zero_left this.symm

theorem gate1_eq_g1 (m : Nat → Nat → α) (q : Nat) : gate1 m q = g1 m q := rfl

/-- register inner product Σ_x conj(a x) · b x. -/
def inner (n : Nat) (conj : α → α) (a b : Lab → α) : α :=
  sumOver (List.range n) (fun x => conj (a x) * b x) (fun _ => false)

theorem inner_eq_expectState (n : Nat) (conj : α → α) (a b : Lab → α) :
    inner n conj a b = expectState n conj b a := rfl

/-- conjugate transpose of a 2×2 matrix. -/
def dag (conj : α → α) (A : Nat → Nat → α) : Nat → Nat → α := fun i j => conj (A j i)

theorem sum_split (n q : Nat) (hq : q < n) (F : Lab → α) (x0 : Lab) :
    sumOver (List.range n) F x0
      = sumOver (others n q) (fun y => F (y.set q false)) x0
        + sumOver (others n q) (fun y => F (y.set q true)) x0 := by
  rw [← sumOver_perm (others_perm n q hq), sumOver_cons,
    sumOver_set_of_not_mem F x0 false (others_nodup n q).2,
    sumOver_set_of_not_mem F x0 true (others_nodup n q).2]

/-- **adjoint**: ⟨G_A a, b⟩ = ⟨a, G_{A†} b⟩ for a one-qubit gate on a register qubit. -/
theorem inner_adjoint {conj : α → α} {im : α} (hc : IsConj conj im) (n q : Nat) (hq : q < n)
    (A : Nat → Nat → α) (a b : Lab → α) :
    inner n conj (applyGate (g1 A q) a) b = inner n conj a (applyGate (g1 (dag conj A) q) b) := by
  unfold inner
  rw [sum_split n q hq, sum_split n q hq]
  have hL : ∀ β : Bool,
      (fun y : Lab => conj (applyGate (g1 A q) a (y.set q β)) * b (y.set q β))
        = fun y => conj (A (bit β) 0) * (conj (a (y.set q false)) * b (y.set q β))
            + conj (A (bit β) 1) * (conj (a (y.set q true)) * b (y.set q β)) := by
    intro β
    funext y
    rw [applyGate_g1]
    simp only [Lab.set_same, Lab.set_set, hc.add, hc.mul]
    ring
  have hR : ∀ γ : Bool,
      (fun y : Lab => conj (a (y.set q γ)) * applyGate (g1 (dag conj A) q) b (y.set q γ))
        = fun y => conj (A 0 (bit γ)) * (conj (a (y.set q γ)) * b (y.set q false))
            + conj (A 1 (bit γ)) * (conj (a (y.set q γ)) * b (y.set q true)) := by
    intro γ
    funext y
    rw [applyGate_g1]
    simp only [Lab.set_same, Lab.set_set, dag]
    ring
  rw [hL false, hL true, hR false, hR true]
  simp only [sumOver_add, sumOver_mul_left, bit]
  simp only [Bool.false_eq_true, if_false, if_true]
  ring

theorem inner_smul_right (n : Nat) (conj : α → α) (c : α) (a b : Lab → α) :
    inner n conj a (fun x => c * b x) = c * inner n conj a b := by
  unfold inner
  rw [← sumOver_mul_left]
  congr 1
  funext x
  ring

/-! ### R† Z R = c · P -/

theorem applyGate_Z (q : Nat) (ψ : Lab → α) (x : Lab) :
    applyGate (g1 (pauliZ : Nat → Nat → α) q) ψ x = (if x q then (-1 : α) else 1) * ψ x := by
  rw [applyGate_g1]
  have e : x.set q (x q) = x := Lab.set_self x q
  cases hx : x q <;> rw [hx] at e <;> simp [pauliZ, bit, e]

/-- the factor `2` (rotated bases) or `1` (Z basis). -/
def rotFactor : PKind → α
  | .X => 2
  | .Y => 2
  | _ => 1

theorem rot_conj {conj : α → α} {im : α} (hc : IsConj conj im) (k : PKind) (hk : k ≠ .I) (q : Nat)
    (χ : Lab → α) :
    applyGate (g1 (dag conj (rotMat im k)) q)
        (applyGate (g1 pauliZ q) (applyGate (g1 (rotMat im k) q) χ))
      = fun x => rotFactor k * applyGate (g1 (pauliMat im k) q) χ x := by
  funext x
  have e : x.set q (x q) = x := Lab.set_self x q
  have hsq := hc.im_sq
  cases k with
  | I => exact absurd rfl hk
  | X =>
    simp only [applyGate_g1, Lab.set_same, Lab.set_set, dag, rotMat, rotX, pauliMat, pauliX, pauliZ,
      rotFactor, bit]
    cases hx : x q <;> simp [hc.one, hc.neg] <;> ring
  | Y =>
    simp only [applyGate_g1, Lab.set_same, Lab.set_set, dag, rotMat, rotY, pauliMat, pauliYm, pauliZ,
      rotFactor, bit]
    cases hx : x q
    · simp [hc.one, hc.neg, hc.im_conj]
      linear_combination (χ (x.set q false)) * hsq
    · simp [hc.one, hc.neg, hc.im_conj]
      linear_combination (-(χ (x.set q true))) * hsq
  | Z =>
    simp only [applyGate_g1, Lab.set_same, Lab.set_set, dag, rotMat, eye2, pauliMat, pauliZ,
      rotFactor, bit]
    cases hx : x q <;> rw [hx] at e <;> simp [hc.one, hc.zero, e]

/-! ### commutation through layers of one-qubit gates on other qubits -/

theorem g1_comm_foldl {ι : Type} (A : Nat → Nat → α) (q : Nat) (M : ι → Nat → Nat → α) (qOf : ι → Nat)
    (l : List ι) (h : ∀ m ∈ l, qOf m ≠ q) (ψ : Lab → α) :
    applyGate (g1 A q) (l.foldl (fun s m => applyGate (g1 (M m) (qOf m)) s) ψ)
      = l.foldl (fun s m => applyGate (g1 (M m) (qOf m)) s) (applyGate (g1 A q) ψ) := by
  induction l generalizing ψ with
  | nil => rfl
  | cons m l ih =>
    rw [List.foldl_cons, List.foldl_cons, ih (fun m' hm' => h m' (List.mem_cons_of_mem _ hm')),
      g1_comm A (M m) (Ne.symm (h m (List.mem_cons_self ..)))]

theorem g1_comm_foldr {ι : Type} (A : Nat → Nat → α) (q : Nat) (M : ι → Nat → Nat → α) (qOf : ι → Nat)
    (l : List ι) (h : ∀ m ∈ l, qOf m ≠ q) (ψ : Lab → α) :
    applyGate (g1 A q) (l.foldr (fun m φ => applyGate (g1 (M m) (qOf m)) φ) ψ)
      = l.foldr (fun m φ => applyGate (g1 (M m) (qOf m)) φ) (applyGate (g1 A q) ψ) := by
  induction l with
  | nil => rfl
  | cons m l ih =>
    rw [List.foldr_cons, List.foldr_cons, ← ih (fun m' hm' => h m' (List.mem_cons_of_mem _ hm')),
      g1_comm A (M m) (Ne.symm (h m (List.mem_cons_self ..)))]

theorem foldr_g1_smul {ι : Type} (M : ι → Nat → Nat → α) (qOf : ι → Nat) (l : List ι) (c : α)
    (ψ : Lab → α) :
    l.foldr (fun m φ => applyGate (g1 (M m) (qOf m)) φ) (fun x => c * ψ x)
      = fun x => c * l.foldr (fun m φ => applyGate (g1 (M m) (qOf m)) φ) ψ x := by
  induction l with
  | nil => rfl
  | cons m l ih => rw [List.foldr_cons, ih, applyGate_smul]; rfl

/-! ### the measured value of a Pauli string -/

/-- the Pauli string of a measurement list (first listed outermost). -/
def pWordM (im : α) (ms : List (Nat × PKind)) (χ : Lab → α) : Lab → α :=
  ms.foldr (fun m φ => applyGate (g1 (pauliMat im m.2) m.1) φ) χ

/-- the Z string on the measured qubits. -/
def zWordM (ms : List (Nat × PKind)) (χ : Lab → α) : Lab → α :=
  ms.foldr (fun m φ => applyGate (g1 pauliZ m.1) φ) χ

theorem zWordM_comm (A : Nat → Nat → α) (q : Nat) (ms : List (Nat × PKind))
    (h : ∀ m ∈ ms, m.1 ≠ q) (χ : Lab → α) :
    applyGate (g1 A q) (zWordM ms χ) = zWordM ms (applyGate (g1 A q) χ) :=
  g1_comm_foldr A q (fun _ : Nat × PKind => pauliZ) (fun m : Nat × PKind => m.1) ms h χ

theorem pWordM_comm {im : α} (A : Nat → Nat → α) (q : Nat) (ms : List (Nat × PKind))
    (h : ∀ m ∈ ms, m.1 ≠ q) (χ : Lab → α) :
    applyGate (g1 A q) (pWordM im ms χ) = pWordM im ms (applyGate (g1 A q) χ) :=
  g1_comm_foldr A q (fun m : Nat × PKind => pauliMat im m.2) (fun m : Nat × PKind => m.1) ms h χ

theorem rotate_comm {im : α} (A : Nat → Nat → α) (q : Nat) (ms : List (Nat × PKind))
    (h : ∀ m ∈ ms, m.1 ≠ q) (χ : Lab → α) :
    applyGate (g1 A q) (rotate im ms χ) = rotate im ms (applyGate (g1 A q) χ) :=
  g1_comm_foldl A q (fun m : Nat × PKind => rotMat im m.2) (fun m : Nat × PKind => m.1) ms h χ

theorem pWordM_smul {im : α} (ms : List (Nat × PKind)) (c : α) (χ : Lab → α) :
    pWordM im ms (fun x => c * χ x) = fun x => c * pWordM im ms χ x :=
  foldr_g1_smul (fun m : Nat × PKind => pauliMat im m.2) (fun m : Nat × PKind => m.1) ms c χ

theorem rotate_eq (im : α) (ms : List (Nat × PKind)) (ψ : Lab → α) :
    rotate im ms ψ = ms.foldl (fun s m => applyGate (g1 (rotMat im m.2) m.1) s) ψ := rfl

theorem rotCount_cons (m : Nat × PKind) (ms : List (Nat × PKind)) (hm : m.2 ≠ .I) :
    ((2 : α) ^ rotCount (m :: ms)) = 2 ^ rotCount ms * rotFactor m.2 := by
  obtain ⟨q, k⟩ := m
  cases k with
  | I => exact absurd rfl hm
  | X => simp [rotCount, rotFactor, pow_succ]
  | Y => simp [rotCount, rotFactor, pow_succ]
  | Z => simp [rotCount, rotFactor]

/-- **sesquilinear form of the rotation step**: measuring Z on the rotated qubits of the
rotated states is (up to the factor 2 per rotated qubit) the Pauli string between the
original states — one factor per qubit, in any order. -/
theorem inner_rotate {conj : α → α} {im : α} (hc : IsConj conj im) (n : Nat)
    (ms : List (Nat × PKind)) (hn : (ms.map (·.1)).Nodup) (hlt : ∀ m ∈ ms, m.1 < n)
    (hI : ∀ m ∈ ms, m.2 ≠ .I) (ψ χ : Lab → α) :
    inner n conj (rotate im ms ψ) (zWordM ms (rotate im ms χ))
      = 2 ^ rotCount ms * inner n conj ψ (pWordM im ms χ) := by
  induction ms generalizing ψ χ with
  | nil => simp [rotate, zWordM, pWordM, rotCount]
  | cons m ms ih =>
    rw [List.map_cons] at hn
    have hq : ∀ m' ∈ ms, m'.1 ≠ m.1 := by
      intro m' hm' e
      have := (List.nodup_cons.mp hn).1
      exact this (by rw [← e]; exact List.mem_map_of_mem hm')
    have hn' : (ms.map (·.1)).Nodup := (List.nodup_cons.mp hn).2
    have hlt' : ∀ m' ∈ ms, m'.1 < n := fun m' hm' => hlt m' (List.mem_cons_of_mem _ hm')
    have hI' : ∀ m' ∈ ms, m'.2 ≠ .I := fun m' hm' => hI m' (List.mem_cons_of_mem _ hm')
    have hmI := hI m (List.mem_cons_self ..)
    have hmlt := hlt m (List.mem_cons_self ..)
    -- push Z_q through the Z string and the rotations of the other qubits
    have e1 : zWordM (m :: ms) (rotate im (m :: ms) χ)
        = zWordM ms (rotate im ms
            (applyGate (g1 pauliZ m.1) (applyGate (g1 (rotMat im m.2) m.1) χ))) := by
      show applyGate (g1 pauliZ m.1) (zWordM ms (rotate im ms (applyGate (g1 (rotMat im m.2) m.1) χ))) = _
      rw [zWordM_comm _ _ ms hq, rotate_comm _ _ ms hq]
    have e2 : rotate im (m :: ms) ψ = rotate im ms (applyGate (g1 (rotMat im m.2) m.1) ψ) := rfl
    rw [e1, e2, ih hn' hlt' hI', inner_adjoint hc n m.1 hmlt]
    -- pull R† back through the Pauli string of the other qubits
    have e3 : applyGate (g1 (dag conj (rotMat im m.2)) m.1)
          (pWordM im ms (applyGate (g1 pauliZ m.1) (applyGate (g1 (rotMat im m.2) m.1) χ)))
        = fun x => rotFactor m.2 * pWordM im (m :: ms) χ x := by
      rw [pWordM_comm _ _ ms hq, rot_conj hc m.2 hmI, pWordM_smul, ← pWordM_comm _ _ ms hq]
      rfl
    rw [e3, inner_smul_right, rotCount_cons m ms hmI]
    ring

theorem parity_foldl (qs : List Nat) (x : Lab) (a : α) :
    qs.foldl (fun acc q => if x q then -acc else acc) a = a * parity qs x := by
  induction qs generalizing a with
  | nil => simp [parity]
  | cons q qs ih =>
    unfold parity
    rw [List.foldl_cons, List.foldl_cons, ih, ih (if x q = true then -1 else 1)]
    cases x q <;> simp

theorem zWordM_eq (ms : List (Nat × PKind)) (χ : Lab → α) (x : Lab) :
    zWordM ms χ x = parity (ms.map (·.1)) x * χ x := by
  induction ms generalizing χ with
  | nil => simp [zWordM, parity]
  | cons m ms ih =>
    have hp : parity (α := α) (m.1 :: ms.map (·.1)) x
        = (if x m.1 then (-1 : α) else 1) * parity (ms.map (·.1)) x := by
      show List.foldl _ _ (m.1 :: _) = _
      rw [List.foldl_cons]
      exact parity_foldl _ x _
    show applyGate (g1 pauliZ m.1) (zWordM ms χ) x = _
    rw [applyGate_Z, ih, List.map_cons, hp]
    ring

/-- the measured value of a measurement layer. -/
theorem measuredValue_eq {conj : α → α} {im : α} (hc : IsConj conj im) (n : Nat)
    (ms : List (Nat × PKind)) (hn : (ms.map (·.1)).Nodup) (hlt : ∀ m ∈ ms, m.1 < n)
    (hI : ∀ m ∈ ms, m.2 ≠ .I) (ψ : Lab → α) :
    measuredValue n conj im ms ψ = 2 ^ rotCount ms * inner n conj ψ (pWordM im ms ψ) := by
  rw [← inner_rotate hc n ms hn hlt hI]
  show sumOver (List.range n) (fun x => conj (rotate im ms ψ x) * rotate im ms ψ x
      * parity (ms.map (·.1)) x) _
    = sumOver (List.range n) (fun x => conj (rotate im ms ψ x) * zWordM ms (rotate im ms ψ) x) _
  congr 1
  funext x
  rw [zWordM_eq]
  ring

/-- identity factors drop out of the Pauli string. -/
theorem pauliWord_measurements (im : α) (fs : List PFac) (ψ : Lab → α) :
    pauliWord im fs ψ = pWordM im (measurements fs) ψ := by
  induction fs with
  | nil => rfl
  | cons f fs ih =>
    unfold pauliWord at ih ⊢
    rw [List.foldr_cons, ih]
    unfold measurements nonId
    cases hk : f.kind with
    | I =>
      rw [List.filter_cons_of_neg (by simp [PFac.isId, hk])]
      show applyGate (g1 eye2 f.q) _ = _
      rw [g1_eye2]
    | X => rw [List.filter_cons_of_pos (by simp [PFac.isId, hk])]; simp [pWordM, hk, gate1_eq_g1]
    | Y => rw [List.filter_cons_of_pos (by simp [PFac.isId, hk])]; simp [pWordM, hk, gate1_eq_g1]
    | Z => rw [List.filter_cons_of_pos (by simp [PFac.isId, hk])]; simp [pWordM, hk, gate1_eq_g1]

theorem measurements_ne_I (fs : List PFac) : ∀ m ∈ measurements fs, m.2 ≠ .I := by
  intro m hm
  unfold measurements nonId at hm
  obtain ⟨f, hf, rfl⟩ := List.mem_map.mp hm
  have h2 := (List.mem_filter.mp hf).2
  intro e
  simp only at e
  simp [PFac.isId, e] at h2

end QV
