/-
  QV.Proofs.EncodingsHW — the state prepared by `hamming_weight_encoder` with
  `optimize_controls=False` (`hwEncoderB n k false false cplx pc`), for every `1 ≤ k < n`:
  the X prefix writes the first string of the Ehrlich walk, the numbered RBS steps are a loading
  chain through the strings of the walk, and (complex data, `phase_correction=True`) the final
  controlled RZ multiplies the last amplitude.
-/
import Mathlib.Algebra.Ring.Defs
import Mathlib.Tactic.Ring
import Mathlib.Tactic.Linarith
import Mathlib.Algebra.BigOperators.Intervals
import Mathlib.Data.List.Nodup
import QV.Proofs.EncodingsHS1
import QV.Proofs.EncodingsHS2
import QV.Proofs.EncodingsHopf

set_option linter.unusedSimpArgs false
set_option linter.unusedVariables false

namespace QV.Enc
open QV Finset

variable {α : Type} [CommRing α]

/-- label of string number `j` of the Ehrlich walk of weight `k` on `n` positions. -/
def hwLab (n k j : Nat) : Lab := labR n ((ehrlichStrings (defaultInit n k)).getD j [])

/-! ### the walk -/

theorem hw_walk_facts (n k : Nat) (hkn : k ≤ n) :
    (ehrlichStrings (defaultInit n k)).Nodup ∧ (ehrlichStrings (defaultInit n k)).length = choose n k ∧
    (∀ s ∈ ehrlichStrings (defaultInit n k), s.length = n ∧ weight s = k) ∧
    (∀ τ : List Bool, τ.length = n → weight τ = k → τ ∈ ehrlichStrings (defaultInit n k)) := by
  obtain ⟨hr, hnd, hlen, hc, _, _⟩ := ehrlich_walk n k hkn
  have hl := length_defaultInit (n := n) (k := k) hkn
  have hw := weight_defaultInit n k
  refine ⟨hnd, hlen, ?_, hc⟩
  intro s hs
  rw [ehrlichStrings, ehrlich, hl, hw, List.mem_cons, List.mem_map] at hs
  rcases hs with rfl | ⟨st, hst, rfl⟩
  · exact ⟨hl, hw⟩
  · have := (ehrlichLoop_chain _ _ _ hr).2 st hst
    rw [hl, hw] at this
    exact ⟨this.2, this.1⟩

/-! ### the step list without control optimisation -/

theorem zipWith_ignore {β γ δ : Type} (f : γ → δ) : ∀ (l : List γ) (l1 : List β),
    l1.length = l.length → List.zipWith (fun _ b => f b) l1 l = l.map f
  | [], l1, _ => by simp
  | a :: l, [], h => by simp at h
  | a :: l, b :: l1, h => by
    simp only [List.zipWith_cons_cons, List.map_cons]
    rw [zipWith_ignore f l l1 (by simpa using h)]

theorem hwSteps_noopt (n k : Nat) (cplx : Bool) :
    hwSteps n k false cplx
      = ((ehrlich (defaultInit n k)).map (moveStep n)).map (fun d => d.fn cplx) := by
  rw [List.map_map]
  show List.zipWith (fun _ (st : Step) => (moveStep n st).fn cplx)
    (List.range (ehrlich (defaultInit n k)).length) (ehrlich (defaultInit n k)) = _
  exact zipWith_ignore (fun st => (moveStep n st).fn cplx) _ _ (by simp)

theorem length_ehrlich_default (n k : Nat) (hkn : k ≤ n) :
    (ehrlich (defaultInit n k)).length = choose n k - 1 := by
  unfold ehrlich
  rw [length_ehrlichLoop, length_defaultInit hkn, weight_defaultInit]

theorem length_hwSteps_noopt (n k : Nat) (cplx : Bool) (hkn : k ≤ n) :
    (hwSteps n k false cplx).length = choose n k - 1 := by
  rw [hwSteps_noopt, List.length_map, List.length_map, length_ehrlich_default n k hkn]

theorem getD_moveStep_add (l : List Step) (n j : Nat) :
    ((l.map (moveStep n)).getD j default).add = false := by
  rw [List.getD_eq_getElem?_getD, List.getElem?_map]
  cases l[j]? <;> rfl

theorem hwEncoderB_noopt (n k : Nat) (cplx pc : Bool) :
    hwEncoderB n k false false cplx pc
      = (List.range k).map (fun j => ({ kind := .X, q0 := n - 1 - j } : BG))
          ++ numberSteps (hwSteps n k false cplx)
          ++ (if cplx && pc then
                [phaseCorrection n (ehrLast (defaultInit n k)) (hwSteps n k false cplx).length]
              else []) := rfl

/-! ### the X prefix -/

theorem getD_defaultInit (n k p : Nat) (hp : p < n) :
    (defaultInit n k).getD p false = decide (p < k) := by
  unfold defaultInit
  by_cases h : p < k
  · rw [getD_rep_lt k p true _ h]; simp [h]
  · obtain ⟨u, rfl⟩ : ∃ u, p = k + u := ⟨p - k, by omega⟩
    rw [getD_rep_ge]
    simp only [h, List.getD_eq_getElem?_getD, List.getElem?_replicate, decide_false]
    split <;> rfl

theorem tog_prefix (n k : Nat) (hkn : k ≤ n) :
    tog ((List.range k).map (fun j => n - 1 - j)) zeroLab = labR n (defaultInit n k) := by
  funext q
  have hmem : q ∈ (List.range k).map (fun j => n - 1 - j) ↔ (q < n ∧ n - 1 - q < k) := by
    rw [List.mem_map]
    constructor
    · rintro ⟨j, hj, rfl⟩
      rw [List.mem_range] at hj
      omega
    · rintro ⟨h1, h2⟩
      exact ⟨n - 1 - q, List.mem_range.mpr h2, by omega⟩
  unfold labR
  by_cases hq : q < n
  · rw [getD_defaultInit n k _ (by omega)]
    by_cases h2 : n - 1 - q < k
    · rw [tog_of_mem (hmem.mpr ⟨hq, h2⟩)]
      simp [zeroLab, hq, h2]
    · rw [tog_of_not_mem (fun h => h2 (hmem.mp h).2)]
      simp [zeroLab, hq, h2]
  · rw [tog_of_not_mem (fun h => hq (hmem.mp h).1)]
    simp [zeroLab, hq]

/-- X prefix -/
theorem hw_xprefix (P : Par2 α) (n k : Nat) (hkn : k ≤ n) :
    runCircuit (((List.range k).map (fun j => ({ kind := .X, q0 := n - 1 - j } : BG))).map (BG.sem P))
        (ket zeroLab)
      = ket (labR n (defaultInit n k)) := by
  have e : (List.range k).map (fun j => ({ kind := .X, q0 := n - 1 - j } : BG))
      = ((List.range k).map (fun j => n - 1 - j)).map (fun q => ({ kind := .X, q0 := q } : BG)) := by
    rw [List.map_map]; rfl
  have hnd : ((List.range k).map (fun j => n - 1 - j)).Nodup := by
    apply List.Nodup.map_on _ List.nodup_range
    intro a ha b hb h
    rw [List.mem_range] at ha hb
    omega
  rw [e, run_xlayer P _ hnd]
  funext x
  classical
  rw [ket_apply, ket_apply]
  have key := tog_prefix n k hkn
  by_cases h : x = labR n (defaultInit n k)
  · rw [if_pos h, if_pos]
    rw [h, ← key, tog_tog]
  · rw [if_neg h, if_neg]
    intro h'
    apply h
    rw [← key, ← h', tog_tog]

/-! ### the chain -/

theorem hw_chain (P : Par2 α) (hpm : ∀ j, P.p j * P.m j = 1) (cplx : Bool) (n k : Nat)
    (hkn : k ≤ n) :
    runCircuit ((numberSteps (hwSteps n k false cplx)).map (BG.sem P)) (ket (labR n (defaultInit n k)))
      = chainStateAB (stepA P cplx) (stepB P cplx) (hwLab n k) (choose n k - 1) := by
  obtain ⟨hnd, hlen, hall, _⟩ := hw_walk_facts n k hkn
  have hal : Aligned n ((ehrlich (defaultInit n k)).map (moveStep n)) (ehrlichStrings (defaultInit n k)) :=
    block_aligned n (defaultInit n k) (endA k (n - k)) (SE.A k (n - k))
  have hsorted : (ehrlichStrings (defaultInit n k)).Pairwise (fun a b => weight a ≤ weight b) := by
    apply List.pairwise_of_forall_mem_list
    intro a ha b hb
    rw [(hall a ha).2, (hall b hb).2]
  have key := aligned_chain P hpm cplx n _ _ hal (fun w hw => (hall w hw).1) hnd hsorted
  rw [hwSteps_noopt]
  have h0 : (ehrlichStrings (defaultInit n k)).headD [] = defaultInit n k := rfl
  rw [h0] at key
  rw [key, List.length_map, length_ehrlich_default n k hkn]
  have hA : (fun j => (((ehrlich (defaultInit n k)).map (moveStep n)).getD j default).A P cplx j)
      = stepA P cplx := by
    funext j
    unfold ChainStep.A
    rw [getD_moveStep_add]
    simp
  have hB : (fun j => (((ehrlich (defaultInit n k)).map (moveStep n)).getD j default).B P cplx j)
      = stepB P cplx := by
    funext j
    unfold ChainStep.B
    rw [getD_moveStep_add]
    simp
  rw [hA, hB]
  rfl

/-- no phase correction (real data, or complex with phase_correction=False) -/
theorem hw_noopt_state (P : Par2 α) (hpm : ∀ j, P.p j * P.m j = 1) (cplx pc : Bool)
    (hpc : (cplx && pc) = false) (n k : Nat) (hk : 1 ≤ k) (hkn : k < n) :
    runCircuit ((hwEncoderB n k false false cplx pc).map (BG.sem P)) (ket zeroLab)
      = chainStateAB (stepA P cplx) (stepB P cplx) (hwLab n k) (choose n k - 1) := by
  rw [hwEncoderB_noopt, hpc]
  simp only [Bool.false_eq_true, if_false, List.append_nil]
  rw [List.map_append, runCircuit_append, hw_xprefix P n k (le_of_lt hkn),
    hw_chain P hpm cplx n k (le_of_lt hkn)]

/-! ### the phase correction -/

theorem headD_mem_of_ne_nil : ∀ (l : List Nat), l ≠ [] → l.headD 0 ∈ l
  | [], h => absurd rfl h
  | a :: l, _ => by simp

/-- the gate of `_get_phase_gate_correction` sits on an empty qubit of the last string, is
switched on by the last string and switched off by every earlier string of the walk. -/
theorem hw_corr_facts (n k : Nat) (hk : 1 ≤ k) (hkn : k < n) (f : Nat) :
    ∃ z : Nat, ∃ zc : List Nat,
      phaseCorrection n (ehrLast (defaultInit n k)) f
        = { kind := .RZ, q0 := z, f := f, dbl := true, ctrl := zc } ∧
      z ∉ zc ∧ Lab.allOne zc (hwLab n k (choose n k - 1)) = true ∧
      hwLab n k (choose n k - 1) z = false ∧
      ∀ j, j < choose n k - 1 → Lab.allOne zc (hwLab n k j) = false := by
  obtain ⟨hnd, hlen, hall, _⟩ := hw_walk_facts n k (le_of_lt hkn)
  set ws := ehrlichStrings (defaultInit n k) with hws
  set last := ehrLast (defaultInit n k) with hlast
  have hpos : 0 < choose n k := choose_pos (le_of_lt hkn)
  have hm : choose n k - 1 < ws.length := by omega
  have hget : ∀ j (hj : j < ws.length), ws.getD j [] = ws[j] := fun j hj => by
    rw [List.getD_eq_getElem?_getD, List.getElem?_eq_getElem hj]; rfl
  have hlastget : ws[choose n k - 1] = last := by
    have h1 := ehrlichStrings_getLast? (defaultInit n k)
    rw [← hws, List.getLast?_eq_getElem?, hlen, List.getElem?_eq_getElem hm] at h1
    exact Option.some.inj h1
  obtain ⟨hll, hlw⟩ := hall last (ehrLast_mem _)
  have hzne : zerosOf last ≠ [] := zerosOf_ne_nil last (by omega)
  have hsne : sortNat ((zerosOf last).map (fun c => n - 1 - c)) ≠ [] := by
    obtain ⟨p, hp⟩ := List.exists_mem_of_ne_nil _ hzne
    intro h
    have : n - 1 - p ∈ sortNat ((zerosOf last).map (fun c => n - 1 - c)) :=
      (mem_sortNat _ _).mpr (List.mem_map_of_mem hp)
    rw [h] at this
    simp at this
  have hhd := headD_mem_of_ne_nil _ hsne
  rw [mem_sortNat, List.mem_map] at hhd
  obtain ⟨p, hp, hpe⟩ := hhd
  obtain ⟨hpl, hp0⟩ := mem_zerosOf hp
  obtain ⟨hok, _, hfix⟩ := add_spec n last p false hpl hp0 hll
  refine ⟨n - 1 - p, sortNat ((onesOf last).map (fun c => n - 1 - c)), ?_, hok.1, ?_, ?_, ?_⟩
  · unfold phaseCorrection
    simp only []
    rw [← hpe]
  · have : hwLab n k (choose n k - 1) = labR n last := by
      unfold hwLab
      rw [← hws, hget _ hm, hlastget]
    rw [this]
    exact hok.2.1
  · have : hwLab n k (choose n k - 1) = labR n last := by
      unfold hwLab
      rw [← hws, hget _ hm, hlastget]
    rw [this]
    exact hok.2.2
  · intro j hj
    have hjl : j < ws.length := by omega
    have hmem : ws[j] ∈ ws := List.getElem_mem hjl
    obtain ⟨h1, h2⟩ := hall _ hmem
    have hne : ws[j] ≠ last := by
      intro h
      rw [← hlastget] at h
      have := (hnd.getElem_inj_iff).mp h
      omega
    have hf := hfix ws[j] h1 (by rw [h2, hlw]) hne
    have e : hwLab n k j = labR n ws[j] := by
      unfold hwLab
      rw [← hws, hget _ hjl]
    rw [e]
    rcases hf with hf | ⟨hf, _⟩
    · exact hf
    · have : (true : Bool) = false := hf
      exact Bool.noConfusion this

/-- complex data with the phase correction -/
theorem hw_noopt_state_corr (P : Par2 α) (hpm : ∀ j, P.p j * P.m j = 1) (n k : Nat) (hk : 1 ≤ k)
    (hkn : k < n) :
    runCircuit ((hwEncoderB n k false false true true).map (BG.sem P)) (ket zeroLab)
      = chainStateCorr (stepA P true) (stepB P true)
          (P.m (choose n k - 1) * P.m (choose n k - 1)) (hwLab n k) (choose n k - 1) := by
  rw [hwEncoderB_noopt]
  simp only [Bool.and_self, if_true]
  rw [List.map_append, runCircuit_append, List.map_append, runCircuit_append,
    hw_xprefix P n k (le_of_lt hkn), hw_chain P hpm true n k (le_of_lt hkn),
    length_hwSteps_noopt n k true (le_of_lt hkn)]
  obtain ⟨z, zc, hg, hz, hzon, hzv, hzfix⟩ := hw_corr_facts n k hk hkn (choose n k - 1)
  rw [hg]
  simp only [List.map_cons, List.map_nil]
  rw [runCircuit_single]
  exact correction_on_chain P _ _ _ _ _ hz hzon hzv hzfix

end QV.Enc
