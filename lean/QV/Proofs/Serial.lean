/-
  Lemmas about the serialisation models (`QV.Model.Serial`): keyword bookkeeping of the
  parameter setter, the sample/frequency consistency invariant of results.
-/
import QV.Model.Serial
set_option linter.unusedSimpArgs false

namespace QV.Serial

variable {τ : Type}

theorem kwGet_kwUpdate (d : List (String × τ)) (k k' : String) (v : τ) :
    kwGet (kwUpdate d k v) k' = if k' = k then (kwGet d k).map (fun _ => v) else kwGet d k' := by
  induction d with
  | nil => simp [kwUpdate, kwGet]
  | cons a d ih =>
    obtain ⟨ka, va⟩ := a
    simp only [kwUpdate, List.map_cons] at ih ⊢
    by_cases h1 : ka = k
    · subst h1
      by_cases h2 : k' = ka
      · subst h2; simp [kwGet]
      · have h3 : ¬ ka = k' := fun e => h2 e.symm
        simp [kwGet, h2, h3, ih]
    · by_cases h2 : k' = k
      · subst h2; simp [kwGet, h1, ih]
      · by_cases h3 : ka = k'
        · subst h3; simp [kwGet, h1]
        · simp [kwGet, h1, h2, h3, ih]

theorem filter_kwUpdate (p : String → Bool) (d : List (String × τ)) (k : String) (v : τ) :
    (kwUpdate d k v).filter (fun kv => p kv.1) = kwUpdate (d.filter fun kv => p kv.1) k v := by
  induction d with
  | nil => rfl
  | cons a d ih =>
    obtain ⟨ka, va⟩ := a
    simp only [kwUpdate, List.map_cons] at ih ⊢
    by_cases h1 : ka = k
    · subst h1
      cases hp : p ka <;> simp [List.filter, hp, ih]
    · cases hp : p ka <;> simp [List.filter, hp, h1, ih]

theorem filter_updKw (p : String → Bool) (d : List (String × τ)) (ns : List String) (x : List τ) :
    (updKw d ns x).filter (fun kv => p kv.1) = updKw (d.filter fun kv => p kv.1) ns x := by
  induction ns generalizing d x with
  | nil => simp [updKw]
  | cons n ns ih =>
    cases x with
    | nil => simp [updKw]
    | cons v vs => simp only [updKw]; rw [ih, filter_kwUpdate]

theorem kwGet_updKw_other (d : List (String × τ)) (ns : List String) (x : List τ) (k : String)
    (h : k ∉ ns) : kwGet (updKw d ns x) k = kwGet d k := by
  induction ns generalizing d x with
  | nil => simp [updKw]
  | cons n ns ih =>
    cases x with
    | nil => simp [updKw]
    | cons v vs =>
      simp only [List.mem_cons, not_or] at h
      simp only [updKw]
      rw [ih _ _ h.2, kwGet_kwUpdate]
      simp [h.1]

theorem lookupAll_present (d : List (String × τ)) (ns : List String) (ps : List τ)
    (h : lookupAll d ns = some ps) : ∀ n ∈ ns, (kwGet d n).isSome := by
  induction ns generalizing ps with
  | nil => simp
  | cons n ns ih =>
    intro m hm
    simp only [lookupAll] at h
    cases h1 : kwGet d n with
    | none => simp [h1] at h
    | some v =>
      cases h2 : lookupAll d ns with
      | none => simp [h1, h2] at h
      | some vs =>
        rcases List.mem_cons.mp hm with e | e
        · subst e; simp [h1]
        · exact ih vs h2 m e

theorem lookupAll_updKw (d : List (String × τ)) (ns : List String) (x : List τ)
    (hnd : ns.Nodup) (hp : ∀ n ∈ ns, (kwGet d n).isSome) (hl : x.length = ns.length) :
    lookupAll (updKw d ns x) ns = some x := by
  induction ns generalizing d x with
  | nil =>
    have : x = [] := List.eq_nil_of_length_eq_zero (by simpa using hl)
    subst this; rfl
  | cons n ns ih =>
    cases x with
    | nil => simp at hl
    | cons v vs =>
      simp only [List.nodup_cons] at hnd
      simp only [updKw, lookupAll]
      have hpres : ∀ m ∈ ns, (kwGet (kwUpdate d n v) m).isSome := by
        intro m hm
        rw [kwGet_kwUpdate]
        by_cases e : m = n
        · subst e; exact absurd hm hnd.1
        · simp [e]; exact hp m (by simp [hm])
      rw [kwGet_updKw_other _ _ _ _ hnd.1, kwGet_kwUpdate, ih _ _ hnd.2 hpres (by simpa using hl)]
      have hn := hp n (by simp)
      cases hk : kwGet d n with
      | none => simp [hk] at hn
      | some w => simp

/-! ### results -/

variable {S F : Type}

/-- frequencies, when both are present, are the counts of the samples -/
def Res.Inv (o : Oracle S F) (r : Res S F) : Prop :=
  ∀ s f, r.samples = some s → r.freqs = some f → f = o.count s

theorem Res.step_inv (o : Oracle S F) (hexp : ∀ f t, o.count (o.expand f t) = f)
    (r : Res S F) (h : r.Inv o) (op : Op) : (r.step o op).Inv o := by
  cases op with
  | samples =>
    unfold Res.step
    cases hs : r.samples with
    | some s => simpa [hs] using h
    | none =>
      cases hf : r.freqs with
      | some f =>
        intro s' f' h1 h2
        simp only [hs, hf] at h1 h2
        simp only [Option.some.injEq] at h1 h2
        rw [← h1, ← h2, hexp]
      | none =>
        intro s' f' h1 h2
        simp [hs, hf] at h1 h2
  | frequencies =>
    unfold Res.step
    cases hf : r.freqs with
    | some f => simpa [hf] using h
    | none =>
      cases hs : r.samples with
      | some s =>
        intro s' f' h1 h2
        simp only [hs, hf] at h1 h2
        simp only [Option.some.injEq] at h1 h2
        rw [← h1, ← h2]
      | none =>
        intro s' f' h1 h2
        simp [hs, hf] at h1 h2

theorem Res.run_inv (o : Oracle S F) (hexp : ∀ f t, o.count (o.expand f t) = f)
    (r : Res S F) (h : r.Inv o) (ops : List Op) : (r.run o ops).Inv o := by
  induction ops generalizing r with
  | nil => exact h
  | cons op ops ih => exact ih _ (Res.step_inv o hexp r h op)

end QV.Serial
