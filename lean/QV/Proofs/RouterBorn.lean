/-
  QV.Proofs.RouterBorn — the Born marginal of a register is invariant under moving the state
  and the register through the same permutation of the qubits:
      born n (qs.map σ) (w ∘ pull σ) = born n qs w .
  Used by Props/C09d.lean to turn  routed = layout ∘ input  into equality of the outcome
  distributions of every re-attached register.
-/
import QV.Model.Measure
import QV.Proofs.SumOver
import QV.Props.C05
import Mathlib.Data.List.Nodup

set_option linter.unusedSectionVars false
set_option linter.unusedVariables false
set_option linter.unusedSimpArgs false

namespace QV.Router
open QV QV.Props.C05

theorem pull_wIdx_map (σ : Nat → Nat) (hσ : Function.Injective σ) (x : Lab) (qs : List Nat) (k : Nat) :
    pull σ (Lab.wIdx x (qs.map σ) k) = Lab.wIdx (pull σ x) qs k := by
  induction qs generalizing k with
  | nil => rfl
  | cons q qs ih =>
    simp only [List.map_cons, Lab.wIdx_cons, List.length_map]
    rw [set_comp_inj σ hσ, ih]

theorem sumOver_map' {β : Type} [Zero β] [Add β] (σ : Nat → Nat) (hσ : Function.Injective σ)
    (qs : List Nat) (F : Lab → β) (x : Lab) :
    sumOver (qs.map σ) (fun y => F (pull σ y)) x = sumOver qs F (pull σ x) := by
  induction qs generalizing x with
  | nil => rfl
  | cons q qs ih =>
    simp only [List.map_cons, sumOver]
    rw [ih, ih, set_comp_inj σ hσ, set_comp_inj σ hσ]

theorem unmeasured_map_perm (n : Nat) (σ τ : Nat → Nat) (hl : ∀ i, τ (σ i) = i)
    (hr : ∀ i, σ (τ i) = i) (hσ : ∀ i, i < n → σ i < n) (hτ : ∀ i, i < n → τ i < n)
    (qs : List Nat) :
    (unmeasured n (qs.map σ)).Perm ((unmeasured n qs).map σ) := by
  have hinj : Function.Injective σ := Function.LeftInverse.injective (g := τ) hl
  have n1 : (unmeasured n (qs.map σ)).Nodup := List.Nodup.filter _ List.nodup_range
  have n2 : ((unmeasured n qs).map σ).Nodup :=
    List.Nodup.map hinj (List.Nodup.filter _ List.nodup_range)
  rw [List.perm_ext_iff_of_nodup n1 n2]
  intro a
  simp only [unmeasured, List.mem_filter, List.mem_range, List.mem_map, List.contains_iff_mem,
    Bool.not_eq_true', decide_eq_false_iff_not, Bool.not_eq_eq_eq_not, Bool.not_true,
    decide_eq_false_iff_not, List.elem_eq_mem]
  constructor
  · rintro ⟨ha, hq⟩
    refine ⟨τ a, ⟨hτ a ha, ?_⟩, hr a⟩
    intro hm
    exact hq ⟨τ a, hm, hr a⟩
  · rintro ⟨j, ⟨hj, hjq⟩, rfl⟩
    refine ⟨hσ j hj, ?_⟩
    rintro ⟨x, hx, he⟩
    exact hjq (hinj he ▸ hx)

/-- the Born marginal follows the qubits. -/
theorem born_relabel {β : Type} [AddCommMonoid β] (n : Nat) (σ τ : Nat → Nat)
    (hl : ∀ i, τ (σ i) = i) (hr : ∀ i, σ (τ i) = i) (hσ : ∀ i, i < n → σ i < n)
    (hτ : ∀ i, i < n → τ i < n) (qs : List Nat) (w : Lab → β) (k : Nat) :
    born n (qs.map σ) (fun y => w (pull σ y)) k = born n qs w k := by
  have hinj : Function.Injective σ := Function.LeftInverse.injective (g := τ) hl
  unfold born
  rw [sumOver_perm (unmeasured_map_perm n σ τ hl hr hσ hτ qs), sumOver_map' σ hinj,
    Lab.withIdx_eq_wIdx, pull_wIdx_map σ hinj, ← Lab.withIdx_eq_wIdx]
  rfl

end QV.Router
