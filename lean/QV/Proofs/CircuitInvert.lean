/-
  `Circuit.invert` on the circuit-queue model: the loop with `skip_measurements` in closed form.
-/
import QV.Proofs.CircuitQueue
set_option linter.unusedSimpArgs false
set_option linter.unusedVariables false
set_option linter.unusedSectionVars false
namespace QV.CQ

variable {ν : Type} [DecidableEq ν]

/-- what `invert` makes of one queue element that is not a final measurement. -/
def Entry.inv (dg : Nat → Nat) (dfl : Nat → Option Bool × Option Bool) : Entry ν → Entry ν
  | .meas m => .meas m
  | .gate g => .gate (g.invertOf dg dfl)
  | .fused qs ms => .fused qs (ms.reverse.map (Gt.daggerMember dg))

/-- the step handed to `add` for it. -/
def invE (dg : Nat → Nat) (dfl : Nat → Option Bool × Option Bool) : Entry ν → Step ν
  | .meas m => Step.rebuilt m m.targets
  | .gate g => .plain (.gate (g.invertOf dg dfl))
  | .fused qs ms => .plain (.fused qs (ms.reverse.map (Gt.daggerMember dg)))

def Entry.ms? : Entry ν → Option (Ms ν)
  | .meas m => some m
  | _ => none

theorem invE_erase (dg : Nat → Nat) (dfl : Nat → Option Bool × Option Bool) (e : Entry ν) :
    (invE dg dfl e).erase = (e.inv dg dfl).erase := by
  cases e <;> rfl

theorem foldl_invertStep_noskip (dg : Nat → Nat) (dfl : Nat → Option Bool × Option Bool)
    (l : List (Entry ν)) (a : InvAcc ν) (ha : a.skip = false) :
    l.foldl (invertStep dg dfl) a = { a with steps := a.steps ++ l.map (invE dg dfl) } := by
  induction l generalizing a with
  | nil => simp
  | cons e l ih =>
    simp only [List.foldl_cons]
    cases e with
    | meas m =>
      rw [ih _ (by simp [invertStep, ha])]
      simp [invertStep, ha, invE]
    | gate g =>
      rw [ih _ (by simp [invertStep])]
      simp [invertStep, ha, invE]
    | fused qs ms =>
      rw [ih _ (by simp [invertStep])]
      simp [invertStep, ha, invE]

theorem foldl_invertStep_skip (dg : Nat → Nat) (dfl : Nat → Option Bool × Option Bool)
    (l : List (Entry ν)) (a : InvAcc ν) (ha : a.skip = true) :
    (l.foldl (invertStep dg dfl) a).steps = a.steps ++ (l.dropWhile Entry.isMeas).map (invE dg dfl) ∧
    (l.foldl (invertStep dg dfl) a).trailing
      = a.trailing ++ (l.takeWhile Entry.isMeas).filterMap Entry.ms? := by
  induction l generalizing a with
  | nil => simp
  | cons e l ih =>
    simp only [List.foldl_cons]
    cases e with
    | meas m =>
      obtain ⟨st, sk, tr⟩ := a
      simp only at ha
      subst ha
      have := ih { steps := st, skip := true, trailing := tr ++ [m] } rfl
      simp only [invertStep, if_true, List.dropWhile_cons, Entry.isMeas, List.takeWhile_cons,
        List.filterMap_cons, Entry.ms?]
      simpa using this
    | gate g =>
      rw [foldl_invertStep_noskip dg dfl l _ (by simp [invertStep])]
      simp [invertStep, Entry.isMeas, invE]
    | fused qs ms =>
      rw [foldl_invertStep_noskip dg dfl l _ (by simp [invertStep])]
      simp [invertStep, Entry.isMeas, invE]

/-- **the loop of `invert` in closed form**: the queue without its final measurements, reversed
    and daggered entry by entry (mid-circuit measurements re-created), then the final measurements
    re-created in their original order. -/
theorem invertPlan_eq (dg : Nat → Nat) (dfl : Nat → Option Bool × Option Bool)
    (q : List (Entry ν)) :
    invertPlan true dg dfl q
      = (q.reverse.dropWhile Entry.isMeas).map (invE dg dfl) ++
        (((q.reverse.takeWhile Entry.isMeas).filterMap Entry.ms?).reverse.map
          fun m => Step.rebuilt m m.targets) := by
  obtain ⟨h1, h2⟩ := foldl_invertStep_skip dg dfl q.reverse {} rfl
  simp only [invertPlan, h1, h2, if_true]
  simp

theorem filterMap_ms_map {β : Type} (F : Ms ν → β) (G : Entry ν → β)
    (hFG : ∀ m, F m = G (.meas m)) (t : List (Entry ν)) (ht : ∀ e ∈ t, e.isMeas = true) :
    (t.filterMap Entry.ms?).map F = t.map G := by
  induction t with
  | nil => rfl
  | cons e t ih =>
    have := ih (fun e' he' => ht e' (List.mem_cons_of_mem _ he'))
    cases e with
    | meas m => simp [Entry.ms?, hFG, this]
    | gate g => have := ht _ (List.mem_cons_self ..); simp [Entry.isMeas] at this
    | fused qs ms => have := ht _ (List.mem_cons_self ..); simp [Entry.isMeas] at this

theorem mem_of_mem_dropWhile {α : Type} {p : α → Bool} {l : List α} {a : α}
    (h : a ∈ l.dropWhile p) : a ∈ l := by
  induction l with
  | nil => simp at h
  | cons b l ih =>
    simp only [List.dropWhile_cons] at h
    split at h
    · exact List.mem_cons_of_mem _ (ih h)
    · exact h

theorem mem_of_mem_takeWhile {α : Type} {p : α → Bool} {l : List α} {a : α}
    (h : a ∈ l.takeWhile p) : a ∈ l ∧ p a = true := by
  induction l with
  | nil => simp at h
  | cons b l ih =>
    simp only [List.takeWhile_cons] at h
    split at h
    · simp only [List.mem_cons] at h
      rcases h with rfl | h
      · exact ⟨List.mem_cons_self .., by assumption⟩
      · exact ⟨List.mem_cons_of_mem _ (ih h).1, (ih h).2⟩
    · simp at h

/-- **`invert`**: the new queue, entry by entry (constructor-level content): nothing is inserted
    — in particular no basis rotation — and nothing dropped. -/
theorem invert_queue (rw : Bool) (dflt : Nat → ν) (rotOf : Nat → Option Tmpl) (dg : Nat → Nat)
    (dfl : Nat → Option Bool × Option Bool) (q : List (Entry ν)) (hq : Materialised rotOf q)
    (s : St ν) (h : invert true rw dflt rotOf dg dfl q = some s) :
    s.queue.map Entry.erase
      = (q.reverse.dropWhile Entry.isMeas).map (fun e => (e.inv dg dfl).erase) ++
        (q.reverse.takeWhile Entry.isMeas).reverse.map Entry.erase := by
  simp only [invert, invertPlan_eq] at h
  have hquiet : ∀ x ∈ (q.reverse.dropWhile Entry.isMeas).map (invE dg dfl) ++
      (((q.reverse.takeWhile Entry.isMeas).filterMap Entry.ms?).reverse.map
        fun m => Step.rebuilt m m.targets), x.Quiet rotOf := by
    intro x hx
    simp only [List.mem_append, List.mem_map, List.mem_reverse, List.mem_filterMap] at hx
    rcases hx with ⟨e, he, rfl⟩ | ⟨m, ⟨e, he, hm⟩, rfl⟩
    · have he' : e ∈ q := by simpa using mem_of_mem_dropWhile he
      cases e with
      | meas m => exact hq m he'
      | gate g => rfl
      | fused qs ms => rfl
    · have he' := (mem_of_mem_takeWhile he).1
      cases e with
      | meas m' =>
        simp only [Entry.ms?, Option.some.injEq] at hm
        subst hm
        exact hq m' (by simpa using he')
      | gate g => simp [Entry.ms?] at hm
      | fused qs ms => simp [Entry.ms?] at hm
  have := addSteps_quiet Entry.erase nameBlind_erase rw dflt rotOf _ {} s hquiet h
  simp only [List.map_nil, List.nil_append, List.map_append, List.map_map, step_entry_erase] at this
  rw [this]
  congr 1
  · apply List.map_congr_left
    intro e _
    exact invE_erase dg dfl e
  · rw [← List.filterMap_reverse]
    exact filterMap_ms_map (ν := ν) _ Entry.erase (fun m => rfl) _
      (fun e he => (mem_of_mem_takeWhile (List.mem_reverse.1 he)).2)

/-! ### the gate part -/

/-- the queue without its measurement gates. -/
def gatePart (q : List (Entry ν)) : List (Entry ν) := q.filter fun e => !e.isMeas

theorem filter_dropWhile_not {α : Type} (p : α → Bool) (l : List α) :
    (l.dropWhile p).filter (fun a => !p a) = l.filter (fun a => !p a) := by
  induction l with
  | nil => rfl
  | cons a l ih =>
    simp only [List.dropWhile_cons]
    split
    · rename_i h
      simp [List.filter_cons, h, ih]
    · rfl

theorem filter_takeWhile_not {α : Type} (p : α → Bool) (l : List α) :
    (l.takeWhile p).filter (fun a => !p a) = [] := by
  induction l with
  | nil => rfl
  | cons a l ih =>
    simp only [List.takeWhile_cons]
    split
    · rename_i h
      simp [List.filter_cons, h, ih]
    · rfl

theorem isMeas_erase (e : Entry ν) : e.erase.isMeas = e.isMeas := by cases e <;> rfl
theorem isMeas_inv (dg : Nat → Nat) (dfl : Nat → Option Bool × Option Bool) (e : Entry ν) :
    (e.inv dg dfl).isMeas = e.isMeas := by cases e <;> rfl

theorem gatePart_map_erase (q : List (Entry ν)) :
    gatePart (q.map Entry.erase) = (gatePart q).map Entry.erase := by
  simp only [gatePart, List.filter_map]
  congr 1
  apply List.filter_congr
  intro e _
  simp [Function.comp_def, isMeas_erase]

/-- **gate part of the inverse** = the gate part of the circuit, reversed, every entry daggered
    (targets, controls and `is_controlled_by` kept — `T05_invert_gate_keeps_qubits`). -/
theorem invert_gatePart (rw : Bool) (dflt : Nat → ν) (rotOf : Nat → Option Tmpl) (dg : Nat → Nat)
    (dfl : Nat → Option Bool × Option Bool) (q : List (Entry ν)) (hq : Materialised rotOf q)
    (s : St ν) (h : invert true rw dflt rotOf dg dfl q = some s) :
    (gatePart s.queue).map Entry.erase
      = (gatePart q).reverse.map fun e => (e.inv dg dfl).erase := by
  rw [← gatePart_map_erase, invert_queue rw dflt rotOf dg dfl q hq s h]
  simp only [gatePart, List.filter_append, List.filter_map]
  have h1 : ((fun e : Entry ν => !e.isMeas) ∘ fun e : Entry ν => (e.inv dg dfl).erase)
      = fun e : Entry ν => !e.isMeas := by
    funext e
    simp [isMeas_erase, isMeas_inv]
  have h2 : ((fun e : Entry ν => !e.isMeas) ∘ Entry.erase) = fun e : Entry ν => !e.isMeas := by
    funext e
    simp [isMeas_erase]
  rw [h1, h2, filter_dropWhile_not, List.filter_reverse, List.filter_reverse, filter_takeWhile_not]
  simp

theorem inv_erase (dg : Nat → Nat) (dfl : Nat → Option Bool × Option Bool) (e : Entry ν)
    (he : e.isMeas = false) : (e.erase.inv dg dfl).erase = (e.inv dg dfl).erase := by
  cases e with
  | meas m => simp [Entry.isMeas] at he
  | gate g =>
    obtain ⟨uid, ker, ts, cs, cb, tr, kw⟩ := g
    cases tr <;> rfl
  | fused qs ms =>
    simp only [Entry.erase, Entry.inv, List.map_reverse, List.map_map]
    rfl

end QV.CQ
