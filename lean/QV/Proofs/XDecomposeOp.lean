/-
  QV.Proofs.XDecomposeOp — the multi-controlled-X decomposition as an OPERATOR.

  `QV/Proofs/XDecompose*.lean` prove that the gate list of `X.decompose` maps every signed basis
  state `(-1)^s |b⟩` to `(-1)^s |mcxSpec b⟩`.  Here the gates are read as simulator gates
  (`MGate`, `applyGate`, `runCircuit` of QV/Model/Sim.lean, over any commutative ring):

    * `CGate.toMs`                 : X / CNOT / TOFFOLI as (multi-)controlled X matrices; the congruent
                                     Toffoli as `X(c1) X(t) CCZ(c0,c1,t) X(c1) X(t) TOFFOLI(c0,c1,t)`
                                     — the right side of the kernel obligations `C08_congruent_*`
                                     traced from the real `TOFFOLI.congruent(False)`
    * `applyGate_oneTarget`, `applyGate_xOn`, `applyGate_zOn` : one-target gates
    * `Implements L s π`           : the list `L` maps `|x⟩ ↦ (-1)^{s x} |π x⟩` (as an operator on
                                     arbitrary states: `(L ψ)(π x) = (-1)^{s x} ψ x`)
    * `CGate.implements`           : every well-formed model gate implements its `sign` / `apply`
    * `runCircuit_toMs`            : a list of well-formed gates implements `runS`
    * `xDecompose_wf`              : every gate returned by the model of `X.decompose` is well formed
    * `xDecompose_operator`        : **the returned list acts on EVERY state (free qubits in any
                                     state, superpositions included) exactly like the
                                     multi-controlled X gate** — no phase, no condition on the
                                     work qubits.
-/
import QV.Proofs.XDecomposeSigned
import QV.Proofs.SimLemmas
import QV.Proofs.Controlled

namespace QV

/-! ### well-formed model gates -/

/-- the qubits of a gate are distinct where it matters (target off the controls; the two
    controls of a congruent Toffoli distinct). -/
def CGate.WF : CGate → Prop
  | .x _ => True
  | .cnot c t => c ≠ t
  | .toffoli c0 c1 t => c0 ≠ t ∧ c1 ≠ t
  | .rtof c0 c1 t => c0 ≠ c1 ∧ c0 ≠ t ∧ c1 ≠ t

theorem wf_tof (x y z : Nat) (hzx : z ≠ x) (hzy : z ≠ y) : (tof x y z).WF := by
  show min x y ≠ z ∧ max x y ≠ z
  rcases min_max_cases x y with ⟨e1, e2⟩ | ⟨e1, e2⟩ <;> rw [e1, e2]
  · exact ⟨hzx.symm, hzy.symm⟩
  · exact ⟨hzy.symm, hzx.symm⟩

theorem wf_congruent (ut : Bool) (x y z : Nat) (hxy : x ≠ y) (hzx : z ≠ x) (hzy : z ≠ y) :
    (congruent ut x y z).WF := by
  cases ut
  · show min x y ≠ max x y ∧ min x y ≠ z ∧ max x y ≠ z
    rcases min_max_cases x y with ⟨e1, e2⟩ | ⟨e1, e2⟩ <;> rw [e1, e2]
    · exact ⟨hxy, hzx.symm, hzy.symm⟩
    · exact ⟨hxy.symm, hzy.symm, hzx.symm⟩
  · exact wf_tof x y z hzx hzy

theorem wf_mcxSmall (cs : List Nat) (t : Nat) (ht : t ∉ cs) : (mcxSmall cs t).WF := by
  match cs, ht with
  | [], _ => trivial
  | [c], ht =>
    show c ≠ t
    intro e; exact ht (by simp [e])
  | c0 :: c1 :: rest, ht =>
    apply wf_tof
    · intro e; exact ht (by simp [e])
    · intro e; exact ht (by simp [e])

/-- every gate of the ladder branch is well formed. -/
theorem ladderG_wf (ut : Bool) (cs : List Nat) (t : Nat) (fs : List Nat) (k : Nat)
    (hk : cs.length = k + 3) (hfl : k + 1 ≤ fs.length) (hn : (cs ++ t :: fs).Nodup)
    (j : Nat) (hj : j ≤ k + 1) : (ladderG ut cs t fs k j).WF := by
  rw [List.nodup_append] at hn
  obtain ⟨hcs, htfs, hdis⟩ := hn
  rw [List.nodup_cons] at htfs
  obtain ⟨htf, hfs⟩ := htfs
  have hcf : ∀ x, x ∈ cs → ∀ y, y ∈ fs → y ≠ x := by
    intro x hx y hy e
    exact hdis x hx y (List.mem_cons_of_mem _ hy) e.symm
  have hct : ∀ x, x ∈ cs → t ≠ x := by
    intro x hx e
    exact hdis x hx t List.mem_cons_self e.symm
  have hft : ∀ y, y ∈ fs → t ≠ y := by
    intro y hy e
    exact htf (e ▸ hy)
  by_cases h0 : j = 0
  · subst h0
    have e : ladderG ut cs t fs k 0 = congruent ut (cs.getD 0 0) (cs.getD 1 0) (fs.getD 0 0) := by
      simp [ladderG]
    rw [e]
    apply wf_congruent
    · exact getD_ne_of_nodup cs hcs 0 1 (by omega) (by omega)
    · exact hcf _ (getD_mem cs 0 (by omega)) _ (getD_mem fs 0 (by omega))
    · exact hcf _ (getD_mem cs 1 (by omega)) _ (getD_mem fs 0 (by omega))
  · by_cases h1 : j ≤ k
    · have e : ladderG ut cs t fs k j
          = congruent ut (cs.getD (j + 1) 0) (fs.getD (j - 1) 0) (fs.getD j 0) := by
        simp [ladderG, h0, h1]
      rw [e]
      apply wf_congruent
      · exact (hcf _ (getD_mem cs (j + 1) (by omega)) _ (getD_mem fs (j - 1) (by omega))).symm
      · exact hcf _ (getD_mem cs (j + 1) (by omega)) _ (getD_mem fs j (by omega))
      · exact (getD_ne_of_nodup fs hfs (j - 1) j (by omega) (by omega)).symm
    · have e : ladderG ut cs t fs k j = tof (cs.getD (j + 1) 0) (fs.getD (j - 1) 0) t := by
        simp [ladderG, h0, h1]
      rw [e]
      apply wf_tof
      · exact hct _ (getD_mem cs (j + 1) (by omega))
      · exact hft _ (getD_mem fs (j - 1) (by omega))

theorem ladderHalf_wf (ut : Bool) (cs : List Nat) (t : Nat) (fs : List Nat)
    (hm : 3 ≤ cs.length) (hf : cs.length - 2 ≤ fs.length) (hn : (cs ++ t :: fs).Nodup) :
    ∀ g ∈ ladderHalf ut cs t fs, g.WF := by
  obtain ⟨k, hk⟩ : ∃ k, cs.length = k + 3 := ⟨cs.length - 3, by omega⟩
  have hfl : k + 1 ≤ fs.length := by omega
  rw [ladderHalf_eq ut cs t fs k hk]
  intro g hg
  rcases List.mem_cons.mp hg with rfl | hg
  · exact ladderG_wf ut cs t fs k hk hfl hn (k + 1) (le_refl _)
  · obtain ⟨j, hj, rfl⟩ := mem_halfV _ _ _ hg
    exact ladderG_wf ut cs t fs k hk hfl hn j (by omega)

/-- **every gate returned by the model of `X.decompose` is well formed** (all numbers of
    controls, all admissible free lists, both `use_toffolis` values). -/
theorem xDecompose_wf (ut : Bool) : ∀ (fuel : Nat) (cs : List Nat) (t : Nat) (fs : List Nat)
    (gs : List CGate), (cs ++ t :: fs).Nodup → xDecompose ut fuel cs t fs = .ok gs →
    ∀ g ∈ gs, g.WF := by
  intro fuel
  induction fuel with
  | zero => intro cs t fs gs _ h; simp [xDecompose] at h
  | succ fuel ih =>
    intro cs t fs gs hn h
    have htc : t ∉ cs := by
      intro hm
      rw [List.nodup_append] at hn
      exact hn.2.2 t hm t List.mem_cons_self rfl
    rw [xDecompose] at h
    dsimp only at h
    split_ifs at h with h12 hv hm hl hf
    · injection h with h; subst h
      intro g hg
      rw [List.mem_singleton.mp hg]; exact wf_mcxSmall cs t htc
    · injection h with h; subst h
      intro g hg
      rw [List.mem_singleton.mp hg]; exact wf_mcxSmall cs t htc
    · injection h with h; subst h
      intro g hg
      have := ladderHalf_wf ut cs t fs (by omega) (by omega) hn
      rcases List.mem_append.mp hg with hg | hg <;> exact this g hg
    · obtain ⟨f0, fs', rfl⟩ : ∃ f0 fs', fs = f0 :: fs' := by
        cases fs with
        | nil => simp at hf
        | cons f0 fs' => exact ⟨f0, fs', rfl⟩
      simp only [List.getD_cons_zero, List.drop_one, List.tail_cons, List.length_cons] at h
      obtain ⟨n1, n2, _⟩ := nodup_parts cs t f0 fs' ((cs.length + 1 + (fs'.length + 1)) / 2) hn
      cases h1 : xDecompose ut fuel (srt (List.take ((cs.length + 1 + (fs'.length + 1)) / 2) cs)) f0
          (List.drop ((cs.length + 1 + (fs'.length + 1)) / 2) cs ++ [t] ++ fs') with
      | ok p1 =>
        rw [h1] at h
        simp only at h
        cases h2 : xDecompose ut fuel (srt (List.drop ((cs.length + 1 + (fs'.length + 1)) / 2) cs ++ [f0])) t
            (List.take ((cs.length + 1 + (fs'.length + 1)) / 2) cs ++ fs') with
        | ok p2 =>
          rw [h2] at h
          simp only at h
          injection h with h; subst h
          have s1 := ih _ _ _ _ ((nodup_srt_append _ _).2 n1) h1
          have s2 := ih _ _ _ _ ((nodup_srt_append _ _).2 n2) h2
          intro g hg
          simp only [List.mem_append] at hg
          rcases hg with (hg | hg) | (hg | hg)
          · exact s1 g hg
          · exact s2 g hg
          · exact s1 g hg
          · exact s2 g hg
        | valueError => rw [h2] at h; simp at h
        | notImplemented => rw [h2] at h; simp at h
        | outOfFuel => rw [h2] at h; simp at h
      | valueError => rw [h1] at h; simp at h
      | notImplemented => rw [h1] at h; simp at h
      | outOfFuel => rw [h1] at h; simp at h

/-! ### model gates as simulator gates -/

section Op
variable {α : Type} [CommRing α]

/-- Pauli X as a local matrix (indices 0, 1). -/
def xMat : Nat → Nat → α := fun i j => if i = j then 0 else 1
/-- Pauli Z as a local matrix. -/
def zMat : Nat → Nat → α := fun i j => if i = j then (if i = 0 then 1 else -1) else 0

/-- X on `t` controlled on `cs` (X, CNOT, TOFFOLI, multi-controlled X). -/
def xOn (cs : List Nat) (t : Nat) : MGate α := { mat := xMat, targets := [t], controls := cs }
/-- Z on `t` controlled on `cs` (Z, CZ, CCZ). -/
def zOn (cs : List Nat) (t : Nat) : MGate α := { mat := zMat, targets := [t], controls := cs }

/-- a model gate as a list of simulator gates. -/
def CGate.toMs : CGate → List (MGate α)
  | .x t => [xOn [] t]
  | .cnot c t => [xOn [c] t]
  | .toffoli c0 c1 t => [xOn [c0, c1] t]
  | .rtof c0 c1 t => [xOn [] c1, xOn [] t, zOn [c0, c1] t, xOn [] c1, xOn [] t, xOn [c0, c1] t]

/-- `(-1)^b`. -/
def sgn (b : Bool) : α := if b then -1 else 1

theorem sgn_xor (a b : Bool) : (sgn (xor a b) : α) = sgn a * sgn b := by
  cases a <;> cases b <;> simp [sgn]

theorem sgn_mul_self (a : Bool) : (sgn a : α) * sgn a = 1 := by
  cases a <;> simp [sgn]

theorem Lab.idx_single (t : Nat) (y : Lab) : Lab.idx [t] y = if y t then 1 else 0 := by
  simp [Lab.idx]

/-- a gate with one target. -/
theorem applyGate_oneTarget (M : Nat → Nat → α) (cs : List Nat) (t : Nat) (ψ : Lab → α) (x : Lab) :
    applyGate { mat := M, targets := [t], controls := cs } ψ x
      = if Lab.allOne cs x then
          M (if x t then 1 else 0) 0 * ψ (x.set t false) + M (if x t then 1 else 0) 1 * ψ (x.set t true)
        else ψ x := by
  unfold applyGate
  simp only [sumOver, Lab.idx_single, Lab.cset_same]
  simp

theorem applyGate_xOn (cs : List Nat) (t : Nat) (ψ : Lab → α) (x : Lab) :
    applyGate (xOn cs t) ψ x = if Lab.allOne cs x then ψ (x.set t (!x t)) else ψ x := by
  unfold xOn
  rw [applyGate_oneTarget]
  cases hx : x t <;> simp [xMat]

theorem applyGate_zOn (cs : List Nat) (t : Nat) (ψ : Lab → α) (x : Lab) :
    applyGate (zOn cs t) ψ x = if Lab.allOne cs x then sgn (x t) * ψ x else ψ x := by
  unfold zOn
  rw [applyGate_oneTarget]
  cases hx : x t
  · have : x.set t false = x := by rw [← hx]; exact Lab.set_self x t
    simp [zMat, sgn, this]
  · have : x.set t true = x := by rw [← hx]; exact Lab.set_self x t
    simp [zMat, sgn, this]

/-- the list `L` maps the basis state `|x⟩` to `(-1)^{s x} |π x⟩`; stated on arbitrary states. -/
def Implements (L : List (MGate α)) (s : Lab → Bool) (π : Lab → Lab) : Prop :=
  ∀ (ψ : Lab → α) (x : Lab), runCircuit L ψ (π x) = sgn (s x) * ψ x

theorem Implements.append {L₁ L₂ : List (MGate α)} {s₁ s₂ : Lab → Bool} {π₁ π₂ : Lab → Lab}
    (h₁ : Implements L₁ s₁ π₁) (h₂ : Implements L₂ s₂ π₂) :
    Implements (L₁ ++ L₂) (fun x => xor (s₁ x) (s₂ (π₁ x))) (fun x => π₂ (π₁ x)) := by
  intro ψ x
  rw [runCircuit_append, h₂, h₁, sgn_xor, ← mul_assoc, mul_comm (sgn (s₂ (π₁ x)))]

theorem Lab.allOne_set_of_not_mem (cs : List Nat) (t : Nat) (v : Bool) (x : Lab) (h : t ∉ cs) :
    Lab.allOne cs (x.set t v) = Lab.allOne cs x :=
  Lab.allOne_congr fun r hr => Lab.cset_other x t v r (fun e => h (e ▸ hr))

/-- a controlled X whose target is off its controls implements the controlled flip. -/
theorem implements_xOn (cs : List Nat) (t : Nat) (h : t ∉ cs) :
    Implements ([xOn cs t] : List (MGate α)) (fun _ => false)
      (fun x => x.set t (xor (x t) (Lab.allOne cs x))) := by
  intro ψ x
  show applyGate (xOn cs t) ψ _ = _
  rw [applyGate_xOn, Lab.allOne_set_of_not_mem cs t _ x h]
  by_cases hc : Lab.allOne cs x = true
  · simp only [hc, if_true, Lab.cset_same, Bool.xor_true, Bool.not_not, Lab.set_set_same, sgn,
      Bool.false_eq_true, if_false, one_mul]
    rw [Lab.set_self]
  · have hc' : Lab.allOne cs x = false := by simpa using hc
    simp [hc', sgn, Lab.set_self]

/-- a controlled Z implements the sign `AND(controls) ∧ target`. -/
theorem implements_zOn (cs : List Nat) (t : Nat) :
    Implements ([zOn cs t] : List (MGate α)) (fun x => Lab.allOne cs x && x t) (fun x => x) := by
  intro ψ x
  show applyGate (zOn cs t) ψ x = _
  rw [applyGate_zOn]
  by_cases hc : Lab.allOne cs x = true
  · simp [hc]
  · have hc' : Lab.allOne cs x = false := by simpa using hc
    simp [hc', sgn]

theorem Lab.allOne_pair (a b : Nat) (x : Lab) : Lab.allOne [a, b] x = (x a && x b) := by
  simp [Lab.allOne]

theorem Lab.allOne_single (a : Nat) (x : Lab) : Lab.allOne [a] x = x a := by
  simp [Lab.allOne]

/-- **every well-formed model gate implements its classical action and sign.** -/
theorem CGate.implements (g : CGate) (hg : g.WF) :
    Implements (g.toMs : List (MGate α)) g.sign g.apply := by
  cases g with
  | x t =>
    have := implements_xOn (α := α) [] t (by simp)
    intro ψ x
    have h := this ψ x
    simpa [Lab.allOne, CGate.toMs, CGate.apply, CGate.sign] using h
  | cnot c t =>
    have hct : t ∉ [c] := by
      intro hm; exact hg (List.mem_singleton.mp hm).symm
    intro ψ x
    have h := implements_xOn (α := α) [c] t hct ψ x
    simpa [Lab.allOne_single, CGate.toMs, CGate.apply, CGate.sign] using h
  | toffoli c0 c1 t =>
    obtain ⟨h0, h1⟩ := hg
    have hct : t ∉ [c0, c1] := by
      intro hm
      rcases List.mem_cons.mp hm with e | hm
      · exact h0 e.symm
      · exact h1 (List.mem_singleton.mp hm).symm
    intro ψ x
    have h := implements_xOn (α := α) [c0, c1] t hct ψ x
    simpa [Lab.allOne_pair, CGate.toMs, CGate.apply, CGate.sign] using h
  | rtof c0 c1 t =>
    obtain ⟨h01, h0t, h1t⟩ := hg
    have hct : t ∉ [c0, c1] := by
      intro hm
      rcases List.mem_cons.mp hm with e | hm
      · exact h0t e.symm
      · exact h1t (List.mem_singleton.mp hm).symm
    have hX1 := implements_xOn (α := α) [] c1 (by simp)
    have hXt := implements_xOn (α := α) [] t (by simp)
    have hZ := implements_zOn (α := α) [c0, c1] t
    have hT := implements_xOn (α := α) [c0, c1] t hct
    have hall := ((((hX1.append hXt).append hZ).append hX1).append hXt).append hT
    intro ψ x
    have h := hall ψ x
    simp only [List.cons_append, List.nil_append, Lab.allOne, List.all_nil, Bool.xor_true,
      Bool.xor_false, Bool.false_xor, List.all_cons, Bool.and_true] at h
    have hc1t : c1 ≠ t := h1t
    have hc0t : c0 ≠ t := h0t
    have hc01 : c0 ≠ c1 := h01
    -- the label reached
    have hπ : ((((x.set c1 (!x c1)).set t (!(x.set c1 (!x c1)) t)).set c1
          (!((x.set c1 (!x c1)).set t (!(x.set c1 (!x c1)) t)) c1)).set t
          (!(((x.set c1 (!x c1)).set t (!(x.set c1 (!x c1)) t)).set c1
            (!((x.set c1 (!x c1)).set t (!(x.set c1 (!x c1)) t)) c1)) t)) = x := by
      funext r
      by_cases hr1 : r = c1
      · subst hr1
        simp [Lab.set, hc1t, hc1t.symm]
      · by_cases hrt : r = t
        · subst hrt
          simp [Lab.set, hc1t, hc1t.symm]
        · simp [Lab.set, hr1, hrt]
    rw [hπ] at h
    show runCircuit (CGate.toMs (.rtof c0 c1 t)) ψ (x.set t (xor (x t) (x c0 && x c1))) = _
    simp only [CGate.toMs]
    rw [h]
    congr 1
    show sgn _ = sgn (x c0 && !x c1 && !x t)
    congr 1
    simp [Lab.set, hc1t, hc1t.symm, hc0t, hc0t.symm, hc01, hc01.symm]

/-- a list of model gates as simulator gates. -/
def toMsList (gs : List CGate) : List (MGate α) := gs.flatMap CGate.toMs

/-- **a list of well-formed gates implements `runS`**: for every start sign `s`,
    `(-1)^s · (L ψ)(b') = (-1)^{s'} · ψ b` where `(s', b') = runS gs (s, b)`. -/
theorem runCircuit_toMs (gs : List CGate) (hwf : ∀ g ∈ gs, g.WF) :
    ∀ (s : Bool) (ψ : Lab → α) (x : Lab),
      sgn s * runCircuit (toMsList gs) ψ (runS gs (s, x)).2 = sgn (runS gs (s, x)).1 * ψ x := by
  induction gs with
  | nil => intro s ψ x; rfl
  | cons g gs ih =>
    intro s ψ x
    have hg := CGate.implements (α := α) g (hwf g List.mem_cons_self)
    have ih' := ih (fun g' hg' => hwf g' (List.mem_cons_of_mem _ hg')) (xor s (g.sign x))
      (runCircuit g.toMs ψ) (g.apply x)
    rw [hg ψ x, sgn_xor] at ih'
    have e : runS (g :: gs) (s, x) = runS gs (xor s (g.sign x), g.apply x) := rfl
    rw [e]
    have e2 : toMsList (α := α) (g :: gs) = g.toMs ++ toMsList gs := by
      simp [toMsList]
    rw [e2, runCircuit_append]
    -- ih' : sgn s * sgn (g.sign x) * R = sgn final * (sgn (g.sign x) * ψ x)
    have := congrArg (fun v => sgn (g.sign x) * v) ih'
    beta_reduce at this
    calc sgn s * runCircuit (toMsList gs) (runCircuit g.toMs ψ) (runS gs (xor s (g.sign x), g.apply x)).2
        = (sgn (g.sign x) * sgn (g.sign x)) * (sgn s *
            runCircuit (toMsList gs) (runCircuit g.toMs ψ) (runS gs (xor s (g.sign x), g.apply x)).2) := by
          rw [sgn_mul_self, one_mul]
      _ = sgn (g.sign x) * (sgn s * sgn (g.sign x) *
            runCircuit (toMsList gs) (runCircuit g.toMs ψ) (runS gs (xor s (g.sign x), g.apply x)).2) := by
          ring
      _ = sgn (g.sign x) * (sgn (runS gs (xor s (g.sign x), g.apply x)).1 * (sgn (g.sign x) * ψ x)) := this
      _ = (sgn (g.sign x) * sgn (g.sign x)) * (sgn (runS gs (xor s (g.sign x), g.apply x)).1 * ψ x) := by
          ring
      _ = sgn (runS gs (xor s (g.sign x), g.apply x)).1 * ψ x := by rw [sgn_mul_self, one_mul]

theorem mcxSpec_involutive (cs : List Nat) (t : Nat) (h : t ∉ cs) (x : Lab) :
    mcxSpec cs t (mcxSpec cs t x) = x := by
  unfold mcxSpec
  have hall : cs.all (x.set t (xor (x t) (cs.all x))) = cs.all x :=
    Lab.allOne_set_of_not_mem cs t _ x h
  rw [hall, Lab.cset_same, Lab.set_set_same]
  cases cs.all x <;> simp [Lab.set_self]

/-- the multi-controlled X gate pulls a state back along `mcxSpec`. -/
theorem applyGate_mcx (cs : List Nat) (t : Nat) (ψ : Lab → α) (y : Lab) :
    applyGate (xOn cs t) ψ y = ψ (mcxSpec cs t y) := by
  rw [applyGate_xOn]
  unfold mcxSpec
  show (if cs.all y then _ else _) = _
  cases h : cs.all y
  · simp [Lab.set_self]
  · simp

/-- **OPERATOR FORM of the multi-controlled-X theorem.**  For all numbers of controls, all free
    lists (controls, target, free qubits pairwise distinct) and both `use_toffolis` values: the
    gate list returned by the model of `X.decompose`, read as simulator gates, acts on EVERY
    state `ψ` of every register exactly like the multi-controlled X gate — in particular
    whatever the state of the borrowed qubits is (basis, superposition, entangled with the
    rest), and without any phase. -/
theorem xDecompose_operator (ut : Bool) (fuel : Nat) (cs : List Nat) (t : Nat) (fs : List Nat)
    (gs : List CGate) (hn : (cs ++ t :: fs).Nodup) (h : xDecompose ut fuel cs t fs = .ok gs)
    (ψ : Lab → α) (y : Lab) :
    runCircuit (toMsList gs) ψ y = applyGate (xOn cs t) ψ y := by
  have htc : t ∉ cs := by
    intro hm
    rw [List.nodup_append] at hn
    exact hn.2.2 t hm t List.mem_cons_self rfl
  have hwf := xDecompose_wf ut fuel cs t fs gs hn h
  have hs := xDecompose_spec_signed ut fuel cs t fs gs hn h false (mcxSpec cs t y)
  have key := runCircuit_toMs (α := α) gs hwf false ψ (mcxSpec cs t y)
  rw [hs] at key
  have one : (sgn false : α) = 1 := by simp [sgn]
  rw [one, one_mul, one_mul] at key
  rw [mcxSpec_involutive cs t htc] at key
  rw [key, applyGate_mcx]

end Op

end QV
