/-
  QV.Proofs.Controlled — `controlled_by` in the simulator model and the PHASE LEMMA.

  qibo's `Gate.controlled_by(*cs)` puts the qubits `cs` in front of a gate that has no
  `controlled_by` controls yet; the simulator applies the local matrix only on labels whose
  controls are all 1 (`applyGate`).  Here:

    * `MGate.ctrl cs g`              : the gate with the extra controls `cs`
    * `applyGate_ctrl`               : it acts like `g` on the block "all of `cs` are 1" and like
                                       the identity elsewhere
    * `applyGate_agree_on`, `runCircuit_agree_on`
                                     : gates whose targets avoid `cs` act inside that block
    * `runCircuit_map_ctrl`          : a LIST of gates, each controlled on `cs`, acts like the list
                                       on the block and like the identity elsewhere
    * `MGate.phaseOn cs c`           : the phase gate on the controls (multiplies the block by `c`)
    * `runCircuit_ctrl_of_phase`     : PHASE LEMMA — base = c · Π parts ⇒
                                       Π controlled(parts) = phaseOn cs c · controlled(base)
    * `ctrl_parts_global_iff`        : … which is a global phase of controlled(base) iff `c = 1`
                                       (at least one control, base not the zero operator on the block)
-/
import QV.Proofs.SimLemmas

namespace QV

variable {α : Type}

/-- `g.controlled_by(*cs)`: the qubits `cs` become additional controls. -/
def MGate.ctrl (cs : List Nat) (g : MGate α) : MGate α := { g with controls := cs ++ g.controls }

/-- the phase gate on the controls: multiplies the amplitudes of the labels on which all of
    `cs` are 1 by `c` (no target; for one control it is `diag(1, c)` on that qubit). -/
def MGate.phaseOn (cs : List Nat) (c : α) : MGate α :=
  { mat := fun _ _ => c, targets := [], controls := cs }

theorem Lab.allOne_append (cs ds : List Nat) (x : Lab) :
    Lab.allOne (cs ++ ds) x = (Lab.allOne cs x && Lab.allOne ds x) := by
  simp [Lab.allOne, List.all_append]

@[simp] theorem MGate.ctrl_targets (cs : List Nat) (g : MGate α) : (g.ctrl cs).targets = g.targets := rfl
@[simp] theorem MGate.ctrl_controls (cs : List Nat) (g : MGate α) :
    (g.ctrl cs).controls = cs ++ g.controls := rfl
@[simp] theorem MGate.ctrl_mat (cs : List Nat) (g : MGate α) : (g.ctrl cs).mat = g.mat := rfl

theorem MGate.ctrl_nil (g : MGate α) : g.ctrl [] = g := rfl

section Basic
variable [Zero α] [Add α] [Mul α]

/-- a controlled gate acts like the gate where all controls are 1 and like the identity elsewhere. -/
theorem applyGate_ctrl (cs : List Nat) (g : MGate α) (ψ : Lab → α) (x : Lab) :
    applyGate (g.ctrl cs) ψ x = if Lab.allOne cs x then applyGate g ψ x else ψ x := by
  unfold applyGate
  simp only [MGate.ctrl_controls, MGate.ctrl_targets, MGate.ctrl_mat, Lab.allOne_append]
  cases h1 : Lab.allOne cs x <;> simp

theorem applyGate_phaseOn (cs : List Nat) (c : α) (ψ : Lab → α) (x : Lab) :
    applyGate (MGate.phaseOn cs c) ψ x = if Lab.allOne cs x then c * ψ x else ψ x := by
  unfold applyGate MGate.phaseOn
  simp only [sumOver]

/-- a gate whose targets avoid `cs` acts inside the block "all of `cs` are 1": its value on
    a label of the block only depends on the state's values on the block. -/
theorem applyGate_agree_on (cs : List Nat) (g : MGate α) (hd : ∀ q, q ∈ cs → q ∉ g.targets)
    (φ₁ φ₂ : Lab → α) (h : ∀ y, Lab.allOne cs y = true → φ₁ y = φ₂ y)
    (x : Lab) (hx : Lab.allOne cs x = true) : applyGate g φ₁ x = applyGate g φ₂ x := by
  unfold applyGate
  split
  · apply sumOver_congr
    intro y hy
    have : Lab.allOne cs y = Lab.allOne cs x := Lab.allOne_congr fun r hr => hy r (hd r hr)
    rw [h y (this.trans hx)]
  · exact h x hx

theorem runCircuit_agree_on (cs : List Nat) (gs : List (MGate α))
    (hd : ∀ g ∈ gs, ∀ q, q ∈ cs → q ∉ g.targets)
    (φ₁ φ₂ : Lab → α) (h : ∀ y, Lab.allOne cs y = true → φ₁ y = φ₂ y)
    (x : Lab) (hx : Lab.allOne cs x = true) : runCircuit gs φ₁ x = runCircuit gs φ₂ x := by
  induction gs generalizing φ₁ φ₂ x with
  | nil => exact h x hx
  | cons g gs ih =>
    show runCircuit gs (applyGate g φ₁) x = runCircuit gs (applyGate g φ₂) x
    exact ih (fun g' hg' => hd g' (List.mem_cons_of_mem _ hg')) _ _
      (fun y hy => applyGate_agree_on cs g (hd g List.mem_cons_self) φ₁ φ₂ h y hy) x hx

/-- **a list of gates each controlled on `cs`** (none of them acting on `cs`) acts like the list
    on the block "all of `cs` are 1" and like the identity elsewhere — every list length. -/
theorem runCircuit_map_ctrl (cs : List Nat) (gs : List (MGate α))
    (hd : ∀ g ∈ gs, ∀ q, q ∈ cs → q ∉ g.targets) (ψ : Lab → α) (x : Lab) :
    runCircuit (gs.map (MGate.ctrl cs)) ψ x
      = if Lab.allOne cs x then runCircuit gs ψ x else ψ x := by
  induction gs generalizing ψ with
  | nil => simp [runCircuit]
  | cons g gs ih =>
    have hd' : ∀ g' ∈ gs, ∀ q, q ∈ cs → q ∉ g'.targets :=
      fun g' hg' => hd g' (List.mem_cons_of_mem _ hg')
    show runCircuit (gs.map (MGate.ctrl cs)) (applyGate (g.ctrl cs) ψ) x = _
    rw [ih hd']
    cases hx : Lab.allOne cs x
    · simp only [Bool.false_eq_true, if_false]
      rw [applyGate_ctrl, hx]; simp
    · simp only [if_true]
      show _ = runCircuit gs (applyGate g ψ) x
      apply runCircuit_agree_on cs gs hd' _ _ _ x hx
      intro y hy
      rw [applyGate_ctrl, hy]; simp

end Basic

section Phase
variable [CommSemiring α]

/-- **PHASE LEMMA.**  If a gate list equals the gate `base` up to the scalar `c`
    (`Π parts = c · base` on every state), then the list of the parts each controlled on `cs`
    equals the controlled gate FOLLOWED BY THE PHASE GATE `diag(1,…,1,c)` ON THE CONTROLS:
    the global phase of the bare decomposition becomes a relative phase between the block
    where the controls are on and the rest. -/
theorem runCircuit_ctrl_of_phase (cs : List Nat) (base : MGate α) (parts : List (MGate α)) (c : α)
    (hd : ∀ g ∈ parts, ∀ q, q ∈ cs → q ∉ g.targets)
    (h : ∀ (ψ : Lab → α) (x : Lab), runCircuit parts ψ x = c * applyGate base ψ x)
    (ψ : Lab → α) (x : Lab) :
    runCircuit (parts.map (MGate.ctrl cs)) ψ x
      = applyGate (MGate.phaseOn cs c) (applyGate (base.ctrl cs) ψ) x := by
  rw [runCircuit_map_ctrl cs parts hd, applyGate_phaseOn, applyGate_ctrl]
  cases hx : Lab.allOne cs x
  · simp
  · simp only [if_true]; exact h ψ x

/-- pointwise form: the factor is `c` on the block and `1` off it. -/
theorem runCircuit_ctrl_of_phase' (cs : List Nat) (base : MGate α) (parts : List (MGate α)) (c : α)
    (hd : ∀ g ∈ parts, ∀ q, q ∈ cs → q ∉ g.targets)
    (h : ∀ (ψ : Lab → α) (x : Lab), runCircuit parts ψ x = c * applyGate base ψ x)
    (ψ : Lab → α) (x : Lab) :
    runCircuit (parts.map (MGate.ctrl cs)) ψ x
      = (if Lab.allOne cs x then c else 1) * applyGate (base.ctrl cs) ψ x := by
  rw [runCircuit_ctrl_of_phase cs base parts c hd h, applyGate_phaseOn]
  cases hx : Lab.allOne cs x <;> simp

/-- phase exactly 1 ⇒ "decompose the bare gate and attach the controls" is exact. -/
theorem runCircuit_ctrl_of_exact (cs : List Nat) (base : MGate α) (parts : List (MGate α))
    (hd : ∀ g ∈ parts, ∀ q, q ∈ cs → q ∉ g.targets)
    (h : ∀ (ψ : Lab → α) (x : Lab), runCircuit parts ψ x = applyGate base ψ x)
    (ψ : Lab → α) (x : Lab) :
    runCircuit (parts.map (MGate.ctrl cs)) ψ x = applyGate (base.ctrl cs) ψ x := by
  rw [runCircuit_ctrl_of_phase' cs base parts 1 hd (fun ψ x => by rw [h, one_mul])]
  cases hx : Lab.allOne cs x <;> simp

end Phase

section Iff
variable [Field α]

/-- a label on which not all of `cs` are 1 exists as soon as there is a control. -/
theorem exists_controls_off {cs : List Nat} (hcs : cs ≠ []) : ∃ x : Lab, Lab.allOne cs x = false := by
  obtain ⟨q, qs, rfl⟩ := List.exists_cons_of_ne_nil hcs
  exact ⟨fun _ => false, by simp [Lab.allOne]⟩

/-- **attach-controls is right iff the phase is exactly 1.**  With at least one control and a
    base gate that is not the zero operator on the block where the controls are on: the list of
    controlled parts equals the controlled gate up to SOME global scalar iff the scalar `c` of
    the bare decomposition is `1`. -/
theorem ctrl_parts_global_iff (cs : List Nat) (hcs : cs ≠ []) (base : MGate α)
    (parts : List (MGate α)) (c : α)
    (hd : ∀ g ∈ parts, ∀ q, q ∈ cs → q ∉ g.targets)
    (h : ∀ (ψ : Lab → α) (x : Lab), runCircuit parts ψ x = c * applyGate base ψ x)
    (hne : ∃ (ψ : Lab → α) (x : Lab), Lab.allOne cs x = true ∧ applyGate base ψ x ≠ 0) :
    (∃ c' : α, ∀ (ψ : Lab → α) (x : Lab),
        runCircuit (parts.map (MGate.ctrl cs)) ψ x = c' * applyGate (base.ctrl cs) ψ x)
      ↔ c = 1 := by
  constructor
  · rintro ⟨c', hc'⟩
    -- off the block: c' = 1
    obtain ⟨x0, hx0⟩ := exists_controls_off hcs
    have h0 := hc' (fun _ => 1) x0
    rw [runCircuit_ctrl_of_phase' cs base parts c hd h, hx0, applyGate_ctrl, hx0] at h0
    simp only [Bool.false_eq_true, if_false, one_mul, mul_one] at h0
    -- on the block: c * v = c' * v with v ≠ 0
    obtain ⟨ψ, x, hx, hv⟩ := hne
    have h1 := hc' ψ x
    rw [runCircuit_ctrl_of_phase' cs base parts c hd h, hx, applyGate_ctrl, hx] at h1
    simp only [if_true] at h1
    rw [← h0, one_mul] at h1
    have : (c - 1) * applyGate base ψ x = 0 := by rw [sub_mul, one_mul, h1, sub_self]
    rcases mul_eq_zero.mp this with e | e
    · exact sub_eq_zero.mp e
    · exact absurd e hv
  · rintro rfl
    exact ⟨1, fun ψ x => by
      rw [one_mul]
      exact runCircuit_ctrl_of_exact cs base parts hd (fun ψ x => by rw [h, one_mul]) ψ x⟩

end Iff

end QV
