/-
  Lemmas about the model of bit-flip readout noise (QV/Model/Bitflip.lean).
-/
import Mathlib.Data.List.Basic
import Mathlib.Data.List.Nodup
import Mathlib.Data.List.Zip
import Mathlib.Tactic.Common
import QV.Model.Bitflip
import QV.Proofs.Measure

set_option linter.unusedSectionVars false
set_option linter.unusedSimpArgs false
set_option linter.unusedVariables false

namespace QV.BF
open QV

variable {P : Type} [Zero P] [One P] [Add P] [LT P] [DecidableLT P]

/-! ### the flip map -/

/-- SPEC (the documentation of `gates.M`): probability the form `f` assigns to the measured
qubit `q` of a gate measuring `qs`: a single number is used for all qubits, a list / tuple is
positional (entry `j` belongs to the `j`-th qubit GIVEN to the gate), a dictionary maps the qubit
id to its probability (missing qubits: 0), no argument: 0. -/
def docProb (qs : List Nat) : PForm P → Nat → P
  | .none, _ => 0
  | .scalar p, _ => p
  | .list ps, q => ps.getD (qs.idxOf q) 0
  | .dict kvs, q => (dictGet kvs q).getD 0
  | .other, _ => 0

/-- SPEC: the raising cases of `_get_bitflip_tuple`. -/
def tupleErr (qs : List Nat) : PForm P → Option Err
  | .none => some .type
  | .scalar p => if p < 0 ∨ 1 < p then some .value else none
  | .list ps => if ps.length = qs.length then none else some .value
  | .dict kvs => if kvs.all (fun kv => qs.contains kv.1) then none else some .key
  | .other => some .type

theorem mapGet_zip {qs : List Nat} (hn : qs.Nodup) : ∀ {pt : List P}, pt.length = qs.length →
    ∀ {q : Nat}, q ∈ qs → mapGet (qs.zip pt) q = some (pt.getD (qs.idxOf q) 0) := by
  induction qs with
  | nil => intro pt _ q hq; cases hq
  | cons a qs ih =>
    intro pt hl q hq
    cases pt with
    | nil => simp at hl
    | cons x pt =>
      have hn' := List.nodup_cons.mp hn
      by_cases e : a = q
      · subst e
        simp [mapGet, List.zip_cons_cons, List.find?_cons]
      · have hq' : q ∈ qs := by
          rcases List.mem_cons.mp hq with h | h
          · exact absurd h.symm e
          · exact h
        have := ih hn'.2 (pt := pt) (by simpa using hl) hq'
        simp only [mapGet] at this ⊢
        rw [List.zip_cons_cons, List.find?_cons]
        have hne : ((a, x).1 == q) = false := by simpa using e
        rw [hne]
        simp only [List.idxOf_cons, beq_iff_eq, e, if_false, List.getD_cons_succ]
        have e' : (a == q) = false := by simpa using e
        simp only [e']
        simpa using this

theorem zip_map_fst (qs : List Nat) : ∀ (pt : List P), pt.length = qs.length →
    (qs.zip pt).map (·.1) = qs := by
  intro pt hl
  rw [List.map_fst_zip]
  omega

theorem flipTuple_ok_iff (qs : List Nat) (f : PForm P) :
    (∃ pt, flipTuple qs f = .ok pt) ↔ tupleErr qs f = none := by
  cases f with
  | none => simp [flipTuple, tupleErr]
  | other => simp [flipTuple, tupleErr]
  | scalar p =>
    simp only [flipTuple, tupleErr]
    split <;> simp
  | list ps =>
    simp only [flipTuple, tupleErr]
    split <;> simp
  | dict kvs =>
    simp only [flipTuple, tupleErr]
    split <;> simp

theorem flipTuple_err (qs : List Nat) (f : PForm P) (e : Err) :
    flipTuple qs f = .error e ↔ tupleErr qs f = some e := by
  cases f with
  | none => simp [flipTuple, tupleErr, eq_comm]
  | other => simp [flipTuple, tupleErr, eq_comm]
  | scalar p =>
    simp only [flipTuple, tupleErr]
    split <;> simp [eq_comm]
  | list ps =>
    simp only [flipTuple, tupleErr]
    split <;> simp [eq_comm]
  | dict kvs =>
    simp only [flipTuple, tupleErr]
    split <;> simp [eq_comm]

/-- the tuple has one entry per measured qubit, and entry `j` is the documented probability of
the `j`-th qubit given to the gate. -/
theorem flipTuple_spec {qs : List Nat} {f : PForm P} {pt : List P} (h : flipTuple qs f = .ok pt) :
    pt.length = qs.length ∧ ∀ q ∈ qs, pt.getD (qs.idxOf q) 0 = docProb qs f q := by
  cases f with
  | none => simp [flipTuple] at h
  | other => simp [flipTuple] at h
  | scalar p =>
    simp only [flipTuple] at h
    split at h
    · cases h
    · cases h
      refine ⟨by simp, ?_⟩
      intro q hq
      have : qs.idxOf q < qs.length := List.idxOf_lt_length_iff.mpr hq
      simp [docProb, List.getD_eq_getElem?_getD, List.getElem?_replicate, this]
  | list ps =>
    simp only [flipTuple] at h
    split at h
    · cases h
      rename_i hl
      exact ⟨hl, fun q _ => rfl⟩
    · cases h
  | dict kvs =>
    simp only [flipTuple] at h
    split at h
    · cases h
      refine ⟨by simp, ?_⟩
      intro q hq
      have hi : qs.idxOf q < qs.length := List.idxOf_lt_length_iff.mpr hq
      simp only [docProb, List.getD_eq_getElem?_getD]
      rw [List.getElem?_map, List.getElem?_eq_getElem hi]
      simp [List.getElem_idxOf]
    · cases h

/-- SPEC: the raising cases of `_get_bitflip_map`. -/
def mapErr (qs : List Nat) (f : PForm P) : Option Err := if f.isNone then none else tupleErr qs f

theorem flipMap_err (qs : List Nat) (f : PForm P) (e : Err) :
    flipMap qs f = .error e ↔ mapErr qs f = some e := by
  cases f with
  | none => simp [flipMap, mapErr, PForm.isNone]
  | other => simp [flipMap, mapErr, PForm.isNone, flipTuple, tupleErr, Except.map, eq_comm]
  | scalar p =>
    simp only [flipMap, mapErr, PForm.isNone, Bool.false_eq_true, if_false, ← flipTuple_err]
    cases flipTuple qs (PForm.scalar p) <;> simp [Except.map]
  | list ps =>
    simp only [flipMap, mapErr, PForm.isNone, Bool.false_eq_true, if_false, ← flipTuple_err]
    cases flipTuple qs (PForm.list ps) <;> simp [Except.map]
  | dict kvs =>
    simp only [flipMap, mapErr, PForm.isNone, Bool.false_eq_true, if_false, ← flipTuple_err]
    cases flipTuple qs (PForm.dict kvs) <;> simp [Except.map]

/-- **the flip map gives every measured qubit its documented probability**, whatever the form
and the order of the measured qubits; its keys are exactly the measured qubits. -/
theorem flipMap_spec {qs : List Nat} (hn : qs.Nodup) {f : PForm P} {m : FMap P}
    (h : flipMap qs f = .ok m) :
    m.map (·.1) = qs ∧ ∀ q ∈ qs, mapGet m q = some (docProb qs f q) := by
  have key : ∀ pt : List P, pt.length = qs.length →
      (∀ q ∈ qs, pt.getD (qs.idxOf q) 0 = docProb qs f q) → m = qs.zip pt →
      m.map (·.1) = qs ∧ ∀ q ∈ qs, mapGet m q = some (docProb qs f q) := by
    intro pt hl hd hm
    subst hm
    refine ⟨zip_map_fst qs pt hl, fun q hq => ?_⟩
    rw [mapGet_zip hn hl hq, hd q hq]
  cases f with
  | none =>
    simp only [flipMap] at h
    cases h
    refine key (List.replicate qs.length 0) (by simp) ?_ ?_
    · intro q hq
      have : qs.idxOf q < qs.length := List.idxOf_lt_length_iff.mpr hq
      simp [docProb, List.getD_eq_getElem?_getD, List.getElem?_replicate, this]
    · clear key hn
      induction qs with
      | nil => rfl
      | cons a qs ih => simp [List.replicate_succ, ih]
  | other => simp [flipMap, flipTuple, Except.map] at h
  | scalar p =>
    simp only [flipMap] at h
    cases ht : flipTuple qs (PForm.scalar p) with
    | error e => rw [ht] at h; simp [Except.map] at h
    | ok pt =>
      rw [ht] at h; simp only [Except.map] at h; cases h
      obtain ⟨a, b⟩ := flipTuple_spec ht
      exact key pt a b rfl
  | list ps =>
    simp only [flipMap] at h
    cases ht : flipTuple qs (PForm.list ps) with
    | error e => rw [ht] at h; simp [Except.map] at h
    | ok pt =>
      rw [ht] at h; simp only [Except.map] at h; cases h
      obtain ⟨a, b⟩ := flipTuple_spec ht
      exact key pt a b rfl
  | dict kvs =>
    simp only [flipMap] at h
    cases ht : flipTuple qs (PForm.dict kvs) with
    | error e => rw [ht] at h; simp [Except.map] at h
    | ok pt =>
      rw [ht] at h; simp only [Except.map] at h; cases h
      obtain ⟨a, b⟩ := flipTuple_spec ht
      exact key pt a b rfl

/-! ### the gate constructor -/

/-- the forms actually used for the 0→1 and the 1→0 map: `if p1 is None: p1 = p0`, then
`if p0 is None: p0 = p1`. -/
def eff1 (g : MSpec P) : PForm P := if g.p1.isNone then g.p0 else g.p1
def eff0 (g : MSpec P) : PForm P := if g.p0.isNone then eff1 g else g.p0

/-- SPEC: what `gates.M(...)` raises. -/
def mkErr (g : MSpec P) : Option Err :=
  if g.collapse && (!g.p0.isNone || !g.p1.isNone) then some .notImplemented
  else match mapErr g.targets (eff0 g) with
    | some e => some e
    | none => mapErr g.targets (eff1 g)

theorem mkMaps_err (g : MSpec P) (e : Err) : mkMaps g = .error e ↔ mkErr g = some e := by
  unfold mkMaps mkErr
  split
  · simp [eq_comm]
  · show (match flipMap g.targets (eff0 g) with
        | .error e => Except.error e
        | .ok m0 => match flipMap g.targets (eff1 g) with
          | .error e => Except.error e
          | .ok m1 => Except.ok (m0, m1)) = Except.error e ↔ _
    cases h0 : flipMap g.targets (eff0 g) with
    | error e0 =>
      have := (flipMap_err g.targets (eff0 g) e0).mp h0
      simp [this, eq_comm]
    | ok m0 =>
      have hn0 : mapErr g.targets (eff0 g) = none := by
        cases hm : mapErr g.targets (eff0 g) with
        | none => rfl
        | some e0 => rw [(flipMap_err g.targets (eff0 g) e0).mpr hm] at h0; cases h0
      rw [hn0]
      cases h1 : flipMap g.targets (eff1 g) with
      | error e1 =>
        have := (flipMap_err g.targets (eff1 g) e1).mp h1
        simp [this, eq_comm]
      | ok m1 =>
        have hn1 : mapErr g.targets (eff1 g) = none := by
          cases hm : mapErr g.targets (eff1 g) with
          | none => rfl
          | some e1 => rw [(flipMap_err g.targets (eff1 g) e1).mpr hm] at h1; cases h1
        simp [hn1]

theorem mkMaps_spec {g : MSpec P} (hn : g.targets.Nodup) {m0 m1 : FMap P}
    (h : mkMaps g = .ok (m0, m1)) :
    (m0.map (·.1) = g.targets ∧ ∀ q ∈ g.targets, mapGet m0 q = some (docProb g.targets (eff0 g) q)) ∧
    (m1.map (·.1) = g.targets ∧ ∀ q ∈ g.targets, mapGet m1 q = some (docProb g.targets (eff1 g) q)) := by
  unfold mkMaps at h
  split at h
  · cases h
  · change (match flipMap g.targets (eff0 g) with
        | .error e => Except.error e
        | .ok m0 => match flipMap g.targets (eff1 g) with
          | .error e => Except.error e
          | .ok m1 => Except.ok (m0, m1)) = Except.ok (m0, m1) at h
    cases h0 : flipMap g.targets (eff0 g) with
    | error e0 => rw [h0] at h; cases h
    | ok a0 =>
      cases h1 : flipMap g.targets (eff1 g) with
      | error e1 => rw [h0, h1] at h; cases h
      | ok a1 =>
        rw [h0, h1] at h
        cases h
        exact ⟨flipMap_spec hn h0, flipMap_spec hn h1⟩


/-! ### the global measurement gate -/

theorem any_key_iff (upd : FMap P) (q : Nat) : (upd.any fun e => e.1 == q) = true ↔ q ∈ upd.map (·.1) := by
  simp only [List.any_eq_true, List.mem_map, beq_iff_eq]

theorem mapGet_eq_none_of_not_key {m : FMap P} {q : Nat} (h : q ∉ m.map (·.1)) : mapGet m q = none := by
  unfold mapGet
  rw [Option.map_eq_none_iff, List.find?_eq_none]
  intro x hx hc
  apply h
  simp only [beq_iff_eq] at hc
  exact List.mem_map.mpr ⟨x, hx, hc⟩

theorem mapGet_mapUpdate (m upd : FMap P) (q : Nat) :
    mapGet (mapUpdate m upd) q = if q ∈ upd.map (·.1) then mapGet upd q else mapGet m q := by
  unfold mapGet mapUpdate
  rw [List.find?_append]
  by_cases hq : q ∈ upd.map (·.1)
  · rw [if_pos hq]
    have : (m.filter fun kv => !(upd.any fun e => e.1 == kv.1)).find? (fun kv => kv.1 == q) = none := by
      rw [List.find?_eq_none]
      intro x hx hc
      simp only [beq_iff_eq] at hc
      have hx2 := (List.mem_filter.mp hx).2
      rw [hc] at hx2
      have := (any_key_iff upd q).mpr hq
      simp [this] at hx2
    rw [this]; rfl
  · rw [if_neg hq]
    have hno : upd.find? (fun kv => kv.1 == q) = none := by
      rw [List.find?_eq_none]
      intro x hx hc
      simp only [beq_iff_eq] at hc
      exact hq (List.mem_map.mpr ⟨x, hx, hc⟩)
    rw [hno, Option.or_none]
    congr 1
    induction m with
    | nil => rfl
    | cons kv m ih =>
      rw [List.filter_cons]
      by_cases e : kv.1 = q
      · have hk : (upd.any fun e => e.1 == kv.1) = false := by
          rw [e]
          cases h : (upd.any fun e => e.1 == q) with
          | false => rfl
          | true => exact absurd ((any_key_iff upd q).mp h) hq
        have e2 : (kv.1 == q) = true := by simpa using e
        rw [if_pos (by simp [hk]), List.find?_cons, List.find?_cons, e2]
      · have e' : (kv.1 == q) = false := by simpa using e
        split
        · rw [List.find?_cons, List.find?_cons, e']; exact ih
        · rw [List.find?_cons, e']; exact ih

theorem keys_mapUpdate_of_disjoint {m upd : FMap P} (h : ∀ q ∈ m.map (·.1), q ∉ upd.map (·.1)) :
    (mapUpdate m upd).map (·.1) = m.map (·.1) ++ upd.map (·.1) := by
  unfold mapUpdate
  rw [List.map_append]
  congr 2
  apply List.filter_eq_self.mpr
  intro kv hkv
  have := h kv.1 (List.mem_map.mpr ⟨kv, hkv, rfl⟩)
  cases ha : (upd.any fun e => e.1 == kv.1) with
  | false => rfl
  | true => exact absurd ((any_key_iff upd kv.1).mp ha) this

/-- the keys of both maps of a gate are its targets (what `mkMaps` produces). -/
structure MG.Keyed (g : MG P) : Prop where
  k0 : g.m0.map (·.1) = g.targets
  k1 : g.m1.map (·.1) = g.targets

private def gstep (acc h : MG P) : MG P :=
  { targets := acc.targets ++ h.targets, m0 := mapUpdate acc.m0 h.m0, m1 := mapUpdate acc.m1 h.m1 }

theorem foldl_gstep_spec (rest : List (MG P)) : ∀ (acc : MG P), acc.Keyed → (∀ g ∈ rest, g.Keyed) →
    (acc.targets ++ rest.flatMap (·.targets)).Nodup →
    (rest.foldl gstep acc).targets = acc.targets ++ rest.flatMap (·.targets) ∧
    (rest.foldl gstep acc).Keyed ∧
    (∀ q ∈ acc.targets, mapGet (rest.foldl gstep acc).m0 q = mapGet acc.m0 q ∧
        mapGet (rest.foldl gstep acc).m1 q = mapGet acc.m1 q) ∧
    (∀ g ∈ rest, ∀ q ∈ g.targets, mapGet (rest.foldl gstep acc).m0 q = mapGet g.m0 q ∧
        mapGet (rest.foldl gstep acc).m1 q = mapGet g.m1 q) := by
  induction rest with
  | nil =>
    intro acc hk _ _
    exact ⟨by simp, hk, fun q _ => ⟨rfl, rfl⟩, fun g hg => by cases hg⟩
  | cons h rest ih =>
    intro acc hk hks hn
    have hkh : h.Keyed := hks h (List.mem_cons_self ..)
    rw [List.flatMap_cons, ← List.append_assoc] at hn
    have hn1 : (acc.targets ++ h.targets).Nodup := (List.nodup_append.mp hn).1
    have hdisj : ∀ q ∈ acc.targets, q ∉ h.targets := by
      intro q hq hq'
      exact (List.nodup_append.mp hn1).2.2 q hq q hq' rfl
    have hacc' : (gstep acc h).Keyed := by
      constructor
      · show (mapUpdate acc.m0 h.m0).map (·.1) = acc.targets ++ h.targets
        rw [keys_mapUpdate_of_disjoint, hk.k0, hkh.k0]
        rw [hk.k0, hkh.k0]; exact hdisj
      · show (mapUpdate acc.m1 h.m1).map (·.1) = acc.targets ++ h.targets
        rw [keys_mapUpdate_of_disjoint, hk.k1, hkh.k1]
        rw [hk.k1, hkh.k1]; exact hdisj
    obtain ⟨t, k, a, r⟩ := ih (gstep acc h) hacc' (fun g hg => hks g (List.mem_cons_of_mem _ hg)) hn
    rw [List.foldl_cons]
    refine ⟨?_, k, ?_, ?_⟩
    · rw [t]; simp [gstep, List.flatMap_cons, List.append_assoc]
    · intro q hq
      have := a q (List.mem_append_left _ hq)
      rw [this.1, this.2]
      show mapGet (mapUpdate acc.m0 h.m0) q = _ ∧ mapGet (mapUpdate acc.m1 h.m1) q = _
      rw [mapGet_mapUpdate, mapGet_mapUpdate, hkh.k0, hkh.k1, if_neg (hdisj q hq), if_neg (hdisj q hq)]
      exact ⟨rfl, rfl⟩
    · intro g hg q hq
      rcases List.mem_cons.mp hg with e | hg'
      · subst e
        have := a q (List.mem_append_right _ hq)
        rw [this.1, this.2]
        show mapGet (mapUpdate acc.m0 g.m0) q = _ ∧ mapGet (mapUpdate acc.m1 g.m1) q = _
        rw [mapGet_mapUpdate, mapGet_mapUpdate, hkh.k0, hkh.k1, if_pos hq, if_pos hq]
        exact ⟨rfl, rfl⟩
      · exact r g hg' q hq

/-- **the global measurement gate** (`measurement_gate`: first gate, then `M.add` = `dict.update`
for each other gate) measures the registers' qubits concatenated and gives every qubit the
probabilities of its own gate. -/
theorem globalGate_spec (gs : List (MG P)) (hk : ∀ g ∈ gs, g.Keyed)
    (hn : (gs.flatMap (·.targets)).Nodup) :
    (globalGate gs).targets = gs.flatMap (·.targets) ∧ (globalGate gs).Keyed ∧
    ∀ g ∈ gs, ∀ q ∈ g.targets, mapGet (globalGate gs).m0 q = mapGet g.m0 q ∧
        mapGet (globalGate gs).m1 q = mapGet g.m1 q := by
  cases gs with
  | nil => exact ⟨rfl, ⟨rfl, rfl⟩, fun g hg => by cases hg⟩
  | cons g gs =>
    have hfold : globalGate (g :: gs) = gs.foldl gstep g := rfl
    rw [hfold]
    rw [List.flatMap_cons] at hn
    obtain ⟨t, k, a, r⟩ := foldl_gstep_spec gs g (hk g (List.mem_cons_self ..))
      (fun h hh => hk h (List.mem_cons_of_mem _ hh)) hn
    refine ⟨by rw [t, List.flatMap_cons], k, ?_⟩
    intro h hh q hq
    rcases List.mem_cons.mp hh with e | hh'
    · subst e; exact a q hq
    · exact r h hh' q hq

end QV.BF
