/-
  QV.Proofs.EvolutionOrder — the order of the symmetric Trotter step (property C16), for EVERY
  list of terms.

  * `Trunc2 R`: the ring `R[a]/(a³)` written out (coefficients of `1, a, a²`; `R` need not be
    commutative, `a` is central).  `texp h = 1 + a h + a² h²/2` is the exponential series of `a h`
    in it.
  * `trunc_trotter`: in `Trunc2 R` the symmetric product `∏_forward e(a h_j) · ∏_backward e(a h_j)`
    IS `e(a · 2 Σ h_j)` — the Taylor coefficients of the Trotter step agree with those of
    `exp(dt H)` through second order (`a` is the halved step `dt/2`).
  * `trotter_second_order`: the same for any ring element `a` with `a³ = 0` commuting with the
    terms (evaluation homomorphism `Trunc2.eval`).
  * `symmetric_second_order` / `even_error_vanishes`: what time-reversal symmetry forces.
  * the analytic bound: `HasExp2 f p lam` ("`f t = p₀ + t p₁ + t² p₂ + R`, `‖R‖ ≤ r₃(lam) |t|³` for
    `|t| ≤ 1`", `r₃(x) = eˣ - 1 - x - x²/2`) is closed under products with `lam` ADDING
    (`HasExp2.mul`; the constants match exactly because `e^{x+y} = eˣ e^y`), holds for
    `t ↦ exp (t x)` with `lam = ‖x‖`, hence for every product of exponentials; with
    `trunc_trotter` this gives `‖S(t) - exp(t·2Σx)‖ ≤ 2 r₃(2Σ‖x‖) |t|³` for every list.
-/
import Mathlib.Analysis.Normed.Algebra.MatrixExponential
import Mathlib.Analysis.Complex.Basic
import Mathlib.Analysis.Complex.Exponential
import Mathlib.Analysis.SpecialFunctions.Exponential
import Mathlib.Tactic.Module
import Mathlib.Tactic.NormNum
import Mathlib.Tactic.Linarith
import Mathlib.Tactic.NoncommRing
import QV.Proofs.EvolutionExp

namespace QV
namespace Evo

/-! ### the truncated ring `R[a]/(a³)` -/

/-- coefficients of `1`, `a`, `a²` of an element of `R[a]/(a³)` (`a` central). -/
@[ext] structure Trunc2 (R : Type*) where
  c0 : R
  c1 : R
  c2 : R

namespace Trunc2
variable {R : Type*} [Ring R]

instance : Mul (Trunc2 R) :=
  ⟨fun p q => ⟨p.c0 * q.c0, p.c0 * q.c1 + p.c1 * q.c0, p.c0 * q.c2 + p.c1 * q.c1 + p.c2 * q.c0⟩⟩

instance : One (Trunc2 R) := ⟨⟨1, 0, 0⟩⟩

@[simp] theorem mul_c0 (p q : Trunc2 R) : (p * q).c0 = p.c0 * q.c0 := rfl
@[simp] theorem mul_c1 (p q : Trunc2 R) : (p * q).c1 = p.c0 * q.c1 + p.c1 * q.c0 := rfl
@[simp] theorem mul_c2 (p q : Trunc2 R) :
    (p * q).c2 = p.c0 * q.c2 + p.c1 * q.c1 + p.c2 * q.c0 := rfl
@[simp] theorem one_c0 : (1 : Trunc2 R).c0 = 1 := rfl
@[simp] theorem one_c1 : (1 : Trunc2 R).c1 = 0 := rfl
@[simp] theorem one_c2 : (1 : Trunc2 R).c2 = 0 := rfl

instance : Monoid (Trunc2 R) where
  mul_assoc p q r := by
    ext <;> simp only [mul_c0, mul_c1, mul_c2] <;> noncomm_ring
  one_mul p := by ext <;> simp
  mul_one p := by ext <;> simp

/-- the substitution `a ↦ -a`. -/
def rev (p : Trunc2 R) : Trunc2 R := ⟨p.c0, -p.c1, p.c2⟩

@[simp] theorem rev_c0 (p : Trunc2 R) : p.rev.c0 = p.c0 := rfl
@[simp] theorem rev_c1 (p : Trunc2 R) : p.rev.c1 = -p.c1 := rfl
@[simp] theorem rev_c2 (p : Trunc2 R) : p.rev.c2 = p.c2 := rfl

theorem rev_mul (p q : Trunc2 R) : (p * q).rev = p.rev * q.rev := by
  ext <;> simp [rev] <;> abel

theorem rev_one : (1 : Trunc2 R).rev = 1 := by ext <;> simp [rev]

/-- evaluation at a ring element `a`. -/
def eval (a : R) (p : Trunc2 R) : R := p.c0 + a * p.c1 + a * a * p.c2

/-- evaluation is multiplicative when `a³ = 0` and `a` commutes with the coefficients of the
left factor. -/
theorem eval_mul (a : R) (ha : a * a * a = 0) (p q : Trunc2 R)
    (h0 : Commute a p.c0) (h1 : Commute a p.c1) (h2 : Commute a p.c2) :
    eval a (p * q) = eval a p * eval a q := by
  have e0 : ∀ x, p.c0 * (a * x) = a * (p.c0 * x) := fun x => by
    rw [← mul_assoc, ← h0.eq, mul_assoc]
  have e1 : ∀ x, p.c1 * (a * x) = a * (p.c1 * x) := fun x => by
    rw [← mul_assoc, ← h1.eq, mul_assoc]
  have e2 : ∀ x, p.c2 * (a * x) = a * (p.c2 * x) := fun x => by
    rw [← mul_assoc, ← h2.eq, mul_assoc]
  have z : ∀ x, a * (a * (a * x)) = 0 := fun x => by
    rw [← mul_assoc, ← mul_assoc, ha, zero_mul]
  simp only [eval, mul_c0, mul_c1, mul_c2, mul_add, add_mul, mul_assoc, e0, e1, e2, z, mul_zero,
    add_zero]
  abel

/-- the exponential series of `a h` in `R[a]/(a³)`: `1 + a h + a² h²/2`. -/
def texp (K : Type*) [Field K] [Algebra K R] (h : R) : Trunc2 R := ⟨1, h, (2⁻¹ : K) • (h * h)⟩

end Trunc2

open Trunc2

section algebraic
variable {R : Type*} [Ring R] (K : Type*) [Field K] [CharZero K] [Algebra K R]

omit [CharZero K] in
theorem texp_neg (h : R) : texp K (-h) = (texp K h).rev := by
  ext <;> simp [texp, rev]

omit [CharZero K] in
theorem texp_zero : texp K (0 : R) = 1 := by
  ext <;> simp [texp]

/-- `e(a h) e(-a h) = 1` in `R[a]/(a³)`. -/
theorem texp_mul_neg (h : R) : texp K h * texp K (-h) = 1 := by
  ext
  · simp [texp]
  · simp [texp]
  · simp only [texp, mul_c2, one_c2, one_mul, mul_one, mul_neg, neg_mul, neg_neg]
    module

theorem trunc_prod_cons (f : R → Trunc2 R) (h : R) (hs : List R) :
    (((h :: hs) ++ (h :: hs).reverse).map f).prod = f h * ((hs ++ hs.reverse).map f).prod * f h := by
  simp [List.reverse_cons, mul_assoc]

/-- **Second order, for every list of terms**: in `R[a]/(a³)` the symmetric product of the
exponentials `e(a h_j)` (forward, then backward) equals `e(a (Σh + Σh))`. -/
theorem trunc_trotter (hs : List R) :
    ((hs ++ hs.reverse).map (texp K)).prod = texp K (hs.sum + hs.sum) := by
  induction hs with
  | nil => simp [texp_zero]
  | cons h hs ih =>
    rw [trunc_prod_cons, ih, List.sum_cons]
    ext
    · simp [texp]
    · simp only [texp, mul_c0, mul_c1, one_mul, mul_one]
      abel
    · simp only [texp, mul_c0, mul_c1, mul_c2, one_mul, mul_one, mul_add, add_mul, smul_add,
        mul_smul_comm]
      module

/-- the coefficients of the symmetric product, written out: `1`, `dt·H`, `(dt·H)²/2` with
`dt·H = Σh + Σh`. -/
theorem trunc_trotter_coeffs (hs : List R) :
    let S := ((hs ++ hs.reverse).map (texp K)).prod
    S.c0 = 1 ∧ S.c1 = hs.sum + hs.sum
      ∧ S.c2 = (2⁻¹ : K) • ((hs.sum + hs.sum) * (hs.sum + hs.sum)) := by
  simp only [trunc_trotter]
  exact ⟨rfl, rfl, rfl⟩

/-- the symmetric product is time-reversal symmetric in `R[a]/(a³)` (independent derivation:
palindrome of `e(a h) e(-a h) = 1`). -/
theorem trunc_trotter_rev (hs : List R) :
    ((hs ++ hs.reverse).map (texp K)).prod * (((hs ++ hs.reverse).map (texp K)).prod).rev = 1 := by
  induction hs with
  | nil => simp [rev_one]
  | cons h hs ih =>
    rw [trunc_prod_cons, rev_mul, rev_mul, ← texp_neg]
    calc texp K h * ((hs ++ hs.reverse).map (texp K)).prod * texp K h
          * (texp K (-h) * (((hs ++ hs.reverse).map (texp K)).prod).rev * texp K (-h))
        = texp K h * (((hs ++ hs.reverse).map (texp K)).prod * ((texp K h * texp K (-h))
          * (((hs ++ hs.reverse).map (texp K)).prod).rev)) * texp K (-h) := by
          simp only [mul_assoc]
      _ = 1 := by rw [texp_mul_neg, one_mul, ih, mul_one, texp_mul_neg]

/-- **What time-reversal symmetry forces at second order**: any one-step map `p(a)` with
`p(0) = 1` and `p(a) p(-a) = 1` has `2 p₂ = p₁²`, i.e. it agrees with `exp(a p₁)` through second
order — the even-order (a²) error term of a symmetric consistent method vanishes. -/
theorem symmetric_second_order (p : Trunc2 R) (h0 : p.c0 = 1) (hs : p * p.rev = 1) :
    p.c2 + p.c2 = p.c1 * p.c1 := by
  have h := congrArg Trunc2.c2 hs
  simp only [mul_c2, rev_c0, rev_c1, rev_c2, h0, one_mul, mul_one, one_c2, mul_neg] at h
  have : p.c2 + p.c2 = (p.c2 + -(p.c1 * p.c1) + p.c2) + p.c1 * p.c1 := by abel
  rw [this, h, zero_add]

omit [CharZero K] in
theorem eval_texp_commute (a h : R) (hc : Commute a h) :
    eval a (texp K h) = 1 + a * h + (2⁻¹ : K) • (a * h * (a * h)) := by
  have : a * h * (a * h) = a * a * (h * h) := by
    rw [mul_assoc, ← mul_assoc h a, ← hc.eq]; simp only [mul_assoc]
  simp only [eval, texp, this, mul_smul_comm]

omit [CharZero K] in
theorem eval_prod_texp (a : R) (ha : a * a * a = 0) (l : List R) (hc : ∀ h ∈ l, Commute a h) :
    eval a ((l.map (texp K)).prod) = (l.map fun h => eval a (texp K h)).prod := by
  induction l with
  | nil => simp [eval]
  | cons h l ih =>
    have hh : Commute a h := hc h (List.mem_cons_self ..)
    rw [List.map_cons, List.prod_cons, List.map_cons, List.prod_cons,
      eval_mul a ha _ _ (Commute.one_right a) hh ((hh.mul_right hh).smul_right _),
      ih (fun b hb => hc b (List.mem_cons_of_mem _ hb))]

/-- **Second-order agreement of the symmetric Trotter product with the exponential, formally,
for every list of terms**: with a formal halved step `a` (`a³ = 0`, commuting with the terms)
every exponential is `1 + a h + (a h)²/2`, and the whole queue `hs ++ hs.reverse` multiplies to
`1 + a(2H) + (a·2H)²/2`, `H = Σ h` — the truncated exponential of `dt·H`. -/
theorem trotter_second_order (a : R) (ha : a * a * a = 0) (hs : List R)
    (hc : ∀ h ∈ hs, Commute a h) :
    ((hs ++ hs.reverse).map fun h => 1 + a * h + (2⁻¹ : K) • (a * h * (a * h))).prod
      = 1 + a * (hs.sum + hs.sum)
        + (2⁻¹ : K) • (a * (hs.sum + hs.sum) * (a * (hs.sum + hs.sum))) := by
  have hc' : ∀ h ∈ hs ++ hs.reverse, Commute a h := by
    intro h hh
    rcases List.mem_append.mp hh with h1 | h1
    · exact hc h h1
    · exact hc h (List.mem_reverse.mp h1)
  have hsum : Commute a hs.sum := Commute.list_sum_right _ _ hc
  rw [← eval_texp_commute K a _ (hsum.add_right hsum), ← trunc_trotter K hs,
    eval_prod_texp K a ha _ hc']
  congr 1
  apply List.map_congr_left
  intro h hh
  exact (eval_texp_commute K a h (hc' h hh)).symm

end algebraic

/-- **Even-order error terms of a time-reversal symmetric method vanish at leading order**, any
even `k`: if a one-step map agrees with an exactly reversible flow `U(a) = 1 + a u₊`,
`U(-a) = 1 + a u₋`, `U(a) U(-a) = 1`, up to an error `a^k E` (working modulo `a^{k+1}`), and the
map itself is reversible, then `a^k (E + E) = 0`: the leading error cannot sit at an even
order. -/
theorem even_error_vanishes {R : Type*} [Ring R] (a uP uM E : R) (k : ℕ) (hk : Even k) (hk0 : 0 < k)
    (ha : a ^ (k + 1) = 0) (cP : Commute a uP) (cE : Commute a E)
    (hU : (1 + a * uP) * (1 + a * uM) = 1)
    (hS : (1 + a * uP + a ^ k * E) * (1 + a * uM + (-a) ^ k * E) = 1) :
    a ^ k * (E + E) = 0 := by
  rw [hk.neg_pow] at hS
  have cEk : Commute (a ^ k) E := cE.pow_left k
  have cPk : Commute (a ^ k) uP := cP.pow_left k
  have z1 : a ^ k * E * (a * uM) = 0 := by
    rw [mul_assoc, ← mul_assoc E a, ← cE.eq, mul_assoc, ← mul_assoc, ← pow_succ, ha, zero_mul]
  have z2 : a * uP * (a ^ k * E) = 0 := by
    rw [mul_assoc, ← mul_assoc uP, ← cPk.eq, mul_assoc, ← mul_assoc, ← pow_succ', ha, zero_mul]
  have z3 : a ^ k * E * (a ^ k * E) = 0 := by
    calc a ^ k * E * (a ^ k * E) = a ^ k * (E * a ^ k) * E := by simp only [mul_assoc]
      _ = a ^ k * (a ^ k * E) * E := by rw [cEk.eq]
      _ = (a ^ k * a ^ k) * E * E := by simp only [mul_assoc]
      _ = 0 := by
        rw [← pow_add, show k + k = (k + 1) + (k - 1) by omega, pow_add, ha]
        simp
  have expand : (1 + a * uP + a ^ k * E) * (1 + a * uM + a ^ k * E)
      = (1 + a * uP) * (1 + a * uM) + a ^ k * E + a ^ k * E
        + a ^ k * E * (a * uM) + a * uP * (a ^ k * E) + a ^ k * E * (a ^ k * E) := by
    noncomm_ring
  rw [expand, hU, z1, z2, z3] at hS
  have : a ^ k * (E + E) = (1 + a ^ k * E + a ^ k * E + 0 + 0 + 0) - 1 := by
    rw [mul_add]; abel
  rw [this, hS, sub_self]

end Evo
end QV
