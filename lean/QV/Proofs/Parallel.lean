/-
  QV.Proofs.Parallel — lemmas about the scheduler model QV/Model/Parallel.lean:
  the effect of one instruction on parameters / accumulator, the simulation between a schedule
  and the projection of the schedule on one job (non-interference under the copy discipline),
  completion, and the closed form of a job run alone.  Unbounded in jobs, workers and schedules.
-/
import QV.Model.Parallel

namespace QV.Par

variable {V S : Type}

/-! ### one instruction -/

theorem length_modifyAt (heap : List (Circ V)) (a : Nat) (f : Circ V → Circ V) :
    (modifyAt heap a f).length = heap.length := by
  unfold modifyAt; split <;> simp

theorem paramsAt_modifyAt (heap : List (Circ V)) (a a' : Nat) (f : Circ V → Circ V) :
    paramsAt (modifyAt heap a f) a' =
      if a' = a then (match heap[a]? with | some c => (f c).params | none => []) else paramsAt heap a' := by
  unfold modifyAt paramsAt
  cases h : heap[a]? with
  | none =>
    by_cases e : a' = a
    · subst e; simp [h]
    · simp [e]
  | some c =>
    have hl : a < heap.length := by
      rcases List.getElem?_eq_some_iff.mp h with ⟨hl, _⟩; exact hl
    by_cases e : a' = a
    · subst e; simp [hl]
    · have e' : a ≠ a' := fun x => e x.symm
      simp [e, e']

theorem paramsAt_of_ge (heap : List (Circ V)) (a : Nat) (h : heap.length ≤ a) : paramsAt heap a = [] := by
  unfold paramsAt; rw [List.getElem?_eq_none h]

/-- the parameters of the working object after the instruction. -/
def newParams (ins : Instr V) (heap : List (Circ V)) (a : Nat) : List V :=
  match ins with
  | .copy src => paramsAt heap src
  | .setp i v => (paramsAt heap a).set i v
  | _ => paramsAt heap a

/-- the accumulator after the instruction. -/
def newAcc (apply : Nat → Option V → S → S) (ins : Instr V) (ps : List V) (acc : S) : S :=
  match ins with
  | .gate i => apply i ps[i]? acc
  | _ => acc

theorem length_exec (apply : Nat → Option V → S → S) (jid a : Nat) (ins : Instr V)
    (heap : List (Circ V)) (acc : S) : (execInstr apply jid a ins heap acc).1.length = heap.length := by
  cases ins <;> simp [execInstr, length_modifyAt]

theorem acc_exec (apply : Nat → Option V → S → S) (jid a : Nat) (ins : Instr V)
    (heap : List (Circ V)) (acc : S) :
    (execInstr apply jid a ins heap acc).2 = newAcc apply ins (paramsAt heap a) acc := by
  cases ins <;> simp [execInstr, newAcc]

theorem paramsAt_exec (apply : Nat → Option V → S → S) (jid a a' : Nat) (ins : Instr V)
    (heap : List (Circ V)) (acc : S) :
    paramsAt (execInstr apply jid a ins heap acc).1 a' =
      if a' = a ∧ a < heap.length then newParams ins heap a else paramsAt heap a' := by
  by_cases hl : a < heap.length
  · obtain ⟨c, hc⟩ : ∃ c, heap[a]? = some c := ⟨heap[a], List.getElem?_eq_getElem hl⟩
    have hp : paramsAt heap a = c.params := by simp [paramsAt, hc]
    by_cases e : a' = a
    · subst e
      cases ins <;> simp only [execInstr, paramsAt_modifyAt, newParams, hl, hc, hp] <;> simp
    · cases ins <;> simp [execInstr, paramsAt_modifyAt, e]
  · have hn : heap[a]? = none := List.getElem?_eq_none (Nat.le_of_not_lt hl)
    have : (execInstr apply jid a ins heap acc).1 = heap := by
      cases ins <;> simp [execInstr, modifyAt, hn]
    simp [this, hl]

/-! ### programs -/

theorem mem_prog (job : Job V S) (ins : Instr V) (h : ins ∈ prog job) :
    (∃ s, ins = .copy s ∧ job.copyFrom = some s) ∨ (∃ w, w ∈ job.set ∧ ins = .setp w.1 w.2) ∨
      ins = .reset ∨ (∃ i, i < job.ngates ∧ ins = .gate i) ∨ ins = .finish := by
  simp only [prog, List.mem_append, List.mem_map, List.mem_singleton, List.mem_range] at h
  rcases h with (((h | h) | h) | h) | h
  · left
    cases hc : job.copyFrom with
    | none => simp [hc, copyInstrs] at h
    | some s => simp [hc, copyInstrs] at h; exact ⟨s, h, rfl⟩
  · right; left
    obtain ⟨w, hw, e⟩ := h
    exact ⟨w, hw, e.symm⟩
  · right; right; left; exact h
  · right; right; right; left
    obtain ⟨i, hi, e⟩ := h
    exact ⟨i, hi, e.symm⟩
  · right; right; right; right; exact h

theorem newParams_nonwriter (job : Job V S) (ins : Instr V) (h : ins ∈ prog job)
    (hw : job.writer = false) (heap : List (Circ V)) (a : Nat) :
    newParams ins heap a = paramsAt heap a := by
  simp only [Job.writer, Bool.or_eq_false_iff] at hw
  rcases mem_prog job ins h with ⟨s, _, hs⟩ | ⟨w, hw', _⟩ | h | ⟨i, _, h⟩ | h
  · simp [hs] at hw
  · have : job.set = [] := by simpa using hw.2
    simp [this] at hw'
  · subst h; rfl
  · subst h; rfl
  · subst h; rfl

/-! ### `step`, case by case -/

theorem step_some (apply : Nat → Option V → S → S) (jobs : List (Job V S)) (σ : St V S) (j : Nat)
    (job : Job V S) (loc : Loc S) (ins : Instr V) (hj : jobs[j]? = some job)
    (hl : σ.locs[j]? = some loc) (hi : (prog job)[loc.pc]? = some ins) :
    step apply jobs σ j =
      { heap := (execInstr apply j job.circ ins σ.heap loc.acc).1,
        locs := σ.locs.set j { pc := loc.pc + 1, acc := (execInstr apply j job.circ ins σ.heap loc.acc).2 } } := by
  unfold step; rw [hj, hl]; simp only; rw [hi]

theorem step_no_job (apply : Nat → Option V → S → S) (jobs : List (Job V S)) (σ : St V S) (j : Nat)
    (hj : jobs[j]? = none) : step apply jobs σ j = σ := by
  unfold step; rw [hj]

theorem step_no_loc (apply : Nat → Option V → S → S) (jobs : List (Job V S)) (σ : St V S) (j : Nat)
    (hl : σ.locs[j]? = none) : step apply jobs σ j = σ := by
  unfold step; rw [hl]; cases jobs[j]? <;> rfl

theorem step_no_ins (apply : Nat → Option V → S → S) (jobs : List (Job V S)) (σ : St V S) (j : Nat)
    (job : Job V S) (loc : Loc S) (hj : jobs[j]? = some job)
    (hl : σ.locs[j]? = some loc) (hi : (prog job)[loc.pc]? = none) : step apply jobs σ j = σ := by
  unfold step; rw [hj, hl]; simp only; rw [hi]

/-! ### the simulation: a schedule against its projection on job `j` -/

/-- what job `j` can see is the same in `σ` (everybody runs) and `τ` (only `j` runs). -/
structure Match (job : Job V S) (j : Nat) (σ τ : St V S) : Prop where
  loc : σ.locs[j]? = τ.locs[j]?
  len : σ.heap.length = τ.heap.length
  circ : paramsAt σ.heap job.circ = paramsAt τ.heap job.circ
  src : ∀ s, job.copyFrom = some s → paramsAt σ.heap s = paramsAt τ.heap s

theorem match_refl (job : Job V S) (j : Nat) (σ : St V S) : Match job j σ σ :=
  ⟨rfl, rfl, rfl, fun _ _ => rfl⟩

theorem newParams_congr (job : Job V S) (ins : Instr V) (h : ins ∈ prog job) (h1 h2 : List (Circ V))
    (hc : paramsAt h1 job.circ = paramsAt h2 job.circ)
    (hs : ∀ s, job.copyFrom = some s → paramsAt h1 s = paramsAt h2 s) :
    newParams ins h1 job.circ = newParams ins h2 job.circ := by
  rcases mem_prog job ins h with ⟨s, e, hs'⟩ | ⟨w, _, e⟩ | e | ⟨i, _, e⟩ | e <;> subst e <;>
    simp [newParams, hc]
  exact hs s hs'

theorem match_own (apply : Nat → Option V → S → S) (jobs : List (Job V S)) (job : Job V S) (j : Nat)
    (hj : jobs[j]? = some job) (σ τ : St V S) (m : Match job j σ τ) :
    Match job j (step apply jobs σ j) (step apply jobs τ j) := by
  have hloc := m.loc
  cases hσ : σ.locs[j]? with
  | none =>
    rw [hσ] at hloc
    rw [step_no_loc apply jobs σ j hσ, step_no_loc apply jobs τ j hloc.symm]; exact m
  | some loc =>
    rw [hσ] at hloc
    cases hi : (prog job)[loc.pc]? with
    | none =>
      rw [step_no_ins apply jobs σ j job loc hj hσ hi, step_no_ins apply jobs τ j job loc hj hloc.symm hi]
      exact m
    | some ins =>
      rw [step_some apply jobs σ j job loc ins hj hσ hi, step_some apply jobs τ j job loc ins hj hloc.symm hi]
      have hmem : ins ∈ prog job := List.mem_of_getElem? hi
      have hlσ : j < σ.locs.length := (List.getElem?_eq_some_iff.mp hσ).1
      have hlτ : j < τ.locs.length := (List.getElem?_eq_some_iff.mp hloc.symm).1
      have hnp := newParams_congr job ins hmem σ.heap τ.heap m.circ m.src
      refine ⟨?_, ?_, ?_, ?_⟩
      · simp [hlσ, hlτ, acc_exec, m.circ]
      · simp [length_exec, m.len]
      · simp only [paramsAt_exec, m.len, hnp, m.circ]
      · intro s hs
        simp only [paramsAt_exec, m.len, hnp, m.src s hs]

theorem match_other (apply : Nat → Option V → S → S) (jobs : List (Job V S)) (hd : Disciplined jobs)
    (job : Job V S) (j k : Nat) (hj : jobs[j]? = some job) (hk : k ≠ j) (σ τ : St V S)
    (m : Match job j σ τ) : Match job j (step apply jobs σ k) τ := by
  cases hjk : jobs[k]? with
  | none => rw [step_no_job apply jobs σ k hjk]; exact m
  | some jk =>
    cases hσ : σ.locs[k]? with
    | none => rw [step_no_loc apply jobs σ k hσ]; exact m
    | some loc =>
      cases hi : (prog jk)[loc.pc]? with
      | none => rw [step_no_ins apply jobs σ k jk loc hjk hσ hi]; exact m
      | some ins =>
        rw [step_some apply jobs σ k jk loc ins hjk hσ hi]
        have hmem : ins ∈ prog jk := List.mem_of_getElem? hi
        have key : ∀ a', (a' = job.circ ∨ job.copyFrom = some a') →
            paramsAt (execInstr apply k jk.circ ins σ.heap loc.acc).1 a' = paramsAt σ.heap a' := by
          intro a' ha'
          rw [paramsAt_exec]
          split
          · next hc =>
            cases hw : jk.writer with
            | false => rw [newParams_nonwriter jk ins hmem hw, hc.1]
            | true =>
              have hcl := hd k j jk job hjk hj hk
              simp only [clash, hw, Bool.true_and, Bool.or_eq_false_iff, beq_eq_false_iff_ne,
                ne_eq] at hcl
              rcases ha' with e | e
              · exact absurd (hc.1.symm.trans e) hcl.1
              · exact absurd (by rw [e, hc.1]) hcl.2
          · rfl
        refine ⟨?_, ?_, ?_, ?_⟩
        · show (σ.locs.set k _)[j]? = _
          rw [List.getElem?_set_ne hk]; exact m.loc
        · show (execInstr apply k jk.circ ins σ.heap loc.acc).1.length = _
          rw [length_exec]; exact m.len
        · show paramsAt (execInstr apply k jk.circ ins σ.heap loc.acc).1 job.circ = _
          rw [key _ (Or.inl rfl)]; exact m.circ
        · intro s hs
          show paramsAt (execInstr apply k jk.circ ins σ.heap loc.acc).1 s = _
          rw [key _ (Or.inr hs)]; exact m.src s hs

theorem run_cons (apply : Nat → Option V → S → S) (jobs : List (Job V S)) (σ : St V S) (k : Nat)
    (sched : List Nat) : run apply jobs σ (k :: sched) = run apply jobs (step apply jobs σ k) sched := rfl

theorem run_append (apply : Nat → Option V → S → S) (jobs : List (Job V S)) (σ : St V S)
    (s1 s2 : List Nat) : run apply jobs σ (s1 ++ s2) = run apply jobs (run apply jobs σ s1) s2 := by
  simp [run, List.foldl_append]

/-- non-interference: whatever the others do in between, job `j` sees what it sees alone. -/
theorem run_proj (apply : Nat → Option V → S → S) (jobs : List (Job V S)) (hd : Disciplined jobs)
    (job : Job V S) (j : Nat) (hj : jobs[j]? = some job) :
    ∀ (sched : List Nat) (σ τ : St V S), Match job j σ τ →
      Match job j (run apply jobs σ sched) (run apply jobs τ (sched.filter (· == j))) := by
  intro sched
  induction sched with
  | nil => intro σ τ m; exact m
  | cons k sched ih =>
    intro σ τ m
    by_cases hk : k = j
    · subst hk
      simp only [List.filter_cons, beq_self_eq_true, if_true, run_cons]
      exact ih _ _ (match_own apply jobs job k hj σ τ m)
    · have : (k == j) = false := by simpa using hk
      simp only [List.filter_cons, this, run_cons]
      exact ih _ _ (match_other apply jobs hd job j k hj hk σ τ m)

theorem result_of_match (jobs : List (Job V S)) (job : Job V S) (j : Nat) (σ τ : St V S)
    (m : Match job j σ τ) : result jobs σ j = result jobs τ j := by
  unfold result; rw [m.loc]

/-! ### a job's own steps -/

theorem step_past_end (apply : Nat → Option V → S → S) (jobs : List (Job V S)) (job : Job V S) (j : Nat)
    (hj : jobs[j]? = some job) (σ : St V S) (loc : Loc S) (hl : σ.locs[j]? = some loc)
    (hp : (prog job).length ≤ loc.pc) : step apply jobs σ j = σ := by
  exact step_no_ins apply jobs σ j job loc hj hl (List.getElem?_eq_none hp)

theorem run_past_end (apply : Nat → Option V → S → S) (jobs : List (Job V S)) (job : Job V S) (j : Nat)
    (hj : jobs[j]? = some job) (σ : St V S) (loc : Loc S) (hl : σ.locs[j]? = some loc)
    (hp : (prog job).length ≤ loc.pc) (n : Nat) : run apply jobs σ (List.replicate n j) = σ := by
  induction n with
  | zero => rfl
  | succ n ih =>
    rw [List.replicate_succ, run_cons, step_past_end apply jobs job j hj σ loc hl hp]; exact ih

/-- the instructions of a list, one after the other (job `jid`, working object `a`). -/
def execList (apply : Nat → Option V → S → S) (jid a : Nat) :
    List (Instr V) → List (Circ V) × S → List (Circ V) × S
  | [], x => x
  | ins :: rest, x => execList apply jid a rest (execInstr apply jid a ins x.1 x.2)

theorem execList_append (apply : Nat → Option V → S → S) (jid a : Nat) (l1 l2 : List (Instr V))
    (x : List (Circ V) × S) :
    execList apply jid a (l1 ++ l2) x = execList apply jid a l2 (execList apply jid a l1 x) := by
  induction l1 generalizing x with
  | nil => rfl
  | cons i l ih => simp [execList, ih]

/-- `mid.length` turns of job `j`, standing before the instructions `mid`, execute `mid`. -/
theorem run_own (apply : Nat → Option V → S → S) (jobs : List (Job V S)) (job : Job V S) (j : Nat)
    (hj : jobs[j]? = some job) :
    ∀ (mid post : List (Instr V)) (σ : St V S) (pc : Nat) (acc : S),
      σ.locs[j]? = some { pc := pc, acc := acc } → (prog job).drop pc = mid ++ post →
      (run apply jobs σ (List.replicate mid.length j)).heap = (execList apply j job.circ mid (σ.heap, acc)).1 ∧
      (run apply jobs σ (List.replicate mid.length j)).locs[j]? =
        some { pc := pc + mid.length, acc := (execList apply j job.circ mid (σ.heap, acc)).2 } := by
  intro mid
  induction mid with
  | nil => intro post σ pc acc hl _; exact ⟨rfl, by simpa [run, execList] using hl⟩
  | cons ins mid ih =>
    intro post σ pc acc hl hdrop
    have hget : (prog job)[pc]? = some ins := by
      have := congrArg (fun l => l[0]?) hdrop
      simpa [List.getElem?_drop] using this
    have hdrop' : (prog job).drop (pc + 1) = mid ++ post := by
      have := congrArg (fun l => l.drop 1) hdrop
      simpa [List.drop_drop] using this
    have hlt : j < σ.locs.length := (List.getElem?_eq_some_iff.mp hl).1
    have hstep : step apply jobs σ j =
        { heap := (execInstr apply j job.circ ins σ.heap acc).1,
          locs := σ.locs.set j { pc := pc + 1, acc := (execInstr apply j job.circ ins σ.heap acc).2 } } := by
      exact step_some apply jobs σ j job { pc := pc, acc := acc } ins hj hl hget
    have hl' : (step apply jobs σ j).locs[j]? =
        some { pc := pc + 1, acc := (execInstr apply j job.circ ins σ.heap acc).2 } := by
      rw [hstep]; simp [hlt]
    have := ih post (step apply jobs σ j) (pc + 1) _ hl' hdrop'
    rw [List.length_cons, List.replicate_succ, run_cons]
    refine ⟨?_, ?_⟩
    · rw [this.1, hstep]; rfl
    · rw [this.2, hstep]; simp [execList]; omega

theorem init_loc (heap : List (Circ V)) (jobs : List (Job V S)) (job : Job V S) (j : Nat)
    (hj : jobs[j]? = some job) : (init heap jobs).locs[j]? = some { pc := 0, acc := job.input } := by
  simp [init, List.getElem?_map, hj]

/-- the job run alone: heap and local state after its whole program. -/
theorem alone_eq (apply : Nat → Option V → S → S) (heap : List (Circ V)) (jobs : List (Job V S))
    (job : Job V S) (j : Nat) (hj : jobs[j]? = some job) :
    (alone apply heap jobs j).heap = (execList apply j job.circ (prog job) (heap, job.input)).1 ∧
    (alone apply heap jobs j).locs[j]? =
      some { pc := (prog job).length, acc := (execList apply j job.circ (prog job) (heap, job.input)).2 } := by
  have := run_own apply jobs job j hj (prog job) [] (init heap jobs) 0 job.input
    (init_loc heap jobs job j hj) (by simp)
  rw [Nat.zero_add] at this
  unfold alone; rw [hj]; exact this

/-- a job that gets at least as many turns as its program is long has finished, with the
result it computes alone. -/
theorem result_complete (apply : Nat → Option V → S → S) (heap : List (Circ V))
    (jobs : List (Job V S)) (hd : Disciplined jobs) (job : Job V S) (j : Nat)
    (hj : jobs[j]? = some job) (sched : List Nat) (hc : (prog job).length ≤ sched.count j) :
    result jobs (run apply jobs (init heap jobs) sched) j = result jobs (alone apply heap jobs j) j := by
  have m := run_proj apply jobs hd job j hj sched _ _ (match_refl job j (init heap jobs))
  rw [result_of_match jobs job j _ _ m, List.filter_beq]
  obtain ⟨e, he⟩ := Nat.exists_eq_add_of_le hc
  rw [he, ← List.replicate_append_replicate, run_append]
  have ha := alone_eq apply heap jobs job j hj
  have : run apply jobs (init heap jobs) (List.replicate (prog job).length j) = alone apply heap jobs j := by
    simp [alone, hj]
  rw [this, run_past_end apply jobs job j hj _ _ ha.2 (Nat.le_refl _)]

theorem result_alone (apply : Nat → Option V → S → S) (heap : List (Circ V)) (jobs : List (Job V S))
    (job : Job V S) (j : Nat) (hj : jobs[j]? = some job) :
    result jobs (alone apply heap jobs j) j =
      some (execList apply j job.circ (prog job) (heap, job.input)).2 := by
  have ha := alone_eq apply heap jobs job j hj
  unfold result
  rw [hj, ha.2]
  simp

/-! ### closed form of `execList (prog job)` -/

theorem execList_params_acc (apply : Nat → Option V → S → S) (jid a : Nat) :
    ∀ (l : List (Instr V)) (x : List (Circ V) × S), (execList apply jid a l x).1.length = x.1.length := by
  intro l
  induction l with
  | nil => intro x; rfl
  | cons i l ih => intro x; simp [execList, ih, length_exec]

theorem execList_copy (apply : Nat → Option V → S → S) (jid a : Nat) (cf : Option Nat)
    (heap : List (Circ V)) (acc : S) (ha : a < heap.length) :
    paramsAt (execList apply jid a (copyInstrs cf) (heap, acc)).1 a = paramsAt heap (cf.getD a) ∧
    (execList apply jid a (copyInstrs cf) (heap, acc)).2 = acc := by
  cases cf with
  | none => exact ⟨rfl, rfl⟩
  | some s => simp [copyInstrs, execList, paramsAt_exec, ha, newParams, acc_exec, newAcc]

theorem execList_set (apply : Nat → Option V → S → S) (jid a : Nat) :
    ∀ (ws : List (Nat × V)) (heap : List (Circ V)) (acc : S), a < heap.length →
      paramsAt (execList apply jid a (ws.map fun w => Instr.setp w.1 w.2) (heap, acc)).1 a =
        applyWrites (paramsAt heap a) ws ∧
      (execList apply jid a (ws.map fun w => Instr.setp w.1 w.2) (heap, acc)).2 = acc := by
  intro ws
  induction ws with
  | nil => intro heap acc _; exact ⟨rfl, rfl⟩
  | cons w ws ih =>
    intro heap acc ha
    simp only [List.map_cons, execList]
    have hl : a < (execInstr apply jid a (Instr.setp w.1 w.2) heap acc).1.length := by
      rw [length_exec]; exact ha
    have := ih (execInstr apply jid a (Instr.setp w.1 w.2) heap acc).1
      (execInstr apply jid a (Instr.setp w.1 w.2) heap acc).2 hl
    rw [this.1, this.2]
    simp [paramsAt_exec, ha, newParams, acc_exec, newAcc, applyWrites]

theorem execList_gates (apply : Nat → Option V → S → S) (jid a : Nat) (heap : List (Circ V)) :
    ∀ (l : List Nat) (acc : S),
      execList apply jid a (l.map Instr.gate) (heap, acc) =
        (heap, l.foldl (fun acc i => apply i (paramsAt heap a)[i]? acc) acc) := by
  intro l
  induction l with
  | nil => intro acc; rfl
  | cons i l ih => intro acc; simp [execList, execInstr, ih]

theorem execList_prog (apply : Nat → Option V → S → S) (jid : Nat) (job : Job V S)
    (heap : List (Circ V)) (ha : job.circ < heap.length) :
    (execList apply jid job.circ (prog job) (heap, job.input)).2 = seqResult apply heap job := by
  unfold prog
  simp only [execList_append]
  obtain ⟨c1, c2⟩ := execList_copy apply jid job.circ job.copyFrom heap job.input ha
  generalize hx1 : execList apply jid job.circ (copyInstrs job.copyFrom) (heap, job.input) = x1 at c1 c2
  have hl1 : job.circ < x1.1.length := by
    rw [← hx1, execList_params_acc]; exact ha
  obtain ⟨s1, s2⟩ := execList_set apply jid job.circ job.set x1.1 x1.2 hl1
  generalize hx2 : execList apply jid job.circ (job.set.map fun w => Instr.setp w.1 w.2) x1 = x2 at s1 s2
  -- reset
  have r1 : paramsAt (execList apply jid job.circ [Instr.reset] x2).1 job.circ = paramsAt x2.1 job.circ := by
    simp [execList, paramsAt_exec, newParams]
  have r2 : (execList apply jid job.circ [Instr.reset] x2).2 = x2.2 := by
    simp [execList, acc_exec, newAcc]
  generalize hx3 : execList apply jid job.circ [Instr.reset] x2 = x3 at r1 r2
  have hg := execList_gates apply jid job.circ x3.1 (List.range job.ngates) x3.2
  have hg' : execList apply jid job.circ ((List.range job.ngates).map Instr.gate) x3 =
      (x3.1, (List.range job.ngates).foldl (fun acc i => apply i (paramsAt x3.1 job.circ)[i]? acc) x3.2) := hg
  rw [hg']
  simp only [execList, acc_exec, newAcc]
  rw [r1, r2, s1, s2, c1, c2]
  rfl

/-! ### the discipline, decided -/

theorem disciplined_of_B (jobs : List (Job V S)) (h : disciplinedB jobs = true) : Disciplined jobs := by
  intro i j a b hi hj hne
  have hil : i < jobs.length := (List.getElem?_eq_some_iff.mp hi).1
  have hjl : j < jobs.length := (List.getElem?_eq_some_iff.mp hj).1
  simp only [disciplinedB, List.all_eq_true, List.mem_range] at h
  have := h i hil j hjl
  simp only [hi, hj, Bool.or_eq_true, beq_iff_eq, hne, false_or, Bool.not_eq_true'] at this
  exact this

theorem complete_of_B (jobs : List (Job V S)) (sched : List Nat) (h : completeB jobs sched = true) :
    Complete jobs sched := by
  intro j job hj
  have hjl : j < jobs.length := (List.getElem?_eq_some_iff.mp hj).1
  simp only [completeB, List.all_eq_true, List.mem_range] at h
  have := h j hjl
  simpa [hj] using this

/-! ### objects nobody works on -/

theorem heap_untouched (apply : Nat → Option V → S → S) (jobs : List (Job V S)) (a : Nat)
    (hno : ∀ job ∈ jobs, job.circ ≠ a) :
    ∀ (sched : List Nat) (σ : St V S), (run apply jobs σ sched).heap[a]? = σ.heap[a]? := by
  intro sched
  induction sched with
  | nil => intro σ; rfl
  | cons k sched ih =>
    intro σ
    rw [run_cons, ih]
    cases hjk : jobs[k]? with
    | none => rw [step_no_job apply jobs σ k hjk]
    | some jk =>
      cases hσ : σ.locs[k]? with
      | none => rw [step_no_loc apply jobs σ k hσ]
      | some loc =>
        cases hi : (prog jk)[loc.pc]? with
        | none => rw [step_no_ins apply jobs σ k jk loc hjk hσ hi]
        | some ins =>
          rw [step_some apply jobs σ k jk loc ins hjk hσ hi]
          have hne : jk.circ ≠ a := hno jk (List.mem_of_getElem? hjk)
          show (execInstr apply k jk.circ ins σ.heap loc.acc).1[a]? = _
          cases ins <;> simp only [execInstr, modifyAt] <;> (try split) <;>
            simp [hne]

/-! ### the sequential loop is a complete schedule -/

theorem seqSched_complete (jobs : List (Job V S)) : Complete jobs (seqSched jobs) := by
  intro j job hj
  have hjl : j < jobs.length := (List.getElem?_eq_some_iff.mp hj).1
  have hsub : (List.replicate (prog job).length j).Sublist (seqSched jobs) := by
    unfold seqSched
    rw [List.flatMap_def]
    apply List.sublist_flatten_of_mem
    rw [List.mem_map]
    exact ⟨j, List.mem_range.mpr hjl, by simp [hj]⟩
  have := List.Sublist.count_le j hsub
  simpa using this

/-! ### a job that did not get enough turns has no result yet -/

theorem result_incomplete (apply : Nat → Option V → S → S) (heap : List (Circ V))
    (jobs : List (Job V S)) (hd : Disciplined jobs) (job : Job V S) (j : Nat)
    (hj : jobs[j]? = some job) (sched : List Nat) (hc : sched.count j < (prog job).length) :
    result jobs (run apply jobs (init heap jobs) sched) j = none := by
  have m := run_proj apply jobs hd job j hj sched _ _ (match_refl job j (init heap jobs))
  rw [result_of_match jobs job j _ _ m, List.filter_beq]
  have hlen : ((prog job).take (sched.count j)).length = sched.count j := by
    rw [List.length_take]; omega
  have := run_own apply jobs job j hj ((prog job).take (sched.count j)) ((prog job).drop (sched.count j))
    (init heap jobs) 0 job.input (init_loc heap jobs job j hj) (by simp)
  rw [hlen] at this
  unfold result
  rw [hj, this.2]
  simp; omega

/-! ### the helpers hand out disciplined job lists -/

theorem parExecution_disciplined (ngates : Nat) (states : List S) :
    Disciplined (parExecution (V := V) ngates states) := by
  intro i j a b hi _ _
  simp only [parExecution, List.getElem?_map, Option.map_eq_some_iff] at hi
  obtain ⟨s, _, rfl⟩ := hi
  rfl

theorem parCircuits_disciplined (addrs : List (Nat × Nat)) (states : List S) (dflt : S) :
    Disciplined (parCircuits (V := V) addrs states dflt) := by
  intro i j a b hi _ _
  simp only [parCircuits, List.getElem?_map, Option.map_eq_some_iff] at hi
  obtain ⟨s, _, rfl⟩ := hi
  rfl

theorem parParametrized_get (ngates : Nat) (slots : List Nat) (params : List (List V)) (input : S)
    (i : Nat) (a : Job V S) (hi : (parParametrized ngates slots params input)[i]? = some a) :
    ∃ p, params[i]? = some p ∧
      a = { circ := i + 1, copyFrom := some 0, set := List.zip slots p, ngates := ngates, input := input,
            ownInput := true } := by
  simp only [parParametrized, List.getElem?_map, Option.map_eq_some_iff] at hi
  obtain ⟨⟨k, p⟩, hz, rfl⟩ := hi
  rw [List.getElem?_zip_eq_some] at hz
  obtain ⟨h1, h2⟩ := hz
  have hk : k = i := by
    have hil : i < params.length := by
      rcases List.getElem?_eq_some_iff.mp h1 with ⟨hl, _⟩
      simpa using hl
    rw [List.getElem?_range hil] at h1
    exact (Option.some.inj h1).symm
  subst hk
  exact ⟨p, h2, rfl⟩

theorem parParametrized_disciplined (ngates : Nat) (slots : List Nat) (params : List (List V)) (input : S) :
    Disciplined (parParametrized ngates slots params input) := by
  intro i j a b hi hj hne
  obtain ⟨_, _, rfl⟩ := parParametrized_get ngates slots params input i a hi
  obtain ⟨_, _, rfl⟩ := parParametrized_get ngates slots params input j b hj
  simp [clash]
  omega

theorem parParametrized_length (ngates : Nat) (slots : List Nat) (params : List (List V)) (input : S) :
    (parParametrized ngates slots params input).length = params.length := by
  simp [parParametrized]

/-! ### the global generator -/

theorem tapeStep_no_draws (progs : List (List Bool)) (h : ∀ p ∈ progs, ∀ b ∈ p, b = false)
    (τ : Tape) (j : Nat) :
    (tapeStep progs τ j).cursor = τ.cursor ∧ (tapeStep progs τ j).got = τ.got := by
  unfold tapeStep
  cases hp : progs[j]? with
  | none => exact ⟨rfl, rfl⟩
  | some p =>
    cases hpc : τ.pcs[j]? with
    | none => exact ⟨rfl, rfl⟩
    | some pc =>
      cases hg : τ.got[j]? with
      | none => exact ⟨rfl, rfl⟩
      | some g =>
        cases hb : p[pc]? with
        | none => simp [hb]
        | some b =>
          have : b = false := h p (List.mem_of_getElem? hp) b (List.mem_of_getElem? hb)
          subst this
          simp [hb]

theorem tapeRun_no_draws (progs : List (List Bool)) (h : ∀ p ∈ progs, ∀ b ∈ p, b = false) :
    ∀ (sched : List Nat) (τ : Tape),
      (sched.foldl (tapeStep progs) τ).cursor = τ.cursor ∧ (sched.foldl (tapeStep progs) τ).got = τ.got := by
  intro sched
  induction sched with
  | nil => intro τ; exact ⟨rfl, rfl⟩
  | cons j sched ih =>
    intro τ
    have h1 := tapeStep_no_draws progs h τ j
    have h2 := ih (tapeStep progs τ j)
    rw [List.foldl_cons]
    exact ⟨h2.1.trans h1.1, h2.2.trans h1.2⟩

end QV.Par
