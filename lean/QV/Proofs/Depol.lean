/-
  QV.Proofs.Depol — the k-qubit depolarizing channel: the partial-trace fast path
  (`depolarizing_error_density_matrix`) equals the Kraus map of the `4^k − 1` non-identity Pauli
  strings with the constructor's coefficients, on any duplicate-free ordered target tuple.

  Route: (1) `applyGateDM` of an uncontrolled gate as a double `Finset` sum over local indices;
  (2) the Pauli-twirl identity at matrix level, `Σ_P P[i,a]·conj P[j,b] = 2^k δ_ij δ_ab`, by
  induction on `k` over the Kronecker structure of `pauliStringMat` / `pauliCodes`
  (`twirlSum_succ` is the induction step, `tw1_eq` the one-qubit case);
  (3) the first code is the identity string; (4) scalar bookkeeping of `coefficient_sum`.
-/
import Mathlib.Algebra.BigOperators.Group.Finset.Basic
import Mathlib.Algebra.BigOperators.Ring.Finset
import Mathlib.Algebra.BigOperators.Group.List.Basic
import Mathlib.Algebra.BigOperators.Ring.List
import Mathlib.Tactic.IntervalCases
import QV.Proofs.Channels

namespace QV
open Finset

variable {α : Type} [CommRing α]

/-! ### (1) sum form of `G ρ G†` for an uncontrolled gate on any ordered target tuple -/

theorem applyGateDM_eq_sum (conj : α → α) (m : Nat → Nat → α) (ts : List Nat) (hn : ts.Nodup)
    (ρ : DM α) (x y : Lab) :
    applyGateDM conj { mat := m, targets := ts } ρ x y
      = ∑ a ∈ range (2 ^ ts.length), ∑ b ∈ range (2 ^ ts.length),
          m (Lab.idx ts x) a * conj (m (Lab.idx ts y) b)
            * ρ (Lab.wIdx x ts a) (Lab.wIdx y ts b) := by
  unfold applyGateDM
  rw [applyLeft_eq, applyGate_eq_sum _ hn]
  simp only [Lab.allOne, List.all_nil, if_true]
  apply sum_congr rfl
  intro a _
  rw [applyRight_eq, applyGate_eq_sum _ (by simpa using hn)]
  simp only [Lab.allOne, MGate.conjMat_controls, List.all_nil, if_true, MGate.conjMat_targets,
    MGate.conjMat_mat, mul_sum]
  apply sum_congr rfl
  intro b _
  ring

/-! ### index arithmetic for the most significant bit -/

theorem msb_split {m i : Nat} (hm : 0 < m) (hi : i < 2 * m) : i / m % 2 = i / m ∧ i / m < 2 := by
  have h1 : i / m < 2 := Nat.div_lt_of_lt_mul (by rw [Nat.mul_comm]; exact hi)
  exact ⟨Nat.mod_eq_of_lt h1, h1⟩

theorem msb_eq_iff {m i j : Nat} (_hm : 0 < m) (_hi : i < 2 * m) (_hj : j < 2 * m) :
    (i / m % 2 = j / m % 2 ∧ i % m = j % m) ↔ i = j := by
  constructor
  · rintro ⟨e1, e2⟩
    have h1 : i / m < 2 := Nat.div_lt_of_lt_mul (by rw [Nat.mul_comm]; exact _hi)
    have h2 : j / m < 2 := Nat.div_lt_of_lt_mul (by rw [Nat.mul_comm]; exact _hj)
    rw [Nat.mod_eq_of_lt h1, Nat.mod_eq_of_lt h2] at e1
    rw [← Nat.div_add_mod i m, ← Nat.div_add_mod j m, e1, e2]
  · rintro rfl; exact ⟨rfl, rfl⟩

/-! ### (2) the Pauli twirl at matrix level -/

/-- one-qubit twirl sum `Σ_{c ∈ IXYZ} σ_c[i,a] · conj σ_c[j,b]`. -/
def tw1 (conj : α → α) (I : α) (i a j b : Nat) : α :=
  ([0, 1, 2, 3].map (fun c => pauliMat I c i a * conj (pauliMat I c j b))).sum

theorem tw1_eq (conj : α →+* α) (I : α) (hI : I * I = -1) (hcI : conj I = -I) {i a j b : Nat}
    (hi : i < 2) (ha : a < 2) (hj : j < 2) (hb : b < 2) :
    tw1 conj I i a j b = if i = j ∧ a = b then 2 else 0 := by
  interval_cases i <;> interval_cases a <;> interval_cases j <;> interval_cases b <;>
    simp [tw1, pauliMat, matI, matX, matY, matZ, hcI] <;>
    first
      | ring1
      | (linear_combination (-1 : α) * hI)
      | (linear_combination (1 : α) * hI)

/-- k-qubit twirl sum over all `4^k` Pauli strings (in the constructor's order). -/
def twirlSum (conj : α → α) (I : α) (k i a j b : Nat) : α :=
  ((pauliCodes k).map (fun c => pauliStringMat I c i a * conj (pauliStringMat I c j b))).sum

theorem pauliCodes_succ (k : Nat) :
    pauliCodes (k + 1)
      = (pauliCodes k).map (0 :: ·) ++ ((pauliCodes k).map (1 :: ·)
          ++ ((pauliCodes k).map (2 :: ·) ++ (pauliCodes k).map (3 :: ·))) := by
  simp [pauliCodes]

theorem pauliCodes_length : ∀ (k : Nat) (c : List Nat), c ∈ pauliCodes k → c.length = k
  | 0, c, h => by simp [pauliCodes] at h; subst h; rfl
  | k + 1, c, h => by
    rw [pauliCodes_succ] at h
    simp only [List.mem_append, List.mem_map] at h
    rcases h with ⟨cs, hcs, rfl⟩ | ⟨cs, hcs, rfl⟩ | ⟨cs, hcs, rfl⟩ | ⟨cs, hcs, rfl⟩ <;>
      simp [pauliCodes_length k cs hcs]

theorem sum_map_cons_code (conj : α →+* α) (I : α) (c k i a j b : Nat) :
    (((pauliCodes k).map (c :: ·)).map
        (fun s => pauliStringMat I s i a * conj (pauliStringMat I s j b))).sum
      = pauliMat I c (i / 2 ^ k % 2) (a / 2 ^ k % 2) * conj (pauliMat I c (j / 2 ^ k % 2) (b / 2 ^ k % 2))
        * twirlSum conj I k (i % 2 ^ k) (a % 2 ^ k) (j % 2 ^ k) (b % 2 ^ k) := by
  rw [List.map_map, twirlSum, ← List.sum_map_mul_left]
  congr 1
  apply List.map_congr_left
  intro cs hcs
  simp only [Function.comp, pauliStringMat, pauliCodes_length k cs hcs, map_mul]
  ring

/-- **induction step**: the twirl sum factorises over the first (most significant) target. -/
theorem twirlSum_succ (conj : α →+* α) (I : α) (k i a j b : Nat) :
    twirlSum conj I (k + 1) i a j b
      = tw1 conj I (i / 2 ^ k % 2) (a / 2 ^ k % 2) (j / 2 ^ k % 2) (b / 2 ^ k % 2)
        * twirlSum conj I k (i % 2 ^ k) (a % 2 ^ k) (j % 2 ^ k) (b % 2 ^ k) := by
  conv_lhs => rw [twirlSum, pauliCodes_succ]
  simp only [List.map_append, List.sum_append, sum_map_cons_code]
  simp only [tw1, List.map_cons, List.map_nil, List.sum_cons, List.sum_nil]
  ring

theorem twirlSum_zero (conj : α →+* α) (I : α) : twirlSum conj I 0 0 0 0 0 = 1 := by
  simp [twirlSum, pauliCodes, pauliStringMat]

/-- **Pauli-twirl identity** `Σ_P P[i,a]·conj P[j,b] = 2^k δ_ij δ_ab` for every `k`. -/
theorem twirlSum_eq (conj : α →+* α) (I : α) (hI : I * I = -1) (hcI : conj I = -I) :
    ∀ (k i a j b : Nat), i < 2 ^ k → a < 2 ^ k → j < 2 ^ k → b < 2 ^ k →
      twirlSum conj I k i a j b = if i = j ∧ a = b then (2 : α) ^ k else 0
  | 0, i, a, j, b, hi, ha, hj, hb => by
    simp at hi ha hj hb
    subst hi; subst ha; subst hj; subst hb
    simp [twirlSum_zero]
  | k + 1, i, a, j, b, hi, ha, hj, hb => by
    have hm : 0 < 2 ^ k := Nat.two_pow_pos k
    rw [Nat.pow_succ, Nat.mul_comm] at hi ha hj hb
    rw [twirlSum_succ,
      twirlSum_eq conj I hI hcI k _ _ _ _ (Nat.mod_lt _ hm) (Nat.mod_lt _ hm) (Nat.mod_lt _ hm)
        (Nat.mod_lt _ hm),
      tw1_eq conj I hI hcI (Nat.mod_lt _ (by decide)) (Nat.mod_lt _ (by decide))
        (Nat.mod_lt _ (by decide)) (Nat.mod_lt _ (by decide))]
    have hij := msb_eq_iff hm hi hj
    have hab := msb_eq_iff hm ha hb
    by_cases e : i = j ∧ a = b
    · obtain ⟨e1, e2⟩ := e
      subst e1; subst e2
      simp [pow_succ, mul_comm]
    · rw [if_neg e]
      by_cases e1 : i / 2 ^ k % 2 = j / 2 ^ k % 2 ∧ a / 2 ^ k % 2 = b / 2 ^ k % 2
      · have e2 : ¬ (i % 2 ^ k = j % 2 ^ k ∧ a % 2 ^ k = b % 2 ^ k) := by
          intro e2
          exact e ⟨hij.mp ⟨e1.1, e2.1⟩, hab.mp ⟨e1.2, e2.2⟩⟩
        rw [if_neg e2, mul_zero]
      · rw [if_neg e1, zero_mul]

/-! ### (3) the first code is the identity string -/

theorem pauliCodes_head (k : Nat) : ∃ tl, pauliCodes k = List.replicate k 0 :: tl := by
  induction k with
  | zero => exact ⟨[], rfl⟩
  | succ k ih =>
    obtain ⟨tl, htl⟩ := ih
    rw [pauliCodes_succ, htl]
    exact ⟨_, rfl⟩

theorem pauliStringMat_zero (I : α) :
    ∀ (k i j : Nat), i < 2 ^ k → j < 2 ^ k →
      pauliStringMat I (List.replicate k 0) i j = if i = j then 1 else 0
  | 0, i, j, hi, hj => by
    simp at hi hj; subst hi; subst hj; simp [pauliStringMat]
  | k + 1, i, j, hi, hj => by
    have hm : 0 < 2 ^ k := Nat.two_pow_pos k
    rw [Nat.pow_succ, Nat.mul_comm] at hi hj
    have hij := msb_eq_iff hm hi hj
    simp only [List.replicate_succ, pauliStringMat, List.length_replicate, pauliMat, matI]
    rw [pauliStringMat_zero I k _ _ (Nat.mod_lt _ hm) (Nat.mod_lt _ hm)]
    by_cases e : i = j
    · subst e; simp
    · rw [if_neg e]
      by_cases e1 : i / 2 ^ k % 2 = j / 2 ^ k % 2
      · have e2 : ¬ (i % 2 ^ k = j % 2 ^ k) := fun e2 => e (hij.mp ⟨e1, e2⟩)
        rw [if_neg e2, mul_zero]
      · rw [if_neg e1, zero_mul]

/-- the Pauli-string gate of the identity string is the identity map. -/
theorem applyGateDM_zero_code (conj : α →+* α) (I : α) (qs : List Nat) (hn : qs.Nodup) (ρ : DM α) :
    applyGateDM conj { mat := pauliStringMat I (List.replicate qs.length 0), targets := qs } ρ
      = ρ := by
  have h1 : ∀ (mt : Nat → Nat → α), (∀ i j, i < 2 ^ qs.length → j < 2 ^ qs.length →
        mt i j = if i = j then 1 else 0) →
      ∀ ψ : Lab → α, applyGate { mat := mt, targets := qs } ψ = ψ := fun mt hm ψ =>
    applyGate_one _ hn hm ψ
  funext x y
  unfold applyGateDM applyLeft applyRight
  rw [h1 _ (pauliStringMat_zero I qs.length), h1 _ (fun i j hi hj => by
    show conj (pauliStringMat I (List.replicate qs.length 0) i j) = _
    rw [pauliStringMat_zero I qs.length i j hi hj]; split <;> simp)]

/-! ### labels -/

theorem idx_eq_iff (qs : List Nat) (x y : Lab) :
    Lab.idx qs x = Lab.idx qs y ↔ ∀ r ∈ qs, x r = y r := by
  constructor
  · intro e r hr
    have hx := congrFun (Lab.wIdx_idx x qs) r
    have hy := congrFun (Lab.wIdx_idx y qs) r
    rw [← hx, ← hy, e]
    exact Lab.wIdx_of_mem x y _ hr
  · exact Lab.idx_congr

theorem all_eq_iff_idx (qs : List Nat) (x y : Lab) :
    (qs.all (fun q => x q == y q) = true) ↔ Lab.idx qs x = Lab.idx qs y := by
  rw [idx_eq_iff]
  simp [List.all_eq_true]

theorem setMany_wIdx (x y : Lab) (qs : List Nat) (a : Nat) :
    Lab.setMany y qs (Lab.wIdx x qs a) = Lab.wIdx y qs a := by
  funext r
  by_cases h : r ∈ qs
  · simp only [Lab.setMany, List.contains_iff_mem.mpr h, if_true]
    exact Lab.wIdx_of_mem x y a h
  · have : qs.contains r = false := by simpa using h
    simp only [Lab.setMany, this, Bool.false_eq_true, if_false]
    exact (Lab.wIdx_of_not_mem y a h).symm

/-- the partial trace of the channel model as a sum over local indices. -/
theorem ptraceSet_eq_sum_idx {qs : List Nat} (hn : qs.Nodup) (ρ : DM α) (x y : Lab) :
    ptraceSet qs ρ x y = ∑ a ∈ range (2 ^ qs.length), ρ (Lab.wIdx x qs a) (Lab.wIdx y qs a) := by
  unfold ptraceSet
  rw [sumOver_eq_sum' hn]
  exact sum_congr rfl (fun a _ => by rw [setMany_wIdx])

/-! ### list sums -/

theorem list_sum_finset_comm {β : Type} (l : List β) (s : Finset Nat) (f : β → Nat → α) :
    (l.map (fun c => ∑ a ∈ s, f c a)).sum = ∑ a ∈ s, (l.map (fun c => f c a)).sum := by
  induction l with
  | nil => simp
  | cons c l ih => simp only [List.map_cons, List.sum_cons, ih, Finset.sum_add_distrib]

theorem foldl_add_eq_sum (l : List α) (z : α) : l.foldl (· + ·) z = z + l.sum := by
  induction l generalizing z with
  | nil => simp
  | cons a l ih => simp only [List.foldl_cons, ih, List.sum_cons]; ring

theorem pauliCodes_count (k : Nat) (u : α) :
    ((pauliCodes k).map (fun _ => u)).sum = 4 ^ k * u := by
  induction k with
  | zero => simp [pauliCodes]
  | succ k ih =>
    rw [pauliCodes_succ]
    simp only [List.map_append, List.map_map, List.sum_append, Function.comp_def, ih]
    ring

/-! ### the sum of all `4^k` Pauli conjugations is `2^k · (Tr_qs ρ ⊗ 1)` -/

/-- **Pauli twirl at channel level**: `Σ_P P ρ P† = 2^k · (Tr_qs ρ ⊗ 1_qs)` on any duplicate-free
ordered target tuple, entry by entry, for every (not necessarily Hermitian) `ρ`. -/
theorem pauli_twirl (conj : α →+* α) (I : α) (hI : I * I = -1) (hcI : conj I = -I)
    (qs : List Nat) (hn : qs.Nodup) (ρ : DM α) (x y : Lab) :
    ((pauliCodes qs.length).map
        (fun c => applyGateDM conj { mat := pauliStringMat I c, targets := qs } ρ x y)).sum
      = 2 ^ qs.length * (if qs.all (fun q => x q == y q) then ptraceSet qs ρ x y else 0) := by
  have hx := Lab.idx_lt qs x
  have hy := Lab.idx_lt qs y
  -- sum form of every term, then exchange the list sum with the two index sums
  have e1 : (pauliCodes qs.length).map
        (fun c => applyGateDM conj { mat := pauliStringMat I c, targets := qs } ρ x y)
      = (pauliCodes qs.length).map (fun c => ∑ a ∈ range (2 ^ qs.length),
          ∑ b ∈ range (2 ^ qs.length),
            (pauliStringMat I c (Lab.idx qs x) a * conj (pauliStringMat I c (Lab.idx qs y) b))
              * ρ (Lab.wIdx x qs a) (Lab.wIdx y qs b)) :=
    List.map_congr_left (fun c _ => applyGateDM_eq_sum conj _ qs hn ρ x y)
  rw [e1, list_sum_finset_comm]
  have e2 : ∀ a ∈ range (2 ^ qs.length),
      ((pauliCodes qs.length).map (fun c => ∑ b ∈ range (2 ^ qs.length),
          (pauliStringMat I c (Lab.idx qs x) a * conj (pauliStringMat I c (Lab.idx qs y) b))
            * ρ (Lab.wIdx x qs a) (Lab.wIdx y qs b))).sum
        = if Lab.idx qs x = Lab.idx qs y then
            (2 : α) ^ qs.length * ρ (Lab.wIdx x qs a) (Lab.wIdx y qs a) else 0 := by
    intro a ha
    rw [list_sum_finset_comm]
    have e3 : ∀ b ∈ range (2 ^ qs.length),
        ((pauliCodes qs.length).map (fun c =>
            (pauliStringMat I c (Lab.idx qs x) a * conj (pauliStringMat I c (Lab.idx qs y) b))
              * ρ (Lab.wIdx x qs a) (Lab.wIdx y qs b))).sum
          = (if Lab.idx qs x = Lab.idx qs y ∧ a = b then (2 : α) ^ qs.length else 0)
              * ρ (Lab.wIdx x qs a) (Lab.wIdx y qs b) := by
      intro b hb
      rw [← twirlSum_eq conj I hI hcI qs.length _ _ _ _ hx (mem_range.mp ha) hy (mem_range.mp hb),
        twirlSum, ← List.sum_map_mul_right]
    rw [sum_congr rfl e3]
    by_cases e : Lab.idx qs x = Lab.idx qs y
    · simp only [e, true_and, if_true, ite_mul, zero_mul]
      rw [sum_ite_eq, if_pos ha]
    · simp [e]
  rw [sum_congr rfl e2]
  by_cases e : Lab.idx qs x = Lab.idx qs y
  · have hall : qs.all (fun q => x q == y q) = true := (all_eq_iff_idx qs x y).mpr e
    simp only [e, if_true, hall, ptraceSet_eq_sum_idx hn, mul_sum]
  · have hall : ¬ (qs.all (fun q => x q == y q) = true) := fun h => e ((all_eq_iff_idx qs x y).mp h)
    simp [e, hall]

/-! ### (4) the constructor's channel object -/

/-- the k-qubit depolarizing fast path is the Kraus map of the `4^k − 1` non-identity Pauli strings
with coefficient `u = lam / 4^k` each: `c0 = 1 − lam = 1 − 4^k u`, `w = lam / 2^k = 2^k u`. -/
theorem depolFast_eq_kraus (conj : α →+* α) (I u : α) (hI : I * I = -1) (hcI : conj I = -I)
    (qs : List Nat) (hn : qs.Nodup) (ρ : DM α) :
    depolFast (1 - 4 ^ qs.length * u) (2 ^ qs.length * u) qs ρ
      = applyChannelDM conj (depolChan I u qs) ρ := by
  funext x y
  obtain ⟨tl, htl⟩ := pauliCodes_head qs.length
  have hcount := pauliCodes_count qs.length u
  have htw := pauli_twirl conj I hI hcI qs hn ρ x y
  rw [htl] at hcount htw
  simp only [List.map_cons, List.sum_cons, applyGateDM_zero_code conj I qs hn ρ] at hcount htw
  -- the channel object
  have hzip : (depolChan I u qs).coeffs.zip (depolChan I u qs).gates
      = tl.map (fun c => (u, ({ mat := pauliStringMat I c, targets := qs } : MGate α))) := by
    simp only [depolChan, pauliChan, unitaryChan, htl, List.drop_succ_cons, List.drop_zero,
      List.map_map, Function.comp_def]
    rw [List.zip_map']
  have hcsum : (depolChan I u qs).csum = (tl.map (fun _ => u)).sum := by
    simp only [depolChan, pauliChan, unitaryChan, htl, List.drop_succ_cons, List.drop_zero,
      List.map_map, Function.comp_def]
    rw [foldl_add_eq_sum, zero_add]
  rw [applyChannelDM, krausFold_eq, hzip, hcsum, List.map_map]
  simp only [Function.comp_def]
  rw [List.sum_map_mul_left]
  simp only [depolFast]
  linear_combination (ρ x y) * hcount - u * htw

/-! ### trace preservation of the k-qubit fast path -/

/-- `Tr_qs` of the closed form: `c0 + 2^k w = 1` (i.e. `(1 − lam) + lam = 1`) keeps the partial
trace over the targets. -/
theorem trN_depolFast (c0 w : α) (qs : List Nat) (hn : qs.Nodup) (h1 : c0 + 2 ^ qs.length * w = 1)
    (ρ : DM α) (z : Lab) : trN qs (depolFast c0 w qs ρ) z = trN qs ρ z := by
  unfold trN
  rw [sumOver_eq_sum' hn, sumOver_eq_sum' hn]
  have e : ∀ a ∈ range (2 ^ qs.length),
      depolFast c0 w qs ρ (Lab.wIdx z qs a) (Lab.wIdx z qs a)
        = c0 * ρ (Lab.wIdx z qs a) (Lab.wIdx z qs a)
          + w * ∑ b ∈ range (2 ^ qs.length), ρ (Lab.wIdx z qs b) (Lab.wIdx z qs b) := by
    intro a _
    have hall : qs.all (fun q => Lab.wIdx z qs a q == Lab.wIdx z qs a q) = true := by
      simp [List.all_eq_true]
    simp only [depolFast, hall, if_true, ptraceSet_eq_sum_idx hn, Lab.wIdx_wIdx]
  rw [sum_congr rfl e, Finset.sum_add_distrib, ← mul_sum, sum_const, card_range, nsmul_eq_mul,
    Nat.cast_pow, Nat.cast_ofNat]
  linear_combination (∑ b ∈ range (2 ^ qs.length), ρ (Lab.wIdx z qs b) (Lab.wIdx z qs b)) * h1

end QV
