/-
  Lemmas about the circuit-queue model (QV/Model/CircuitQueue.lean), property C05.
-/
import QV.Model.CircuitQueue
set_option linter.unusedSimpArgs false
set_option linter.unusedVariables false
set_option linter.unusedSectionVars false
namespace QV.CQ

/-! ### `sorted` -/

theorem insertSorted_comm (a b : Nat) (l : List Nat) :
    insertSorted a (insertSorted b l) = insertSorted b (insertSorted a l) := by
  induction l with
  | nil =>
    simp only [insertSorted]
    by_cases h1 : a ≤ b <;> by_cases h2 : b ≤ a <;> simp [insertSorted, h1, h2]
    · omega
    · omega
  | cons c l ih =>
    simp only [insertSorted]
    by_cases h1 : a ≤ c <;> by_cases h2 : b ≤ c <;> by_cases h3 : a ≤ b <;> by_cases h4 : b ≤ a <;>
      simp [insertSorted, h1, h2, h3, h4, ih] <;> omega

theorem insertSorted_perm (a : Nat) (l : List Nat) : (insertSorted a l).Perm (a :: l) := by
  induction l with
  | nil => exact List.Perm.refl _
  | cons b l ih =>
    simp only [insertSorted]
    split
    · exact List.Perm.refl _
    · exact (List.Perm.cons b ih).trans (List.Perm.swap a b l)

theorem isort_perm (l : List Nat) : (isort l).Perm l := by
  induction l with
  | nil => exact List.Perm.refl _
  | cons a l ih => exact (insertSorted_perm a (isort l)).trans (List.Perm.cons a ih)

/-- sorting forgets the order of its input. -/
theorem isort_congr {l₁ l₂ : List Nat} (h : l₁.Perm l₂) : isort l₁ = isort l₂ := by
  induction h with
  | nil => rfl
  | cons a _ ih => simp only [isort, ih]
  | swap a b l => simp only [isort]; exact insertSorted_comm b a (isort l)
  | trans _ _ ih1 ih2 => exact ih1.trans ih2

theorem isort_map_isort (f : Nat → Nat) (l : List Nat) :
    isort ((isort l).map f) = isort (l.map f) :=
  isort_congr ((isort_perm l).map f)

theorem mem_isort {q : Nat} {l : List Nat} : q ∈ isort l ↔ q ∈ l := (isort_perm l).mem_iff

/-- the result of `isort` is ascending. -/
def Asc : List Nat → Prop
  | [] => True
  | [_] => True
  | a :: b :: l => a ≤ b ∧ Asc (b :: l)

theorem asc_insertSorted (a : Nat) (l : List Nat) (h : Asc l) : Asc (insertSorted a l) := by
  induction l with
  | nil => trivial
  | cons b l ih =>
    simp only [insertSorted]
    split
    · exact ⟨by assumption, h⟩
    · rename_i hab
      cases l with
      | nil => exact ⟨by omega, trivial⟩
      | cons c l =>
        have hc := ih h.2
        simp only [insertSorted] at hc ⊢
        split
        · exact ⟨by omega, by rename_i h'; simpa [h'] using hc⟩
        · rename_i h'
          exact ⟨h.1, by simpa [h'] using hc⟩

theorem asc_isort (l : List Nat) : Asc (isort l) := by
  induction l with
  | nil => trivial
  | cons a l ih => exact asc_insertSorted a _ ih

theorem insertSorted_of_asc (a : Nat) (l : List Nat) (h : Asc (a :: l)) : insertSorted a l = a :: l := by
  cases l with
  | nil => rfl
  | cons b l => simp [insertSorted, h.1]

/-- an ascending list is a fixed point of `sorted`. -/
theorem isort_of_asc (l : List Nat) (h : Asc l) : isort l = l := by
  induction l with
  | nil => rfl
  | cons a l ih =>
    have hl : Asc l := by
      cases l with
      | nil => trivial
      | cons b l => exact h.2
    simp only [isort, ih hl]
    exact insertSorted_of_asc a l h

/-! ### gate-level glue -/

theorem Gt.onQubits_comp (σ τ : Nat → Nat) (g : Gt) :
    (g.onQubits τ).onQubits σ = g.onQubits (σ ∘ τ) := by
  cases g with
  | mk uid ker targets controls cb train kwTrain =>
    simp only [Gt.onQubits, List.map_map, isort_map_isort, Gt.mk.injEq, true_and]
    cases train <;> simp

/-! ### `Circuit.add`: steps that bring no rotation along -/

variable {ν : Type} [DecidableEq ν]

theorem length_mkRots (rotOf : Nat → Option Tmpl) (u : Nat) (ts bs : List Nat) :
    (mkRots rotOf u ts bs).length = rotCount rotOf ts bs := by
  induction ts generalizing u bs with
  | nil => simp [mkRots, rotCount]
  | cons t ts ih =>
    cases bs with
    | nil => simp [mkRots, rotCount]
    | cons b bs =>
      simp only [mkRots, rotCount]
      cases h : rotOf b with
      | none => simp [ih]
      | some r => simp [ih]; omega

theorem mkRots_eq_nil {rotOf : Nat → Option Tmpl} {u : Nat} {ts bs : List Nat}
    (h : rotCount rotOf ts bs = 0) : mkRots rotOf u ts bs = [] :=
  List.eq_nil_of_length_eq_zero (by rw [length_mkRots, h])

theorem rotCount_map (rotOf : Nat → Option Tmpl) (σ : Nat → Nat) (ts bs : List Nat) :
    rotCount rotOf (ts.map σ) bs = rotCount rotOf ts bs := by
  induction ts generalizing bs with
  | nil => simp [rotCount]
  | cons t ts ih => cases bs <;> simp [rotCount, ih]

theorem rotCount_zeros (rotOf : Nat → Option Tmpl) (h0 : rotOf 0 = none) (ts : List Nat) {α : Type}
    (l : List α) : rotCount rotOf ts (l.map fun _ => 0) = 0 := by
  induction ts generalizing l with
  | nil => simp [rotCount]
  | cons t ts ih => cases l <;> simp [rotCount, h0, ih]

/-- the queue element a step puts at the end of the queue when it brings no rotation along
    (the register name is assigned by `add`). -/
def Step.entry : Step ν → Entry ν
  | .plain e => e
  | .obj m => .meas m
  | .build ts kn kc kb => .meas { targets := ts, name := kn, kwName := kn, collapse := kc,
                                  kwCollapse := kc, kwBasis := kb, rot := [] }

/-- a step that adds nothing but itself. -/
def Step.Quiet (rotOf : Nat → Option Tmpl) : Step ν → Prop
  | .plain e => e.isMeas = false
  | .obj m => m.rot = []
  | .build ts _ _ kb => rotCount rotOf ts kb = 0

/-- an observation of queue elements that does not look at the assigned register name. -/
def NameBlind {β : Type} (f : Entry ν → β) : Prop :=
  ∀ (m : Ms ν) (nm : Option ν), f (.meas { m with name := nm }) = f (.meas m)

theorem addStep_quiet {β : Type} (f : Entry ν → β) (hf : NameBlind f) (rw : Bool) (dflt : Nat → ν)
    (rotOf : Nat → Option Tmpl) (s s' : St ν) (x : Step ν) (hq : x.Quiet rotOf)
    (h : addStep rw dflt rotOf s x = some s') :
    s'.queue.map f = s.queue.map f ++ [f x.entry] := by
  cases x with
  | plain e =>
    simp only [addStep, Option.some.injEq] at h
    subst h
    simp [addPlain, Step.entry]
  | obj m =>
    obtain ⟨ts, nm, kn, c, kc, kb, rot⟩ := m
    simp only [Step.Quiet] at hq
    subst hq
    simp only [addStep, addMeas, addRots, List.foldl_nil, List.isEmpty_nil, Bool.not_true,
      Bool.and_false] at h
    split at h
    · exact absurd h (by simp)
    · simp only [Option.some.injEq] at h
      subst h
      simp only [List.map_append, List.map_cons, List.map_nil, Step.entry, Bool.false_eq_true,
        if_false]
      congr 2
      exact hf { targets := ts, name := nm, kwName := kn, collapse := c, kwCollapse := kc,
                 kwBasis := kb, rot := [] } _
  | build ts kn kc kb =>
    simp only [Step.Quiet] at hq
    simp only [addStep, addMeas, Ms.build, mkRots_eq_nil hq, addRots, List.foldl_nil,
      List.isEmpty_nil, Bool.not_true, Bool.and_false, List.length_nil, Nat.add_zero] at h
    split at h
    · exact absurd h (by simp)
    · simp only [Option.some.injEq] at h
      subst h
      simp only [List.map_append, List.map_cons, List.map_nil, Step.entry, Bool.false_eq_true,
        if_false]
      congr 2
      exact hf { targets := ts, name := kn, kwName := kn, collapse := kc, kwCollapse := kc,
                 kwBasis := kb, rot := [] } _

/-- **no insertion**: adding steps none of which brings a rotation along appends exactly one
    queue element per step, in order — every start state, every list of steps. -/
theorem addSteps_quiet {β : Type} (f : Entry ν → β) (hf : NameBlind f) (rw : Bool) (dflt : Nat → ν)
    (rotOf : Nat → Option Tmpl) (steps : List (Step ν)) (s s' : St ν)
    (hq : ∀ x ∈ steps, x.Quiet rotOf) (h : addSteps rw dflt rotOf s steps = some s') :
    s'.queue.map f = s.queue.map f ++ steps.map fun x => f x.entry := by
  induction steps generalizing s with
  | nil =>
    simp only [addSteps, Option.some.injEq] at h
    subst h
    simp
  | cons x xs ih =>
    simp only [addSteps] at h
    cases h1 : addStep rw dflt rotOf s x with
    | none => simp [h1] at h
    | some s1 =>
      simp only [h1] at h
      rw [ih s1 (fun y hy => hq y (List.mem_cons_of_mem _ hy)) h,
        addStep_quiet f hf rw dflt rotOf s s1 x (hq x (List.mem_cons_self ..)) h1]
      simp

theorem nameBlind_erase : NameBlind (Entry.erase (ν := ν)) := fun _ _ => rfl

/-- the object identities an entry carries (its own, its members', its rotation objects'). -/
def Entry.uids : Entry ν → List Nat
  | .gate g => [g.uid]
  | .meas m => m.rot.map (·.uid)
  | .fused _ ms => ms.map (·.uid)

theorem nameBlind_uids : NameBlind (Entry.uids (ν := ν)) := fun _ _ => rfl

theorem nameBlind_isMeas : NameBlind (Entry.isMeas (ν := ν)) := fun _ _ => rfl

theorem step_entry_erase (x : Step ν) : x.entry.erase = x.erase := by
  cases x <;> rfl

/-! ### the invariant of `Circuit.add` (repaired behaviour) -/

/-- every queued measurement names a rotation-free basis in its constructor arguments: a
    measurement rebuilt from them brings no rotation along. -/
def Materialised (rotOf : Nat → Option Tmpl) (q : List (Entry ν)) : Prop :=
  ∀ m, Entry.meas m ∈ q → rotCount rotOf m.targets m.kwBasis = 0

/-- what is handed to `add` is a gate, or a measurement object whose `.basis` list is the one its
    constructor arguments describe (empty only if they describe no rotation). -/
def Step.WF (rotOf : Nat → Option Tmpl) : Step ν → Prop
  | .plain e => e.isMeas = false
  | .obj m => m.rot = [] → rotCount rotOf m.targets m.kwBasis = 0
  | .build _ _ _ _ => True

theorem addRots_meas_mem (s : St ν) (rs : List Gt) (m : Ms ν) :
    Entry.meas m ∈ (addRots s rs).queue ↔ Entry.meas m ∈ s.queue := by
  unfold addRots
  induction rs generalizing s with
  | nil => simp
  | cons r rs ih =>
    simp only [List.foldl_cons]
    rw [ih]
    split
    · rfl
    · simp [addPlain]

theorem addMeas_materialised (rotOf : Nat → Option Tmpl) (h0 : rotOf 0 = none) (dflt : Nat → ν)
    (s s' : St ν) (m : Ms ν) (hs : Materialised rotOf s.queue)
    (hm : m.rot = [] → rotCount rotOf m.targets m.kwBasis = 0)
    (h : addMeas true dflt s m = some s') : Materialised rotOf s'.queue := by
  simp only [addMeas] at h
  split at h
  · exact absurd h (by simp)
  · simp only [Option.some.injEq] at h
    subst h
    intro m' hm'
    simp only [List.mem_append, List.mem_singleton, Entry.meas.injEq] at hm'
    rcases hm' with hm' | hm'
    · exact hs m' ((addRots_meas_mem s m.rot m').1 hm')
    · subst hm'
      by_cases hr : m.rot = []
      · simpa [hr] using hm hr
      · have : m.rot.isEmpty = false := by
          cases h' : m.rot with
          | nil => exact absurd h' hr
          | cons _ _ => rfl
        simp only [this, Bool.not_false, Bool.and_self, if_true]
        exact rotCount_zeros rotOf h0 m.targets m.targets

theorem addStep_materialised (rotOf : Nat → Option Tmpl) (h0 : rotOf 0 = none) (dflt : Nat → ν)
    (s s' : St ν) (x : Step ν) (hs : Materialised rotOf s.queue) (hx : x.WF rotOf)
    (h : addStep true dflt rotOf s x = some s') : Materialised rotOf s'.queue := by
  cases x with
  | plain e =>
    simp only [addStep, Option.some.injEq] at h
    subst h
    intro m hm
    simp only [addPlain, List.mem_append, List.mem_singleton] at hm
    rcases hm with hm | hm
    · exact hs m hm
    · subst hm
      simp [Step.WF, Entry.isMeas] at hx
  | obj m => exact addMeas_materialised rotOf h0 dflt s s' m hs hx h
  | build ts kn kc kb =>
    simp only [addStep] at h
    refine addMeas_materialised rotOf h0 dflt
      { s with next := s.next + (Ms.build (ν := ν) rotOf s.next ts kn kc kb).rot.length } s' _ hs ?_ h
    intro hr
    have := length_mkRots rotOf s.next ts kb
    simp only [Ms.build] at hr ⊢
    rw [hr] at this
    exact this.symm

/-- **the invariant holds after every history of `add`s.** -/
theorem addSteps_materialised (rotOf : Nat → Option Tmpl) (h0 : rotOf 0 = none) (dflt : Nat → ν)
    (steps : List (Step ν)) (s s' : St ν) (hs : Materialised rotOf s.queue)
    (hx : ∀ x ∈ steps, x.WF rotOf) (h : addSteps true dflt rotOf s steps = some s') :
    Materialised rotOf s'.queue := by
  induction steps generalizing s with
  | nil =>
    simp only [addSteps, Option.some.injEq] at h
    subst h
    exact hs
  | cons x xs ih =>
    simp only [addSteps] at h
    cases h1 : addStep true dflt rotOf s x with
    | none => simp [h1] at h
    | some s1 =>
      simp only [h1] at h
      exact ih s1 (addStep_materialised rotOf h0 dflt s s1 x hs (hx x (List.mem_cons_self ..)) h1)
        (fun y hy => hx y (List.mem_cons_of_mem _ hy)) h

/-! ### per-element plans -/

theorem mapM'_map {α β γ : Type} {f : α → Option β} {g : α → γ} {h : β → γ}
    (hfg : ∀ a b, f a = some b → g a = h b) (l : List α) (r : List β)
    (hr : mapM' f l = some r) : l.map g = r.map h := by
  induction l generalizing r with
  | nil =>
    simp only [mapM', Option.some.injEq] at hr
    subst hr
    rfl
  | cons a l ih =>
    simp only [mapM'] at hr
    cases h1 : f a with
    | none => simp [h1] at hr
    | some b =>
      cases h2 : mapM' f l with
      | none => simp [h1, h2] at hr
      | some bs =>
        simp only [h1, h2, Option.some.injEq] at hr
        subst hr
        simp [hfg a b h1, ih bs h2]

theorem mapM'_all {α β : Type} {f : α → Option β} {P : α → Prop} {Q : β → Prop}
    (hpq : ∀ a b, f a = some b → P a → Q b) (l : List α) (r : List β)
    (hr : mapM' f l = some r) (hl : ∀ a ∈ l, P a) : ∀ b ∈ r, Q b := by
  induction l generalizing r with
  | nil =>
    simp only [mapM', Option.some.injEq] at hr
    subst hr
    simp
  | cons a l ih =>
    simp only [mapM'] at hr
    cases h1 : f a with
    | none => simp [h1] at hr
    | some b =>
      cases h2 : mapM' f l with
      | none => simp [h1, h2] at hr
      | some bs =>
        simp only [h1, h2, Option.some.injEq] at hr
        subst hr
        intro b' hb'
        simp only [List.mem_cons] at hb'
        rcases hb' with rfl | hb'
        · exact hpq a _ h1 (hl a (List.mem_cons_self ..))
        · exact ih bs h2 (fun a' ha' => hl a' (List.mem_cons_of_mem _ ha')) b' hb'

/-- a queue element moved by `on_qubits` (constructor-level content). -/
def Entry.relabel (σ : Nat → Nat) : Entry ν → Entry ν
  | .gate g => .gate (g.onQubits σ)
  | .meas m => .meas { targets := m.targets.map σ, kwName := m.kwName, kwCollapse := m.kwCollapse,
                       kwBasis := m.kwBasis }
  | .fused qs ms => .fused qs ms

theorem Entry.relabel_comp (σ τ : Nat → Nat) (e : Entry ν) :
    (e.relabel τ).relabel σ = e.relabel (σ ∘ τ) := by
  cases e with
  | gate g => simp [Entry.relabel, Gt.onQubits_comp]
  | meas m => simp [Entry.relabel, List.map_map]
  | fused qs ms => rfl

/-- the qubit lists of queue elements that the elements themselves hold. -/
def QuietQueue (rotOf : Nat → Option Tmpl) (q : List (Entry ν)) : Prop := Materialised rotOf q

/-! ### shallow re-adding -/

/-- every measurement of `q` was added by `Circuit.add` after the prefix `p`: it has its register
    name, its rotation objects are in the queue before it, its constructor arguments say Z. -/
def SettledFrom : List (Entry ν) → List (Entry ν) → Prop
  | _, [] => True
  | p, e :: q =>
    (match e with
      | .meas m => m.name.isSome ∧ (∀ r ∈ m.rot, present p r.uid = true) ∧
          (m.rot ≠ [] → m.kwBasis = m.targets.map fun _ => 0)
      | _ => True) ∧ SettledFrom (p ++ [e]) q

theorem addRots_present (s : St ν) (rs : List Gt) (h : ∀ r ∈ rs, present s.queue r.uid = true) :
    addRots s rs = s := by
  unfold addRots
  induction rs with
  | nil => rfl
  | cons r rs ih =>
    simp only [List.foldl_cons, h r (List.mem_cons_self ..), if_true]
    exact ih (fun r' hr' => h r' (List.mem_cons_of_mem _ hr'))

theorem addSteps_settled (rw : Bool) (dflt : Nat → ν) (rotOf : Nat → Option Tmpl)
    (q : List (Entry ν)) (s s' : St ν) (hq : SettledFrom s.queue q)
    (h : addSteps rw dflt rotOf s (q.map Step.same) = some s') : s'.queue = s.queue ++ q := by
  induction q generalizing s with
  | nil =>
    simp only [List.map_nil, addSteps, Option.some.injEq] at h
    subst h
    simp
  | cons e q ih =>
    simp only [List.map_cons, addSteps] at h
    cases h1 : addStep rw dflt rotOf s (Step.same e) with
    | none => simp [h1] at h
    | some s1 =>
      simp only [h1] at h
      have hs1 : s1.queue = s.queue ++ [e] := by
        cases e with
        | gate g =>
          simp only [Step.same, addStep, Option.some.injEq] at h1
          subst h1
          rfl
        | fused qs ms =>
          simp only [Step.same, addStep, Option.some.injEq] at h1
          subst h1
          rfl
        | meas m =>
          obtain ⟨⟨hn, hp, hz⟩, _⟩ := hq
          simp only [Step.same, addStep, addMeas, addRots_present s m.rot hp] at h1
          split at h1
          · exact absurd h1 (by simp)
          · simp only [Option.some.injEq] at h1
            subst h1
            obtain ⟨ts, nm, kn, c, kc, kb, rot⟩ := m
            cases nm with
            | none => simp at hn
            | some x =>
              simp only [List.append_cancel_left_eq, List.cons.injEq, and_true, Entry.meas.injEq,
                Ms.mk.injEq, true_and]
              cases rot with
              | nil => simp
              | cons r rs =>
                have := hz (by simp)
                simp only at this
                simp [this]
      have := ih s1 (by rw [hs1]; exact hq.2) h
      rw [this, hs1]
      simp

end QV.CQ
