/-
  More lemmas about the QASM reader model (`QV.Model.Qasm`): `_merge_measurements`
  keeps the gates in order, emits one measurement per register, merged queues are fixed
  points; several quantum registers are laid out one after the other.
-/
import QV.Proofs.Qasm

namespace QV.Qasm

def Item.gate? : Item → Option GateS
  | .gate g => some g
  | .meas _ _ => none

def QItem.gate? : QItem → Option GateS
  | .gate g => some g
  | .meas _ => none

def QItem.reg? : QItem → Option Reg
  | .gate _ => none
  | .meas r => some r

/-- the statement a merged entry came from (one `measure` line stands for the register) -/
def QItem.toItem : QItem → Item
  | .gate g => .gate g
  | .meas r => .meas (r.qubits.headD 0) r.name

/-- the classical registers a merged queue describes -/
def regsOf (out : List QItem) : List (String × List Nat) :=
  out.filterMap fun x => x.reg?.map fun r => (r.name, r.qubits)

theorem merge_gates_preserved (D : List (String × List Nat)) (items : List Item) :
    (merge D items).filterMap QItem.gate? = items.filterMap Item.gate? := by
  induction items generalizing D with
  | nil => rfl
  | cons x xs ih =>
    cases x with
    | gate g => simp [merge, List.filterMap_cons, QItem.gate?, Item.gate?, ih]
    | meas q reg =>
      simp only [merge]
      cases dictGet D reg with
      | some qs => simp [List.filterMap_cons, QItem.gate?, Item.gate?, ih]
      | none => simp [List.filterMap_cons, Item.gate?, ih]

theorem dictGet_mem {β : Type} (d : List (String × β)) (k : String) (v : β)
    (h : dictGet d k = some v) : k ∈ d.map Prod.fst := by
  induction d with
  | nil => simp [dictGet] at h
  | cons a d ih =>
    obtain ⟨k', v'⟩ := a
    simp only [dictGet] at h
    by_cases hk : k' = k
    · simp [hk]
    · simp only [hk, if_false] at h
      simp [ih h]

theorem dictPop_keys {β : Type} (d : List (String × β)) (k : String) :
    (dictPop d k).map Prod.fst = (d.map Prod.fst).erase k := by
  induction d with
  | nil => rfl
  | cons a d ih =>
    obtain ⟨k', v'⟩ := a
    by_cases hk : k' = k
    · subst hk; simp [dictPop]
    · simp [dictPop, hk, ih, List.erase_cons_tail]

theorem merge_names_sub (D : List (String × List Nat)) (items : List Item) :
    ∀ r ∈ (merge D items).filterMap QItem.reg?, r.name ∈ D.map Prod.fst := by
  induction items generalizing D with
  | nil => intro r hr; simp [merge] at hr
  | cons x xs ih =>
    cases x with
    | gate g =>
      intro r hr
      simp only [merge, List.filterMap_cons, QItem.reg?] at hr
      exact ih D r hr
    | meas q reg =>
      intro r hr
      simp only [merge] at hr
      cases hg : dictGet D reg with
      | none => simp only [hg] at hr; exact ih D r hr
      | some qs =>
        simp only [hg, List.filterMap_cons, QItem.reg?, List.mem_cons] at hr
        rcases hr with e | e
        · subst e; exact dictGet_mem D reg qs hg
        · have := ih (dictPop D reg) r e
          rw [dictPop_keys] at this
          exact List.mem_of_mem_erase this

theorem merge_names_nodup (D : List (String × List Nat)) (hD : (D.map Prod.fst).Nodup)
    (items : List Item) :
    (((merge D items).filterMap QItem.reg?).map (·.name)).Nodup := by
  induction items generalizing D with
  | nil => simp [merge]
  | cons x xs ih =>
    cases x with
    | gate g => simpa [merge, List.filterMap_cons, QItem.reg?] using ih D hD
    | meas q reg =>
      simp only [merge]
      cases hg : dictGet D reg with
      | none => simpa using ih D hD
      | some qs =>
        have hD' : ((dictPop D reg).map Prod.fst).Nodup := by
          rw [dictPop_keys]; exact hD.erase _
        simp only [List.filterMap_cons, QItem.reg?, List.map_cons, List.nodup_cons]
        refine ⟨?_, ih _ hD'⟩
        intro hmem
        obtain ⟨r, hr, hname⟩ := List.mem_map.1 hmem
        have := merge_names_sub (dictPop D reg) xs r hr
        rw [dictPop_keys, hname] at this
        exact (List.Nodup.not_mem_erase hD) this

theorem merge_fixed (out : List QItem) : merge (regsOf out) (out.map QItem.toItem) = out := by
  induction out with
  | nil => rfl
  | cons x xs ih =>
    cases x with
    | gate g => simpa [merge, regsOf, List.filterMap_cons, QItem.toItem, QItem.reg?] using ih
    | meas r =>
      have : regsOf (QItem.meas r :: xs) = (r.name, r.qubits) :: regsOf xs := by
        simp [regsOf, List.filterMap_cons, QItem.reg?]
      simp only [this, List.map_cons, QItem.toItem, merge, dictGet, if_true, dictPop, ih]

/-! ### several quantum registers -/

/-- the `q_registers` entries of declarations read from global index `n0` on -/
def qregEntries : Nat → List (String × Nat) → List (String × List Nat)
  | _, [] => []
  | n0, (nm, sz) :: rest => (nm, (List.range sz).map (· + n0)) :: qregEntries (n0 + sz) rest

def totalSize (regs : List (String × Nat)) : Nat := (regs.map Prod.snd).sum

theorem qregEntries_keys (n0 : Nat) (regs : List (String × Nat)) :
    (qregEntries n0 regs).map Prod.fst = regs.map Prod.fst := by
  induction regs generalizing n0 with
  | nil => rfl
  | cons a rest ih => obtain ⟨nm, sz⟩ := a; simp [qregEntries, ih]

theorem parse_qregs (regs : List (String × Nat)) (s : St)
    (hnd : (regs.map Prod.fst).Nodup) (hnew : ∀ nm ∈ regs.map Prod.fst, nm ∉ s.qregs.map Prod.fst) :
    parse s (regs.map fun r => Line.qreg r.1 r.2)
      = some { s with nq := s.nq + totalSize regs, qregs := s.qregs ++ qregEntries s.nq regs } := by
  induction regs generalizing s with
  | nil => simp [parse, totalSize, qregEntries]
  | cons a rest ih =>
    obtain ⟨nm, sz⟩ := a
    simp only [List.map_cons, List.nodup_cons] at hnd
    have h1 : nm ∉ s.qregs.map Prod.fst := hnew nm (by simp)
    simp only [List.map_cons, parse, step, dictSet_new s.qregs nm _ h1]
    rw [ih _ hnd.2 (by
      intro nm' hnm'
      simp only [List.map_append, List.map_cons, List.map_nil, List.mem_append, List.mem_singleton, not_or]
      exact ⟨hnew nm' (by simp [hnm']), fun e => hnd.1 (e ▸ hnm')⟩)]
    simp [totalSize, qregEntries, Nat.add_assoc]

/-- where the `i`-th qubit of the `k`-th register lands -/
theorem resolve_qregEntries (pre : List (String × List Nat)) (n0 : Nat)
    (before : List (String × Nat)) (nm : String) (sz : Nat) (after : List (String × Nat))
    (hpre : nm ∉ pre.map Prod.fst) (hb : nm ∉ before.map Prod.fst) (i : Nat) (hi : i < sz) :
    resolve (pre ++ qregEntries n0 (before ++ (nm, sz) :: after)) ⟨nm, i⟩
      = some (n0 + totalSize before + i) := by
  induction before generalizing pre n0 with
  | nil =>
    simp only [List.nil_append, qregEntries, resolve]
    rw [dictGet_mid pre _ nm _ hpre]
    simp [totalSize, hi, Nat.add_comm]
  | cons a rest ih =>
    obtain ⟨nm', sz'⟩ := a
    simp only [List.map_cons, List.mem_cons, not_or] at hb
    have := ih (pre ++ [(nm', (List.range sz').map (· + n0))]) (n0 + sz')
      (by simp only [List.map_append, List.map_cons, List.map_nil, List.mem_append,
            List.mem_singleton, not_or]; exact ⟨hpre, hb.1⟩) hb.2
    simp only [List.append_assoc, List.cons_append, List.nil_append] at this
    simp only [List.cons_append, qregEntries, this, totalSize, List.map_cons, List.sum_cons]
    congr 1; omega

end QV.Qasm
