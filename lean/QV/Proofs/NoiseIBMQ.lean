/-
  QV.Proofs.NoiseIBMQ — `IBMQNoiseModel.from_dict` followed by the proved `apply` model refines
  the documented per-gate SPEC (QV/Model/NoiseIBMQ.lean).

  Step 1 (any rule list with parameters): the rule numbers that `attachNoise` writes into the
  channels can be replaced by the parameters of the rules (`decode_block`): the block of a gate is
  `beforeP ++ [gate] ++ afterP`, index-free.
  Step 2 (the IBMQ rule list): which rules a gate selects and which channels they create.
-/
import Mathlib.Data.List.Basic
import QV.Model.NoiseIBMQ
import QV.Proofs.Noise

namespace QV.Noise

variable {V : Type}

/-! ### step 1: from rule numbers to parameters -/

/-- the qubit tuples of the channels a rule creates on a gate. -/
def ruleQss (r : Rule) (g : NGate) : List (List Nat) :=
  if condsHold r g then
    if (ruleQubits r g).isEmpty then [] else channelQubits r.kind (ruleQubits r g)
  else []

theorem ruleChannels_eq (i : Nat) (r : Rule) (g : NGate) :
    ruleChannels i r g = (ruleQss r g).map (Item.chan i r.kind) := by
  unfold ruleChannels ruleQss
  split <;> [split; skip] <;> simp

/-- the channels of a rule, labelled by its parameters. -/
def chansP (g : NGate) (rp : PRule V) : List (SItem V) :=
  (ruleQss rp.1 g).map (SItem.chan rp.1.kind rp.2)

theorem decode_flatMap (R : List (PRule V)) (g : NGate) (f : Rule → Bool) :
    ∀ (L : List (PRule V)) (k : Nat), (∀ j (hj : j < L.length), R[k + j]? = some L[j]) →
      (((((L.map (·.1)).zipIdx k).map fun p => (p.2, p.1)).filter fun p => f p.2).flatMap
        fun p => ruleChannels p.1 p.2 g).map (decodeItem R)
        = (L.filter fun rp => f rp.1).flatMap (chansP g) := by
  intro L
  induction L with
  | nil => intro k _; simp
  | cons x xs ih =>
    intro k h
    have h0 : R[k]? = some x := h 0 (by simp)
    have hrest : ∀ j (hj : j < xs.length), R[k + 1 + j]? = some xs[j] := by
      intro j hj
      have := h (j + 1) (by simp; omega)
      rw [Nat.add_assoc, Nat.add_comm 1 j]
      exact this
    have ih' := ih (k + 1) hrest
    simp only [List.map_cons, List.zipIdx_cons, List.filter_cons]
    by_cases hf : f x.1
    · simp only [hf, if_true, List.flatMap_cons, List.map_append, ih']
      congr 1
      rw [ruleChannels_eq, List.map_map]
      unfold chansP
      apply List.map_congr_left
      intro qs _
      simp [decodeItem, h0]
    · simp only [hf, Bool.false_eq_true, if_false, ih']

/-- the rules a gate selects, by placement (`ro = true`: readout rules, before the gate). -/
def selP (R : List (PRule V)) (g : NGate) (ro : Bool) : List (PRule V) :=
  (R.filter fun rp => rp.1.key == some g.cls && (rp.1.kind.isReadout == ro)) ++
    (if g.isM || g.isChan then []
     else R.filter fun rp => rp.1.key == none && (rp.1.kind.isReadout == ro))

theorem decode_before (R : List (PRule V)) (g : NGate) :
    (beforeOf (R.map (·.1)) g).map (decodeItem R) = (selP R g true).flatMap (chansP g) := by
  have key := fun f => decode_flatMap R g f R 0 (by intro j hj; simp)
  unfold beforeOf errorsList selP
  by_cases hm : (g.isM || g.isChan) = true
  · simp only [hm, if_true, List.filter_filter, List.append_nil]
    have := key fun r => (r.kind.isReadout && (r.key == some g.cls))
    simp only [Bool.and_comm] at this ⊢
    simpa [Bool.and_comm, beq_iff_eq] using this
  · simp only [hm, Bool.false_eq_true, if_false, List.filter_append, List.filter_filter,
      List.flatMap_append, List.map_append]
    have h1 := key fun r => (r.kind.isReadout && (r.key == some g.cls))
    have h2 := key fun r => (r.kind.isReadout && (r.key == none))
    simp only [Bool.and_comm] at h1 h2 ⊢
    rw [h1, h2]
    simp

theorem decode_after (R : List (PRule V)) (g : NGate) :
    (afterOf (R.map (·.1)) g).map (decodeItem R) = (selP R g false).flatMap (chansP g) := by
  have key := fun f => decode_flatMap R g f R 0 (by intro j hj; simp)
  unfold afterOf errorsList selP
  by_cases hm : (g.isM || g.isChan) = true
  · simp only [hm, if_true, List.filter_filter, List.append_nil]
    have := key fun r => (!r.kind.isReadout && (r.key == some g.cls))
    simp only [Bool.and_comm] at this ⊢
    simpa [Bool.and_comm] using this
  · simp only [hm, Bool.false_eq_true, if_false, List.filter_append, List.filter_filter,
      List.flatMap_append, List.map_append]
    have h1 := key fun r => (!r.kind.isReadout && (r.key == some g.cls))
    have h2 := key fun r => (!r.kind.isReadout && (r.key == none))
    simp only [Bool.and_comm] at h1 h2 ⊢
    rw [h1, h2]
    simp

/-- **index-free block form** of `NoiseModel.apply` for a rule list with parameters. -/
theorem decode_block (R : List (PRule V)) (g : NGate) :
    (block (R.map (·.1)) g).map (decodeItem R)
      = (selP R g true).flatMap (chansP g) ++ SItem.gate g :: (selP R g false).flatMap (chansP g) := by
  unfold block
  rw [List.map_append, List.map_cons, decode_before, decode_after]
  rfl

theorem decode_attach (R : List (PRule V)) (q : List NGate) :
    (attachNoise (R.map (·.1)) q).map (decodeItem R)
      = q.flatMap fun g => (selP R g true).flatMap (chansP g)
          ++ SItem.gate g :: (selP R g false).flatMap (chansP g) := by
  rw [attachNoise_eq, List.map_flatMap]
  congr 1
  funext g
  exact decode_block R g

/-! ### step 2: the rule list of `from_dict` -/

theorem eq_singleton_of_nodup {l : List Nat} {q : Nat} (nd : l.Nodup) (h : ∀ x, x ∈ l ↔ x = q) :
    l = [q] := by
  match l, nd, h with
  | [], _, h => exact absurd ((h q).mpr rfl) (by simp)
  | [x], _, h => have := (h x).mp (by simp); rw [this]
  | x :: y :: t, nd, h =>
    have hx := (h x).mp (by simp)
    have hy := (h y).mp (by simp)
    rw [hx, hy] at nd
    simp at nd

theorem setInter_singleton (a : List Nat) (q : Nat) :
    setInter a [q] = if a.contains q then [q] else [] := by
  by_cases h : q ∈ a
  · have hc : a.contains q = true := by simpa using h
    rw [hc, if_pos rfl]
    apply eq_singleton_of_nodup (setInter_nodup a [q])
    intro x
    rw [mem_setInter]
    constructor
    · intro hx; simpa using hx.2
    · intro hx; subst hx; exact ⟨h, by simp⟩
  · have hc : a.contains q = false := by simpa using h
    rw [hc]
    simp only [Bool.false_eq_true, if_false]
    apply List.eq_nil_iff_forall_not_mem.mpr
    intro x hx
    rw [mem_setInter] at hx
    have : x = q := by simpa using hx.2
    exact h (this ▸ hx.1)

theorem setInter_self_ne_nil {a : List Nat} (h : a ≠ []) : setInter a a ≠ [] := by
  obtain ⟨x, t, rfl⟩ := List.exists_cons_of_ne_nil h
  intro hnil
  have : x ∈ setInter (x :: t) (x :: t) := mem_setInter.mpr ⟨by simp, by simp⟩
  rw [hnil] at this
  simp at this

/-- what a gate must satisfy: `isM` says whether its class is `gates.M`, a channel is not a
measurement, a measurement has qubits. -/
structure GateOk (mCls : Nat) (g : NGate) : Prop where
  isM_iff : g.isM = (g.cls == mCls)
  chan_notM : g.isChan = true → g.isM = false
  qubits_ne : g.isM = true → g.qubits ≠ []

/-- rules of the gate-independent part: key `None`, placed after the gate. -/
def NoneKeyed (rp : PRule V) : Prop := rp.1.key = none ∧ rp.1.kind.isReadout = false
/-- readout rules: key `gates.M`, placed before the gate. -/
def MKeyed (mCls : Nat) (rp : PRule V) : Prop := rp.1.key = some mCls ∧ rp.1.kind.isReadout = true

theorem dep1_noneKeyed (x : PVal Nat V) : ∀ rp ∈ dep1Rules x, NoneKeyed rp := by
  intro rp h
  cases x with
  | num v => simp [dep1Rules] at h; subst h; exact ⟨rfl, rfl⟩
  | dict l => simp [dep1Rules] at h; obtain ⟨a, b, _, rfl⟩ := h; exact ⟨rfl, rfl⟩
  | other => simp [dep1Rules] at h

theorem dep2_noneKeyed (x : PVal (List Nat) V) : ∀ rp ∈ dep2Rules x, NoneKeyed rp := by
  intro rp h
  cases x with
  | num v => simp [dep2Rules] at h; subst h; exact ⟨rfl, rfl⟩
  | dict l => simp [dep2Rules] at h; obtain ⟨a, b, _, rfl⟩ := h; exact ⟨rfl, rfl⟩
  | other => simp [dep2Rules] at h

theorem thermalPair_noneKeyed (f : Option (List Nat)) (a b g1 g2 ep : V) :
    ∀ rp ∈ thermalPair f a b g1 g2 ep, NoneKeyed rp := by
  intro rp h
  simp [thermalPair] at h
  rcases h with rfl | rfl <;> exact ⟨rfl, rfl⟩

theorem thermalDict_noneKeyed (l2 : List (Nat × V)) (g1 g2 ep : V) :
    ∀ (l1 : List (Nat × V)) (th : List (PRule V)), thermalDict l2 g1 g2 ep l1 = some th →
      ∀ rp ∈ th, NoneKeyed rp := by
  intro l1
  induction l1 with
  | nil => intro th h; simp [thermalDict] at h; subst h; simp
  | cons e rest ih =>
    intro th h
    unfold thermalDict at h
    cases hb : dictGet l2 e.1 with
    | none => simp [hb] at h
    | some b =>
      cases hr : thermalDict l2 g1 g2 ep rest with
      | none => simp [hb, hr] at h
      | some r =>
        simp [hb, hr] at h
        subst h
        intro rp hrp
        rcases List.mem_append.mp hrp with h1 | h1
        · exact thermalPair_noneKeyed _ _ _ _ _ _ rp h1
        · exact ih r hr rp h1

theorem thermal_noneKeyed (t1 t2 : PVal Nat V) (g1 g2 ep : V) (th : List (PRule V))
    (h : thermalRules t1 t2 g1 g2 ep = some th) : ∀ rp ∈ th, NoneKeyed rp := by
  unfold thermalRules at h
  split at h
  · simp at h; subst h; exact thermalPair_noneKeyed _ _ _ _ _ _
  · exact thermalDict_noneKeyed _ _ _ _ _ _ h
  · simp at h; subst h; simp

theorem readoutDict_mKeyed (mCls : Nat) :
    ∀ (l : List (Nat × ROVal V)) (ro : List (PRule V)), readoutDict mCls l = some ro →
      ∀ rp ∈ ro, MKeyed mCls rp := by
  intro l
  induction l with
  | nil => intro ro h; simp [readoutDict] at h; subst h; simp
  | cons e rest ih =>
    intro ro h
    unfold readoutDict at h
    cases hb : roProbs e.2 with
    | none => simp [hb] at h
    | some p =>
      cases hr : readoutDict mCls rest with
      | none => simp [hb, hr] at h
      | some r =>
        simp [hb, hr] at h
        subst h
        intro rp hrp
        rcases List.mem_cons.mp hrp with h1 | h1
        · subst h1; exact ⟨rfl, rfl⟩
        · exact ih r hr rp h1

theorem readout_mKeyed (mCls : Nat) (x : ROParam V) (ro : List (PRule V))
    (h : readoutRules mCls x = some ro) : ∀ rp ∈ ro, MKeyed mCls rp := by
  cases x with
  | num r => simp [readoutRules] at h; subst h; intro rp hrp; simp at hrp; subst hrp; exact ⟨rfl, rfl⟩
  | dict l => exact readoutDict_mKeyed mCls l ro h
  | other => simp [readoutRules] at h; subst h; simp

/-- selection in a list `NK ++ RO` of gate-independent rules followed by readout rules. -/
theorem selP_split (mCls : Nat) (NK RO : List (PRule V)) (hNK : ∀ rp ∈ NK, NoneKeyed rp)
    (hRO : ∀ rp ∈ RO, MKeyed mCls rp) (g : NGate) :
    selP (NK ++ RO) g true = (if g.cls = mCls then RO else []) ∧
    selP (NK ++ RO) g false = (if g.isM || g.isChan then [] else NK) := by
  have a1 : NK.filter (fun rp => rp.1.key == some g.cls && (rp.1.kind.isReadout == true)) = [] :=
    List.filter_eq_nil_iff.mpr fun rp h => by simp [(hNK rp h).1]
  have a2 : NK.filter (fun rp => rp.1.key == some g.cls && (rp.1.kind.isReadout == false)) = [] :=
    List.filter_eq_nil_iff.mpr fun rp h => by simp [(hNK rp h).1]
  have a3 : NK.filter (fun rp => rp.1.key == none && (rp.1.kind.isReadout == true)) = [] :=
    List.filter_eq_nil_iff.mpr fun rp h => by simp [(hNK rp h).2]
  have a4 : NK.filter (fun rp => rp.1.key == none && (rp.1.kind.isReadout == false)) = NK :=
    List.filter_eq_self.mpr fun rp h => by simp [(hNK rp h).1, (hNK rp h).2]
  have b1 : RO.filter (fun rp => rp.1.key == some g.cls && (rp.1.kind.isReadout == true))
      = if g.cls = mCls then RO else [] := by
    by_cases hc : g.cls = mCls
    · rw [if_pos hc]
      exact List.filter_eq_self.mpr fun rp h => by simp [(hRO rp h).1, (hRO rp h).2, hc]
    · rw [if_neg hc]
      exact List.filter_eq_nil_iff.mpr fun rp h => by
        simp [(hRO rp h).1]; intro h'; exact absurd h'.symm hc
  have b2 : RO.filter (fun rp => rp.1.key == some g.cls && (rp.1.kind.isReadout == false)) = [] :=
    List.filter_eq_nil_iff.mpr fun rp h => by simp [(hRO rp h).2]
  have b3 : RO.filter (fun rp => rp.1.key == none && (rp.1.kind.isReadout == true)) = [] :=
    List.filter_eq_nil_iff.mpr fun rp h => by simp [(hRO rp h).1]
  have b4 : RO.filter (fun rp => rp.1.key == none && (rp.1.kind.isReadout == false)) = [] :=
    List.filter_eq_nil_iff.mpr fun rp h => by simp [(hRO rp h).1]
  unfold selP
  simp only [List.filter_append, a1, a2, a3, a4, b1, b2, b3, b4, List.nil_append, List.append_nil]
  constructor
  · split <;> simp
  · trivial

/-! ### which channels the rules of `from_dict` create -/

theorem flatMap_ite_singleton {α β : Type} (l : List α) (p : α → Bool) (f : α → β) :
    l.flatMap (fun e => if p e then [f e] else []) = (l.filter p).map f := by
  induction l with
  | nil => rfl
  | cons x xs ih => by_cases h : p x <;> simp [h, ih]

theorem chansP_dep1_num (g : NGate) (v : V) :
    chansP g (⟨none, .depol, none, [condSingle]⟩, .depol v)
      = if g.qubits.length == 1 then [.chan .depol (.depol v) g.qubits] else [] := by
  rcases hq : g.qubits with _ | ⟨a, _ | ⟨b, t⟩⟩ <;>
    simp [chansP, ruleQss, condsHold, condSingle, ruleQubits, channelQubits, hq]

theorem chansP_dep1_entry (g : NGate) (q : Nat) (lam : V) :
    chansP g (⟨none, .depol, some [q], [condSingle]⟩, .depol lam)
      = if g.qubits.length == 1 && g.qubits.contains q then [.chan .depol (.depol lam) [q]] else [] := by
  by_cases h1 : g.qubits.length = 1 <;> by_cases h2 : q ∈ g.qubits <;>
    simp [chansP, ruleQss, condsHold, condSingle, ruleQubits, channelQubits, setInter_singleton, h1, h2]

theorem chansP_dep1 (x : PVal Nat V) (g : NGate) :
    (dep1Rules x).flatMap (chansP g)
      = if g.qubits.length == 1 then
          match x with
          | .num v => [.chan .depol (.depol v) g.qubits]
          | .dict l => (l.filter fun e => g.qubits.contains e.1).map fun e => .chan .depol (.depol e.2) [e.1]
          | .other => []
        else [] := by
  cases x with
  | num v => simp [dep1Rules, chansP_dep1_num]
  | dict l =>
    simp only [dep1Rules, List.flatMap_map, chansP_dep1_entry]
    by_cases h1 : g.qubits.length = 1
    · simp only [h1, beq_self_eq_true, Bool.true_and, if_true]
      exact flatMap_ite_singleton l _ _
    · simp [h1]
  | other => simp [dep1Rules]

theorem chansP_dep2_num (g : NGate) (v : V) :
    chansP g (⟨none, .depol, none, [condTwo]⟩, .depol v)
      = if g.qubits.length == 2 then [.chan .depol (.depol v) g.qubits] else [] := by
  rcases hq : g.qubits with _ | ⟨a, _ | ⟨b, _ | ⟨c, t⟩⟩⟩ <;>
    simp [chansP, ruleQss, condsHold, condTwo, ruleQubits, channelQubits, hq]

theorem chansP_dep2_entry (g : NGate) (qs : List Nat) (lam : V) :
    chansP g (⟨none, .depol, some qs, [condTwo, condQubits qs]⟩, .depol lam)
      = if g.qubits.length == 2 && g.qubits == qs
        then [.chan .depol (.depol lam) (setInter g.qubits g.qubits)] else [] := by
  by_cases h1 : g.qubits.length = 2
  · by_cases h2 : g.qubits = qs
    · have hne : g.qubits ≠ [] := by intro h; rw [h] at h1; simp at h1
      have hs := setInter_self_ne_nil hne
      subst h2
      simp [chansP, ruleQss, condsHold, condTwo, condQubits, ruleQubits, channelQubits, h1, hs]
    · simp [chansP, ruleQss, condsHold, condTwo, condQubits, h1, h2]
  · simp [chansP, ruleQss, condsHold, condTwo, condQubits, h1]

theorem chansP_dep2 (x : PVal (List Nat) V) (g : NGate) :
    (dep2Rules x).flatMap (chansP g)
      = if g.qubits.length == 2 then
          match x with
          | .num v => [.chan .depol (.depol v) g.qubits]
          | .dict l => (l.filter fun e => g.qubits == e.1).map fun e =>
              .chan .depol (.depol e.2) (setInter g.qubits g.qubits)
          | .other => []
        else [] := by
  cases x with
  | num v => simp [dep2Rules, chansP_dep2_num]
  | dict l =>
    simp only [dep2Rules, List.flatMap_map, chansP_dep2_entry]
    by_cases h1 : g.qubits.length = 2
    · simp only [h1, beq_self_eq_true, Bool.true_and, if_true]
      exact flatMap_ite_singleton l _ _
    · simp [h1]
  | other => simp [dep2Rules]

theorem specDepol_eq (P : IBMQParams V) (g : NGate) :
    (dep1Rules P.dep1 ++ dep2Rules P.dep2).flatMap (chansP g) = specDepol P g := by
  rw [List.flatMap_append, chansP_dep1, chansP_dep2]
  rfl

/-- the arity-dependent gate time. -/
def timeOf (P : IBMQParams V) (g : NGate) : V := if g.qubits.length == 1 then P.gt1 else P.gt2

theorem chansP_thermalPair_none (g : NGate) (a b g1 g2 ep : V) :
    (thermalPair none a b g1 g2 ep).flatMap (chansP g)
      = if g.qubits.length == 1 || g.qubits.length == 2 then
          g.qubits.map fun q => .chan .thermal (.thermal a b (if g.qubits.length == 1 then g1 else g2) ep) [q]
        else [] := by
  rcases hq : g.qubits with _ | ⟨x, _ | ⟨y, _ | ⟨z, t⟩⟩⟩ <;>
    simp [thermalPair, chansP, ruleQss, condsHold, condSingle, condTwo, ruleQubits, channelQubits, hq]

theorem chansP_thermalPair_some (g : NGate) (q : Nat) (a b g1 g2 ep : V) :
    (thermalPair (some [q]) a b g1 g2 ep).flatMap (chansP g)
      = if (g.qubits.length == 1 || g.qubits.length == 2) && g.qubits.contains q then
          [.chan .thermal (.thermal a b (if g.qubits.length == 1 then g1 else g2) ep) [q]]
        else [] := by
  by_cases h2 : q ∈ g.qubits <;>
    rcases hq : g.qubits with _ | ⟨x, _ | ⟨y, _ | ⟨z, t⟩⟩⟩ <;>
    simp [thermalPair, chansP, ruleQss, condsHold, condSingle, condTwo, ruleQubits, channelQubits,
      setInter_singleton, hq] <;> (try simp_all) <;> (try omega)

theorem chansP_thermalDict (g : NGate) (l2 : List (Nat × V)) (g1 g2 ep : V) :
    ∀ (l1 : List (Nat × V)) (th : List (PRule V)), thermalDict l2 g1 g2 ep l1 = some th →
      th.flatMap (chansP g)
        = if g.qubits.length == 1 || g.qubits.length == 2 then
            (l1.filter fun e => g.qubits.contains e.1).filterMap fun e =>
              (dictGet l2 e.1).map fun b =>
                .chan .thermal (.thermal e.2 b (if g.qubits.length == 1 then g1 else g2) ep) [e.1]
          else [] := by
  intro l1
  induction l1 with
  | nil => intro th h; simp [thermalDict] at h; subst h; simp
  | cons e rest ih =>
    intro th h
    unfold thermalDict at h
    cases hb : dictGet l2 e.1 with
    | none => simp [hb] at h
    | some b =>
      cases hr : thermalDict l2 g1 g2 ep rest with
      | none => simp [hb, hr] at h
      | some r =>
        simp [hb, hr] at h
        subst h
        rw [List.flatMap_append, ih r hr, chansP_thermalPair_some]
        by_cases hl : (g.qubits.length == 1 || g.qubits.length == 2) = true
        · by_cases hc : e.1 ∈ g.qubits
          · simp [hl, hc, hb]
          · simp [hl, hc]
        · simp [hl]

theorem specThermal_eq (P : IBMQParams V) (g : NGate) (th : List (PRule V))
    (h : thermalRules P.t1 P.t2 P.gt1 P.gt2 P.ep = some th) :
    th.flatMap (chansP g) = specThermal P g := by
  unfold specThermal
  rcases h1 : P.t1 with a | l1 | _ <;> rcases h2 : P.t2 with b | l2 | _ <;> rw [h1, h2] at h <;>
    simp only [thermalRules] at h
  case num.num =>
    obtain rfl : thermalPair none a b P.gt1 P.gt2 P.ep = th := by simpa using h
    rw [chansP_thermalPair_none]
  case dict.dict =>
    rw [chansP_thermalDict g l2 _ _ _ l1 th h]
  all_goals
    obtain rfl : [] = th := by simpa using h
    simp

theorem chansP_readout_num (mCls : Nat) (g : NGate) (hq : g.qubits ≠ []) (r : V) :
    chansP g (⟨some mCls, .readout, none, []⟩, .readout r r)
      = [.chan .readout (.readout r r) g.qubits] := by
  have : g.qubits.isEmpty = false := by
    cases h : g.qubits with
    | nil => exact absurd h hq
    | cons a t => rfl
  simp [chansP, ruleQss, condsHold, ruleQubits, channelQubits, this]

theorem chansP_readout_entry (mCls : Nat) (g : NGate) (q : Nat) (a b : V) :
    chansP g (⟨some mCls, .readout, some [q], []⟩, .readout a b)
      = if g.qubits.contains q then [.chan .readout (.readout a b) [q]] else [] := by
  by_cases h2 : q ∈ g.qubits <;>
    simp [chansP, ruleQss, condsHold, ruleQubits, channelQubits, setInter_singleton, h2]

theorem chansP_readoutDict (mCls : Nat) (g : NGate) :
    ∀ (l : List (Nat × ROVal V)) (ro : List (PRule V)), readoutDict mCls l = some ro →
      ro.flatMap (chansP g)
        = (l.filter fun e => g.qubits.contains e.1).filterMap fun e =>
            (roProbs e.2).map fun p => .chan .readout (.readout p.1 p.2) [e.1] := by
  intro l
  induction l with
  | nil => intro ro h; simp [readoutDict] at h; subst h; simp
  | cons e rest ih =>
    intro ro h
    unfold readoutDict at h
    cases hb : roProbs e.2 with
    | none => simp [hb] at h
    | some p =>
      cases hr : readoutDict mCls rest with
      | none => simp [hb, hr] at h
      | some r =>
        simp [hb, hr] at h
        subst h
        rw [List.flatMap_cons, ih r hr, chansP_readout_entry]
        by_cases hc : e.1 ∈ g.qubits
        · simp [hc, hb]
        · simp [hc]

theorem specReadout_eq (mCls : Nat) (P : IBMQParams V) (g : NGate) (hq : g.qubits ≠ [])
    (ro : List (PRule V)) (h : readoutRules mCls P.ro = some ro) :
    ro.flatMap (chansP g) = specReadout P g := by
  unfold specReadout
  cases hro : P.ro with
  | num r =>
    rw [hro] at h
    simp [readoutRules] at h; subst h
    simp [chansP_readout_num mCls g hq]
  | dict l =>
    rw [hro] at h
    exact chansP_readoutDict mCls g l ro h
  | other =>
    rw [hro] at h
    simp [readoutRules] at h; subst h; simp

/-! ### `from_dict` succeeds exactly on the accepted dictionaries -/

theorem thermalDict_isSome (l2 : List (Nat × V)) (g1 g2 ep : V) (l1 : List (Nat × V)) :
    (thermalDict l2 g1 g2 ep l1).isSome = l1.all fun e => (dictGet l2 e.1).isSome := by
  induction l1 with
  | nil => simp [thermalDict]
  | cons e rest ih =>
    unfold thermalDict
    cases hb : dictGet l2 e.1 with
    | none => simp [hb]
    | some b =>
      cases hr : thermalDict l2 g1 g2 ep rest with
      | none => rw [hr] at ih; simp [hb, ← ih]
      | some r => rw [hr] at ih; simp [hb, ← ih]

theorem readoutDict_isSome (mCls : Nat) (l : List (Nat × ROVal V)) :
    (readoutDict mCls l).isSome = l.all fun e => (roProbs e.2).isSome := by
  induction l with
  | nil => simp [readoutDict]
  | cons e rest ih =>
    unfold readoutDict
    cases hb : roProbs e.2 with
    | none => simp [hb]
    | some p =>
      cases hr : readoutDict mCls rest with
      | none => rw [hr] at ih; simp [hb, ← ih]
      | some r => rw [hr] at ih; simp [hb, ← ih]

theorem fromDict_isSome (mCls : Nat) (P : IBMQParams V) :
    (fromDict mCls P).isSome = paramsOk P := by
  have ht : (thermalRules P.t1 P.t2 P.gt1 P.gt2 P.ep).isSome = thermalOk P.t1 P.t2 := by
    rcases h1 : P.t1 with a | l1 | _ <;> rcases h2 : P.t2 with b | l2 | _ <;>
      simp [thermalRules, thermalOk, thermalDict_isSome]
  have hr : (readoutRules mCls P.ro).isSome = readoutOk P.ro := by
    rcases h1 : P.ro with r | l | _ <;> simp [readoutRules, readoutOk, readoutDict_isSome]
  unfold fromDict paramsOk
  rw [← ht, ← hr]
  cases thermalRules P.t1 P.t2 P.gt1 P.gt2 P.ep <;> cases readoutRules mCls P.ro <;> simp

/-! ### the refinement -/

/-- one gate: the block `from_dict` + `apply` produce is the documented one. -/
theorem ibmq_block (mCls : Nat) (P : IBMQParams V) (R : List (PRule V))
    (hR : fromDict mCls P = some R) (g : NGate) (hg : GateOk mCls g) :
    (block (R.map (·.1)) g).map (decodeItem R) = specBlock P g := by
  unfold fromDict at hR
  cases hth : thermalRules P.t1 P.t2 P.gt1 P.gt2 P.ep with
  | none => simp [hth] at hR
  | some th =>
    cases hro : readoutRules mCls P.ro with
    | none => simp [hth, hro] at hR
    | some ro =>
      simp only [hth, hro, Option.some.injEq] at hR
      subst hR
      have hNK : ∀ rp ∈ dep1Rules P.dep1 ++ dep2Rules P.dep2 ++ th, NoneKeyed rp := by
        intro rp h
        rcases List.mem_append.mp h with h | h
        · rcases List.mem_append.mp h with h | h
          · exact dep1_noneKeyed _ rp h
          · exact dep2_noneKeyed _ rp h
        · exact thermal_noneKeyed _ _ _ _ _ th hth rp h
      have hRO := readout_mKeyed mCls P.ro ro hro
      obtain ⟨sb, sa⟩ := selP_split mCls _ ro hNK hRO g
      rw [decode_block, sb, sa]
      unfold specBlock
      by_cases hm : g.isM = true
      · have hc : g.cls = mCls := by
          have := hg.isM_iff; rw [hm] at this; simpa using this.symm
        rw [if_pos hc, specReadout_eq mCls P g (hg.qubits_ne hm) ro hro]
        simp [hm]
      · have hm' : g.isM = false := by simpa using hm
        have hc : ¬ g.cls = mCls := by
          have := hg.isM_iff; rw [hm'] at this
          intro h; rw [h] at this; simp at this
        rw [if_neg hc]
        by_cases hch : g.isChan = true
        · simp [hm', hch]
        · have hch' : g.isChan = false := by simpa using hch
          simp only [hm', hch', Bool.or_self, Bool.false_eq_true, if_false, List.flatMap_nil,
            List.nil_append]
          rw [List.flatMap_append, specDepol_eq, specThermal_eq P g th hth]

/-- **`IBMQNoiseModel.from_dict(P)` followed by `apply` is the documented noisy queue.** -/
theorem ibmq_refines (mCls : Nat) (P : IBMQParams V) (queue : List NGate)
    (hq : ∀ g ∈ queue, GateOk mCls g) : ibmqApply mCls P queue = ibmqSpec P queue := by
  unfold ibmqApply ibmqSpec
  have hs := fromDict_isSome mCls P
  cases hf : fromDict mCls P with
  | none =>
    rw [hf] at hs
    have : paramsOk P = false := by simpa using hs.symm
    simp [this]
  | some R =>
    rw [hf] at hs
    have : paramsOk P = true := by simpa using hs.symm
    simp only [this, if_true, Option.map_some]
    congr 1
    rw [decode_attach]
    apply List.flatMap_congr
    intro g hgm
    have := ibmq_block mCls P R hf g (hq g hgm)
    rw [decode_block] at this
    exact this

/-- the same for the dictionary as written (string keys, parsed by the model). -/
theorem ibmq_refines_S (mCls : Nat) (P : IBMQParamsS V) (queue : List NGate)
    (hq : ∀ g ∈ queue, GateOk mCls g) : ibmqApplyS mCls P queue = ibmqSpecS P queue := by
  unfold ibmqApplyS ibmqSpecS
  cases parseParams P with
  | none => rfl
  | some Q => exact ibmq_refines mCls Q queue hq

end QV.Noise
