/-
  QV.Proofs.ChannelsPTM — `to_pauli_liouville` of the channel model: entry `(a, b)` of
  `pauliLiouvilleOf (liouvilleOf row terms)` is the Hilbert–Schmidt inner product
  `⟨P_a , Σ_k c_k K_k P_b K_k†⟩` (the un-normalised Pauli transfer matrix of the weighted Kraus map).
-/
import QV.Proofs.ChannelsSuper

namespace QV
open Finset
open QV.Superop (Mat vecIdx vectorization matVec)

variable {α : Type} [CommRing α]

theorem foldl_range_add (N : Nat) (g : Nat → α) (z : α) :
    (List.range N).foldl (fun acc s => acc + g s) z = z + ∑ s ∈ range N, g s := by
  induction N with
  | zero => simp
  | succ N ih => rw [List.range_succ, List.foldl_append, ih, sum_range_succ]; simp [add_assoc]

theorem foldl_range_range_add (N : Nat) (f : Nat → Nat → α) :
    (List.range N).foldl (fun acc r => (List.range N).foldl (fun acc2 s => acc2 + f r s) acc) 0
      = ∑ r ∈ range N, ∑ s ∈ range N, f r s := by
  have : (fun (acc : α) (r : Nat) => (List.range N).foldl (fun acc2 s => acc2 + f r s) acc)
      = fun acc r => acc + ∑ s ∈ range N, f r s := by
    funext acc r; exact foldl_range_add N (f r) acc
  rw [this, foldl_range_add, zero_add]

/-- the `k`-th Pauli string of the `n`-qubit basis (`itertools.product("IXYZ")` order). -/
def pauliBasisMat (I : α) (n k : Nat) : Mat α := pauliStringMat I ((pauliCodes n).getD k [])

/-- **`to_pauli_liouville` is the Pauli transfer matrix of the weighted Kraus map**:
entry `(a, b)` = `Σ_{i,j} conj(P_a[i,j]) · (Σ_k c_k K_k P_b K_k†)[i,j]`, every `n`, every term list. -/
theorem pauliLiouvilleOf_eq (conj : α → α) (I : α) (n : Nat)
    (terms : List (α × (Nat → Nat → α))) (a b : Nat) :
    pauliLiouvilleOf conj I n (liouvilleOf conj (2 ^ n) false terms) a b
      = ∑ i ∈ range (2 ^ n), ∑ j ∈ range (2 ^ n),
          conj (pauliBasisMat I n a i j) * wKraus conj (2 ^ n) terms (pauliBasisMat I n b) i j := by
  unfold pauliLiouvilleOf
  simp only []
  rw [foldl_range_range_add, QV.Superop.sum_range_mul]
  apply sum_congr rfl
  intro i hi
  apply sum_congr rfl
  intro j hj
  have hi' := mem_range.mp hi
  have hj' := mem_range.mp hj
  have key := matVec_liouvilleOf conj (2 ^ n) n false terms (pauliBasisMat I n b) hi' hj'
  simp only [matVec, QV.Superop.sumRange_eq_sum, ordOf, Bool.false_eq_true, if_false, vecIdx,
    vectorization, QV.Superop.rowOf, QV.Superop.colOf] at key
  rw [← key, mul_sum]
  apply sum_congr rfl
  intro s _
  simp only [pauliBasisMat, QV.Superop.mul_add_div' i hj', QV.Superop.mul_add_mod' i hj']
  ring

/-- a `2^n × 2^n` matrix as an operator on the labels of the `n`-qubit register. -/
def matDM (n : Nat) (M : Mat α) : DM α := fun x y => M (Lab.toIndex n x) (Lab.toIndex n y)

omit [CommRing α] in
theorem dmMat_matDM (n : Nat) (M : Mat α) {a b : Nat} (ha : a < 2 ^ n) (hb : b < 2 ^ n) :
    dmMat n (matDM n M) a b = M a b := by
  simp only [dmMat, matDM, toIndex_ofIndex' ha, toIndex_ofIndex' hb]

theorem wKraus_congr (conj : α → α) (D : Nat) (terms : List (α × (Nat → Nat → α))) {ρ σ : Mat α}
    (h : ∀ a b, a < D → b < D → ρ a b = σ a b) (i j : Nat) :
    wKraus conj D terms ρ i j = wKraus conj D terms σ i j := by
  unfold wKraus
  congr 1
  apply List.map_congr_left
  intro t _
  congr 1
  exact sum_congr rfl fun a ha => sum_congr rfl fun b hb => by
    rw [h a b (mem_range.mp ha) (mem_range.mp hb)]

/-- **`to_pauli_liouville` describes the executed map**: entry `(a, b)` is
`⟨P_a , execute(ch, P_b)⟩` for the generic path of the channel model. -/
theorem pauliLiouvilleOf_executes (conj : α →+* α) (I : α) (n : Nat) (ch : Chan α)
    (hg : ∀ g ∈ ch.gates, g.targets.Nodup ∧ ∀ t ∈ g.targets, t < n) (a b : Nat) :
    pauliLiouvilleOf conj I n
        (liouvilleOf conj (2 ^ n) false (choiTerms n ch true (1 - ch.csum))) a b
      = ∑ i ∈ range (2 ^ n), ∑ j ∈ range (2 ^ n),
          conj (pauliBasisMat I n a i j)
            * applyChannelDM conj ch (matDM n (pauliBasisMat I n b))
                (Lab.ofIndex n i) (Lab.ofIndex n j) := by
  rw [pauliLiouvilleOf_eq]
  apply sum_congr rfl
  intro i hi
  apply sum_congr rfl
  intro j hj
  rw [← wKraus_choiTerms_executes conj n ch hg _ (mem_range.mp hi) (mem_range.mp hj)]
  congr 1
  exact (wKraus_congr conj (2 ^ n) _ (fun a' b' ha hb => dmMat_matDM n (pauliBasisMat I n b) ha hb)
    i j).symm

end QV
