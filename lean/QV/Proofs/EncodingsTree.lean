/-
  QV.Proofs.EncodingsTree — lemmas behind the C20 theorems on the *tree* architecture of
  `unary_encoder` (QV/Props/C20c.lean).
  Model: QV/Model/Encodings.lean (`treeRowsFrom`, `treePairsRaw`, `rbsPairs`, `rbsGates`, `unary`).

    * closed form of the gate list for `n = 2^m`          (`treePairsRaw_pow`, `unary_tree_eq`)
      row `d` has `2^d` gates, gate `j` of row `d` is
      `RBS(n-1-j·2^(m-d), n-1-(j·2^(m-d)+2^(m-d-1)))` with parameter number `2^d-1+j`
    * a row of RBS gates on pairwise disjoint pairs rotates every pair independently
      (`runAmps_rowOf`)
    * level invariant of the binary tree of sub-tree norms (`TreeInv`, `treeInv_step`, `tree_inv`)
    * the loader theorem for the closed form              (`treeGates_loader`)
-/
import QV.Proofs.Encodings

set_option linter.unusedSimpArgs false
set_option linter.unnecessarySeqFocus false

namespace QV.Enc
open QV Finset

/-! ### closed form of the tree gate list -/

/-- row `d` of `_generate_rbs_pairs(2^m, "tree")` before the index reversal. -/
def treeRow (m d : Nat) : List (Nat × Nat) :=
  (List.range (2 ^ d)).map (fun j => (j * 2 ^ (m - d), j * 2 ^ (m - d) + 2 ^ (m - d - 1)))

/-- the `indexes` list of the python loop when it enters depth `d`. -/
def treeIdxs (m d : Nat) : List Nat := (List.range (2 ^ d)).map (fun j => j * 2 ^ (m - d))


theorem range_two_mul_map {β : Type} (f : Nat → β) (k : Nat) :
    (List.range (2 * k)).map f = (List.range k).flatMap (fun j => [f (2 * j), f (2 * j + 1)]) := by
  induction k with
  | zero => rfl
  | succ k ih =>
    have h : 2 * (k + 1) = (2 * k + 1) + 1 := by ring
    rw [h, List.range_succ, List.range_succ, List.map_append, List.map_append, ih,
      List.range_succ (n := k), List.flatMap_append]
    simp

theorem two_pow_sub_eq {m d : Nat} (hd : d + 1 ≤ m) : 2 ^ (m - d) = 2 * 2 ^ (m - d - 1) := by
  rw [← pow_succ']
  congr 1
  omega

theorem treeRow_of_idxs (m d : Nat) (hd : d + 1 ≤ m) :
    (treeIdxs m d).map (fun i => (i, i + 2 ^ m / 2 ^ (d + 1))) = treeRow m d := by
  unfold treeIdxs treeRow
  have h1 : m - (d + 1) = m - d - 1 := by omega
  rw [List.map_map, Nat.pow_div hd (by norm_num), h1]
  rfl

theorem treeRow_flat (m d : Nat) (hd : d + 1 ≤ m) :
    (treeRow m d).flatMap (fun p => [p.1, p.2]) = treeIdxs m (d + 1) := by
  unfold treeIdxs treeRow
  have e1 : 2 ^ (d + 1) = 2 * 2 ^ d := pow_succ' 2 d
  have h1 : m - (d + 1) = m - d - 1 := by omega
  rw [List.flatMap_map, e1, range_two_mul_map, h1, two_pow_sub_eq hd]
  congr 1
  funext j
  have a1 : 2 * j * 2 ^ (m - d - 1) = j * (2 * 2 ^ (m - d - 1)) := by ring
  have a2 : (2 * j + 1) * 2 ^ (m - d - 1) = j * (2 * 2 ^ (m - d - 1)) + 2 ^ (m - d - 1) := by ring
  rw [a1, a2]

theorem treeRowsFrom_pow (m : Nat) : ∀ (fuel d : Nat), d + fuel ≤ m →
    treeRowsFrom (2 ^ m) fuel (d + 1) (treeIdxs m d)
      = (List.range fuel).map (fun i => treeRow m (d + i)) := by
  intro fuel
  induction fuel with
  | zero => intro d _; rfl
  | succ fuel ih =>
    intro d hd
    rw [treeRowsFrom]
    rw [treeRow_of_idxs m d (by omega), treeRow_flat m d (by omega), ih (d + 1) (by omega),
      List.range_succ_eq_map, List.map_cons, List.map_map]
    congr 1
    apply List.map_congr_left
    intro i _
    show treeRow m (d + 1 + i) = treeRow m (d + (i + 1))
    congr 1
    omega

theorem treePairsRaw_pow (m : Nat) (hm : 1 ≤ m) :
    treePairsRaw (2 ^ m) = (List.range m).map (treeRow m) := by
  unfold treePairsRaw
  rw [Nat.log2_two_pow]
  have h2 : 2 ^ m / 2 = 2 ^ (m - 1) := by
    have := Nat.pow_div hm (show 0 < 2 by norm_num)
    simpa using this
  have hI : [0, 2 ^ m / 2] = treeIdxs m 1 := by
    simp [treeIdxs, h2, List.range_succ]
  have hR : [(0, 2 ^ m / 2)] = treeRow m 0 := by
    simp [treeRow, h2]
  rw [hI, hR, treeRowsFrom_pow m (m - 1) 1 (by omega)]
  obtain ⟨k, rfl⟩ : ∃ k, m = k + 1 := ⟨m - 1, by omega⟩
  rw [List.range_succ_eq_map (n := k), List.map_cons, List.map_map, Nat.add_sub_cancel]
  congr 1
  apply List.map_congr_left
  intro i _
  show treeRow (k + 1) (1 + i) = treeRow (k + 1) (i + 1)
  rw [Nat.add_comm 1 i]

/-- number a list of pairs from `off` on. -/
def numFrom : Nat → List (Nat × Nat) → List GD
  | _, [] => []
  | off, p :: ps => { kind := .RBS, q0 := p.1, q1 := p.2, e := off } :: numFrom (off + 1) ps

theorem zipWith_range_shift (ps : List (Nat × Nat)) : ∀ off : Nat,
    List.zipWith (fun e (p : Nat × Nat) => ({ kind := .RBS, q0 := p.1, q1 := p.2, e := e } : GD))
      ((List.range ps.length).map (fun i => i + off)) ps = numFrom off ps := by
  induction ps with
  | nil => intro off; rfl
  | cons p ps ih =>
    intro off
    rw [List.length_cons, List.range_succ_eq_map, List.map_cons, List.map_map,
      List.zipWith_cons_cons, numFrom, Nat.zero_add]
    congr 1
    rw [← ih (off + 1)]
    congr 1
    apply List.map_congr_left
    intro i _
    show i.succ + off = i + (off + 1)
    omega

theorem rbsGates_eq_numFrom (ps : List (Nat × Nat)) : rbsGates ps = numFrom 0 ps := by
  unfold rbsGates
  rw [← zipWith_range_shift ps 0]
  simp

theorem numFrom_append (l1 l2 : List (Nat × Nat)) : ∀ off : Nat,
    numFrom off (l1 ++ l2) = numFrom off l1 ++ numFrom (off + l1.length) l2 := by
  induction l1 with
  | nil => intro off; rfl
  | cons p l1 ih =>
    intro off
    rw [List.cons_append, numFrom, numFrom, ih (off + 1), List.cons_append, List.length_cons]
    congr 3
    omega

theorem numFrom_map_range (g : Nat → Nat × Nat) (off : Nat) : ∀ k : Nat,
    numFrom off ((List.range k).map g)
      = (List.range k).map (fun j => ({ kind := .RBS, q0 := (g j).1, q1 := (g j).2, e := off + j } : GD)) := by
  intro k
  induction k with
  | zero => rfl
  | succ k ih =>
    rw [List.range_succ, List.map_append, List.map_append, numFrom_append, ih]
    simp [numFrom]

theorem numFrom_rows (Rw : Nat → List (Nat × Nat)) (hlen : ∀ d, (Rw d).length = 2 ^ d) : ∀ k : Nat,
    (((List.range k).map Rw).flatten).length = 2 ^ k - 1 ∧
    numFrom 0 ((List.range k).map Rw).flatten
      = (List.range k).flatMap (fun d => numFrom (2 ^ d - 1) (Rw d)) := by
  intro k
  induction k with
  | zero => exact ⟨rfl, rfl⟩
  | succ k ih =>
    obtain ⟨ih1, ih2⟩ := ih
    have hf : ((List.range (k + 1)).map Rw).flatten = ((List.range k).map Rw).flatten ++ Rw k := by
      rw [List.range_succ, List.map_append, List.flatten_append]
      simp
    have hp : 1 ≤ 2 ^ k := Nat.one_le_two_pow
    refine ⟨?_, ?_⟩
    · rw [hf, List.length_append, ih1, hlen, pow_succ]
      omega
    · rw [hf, numFrom_append, ih2, ih1, Nat.zero_add, List.range_succ, List.flatMap_append]
      simp

/-- **closed form of the tree gate list.** -/
theorem unary_tree_eq (m : Nat) (hm : 1 ≤ m) :
    unary (2 ^ m) true = ({ kind := .X, q0 := 2 ^ m - 1 } : GD) :: treeGates m := by
  unfold unary
  congr 1
  unfold rbsPairs
  rw [if_pos rfl, treePairsRaw_pow m hm, List.map_map, rbsGates_eq_numFrom]
  have hlen : ∀ d, (((fun row : List (Nat × Nat) =>
      row.map (fun p => (2 ^ m - 1 - p.1, 2 ^ m - 1 - p.2))) ∘ treeRow m) d).length = 2 ^ d := by
    intro d; simp [treeRow]
  rw [(numFrom_rows _ hlen m).2]
  unfold treeGates
  congr 1
  funext d
  show numFrom (2 ^ d - 1) ((treeRow m d).map _) = treeRowGates m d
  unfold treeRow treeRowGates
  rw [List.map_map, numFrom_map_range]
  rfl

/-! ### a row of RBS gates on disjoint pairs -/

variable {α : Type} [CommRing α]

theorem runAmps_append (P : Par α) (l1 l2 : List GD) (A : Nat → α) :
    runAmps P (l1 ++ l2) A = runAmps P l2 (runAmps P l1 A) := by
  unfold runAmps
  rw [List.foldl_append]

theorem runAmps_single (P : Par α) (g : GD) (A : Nat → α) :
    runAmps P [g] A = rot g.q0 g.q1 (P.c g.e) (P.s g.e) A := rfl

theorem rot_fst (a b : Nat) (c s : α) (A : Nat → α) : rot a b c s A a = c * A a - s * A b := by
  unfold rot; rw [if_pos rfl]

theorem rot_snd {a b : Nat} (hab : a ≠ b) (c s : α) (A : Nat → α) :
    rot a b c s A b = s * A a + c * A b := by
  unfold rot; rw [if_neg (Ne.symm hab), if_pos rfl]

theorem rot_other {a b q : Nat} (ha : q ≠ a) (hb : q ≠ b) (c s : α) (A : Nat → α) :
    rot a b c s A q = A q := by
  unfold rot; rw [if_neg ha, if_neg hb]

/-- a list of RBS gates `RBS(a j, b j)` with parameter number `e j`, `j < K`. -/
def rowOf (a b e : Nat → Nat) (K : Nat) : List GD :=
  (List.range K).map (fun j => { kind := .RBS, q0 := a j, q1 := b j, e := e j })

/-- RBS gates on pairwise disjoint pairs act independently: every pair is rotated by its own
angle and all other amplitudes are untouched. -/
theorem runAmps_rowOf (P : Par α) (a b e : Nat → Nat) (A : Nat → α) : ∀ K : Nat,
    (∀ j j', j < K → j' < K → a j ≠ b j') →
    (∀ j j', j < K → j' < K → j ≠ j' → a j ≠ a j') →
    (∀ j j', j < K → j' < K → j ≠ j' → b j ≠ b j') →
    (∀ j, j < K → runAmps P (rowOf a b e K) A (a j) = P.c (e j) * A (a j) - P.s (e j) * A (b j)) ∧
    (∀ j, j < K → runAmps P (rowOf a b e K) A (b j) = P.s (e j) * A (a j) + P.c (e j) * A (b j)) ∧
    (∀ q, (∀ j, j < K → q ≠ a j ∧ q ≠ b j) → runAmps P (rowOf a b e K) A q = A q) := by
  intro K
  induction K with
  | zero =>
    intro _ _ _
    exact ⟨fun j hj => absurd hj (Nat.not_lt_zero j), fun j hj => absurd hj (Nat.not_lt_zero j),
      fun q _ => rfl⟩
  | succ K ih =>
    intro hab ha hb
    obtain ⟨i1, i2, i3⟩ := ih
      (fun j j' hj hj' => hab j j' (by omega) (by omega))
      (fun j j' hj hj' hne => ha j j' (by omega) (by omega) hne)
      (fun j j' hj hj' hne => hb j j' (by omega) (by omega) hne)
    have hsplit : rowOf a b e (K + 1)
        = rowOf a b e K ++ [{ kind := .RBS, q0 := a K, q1 := b K, e := e K }] := by
      simp [rowOf, List.range_succ]
    have hK : a K ≠ b K := hab K K (by omega) (by omega)
    have eA : runAmps P (rowOf a b e K) A (a K) = A (a K) :=
      i3 _ (fun j hj => ⟨ha K j (by omega) (by omega) (by omega), hab K j (by omega) (by omega)⟩)
    have eB : runAmps P (rowOf a b e K) A (b K) = A (b K) :=
      i3 _ (fun j hj => ⟨(hab j K (by omega) (by omega)).symm, hb K j (by omega) (by omega) (by omega)⟩)
    rw [hsplit]
    simp only [runAmps_append, runAmps_single]
    refine ⟨?_, ?_, ?_⟩
    · intro j hj
      rcases Nat.lt_succ_iff_lt_or_eq.mp hj with h | h
      · have h1 : a j ≠ a K := ha j K (by omega) (by omega) (by omega)
        have h2 : a j ≠ b K := hab j K (by omega) (by omega)
        rw [rot_other h1 h2]
        exact i1 j h
      · subst h
        rw [rot_fst, eA, eB]
    · intro j hj
      rcases Nat.lt_succ_iff_lt_or_eq.mp hj with h | h
      · have h1 : b j ≠ a K := (hab K j (by omega) (by omega)).symm
        have h2 : b j ≠ b K := hb j K (by omega) (by omega) (by omega)
        rw [rot_other h1 h2]
        exact i2 j h
      · subst h
        rw [rot_snd hK, eA, eB]
    · intro q hq
      obtain ⟨h1, h2⟩ := hq K (by omega)
      rw [rot_other h1 h2]
      exact i3 q (fun j hj => hq j (by omega))

/-! ### level invariant of the tree -/

/-- after the first rows of the tree: the `K` occupied positions `j·s` (counted from qubit
`n-1` downwards) carry `R 0 · amplitude = R (K-1+j)` (heap numbering of level `K`), every
other position `< n` carries `0`. -/
def TreeInv (R : Nat → α) (n K s : Nat) (A : Nat → α) : Prop :=
  (∀ j, j < K → R 0 * A (n - 1 - j * s) = R (K - 1 + j)) ∧
  (∀ p, p < n → (∀ j, j < K → p ≠ j * s) → R 0 * A (n - 1 - p) = 0)

theorem treeInv_step (P : Par α) (R : Nat → α) (n K h : Nat) (A : Nat → α)
    (hn : n = K * (2 * h)) (hh : 0 < h) (hK : 1 ≤ K)
    (hc : ∀ j, j < K → R (K - 1 + j) * P.c (K - 1 + j) = R (2 * (K - 1 + j) + 1))
    (hs : ∀ j, j < K → R (K - 1 + j) * P.s (K - 1 + j) = R (2 * (K - 1 + j) + 2))
    (hI : TreeInv R n K (2 * h) A) :
    TreeInv R n (2 * K) h
      (runAmps P (rowOf (fun j => n - 1 - j * (2 * h)) (fun j => n - 1 - (j * (2 * h) + h))
        (fun j => K - 1 + j) K) A) := by
  obtain ⟨I1, I2⟩ := hI
  have hmono : ∀ j j', j < j' → j * (2 * h) + 2 * h ≤ j' * (2 * h) := by
    intro j j' hjj
    have := Nat.mul_le_mul_right (2 * h) (show j + 1 ≤ j' from hjj)
    rw [Nat.add_mul, Nat.one_mul] at this
    exact this
  have hpos : ∀ j, j < K → j * (2 * h) + 2 * h ≤ n := by
    intro j hj; rw [hn]; exact hmono j K hj
  have hne1 : ∀ j j', j * (2 * h) ≠ j' * (2 * h) + h := by
    intro j j'
    rcases Nat.lt_trichotomy j j' with h1 | h1 | h1
    · have := hmono j j' h1; omega
    · subst h1; omega
    · have := hmono j' j h1; omega
  have hne2 : ∀ j j', j ≠ j' → j * (2 * h) ≠ j' * (2 * h) := by
    intro j j' hjj
    rcases Nat.lt_trichotomy j j' with h1 | h1 | h1
    · have := hmono j j' h1; omega
    · exact absurd h1 hjj
    · have := hmono j' j h1; omega
  obtain ⟨r1, r2, r3⟩ := runAmps_rowOf P (fun j => n - 1 - j * (2 * h))
    (fun j => n - 1 - (j * (2 * h) + h)) (fun j => K - 1 + j) A K
    (by
      intro j j' hj hj'
      have := hpos j hj; have := hpos j' hj'; have := hne1 j j'
      show n - 1 - j * (2 * h) ≠ n - 1 - (j' * (2 * h) + h)
      omega)
    (by
      intro j j' hj hj' hjj
      have := hpos j hj; have := hpos j' hj'; have := hne2 j j' hjj
      show n - 1 - j * (2 * h) ≠ n - 1 - j' * (2 * h)
      omega)
    (by
      intro j j' hj hj' hjj
      have := hpos j hj; have := hpos j' hj'; have := hne2 j j' hjj
      show n - 1 - (j * (2 * h) + h) ≠ n - 1 - (j' * (2 * h) + h)
      omega)
  -- the sine branch of every old node is empty before the row
  have hzero : ∀ j, j < K → R 0 * A (n - 1 - (j * (2 * h) + h)) = 0 := by
    intro j hj
    apply I2
    · have := hpos j hj; omega
    · intro j' _
      exact fun hEq => hne1 j' j hEq.symm
  refine ⟨?_, ?_⟩
  · intro i hi
    obtain ⟨j, hj | hj⟩ : ∃ j, i = 2 * j ∨ i = 2 * j + 1 := ⟨i / 2, by omega⟩
    · subst hj
      have hjK : j < K := by omega
      have e1 : 2 * j * h = j * (2 * h) := by ring
      have e2 : 2 * K - 1 + 2 * j = 2 * (K - 1 + j) + 1 := by omega
      rw [e1, e2, r1 j hjK, mul_sub, ← hc j hjK, ← I1 j hjK]
      have := hzero j hjK
      calc R 0 * (P.c (K - 1 + j) * A (n - 1 - j * (2 * h)))
            - R 0 * (P.s (K - 1 + j) * A (n - 1 - (j * (2 * h) + h)))
          = R 0 * (P.c (K - 1 + j) * A (n - 1 - j * (2 * h)))
            - P.s (K - 1 + j) * (R 0 * A (n - 1 - (j * (2 * h) + h))) := by ring
        _ = R 0 * A (n - 1 - j * (2 * h)) * P.c (K - 1 + j) := by rw [this]; ring
    · subst hj
      have hjK : j < K := by omega
      have e1 : (2 * j + 1) * h = j * (2 * h) + h := by ring
      have e2 : 2 * K - 1 + (2 * j + 1) = 2 * (K - 1 + j) + 2 := by omega
      rw [e1, e2, r2 j hjK, mul_add, ← hs j hjK, ← I1 j hjK]
      have := hzero j hjK
      calc R 0 * (P.s (K - 1 + j) * A (n - 1 - j * (2 * h)))
            + R 0 * (P.c (K - 1 + j) * A (n - 1 - (j * (2 * h) + h)))
          = R 0 * (P.s (K - 1 + j) * A (n - 1 - j * (2 * h)))
            + P.c (K - 1 + j) * (R 0 * A (n - 1 - (j * (2 * h) + h))) := by ring
        _ = R 0 * A (n - 1 - j * (2 * h)) * P.s (K - 1 + j) := by rw [this]; ring
  · intro p hp hpi
    have hq : ∀ j, j < K → n - 1 - p ≠ n - 1 - j * (2 * h) ∧ n - 1 - p ≠ n - 1 - (j * (2 * h) + h) := by
      intro j hj
      have h1 := hpi (2 * j) (by omega)
      have h2 := hpi (2 * j + 1) (by omega)
      have e1 : 2 * j * h = j * (2 * h) := by ring
      have e2 : (2 * j + 1) * h = j * (2 * h) + h := by ring
      rw [e1] at h1
      rw [e2] at h2
      have := hpos j hj
      constructor <;> omega
    rw [r3 _ hq]
    apply I2 p hp
    intro j hj
    have h1 := hpi (2 * j) (by omega)
    have e1 : 2 * j * h = j * (2 * h) := by ring
    rw [e1] at h1
    exact h1

theorem treeRowGates_eq_rowOf (m d : Nat) (hd : d + 1 ≤ m) :
    treeRowGates m d = rowOf (fun j => 2 ^ m - 1 - j * (2 * 2 ^ (m - d - 1)))
      (fun j => 2 ^ m - 1 - (j * (2 * 2 ^ (m - d - 1)) + 2 ^ (m - d - 1)))
      (fun j => 2 ^ d - 1 + j) (2 ^ d) := by
  unfold treeRowGates rowOf
  rw [two_pow_sub_eq hd]

/-- the invariant holds after the first `d` rows of the tree, for every `d ≤ m`. -/
theorem tree_inv (P : Par α) (R : Nat → α) (m : Nat)
    (hc : ∀ e, e < 2 ^ m - 1 → R e * P.c e = R (2 * e + 1))
    (hs : ∀ e, e < 2 ^ m - 1 → R e * P.s e = R (2 * e + 2)) : ∀ d : Nat, d ≤ m →
    TreeInv R (2 ^ m) (2 ^ d) (2 ^ (m - d))
      (runAmps P ((List.range d).flatMap (treeRowGates m)) (fun r => if r = 2 ^ m - 1 then 1 else 0)) := by
  intro d
  induction d with
  | zero =>
    intro _
    have hp : 1 ≤ 2 ^ m := Nat.one_le_two_pow
    refine ⟨?_, ?_⟩
    · intro j hj
      have : j = 0 := by simpa using hj
      subst this
      simp [runAmps]
    · intro p hp' hne
      have h0 : p ≠ 0 := by simpa using hne 0 (by simp)
      have : ¬ (2 ^ m - 1 - p = 2 ^ m - 1) := by omega
      simp [runAmps, this]
  | succ d ih =>
    intro hd
    have ih' := ih (by omega)
    have e1 : 2 ^ (d + 1) = 2 * 2 ^ d := pow_succ' 2 d
    have e2 : m - (d + 1) = m - d - 1 := by omega
    have hK : 1 ≤ 2 ^ d := Nat.one_le_two_pow
    have hh : 0 < 2 ^ (m - d - 1) := Nat.two_pow_pos _
    have hn : 2 ^ m = 2 ^ d * (2 * 2 ^ (m - d - 1)) := by
      rw [← two_pow_sub_eq hd, ← pow_add]
      congr 1
      omega
    have hle : 2 * 2 ^ d ≤ 2 ^ m := by
      rw [← e1]; exact Nat.pow_le_pow_right (by norm_num) hd
    rw [List.range_succ, List.flatMap_append, List.flatMap_singleton, runAmps_append,
      treeRowGates_eq_rowOf m d hd, e1, e2]
    rw [two_pow_sub_eq hd] at ih'
    exact treeInv_step P R (2 ^ m) (2 ^ d) (2 ^ (m - d - 1)) _ hn hh hK
      (fun j hj => hc _ (by omega)) (fun j hj => hs _ (by omega)) ih'

/-- the gates of the closed form are RBS gates on distinct qubits `< 2^m`. -/
theorem treeGates_valid (m : Nat) :
    ∀ g ∈ treeGates m, g.kind = .RBS ∧ g.ctrl = [] ∧ g.q0 ≠ g.q1 ∧ g.q0 < 2 ^ m ∧ g.q1 < 2 ^ m := by
  intro g hg
  unfold treeGates at hg
  rw [List.mem_flatMap] at hg
  obtain ⟨d, hd, hg⟩ := hg
  rw [List.mem_range] at hd
  unfold treeRowGates at hg
  rw [List.mem_map] at hg
  obtain ⟨j, hj, rfl⟩ := hg
  rw [List.mem_range] at hj
  have hd' : d + 1 ≤ m := hd
  have hh : 0 < 2 ^ (m - d - 1) := Nat.two_pow_pos _
  have hn : 2 ^ m = 2 ^ d * (2 * 2 ^ (m - d - 1)) := by
    rw [← two_pow_sub_eq hd', ← pow_add]
    congr 1
    omega
  have hle := Nat.mul_le_mul_right (2 * 2 ^ (m - d - 1)) (show j + 1 ≤ 2 ^ d from hj)
  rw [Nat.add_mul, Nat.one_mul, ← hn] at hle
  rw [two_pow_sub_eq hd']
  refine ⟨rfl, rfl, ?_, ?_, ?_⟩
  · show 2 ^ m - 1 - j * (2 * 2 ^ (m - d - 1))
      ≠ 2 ^ m - 1 - (j * (2 * 2 ^ (m - d - 1)) + 2 ^ (m - d - 1))
    omega
  · show 2 ^ m - 1 - j * (2 * 2 ^ (m - d - 1)) < 2 ^ m
    omega
  · show 2 ^ m - 1 - (j * (2 * 2 ^ (m - d - 1)) + 2 ^ (m - d - 1)) < 2 ^ m
    omega

/-- **tree loader, closed form of the gate list.** -/
theorem treeGates_loader (P : Par α) (m : Nat) (x R : Nat → α)
    (hleaf : ∀ p, p < 2 ^ m → R (2 ^ m - 1 + p) = x p)
    (hc : ∀ e, e < 2 ^ m - 1 → R e * P.c e = R (2 * e + 1))
    (hs : ∀ e, e < 2 ^ m - 1 → R e * P.s e = R (2 * e + 2)) (y : Lab) :
    R 0 * runCircuit ((({ kind := .X, q0 := 2 ^ m - 1 } : GD) :: treeGates m).map (GD.sem P))
        (ket zeroLab) y
      = ∑ k ∈ range (2 ^ m), x k * ket (oh (2 ^ m - 1 - k)) y := by
  have hp : 1 ≤ 2 ^ m := Nat.one_le_two_pow
  rw [List.map_cons, runCircuit_cons]
  show R 0 * runCircuit _
    (applyGate ({ mat := matX, targets := [2 ^ m - 1], controls := [] } : MGate α) _) y = _
  rw [X_ket_zero, ket_oh_eq_ohState (n := 2 ^ m) (by omega),
    runCircuit_rbs_network P (2 ^ m) _ (treeGates_valid m)]
  obtain ⟨I1, _⟩ := tree_inv P R m hc hs m (le_refl m)
  unfold ohState
  rw [mul_sum, ← sum_range_reflect]
  apply sum_congr rfl
  intro k hk
  have hk' : k < 2 ^ m := mem_range.mp hk
  have := I1 k hk'
  rw [Nat.sub_self, pow_zero, Nat.mul_one, hleaf k hk'] at this
  unfold treeGates
  rw [← mul_assoc, this]

end QV.Enc
