/-
  QV.Proofs.NoiseTraj — the two noisy simulation modes of QV/Model/Noise.lean:
  linearity of the density-matrix execution of a queue with unitary-mixture channels, and
  the sum over all trajectories.
-/
import Mathlib.Algebra.BigOperators.Group.List.Basic
import Mathlib.Tactic.Ring
import QV.Proofs.Channels
import QV.Model.Noise

namespace QV.Noise
open QV

variable {α : Type} [CommRing α]

/-- the channel object `runQueueDM` builds from the operator list. -/
def chanOf (ops : List (α × MGate α)) : Chan α := unitaryChan (ops.map (·.1)) (ops.map (·.2))

theorem foldl_add_eq_sum (l : List α) : l.foldl (· + ·) 0 = l.sum := by
  rw [List.sum_eq_foldl]

theorem zip_fst_snd {β γ : Type} (l : List (β × γ)) : (l.map (·.1)).zip (l.map (·.2)) = l := by
  induction l with
  | nil => rfl
  | cons a l ih => simp [ih]

/-- `apply_channel_density_matrix` on a unitary mixture, in sum form. -/
theorem chanOf_apply (conj : α → α) (ops : List (α × MGate α)) (ρ : DM α) (x y : Lab) :
    applyChannelDM conj (chanOf ops) ρ x y
      = (1 - coeffSum ops) * ρ x y + (ops.map fun t => t.1 * applyGateDM conj t.2 ρ x y).sum := by
  unfold applyChannelDM chanOf unitaryChan
  simp only [zip_fst_snd]
  rw [krausFold_eq]
  rfl

/-! ### one step and the whole queue, as maps on ρ -/

def stepDM (conj : α → α) (it : QItem α) (ρ : DM α) : DM α :=
  match it with
  | .gate g => applyGateDM conj g ρ
  | .mix ops => applyChannelDM conj (chanOf ops) ρ

theorem runQueueDM_nil (conj : α → α) (ρ : DM α) : runQueueDM conj ([] : List (QItem α)) ρ = ρ := rfl

theorem runQueueDM_cons (conj : α → α) (it : QItem α) (q : List (QItem α)) (ρ : DM α) :
    runQueueDM conj (it :: q) ρ = runQueueDM conj q (stepDM conj it ρ) := by
  unfold runQueueDM
  rw [List.foldl_cons]
  cases it <;> rfl

theorem stepDM_add (conj : α → α) (it : QItem α) (ρ σ : DM α) :
    stepDM conj it (fun x y => ρ x y + σ x y) = fun x y => stepDM conj it ρ x y + stepDM conj it σ x y := by
  cases it with
  | gate g => exact applyGateDM_add conj g ρ σ
  | mix ops => exact krausFold_add conj _ _ ρ σ

theorem stepDM_smul (conj : α → α) (it : QItem α) (c : α) (ρ : DM α) :
    stepDM conj it (fun x y => c * ρ x y) = fun x y => c * stepDM conj it ρ x y := by
  cases it with
  | gate g => exact applyGateDM_smul conj g c ρ
  | mix ops => exact krausFold_smul conj _ c _ ρ

theorem runQueueDM_add (conj : α → α) (q : List (QItem α)) (ρ σ : DM α) :
    runQueueDM conj q (fun x y => ρ x y + σ x y)
      = fun x y => runQueueDM conj q ρ x y + runQueueDM conj q σ x y := by
  induction q generalizing ρ σ with
  | nil => rfl
  | cons it q ih => simp only [runQueueDM_cons, stepDM_add, ih]

theorem runQueueDM_smul (conj : α → α) (q : List (QItem α)) (c : α) (ρ : DM α) :
    runQueueDM conj q (fun x y => c * ρ x y) = fun x y => c * runQueueDM conj q ρ x y := by
  induction q generalizing ρ with
  | nil => rfl
  | cons it q ih => simp only [runQueueDM_cons, stepDM_smul, ih]

theorem runQueueDM_zero (conj : α → α) (q : List (QItem α)) :
    runQueueDM conj q (fun _ _ => (0 : α)) = fun _ _ => 0 := by
  have := runQueueDM_smul conj q 0 (fun _ _ => (0 : α))
  simpa using this

/-- density-matrix execution commutes with finite weighted sums of inputs. -/
theorem runQueueDM_list_sum {ι : Type} (conj : α → α) (q : List (QItem α)) (l : List ι)
    (w : ι → α) (ρ : ι → DM α) :
    runQueueDM conj q (fun x y => (l.map fun t => w t * ρ t x y).sum)
      = fun x y => (l.map fun t => w t * runQueueDM conj q (ρ t) x y).sum := by
  induction l with
  | nil => simpa using runQueueDM_zero conj q
  | cons t l ih =>
    simp only [List.map_cons, List.sum_cons]
    rw [runQueueDM_add conj q (fun x y => w t * ρ t x y) (fun x y => (l.map fun t => w t * ρ t x y).sum),
      ih, runQueueDM_smul]

/-! ### sums over the sampled index -/

/-- a sum over the indices `0 … len` of a function of `ops[i]?` is the sum over the operators
plus the term of the extra (identity) index. -/
theorem sum_range_getElem? {β γ : Type} [AddCommMonoid γ] (l : List β) (F : Option β → γ) :
    ((List.range (l.length + 1)).map fun i => F l[i]?).sum = (l.map fun b => F (some b)).sum + F none := by
  induction l with
  | nil => simp
  | cons a l ih =>
    rw [List.length_cons, List.range_succ_eq_map, List.map_cons, List.sum_cons, List.map_map]
    simp only [List.getElem?_cons_zero, Function.comp_def, List.getElem?_cons_succ]
    rw [ih, List.map_cons, List.sum_cons, add_assoc]

theorem sum_flatMap' {β γ : Type} [AddCommMonoid γ] (l : List β) (f : β → List γ) :
    (l.flatMap f).sum = (l.map fun a => (f a).sum).sum := by
  induction l with
  | nil => rfl
  | cons a l ih => simp [List.flatMap_cons, List.sum_append, ih]

/-- mean of the projectors of all trajectories, with `List.sum`. -/
def meanFrom (conj : α → α) (q : List (QItem α)) (ψ : Lab → α) : DM α := fun x y =>
  ((tapes q).map fun τ => tapeProb q τ * (runTape q τ ψ x * conj (runTape q τ ψ y))).sum

theorem trajectoryMean_eq (conj : α → α) (q : List (QItem α)) (ψ : Lab → α) :
    trajectoryMean conj q ψ = meanFrom conj q ψ := by
  funext x y
  unfold trajectoryMean meanFrom
  rw [foldl_add_eq_sum]

/-- **the probability-weighted sum over ALL trajectories of `|ψ_τ⟩⟨ψ_τ|` equals the
density-matrix execution** of the same queue from `|ψ⟩⟨ψ|`. -/
theorem meanFrom_eq_runQueueDM (conj : α → α) (hadd : ∀ a b, conj (a + b) = conj a + conj b)
    (hmul : ∀ a b, conj (a * b) = conj a * conj b) (q : List (QItem α)) (ψ : Lab → α) :
    meanFrom conj q ψ = runQueueDM conj q (fun x y => ψ x * conj (ψ y)) := by
  induction q generalizing ψ with
  | nil =>
    funext x y
    simp [meanFrom, tapes, tapeProb, runTape, runQueueDM_nil]
  | cons it q ih =>
    cases it with
    | gate g =>
      rw [runQueueDM_cons]
      show meanFrom conj (QItem.gate g :: q) ψ = runQueueDM conj q (applyGateDM conj g _)
      rw [applyGateDM_outer conj hadd hmul, ← ih]
      funext x y
      simp only [meanFrom, tapes, tapeProb, runTape]
    | mix ops =>
      rw [runQueueDM_cons]
      show meanFrom conj (QItem.mix ops :: q) ψ = runQueueDM conj q (applyChannelDM conj (chanOf ops) _)
      have hch : applyChannelDM conj (chanOf ops) (fun x y => ψ x * conj (ψ y))
          = fun x y => (1 - coeffSum ops) * (ψ x * conj (ψ y))
              + (ops.map fun t => t.1 * (applyGate t.2 ψ x * conj (applyGate t.2 ψ y))).sum := by
        funext x y
        rw [chanOf_apply]
        simp only [applyGateDM_outer conj hadd hmul]
      rw [hch, runQueueDM_add, runQueueDM_smul,
        runQueueDM_list_sum conj q ops (fun t => t.1) (fun t x y => applyGate t.2 ψ x * conj (applyGate t.2 ψ y))]
      funext x y
      -- left side: split the tapes by their first index
      have hl : meanFrom conj (QItem.mix ops :: q) ψ x y
          = ((List.range (ops.length + 1)).map fun i =>
              choiceProb ops i * meanFrom conj q (applyChoice ops i ψ) x y).sum := by
        simp only [meanFrom, tapes, List.map_flatMap, List.map_map, Function.comp_def,
          tapeProb, runTape]
        rw [sum_flatMap']
        congr 1
        apply List.map_congr_left
        intro i _
        rw [← List.sum_map_mul_left]
        apply congrArg
        apply List.map_congr_left
        intro τ _
        ring
      rw [hl]
      simp only [ih]
      have hF := sum_range_getElem? ops (fun o : Option (α × MGate α) =>
        optProb ops o * runQueueDM conj q (fun x y => optApply o ψ x * conj (optApply o ψ y)) x y)
      simp only [choiceProb, applyChoice]
      rw [hF]
      simp only [optProb, optApply]
      ring

end QV.Noise
