/-
  QV.Proofs.CliffordAccept — lemmas about the model of `CliffordBackend.execute_circuit`
  (QV/Model/CliffordAccept.lean): the acceptance loop, the run of an accepted queue as a fold.
-/
import QV.Model.CliffordAccept
import QV.Proofs.Clifford
namespace QV.Cliff

theorem accepts_iff_refuses (c : List QItem) :
    accepts c = true ↔ ∀ it ∈ c, it.refuses = false := by
  simp [accepts, List.all_eq_true]

theorem accepts_iff_flags (c : List QItem) :
    accepts c = true ↔ ∀ flag op, QItem.gate flag op ∈ c → flag = true := by
  rw [accepts_iff_refuses]
  constructor
  · intro h flag op hm
    have := h _ hm
    simpa [QItem.refuses] using this
  · intro h it hm
    cases it with
    | gate flag op => have := h flag op hm; simp [QItem.refuses, this]
    | meas qs cl => rfl
    | noise d => rfl

theorem not_accepts_iff (c : List QItem) :
    accepts c = false ↔ ∃ op, QItem.gate false op ∈ c := by
  constructor
  · intro h
    apply Classical.byContradiction
    intro hne
    have : accepts c = true := (accepts_iff_flags c).2 (fun flag op hm => by
      cases flag with
      | true => rfl
      | false => exact absurd ⟨op, hm⟩ hne)
    rw [this] at h; cases h
  · rintro ⟨op, hm⟩
    cases ha : accepts c with
    | false => rfl
    | true => have := (accepts_iff_flags c).1 ha false op hm; cases this

theorem accepts_append (a b : List QItem) : accepts (a ++ b) = (accepts a && accepts b) := by
  simp [accepts, List.all_append]

/-- a prefix of unitary entries is the fold `runGates` of its operations. -/
theorem execItems_unitary_prefix (n : Nat) (pre rest : List QItem) (hp : ∀ it ∈ pre, it.unitary = true)
    (T : Tableau) (coins : List Bool) (outs : List (List Bool)) :
    execItems n (pre ++ rest) T coins outs = execItems n rest (runGates (opsOf pre) T) coins outs := by
  induction pre generalizing T with
  | nil => rfl
  | cons it pre ih =>
    have hit := hp it (List.mem_cons_self ..)
    have hrest := fun it' h => hp it' (List.mem_cons_of_mem _ h)
    cases it with
    | gate flag op =>
      cases op with
      | none => simp [QItem.unitary] at hit
      | some g =>
        simp only [List.cons_append, execItems, opsOf, runGates, List.foldl_cons]
        exact ih hrest _
    | meas qs cl =>
      cases cl with
      | true => simp [QItem.unitary] at hit
      | false =>
        simp only [List.cons_append, execItems, opsOf]
        exact ih hrest _
    | noise d =>
      cases d with
      | none =>
        simp only [List.cons_append, execItems, opsOf]
        exact ih hrest _
      | some g =>
        simp only [List.cons_append, execItems, opsOf, runGates, List.foldl_cons]
        exact ih hrest _

theorem execItems_unitary (n : Nat) (c : List QItem) (hp : ∀ it ∈ c, it.unitary = true)
    (T : Tableau) (coins : List Bool) (outs : List (List Bool)) :
    execItems n c T coins outs = some (runGates (opsOf c) T, outs) := by
  have := execItems_unitary_prefix n c [] hp T coins outs
  rw [List.append_nil] at this
  rw [this]; rfl

/-- a flagged gate without engine operation after a unitary prefix: never a tableau. -/
theorem execItems_no_operation (n : Nat) (pre rest : List QItem) (flag : Bool)
    (hp : ∀ it ∈ pre, it.unitary = true) (T : Tableau) (coins : List Bool) (outs : List (List Bool)) :
    execItems n (pre ++ QItem.gate flag none :: rest) T coins outs = none := by
  rw [execItems_unitary_prefix n pre _ hp]; rfl

theorem mem_insertNat (a q : Nat) (l : List Nat) : q ∈ insertNat a l ↔ q = a ∨ q ∈ l := by
  induction l with
  | nil => simp [insertNat]
  | cons b l ih =>
    simp only [insertNat]
    split
    · simp
    · simp only [List.mem_cons, ih]
      constructor
      · rintro (h | h | h)
        · exact Or.inr (Or.inl h)
        · exact Or.inl h
        · exact Or.inr (Or.inr h)
      · rintro (h | h | h)
        · exact Or.inr (Or.inl h)
        · exact Or.inl h
        · exact Or.inr (Or.inr h)

theorem mem_sortNat (q : Nat) (l : List Nat) : q ∈ sortNat l ↔ q ∈ l := by
  induction l with
  | nil => simp [sortNat]
  | cons a l ih =>
    have : sortNat (a :: l) = insertNat a (sortNat l) := rfl
    rw [this, mem_insertNat, ih]; simp

end QV.Cliff
