/-
  QV.Proofs.ZYZ — the angle formulas of `u3_decomposition`
  (qibo `transpiler/unitary_decompositions.py`) reproduce every 2×2 unitary up to a phase.

      su2   = unitary / sqrt(det(unitary))
      theta = 2 * arctan2(|su2[1,0]|, |su2[0,0]|)
      plus  = angle(su2[1,1]);  minus = angle(su2[1,0])
      phi   = plus + minus;     lam   = plus - minus

  transliterated over ℝ/ℂ: `numpy.angle` = `Complex.arg` (both `0` at `0`, `π` on the negative real
  axis), `numpy.arctan2 y x` = `arg (x + y i)`, `numpy.sqrt` on complex numbers = the principal
  square root `z ^ (1/2)`.  `u3Mat` is the matrix of `gates.U3` (`backends/npmatrices.py::U3`).

  Main facts
    * `u3Mat_su2`   : for `|a|² + |b|² = 1` the angles computed from `[[a, -b̄], [b, ā]]` give back
                      exactly that matrix — INCLUDING the boundary cases `a = 0` (anti-diagonal: X, Y)
                      and `b = 0` (diagonal), where an `angle(0) = 0` is multiplied by a modulus `0`
    * `unitary_shape` : a 2×2 unitary divided by any square root `s` of its determinant has this form
    * `u3_decomposition_correct` : `U3(u3Angles u) = (1 / sqrt (det u)) • u`, `|sqrt (det u)| = 1`
-/
import Mathlib.Analysis.SpecialFunctions.Complex.Arg
import Mathlib.Analysis.SpecialFunctions.Pow.Complex
import Mathlib.LinearAlgebra.UnitaryGroup
import Mathlib.LinearAlgebra.Matrix.Determinant.Basic
import Mathlib.LinearAlgebra.Matrix.Notation
import Mathlib.Tactic.LinearCombination

namespace QV.ZYZ
open Complex
open scoped ComplexConjugate

/-- `numpy.arctan2 y x`. -/
noncomputable def arctan2 (y x : ℝ) : ℝ := Complex.arg (⟨x, y⟩ : ℂ)

/-- `numpy.sqrt` on complex numbers: the principal square root. -/
noncomputable def npSqrt (z : ℂ) : ℂ := z ^ ((2 : ℂ)⁻¹)

/-- the matrix of `gates.U3(θ, φ, λ)` (`NumpyMatrices.U3`). -/
noncomputable def u3Mat (θ φ lam : ℝ) : Matrix (Fin 2) (Fin 2) ℂ :=
  let cost : ℂ := (Real.cos (θ / 2) : ℝ)
  let sint : ℂ := (Real.sin (θ / 2) : ℝ)
  let eplus : ℂ := exp (I * ((φ + lam : ℝ) : ℂ) / 2)
  let eminus : ℂ := exp (I * ((φ - lam : ℝ) : ℂ) / 2)
  !![conj eplus * cost, -conj eminus * sint; eminus * sint, eplus * cost]

/-- `u3_decomposition(unitary)`: `(theta, phi, lam)`. -/
noncomputable def u3Angles (u : Matrix (Fin 2) (Fin 2) ℂ) : ℝ × ℝ × ℝ :=
  let s := npSqrt u.det
  let su2 : Fin 2 → Fin 2 → ℂ := fun i j => u i j / s
  let theta := 2 * arctan2 ‖su2 1 0‖ ‖su2 0 0‖
  let plus := arg (su2 1 1)
  let minus := arg (su2 1 0)
  (theta, plus + minus, plus - minus)

/-- the angle formulas on the entries of an SU(2)-shaped matrix. -/
noncomputable def anglesOf (a b : ℂ) : ℝ × ℝ × ℝ :=
  (2 * arctan2 ‖b‖ ‖a‖, arg (conj a) + arg b, arg (conj a) - arg b)

theorem cos_sin_arctan2 (x y : ℝ) (h : x ^ 2 + y ^ 2 = 1) :
    Real.cos (arctan2 y x) = x ∧ Real.sin (arctan2 y x) = y := by
  have hn : ‖(⟨x, y⟩ : ℂ)‖ = 1 := by
    have h2 : ‖(⟨x, y⟩ : ℂ)‖ ^ 2 = 1 := by
      rw [Complex.sq_norm, Complex.normSq_apply]
      simp only
      nlinarith
    have h0 : 0 ≤ ‖(⟨x, y⟩ : ℂ)‖ := norm_nonneg _
    nlinarith
  have hne : (⟨x, y⟩ : ℂ) ≠ 0 := by
    intro e
    rw [e] at hn
    simp at hn
  unfold arctan2
  constructor
  · rw [Complex.cos_arg hne, hn]; simp
  · rw [Complex.sin_arg, hn]; simp

theorem exp_arg_mul_norm (w : ℂ) : exp (I * (arg w : ℂ)) * (‖w‖ : ℂ) = w := by
  have := Complex.norm_mul_exp_arg_mul_I w
  rw [mul_comm, mul_comm I]
  exact this

/-- **SU(2) form**: the angles computed from `[[a, -b̄], [b, ā]]`, `|a|² + |b|² = 1`, give back the
    matrix exactly — no case distinction: at `a = 0` or `b = 0` the arbitrary angle is multiplied
    by a modulus `0`. -/
theorem u3Mat_su2 (a b : ℂ) (h : ‖a‖ ^ 2 + ‖b‖ ^ 2 = 1) :
    u3Mat (anglesOf a b).1 (anglesOf a b).2.1 (anglesOf a b).2.2 = !![a, -conj b; b, conj a] := by
  obtain ⟨hc, hs⟩ := cos_sin_arctan2 ‖a‖ ‖b‖ h
  have hθ : (2 * arctan2 ‖b‖ ‖a‖) / 2 = arctan2 ‖b‖ ‖a‖ := by ring
  have hp : (I * ((arg (conj a) + arg b + (arg (conj a) - arg b) : ℝ) : ℂ) / 2)
      = I * (arg (conj a) : ℂ) := by
    push_cast; ring
  have hm : (I * ((arg (conj a) + arg b - (arg (conj a) - arg b) : ℝ) : ℂ) / 2)
      = I * (arg b : ℂ) := by
    push_cast; ring
  have e1 : exp (I * (arg (conj a) : ℂ)) * (‖a‖ : ℂ) = conj a := by
    have := exp_arg_mul_norm (conj a)
    rwa [Complex.norm_conj] at this
  have e2 : exp (I * (arg b : ℂ)) * (‖b‖ : ℂ) = b := exp_arg_mul_norm b
  have e1' : conj (exp (I * (arg (conj a) : ℂ))) * (‖a‖ : ℂ) = a := by
    have := congrArg conj e1
    simpa using this
  have e2' : conj (exp (I * (arg b : ℂ))) * (‖b‖ : ℂ) = conj b := by
    have := congrArg conj e2
    simpa using this
  simp only [u3Mat, anglesOf, hθ, hc, hs, hp, hm, e1, e2, e1', e2', neg_mul]

/-- a 2×2 unitary divided by a square root of its determinant is `[[a, -b̄], [b, ā]]`. -/
theorem unitary_shape (u : Matrix (Fin 2) (Fin 2) ℂ) (hu : u ∈ Matrix.unitaryGroup (Fin 2) ℂ)
    (s : ℂ) (hs : s * s = u.det) :
    ‖s‖ = 1 ∧ ‖u 0 0 / s‖ ^ 2 + ‖u 1 0 / s‖ ^ 2 = 1 ∧
      u 1 1 / s = conj (u 0 0 / s) ∧ u 0 1 / s = -conj (u 1 0 / s) := by
  have h1 := Matrix.mem_unitaryGroup_iff'.mp hu
  have c00 : conj (u 0 0) * u 0 0 + conj (u 1 0) * u 1 0 = 1 := by
    have := congrFun (congrFun h1 0) 0
    simpa [Matrix.mul_apply, Fin.sum_univ_two, Matrix.star_apply] using this
  have c01 : conj (u 0 0) * u 0 1 + conj (u 1 0) * u 1 1 = 0 := by
    have := congrFun (congrFun h1 0) 1
    simpa [Matrix.mul_apply, Fin.sum_univ_two, Matrix.star_apply] using this
  have c11 : conj (u 0 1) * u 0 1 + conj (u 1 1) * u 1 1 = 1 := by
    have := congrFun (congrFun h1 1) 1
    simpa [Matrix.mul_apply, Fin.sum_univ_two, Matrix.star_apply] using this
  have hd : u.det = u 0 0 * u 1 1 - u 0 1 * u 1 0 := Matrix.det_fin_two u
  have k1 : u 1 1 = u.det * conj (u 0 0) := by
    rw [hd]; linear_combination (-(u 1 1)) * c00 + (u 1 0) * c01
  have k2 : u 0 1 = -(u.det * conj (u 1 0)) := by
    rw [hd]; linear_combination (-(u 0 1)) * c00 + (u 0 0) * c01
  have k1c : conj (u 1 1) = conj u.det * u 0 0 := by
    have := congrArg conj k1
    simpa using this
  have k2c : conj (u 0 1) = -(conj u.det * u 1 0) := by
    have := congrArg conj k2
    simpa using this
  have hdd : u.det * conj u.det = 1 := by
    linear_combination (-(u.det * conj u.det)) * c00 + c11 - (u 1 1) * k1c
      - (conj u.det * u 0 0) * k1 - (u 0 1) * k2c + (conj u.det * u 1 0) * k2
  have hdn : ‖u.det‖ = 1 := by
    have h2 : ‖u.det‖ ^ 2 = 1 := by
      have := Complex.mul_conj u.det
      rw [hdd] at this
      have h3 : ((Complex.normSq u.det : ℝ) : ℂ) = 1 := this.symm
      rw [Complex.sq_norm]
      exact_mod_cast h3
    have h0 : 0 ≤ ‖u.det‖ := norm_nonneg _
    nlinarith
  have hsn : ‖s‖ = 1 := by
    have h2 : ‖s‖ * ‖s‖ = 1 := by rw [← norm_mul, hs, hdn]
    have h0 : 0 ≤ ‖s‖ := norm_nonneg _
    nlinarith
  have hs0 : s ≠ 0 := by
    intro e; rw [e] at hsn; simp at hsn
  have hsc : conj s = s⁻¹ := by
    have h2 : s * conj s = 1 := by
      rw [Complex.mul_conj, Complex.normSq_eq_norm_sq, hsn]; simp
    field_simp
    linear_combination h2
  have hcs0 : conj s ≠ 0 := by rw [hsc]; exact inv_ne_zero hs0
  refine ⟨hsn, ?_, ?_, ?_⟩
  · rw [norm_div, norm_div, hsn, div_one, div_one]
    have h3 : ((‖u 0 0‖ ^ 2 + ‖u 1 0‖ ^ 2 : ℝ) : ℂ) = 1 := by
      rw [← c00]
      push_cast
      rw [Complex.conj_mul', Complex.conj_mul']
    exact_mod_cast h3
  · rw [map_div₀, hsc, k1, ← hs]
    field_simp
  · rw [map_div₀, hsc, k2, ← hs]
    field_simp

theorem npSqrt_mul_self (z : ℂ) : npSqrt z * npSqrt z = z := by
  unfold npSqrt
  have := Complex.cpow_nat_inv_pow z (n := 2) (by norm_num)
  simpa [pow_two] using this

/-- **`u3_decomposition` is correct**: for every 2×2 unitary `u`, `U3` with the computed angles
    equals `u` divided by the principal square root of its determinant, a unit-modulus scalar. -/
theorem u3_decomposition_correct (u : Matrix (Fin 2) (Fin 2) ℂ)
    (hu : u ∈ Matrix.unitaryGroup (Fin 2) ℂ) :
    ‖npSqrt u.det‖ = 1 ∧
      u3Mat (u3Angles u).1 (u3Angles u).2.1 (u3Angles u).2.2 = (npSqrt u.det)⁻¹ • u := by
  obtain ⟨hsn, hab, h11, h01⟩ := unitary_shape u hu (npSqrt u.det) (npSqrt_mul_self _)
  refine ⟨hsn, ?_⟩
  have h := u3Mat_su2 (u 0 0 / npSqrt u.det) (u 1 0 / npSqrt u.det) hab
  have hang : u3Angles u = anglesOf (u 0 0 / npSqrt u.det) (u 1 0 / npSqrt u.det) := by
    simp only [u3Angles, anglesOf, h11]
  rw [hang, h, ← h11, ← h01]
  ext i j
  fin_cases i <;> fin_cases j <;> simp [div_eq_inv_mul]

end QV.ZYZ
