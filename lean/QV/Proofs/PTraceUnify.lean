/-
  QV.Proofs.PTraceUnify — one partial trace for the whole framework.

  The channel model (QV/Model/Channels.lean, property C04) writes the partial trace as a
  `sumOver` whose column label is forced to the row label's traced bits (`ptraceSet`); the
  fusion / light-cone model and the quantum-information model (QV/Model/Fusion.lean,
  properties C07 and C18) write it by recursion over the traced qubits (`ptrace`).  On every
  duplicate-free qubit list both are the same function, so the theorems of the three properties
  talk about one notion (the closed-form channel fast paths of C04 are stated with the partial
  trace that C18 proves to be what `partial_trace` computes and C07 proves invariant under
  gates on traced qubits).
-/
import QV.Proofs.Depol
import QV.Proofs.PTrace

namespace QV

variable {α : Type} [CommRing α]

theorem ptraceSet_eq_ptrace {qs : List Nat} (hn : qs.Nodup) (ρ : DM α) :
    ptraceSet qs ρ = ptrace qs ρ := by
  funext x y
  rw [ptraceSet_eq_sum_idx hn, ptrace_eq_sum hn]

end QV
