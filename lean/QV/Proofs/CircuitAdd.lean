/-
  Lemmas about the model of `Circuit.add` (QV/Model/CircuitAdd.lean): the fold over the queue
  satisfies, for every item list, the closed-form SPEC (`collSpec`, `isFinal`, `nameSpec`).
-/
import Mathlib.Data.List.Basic
import Mathlib.Data.List.Nodup
import Mathlib.Data.List.Range
import Mathlib.Data.List.Count
import Mathlib.Tactic.Common
import Std.Data.String.ToNat
import QV.Model.CircuitAdd

set_option linter.unusedSectionVars false
set_option linter.unusedSimpArgs false
set_option linter.unusedVariables false

namespace QV.CAdd
variable {ν : Type} [DecidableEq ν]

/-! ### the removal loop -/

section Loop
variable (q : List (Entry ν)) (qs : List Nat)

def hit (p : Nat) : Bool := touches (qubitsAt q p) qs

theorem hitStep_pos {st : St ν} {p : Nat} (h : hit q qs p = true) :
    hitStep q qs st p = { st with coll := fun i => if i = p then true else st.coll i,
                                  meas := st.meas.erase p, hasCollapse := true } := by
  unfold hit at h
  simp [hitStep, h]

theorem hitStep_neg {st : St ν} {p : Nat} (h : hit q qs p = false) : hitStep q qs st p = st := by
  unfold hit at h
  simp [hitStep, h]

theorem foldl_hitStep_queue (ps : List Nat) (st : St ν) :
    (ps.foldl (hitStep q qs) st).queue = st.queue := by
  induction ps generalizing st with
  | nil => rfl
  | cons p ps ih =>
    rw [List.foldl_cons, ih]
    cases h : hit q qs p
    · rw [hitStep_neg q qs h]
    · rw [hitStep_pos q qs h]

theorem foldl_hitStep_coll (ps : List Nat) (st : St ν) (i : Nat) :
    (ps.foldl (hitStep q qs) st).coll i = (st.coll i || (ps.contains i && hit q qs i)) := by
  induction ps generalizing st with
  | nil => simp
  | cons p ps ih =>
    rw [List.foldl_cons, ih]
    cases h : hit q qs p
    · rw [hitStep_neg q qs h]
      by_cases e : i = p
      · subst e; simp [h]
      · have : (p :: ps).contains i = ps.contains i := by
          simp [List.contains_cons, e]
        rw [this]
    · rw [hitStep_pos q qs h]
      by_cases e : i = p
      · subst e; simp [h]
      · have : (p :: ps).contains i = ps.contains i := by
          simp [List.contains_cons, e]
        rw [this]; simp [e]

theorem foldl_hitStep_hc (ps : List Nat) (st : St ν) :
    (ps.foldl (hitStep q qs) st).hasCollapse = (st.hasCollapse || ps.any (hit q qs)) := by
  induction ps generalizing st with
  | nil => simp
  | cons p ps ih =>
    rw [List.foldl_cons, ih]
    cases h : hit q qs p
    · rw [hitStep_neg q qs h]; simp [h]
    · rw [hitStep_pos q qs h]; simp [h]

theorem foldl_hitStep_meas (ps : List Nat) (st : St ν) (hn : st.meas.Nodup) :
    (ps.foldl (hitStep q qs) st).meas
      = st.meas.filter (fun p => !(ps.contains p && hit q qs p)) := by
  induction ps generalizing st with
  | nil => simp
  | cons p ps ih =>
    rw [List.foldl_cons]
    cases h : hit q qs p
    · rw [hitStep_neg q qs h, ih st hn]
      apply List.filter_congr
      intro x _
      by_cases e : x = p
      · subst e; simp [h]
      · simp [List.contains_cons, e]
    · rw [hitStep_pos q qs h, ih _ (hn.erase p)]
      show (st.meas.erase p).filter _ = _
      rw [hn.erase_eq_filter, List.filter_filter]
      apply List.filter_congr
      intro x _
      by_cases e : x = p
      · subst e; simp [h]
      · simp [List.contains_cons, e]

end Loop

/-! ### SPEC functions under `l ++ [x]` -/

section Snoc
variable (dflt : Nat → ν) (l : List (Item ν)) (x : Item ν)

theorem touchedLater_snoc_lt {i : Nat} (hi : i < l.length) :
    touchedLater (l ++ [x]) i = (touchedLater l i || x.gateTouching (l[i]).qubits) := by
  unfold touchedLater
  rw [List.getElem?_append_left hi, List.getElem?_eq_getElem hi]
  simp only
  rw [List.drop_append_of_le_length (by omega), List.any_append]
  simp

theorem touchedLater_snoc_last : touchedLater (l ++ [x]) l.length = false := by
  unfold touchedLater
  simp

theorem mIndex_snoc_le {i : Nat} (hi : i ≤ l.length) : mIndex (l ++ [x]) i = mIndex l i := by
  unfold mIndex
  rw [List.take_append_of_le_length hi]

theorem collSpec_snoc_lt {i : Nat} (hi : i < l.length) :
    collSpec (l ++ [x]) i
      = (collSpec l i || (match l[i] with
                          | .meas ts _ _ => x.gateTouching ts
                          | _ => false)) := by
  unfold collSpec
  rw [List.getElem?_append_left hi, List.getElem?_eq_getElem hi, touchedLater_snoc_lt l x hi]
  cases h : l[i] with
  | gate qs => simp
  | meas ts nm c => simp [Item.qubits, Bool.or_assoc]
  | measB ts nm c rot => simp

theorem isFinal_snoc_lt {i : Nat} (hi : i < l.length) :
    isFinal (l ++ [x]) i
      = (isFinal l i && !(match l[i] with
                          | .meas ts _ _ => x.gateTouching ts
                          | _ => false)) := by
  unfold isFinal
  rw [List.getElem?_append_left hi, List.getElem?_eq_getElem hi, touchedLater_snoc_lt l x hi]
  cases h : l[i] with
  | gate qs => simp
  | meas ts nm c => simp [Item.qubits, Bool.and_assoc]
  | measB ts nm c rot => simp

theorem nameSpec_snoc_lt {i : Nat} (hi : i < l.length) :
    nameSpec dflt (l ++ [x]) i = nameSpec dflt l i := by
  unfold nameSpec
  rw [List.getElem?_append_left hi, mIndex_snoc_le l x (Nat.le_of_lt hi)]

end Snoc

/-! ### the invariant -/

/-- static data of queue element `i` according to the SPEC. -/
def entrySpec (dflt : Nat → ν) (l : List (Item ν)) (i : Nat) : Entry ν :=
  match l[i]? with
  | some (.meas ts _ c) => { isM := true, qubits := ts, name := nameSpec dflt l i, collapse0 := c }
  | some (.gate qs) => { isM := false, qubits := qs, name := none, collapse0 := false }
  | _ => { isM := false, qubits := [], name := none, collapse0 := false }

theorem entrySpec_snoc_lt (dflt : Nat → ν) (l : List (Item ν)) (x : Item ν) {i : Nat}
    (hi : i < l.length) : entrySpec dflt (l ++ [x]) i = entrySpec dflt l i := by
  unfold entrySpec
  rw [List.getElem?_append_left hi, nameSpec_snoc_lt dflt l x hi]

/-- no `measB` item (what `flat` produces). -/
def NoB (l : List (Item ν)) : Prop := ∀ x ∈ l, ∀ ts nm c rot, x ≠ Item.measB ts nm c rot

structure Inv (dflt : Nat → ν) (l : List (Item ν)) (st : St ν) : Prop where
  queue : st.queue = (List.range l.length).map (entrySpec dflt l)
  coll : ∀ i, st.coll i = collSpec l i
  meas : st.meas = (List.range l.length).filter (isFinal l)
  hc : st.hasCollapse = (List.range l.length).any (collSpec l)
  nM : nMeas st.queue = l.countP Item.isMeas

theorem inv_init (dflt : Nat → ν) : Inv dflt ([] : List (Item ν)) {} :=
  ⟨rfl, fun _ => rfl, rfl, rfl, rfl⟩

theorem Inv.length {dflt : Nat → ν} {l : List (Item ν)} {st : St ν} (h : Inv dflt l st) :
    st.queue.length = l.length := by
  rw [h.queue]; simp

theorem Inv.getElem? {dflt : Nat → ν} {l : List (Item ν)} {st : St ν} (h : Inv dflt l st)
    {i : Nat} (hi : i < l.length) : st.queue[i]? = some (entrySpec dflt l i) := by
  rw [h.queue, List.getElem?_map, List.getElem?_range hi]; rfl

theorem Inv.meas_nodup {dflt : Nat → ν} {l : List (Item ν)} {st : St ν} (h : Inv dflt l st) :
    st.meas.Nodup := by
  rw [h.meas]; exact List.nodup_range.filter _

theorem Inv.meas_lt {dflt : Nat → ν} {l : List (Item ν)} {st : St ν} (h : Inv dflt l st)
    {p : Nat} (hp : p ∈ st.meas) : p < l.length ∧ isFinal l p = true := by
  rw [h.meas, List.mem_filter, List.mem_range] at hp; exact hp

/-- the queue of the SPEC under snoc. -/
theorem queueSpec_snoc (dflt : Nat → ν) (l : List (Item ν)) (x : Item ν) :
    (List.range (l ++ [x]).length).map (entrySpec dflt (l ++ [x]))
      = (List.range l.length).map (entrySpec dflt l) ++ [entrySpec dflt (l ++ [x]) l.length] := by
  rw [List.length_append, List.length_singleton, List.range_succ, List.map_append]
  congr 1
  apply List.map_congr_left
  intro i hi
  exact entrySpec_snoc_lt dflt l x (List.mem_range.mp hi)

theorem qubitsAt_append_lt {dflt : Nat → ν} {l : List (Item ν)} {st : St ν} (h : Inv dflt l st)
    (e : Entry ν) {p : Nat} (hp : p < l.length) :
    qubitsAt (st.queue ++ [e]) p = (entrySpec dflt l p).qubits := by
  unfold qubitsAt
  rw [List.getElem?_append_left (by rw [h.length]; exact hp), h.getElem? hp]

/-- adding an ordinary gate preserves the invariant. -/
theorem inv_addGate {dflt : Nat → ν} {l : List (Item ν)} {st : St ν} (h : Inv dflt l st)
    (qs : List Nat) : Inv dflt (l ++ [Item.gate qs]) (addGate st qs) := by
  set e : Entry ν := { isM := false, qubits := qs, name := none, collapse0 := false } with he
  set q := st.queue ++ [e] with hq
  have hadd : addGate st qs = st.meas.foldl (hitStep q qs) { st with queue := q } := rfl
  -- `hit` on positions below the old length, in terms of the SPEC
  have hhit : ∀ p, (hp : p < l.length) → hit q qs p
      = (match l[p] with
         | .meas ts _ _ => (Item.gate qs : Item ν).gateTouching ts
         | _ => false) ∨ (isFinal l p = false) := by
    intro p hp
    by_cases hf : isFinal l p = false
    · exact Or.inr hf
    · left
      unfold hit
      rw [hq, qubitsAt_append_lt h e hp]
      unfold entrySpec
      rw [List.getElem?_eq_getElem hp]
      unfold isFinal at hf
      rw [List.getElem?_eq_getElem hp] at hf
      cases hx : l[p] with
      | gate qs' => rw [hx] at hf; simp at hf
      | meas ts nm c => simp [Item.gateTouching]
      | measB ts nm c rot => rw [hx] at hf; simp at hf
  have hhit' : ∀ p, (hp : p < l.length) → isFinal l p = true → hit q qs p
      = (match l[p] with
         | .meas ts _ _ => (Item.gate qs : Item ν).gateTouching ts
         | _ => false) := by
    intro p hp hf
    rcases hhit p hp with h1 | h1
    · exact h1
    · rw [hf] at h1; cases h1
  have hlast : (l ++ [Item.gate qs])[l.length]? = some (Item.gate qs : Item ν) := by simp
  refine ⟨?_, ?_, ?_, ?_, ?_⟩
  · -- queue
    rw [hadd, foldl_hitStep_queue, queueSpec_snoc, ← h.queue]
    show st.queue ++ [e] = _
    congr 2
    unfold entrySpec
    rw [hlast]
  · -- coll
    intro i
    rw [hadd, foldl_hitStep_coll]
    by_cases hlt : i < l.length
    · rw [collSpec_snoc_lt l _ hlt]
      show (st.coll i || _) = _
      rw [h.coll i]
      by_cases hm : i ∈ st.meas
      · have := (h.meas_lt hm).2
        rw [hhit' i hlt this]
        simp [hm]
      · -- not terminal: either not a measurement, or already collapsing
        have hnf : isFinal l i = false := by
          by_contra hc
          apply hm
          rw [h.meas, List.mem_filter, List.mem_range]
          exact ⟨hlt, by simpa using hc⟩
        have hc : List.contains st.meas i = false := by simpa using hm
        rw [hc]
        simp only [Bool.false_and, Bool.or_false]
        unfold collSpec isFinal at *
        rw [List.getElem?_eq_getElem hlt] at hnf ⊢
        cases hx : l[i] with
        | gate qs' => simp
        | meas ts nm c =>
          rw [hx] at hnf
          simp only at hnf ⊢
          cases c <;> cases ht : touchedLater l i <;> simp_all
        | measB ts nm c rot => simp
    · have hnm : i ∉ st.meas := fun hm => hlt (h.meas_lt hm).1
      have hc : List.contains st.meas i = false := by simpa using hnm
      rw [hc]
      show (st.coll i || _) = _
      rw [h.coll i]
      have h1 : collSpec l i = false := by
        unfold collSpec; rw [List.getElem?_eq_none (by omega)]
      have h2 : collSpec (l ++ [Item.gate qs]) i = false := by
        unfold collSpec
        by_cases e : i = l.length
        · subst e; rw [hlast]
        · rw [List.getElem?_eq_none (by simp; omega)]
      rw [h1, h2]; rfl
  · -- meas
    rw [hadd, foldl_hitStep_meas q qs st.meas { st with queue := q } h.meas_nodup]
    show st.meas.filter _ = _
    rw [List.length_append, List.length_singleton, List.range_succ, List.filter_append]
    have hl : [l.length].filter (isFinal (l ++ [Item.gate qs])) = [] := by
      simp [isFinal]
    rw [hl, List.append_nil, h.meas, List.filter_filter]
    apply List.filter_congr
    intro p hp
    have hp' := List.mem_range.mp hp
    rw [isFinal_snoc_lt l _ hp']
    by_cases hf : isFinal l p = true
    · have hm : p ∈ (List.range l.length).filter (isFinal l) := by
        rw [List.mem_filter]; exact ⟨hp, hf⟩
      rw [hhit' p hp' hf]
      simp [hf, hm]
    · simp [hf]
  · -- hasCollapse
    rw [hadd, foldl_hitStep_hc]
    show (st.hasCollapse || _) = _
    rw [h.hc, List.length_append, List.length_singleton, List.range_succ, List.any_append]
    have hl : [l.length].any (collSpec (l ++ [Item.gate qs])) = false := by
      simp [collSpec]
    rw [hl, Bool.or_false]
    apply Bool.eq_iff_iff.mpr
    simp only [Bool.or_eq_true, List.any_eq_true, List.mem_range]
    constructor
    · rintro (⟨i, hi, hc⟩ | ⟨p, hp, hh⟩)
      · exact ⟨i, hi, by rw [collSpec_snoc_lt l _ hi, hc]; rfl⟩
      · obtain ⟨hpl, hf⟩ := h.meas_lt hp
        refine ⟨p, hpl, ?_⟩
        rw [collSpec_snoc_lt l _ hpl, ← hhit' p hpl hf, hh]; simp
    · rintro ⟨i, hi, hc⟩
      rw [collSpec_snoc_lt l _ hi] at hc
      by_cases h1 : collSpec l i = true
      · exact Or.inl ⟨i, hi, h1⟩
      · right
        have h1' : collSpec l i = false := by simpa using h1
        rw [h1', Bool.false_or] at hc
        -- then `i` is a terminal measurement
        have hf : isFinal l i = true := by
          unfold collSpec at h1'
          unfold isFinal
          rw [List.getElem?_eq_getElem hi] at h1' ⊢
          cases hx : l[i] with
          | gate qs' => rw [hx] at hc; simp at hc
          | meas ts nm c => rw [hx] at h1'; simp at h1' ⊢; exact h1'
          | measB ts nm c rot => rw [hx] at hc; simp at hc
        have hm : i ∈ st.meas := by
          rw [h.meas, List.mem_filter, List.mem_range]; exact ⟨hi, hf⟩
        exact ⟨i, hm, by rw [hhit' i hi hf]; exact hc⟩
  · -- number of measurement gates
    rw [hadd, foldl_hitStep_queue]
    show nMeas (st.queue ++ [e]) = _
    have := h.nM
    unfold nMeas at *
    rw [List.countP_append, List.countP_append, this]
    simp [he, Item.isMeas]

/-- adding a measurement (when it is accepted) preserves the invariant. -/
theorem inv_addMeas {dflt : Nat → ν} {l : List (Item ν)} {st st' : St ν} (h : Inv dflt l st)
    {ts : List Nat} {nm : Option ν} {c : Bool} (ha : addMeas dflt st ts nm c = some st') :
    Inv dflt (l ++ [Item.meas ts nm c]) st' := by
  have hlast : (l ++ [Item.meas ts nm c])[l.length]? = some (Item.meas ts nm c) := by simp
  have hmi : mIndex (l ++ [Item.meas ts nm c]) l.length = nMeas st.queue := by
    rw [mIndex_snoc_le l _ (Nat.le_refl _), h.nM]
    unfold mIndex
    rw [List.take_length]
  -- the name that was chosen
  obtain ⟨x, hx, hst'⟩ : ∃ x, nameSpec dflt (l ++ [Item.meas ts nm c]) l.length = some x ∧
      st' = { queue := st.queue ++ [{ isM := true, qubits := ts, name := some x, collapse0 := c }],
              coll := fun i => if i = st.queue.length then c else st.coll i,
              meas := if c then st.meas else st.meas ++ [st.queue.length],
              hasCollapse := st.hasCollapse || c } := by
    unfold addMeas at ha
    unfold nameSpec
    rw [hlast]
    cases nm with
    | none =>
      simp only at ha ⊢
      refine ⟨dflt (nMeas st.queue), by rw [hmi], ?_⟩
      exact (Option.some.inj ha).symm
    | some y =>
      simp only at ha ⊢
      by_cases hd : (st.meas.any fun p => nameAt st.queue p == some y) = true
      · rw [if_pos hd] at ha; cases ha
      · rw [if_neg hd] at ha
        exact ⟨y, rfl, (Option.some.inj ha).symm⟩
  subst hst'
  have hgt : ∀ ts', (Item.meas ts nm c : Item ν).gateTouching ts' = false := fun _ => rfl
  refine ⟨?_, ?_, ?_, ?_, ?_⟩
  · show st.queue ++ _ = _
    rw [queueSpec_snoc, ← h.queue]
    congr 2
    unfold entrySpec
    rw [hlast]
    simp only
    rw [hx]
  · intro i
    show (if i = st.queue.length then c else st.coll i) = _
    rw [h.length]
    by_cases e : i = l.length
    · subst e
      rw [if_pos rfl]
      unfold collSpec
      rw [hlast]
      simp only
      rw [touchedLater_snoc_last]; simp
    · rw [if_neg e, h.coll i]
      by_cases hlt : i < l.length
      · rw [collSpec_snoc_lt l _ hlt]
        cases l[i] <;> simp [hgt]
      · unfold collSpec
        rw [List.getElem?_eq_none (by omega), List.getElem?_eq_none (by simp; omega)]
  · show (if c then st.meas else st.meas ++ [st.queue.length]) = _
    rw [h.length, List.length_append, List.length_singleton, List.range_succ, List.filter_append]
    have hold : (List.range l.length).filter (isFinal (l ++ [Item.meas ts nm c]))
        = (List.range l.length).filter (isFinal l) := by
      apply List.filter_congr
      intro p hp
      have hp' := List.mem_range.mp hp
      rw [isFinal_snoc_lt l _ hp']
      cases l[p] <;> simp [hgt]
    have hnew : isFinal (l ++ [Item.meas ts nm c]) l.length = !c := by
      unfold isFinal
      rw [hlast]
      simp only
      rw [touchedLater_snoc_last]; simp
    rw [hold, ← h.meas]
    cases c
    · simp [List.filter_cons, hnew]
    · simp [List.filter_cons, hnew]
  · show (st.hasCollapse || c) = _
    rw [h.hc, List.length_append, List.length_singleton, List.range_succ, List.any_append]
    have hold : (List.range l.length).any (collSpec (l ++ [Item.meas ts nm c]))
        = (List.range l.length).any (collSpec l) := by
      apply Bool.eq_iff_iff.mpr
      simp only [List.any_eq_true, List.mem_range]
      constructor
      · rintro ⟨i, hi, hc⟩
        refine ⟨i, hi, ?_⟩
        rw [collSpec_snoc_lt l _ hi] at hc
        cases hh : l[i] <;> simp [hh, hgt] at hc <;> exact hc
      · rintro ⟨i, hi, hc⟩
        refine ⟨i, hi, ?_⟩
        rw [collSpec_snoc_lt l _ hi, hc]; rfl
    have hnew : collSpec (l ++ [Item.meas ts nm c]) l.length = c := by
      unfold collSpec
      rw [hlast]
      simp only
      rw [touchedLater_snoc_last]; simp
    rw [hold]
    simp [hnew]
  · show nMeas (st.queue ++ _) = _
    have := h.nM
    unfold nMeas at *
    rw [List.countP_append, List.countP_append, this]
    simp [Item.isMeas]

/-! ### whole runs -/

theorem runFrom_append (dflt : Nat → ν) (s : St ν) (a b : List (Item ν)) :
    runFrom dflt s (a ++ b) = (runFrom dflt s a).bind fun s' => runFrom dflt s' b := by
  induction a generalizing s with
  | nil => rfl
  | cons x a ih =>
    simp only [List.cons_append, runFrom]
    cases addItem dflt s x with
    | none => rfl
    | some s' => exact ih s'

theorem inv_runFrom {dflt : Nat → ν} {l : List (Item ν)} {st : St ν} (h : Inv dflt l st)
    (xs : List (Item ν)) (hb : NoB xs) {st' : St ν} (hr : runFrom dflt st xs = some st') :
    Inv dflt (l ++ xs) st' := by
  induction xs generalizing l st with
  | nil =>
    rw [List.append_nil]
    simp only [runFrom] at hr
    exact (Option.some.inj hr) ▸ h
  | cons x xs ih =>
    have hb' : NoB xs := fun y hy => hb y (List.mem_cons_of_mem _ hy)
    rw [show l ++ x :: xs = (l ++ [x]) ++ xs by simp]
    simp only [runFrom] at hr
    cases x with
    | gate qs =>
      simp only [addItem] at hr
      exact ih (inv_addGate h qs) hb' hr
    | meas ts nm c =>
      simp only [addItem] at hr
      cases ha : addMeas dflt st ts nm c with
      | none => rw [ha] at hr; cases hr
      | some s1 =>
        rw [ha] at hr
        exact ih (inv_addMeas h ha) hb' hr
    | measB ts nm c rot => exact absurd rfl (hb _ (List.mem_cons_self ..) ts nm c rot)

/-- **the fold satisfies the SPEC** for every item list without basis rotations. -/
theorem inv_run {dflt : Nat → ν} {l : List (Item ν)} (hb : NoB l) {st : St ν}
    (hr : run dflt l = some st) : Inv dflt l st := by
  have := inv_runFrom (inv_init dflt) l hb hr
  simpa using this

theorem noB_flat (l : List (Item ν)) : NoB (flat l) := by
  induction l with
  | nil => intro x hx; cases hx
  | cons y l ih =>
    intro x hx ts nm c rot e
    cases y with
    | gate qs =>
      simp only [flat, List.mem_cons] at hx
      rcases hx with rfl | hx
      · cases e
      · exact ih x hx ts nm c rot e
    | meas ts' nm' c' =>
      simp only [flat, List.mem_cons] at hx
      rcases hx with rfl | hx
      · cases e
      · exact ih x hx ts nm c rot e
    | measB ts' nm' c' rot' =>
      simp only [flat, List.mem_append, List.mem_map, List.mem_cons] at hx
      rcases hx with ⟨q, _, rfl⟩ | rfl | hx
      · cases e
      · cases e
      · exact ih x hx ts nm c rot e

theorem runFrom_gates (dflt : Nat → ν) (s : St ν) (rot : List Nat) :
    runFrom dflt s (rot.map fun q => Item.gate [q])
      = some (rot.foldl (fun st q => addGate st [q]) s) := by
  induction rot generalizing s with
  | nil => rfl
  | cons q rot ih => simp only [List.map_cons, runFrom, addItem, List.foldl_cons]; exact ih _

/-- adding a measurement in another basis = adding its rotation gates, then the measurement. -/
theorem runFrom_flat (dflt : Nat → ν) (s : St ν) (l : List (Item ν)) :
    runFrom dflt s (flat l) = runFrom dflt s l := by
  induction l generalizing s with
  | nil => rfl
  | cons y l ih =>
    cases y with
    | gate qs =>
      simp only [flat, runFrom]
      cases addItem dflt s (Item.gate qs) with
      | none => rfl
      | some s' => exact ih s'
    | meas ts nm c =>
      simp only [flat, runFrom]
      cases addItem dflt s (Item.meas ts nm c) with
      | none => rfl
      | some s' => exact ih s'
    | measB ts nm c rot =>
      simp only [flat]
      rw [runFrom_append, runFrom_gates]
      simp only [Option.bind_some, runFrom, addItem]
      cases addMeas dflt (rot.foldl (fun st q => addGate st [q]) s) ts nm c with
      | none => rfl
      | some s' => exact ih s'

/-! ### register names -/

theorem nameAt_eq_nameSpec {dflt : Nat → ν} {l : List (Item ν)} {st : St ν} (h : Inv dflt l st)
    {p : Nat} (hp : p < l.length) : nameAt st.queue p = nameSpec dflt l p := by
  unfold nameAt
  rw [h.getElem? hp]
  unfold entrySpec nameSpec
  rw [List.getElem?_eq_getElem hp]
  cases l[p] with
  | gate qs => rfl
  | meas ts nm c => cases nm <;> rfl
  | measB ts nm c rot => rfl

theorem qubitsAt_eq {dflt : Nat → ν} {l : List (Item ν)} {st : St ν} (h : Inv dflt l st)
    {p : Nat} (hp : p < l.length) (hb : NoB l) : qubitsAt st.queue p = (l[p]).qubits := by
  unfold qubitsAt
  rw [h.getElem? hp]
  unfold entrySpec
  rw [List.getElem?_eq_getElem hp]
  cases hx : l[p] with
  | gate qs => rfl
  | meas ts nm c => rfl
  | measB ts nm c rot => exact absurd hx (hb _ (List.getElem_mem hp) ts nm c rot)

/-- an explicit register name never equals the DEFAULT name of a LATER measurement. -/
def NoClash (dflt : Nat → ν) (l : List (Item ν)) : Prop :=
  ∀ i j ts y c ts' c', i < j → l[i]? = some (Item.meas ts (some y) c) →
    l[j]? = some (Item.meas ts' none c') → y ≠ dflt (mIndex l j)

theorem NoClash.prefix {dflt : Nat → ν} {l : List (Item ν)} {x : Item ν}
    (h : NoClash dflt (l ++ [x])) : NoClash dflt l := by
  intro i j ts y c ts' c' hij hi hj
  have hjl : j < l.length := by
    by_contra hc
    rw [List.getElem?_eq_none (by omega)] at hj; cases hj
  have := h i j ts y c ts' c' hij
    (by rw [List.getElem?_append_left (by omega)]; exact hi)
    (by rw [List.getElem?_append_left hjl]; exact hj)
  rwa [mIndex_snoc_le l x (Nat.le_of_lt hjl)] at this

theorem mIndex_lt_of_meas {l : List (Item ν)} {p n : Nat} (hp : p < n) (hn : n ≤ l.length)
    (hm : (l[p]'(by omega)).isMeas = true) : mIndex l p < mIndex l n := by
  unfold mIndex
  have hpl : p < l.length := by omega
  have h1 : (l.take (p + 1)).countP Item.isMeas = (l.take p).countP Item.isMeas + 1 := by
    rw [List.take_succ_eq_append_getElem hpl, List.countP_append]
    simp [hm]
  have h2 : (l.take (p + 1)).countP Item.isMeas ≤ (l.take n).countP Item.isMeas := by
    apply List.Sublist.countP_le
    exact (List.take_sublist_take_left (by omega))
  omega

/-- names of the terminal measurements, by the SPEC. -/
def finalNames (dflt : Nat → ν) (l : List (Item ν)) : List (Option ν) :=
  ((List.range l.length).filter (isFinal l)).map (nameSpec dflt l)

theorem finalNames_nodup {dflt : Nat → ν} (hinj : Function.Injective dflt) (l : List (Item ν))
    (hb : NoB l) (hc : NoClash dflt l) {st : St ν} (hr : run dflt l = some st) :
    (finalNames dflt l).Nodup := by
  induction l using List.reverseRecOn generalizing st with
  | nil => simp [finalNames]
  | append_singleton l x ih =>
    have hbl : NoB l := fun y hy => hb y (List.mem_append_left _ hy)
    unfold run at hr
    rw [runFrom_append] at hr
    cases h0 : runFrom dflt {} l with
    | none => rw [h0] at hr; cases hr
    | some s0 =>
      rw [h0] at hr
      simp only [Option.bind_some, runFrom] at hr
      have hinv : Inv dflt l s0 := inv_run hbl h0
      have ihn := ih hbl hc.prefix h0
      -- names below the old length do not change
      have hnames : ∀ p ∈ (List.range l.length).filter (isFinal (l ++ [x])),
          nameSpec dflt (l ++ [x]) p = nameSpec dflt l p := by
        intro p hp
        exact nameSpec_snoc_lt dflt l x (List.mem_range.mp (List.mem_filter.mp hp).1)
      unfold finalNames at ihn ⊢
      rw [List.length_append, List.length_singleton, List.range_succ, List.filter_append,
        List.map_append, List.map_congr_left hnames]
      have hsub : ((List.range l.length).filter (isFinal (l ++ [x]))).Sublist
          ((List.range l.length).filter (isFinal l)) := by
        have : (List.range l.length).filter (isFinal (l ++ [x]))
            = ((List.range l.length).filter (isFinal l)).filter (isFinal (l ++ [x])) := by
          rw [List.filter_filter]
          apply List.filter_congr
          intro p hp
          have hp' := List.mem_range.mp hp
          rw [isFinal_snoc_lt l x hp']
          cases isFinal l p <;> simp
        rw [this]
        exact List.filter_sublist
      have hfirst := (hsub.map (nameSpec dflt l)).nodup ihn
      have hlast : (l ++ [x])[l.length]? = some x := by simp
      -- the last position
      by_cases hfin : isFinal (l ++ [x]) l.length = true
      · rw [List.filter_cons_of_pos hfin, List.filter_nil, List.map_singleton]
        apply List.Nodup.append hfirst (List.nodup_singleton _)
        -- the new name differs from the names of all earlier terminal measurements
        suffices hne : ∀ p ∈ (List.range l.length).filter (isFinal l),
            nameSpec dflt l p ≠ nameSpec dflt (l ++ [x]) l.length by
          intro a ha hb'
          rw [List.mem_singleton] at hb'
          subst hb'
          obtain ⟨p, hp, hpe⟩ := List.mem_map.mp ha
          exact hne p (hsub.subset hp) hpe
        intro p hp
        obtain ⟨hpr, hpf⟩ := List.mem_filter.mp hp
        have hpl := List.mem_range.mp hpr
        unfold isFinal at hfin
        rw [hlast] at hfin
        cases x with
        | gate qs => simp at hfin
        | measB ts nm c rot => simp at hfin
        | meas ts nm c =>
          simp only [addItem] at hr
          have hns : nameSpec dflt (l ++ [Item.meas ts nm c]) l.length
              = match nm with
                | some y => some y
                | none => some (dflt (mIndex (l ++ [Item.meas ts nm c]) l.length)) := by
            unfold nameSpec; rw [hlast]; cases nm <;> rfl
          rw [hns]
          cases nm with
          | some y =>
            simp only
            unfold addMeas at hr
            simp only at hr
            by_cases hd : (s0.meas.any fun p => nameAt s0.queue p == some y) = true
            · rw [if_pos hd] at hr; cases hr
            · intro he
              apply hd
              rw [List.any_eq_true]
              refine ⟨p, by rw [hinv.meas]; exact hp, ?_⟩
              rw [nameAt_eq_nameSpec hinv hpl, he]; simp
          | none =>
            simp only
            have hmi : mIndex (l ++ [Item.meas ts none c]) l.length = mIndex l l.length :=
              mIndex_snoc_le l _ (Nat.le_refl _)
            unfold isFinal at hpf
            rw [List.getElem?_eq_getElem hpl] at hpf
            unfold nameSpec
            rw [List.getElem?_eq_getElem hpl]
            cases hx : l[p] with
            | gate qs => rw [hx] at hpf; simp at hpf
            | measB ts' nm' c' rot => rw [hx] at hpf; simp at hpf
            | meas ts' nm' c' =>
              cases nm' with
              | some y =>
                simp only
                intro he
                have := hc p l.length ts' y c' ts c hpl
                  (by rw [List.getElem?_append_left hpl, List.getElem?_eq_getElem hpl, hx]) hlast
                exact this (Option.some.inj he)
              | none =>
                simp only
                intro he
                have h1 := hinj (Option.some.inj he)
                have h2 : mIndex l p < mIndex l l.length :=
                  mIndex_lt_of_meas hpl (Nat.le_refl _) (by rw [hx]; rfl)
                rw [hmi] at h1
                omega
      · rw [List.filter_cons_of_neg hfin, List.filter_nil, List.map_nil, List.append_nil]
        exact hfirst

/-! ### `measurement_tuples` -/

section Dict
variable {V : Type}

theorem foldl_dictInsert (d l : List (ν × V)) (hn : ((d ++ l).map Prod.fst).Nodup) :
    l.foldl (fun d e => dictInsert d e.1 e.2) d = d ++ l := by
  induction l generalizing d with
  | nil => simp
  | cons e l ih =>
    rw [List.foldl_cons]
    have hnot : (d.any fun e' => e'.1 == e.1) = false := by
      rw [List.any_eq_false]
      intro e' he' heq
      have heq' : e'.1 = e.1 := by simpa using heq
      rw [List.map_append, List.map_cons] at hn
      have := (List.nodup_append.mp hn).2.2 e'.1 (List.mem_map_of_mem he') e.1 (List.mem_cons_self ..)
      exact this heq'
    have : dictInsert d e.1 e.2 = d ++ [e] := by
      unfold dictInsert; rw [hnot]; simp
    rw [this, ih (d ++ [e]) (by simpa using hn)]
    simp

/-- a dict comprehension over pairs with distinct keys is the list of pairs, in order. -/
theorem dictOf_of_nodup (l : List (ν × V)) (hn : (l.map Prod.fst).Nodup) : dictOf l = l := by
  unfold dictOf
  rw [foldl_dictInsert [] l (by simpa using hn)]
  simp

end Dict

/-! ### the SPEC spelled out with quantifiers -/

theorem touches_iff (a b : List Nat) : touches a b = true ↔ ∃ q, q ∈ a ∧ q ∈ b := by
  unfold touches
  simp [List.any_eq_true]

theorem touchedLater_iff (l : List (Item ν)) (i : Nat) {x : Item ν} (hx : l[i]? = some x) :
    touchedLater l i = true ↔
      ∃ j qs, i < j ∧ l[j]? = some (Item.gate qs) ∧ ∃ q, q ∈ x.qubits ∧ q ∈ qs := by
  unfold touchedLater
  rw [hx]
  simp only [List.any_eq_true]
  constructor
  · rintro ⟨y, hy, ht⟩
    obtain ⟨k, hk⟩ := List.mem_iff_getElem?.mp hy
    rw [List.getElem?_drop] at hk
    cases y with
    | gate qs =>
      exact ⟨i + 1 + k, qs, by omega, hk, (touches_iff _ _).mp ht⟩
    | meas ts nm c => cases ht
    | measB ts nm c rot => cases ht
  · rintro ⟨j, qs, hij, hj, hq⟩
    refine ⟨Item.gate qs, ?_, (touches_iff _ _).mpr hq⟩
    apply List.mem_iff_getElem?.mpr
    refine ⟨j - (i + 1), ?_⟩
    rw [List.getElem?_drop]
    rw [show i + 1 + (j - (i + 1)) = j by omega]
    exact hj

/-- a measurement is terminal iff it was not constructed with `collapse=True` and no later
ordinary gate acts on any of its qubits. -/
theorem isFinal_iff (l : List (Item ν)) (i : Nat) :
    isFinal l i = true ↔
      ∃ ts nm, l[i]? = some (Item.meas ts nm false) ∧
        ∀ j qs, i < j → l[j]? = some (Item.gate qs) → ∀ q ∈ ts, q ∉ qs := by
  unfold isFinal
  cases hx : l[i]? with
  | none => simp
  | some x =>
    cases x with
    | gate qs => simp
    | measB ts nm c rot => simp
    | meas ts nm c =>
      simp only [Bool.and_eq_true, Bool.not_eq_true', Option.some.injEq, Item.meas.injEq]
      constructor
      · rintro ⟨hc, ht⟩
        refine ⟨ts, nm, ⟨rfl, rfl, hc⟩, ?_⟩
        intro j qs hij hj q hq hq'
        have : touchedLater l i = true :=
          (touchedLater_iff l i hx).mpr ⟨j, qs, hij, hj, q, hq, hq'⟩
        rw [ht] at this; cases this
      · rintro ⟨ts', nm', ⟨rfl, rfl, rfl⟩, hall⟩
        refine ⟨rfl, ?_⟩
        by_contra hc
        have hc' : touchedLater l i = true := by simpa using hc
        obtain ⟨j, qs, hij, hj, q, hq, hq'⟩ := (touchedLater_iff l i hx).mp hc'
        exact hall j qs hij hj q hq hq'

/-- shape of the queue: every item is kept, in order. -/
theorem queue_shape {dflt : Nat → ν} {l : List (Item ν)} {st : St ν} (h : Inv dflt l st)
    (hb : NoB l) :
    st.queue.map (fun e => (e.isM, e.qubits)) = l.map (fun x => (x.isMeas, x.qubits)) := by
  apply List.ext_getElem?
  intro i
  rw [List.getElem?_map, List.getElem?_map]
  by_cases hi : i < l.length
  · rw [h.getElem? hi, List.getElem?_eq_getElem hi]
    unfold entrySpec
    rw [List.getElem?_eq_getElem hi]
    cases hx : l[i] with
    | gate qs => rfl
    | meas ts nm c => rfl
    | measB ts nm c rot => exact absurd hx (hb _ (List.getElem_mem hi) ts nm c rot)
  · rw [List.getElem?_eq_none (by rw [h.length]; omega), List.getElem?_eq_none (by omega)]
    rfl

theorem addMeas_none_iff (dflt : Nat → ν) (s : St ν) (ts : List Nat) (x : ν) (c : Bool) :
    addMeas dflt s ts (some x) c = none ↔ ∃ p ∈ s.meas, nameAt s.queue p = some x := by
  unfold addMeas
  simp only
  by_cases hd : (s.meas.any fun p => nameAt s.queue p == some x) = true
  · rw [if_pos hd]
    simp only [true_iff]
    obtain ⟨p, hp, he⟩ := List.any_eq_true.mp hd
    exact ⟨p, hp, by simpa using he⟩
  · rw [if_neg hd]
    simp only [reduceCtorEq, false_iff]
    rintro ⟨p, hp, he⟩
    exact hd (List.any_eq_true.mpr ⟨p, hp, by simp [he]⟩)

theorem addMeas_default_isSome (dflt : Nat → ν) (s : St ν) (ts : List Nat) (c : Bool) :
    (addMeas dflt s ts none c).isSome = true := by
  unfold addMeas; rfl

/-- `f"register{k}"` is injective in `k`. -/
theorem registerName_injective : Function.Injective fun k : Nat => "register" ++ toString k := by
  intro a b h
  have h' : ("register" ++ toString a).toList = ("register" ++ toString b).toList := by
    simp only at h; rw [h]
  rw [String.toList_append, String.toList_append] at h'
  have h2 := List.append_cancel_left h'
  have h3 : toString a = toString b := String.toList_inj.mp h2
  exact Nat.repr_injective h3

end QV.CAdd
