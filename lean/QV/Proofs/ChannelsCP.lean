/-
  QV.Proofs.ChannelsCP — complete positivity of the Kraus form, on Mathlib matrices
  (`Matrix.PosSemidef`), any finite index types, any `RCLike` field.
-/
import Mathlib.LinearAlgebra.Matrix.PosDef
import Mathlib.LinearAlgebra.Matrix.Kronecker
import Mathlib.Analysis.RCLike.Basic

namespace QV.CP
open Matrix
open scoped ComplexOrder

variable {𝕜 : Type*} [RCLike 𝕜]
variable {n m a ι : Type*} [Fintype n] [Fintype m] [Fintype a]

/-- the (weighted) Kraus form `Σ_k c_k · K_k ρ K_kᴴ` (rectangular operators allowed). -/
noncomputable def krausForm (s : Finset ι) (c : ι → ℝ) (K : ι → Matrix m n 𝕜) (ρ : Matrix n n 𝕜) :
    Matrix m m 𝕜 :=
  ∑ k ∈ s, (c k) • (K k * ρ * (K k)ᴴ)

/-- **positivity of the Kraus form**: non-negative weights, PSD input ⇒ PSD output. -/
theorem krausForm_posSemidef (s : Finset ι) (c : ι → ℝ) (hc : ∀ k ∈ s, 0 ≤ c k)
    (K : ι → Matrix m n 𝕜) {ρ : Matrix n n 𝕜} (hρ : ρ.PosSemidef) :
    (krausForm s c K ρ).PosSemidef :=
  posSemidef_sum s fun k hk => (hρ.mul_mul_conjTranspose_same (K k)).smul (hc k hk)

/-- what `apply_channel_density_matrix` computes: `(1 − Σc)·ρ + Σ_k c_k K_k ρ K_kᴴ`. -/
theorem krausForm_add_rest_posSemidef (s : Finset ι) (c : ι → ℝ) (hc : ∀ k ∈ s, 0 ≤ c k)
    (hsum : ∑ k ∈ s, c k ≤ 1) (K : ι → Matrix n n 𝕜) {ρ : Matrix n n 𝕜} (hρ : ρ.PosSemidef) :
    ((1 - ∑ k ∈ s, c k) • ρ + krausForm s c K ρ).PosSemidef :=
  (hρ.smul (sub_nonneg.mpr hsum)).add (krausForm_posSemidef s c hc K hρ)

/-- the ancilla extension `Φ ⊗ id_a` of the Kraus form. -/
noncomputable def krausFormAnc [DecidableEq a] (s : Finset ι) (c : ι → ℝ) (K : ι → Matrix m n 𝕜)
    (ρ : Matrix (n × a) (n × a) 𝕜) : Matrix (m × a) (m × a) 𝕜 :=
  krausForm s c (fun k => kroneckerMap (· * ·) (K k) (1 : Matrix a a 𝕜)) ρ

omit [Fintype m] in
/-- `Φ ⊗ id` really is the extension: on product operators it acts on the first factor only. -/
theorem krausFormAnc_kronecker [DecidableEq a] (s : Finset ι) (c : ι → ℝ) (K : ι → Matrix m n 𝕜)
    (A : Matrix n n 𝕜) (B : Matrix a a 𝕜) :
    krausFormAnc s c K (kroneckerMap (· * ·) A B)
      = kroneckerMap (· * ·) (krausForm s c K A) B := by
  unfold krausFormAnc krausForm
  have h : ∀ k, kroneckerMap (· * ·) (K k) (1 : Matrix a a 𝕜) * kroneckerMap (· * ·) A B
        * (kroneckerMap (· * ·) (K k) (1 : Matrix a a 𝕜))ᴴ
      = kroneckerMap (· * ·) (K k * A * (K k)ᴴ) B := by
    intro k
    rw [conjTranspose_kronecker, ← mul_kronecker_mul, ← mul_kronecker_mul]
    simp
  simp only [h]
  ext ⟨i, x⟩ ⟨j, y⟩
  simp [Matrix.sum_apply, Finset.sum_mul]

/-- **complete positivity**: for every ancilla `a`, `Φ ⊗ id_a` maps PSD to PSD. -/
theorem krausFormAnc_posSemidef [DecidableEq a] (s : Finset ι) (c : ι → ℝ)
    (hc : ∀ k ∈ s, 0 ≤ c k) (K : ι → Matrix m n 𝕜) {ρ : Matrix (n × a) (n × a) 𝕜}
    (hρ : ρ.PosSemidef) : (krausFormAnc s c K ρ).PosSemidef :=
  krausForm_posSemidef s c hc _ hρ

end QV.CP
