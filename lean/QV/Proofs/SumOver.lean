/-
  QV.Proofs.SumOver — algebra of `sumOver`, `Lab.idx`, `Lab.set` (part A of the simulator
  lemmas).  Everything is unbounded in the number of qubits: labels are total functions
  `Nat → Bool`, no register size appears.

  Main results
    * `sumOver_add`, `sumOver_mul_left`, `sumOver_mul_right`, `sumOver_congr`,
      `sumOver_agree`, `sumOver_append`, `sumOver_perm`, `sumOver_comm`
    * `Lab.idx_cons`, `Lab.idx_lt`, `Lab.idx_congr`
    * `Lab.wIdx` (recursive twin of `Lab.withIdx`), `Lab.idx_wIdx`, `Lab.wIdx_idx`,
      `Lab.withIdx_eq_wIdx`, `Lab.idx_withIdx`, `Lab.withIdx_idx`
    * `sumOver_eq_sum`, `sumOver_eq_sum_withIdx` : re-indexing of `sumOver` as a `Finset.sum`
      over local indices.
-/
import Mathlib.Algebra.BigOperators.Group.Finset.Basic
import Mathlib.Algebra.BigOperators.Group.Finset.Sigma
import Mathlib.Algebra.BigOperators.Group.Finset.Piecewise
import Mathlib.Algebra.BigOperators.Ring.Finset
import Mathlib.Algebra.Ring.Defs
import Mathlib.Data.List.Perm.Subperm
import Mathlib.Tactic.Ring
import QV.Core.Bits

namespace QV

open Finset

/-! ### `Lab.set` -/

namespace Lab

@[simp] theorem set_same (x : Lab) (q : Nat) (b : Bool) : (x.set q b) q = b := by
  simp [Lab.set]

theorem set_other (x : Lab) {q r : Nat} (b : Bool) (h : r ≠ q) : (x.set q b) r = x r := by
  simp [Lab.set, h]

theorem set_apply (x : Lab) (q r : Nat) (b : Bool) :
    (x.set q b) r = if r = q then b else x r := rfl

theorem set_comm (x : Lab) {p q : Nat} (a b : Bool) (h : p ≠ q) :
    (x.set p a).set q b = (x.set q b).set p a := by
  funext r
  simp only [Lab.set]
  split_ifs with h1 h2 h2 <;> first | rfl | exact absurd (h2.symm.trans h1) h

theorem set_set (x : Lab) (q : Nat) (a b : Bool) : (x.set q a).set q b = x.set q b := by
  funext r
  simp only [Lab.set]
  by_cases h1 : r = q <;> simp [h1]

theorem set_self (x : Lab) (q : Nat) : x.set q (x q) = x := by
  funext r
  simp only [Lab.set]
  by_cases h1 : r = q <;> simp [h1]

/-! ### `Lab.idx` -/

theorem idx_foldl (x : Lab) (qs : List Nat) (acc : Nat) :
    qs.foldl (fun acc q => 2 * acc + (if x q then 1 else 0)) acc
      = acc * 2 ^ qs.length + idx qs x := by
  induction qs generalizing acc with
  | nil => simp [idx]
  | cons q qs ih =>
    simp only [List.foldl_cons, List.length_cons, idx]
    rw [ih, ih (2 * 0 + _), pow_succ]
    ring

@[simp] theorem idx_nil (x : Lab) : idx [] x = 0 := rfl

theorem idx_cons (q : Nat) (qs : List Nat) (x : Lab) :
    idx (q :: qs) x = (if x q then 1 else 0) * 2 ^ qs.length + idx qs x := by
  show (q :: qs).foldl _ 0 = _
  rw [List.foldl_cons, idx_foldl, Nat.mul_zero, Nat.zero_add]

theorem idx_lt (qs : List Nat) (x : Lab) : idx qs x < 2 ^ qs.length := by
  induction qs with
  | nil => simp
  | cons q qs ih =>
    rw [idx_cons, List.length_cons, pow_succ]
    split <;> omega

theorem idx_congr {qs : List Nat} {x y : Lab} (h : ∀ r ∈ qs, x r = y r) :
    idx qs x = idx qs y := by
  induction qs with
  | nil => rfl
  | cons q qs ih =>
    rw [idx_cons, idx_cons, h q (List.mem_cons_self ..),
      ih (fun r hr => h r (List.mem_cons_of_mem _ hr))]

theorem idx_set_of_not_mem {qs : List Nat} {q : Nat} (x : Lab) (b : Bool) (h : q ∉ qs) :
    idx qs (x.set q b) = idx qs x :=
  idx_congr fun _ hr => set_other x b (fun e => h (e ▸ hr))

theorem allOne_congr {cs : List Nat} {x y : Lab} (h : ∀ r ∈ cs, x r = y r) :
    allOne cs x = allOne cs y := by
  induction cs with
  | nil => rfl
  | cons c cs ih =>
    simp only [allOne, List.all_cons] at ih ⊢
    rw [h c (List.mem_cons_self ..), ih (fun r hr => h r (List.mem_cons_of_mem _ hr))]

/-! ### `Lab.wIdx` : label from a local index -/

/-- label whose bits on the ordered list `qs` spell the local index `k` (first listed = most
significant) and whose other bits are those of `x`.  Recursive twin of `Lab.withIdx`
(see `withIdx_eq_wIdx`). -/
def wIdx (x : Lab) : List Nat → Nat → Lab
  | [], _ => x
  | q :: qs, k => (wIdx x qs (k % 2 ^ qs.length)).set q (k / 2 ^ qs.length % 2 == 1)

@[simp] theorem wIdx_nil (x : Lab) (k : Nat) : wIdx x [] k = x := rfl

theorem wIdx_cons (x : Lab) (q : Nat) (qs : List Nat) (k : Nat) :
    wIdx x (q :: qs) k = (wIdx x qs (k % 2 ^ qs.length)).set q (k / 2 ^ qs.length % 2 == 1) :=
  rfl

theorem wIdx_of_not_mem (x : Lab) {qs : List Nat} (k : Nat) {r : Nat} (h : r ∉ qs) :
    wIdx x qs k r = x r := by
  induction qs generalizing k with
  | nil => rfl
  | cons q qs ih =>
    have e : r ≠ q := fun e => h (e ▸ List.mem_cons_self ..)
    rw [wIdx_cons, set_other _ _ e]
    exact ih _ (fun hr => h (List.mem_cons_of_mem _ hr))

/-- on the listed qubits the result does not depend on the base label. -/
theorem wIdx_of_mem (x x' : Lab) {qs : List Nat} (k : Nat) {r : Nat} (h : r ∈ qs) :
    wIdx x qs k r = wIdx x' qs k r := by
  induction qs generalizing k with
  | nil => cases h
  | cons q qs ih =>
    rw [wIdx_cons, wIdx_cons]
    by_cases e : r = q
    · subst e; simp
    · rw [set_other _ _ e, set_other _ _ e]
      exact ih _ ((List.mem_cons.mp h).resolve_left e)

theorem wIdx_agree {x x' : Lab} {qs : List Nat} (k : Nat) (h : ∀ r, r ∉ qs → x r = x' r) :
    wIdx x qs k = wIdx x' qs k := by
  funext r
  by_cases hr : r ∈ qs
  · exact wIdx_of_mem x x' k hr
  · rw [wIdx_of_not_mem _ _ hr, wIdx_of_not_mem _ _ hr, h r hr]

theorem wIdx_wIdx (x : Lab) (qs : List Nat) (j k : Nat) :
    wIdx (wIdx x qs j) qs k = wIdx x qs k :=
  wIdx_agree k fun _ hr => wIdx_of_not_mem x j hr

theorem wIdx_set_of_not_mem (x : Lab) {qs : List Nat} (k : Nat) {q : Nat} (b : Bool)
    (h : q ∉ qs) : wIdx (x.set q b) qs k = (wIdx x qs k).set q b := by
  funext r
  by_cases hr : r ∈ qs
  · have e : r ≠ q := fun e => h (e ▸ hr)
    rw [set_other _ _ e]
    exact wIdx_of_mem _ _ k hr
  · rw [wIdx_of_not_mem _ _ hr, set_apply, set_apply, wIdx_of_not_mem _ _ hr]

theorem wIdx_comm (x : Lab) {ps qs : List Nat} (j k : Nat) (h : ∀ r, r ∈ ps → r ∉ qs) :
    wIdx (wIdx x ps j) qs k = wIdx (wIdx x qs k) ps j := by
  funext r
  by_cases hq : r ∈ qs
  · have hp : r ∉ ps := fun hp => h r hp hq
    rw [wIdx_of_not_mem _ _ hp]
    exact wIdx_of_mem _ _ k hq
  · rw [wIdx_of_not_mem _ _ hq]
    by_cases hp : r ∈ ps
    · exact wIdx_of_mem _ _ j hp
    · rw [wIdx_of_not_mem _ _ hp, wIdx_of_not_mem _ _ hp, wIdx_of_not_mem _ _ hq]

theorem idx_wIdx_of_disjoint (x : Lab) {ps qs : List Nat} (k : Nat)
    (h : ∀ r, r ∈ ps → r ∉ qs) : idx ps (wIdx x qs k) = idx ps x :=
  idx_congr fun r hr => wIdx_of_not_mem x k (h r hr)

theorem allOne_wIdx_of_disjoint (x : Lab) {cs qs : List Nat} (k : Nat)
    (h : ∀ r, r ∈ cs → r ∉ qs) : allOne cs (wIdx x qs k) = allOne cs x :=
  allOne_congr fun r hr => wIdx_of_not_mem x k (h r hr)

/-- `idx` inverts `wIdx` on a duplicate-free list. -/
theorem idx_wIdx (x : Lab) {qs : List Nat} (hn : qs.Nodup) {k : Nat} (hk : k < 2 ^ qs.length) :
    idx qs (wIdx x qs k) = k := by
  induction qs generalizing k with
  | nil => simp at hk; simp [hk]
  | cons q qs ih =>
    have hq : q ∉ qs := (List.nodup_cons.mp hn).1
    rw [idx_cons, wIdx_cons, set_same, idx_set_of_not_mem _ _ hq,
      ih (List.nodup_cons.mp hn).2 (Nat.mod_lt _ (Nat.two_pow_pos _))]
    rw [List.length_cons, pow_succ] at hk
    generalize 2 ^ qs.length = m at hk ⊢
    have h2 : k / m < 2 := Nat.div_lt_of_lt_mul (by omega)
    have h3 := Nat.div_add_mod k m
    have h4 : k / m = 0 ∨ k / m = 1 := by
      revert h2; generalize k / m = d; omega
    rcases h4 with h4 | h4 <;> rw [h4] at h3 ⊢ <;> simp <;> omega

/-- `wIdx` inverts `idx` (no duplicate-freeness needed: the first occurrence wins in both). -/
theorem wIdx_idx (x : Lab) (qs : List Nat) : wIdx x qs (idx qs x) = x := by
  induction qs with
  | nil => rfl
  | cons q qs ih =>
    have hlt := idx_lt qs x
    rw [wIdx_cons, idx_cons]
    have h1 : ((if x q then 1 else 0) * 2 ^ qs.length + idx qs x) % 2 ^ qs.length = idx qs x := by
      rw [Nat.mul_add_mod_self_right, Nat.mod_eq_of_lt hlt]
    have h2 : ((if x q then 1 else 0) * 2 ^ qs.length + idx qs x) / 2 ^ qs.length
        = (if x q then 1 else 0) := by
      rw [Nat.add_comm, Nat.add_mul_div_right _ _ (Nat.two_pow_pos _), Nat.div_eq_of_lt hlt,
        Nat.zero_add]
    rw [h1, h2, ih]
    have : ((if x q then 1 else 0) % 2 == 1) = x q := by cases x q <;> rfl
    rw [this, set_self]

/-! ### the closed form `Lab.withIdx` of Bits.lean -/

theorem shiftBit_eq_testBit (a m : Nat) : ((a >>> m) % 2 == 1) = a.testBit m := by
  rw [Nat.testBit_eq_decide_div_mod_eq, Nat.shiftRight_eq_div_pow]
  by_cases h : a / 2 ^ m % 2 = 1 <;> simp [h]

theorem idxOf?_lt {qs : List Nat} {r p : Nat} (h : qs.idxOf? r = some p) : p < qs.length := by
  unfold List.idxOf? at h
  exact (List.findIdx?_eq_some_iff_getElem.mp h).1

/-- the model's closed-form `Lab.withIdx` coincides with the recursive `Lab.wIdx`. -/
theorem withIdx_eq_wIdx (x : Lab) (qs : List Nat) (k : Nat) : withIdx x qs k = wIdx x qs k := by
  funext r
  induction qs generalizing k with
  | nil => rfl
  | cons q qs ih =>
    rw [wIdx_cons, set_apply, ← ih]
    unfold withIdx
    rw [List.idxOf?_cons]
    by_cases e : r = q
    · subst e
      simp [Nat.shiftRight_eq_div_pow]
    · have e' : ¬ q = r := fun h => e h.symm
      simp only [beq_iff_eq, e', if_false, e]
      cases hp : List.idxOf? r qs with
      | none => rfl
      | some p =>
        have hlt := idxOf?_lt hp
        simp only [Option.map_some, List.length_cons]
        rw [shiftBit_eq_testBit, shiftBit_eq_testBit, Nat.testBit_mod_two_pow]
        have h1 : qs.length + 1 - 1 - (p + 1) = qs.length - 1 - p := by omega
        have h2 : qs.length - 1 - p < qs.length := by omega
        rw [h1]
        simp [h2]

theorem idx_withIdx (x : Lab) {qs : List Nat} (hn : qs.Nodup) {k : Nat}
    (hk : k < 2 ^ qs.length) : idx qs (withIdx x qs k) = k := by
  rw [withIdx_eq_wIdx]; exact idx_wIdx x hn hk

theorem withIdx_idx (x : Lab) (qs : List Nat) : withIdx x qs (idx qs x) = x := by
  rw [withIdx_eq_wIdx]; exact wIdx_idx x qs

end Lab

/-! ### `sumOver` -/

section Basic
variable {α : Type}

@[simp] theorem sumOver_nil [Zero α] [Add α] (f : Lab → α) (x : Lab) : sumOver [] f x = f x := rfl

theorem sumOver_cons [Zero α] [Add α] (q : Nat) (qs : List Nat) (f : Lab → α) (x : Lab) :
    sumOver (q :: qs) f x = sumOver qs f (x.set q false) + sumOver qs f (x.set q true) := rfl

theorem sumOver_append [Zero α] [Add α] (ps qs : List Nat) (f : Lab → α) (x : Lab) :
    sumOver (ps ++ qs) f x = sumOver ps (sumOver qs f) x := by
  induction ps generalizing x with
  | nil => rfl
  | cons p ps ih => simp only [List.cons_append, sumOver_cons, ih]

/-- `f` and `g` need only agree on labels that agree with `x` off `qs`. -/
theorem sumOver_congr [Zero α] [Add α] {qs : List Nat} {f g : Lab → α} {x : Lab}
    (h : ∀ y : Lab, (∀ r, r ∉ qs → y r = x r) → f y = g y) :
    sumOver qs f x = sumOver qs g x := by
  induction qs generalizing x with
  | nil => exact h x (fun _ _ => rfl)
  | cons q qs ih =>
    have key : ∀ b, sumOver qs f (x.set q b) = sumOver qs g (x.set q b) := fun b =>
      ih fun y hy => h y fun r hr => by
        rw [hy r (fun hr' => hr (List.mem_cons_of_mem _ hr'))]
        exact Lab.set_other x b (fun e => hr (e ▸ List.mem_cons_self ..))
    rw [sumOver_cons, sumOver_cons, key, key]

/-- the sum does not depend on the bits of `x` at the summed qubits. -/
theorem sumOver_agree [Zero α] [Add α] {qs : List Nat} (f : Lab → α) {x x' : Lab}
    (h : ∀ r, r ∉ qs → x r = x' r) : sumOver qs f x = sumOver qs f x' := by
  induction qs generalizing x x' with
  | nil =>
    have : x = x' := funext fun r => h r (by simp)
    rw [this]
  | cons q qs ih =>
    have key : ∀ b, sumOver qs f (x.set q b) = sumOver qs f (x'.set q b) := fun b =>
      ih fun r hr => by
        by_cases e : r = q
        · subst e; simp
        · rw [Lab.set_other _ _ e, Lab.set_other _ _ e]
          exact h r (fun hm => (List.mem_cons.mp hm).elim e hr)
    rw [sumOver_cons, sumOver_cons, key, key]

theorem sumOver_set_of_mem [Zero α] [Add α] {qs : List Nat} (f : Lab → α) (x : Lab) {q : Nat}
    (b : Bool) (h : q ∈ qs) : sumOver qs f (x.set q b) = sumOver qs f x :=
  sumOver_agree f fun _ hr => Lab.set_other x b (fun e => hr (e ▸ h))

theorem sumOver_wIdx [Zero α] [Add α] (qs : List Nat) (f : Lab → α) (x : Lab) (k : Nat) :
    sumOver qs f (Lab.wIdx x qs k) = sumOver qs f x :=
  sumOver_agree f fun _ hr => Lab.wIdx_of_not_mem x k hr

/-- a summand that is read at a qubit outside `qs` can be moved through the sum. -/
theorem sumOver_set_of_not_mem [Zero α] [Add α] {qs : List Nat} (f : Lab → α) (x : Lab)
    {q : Nat} (b : Bool) (h : q ∉ qs) :
    sumOver qs (fun y => f (y.set q b)) x = sumOver qs f (x.set q b) := by
  induction qs generalizing x with
  | nil => rfl
  | cons p qs ih =>
    have hp : p ≠ q := fun e => h (e ▸ List.mem_cons_self ..)
    have hq : q ∉ qs := fun hm => h (List.mem_cons_of_mem _ hm)
    simp only [sumOver_cons, ih _ hq, Lab.set_comm x _ _ hp]

theorem sumOver_zero [AddMonoid α] (qs : List Nat) (x : Lab) :
    sumOver qs (fun _ => (0 : α)) x = 0 := by
  induction qs generalizing x with
  | nil => rfl
  | cons q qs ih => rw [sumOver_cons, ih, ih, add_zero]

theorem sumOver_add [AddCommMonoid α] (qs : List Nat) (f g : Lab → α) (x : Lab) :
    sumOver qs (fun y => f y + g y) x = sumOver qs f x + sumOver qs g x := by
  induction qs generalizing x with
  | nil => rfl
  | cons q qs ih => simp only [sumOver_cons, ih, add_add_add_comm]

theorem sumOver_mul_left [NonUnitalNonAssocSemiring α] (qs : List Nat) (c : α) (f : Lab → α)
    (x : Lab) : sumOver qs (fun y => c * f y) x = c * sumOver qs f x := by
  induction qs generalizing x with
  | nil => rfl
  | cons q qs ih => simp only [sumOver_cons, ih, mul_add]

theorem sumOver_mul_right [NonUnitalNonAssocSemiring α] (qs : List Nat) (c : α) (f : Lab → α)
    (x : Lab) : sumOver qs (fun y => f y * c) x = sumOver qs f x * c := by
  induction qs generalizing x with
  | nil => rfl
  | cons q qs ih => simp only [sumOver_cons, ih, add_mul]

/-- a map that preserves `+` commutes with `sumOver`. -/
theorem sumOver_hom {β : Type} [Zero α] [Add α] [Zero β] [Add β] (φ : α → β)
    (hadd : ∀ a b, φ (a + b) = φ a + φ b) (qs : List Nat) (f : Lab → α) (x : Lab) :
    φ (sumOver qs f x) = sumOver qs (fun y => φ (f y)) x := by
  induction qs generalizing x with
  | nil => rfl
  | cons q qs ih => simp only [sumOver_cons, hadd, ih]

/-- the order of the summed qubits is irrelevant. -/
theorem sumOver_perm [AddCommMonoid α] {ps qs : List Nat} (h : ps.Perm qs) (f : Lab → α)
    (x : Lab) : sumOver ps f x = sumOver qs f x := by
  induction h generalizing x with
  | nil => rfl
  | cons q _ ih => simp only [sumOver_cons, ih]
  | swap a b l =>
    by_cases e : a = b
    · subst e; rfl
    · simp only [sumOver_cons, Lab.set_comm x _ _ e]
      rw [add_add_add_comm]
  | trans _ _ ih1 ih2 => rw [ih1, ih2]

/-- Fubini for `sumOver`. -/
theorem sumOver_comm [AddCommMonoid α] (ps qs : List Nat) (f : Lab → α) (x : Lab) :
    sumOver ps (sumOver qs f) x = sumOver qs (sumOver ps f) x := by
  rw [← sumOver_append, ← sumOver_append]
  exact sumOver_perm List.perm_append_comm f x

end Basic

/-! ### re-indexing as a `Finset.sum` -/

section Reindex
variable {α : Type} [AddCommMonoid α]

/-- **Re-indexing.**  On a duplicate-free qubit list the sum over assignments is the sum over
local indices `k < 2 ^ |qs|`. -/
theorem sumOver_eq_sum {qs : List Nat} (hn : qs.Nodup) (f : Nat → Lab → α) (x : Lab) :
    sumOver qs (fun y => f (Lab.idx qs y) y) x
      = ∑ k ∈ range (2 ^ qs.length), f k (Lab.wIdx x qs k) := by
  induction qs generalizing f x with
  | nil => simp
  | cons q qs ih =>
    have hq : q ∉ qs := (List.nodup_cons.mp hn).1
    have hn' : qs.Nodup := (List.nodup_cons.mp hn).2
    have key : ∀ b : Bool, sumOver qs (fun y => f (Lab.idx (q :: qs) y) y) (x.set q b)
        = ∑ k ∈ range (2 ^ qs.length),
            f ((if b then 1 else 0) * 2 ^ qs.length + k) ((Lab.wIdx x qs k).set q b) := by
      intro b
      rw [← funext fun k => congrArg _ (Lab.wIdx_set_of_not_mem x k b hq),
        ← ih hn' (fun k y => f ((if b then 1 else 0) * 2 ^ qs.length + k) y)]
      apply sumOver_congr
      intro y hy
      rw [Lab.idx_cons, hy q hq, Lab.set_same]
    rw [sumOver_cons, key, key, List.length_cons, pow_succ, mul_two, sum_range_add]
    congr 1
    · apply sum_congr rfl
      intro k hk
      have hk' : k < 2 ^ qs.length := mem_range.mp hk
      rw [Lab.wIdx_cons, Nat.mod_eq_of_lt hk', Nat.div_eq_of_lt hk']
      simp
    · apply sum_congr rfl
      intro k hk
      have hk' : k < 2 ^ qs.length := mem_range.mp hk
      rw [Lab.wIdx_cons, Nat.add_mod_left, Nat.mod_eq_of_lt hk',
        Nat.add_div_left _ (Nat.two_pow_pos _), Nat.div_eq_of_lt hk']
      simp

/-- special case: a summand that does not look at the local index. -/
theorem sumOver_eq_sum' {qs : List Nat} (hn : qs.Nodup) (f : Lab → α) (x : Lab) :
    sumOver qs f x = ∑ k ∈ range (2 ^ qs.length), f (Lab.wIdx x qs k) :=
  sumOver_eq_sum hn (fun _ y => f y) x

/-- re-indexing, phrased with the closed-form `Lab.withIdx` of QV/Core/Bits.lean. -/
theorem sumOver_eq_sum_withIdx {qs : List Nat} (hn : qs.Nodup) (f : Nat → Lab → α) (x : Lab) :
    sumOver qs (fun y => f (Lab.idx qs y) y) x
      = ∑ k ∈ range (2 ^ qs.length), f k (Lab.withIdx x qs k) := by
  simp only [Lab.withIdx_eq_wIdx]
  exact sumOver_eq_sum hn f x

end Reindex

end QV
