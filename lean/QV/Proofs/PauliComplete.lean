/-
  QV.Proofs.PauliComplete — completeness of the n-qubit Pauli basis of QV.Model.Superop
  (`Σ_k P_k[i,j] · conj P_k[i',j'] = 2ⁿ δ_ii' δ_jj'`, by induction on the Kronecker structure,
  any `pauli_order`), hence `B† B = 2ⁿ·1` for the comp→Pauli matrix `B`, and the round trips
  `pauli_to_liouville ∘ liouville_to_pauli`, `chi_to_choi ∘ choi_to_chi` with the exact scalar
  for every combination of the `normalize` flags; path independence `kraus_to_chi =
  choi_to_chi ∘ kraus_to_choi`; action of the Pauli-Liouville matrix on Pauli coefficient
  vectors.

  The matrix algebra is done on `Matrix (Fin N) (Fin N) α` (transport `toM`); the model's matrices
  are functions on ℕ indices of which only the block `[0,N)²` is meaningful.
-/
import Mathlib.Algebra.BigOperators.Group.Finset.Basic
import Mathlib.Algebra.BigOperators.Ring.Finset
import Mathlib.Algebra.BigOperators.Intervals
import Mathlib.Algebra.BigOperators.Fin
import Mathlib.Algebra.Ring.Defs
import Mathlib.Tactic.Ring
import Mathlib.Tactic.IntervalCases
import Mathlib.Tactic.LinearCombination
import Mathlib.Data.Matrix.Mul
import Mathlib.Data.Matrix.Basic
import Mathlib.LinearAlgebra.Matrix.NonsingularInverse
import QV.Proofs.PauliBasis

namespace QV.Superop
open Finset

variable {α : Type} [CommRing α]

/-! ### completeness of the single-qubit basis -/

/-- `Σ_p σ_p[i,j] · conj σ_p[i',j']` over the four single-qubit basis elements. -/
def compl1 (conj : α → α) (im : α) (i j i' j' : Nat) : α :=
  ∑ p ∈ range 4, pauli1 im p i j * conj (pauli1 im p i' j')

theorem compl1_eq {conj : α → α} {im : α} (h : ConjOK conj im) {i j i' j' : Nat}
    (hi : i < 2) (hj : j < 2) (hi' : i' < 2) (hj' : j' < 2) :
    compl1 conj im i j i' j' = if i = i' ∧ j = j' then 2 else 0 := by
  have hs := h.im_sq
  interval_cases i <;> interval_cases j <;> interval_cases i' <;> interval_cases j' <;>
    simp [compl1, pauli1, Finset.sum_range_succ, h.zero, h.one, h.neg, h.conj_im] <;>
    first
      | ring1
      | (linear_combination (-1 : α) * hs)
      | (linear_combination (1 : α) * hs)
      | (linear_combination (-2 : α) * hs)
      | (linear_combination (2 : α) * hs)

/-- a sum over the positions of a valid `pauli_order` is a sum over the four canonical codes. -/
theorem sum_po {po : List Nat} (hpo : ValidPO po) (f : Nat → α) :
    ∑ b ∈ range 4, f (po.getD b 0) = ∑ p ∈ range 4, f p := by
  have hinj : Set.InjOn (fun b => po.getD b 0) (range 4 : Finset Nat) := by
    intro a ha b hb e
    exact hpo.2 a (mem_range.mp (Finset.mem_coe.mp ha)) b (mem_range.mp (Finset.mem_coe.mp hb)) e
  have himg : (range 4).image (fun b => po.getD b 0) = range 4 := by
    apply Finset.eq_of_subset_of_card_le
    · intro p hp
      obtain ⟨b, hb, rfl⟩ := mem_image.mp hp
      exact mem_range.mpr (hpo.1 b (mem_range.mp hb))
    · rw [card_image_of_injOn hinj]
  have := Finset.sum_image (f := f) (s := range 4) (g := fun b => po.getD b 0) hinj
  rw [himg] at this
  exact this.symm

/-! ### completeness of the n-qubit basis -/

/-- `Σ_k P_k[i,j] · conj P_k[i',j']` over the `4ⁿ` basis elements. -/
def complN (conj : α → α) (im : α) (po : List Nat) (n i j i' j' : Nat) : α :=
  ∑ k ∈ range (4 ^ n), pauliN im po n k i j * conj (pauliN im po n k i' j')

theorem complN_zero {conj : α → α} {im : α} (h : ConjOK conj im) (po : List Nat) :
    complN conj im po 0 0 0 0 0 = 1 := by
  simp [complN, pauliN, h.one]

/-- Kronecker step: the completeness sum factorises over the last qubit. -/
theorem complN_succ {conj : α → α} {im : α} (h : ConjOK conj im) {po : List Nat}
    (hpo : ValidPO po) (n i j i' j' : Nat) :
    complN conj im po (n + 1) i j i' j'
      = complN conj im po n (i / 2) (j / 2) (i' / 2) (j' / 2)
        * compl1 conj im (i % 2) (j % 2) (i' % 2) (j' % 2) := by
  have hc1 : compl1 conj im (i % 2) (j % 2) (i' % 2) (j' % 2)
      = ∑ b ∈ range 4, pauli1 im (po.getD b 0) (i % 2) (j % 2)
          * conj (pauli1 im (po.getD b 0) (i' % 2) (j' % 2)) :=
    (sum_po hpo (fun p => pauli1 im p (i % 2) (j % 2) * conj (pauli1 im p (i' % 2) (j' % 2)))).symm
  rw [hc1]
  simp only [complN, Nat.pow_succ, sum_range_mul]
  rw [Finset.sum_mul_sum]
  refine Finset.sum_congr rfl (fun a _ => Finset.sum_congr rfl (fun b hb => ?_))
  have hb' := mem_range.mp hb
  simp only [pauliN, mul_add_div' a hb', mul_add_mod' a hb', h.mul]
  ring

/-- completeness of the n-qubit Pauli strings, every `pauli_order`, every `n`. -/
theorem complN_eq {conj : α → α} {im : α} (h : ConjOK conj im) {po : List Nat} (hpo : ValidPO po) :
    ∀ (n i j i' j' : Nat), i < 2 ^ n → j < 2 ^ n → i' < 2 ^ n → j' < 2 ^ n →
      complN conj im po n i j i' j' = if i = i' ∧ j = j' then (2 : α) ^ n else 0
  | 0, i, j, i', j', hi, hj, hi', hj' => by
    simp at hi hj hi' hj'
    subst hi; subst hj; subst hi'; subst hj'
    simp [complN_zero h]
  | n + 1, i, j, i', j', hi, hj, hi', hj' => by
    rw [Nat.pow_succ] at hi hj hi' hj'
    rw [complN_succ h hpo,
      complN_eq h hpo n (i / 2) (j / 2) (i' / 2) (j' / 2) (by omega) (by omega) (by omega) (by omega),
      compl1_eq h (Nat.mod_lt _ (by decide)) (Nat.mod_lt _ (by decide)) (Nat.mod_lt _ (by decide))
        (Nat.mod_lt _ (by decide))]
    by_cases e : i = i' ∧ j = j'
    · obtain ⟨e1, e2⟩ := e
      subst e1; subst e2
      simp [pow_succ]
    · rw [if_neg e]
      by_cases e1 : i / 2 = i' / 2 ∧ j / 2 = j' / 2
      · have e2 : ¬ (i % 2 = i' % 2 ∧ j % 2 = j' % 2) := by
          intro e2; apply e; omega
        rw [if_neg e2, mul_zero]
      · rw [if_neg e1, zero_mul]

/-- `B† B = 2ⁿ · 1` for the un-normalised `comp_basis_to_pauli` matrix, for every number of
qubits, every vectorisation order and every `pauli_order`. -/
theorem conjT_compToPauli_mul {conj : α → α} {im : α} (h : ConjOK conj im) {po : List Nat}
    (hpo : ValidPO po) (o : Order) (n : Nat) {m m' : Nat} (hm : m < 4 ^ n) (hm' : m' < 4 ^ n) :
    matMul (4 ^ n) (conjT conj (compToPauli conj im po o n)) (compToPauli conj im po o n) m m'
      = if m = m' then (2 : α) ^ n else 0 := by
  have hw : WF o (2 ^ n) n := by
    cases o with
    | row => trivial
    | column => trivial
    | system => rfl
  have hm2 : m < 2 ^ n * 2 ^ n := by rw [← four_pow]; exact hm
  have hm2' : m' < 2 ^ n * 2 ^ n := by rw [← four_pow]; exact hm'
  have key := complN_eq h hpo n _ _ _ _ (rowOf_lt o hw hm2) (colOf_lt o hw hm2)
    (rowOf_lt o hw hm2') (colOf_lt o hw hm2')
  have hiff : (rowOf o (2 ^ n) n m = rowOf o (2 ^ n) n m' ∧ colOf o (2 ^ n) n m = colOf o (2 ^ n) n m')
      ↔ m = m' := by
    constructor
    · rintro ⟨e1, e2⟩
      rw [← vecIdx_rowOf_colOf o hw hm2, ← vecIdx_rowOf_colOf o hw hm2', e1, e2]
    · rintro rfl; exact ⟨rfl, rfl⟩
  simp only [hiff] at key
  rw [← key]
  simp only [matMul, conjT, compToPauli, vectorization, sumRange_eq_sum, h.invol, complN]

/-! ### transport to `Matrix (Fin N) (Fin N) α` -/

/-- the `[0,N)²` block of a matrix on ℕ indices. -/
def toM (N : Nat) (A : Mat α) : Matrix (Fin N) (Fin N) α := Matrix.of fun i j => A i.1 j.1

/-- the `[0,N)` block of a vector on ℕ indices. -/
def toV (N : Nat) (v : Nat → α) : Fin N → α := fun i => v i.1

theorem toM_apply (N : Nat) (A : Mat α) (i j : Fin N) : toM N A i j = A i.1 j.1 := rfl

theorem toM_matMul (N : Nat) (A B : Mat α) : toM N (matMul N A B) = toM N A * toM N B := by
  ext i j
  simp only [toM_apply, matMul, Matrix.mul_apply, sumRange_eq_sum]
  exact (Fin.sum_univ_eq_sum_range (fun k => A i.1 k * B k j.1) N).symm

theorem toV_matVec (N : Nat) (A : Mat α) (v : Nat → α) :
    toV N (matVec N A v) = (toM N A).mulVec (toV N v) := by
  funext i
  simp only [toV, matVec, Matrix.mulVec, dotProduct, toM_apply, sumRange_eq_sum]
  exact (Fin.sum_univ_eq_sum_range (fun k => A i.1 k * v k) N).symm

theorem toM_eq_iff (N : Nat) (A B : Mat α) :
    toM N A = toM N B ↔ ∀ r c, r < N → c < N → A r c = B r c := by
  constructor
  · intro e r c hr hc
    have := congrFun (congrFun e ⟨r, hr⟩) ⟨c, hc⟩
    simpa [toM_apply] using this
  · intro e
    ext i j
    exact e i.1 j.1 i.2 j.2

theorem toV_eq_iff (N : Nat) (u v : Nat → α) :
    toV N u = toV N v ↔ ∀ k, k < N → u k = v k := by
  constructor
  · intro e k hk
    exact congrFun e ⟨k, hk⟩
  · intro e
    funext i
    exact e i.1 i.2

theorem toM_scalar_iff (N : Nat) (A : Mat α) (c : α) :
    toM N A = c • (1 : Matrix (Fin N) (Fin N) α)
      ↔ ∀ k l, k < N → l < N → A k l = if k = l then c else 0 := by
  constructor
  · intro e k l hk hl
    have := congrFun (congrFun e ⟨k, hk⟩) ⟨l, hl⟩
    simpa [toM_apply, Matrix.one_apply, Fin.ext_iff] using this
  · intro e
    ext i j
    simp [toM_apply, e i.1 j.1 i.2 j.2, Matrix.one_apply, Fin.ext_iff]

theorem toM_smul (N : Nat) (c : α) (A : Mat α) :
    toM N (fun r k => c * A r k) = c • toM N A := by
  ext i j; simp [toM_apply]

/-- for square matrices over a commutative ring, `A·A' = c·1` implies `A'·A = c·1` whenever `c` is
not a zero divisor (Mathlib: adjugate / `det`).  Not needed for the Pauli basis (completeness is
proved directly above, over any commutative ring) but it is the general reason. -/
theorem mul_scalar_comm {N : Nat} (A A' : Matrix (Fin N) (Fin N) α) (c : α)
    (hc : ∀ x : α, c * x = 0 → x = 0) (hAA' : A * A' = c • 1) : A' * A = c • 1 := by
  -- `det A` is not a zero divisor
  have hdet : ∀ x : α, A.det * x = 0 → x = 0 := by
    intro x hx
    have h1 : A.det * A'.det = c ^ N := by
      rw [← Matrix.det_mul, hAA', Matrix.det_smul, Matrix.det_one, mul_one, Fintype.card_fin]
    have h2 : c ^ N * x = 0 := by
      rw [← h1]; calc A.det * A'.det * x = A'.det * (A.det * x) := by ring
        _ = 0 := by rw [hx, mul_zero]
    clear h1
    induction N with
    | zero => simpa using h2
    | succ N _ =>
      have : ∀ k : Nat, c ^ k * x = 0 → x = 0 := by
        intro k
        induction k with
        | zero => intro hk; simpa using hk
        | succ k ihk =>
          intro hk
          apply ihk
          apply hc
          rw [← mul_assoc, ← pow_succ']
          exact hk
      exact this _ h2
  -- `det A • A' = c • adj A`
  have h3 : A.det • A' = c • A.adjugate := by
    have := congrArg (fun M => A.adjugate * M) hAA'
    simp only [← Matrix.mul_assoc, Matrix.adjugate_mul, Matrix.smul_mul, Matrix.one_mul,
      Matrix.mul_smul, Matrix.mul_one] at this
    exact this
  have h4 : A.det • (A' * A) = A.det • (c • (1 : Matrix (Fin N) (Fin N) α)) := by
    rw [← Matrix.smul_mul, h3, Matrix.smul_mul, Matrix.adjugate_mul, smul_comm]
  ext i j
  have h5 := congrFun (congrFun h4 i) j
  simp only [Matrix.smul_apply, smul_eq_mul] at h5
  have h6 : A.det * ((A' * A) i j - c * (1 : Matrix (Fin N) (Fin N) α) i j) = 0 := by
    rw [mul_sub, h5, sub_self]
  have := hdet _ h6
  simp only [Matrix.smul_apply, smul_eq_mul]
  exact sub_eq_zero.mp this

/-! ### the two bases are each other's conjugate transpose -/

theorem pauliToComp_eq {conj : α → α} {im : α} (h : ConjOK conj im) (po : List Nat) (o : Order)
    (n : Nat) : pauliToComp im po o n = conjT conj (compToPauli conj im po o n) := by
  funext m k
  simp only [pauliToComp, conjT, compToPauli, h.invol]

theorem conjT_pauliToComp (conj : α → α) (im : α) (po : List Nat) (o : Order) (n : Nat) :
    conjT conj (pauliToComp im po o n) = compToPauli conj im po o n := rfl

/-- `liouville_to_pauli`, `pauli_to_liouville` on the block `[0,4ⁿ)²`, as matrix products. -/
theorem toM_liouvilleToPauli (conj : α → α) (im : α) (po : List Nat) (o : Order) (n : Nat)
    (S : Mat α) :
    toM (4 ^ n) (liouvilleToPauli conj im po o n S)
      = toM (4 ^ n) (compToPauli conj im po o n) * toM (4 ^ n) S
        * toM (4 ^ n) (conjT conj (compToPauli conj im po o n)) := by
  simp only [liouvilleToPauli, toM_matMul]

theorem toM_pauliToLiouville {conj : α → α} {im : α} (h : ConjOK conj im) (po : List Nat)
    (o : Order) (n : Nat) (P : Mat α) :
    toM (4 ^ n) (pauliToLiouville conj im po o n P)
      = toM (4 ^ n) (conjT conj (compToPauli conj im po o n)) * toM (4 ^ n) P
        * toM (4 ^ n) (compToPauli conj im po o n) := by
  simp only [pauliToLiouville, toM_matMul]
  rw [conjT_pauliToComp, pauliToComp_eq h]

theorem toM_B_mul_Bdag {conj : α → α} {im : α} (h : ConjOK conj im) {po : List Nat}
    (hpo : ValidPO po) (o : Order) (n : Nat) :
    toM (4 ^ n) (compToPauli conj im po o n) * toM (4 ^ n) (conjT conj (compToPauli conj im po o n))
      = ((2 : α) ^ n) • 1 := by
  rw [← toM_matMul, toM_scalar_iff]
  intro k l hk hl
  exact compToPauli_mul_conjT h hpo o n hk hl

theorem toM_Bdag_mul_B {conj : α → α} {im : α} (h : ConjOK conj im) {po : List Nat}
    (hpo : ValidPO po) (o : Order) (n : Nat) :
    toM (4 ^ n) (conjT conj (compToPauli conj im po o n)) * toM (4 ^ n) (compToPauli conj im po o n)
      = ((2 : α) ^ n) • 1 := by
  rw [← toM_matMul, toM_scalar_iff]
  intro k l hk hl
  exact conjT_compToPauli_mul h hpo o n hk hl

/-! ### round trips -/

/-- `pauli_to_liouville(liouville_to_pauli(L)) = (2ⁿ)² · L` on the block (both un-normalised). -/
theorem pauli_liouville_roundtrip {conj : α → α} {im : α} (h : ConjOK conj im) {po : List Nat}
    (hpo : ValidPO po) (o : Order) (n : Nat) (L : Mat α) {r c : Nat} (hr : r < 4 ^ n)
    (hc : c < 4 ^ n) :
    pauliToLiouville conj im po o n (liouvilleToPauli conj im po o n L) r c
      = (2 : α) ^ n * (2 : α) ^ n * L r c := by
  have e : toM (4 ^ n) (pauliToLiouville conj im po o n (liouvilleToPauli conj im po o n L))
      = toM (4 ^ n) (fun r c => (2 : α) ^ n * (2 : α) ^ n * L r c) := by
    rw [toM_pauliToLiouville h, toM_liouvilleToPauli, toM_smul]
    have e1 := toM_Bdag_mul_B h hpo o n
    set B := toM (4 ^ n) (compToPauli conj im po o n)
    set Bd := toM (4 ^ n) (conjT conj (compToPauli conj im po o n))
    calc Bd * (B * toM (4 ^ n) L * Bd) * B
        = (Bd * B) * toM (4 ^ n) L * (Bd * B) := by simp only [Matrix.mul_assoc]
      _ = ((2 : α) ^ n * (2 : α) ^ n) • toM (4 ^ n) L := by
          rw [e1]; simp [smul_smul]
  exact (toM_eq_iff _ _ _).mp e r c hr hc

/-- `liouville_to_pauli(pauli_to_liouville(P)) = (2ⁿ)² · P` on the block. -/
theorem liouville_pauli_roundtrip {conj : α → α} {im : α} (h : ConjOK conj im) {po : List Nat}
    (hpo : ValidPO po) (o : Order) (n : Nat) (P : Mat α) {r c : Nat} (hr : r < 4 ^ n)
    (hc : c < 4 ^ n) :
    liouvilleToPauli conj im po o n (pauliToLiouville conj im po o n P) r c
      = (2 : α) ^ n * (2 : α) ^ n * P r c := by
  have e : toM (4 ^ n) (liouvilleToPauli conj im po o n (pauliToLiouville conj im po o n P))
      = toM (4 ^ n) (fun r c => (2 : α) ^ n * (2 : α) ^ n * P r c) := by
    rw [toM_liouvilleToPauli, toM_pauliToLiouville h, toM_smul]
    have e1 := toM_B_mul_Bdag h hpo o n
    set B := toM (4 ^ n) (compToPauli conj im po o n)
    set Bd := toM (4 ^ n) (conjT conj (compToPauli conj im po o n))
    calc B * (Bd * toM (4 ^ n) P * B) * Bd
        = (B * Bd) * toM (4 ^ n) P * (B * Bd) := by simp only [Matrix.mul_assoc]
      _ = ((2 : α) ^ n * (2 : α) ^ n) • toM (4 ^ n) P := by
          rw [e1]; simp [smul_smul]
  exact (toM_eq_iff _ _ _).mp e r c hr hc

/-! ### the `normalize` flag: the basis scaled by a scalar `s` -/

/-- `comp_basis_to_pauli(n, normalize, order, pauli_order)`: `normalize=False` is `s = 1`,
`normalize=True` is `s = 1/√(2ⁿ)` (any `s` with `s² · 2ⁿ = 1`, `conj s = s`). -/
def compToPauliS (conj : α → α) (im : α) (po : List Nat) (o : Order) (n : Nat) (s : α) : Mat α :=
  fun k m => s * compToPauli conj im po o n k m

/-- `pauli_to_comp_basis(n, normalize, …)` with the same convention. -/
def pauliToCompS (im : α) (po : List Nat) (o : Order) (n : Nat) (s : α) : Mat α :=
  fun m k => s * pauliToComp im po o n m k

/-- `liouville_to_pauli(S, normalize, …)` = `B_s S B_s†` (also `choi_to_chi`). -/
def liouvilleToPauliS (conj : α → α) (im : α) (po : List Nat) (o : Order) (n : Nat) (s : α)
    (S : Mat α) : Mat α :=
  let B := compToPauliS conj im po o n s
  matMul (4 ^ n) (matMul (4 ^ n) B S) (conjT conj B)

/-- `pauli_to_liouville(P, normalize, …)` (also `chi_to_choi`). -/
def pauliToLiouvilleS (conj : α → α) (im : α) (po : List Nat) (o : Order) (n : Nat) (s : α)
    (P : Mat α) : Mat α :=
  let Bi := pauliToCompS im po o n s
  matMul (4 ^ n) (matMul (4 ^ n) Bi P) (conjT conj Bi)

/-- `choi_to_chi` and `chi_to_choi` call `liouville_to_pauli` / `pauli_to_liouville`. -/
def choiToChiS (conj : α → α) (im : α) (po : List Nat) (o : Order) (n : Nat) (s : α) (C : Mat α) :
    Mat α := liouvilleToPauliS conj im po o n s C
def chiToChoiS (conj : α → α) (im : α) (po : List Nat) (o : Order) (n : Nat) (s : α) (X : Mat α) :
    Mat α := pauliToLiouvilleS conj im po o n s X

theorem compToPauliS_one (conj : α → α) (im : α) (po : List Nat) (o : Order) (n : Nat) :
    compToPauliS conj im po o n 1 = compToPauli conj im po o n := by
  funext k m; simp [compToPauliS]

theorem pauliToCompS_one (im : α) (po : List Nat) (o : Order) (n : Nat) :
    pauliToCompS im po o n 1 = pauliToComp im po o n := by
  funext k m; simp [pauliToCompS]

theorem liouvilleToPauliS_one (conj : α → α) (im : α) (po : List Nat) (o : Order) (n : Nat)
    (S : Mat α) : liouvilleToPauliS conj im po o n 1 S = liouvilleToPauli conj im po o n S := by
  simp only [liouvilleToPauliS, liouvilleToPauli, compToPauliS_one]

theorem pauliToLiouvilleS_one (conj : α → α) (im : α) (po : List Nat) (o : Order) (n : Nat)
    (P : Mat α) : pauliToLiouvilleS conj im po o n 1 P = pauliToLiouville conj im po o n P := by
  simp only [pauliToLiouvilleS, pauliToLiouville, pauliToCompS_one]

theorem toM_compToPauliS (conj : α → α) (im : α) (po : List Nat) (o : Order) (n : Nat) (s : α) :
    toM (4 ^ n) (compToPauliS conj im po o n s) = s • toM (4 ^ n) (compToPauli conj im po o n) :=
  toM_smul _ s _

theorem toM_conjT_compToPauliS {conj : α → α} {im : α} (h : ConjOK conj im) (po : List Nat)
    (o : Order) (n : Nat) {s : α} (hs : conj s = s) :
    toM (4 ^ n) (conjT conj (compToPauliS conj im po o n s))
      = s • toM (4 ^ n) (conjT conj (compToPauli conj im po o n)) := by
  rw [← toM_smul]
  congr 1
  funext r c
  simp only [conjT, compToPauliS, h.mul, hs]

theorem toM_pauliToCompS {conj : α → α} {im : α} (h : ConjOK conj im) (po : List Nat)
    (o : Order) (n : Nat) (s : α) :
    toM (4 ^ n) (pauliToCompS im po o n s)
      = s • toM (4 ^ n) (conjT conj (compToPauli conj im po o n)) := by
  rw [← pauliToComp_eq h]
  exact toM_smul _ s _

theorem toM_conjT_pauliToCompS {conj : α → α} {im : α} (h : ConjOK conj im) (po : List Nat)
    (o : Order) (n : Nat) {s : α} (hs : conj s = s) :
    toM (4 ^ n) (conjT conj (pauliToCompS im po o n s))
      = s • toM (4 ^ n) (compToPauli conj im po o n) := by
  rw [← toM_smul]
  congr 1
  funext r c
  simp only [conjT, pauliToCompS, h.mul, hs]
  rfl

theorem toM_liouvilleToPauliS {conj : α → α} {im : α} (h : ConjOK conj im) (po : List Nat)
    (o : Order) (n : Nat) {s : α} (hs : conj s = s) (S : Mat α) :
    toM (4 ^ n) (liouvilleToPauliS conj im po o n s S)
      = (s * s) • (toM (4 ^ n) (compToPauli conj im po o n) * toM (4 ^ n) S
        * toM (4 ^ n) (conjT conj (compToPauli conj im po o n))) := by
  simp only [liouvilleToPauliS, toM_matMul, toM_compToPauliS, toM_conjT_compToPauliS h po o n hs,
    Matrix.smul_mul, Matrix.mul_smul, smul_smul]

theorem toM_pauliToLiouvilleS {conj : α → α} {im : α} (h : ConjOK conj im) (po : List Nat)
    (o : Order) (n : Nat) {s : α} (hs : conj s = s) (P : Mat α) :
    toM (4 ^ n) (pauliToLiouvilleS conj im po o n s P)
      = (s * s) • (toM (4 ^ n) (conjT conj (compToPauli conj im po o n)) * toM (4 ^ n) P
        * toM (4 ^ n) (compToPauli conj im po o n)) := by
  simp only [pauliToLiouvilleS, toM_matMul, toM_pauliToCompS h, toM_conjT_pauliToCompS h po o n hs,
    Matrix.smul_mul, Matrix.mul_smul, smul_smul]

/-- the general round trip: `pauli_to_liouville(liouville_to_pauli(L, s₁), s₂) =
(s₁ s₂ 2ⁿ)² · L`, for every pair of scale factors. -/
theorem pauli_liouville_roundtripS {conj : α → α} {im : α} (h : ConjOK conj im) {po : List Nat}
    (hpo : ValidPO po) (o : Order) (n : Nat) {s₁ s₂ : α} (h1 : conj s₁ = s₁) (h2 : conj s₂ = s₂)
    (L : Mat α) {r c : Nat} (hr : r < 4 ^ n) (hc : c < 4 ^ n) :
    pauliToLiouvilleS conj im po o n s₂ (liouvilleToPauliS conj im po o n s₁ L) r c
      = (s₁ * s₁) * (s₂ * s₂) * ((2 : α) ^ n * (2 : α) ^ n) * L r c := by
  have e : toM (4 ^ n) (pauliToLiouvilleS conj im po o n s₂ (liouvilleToPauliS conj im po o n s₁ L))
      = toM (4 ^ n) (fun r c => (s₁ * s₁) * (s₂ * s₂) * ((2 : α) ^ n * (2 : α) ^ n) * L r c) := by
    rw [toM_pauliToLiouvilleS h po o n h2, toM_liouvilleToPauliS h po o n h1, toM_smul]
    have e1 := toM_Bdag_mul_B h hpo o n
    set B := toM (4 ^ n) (compToPauli conj im po o n)
    set Bd := toM (4 ^ n) (conjT conj (compToPauli conj im po o n))
    calc (s₂ * s₂) • (Bd * (s₁ * s₁) • (B * toM (4 ^ n) L * Bd) * B)
        = ((s₂ * s₂) * (s₁ * s₁)) • ((Bd * B) * toM (4 ^ n) L * (Bd * B)) := by
          simp only [Matrix.mul_assoc, Matrix.smul_mul, Matrix.mul_smul, smul_smul]
      _ = _ := by
          rw [e1]; simp only [Matrix.smul_mul, Matrix.mul_smul, smul_smul, Matrix.one_mul,
            Matrix.mul_one]
          congr 1; ring
  exact (toM_eq_iff _ _ _).mp e r c hr hc

theorem liouville_pauli_roundtripS {conj : α → α} {im : α} (h : ConjOK conj im) {po : List Nat}
    (hpo : ValidPO po) (o : Order) (n : Nat) {s₁ s₂ : α} (h1 : conj s₁ = s₁) (h2 : conj s₂ = s₂)
    (P : Mat α) {r c : Nat} (hr : r < 4 ^ n) (hc : c < 4 ^ n) :
    liouvilleToPauliS conj im po o n s₂ (pauliToLiouvilleS conj im po o n s₁ P) r c
      = (s₁ * s₁) * (s₂ * s₂) * ((2 : α) ^ n * (2 : α) ^ n) * P r c := by
  have e : toM (4 ^ n) (liouvilleToPauliS conj im po o n s₂ (pauliToLiouvilleS conj im po o n s₁ P))
      = toM (4 ^ n) (fun r c => (s₁ * s₁) * (s₂ * s₂) * ((2 : α) ^ n * (2 : α) ^ n) * P r c) := by
    rw [toM_liouvilleToPauliS h po o n h2, toM_pauliToLiouvilleS h po o n h1, toM_smul]
    have e1 := toM_B_mul_Bdag h hpo o n
    set B := toM (4 ^ n) (compToPauli conj im po o n)
    set Bd := toM (4 ^ n) (conjT conj (compToPauli conj im po o n))
    calc (s₂ * s₂) • (B * (s₁ * s₁) • (Bd * toM (4 ^ n) P * B) * Bd)
        = ((s₂ * s₂) * (s₁ * s₁)) • ((B * Bd) * toM (4 ^ n) P * (B * Bd)) := by
          simp only [Matrix.mul_assoc, Matrix.smul_mul, Matrix.mul_smul, smul_smul]
      _ = _ := by
          rw [e1]; simp only [Matrix.smul_mul, Matrix.mul_smul, smul_smul, Matrix.one_mul,
            Matrix.mul_one]
          congr 1; ring
  exact (toM_eq_iff _ _ _).mp e r c hr hc

/-- the normalised comp→Pauli matrix is unitary: `B_s B_s† = 1` and `B_s† B_s = 1` when
`s² · 2ⁿ = 1`. -/
theorem compToPauliS_unitary {conj : α → α} {im : α} (h : ConjOK conj im) {po : List Nat}
    (hpo : ValidPO po) (o : Order) (n : Nat) {s : α} (hs : conj s = s)
    (hn : s * s * (2 : α) ^ n = 1) {k l : Nat} (hk : k < 4 ^ n) (hl : l < 4 ^ n) :
    matMul (4 ^ n) (compToPauliS conj im po o n s) (conjT conj (compToPauliS conj im po o n s)) k l
        = (if k = l then 1 else 0) ∧
    matMul (4 ^ n) (conjT conj (compToPauliS conj im po o n s)) (compToPauliS conj im po o n s) k l
        = (if k = l then 1 else 0) := by
  have e1 : toM (4 ^ n) (matMul (4 ^ n) (compToPauliS conj im po o n s)
      (conjT conj (compToPauliS conj im po o n s))) = (1 : α) • 1 := by
    rw [toM_matMul, toM_compToPauliS, toM_conjT_compToPauliS h po o n hs, Matrix.smul_mul,
      Matrix.mul_smul, smul_smul, toM_B_mul_Bdag h hpo, smul_smul, hn]
  have e2 : toM (4 ^ n) (matMul (4 ^ n) (conjT conj (compToPauliS conj im po o n s))
      (compToPauliS conj im po o n s)) = (1 : α) • 1 := by
    rw [toM_matMul, toM_compToPauliS, toM_conjT_compToPauliS h po o n hs, Matrix.smul_mul,
      Matrix.mul_smul, smul_smul, toM_Bdag_mul_B h hpo, smul_smul, hn]
  exact ⟨(toM_scalar_iff _ _ _).mp e1 k l hk hl, (toM_scalar_iff _ _ _).mp e2 k l hk hl⟩

/-! ### path independence: `kraus_to_chi = choi_to_chi ∘ kraus_to_choi` -/

theorem conj_sum_range {conj : α → α} (h0 : conj 0 = 0) (hadd : ∀ a b, conj (a + b) = conj a + conj b)
    (N : Nat) (f : Nat → α) : conj (∑ k ∈ range N, f k) = ∑ k ∈ range N, conj (f k) := by
  induction N with
  | zero => simp [h0]
  | succ N ih => rw [Finset.sum_range_succ, hadd, ih, Finset.sum_range_succ]

theorem sumList_mul_left' {β : Type} (l : List β) (f : β → α) (c : α) :
    c * sumList l f = sumList l (fun x => c * f x) := by
  induction l with
  | nil => simp [sumList]
  | cons x xs ih => simp only [sumList, mul_add, ih]

/-- `kraus_to_chi(K, s) = liouville_to_pauli(kraus_to_choi(K), s)` entry by entry (everywhere,
no range condition), for any scale factor. -/
theorem krausToChi_eq_path {conj : α → α} {im : α} (h : ConjOK conj im)
    (hadd : ∀ a b, conj (a + b) = conj a + conj b) (po : List Nat) (o : Order) (n : Nat)
    (Ks : List (Mat α)) (r c : Nat) :
    krausToChi conj im po o n Ks r c
      = liouvilleToPauli conj im po o n (krausToChoi conj o (2 ^ n) n Ks) r c := by
  simp only [krausToChi, liouvilleToPauli, matMul, matVec, conjT, krausToChoi, sumRange_eq_sum,
    conj_sum_range h.zero hadd, h.mul]
  -- RHS: Σ_{m'} (Σ_m B r m * sumList (…)) * conj (B c m')
  have hR : ∀ m' ∈ range (4 ^ n),
      (∑ m ∈ range (4 ^ n), compToPauli conj im po o n r m
          * sumList Ks (fun K => vectorization o (2 ^ n) n K m * conj (vectorization o (2 ^ n) n K m')))
        * conj (compToPauli conj im po o n c m')
      = sumList Ks (fun K => (∑ m ∈ range (4 ^ n),
          compToPauli conj im po o n r m * vectorization o (2 ^ n) n K m)
            * (conj (compToPauli conj im po o n c m') * conj (vectorization o (2 ^ n) n K m'))) := by
    intro m' _
    have : ∀ m ∈ range (4 ^ n), compToPauli conj im po o n r m
          * sumList Ks (fun K => vectorization o (2 ^ n) n K m * conj (vectorization o (2 ^ n) n K m'))
        = sumList Ks (fun K => compToPauli conj im po o n r m
            * (vectorization o (2 ^ n) n K m * conj (vectorization o (2 ^ n) n K m'))) :=
      fun m _ => sumList_mul_left' _ _ _
    rw [Finset.sum_congr rfl this, sum_sumList_comm, sumList_mul_right]
    refine sumList_congr _ (fun K _ => ?_)
    rw [Finset.sum_mul, Finset.sum_mul]
    refine Finset.sum_congr rfl (fun m _ => ?_)
    ring
  rw [Finset.sum_congr rfl hR, sum_sumList_comm]
  refine sumList_congr _ (fun K _ => ?_)
  rw [Finset.mul_sum]

/-! ### the Pauli-Liouville matrix acts on Pauli coefficient vectors -/

/-- `liouville_to_pauli(L) · (B v) = 2ⁿ · B (L v)`: in the Pauli basis the superoperator acts on
the vector of Pauli coefficients of the operator exactly as `L` acts on its vectorisation. -/
theorem liouvilleToPauli_action {conj : α → α} {im : α} (h : ConjOK conj im) {po : List Nat}
    (hpo : ValidPO po) (o : Order) (n : Nat) (L : Mat α) (v : Nat → α) {k : Nat} (hk : k < 4 ^ n) :
    matVec (4 ^ n) (liouvilleToPauli conj im po o n L)
        (matVec (4 ^ n) (compToPauli conj im po o n) v) k
      = (2 : α) ^ n * matVec (4 ^ n) (compToPauli conj im po o n) (matVec (4 ^ n) L v) k := by
  have e : toV (4 ^ n) (matVec (4 ^ n) (liouvilleToPauli conj im po o n L)
        (matVec (4 ^ n) (compToPauli conj im po o n) v))
      = toV (4 ^ n) (fun k => (2 : α) ^ n
          * matVec (4 ^ n) (compToPauli conj im po o n) (matVec (4 ^ n) L v) k) := by
    have e1 := toM_Bdag_mul_B h hpo o n
    have e2 : toV (4 ^ n) (fun k => (2 : α) ^ n
          * matVec (4 ^ n) (compToPauli conj im po o n) (matVec (4 ^ n) L v) k)
        = (2 : α) ^ n • toV (4 ^ n) (matVec (4 ^ n) (compToPauli conj im po o n) (matVec (4 ^ n) L v)) := by
      funext i; simp [toV]
    rw [e2]
    simp only [toV_matVec, toM_liouvilleToPauli, Matrix.mulVec_mulVec]
    set B := toM (4 ^ n) (compToPauli conj im po o n)
    set Bd := toM (4 ^ n) (conjT conj (compToPauli conj im po o n))
    calc (B * toM (4 ^ n) L * Bd * B).mulVec (toV (4 ^ n) v)
        = (B * toM (4 ^ n) L * (Bd * B)).mulVec (toV (4 ^ n) v) := by simp only [Matrix.mul_assoc]
      _ = _ := by
          rw [e1, Matrix.mul_smul, Matrix.mul_one, Matrix.smul_mulVec]
  exact (toV_eq_iff _ _ _).mp e k hk

theorem matVec_congr (N : Nat) (A : Mat α) {u w : Nat → α} (h : ∀ k, k < N → u k = w k) (r : Nat) :
    matVec N A u r = matVec N A w r := by
  simp only [matVec, sumRange_eq_sum]
  exact Finset.sum_congr rfl (fun k hk => by rw [h k (mem_range.mp hk)])

/-- `kraus_to_liouville(K) · vec ρ = vec(Σ K ρ K†)` at every position of the vector (row and
column orders). -/
theorem krausToLiouville_action_all (conj : α → α) (o : Order) (ho : o ≠ .system) {d : Nat} (n : Nat)
    (Ks : List (Mat α)) (ρ : Mat α) {k : Nat} (hk : k < d * d) :
    matVec (d * d) (krausToLiouville conj o d n Ks) (vectorization o d n ρ) k
      = vectorization o d n (applyKraus conj d Ks ρ) k := by
  have hw : WF o d n := by
    cases o with
    | row => trivial
    | column => trivial
    | system => exact absurd rfl ho
  have hi := rowOf_lt o hw hk
  have hj := colOf_lt o hw hk
  have e := vecIdx_rowOf_colOf o hw hk
  have h1 := matVec_choiToLiouville o ho n (krausToChoi conj o d n Ks) ρ hi hj
  rw [e] at h1
  rw [krausToLiouville, h1, applyChoi_krausToChoi conj o hw Ks ρ hi hj]
  rfl

/-- the Pauli-Liouville matrix of a Kraus channel maps the Pauli coefficients of `ρ` to `2ⁿ` times
the Pauli coefficients of `Σ K ρ K†` (row and column orders, every `n`, every `pauli_order`). -/
theorem pauliLiouville_kraus_action {conj : α → α} {im : α} (h : ConjOK conj im) {po : List Nat}
    (hpo : ValidPO po) (o : Order) (ho : o ≠ .system) (n : Nat) (Ks : List (Mat α)) (ρ : Mat α)
    {k : Nat} (hk : k < 4 ^ n) :
    matVec (4 ^ n) (liouvilleToPauli conj im po o n (krausToLiouville conj o (2 ^ n) n Ks))
        (matVec (4 ^ n) (compToPauli conj im po o n) (vectorization o (2 ^ n) n ρ)) k
      = (2 : α) ^ n * matVec (4 ^ n) (compToPauli conj im po o n)
          (vectorization o (2 ^ n) n (applyKraus conj (2 ^ n) Ks ρ)) k := by
  rw [liouvilleToPauli_action h hpo o n _ _ hk]
  congr 1
  apply matVec_congr
  intro m hm
  rw [four_pow] at hm ⊢
  exact krausToLiouville_action_all conj o ho n Ks ρ hm

end QV.Superop
