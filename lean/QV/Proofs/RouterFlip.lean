/-
  QV.Proofs.RouterFlip — no measurement of the routed BODY stays terminal.

  A measurement left in the body by `_detach_final_measurements` is collapsing: either built
  so, or a later gate `g` of the queue touches one of its qubits.  The routed copy is rebuilt
  with `collapse` = the constructor argument, so in the second case it is `Circuit.add` of the
  routed circuit that has to flip it again.  It does: the relative order of the measurement
  and `g` is kept by every accepted execution order (`flipL_traceEq`), and between the routed
  measurement on physical qubit p and the routed copy of `g` either a router SWAP touches p,
  or the logical qubit has not moved and the copy of `g` sits on p (`routed_cov`).

  The bookkeeping is a ghost: the routed list paired with the logical entry each routed entry
  stands for (`prun`), with the invariant `KL`: pushing the qubits of a routed entry through
  the router SWAPs that follow it gives the CURRENT positions of its logical qubits — a
  functional invariant, so that `undo` (which removes the last router SWAP) preserves it.
-/
import QV.Proofs.RouterMeas
import QV.Proofs.TraceEq

set_option linter.unusedSectionVars false
set_option linter.unusedSimpArgs false
set_option linter.unusedVariables false

namespace QV.Router
open QV QV.Props.C05 QV.Props.C09

/-- support of an entry for trace equivalence. -/
def isupp (it : QItem) : List Nat := it.g.qs

/-! ### list-level statements -/

/-- every measurement built with `collapse=False` is followed by a gate on one of its qubits. -/
def FlipL : List QItem → Prop
  | [] => True
  | m :: B => (m.g.meas = true → m.md.collK = false → ∃ g ∈ B, touches m.g.qs g = true) ∧ FlipL B

/-- every measurement is collapsing when added or is followed by a gate on one of its qubits. -/
def CovL : List QItem → Prop
  | [] => True
  | m :: B => (m.g.meas = true → m.coll = true ∨ ∃ g ∈ B, touches m.g.qs g = true) ∧ CovL B

theorem touches_iff {qs : List Nat} {it : QItem} :
    touches qs it = true ↔ it.g.meas = false ∧ ∃ q ∈ it.g.qs, q ∈ qs := by
  simp [touches, List.any_eq_true]

theorem touches_not_disjoint {a b : QItem} (h : touches a.g.qs b = true) :
    disjointB (isupp a) (isupp b) = false := by
  obtain ⟨_, q, hqb, hqa⟩ := touches_iff.mp h
  cases hd : disjointB (isupp a) (isupp b)
  · rfl
  · exact absurd hqb (disjointB_iff.mp hd q hqa)

/-- `FlipL` is invariant under exchanging adjacent entries on disjoint qubits. -/
theorem flipL_traceEq {l₁ l₂ : List QItem} (h : TraceEq isupp l₁ l₂) : FlipL l₁ → FlipL l₂ := by
  induction h with
  | nil => exact id
  | cons a h ih =>
    rintro ⟨h1, h2⟩
    refine ⟨fun hm hk => ?_, ih h2⟩
    obtain ⟨g, hg, ht⟩ := h1 hm hk
    exact ⟨g, (h.perm.mem_iff).mp hg, ht⟩
  | swap a b l hd =>
    rintro ⟨ha, hb, hl⟩
    refine ⟨fun hm hk => ?_, fun hm hk => ?_, hl⟩
    · obtain ⟨g, hg, ht⟩ := hb hm hk
      exact ⟨g, List.mem_cons_of_mem _ hg, ht⟩
    · obtain ⟨g, hg, ht⟩ := ha hm hk
      rcases List.mem_cons.mp hg with rfl | hg
      · have := touches_not_disjoint ht
        rw [hd] at this
        cases this
      · exact ⟨g, hg, ht⟩
  | trans _ _ ih1 ih2 => exact fun h => ih2 (ih1 h)

theorem measurementsOf_nil_of_cov : ∀ L : List QItem, CovL L → measurementsOf L = [] := by
  intro L
  induction L with
  | nil => intro _; rfl
  | cons m B ih =>
    rintro ⟨h1, h2⟩
    have ihB := ih h2
    unfold measurementsOf at ihB ⊢
    simp only [addFlags]
    rw [List.filter_cons]
    by_cases hm : m.g.meas = true
    · have : (m.coll || B.any (touches m.g.qs)) = true := by
        rcases h1 hm with hc | ⟨g, hg, ht⟩
        · simp [hc]
        · have : B.any (touches m.g.qs) = true := List.any_eq_true.mpr ⟨g, hg, ht⟩
          simp [this]
      simp only [hm, if_true, this, Bool.not_true, Bool.and_false, Bool.false_eq_true, if_false]
      exact ihB
    · simp only [hm, Bool.false_eq_true, if_false, Bool.false_and]
      exact ihB

/-- the body left by `_detach_final_measurements` of an `add`-built queue: every measurement
    in it that was built with `collapse=False` is followed, in the body, by a gate on one of its
    qubits. -/
theorem flipL_filter_of_addBuilt : ∀ (P S : List QItem), AddBuilt (P ++ S) →
    (∀ it ∈ S, it.g.meas = true) → FlipL (P.filter fun it => !isFinalItem it) := by
  intro P
  induction P with
  | nil => intro _ _ _; trivial
  | cons m P ih =>
    intro S hb hS
    obtain ⟨hb', hm⟩ := AddBuilt_cons (by simpa using hb)
    have ihP := ih S hb' hS
    rw [List.filter_cons]
    by_cases hf : isFinalItem m = true
    · simpa [hf] using ihP
    · simp only [hf, Bool.not_false, if_true]
      refine ⟨fun hmeas hk => ?_, ihP⟩
      have hc : m.coll = true := by
        simp only [isFinalItem, hmeas, Bool.true_and, Bool.not_eq_true', Bool.not_eq_false] at hf
        simpa using hf
      have h1 := hm hmeas
      rw [hc, hk, Bool.false_or] at h1
      obtain ⟨g, hg, ht⟩ := List.any_eq_true.mp h1.symm
      have hgm : g.g.meas = false := (touches_iff.mp ht).1
      rcases List.mem_append.mp hg with hgP | hgS
      · refine ⟨g, List.mem_filter.mpr ⟨hgP, ?_⟩, ht⟩
        simp [isFinalItem, hgm]
      · rw [hS g hgS] at hgm
        cases hgm

theorem flipL_detach_body {q : List QItem} (h : AddBuilt q) : FlipL (detach q).1 := by
  simp only [detach]
  apply flipL_filter_of_addBuilt _ (q.drop (q.length - trailingCount q))
  · rw [List.take_append_drop]; exact h
  · exact drop_trailing_meas q

/-! ### pushing a qubit through router SWAPs -/

abbrev PR := QItem × QItem

def pushOne (p : PR) (x : Nat) : Nat :=
  if p.1.ins then (match p.1.g.qs with | [a, b] => tr a b x | _ => x) else x

def push (B : List PR) (x : Nat) : Nat := B.foldl (fun x p => pushOne p x) x

theorem push_nil (x : Nat) : push [] x = x := rfl

theorem push_cons (p : PR) (B : List PR) (x : Nat) : push (p :: B) x = push B (pushOne p x) := rfl

theorem push_append (B C : List PR) (x : Nat) : push (B ++ C) x = push C (push B x) := by
  simp [push, List.foldl_append]

theorem pushOne_nonins {p : PR} (h : p.1.ins = false) (x : Nat) : pushOne p x = x := by
  simp [pushOne, h]

theorem push_nonins {C : List PR} (h : ∀ p ∈ C, p.1.ins = false) (x : Nat) : push C x = x := by
  induction C generalizing x with
  | nil => rfl
  | cons p C ih =>
    rw [push_cons, pushOne_nonins (h p List.mem_cons_self)]
    exact ih (fun p hp => h p (List.mem_cons_of_mem _ hp)) x

theorem pushOne_injective (p : PR) : Function.Injective (pushOne p) := by
  intro x y h
  unfold pushOne at h
  split at h
  · split at h
    · exact tr_injective _ _ h
    · exact h
  · exact h

theorem push_injective (B : List PR) : Function.Injective (push B) := by
  induction B with
  | nil => exact fun _ _ h => h
  | cons p B ih =>
    intro x y h
    rw [push_cons, push_cons] at h
    exact pushOne_injective p (ih h)

theorem pushOne_fixed {p : PR} {x : Nat} (h : p.1.ins = true → x ∉ p.1.g.qs) : pushOne p x = x := by
  unfold pushOne
  split
  · rename_i hi
    have hx := h hi
    split
    · rename_i a b hq
      rw [hq] at hx
      simp only [List.mem_cons, List.mem_nil_iff, or_false, not_or] at hx
      simp [tr, hx.1, hx.2]
    · rfl
  · rfl

theorem push_fixed {B : List PR} {x : Nat} (h : ∀ p ∈ B, p.1.ins = true → x ∉ p.1.g.qs) :
    push B x = x := by
  induction B with
  | nil => rfl
  | cons p B ih =>
    rw [push_cons, pushOne_fixed (h p List.mem_cons_self)]
    exact ih (fun p hp => h p (List.mem_cons_of_mem _ hp))

theorem push_snoc_swap (B : List PR) (a b : Nat) (lg : QItem) (x : Nat) :
    push (B ++ [(insSwap a b, lg)]) x = tr a b (push B x) := by
  rw [push_append]
  simp [push, pushOne, insSwap, swapGate]

/-- the invariant: qubits of a routed entry, pushed through the router SWAPs after it, are the
    current positions of the logical qubits it stands for. -/
def KL (σ : Nat → Nat) : List PR → Prop
  | [] => True
  | p :: B => (p.1.ins = false → p.1.g.qs.map (push B) = p.2.g.qs.map σ) ∧ KL σ B

theorem KL_suffix {σ : Nat → Nat} : ∀ (A B : List PR), KL σ (A ++ B) → KL σ B := by
  intro A
  induction A with
  | nil => exact fun _ h => h
  | cons a A ih => exact fun B h => ih B h.2

theorem KL_append_nonins {σ : Nat → Nat} {R N : List PR} (h : KL σ R)
    (hn : ∀ p ∈ N, p.1.ins = false ∧ p.1.g.qs = p.2.g.qs.map σ) : KL σ (R ++ N) := by
  have hni : ∀ p ∈ N, p.1.ins = false := fun p hp => (hn p hp).1
  induction R with
  | nil =>
    simp only [List.nil_append]
    induction N with
    | nil => trivial
    | cons p N ih =>
      have hN : ∀ p ∈ N, p.1.ins = false ∧ p.1.g.qs = p.2.g.qs.map σ :=
        fun p hp => hn p (List.mem_cons_of_mem _ hp)
      refine ⟨fun _ => ?_, ih hN (fun p hp => (hN p hp).1)⟩
      rw [← (hn p List.mem_cons_self).2]
      conv => rhs; rw [← List.map_id (p.1.g.qs)]
      apply List.map_congr_left
      intro x _
      exact push_nonins (fun p hp => (hN p hp).1) x
  | cons p R ih =>
    show KL σ (p :: (R ++ N))
    refine ⟨fun hi => ?_, ih h.2⟩
    rw [← h.1 hi]
    apply List.map_congr_left
    intro x _
    rw [push_append, push_nonins hni]

theorem KL_snoc_swap {σ σ' : Nat → Nat} {R : List PR} (a b : Nat) (lg : QItem) (h : KL σ R)
    (hσ : ∀ x, σ' x = tr a b (σ x)) : KL σ' (R ++ [(insSwap a b, lg)]) := by
  induction R with
  | nil => exact ⟨fun hi => by simp [insSwap] at hi, trivial⟩
  | cons p R ih =>
    show KL σ' (p :: (R ++ [(insSwap a b, lg)]))
    refine ⟨fun hi => ?_, ih h.2⟩
    have := h.1 hi
    have e1 : p.1.g.qs.map (push (R ++ [(insSwap a b, lg)])) = (p.1.g.qs.map (push R)).map (tr a b) := by
      rw [List.map_map]
      apply List.map_congr_left
      intro x _
      exact push_snoc_swap R a b lg x
    rw [e1, this, List.map_map]
    apply List.map_congr_left
    intro x _
    exact (hσ x).symm

theorem KL_dropLast_swap {σ σ' : Nat → Nat} {R : List PR} (a b : Nat) (lg : QItem)
    (h : KL σ (R ++ [(insSwap a b, lg)])) (hσ : ∀ x, σ' x = tr a b (σ x)) : KL σ' R := by
  induction R with
  | nil => trivial
  | cons p R ih =>
    have h : KL σ (p :: (R ++ [(insSwap a b, lg)])) := h
    refine ⟨fun hi => ?_, ih h.2⟩
    have := h.1 hi
    have e1 : p.1.g.qs.map (push (R ++ [(insSwap a b, lg)])) = (p.1.g.qs.map (push R)).map (tr a b) := by
      rw [List.map_map]
      apply List.map_congr_left
      intro x _
      exact push_snoc_swap R a b lg x
    rw [e1] at this
    have h2 := congrArg (List.map (tr a b)) this
    rw [List.map_map, List.map_map] at h2
    have e2 : (tr a b ∘ tr a b) = id := by funext x; exact tr_tr a b x
    rw [e2, Function.id_comp] at h2
    rw [h2, List.map_map]
    apply List.map_congr_left
    intro x _
    simp [Function.comp_def, hσ x]

/-! ### the ghost run -/

def pstepR (base : RState) (R : List PR) : MAction → List PR
  | .exec its => R ++ its.map fun it => (it.onQubits (look base.l2p), it)
  | .swap l0 l1 => R ++ [(insSwap (look base.l2p l0) (look base.l2p l1), insSwap l0 l1)]
  | .undo =>
    match base.routed.getLast? with
    | some g => (match g.qs with
      | [_, _] => R.dropLast
      | _ => R)
    | none => R

def prun : MState → List PR → List MAction → List PR
  | _, R, [] => R
  | s, R, a :: as => prun (mstep s a) (pstepR s.base R a) as

structure J (n : Nat) (s : MState) (R : List PR) : Prop where
  inv : Inv n s.base
  sim : Sim s
  fst : R.map (·.1) = s.routed
  snd : (R.filter fun p => !p.1.ins).map (·.2) = s.executed
  rel : ∀ p ∈ R, p.1.ins = false → ∃ σ, p.1 = p.2.onQubits σ
  sw : ∀ p ∈ R, p.1.ins = true → ∃ a b, p.1 = insSwap a b
  kl : KL (look s.base.l2p) R

theorem J_init (n : Nat) : J n (minit n) [] :=
  ⟨Inv_init n, Sim_minit n, rfl, rfl, (fun _ h => by cases h), (fun _ h => by cases h), trivial⟩

theorem swap_l2p {n : Nat} {s : RState} (h : Inv n s) {l0 l1 : Nat} (h0 : l0 < n) (h1 : l1 < n)
    (hne : l0 ≠ l1) (x : Nat) :
    look (step s (.swap l0 l1)).l2p x = tr (look s.l2p l0) (look s.l2p l1) (look s.l2p x) := by
  have := updateMaps_l2p (s := { s with routed := s.routed ++ [swapGate (look s.l2p l0) (look s.l2p l1)] })
    (Inv_congr rfl rfl h) h0 h1 hne x
  exact this

theorem undo_l2p {n : Nat} {s : RState} (h : Inv n s) {g : RGate} {a b : Nat}
    (hl : s.routed.getLast? = some g) (hq : g.qs = [a, b]) (hab : a ≠ b) (ha : a < n) (hb : b < n)
    (x : Nat) : look (step s .undo).l2p x = tr a b (look s.l2p x) := by
  rw [step_undo_eq' h hl hq]
  have hmin : min a b < n := by rcases minmax_cases a b hab with ⟨e, _⟩ | ⟨e, _⟩ <;> rw [e] <;> assumption
  have hmax : max a b < n := by rcases minmax_cases a b hab with ⟨_, e⟩ | ⟨_, e⟩ <;> rw [e] <;> assumption
  have hmm : min a b ≠ max a b := by
    rcases minmax_cases a b hab with ⟨e1, e2⟩ | ⟨e1, e2⟩ <;> rw [e1, e2]
    · exact hab
    · exact fun e => hab e.symm
  have hne : look s.p2l (min a b) ≠ look s.p2l (max a b) := fun e => hmm (h.p2l_injective e)
  have := updateMaps_l2p (s := { s with routed := s.routed.dropLast })
    (Inv_congr rfl rfl h) (h.2.2.2 _ hmin).1 (h.2.2.2 _ hmax).1 hne x
  rw [this]
  show tr (look s.l2p _) (look s.l2p _) (look s.l2p x) = _
  rw [h.right_inv, h.right_inv]
  rcases minmax_cases a b hab with ⟨e1, e2⟩ | ⟨e1, e2⟩ <;> rw [e1, e2]
  exact tr_comm _ _ _

theorem J_step {n : Nat} {s : MState} {R : List PR} (h : J n s R) (a : MAction)
    (hw : mwf n s a = true) : J n (mstep s a) (pstepR s.base R a) := by
  have hwf : wf n s.base a.erase = true := mwf_wf hw
  have hinv : Inv n (mstep s a).base := by rw [mstep_base]; exact Inv_step h.inv _ hwf
  have hsim := Sim_mstep h.sim a
  cases a with
  | exec its =>
    have hni : its.all (fun it => !it.ins) = true := by
      simp only [mwf, Bool.and_eq_true] at hw
      exact hw.2
    have hni' : ∀ it ∈ its, it.ins = false := by
      intro it hit
      have := List.all_eq_true.mp hni it hit
      simpa using this
    have hins : ∀ it ∈ its, (it.onQubits (look s.base.l2p)).ins = false := by
      intro it hit
      unfold QItem.onQubits
      split
      · rfl
      · exact hni' it hit
    refine ⟨hinv, hsim, ?_, ?_, ?_, ?_, ?_⟩
    · simp only [pstepR, mstep, List.map_append, h.fst, List.map_map, Function.comp_def]
    · simp only [pstepR, mstep, List.filter_append, List.map_append, h.snd]
      congr 1
      rw [List.filter_eq_self.mpr, List.map_map]
      · simp [Function.comp_def]
      · intro p hp
        obtain ⟨it, hit, rfl⟩ := List.mem_map.mp hp
        simp [hins it hit]
    · intro p hp hi
      simp only [pstepR, List.mem_append, List.mem_map] at hp
      rcases hp with hp | ⟨it, _, rfl⟩
      · exact h.rel p hp hi
      · exact ⟨_, rfl⟩
    · intro p hp hi
      simp only [pstepR, List.mem_append, List.mem_map] at hp
      rcases hp with hp | ⟨it, hit, rfl⟩
      · exact h.sw p hp hi
      · rw [hins it hit] at hi; cases hi
    · show KL (look s.base.l2p) _
      apply KL_append_nonins h.kl
      intro p hp
      obtain ⟨it, hit, rfl⟩ := List.mem_map.mp hp
      exact ⟨hins it hit, onQubits_qs _ _⟩
  | swap l0 l1 =>
    obtain ⟨hne, h0, h1⟩ := wf_swap hwf
    refine ⟨hinv, hsim, ?_, ?_, ?_, ?_, ?_⟩
    · simp only [pstepR, mstep, List.map_append, h.fst, List.map_cons, List.map_nil]
    · simp only [pstepR, mstep, List.filter_append, List.map_append, h.snd]
      simp [insSwap]
    · intro p hp hi
      simp only [pstepR, List.mem_append, List.mem_singleton] at hp
      rcases hp with hp | rfl
      · exact h.rel p hp hi
      · simp [insSwap] at hi
    · intro p hp hi
      simp only [pstepR, List.mem_append, List.mem_singleton] at hp
      rcases hp with hp | rfl
      · exact h.sw p hp hi
      · exact ⟨_, _, rfl⟩
    · apply KL_snoc_swap _ _ _ h.kl
      intro x
      exact swap_l2p h.inv h0 h1 hne x
  | undo =>
    obtain ⟨g, a, b, hl, hq, _, _, hab, ha, hb⟩ := wf_undo hwf
    have hlast : (match s.routed.getLast? with | some it => it.ins | none => false) = true := by
      simp only [mwf, Bool.and_eq_true] at hw
      exact hw.2
    -- the last routed entry is a router SWAP on (a, b)
    have hRne : R ≠ [] := by
      intro e
      have := h.fst
      rw [e] at this
      simp only [List.map_nil] at this
      rw [← this] at hlast
      simp at hlast
    obtain ⟨R0, pl, rfl⟩ : ∃ R0 pl, R = R0 ++ [pl] :=
      ⟨R.dropLast, R.getLast hRne, (List.dropLast_append_getLast hRne).symm⟩
    have hfst : s.routed = R0.map (·.1) ++ [pl.1] := by rw [← h.fst]; simp
    have hpl : pl.1.ins = true := by
      rw [hfst] at hlast
      simpa using hlast
    obtain ⟨a', b', hsw⟩ := h.sw pl (by simp) hpl
    have hg : pl.1.g = g := by
      have := h.sim.1
      rw [hfst] at this
      simp only [List.map_append, List.map_cons, List.map_nil] at this
      rw [← this] at hl
      simpa using hl
    have hab' : a' = a ∧ b' = b := by
      rw [hsw] at hg
      have : (insSwap a' b').g.qs = [a, b] := by rw [hg]; exact hq
      simpa [insSwap, swapGate] using this
    obtain ⟨rfl, rfl⟩ := hab'
    have hpl' : pl = (insSwap a' b', pl.2) := by rw [← hsw]
    have hR : pstepR s.base (R0 ++ [pl]) .undo = R0 := by
      simp [pstepR, hl, hq]
    have hrt : (mstep s .undo).routed = s.routed.dropLast := by
      simp [mstep, hl, hq]
    rw [hR]
    refine ⟨hinv, hsim, ?_, ?_, ?_, ?_, ?_⟩
    · rw [hrt, hfst]; simp
    · have := h.snd
      rw [List.filter_append, List.map_append] at this
      simp only [List.filter_cons, hpl, Bool.not_true, Bool.false_eq_true, if_false, List.filter_nil,
        List.map_nil, List.append_nil] at this
      exact this
    · exact fun p hp hi => h.rel p (List.mem_append_left _ hp) hi
    · exact fun p hp hi => h.sw p (List.mem_append_left _ hp) hi
    · have hk := h.kl
      rw [hpl'] at hk
      apply KL_dropLast_swap a' b' pl.2 hk
      intro x
      rw [mstep_base]
      exact undo_l2p h.inv hl hq hab ha hb x

theorem J_run {n : Nat} : ∀ (as : List MAction) (s : MState) (R : List PR), J n s R →
    mwfAll n s as = true → J n (mrun s as) (prun s R as) := by
  intro as
  induction as with
  | nil => exact fun _ _ h _ => h
  | cons a as ih =>
    intro s R h hw
    simp only [mwfAll, Bool.and_eq_true] at hw
    exact ih _ _ (J_step h a hw.1) hw.2

/-! ### the routed body covers its measurements -/

theorem exists_of_map_eq_map {f g : Nat → Nat} : ∀ (l₁ l₂ : List Nat), l₁.map f = l₂.map g →
    ∀ y ∈ l₂, ∃ x ∈ l₁, f x = g y := by
  intro l₁
  induction l₁ with
  | nil =>
    intro l₂ h y hy
    cases l₂ with
    | nil => cases hy
    | cons _ _ => simp at h
  | cons a l₁ ih =>
    intro l₂ h y hy
    cases l₂ with
    | nil => cases hy
    | cons b l₂ =>
      simp only [List.map_cons, List.cons.injEq] at h
      rcases List.mem_cons.mp hy with rfl | hy
      · exact ⟨a, List.mem_cons_self, h.1⟩
      · obtain ⟨x, hx, e⟩ := ih l₂ h.2 y hy
        exact ⟨x, List.mem_cons_of_mem _ hx, e⟩

theorem onQubits_ins_of {σ : Nat → Nat} {it : QItem} (h : it.ins = false) : (it.onQubits σ).ins = false := by
  unfold QItem.onQubits
  split
  · rfl
  · exact h

/-- list-level core: paired routed list with `KL`, logical side flips ⇒ routed side is covered. -/
theorem cov_of_KL {σ : Nat → Nat} : ∀ (R : List PR),
    (∀ p ∈ R, p.1.ins = false → ∃ τ, p.1 = p.2.onQubits τ) →
    (∀ p ∈ R, p.1.ins = true → ∃ a b, p.1 = insSwap a b) →
    KL σ R → FlipL ((R.filter fun p => !p.1.ins).map (·.2)) → CovL (R.map (·.1)) := by
  intro R
  induction R with
  | nil => intro _ _ _ _; trivial
  | cons p RB ih =>
    intro hrel hsw hkl hflip
    show CovL (p.1 :: RB.map (·.1))
    have hrelB : ∀ p ∈ RB, p.1.ins = false → ∃ τ, p.1 = p.2.onQubits τ :=
      fun p hp => hrel p (List.mem_cons_of_mem _ hp)
    have hswB : ∀ p ∈ RB, p.1.ins = true → ∃ a b, p.1 = insSwap a b :=
      fun p hp => hsw p (List.mem_cons_of_mem _ hp)
    by_cases hi : p.1.ins = true
    · -- a router SWAP: not a measurement
      have hflipB : FlipL ((RB.filter fun p => !p.1.ins).map (·.2)) := by
        simpa [List.filter_cons, hi] using hflip
      refine ⟨fun hm => ?_, ih hrelB hswB hkl.2 hflipB⟩
      obtain ⟨a, b, e⟩ := hsw p List.mem_cons_self hi
      rw [e] at hm
      simp [insSwap, swapGate] at hm
    · have hi' : p.1.ins = false := by simpa using hi
      have hflip' : FlipL (p.2 :: (RB.filter fun p => !p.1.ins).map (·.2)) := by
        simpa [List.filter_cons, hi'] using hflip
      refine ⟨fun hm => ?_, ih hrelB hswB hkl.2 hflip'.2⟩
      obtain ⟨τ, hp⟩ := hrel p List.mem_cons_self hi'
      have hm2 : p.2.g.meas = true := by rw [hp, onQubits_meas] at hm; exact hm
      have hc : p.1.coll = p.2.md.collK := by rw [hp]; exact onQubits_coll_meas τ _ hm2
      cases hk : p.2.md.collK
      · right
        obtain ⟨g, hg, ht⟩ := hflip'.1 hm2 hk
        obtain ⟨pg, hpg, rfl⟩ := List.mem_map.mp hg
        obtain ⟨hpgR, hpgi⟩ := List.mem_filter.mp hpg
        have hpgi' : pg.1.ins = false := by simpa using hpgi
        obtain ⟨hgm, y, hyg, hym⟩ := touches_iff.mp ht
        obtain ⟨B1, B2, rfl⟩ := List.append_of_mem hpgR
        -- positions
        obtain ⟨x, hx, ex⟩ := exists_of_map_eq_map _ _ (hkl.1 hi') y hym
        have hklg := (KL_suffix B1 (pg :: B2) hkl.2).1 hpgi'
        obtain ⟨x', hx', ex'⟩ := exists_of_map_eq_map _ _ hklg y hyg
        have e1 : push (B1 ++ pg :: B2) x = push B2 (push B1 x) := by
          rw [push_append, push_cons, pushOne_nonins hpgi']
        have e2 : push B1 x = x' := push_injective B2 (by rw [← e1, ex, ex'])
        obtain ⟨τ', hpg1⟩ := hrel pg (List.mem_cons_of_mem _ hpgR) hpgi'
        have hgm1 : pg.1.g.meas = false := by rw [hpg1, onQubits_meas]; exact hgm
        by_cases hfix : ∀ q ∈ B1, q.1.ins = true → x ∉ q.1.g.qs
        · rw [push_fixed hfix] at e2
          subst e2
          refine ⟨pg.1, List.mem_map.mpr ⟨pg, hpgR, rfl⟩, touches_iff.mpr ⟨hgm1, x, hx', hx⟩⟩
        · simp only [not_forall, Classical.not_imp, Classical.not_not] at hfix
          obtain ⟨qsw, hq1, hqi, hxq⟩ := hfix
          obtain ⟨a, b, eq⟩ := hsw qsw (List.mem_cons_of_mem _ (List.mem_append_left _ hq1)) hqi
          refine ⟨qsw.1, List.mem_map.mpr ⟨qsw, List.mem_append_left _ hq1, rfl⟩, touches_iff.mpr ⟨?_, x, hxq, hx⟩⟩
          rw [eq]; rfl
      · left
        rw [hc]
        exact hk

/-- **no measurement of the routed body stays terminal**: on a guarded run whose executed
    entries are a commuting reordering of a body in which every `collapse=False` measurement is
    followed by a gate on its qubits. -/
theorem routed_measurements_nil {n : Nat} (as : List MAction) (body : List QItem)
    (hw : mwfAll n (minit n) as = true) (hb : FlipL body)
    (ht : TraceEq isupp body (mrun (minit n) as).executed) :
    measurementsOf (mrun (minit n) as).routed = [] := by
  have hJ := J_run as (minit n) [] (J_init n) hw
  apply measurementsOf_nil_of_cov
  rw [← hJ.fst]
  apply cov_of_KL _ hJ.rel hJ.sw hJ.kl
  rw [hJ.snd]
  exact flipL_traceEq ht hb

/-! ### the star loop executes the non-final entries in queue order, without `undo` -/

/-- an action that is not `undo` and only executes input entries. -/
def okA : MAction → Bool
  | .exec its => its.all fun it => !it.ins
  | .swap _ _ => true
  | .undo => false

theorem mwf_of_okA {n : Nat} {s : MState} {a : MAction} (hw : wf n s.base a.erase = true)
    (ho : okA a = true) : mwf n s a = true := by
  cases a with
  | exec its => simp only [mwf, hw, Bool.true_and]; exact ho
  | swap a b => simp only [mwf, hw, Bool.true_and]
  | undo => simp [okA] at ho

theorem mwfAll_of_okA {n : Nat} : ∀ (as : List MAction) (s : MState),
    wfAll n s.base (as.map MAction.erase) = true → as.all okA = true → mwfAll n s as = true := by
  intro as
  induction as with
  | nil => intro _ _ _; rfl
  | cons a as ih =>
    intro s hw ho
    simp only [List.map_cons, wfAll, Bool.and_eq_true] at hw
    simp only [List.all_cons, Bool.and_eq_true] at ho
    simp only [mwfAll, Bool.and_eq_true]
    refine ⟨mwf_of_okA hw.1 ho.1, ih _ ?_ ho.2⟩
    rw [mstep_base]
    exact hw.2

theorem mstarActions_shape {mid : Nat} {s : RState} {it : QItem} {rest : List QItem}
    {as : List MAction} (h : mstarActions mid s it rest = some as) :
    (isFinalItem it = true ∧ as = []) ∨
    (isFinalItem it = false ∧ (as = [.exec [it]] ∨ ∃ a b, as = [.swap a b, .exec [it]])) := by
  unfold mstarActions at h
  by_cases hm : it.g.meas = true
  · cases hc : it.coll
    · left
      simp [hm, hc] at h
      exact ⟨by simp [isFinalItem, hm, hc], h⟩
    · right
      simp [hm, hc] at h
      exact ⟨by simp [isFinalItem, hm, hc], Or.inl h.symm⟩
  · right
    have hf : isFinalItem it = false := by simp [isFinalItem, hm]
    refine ⟨hf, ?_⟩
    simp only [hm, Bool.false_eq_true, if_false] at h
    split at h
    · cases h
    · split at h
      · split at h
        · left; exact (Option.some.inj h).symm
        · split at h
          · cases h
          · right; exact ⟨_, _, (Option.some.inj h).symm⟩
      · left; exact (Option.some.inj h).symm

theorem mstarTrace_executed {mid : Nat} : ∀ (q : List QItem) (s : MState) (as : List MAction),
    mstarTrace mid s q = some as → (∀ it ∈ q, it.ins = false) →
    (mrun s as).executed = s.executed ++ q.filter (fun it => !isFinalItem it) ∧ as.all okA = true := by
  intro q
  induction q with
  | nil =>
    intro s as h _
    simp only [mstarTrace, Option.some.injEq] at h
    subst h
    simp [mrun]
  | cons it rest ih =>
    intro s as h hni
    simp only [mstarTrace] at h
    cases ha : mstarActions mid s.base it rest with
    | none => simp [ha] at h
    | some as1 =>
      simp only [ha] at h
      cases hr : mstarTrace mid (mrun s as1) rest with
      | none => simp [hr] at h
      | some as2 =>
        simp only [hr, Option.map_some, Option.some.injEq] at h
        subst h
        obtain ⟨h2, ho2⟩ := ih (mrun s as1) as2 hr (fun x hx => hni x (List.mem_cons_of_mem _ hx))
        have hit : it.ins = false := hni it List.mem_cons_self
        rw [mrun_append, h2, List.all_append, ho2, Bool.and_true, List.filter_cons]
        rcases mstarActions_shape ha with ⟨hf, rfl⟩ | ⟨hf, rfl | ⟨a, b, rfl⟩⟩
        · simp [hf, mrun]
        · simp [hf, mrun, mstep, okA, hit]
        · simp [hf, mrun, mstep, okA, hit]

end QV.Router
