/-
  QV.Proofs.CliffordUnique — two Clifford circuits with the same tableau produce proportional
  state vectors, provided one of them is written in the invertible alphabet of the tableau →
  circuit algorithms (H S SDG CNOT SWAP X Y Z).

  The amplitudes of an `n`-qubit register are the values on the labels with all bits `≥ n` equal
  to 0 (`InReg`).  Ingredients: gates on the register neither read nor write the other labels;
  every gate operator is injective (`mgate_nonzero`); the inverse of the second circuit maps both
  states to states fixed by every `Z_k`, i.e. to multiples of `|0…0⟩`.
  The fact "stabiliser rows fix the state vector" (`T12_stabilizer_state`, proved in
  QV/Props/C12b.lean) enters as the hypothesis `StabFix`.
-/
import QV.Proofs.CliffordSynthBM
namespace QV.Cliff
open QV

/-- labels of an `n`-qubit register: no bit set at positions `≥ n`. -/
def InReg (n : Nat) (x : Lab) : Prop := ∀ q, n ≤ q → x q = false

theorem not_inReg {n : Nat} {x : Lab} (h : ¬ InReg n x) : ∃ q, n ≤ q ∧ x q = true := by
  by_contra hne
  apply h
  intro q hq
  cases hx : x q with
  | false => rfl
  | true => exact absurd ⟨q, hq, hx⟩ hne

theorem applyGate_congr_inReg (n : Nat) (g : MGate GI) (hlt : ∀ t ∈ g.targets, t < n)
    {ψ φ : Lab → GI} (h : ∀ y, InReg n y → ψ y = φ y) {x : Lab} (hx : InReg n x) :
    QV.applyGate g ψ x = QV.applyGate g φ x := by
  unfold QV.applyGate
  split
  · apply sumOver_congr
    intro y hy
    have : InReg n y := fun q hq => by
      rw [hy q (fun hm => by have := hlt q hm; omega)]
      exact hx q hq
    rw [h y this]
  · exact h x hx

theorem applyGate_vanish_off (n : Nat) (g : MGate GI) (hlt : ∀ t ∈ g.targets, t < n)
    {ψ : Lab → GI} (h : ∀ y, ¬ InReg n y → ψ y = 0) {x : Lab} (hx : ¬ InReg n x) :
    QV.applyGate g ψ x = 0 := by
  obtain ⟨q, hq, hxq⟩ := not_inReg hx
  unfold QV.applyGate
  split
  · rw [sumOver_congr (g := fun _ => (0 : GI)) (fun y hy => by
      have hy' : ¬ InReg n y := fun hin => by
        have := hin q hq
        rw [hy q (fun hm => by have := hlt q hm; omega), hxq] at this
        cases this
      rw [h y hy', mul_zero])]
    exact sumOver_zero _ _
  · exact h x hx

theorem mgate_targets_lt {n : Nat} {g : Gate} (hg : g.ok n) : ∀ t ∈ g.mgate.targets, t < n := by
  intro t ht
  cases g <;> simp only [Gate.ok] at hg <;>
    simp only [Gate.mgate, g1, g2, List.mem_cons, List.mem_nil_iff, or_false] at ht
  all_goals first
    | (subst ht; exact hg)
    | (rcases ht with rfl | rfl
       · exact hg.1
       · exact hg.2.1)

theorem runCircuit_congr_inReg (n : Nat) (gs : List Gate) (hg : ∀ g ∈ gs, g.ok n)
    {ψ φ : Lab → GI} (h : ∀ y, InReg n y → ψ y = φ y) {x : Lab} (hx : InReg n x) :
    runCircuit (gs.map Gate.mgate) ψ x = runCircuit (gs.map Gate.mgate) φ x := by
  induction gs generalizing ψ φ x with
  | nil => exact h x hx
  | cons g gs ih =>
    simp only [List.map_cons, runCircuit_cons]
    exact ih (fun g' hg' => hg g' (List.mem_cons_of_mem _ hg'))
      (fun y hy => applyGate_congr_inReg n _ (mgate_targets_lt (hg g (List.mem_cons_self ..))) h hy) hx

theorem runCircuit_vanish_off (n : Nat) (gs : List Gate) (hg : ∀ g ∈ gs, g.ok n)
    {ψ : Lab → GI} (h : ∀ y, ¬ InReg n y → ψ y = 0) {x : Lab} (hx : ¬ InReg n x) :
    runCircuit (gs.map Gate.mgate) ψ x = 0 := by
  induction gs generalizing ψ x with
  | nil => exact h x hx
  | cons g gs ih =>
    simp only [List.map_cons, runCircuit_cons]
    exact ih (fun g' hg' => hg g' (List.mem_cons_of_mem _ hg'))
      (fun y hy => applyGate_vanish_off n _ (mgate_targets_lt (hg g (List.mem_cons_self ..))) h hy) hx

theorem runCircuit_nonzero (n : Nat) (gs : List Gate) (hg : ∀ g ∈ gs, g.ok n) (ψ : Lab → GI)
    (h0 : ∃ x, ψ x ≠ 0) : ∃ x, runCircuit (gs.map Gate.mgate) ψ x ≠ 0 := by
  induction gs generalizing ψ with
  | nil => exact h0
  | cons g gs ih =>
    simp only [List.map_cons, runCircuit_cons]
    exact ih (fun g' hg' => hg g' (List.mem_cons_of_mem _ hg')) _
      (mgate_nonzero n g (hg g (List.mem_cons_self ..)) ψ h0)

/-- injectivity on the register: a vector that a circuit sends to 0 on the register is 0 there. -/
theorem runCircuit_injective_inReg (n : Nat) (gs : List Gate) (hg : ∀ g ∈ gs, g.ok n) (χ : Lab → GI)
    (h : ∀ x, InReg n x → runCircuit (gs.map Gate.mgate) χ x = 0) :
    ∀ x, InReg n x → χ x = 0 := by
  classical
  intro x0 hx0
  by_contra hne
  let χ' : Lab → GI := fun x => if InReg n x then χ x else 0
  have hoff : ∀ y, ¬ InReg n y → χ' y = 0 := fun y hy => by simp [χ', hy]
  have hon : ∀ y, InReg n y → χ' y = χ y := fun y hy => by simp [χ', hy]
  obtain ⟨y, hy⟩ := runCircuit_nonzero n gs hg χ' ⟨x0, by rw [hon x0 hx0]; exact hne⟩
  by_cases hin : InReg n y
  · rw [runCircuit_congr_inReg n gs hg hon hin, h y hin] at hy
    exact hy rfl
  · exact hy (runCircuit_vanish_off n gs hg hoff hin)

/-- the all-zero label. -/
def lab0 : Lab := fun _ => false

theorem inReg_lab0 (n : Nat) : InReg n lab0 := fun _ _ => rfl

theorem eq_lab0 {n : Nat} {x : Lab} (hx : InReg n x) (h : ∀ k, k < n → x k = false) : x = lab0 := by
  funext q
  by_cases hq : q < n
  · exact h q hq
  · exact hx q (by omega)

/-- the fact proved as `T12_stabilizer_state`. -/
def StabFix (n : Nat) : Prop :=
  ∀ (gs : List Gate), (∀ g ∈ gs, g.ok n) → ∀ i, i < n →
    pauliOp n (getRow (runGates gs (zeroState n)) (n + i)) (runSV n gs) = runSV n gs

theorem runSV_append (n : Nat) (a b : List Gate) :
    runSV n (a ++ b) = runCircuit (b.map Gate.mgate) (runSV n a) := by
  unfold runSV
  rw [List.map_append, runCircuit_append]

/-- a circuit whose tableau is the identity tableau produces a multiple of `|0…0⟩` (on the
register), and a non-zero one. -/
theorem zero_tableau_state (n : Nat) (hS : StabFix n) (ds : List Gate) (hd : ∀ g ∈ ds, g.ok n)
    (hT : TabEq n (runGates ds (zeroState n)) (zeroState n)) :
    (∀ x, InReg n x → x ≠ lab0 → runSV n ds x = 0) ∧ runSV n ds lab0 ≠ 0 := by
  classical
  have hsupp : ∀ x, InReg n x → x ≠ lab0 → runSV n ds x = 0 := by
    intro x hx hne
    have : ∃ k, k < n ∧ x k = true := by
      by_contra hno
      apply hne
      refine eq_lab0 hx (fun k hk => ?_)
      cases hxk : x k with
      | false => rfl
      | true => exact absurd ⟨k, hk, hxk⟩ hno
    obtain ⟨k, hk, hxk⟩ := this
    have hrow := hT (n + k) (by omega)
    rw [getRow_zero_hi n k hk] at hrow
    refine support_of_signed_Z n k hk (getRow (runGates ds (zeroState n)) (n + k))
      (fun j hj => (hrow.1 j hj).1) (fun j hj => (hrow.1 j hj).2) (runSV n ds) (hS ds hd k hk) x ?_
    rw [hrow.2, hxk]
    simp [unitZ]
  refine ⟨hsupp, ?_⟩
  -- non-zero somewhere on the register, hence at the all-zero label
  let δ : Lab → GI := fun x => if InReg n x then zeroKet n x else 0
  have hoff : ∀ y, ¬ InReg n y → δ y = 0 := fun y hy => by simp [δ, hy]
  have hon : ∀ y, InReg n y → δ y = zeroKet n y := fun y hy => by simp [δ, hy]
  have hδ0 : δ lab0 ≠ 0 := by
    rw [hon lab0 (inReg_lab0 n)]
    simp [zeroKet, lab0]
    decide
  obtain ⟨y, hy⟩ := runCircuit_nonzero n ds hd δ ⟨lab0, hδ0⟩
  have hin : InReg n y := by
    by_contra hin
    exact hy (runCircuit_vanish_off n ds hd hoff hin)
  have hval : runSV n ds y ≠ 0 := by
    unfold runSV
    rw [← runCircuit_congr_inReg n ds hd hon hin]
    exact hy
  have hy0 : y = lab0 := by
    by_contra hne
    exact hval (hsupp y hin hne)
  rw [← hy0]
  exact hval

/-- **same tableau ⟹ proportional state vectors** (second circuit in the invertible alphabet). -/
theorem same_tableau_same_state (n : Nat) (hS : StabFix n) (cs cs' : List Gate)
    (hcs : ∀ g ∈ cs, g.ok n) (hcs' : ∀ g ∈ cs', g.ok n) (hag : ∀ g ∈ cs', g.isAG = true)
    (hE : TabEq n (runGates cs' (zeroState n)) (runGates cs (zeroState n))) :
    ∃ a b : GI, a ≠ 0 ∧ b ≠ 0 ∧ ∀ x, InReg n x → a * runSV n cs x = b * runSV n cs' x := by
  let fwd := invertCircuit cs'
  have hfok : ∀ g ∈ fwd, g.ok n := invert_ok n cs' hcs'
  have hfag : ∀ g ∈ fwd, g.isAG = true := invert_isAG cs' hag
  -- both circuits followed by the inverse of the second have the identity tableau
  have hlenZ : ∀ m, m < 2 * n → m < (zeroState n).length := fun m hm => by simp [zeroState]; omega
  have hlen : ∀ (ds : List Gate) m, m < 2 * n → m < (runGates ds (zeroState n)).length := by
    intro ds m hm
    have : (runGates ds (zeroState n)).length = (zeroState n).length := by
      generalize zeroState n = Z
      induction ds generalizing Z with
      | nil => rfl
      | cons g L ih => simp only [runGates, List.foldl_cons] at ih ⊢; rw [ih]; simp [applyGate]
    rw [this]; exact hlenZ m hm
  have hid' : TabEq n (runGates (cs' ++ fwd) (zeroState n)) (zeroState n) := by
    intro m hm
    rw [runGates_append, getRow_runGates _ _ m (hlen cs' m hm), getRow_runGates _ _ m (hlenZ m hm),
      actAll_invert n cs' hag hcs']
    exact RowEq.refl n _
  have hid : TabEq n (runGates (cs ++ fwd) (zeroState n)) (zeroState n) := by
    intro m hm
    have h1 := rowEq_actAll n fwd hfag hfok (hE m hm)
    rw [getRow_runGates _ _ m (hlenZ m hm), actAll_invert n cs' hag hcs'] at h1
    rw [runGates_append, getRow_runGates _ _ m (hlen cs m hm)]
    exact h1.symm
  have hok1 : ∀ g ∈ cs ++ fwd, g.ok n := fun g hg => by
    rcases List.mem_append.1 hg with h | h
    · exact hcs g h
    · exact hfok g h
  have hok2 : ∀ g ∈ cs' ++ fwd, g.ok n := fun g hg => by
    rcases List.mem_append.1 hg with h | h
    · exact hcs' g h
    · exact hfok g h
  obtain ⟨s1, nz1⟩ := zero_tableau_state n hS (cs ++ fwd) hok1 hid
  obtain ⟨s2, nz2⟩ := zero_tableau_state n hS (cs' ++ fwd) hok2 hid'
  refine ⟨runSV n (cs' ++ fwd) lab0, runSV n (cs ++ fwd) lab0, nz2, nz1, ?_⟩
  set a := runSV n (cs' ++ fwd) lab0 with ha
  set b := runSV n (cs ++ fwd) lab0 with hb
  -- χ = a ψ₁ − b ψ₂ is sent to 0 on the register by the inverse circuit
  let χ : Lab → GI := fun x => a * runSV n cs x + (-b) * runSV n cs' x
  have himg : runCircuit (fwd.map Gate.mgate) χ
      = fun x => a * runSV n (cs ++ fwd) x + (-b) * runSV n (cs' ++ fwd) x := by
    show runCircuit (fwd.map Gate.mgate) (fun x => a * runSV n cs x + (-b) * runSV n cs' x) = _
    rw [runCircuit_add, runCircuit_smul, runCircuit_smul, runSV_append, runSV_append]
  have hzero : ∀ x, InReg n x → runCircuit (fwd.map Gate.mgate) χ x = 0 := by
    intro x hx
    rw [himg]
    by_cases hx0 : x = lab0
    · subst hx0
      show a * b + (-b) * a = 0
      ring
    · show a * runSV n (cs ++ fwd) x + (-b) * runSV n (cs' ++ fwd) x = 0
      rw [s1 x hx hx0, s2 x hx hx0]
      ring
  intro x hx
  have := runCircuit_injective_inReg n fwd hfok χ hzero x hx
  have h' : a * runSV n cs x + (-b) * runSV n cs' x = 0 := this
  rw [neg_mul, ← sub_eq_add_neg, sub_eq_zero] at h'
  exact h'

end QV.Cliff
