/-
  Lemmas about the custom-gate model `QV.Model.QasmDef`: the loops of
  `_construct_fused_gate` as maps, substitution composes (`dict(zip(...))` of substituted
  actuals), the substitution lemma of inlining, and the representation invariant between
  the reader's `defined_gates` and the list of definitions read so far.
-/
import QV.Model.QasmDef
import Mathlib.Tactic.Common

namespace QV.QasmDef

variable {ν : Type}

/-! ### dictionaries -/

theorem dictGet_dictSet {β : Type} (d : List (String × β)) (k q : String) (v : β) :
    dictGet (dictSet d k v) q = if k = q then some v else dictGet d q := by
  induction d with
  | nil => simp [dictSet, dictGet]
  | cons a d ih =>
    obtain ⟨k', v'⟩ := a
    by_cases h : k' = k
    · subst h
      simp only [dictSet, if_true, dictGet]
      by_cases h2 : k' = q <;> simp [h2]
    · simp only [dictSet, h, if_false, dictGet, ih]
      by_cases h2 : k' = q
      · subst h2
        have : ¬ k = k' := fun e => h e.symm
        simp [this]
      · simp [h2]

/-- `dict(zip(keys, f(vals)))[k] = f(dict(zip(keys, vals))[k])` -/
theorem getLast_zip_map {α β : Type} (f : α → β) (ks : List String) (vs : List α) (k : String) :
    getLast (ks.zip (vs.map f)) k = (getLast (ks.zip vs) k).map f := by
  induction ks generalizing vs with
  | nil => simp [getLast]
  | cons a ks ih =>
    cases vs with
    | nil => simp [getLast]
    | cons v vs =>
      simp only [List.map_cons, List.zip_cons_cons, getLast, ih]
      cases getLast (ks.zip vs) k with
      | some w => simp
      | none =>
        by_cases h : a = k <;> simp [h]

theorem getLast_zip_isSome {α : Type} (ks : List String) (vs : List α) (k : String)
    (hl : ks.length = vs.length) (hk : k ∈ ks) : ∃ v, getLast (ks.zip vs) k = some v := by
  induction ks generalizing vs with
  | nil => cases hk
  | cons a ks ih =>
    cases vs with
    | nil => simp at hl
    | cons v vs =>
      simp only [List.length_cons, Nat.add_right_cancel_iff] at hl
      simp only [List.zip_cons_cons, getLast]
      cases hg : getLast (ks.zip vs) k with
      | some w => exact ⟨w, rfl⟩
      | none =>
        rcases List.mem_cons.1 hk with h | h
        · subst h; exact ⟨v, by simp⟩
        · obtain ⟨w, hw⟩ := ih vs hl h
          rw [hw] at hg; cases hg

/-! ### `substQs` -/

theorem substQs_length (qm : List (String × QArg)) (l l' : List QArg)
    (h : substQs qm l = some l') : l'.length = l.length := by
  induction l generalizing l' with
  | nil => simp [substQs] at h; subst h; rfl
  | cons q qs ih =>
    simp only [substQs] at h
    cases hq : substQ qm q with
    | none => simp [hq] at h
    | some q' =>
      cases hs : substQs qm qs with
      | none => simp [hq, hs] at h
      | some qs' =>
        simp only [hq, hs, Option.some.injEq] at h
        subst h
        simp [ih qs' hs]

theorem substQs_append_some (qm : List (String × QArg)) (a b : List QArg) (r : List QArg)
    (h : substQs qm (a ++ b) = some r) : ∃ x, substQs qm a = some x := by
  induction a generalizing r with
  | nil => exact ⟨[], rfl⟩
  | cons q qs ih =>
    simp only [List.cons_append, substQs] at h ⊢
    cases hq : substQ qm q with
    | none => simp [hq] at h
    | some q' =>
      cases hs : substQs qm (qs ++ b) with
      | none => simp [hq, hs] at h
      | some r' =>
        obtain ⟨x, hx⟩ := ih r' hs
        exact ⟨q' :: x, by simp [hx]⟩

theorem getLast_zip_mem {α : Type} (ks : List String) (vs : List α) (k : String) (v : α)
    (h : getLast (ks.zip vs) k = some v) : v ∈ vs := by
  induction ks generalizing vs with
  | nil => simp [getLast] at h
  | cons a ks ih =>
    cases vs with
    | nil => simp [getLast] at h
    | cons u us =>
      simp only [List.zip_cons_cons, getLast] at h
      cases hg : getLast (ks.zip us) k with
      | some w =>
        simp only [hg, Option.some.injEq] at h
        subst h
        exact List.mem_cons_of_mem _ (ih us hg)
      | none =>
        simp only [hg] at h
        by_cases ha : a = k
        · simp only [ha, if_true, Option.some.injEq] at h
          subst h; simp
        · simp [ha] at h

theorem substQs_mem_some (qm : List (String × QArg)) (l l' : List QArg)
    (h : substQs qm l = some l') : ∀ q ∈ l, ∃ q', substQ qm q = some q' := by
  induction l generalizing l' with
  | nil => intro q hq; cases hq
  | cons a as ih =>
    simp only [substQs] at h
    cases ha : substQ qm a with
    | none => simp [ha] at h
    | some a' =>
      cases hs : substQs qm as with
      | none => simp [ha, hs] at h
      | some r =>
        intro q hq
        rcases List.mem_cons.1 hq with e | e
        · subst e; exact ⟨a', ha⟩
        · exact ih r hs q e

theorem substQs_some_of_forall (qm : List (String × QArg)) (l : List QArg)
    (h : ∀ q ∈ l, ∃ q', substQ qm q = some q') : ∃ l', substQs qm l = some l' := by
  induction l with
  | nil => exact ⟨[], rfl⟩
  | cons a as ih =>
    obtain ⟨a', ha⟩ := h a (by simp)
    obtain ⟨r, hr⟩ := ih fun q hq => h q (by simp [hq])
    exact ⟨a' :: r, by simp [substQs, ha, hr]⟩

/-- the image of `zip(formals, actuals)` lies in the actuals -/
theorem substQs_zip_range (ks : List String) (vs l l1 : List QArg)
    (h : substQs (ks.zip vs) l = some l1) : ∀ q ∈ l1, q ∈ vs := by
  induction l generalizing l1 with
  | nil => simp [substQs] at h; subst h; intro q hq; cases hq
  | cons a as ih =>
    simp only [substQs] at h
    cases ha : substQ (ks.zip vs) a with
    | none => simp [ha] at h
    | some a' =>
      cases hs : substQs (ks.zip vs) as with
      | none => simp [ha, hs] at h
      | some r =>
        simp only [ha, hs, Option.some.injEq] at h
        subst h
        intro q hq
        rcases List.mem_cons.1 hq with e | e
        · subst e
          cases a with
          | idx n => simp [substQ] at ha
          | name y => exact getLast_zip_mem ks vs y _ ha
        · exact ih r hs q e

/-- the composed qubit map: `zip(formals, σ(actuals))` looks up as `σ ∘ zip(formals, actuals)` -/
theorem substQ_zip_comp (qm : List (String × QArg)) (ks : List String) (vs vs' : List QArg)
    (h : substQs qm vs = some vs') (q : QArg) :
    substQ (ks.zip vs') q = (substQ (ks.zip vs) q).bind (substQ qm) := by
  cases q with
  | idx n => simp [substQ]
  | name y =>
    simp only [substQ]
    induction ks generalizing vs vs' with
    | nil => simp [getLast]
    | cons a ks ih =>
      cases vs with
      | nil =>
        simp [substQs] at h; subst h; simp [getLast]
      | cons v vs =>
        simp only [substQs] at h
        cases hq : substQ qm v with
        | none => simp [hq] at h
        | some v' =>
          cases hs : substQs qm vs with
          | none => simp [hq, hs] at h
          | some r =>
            simp only [hq, hs, Option.some.injEq] at h
            subst h
            simp only [List.zip_cons_cons, getLast, ih vs r hs]
            cases hg : getLast (ks.zip vs) y with
            | some w =>
              -- the later pair wins in both; σ succeeds on every actual
              have : ∃ w', substQ qm w = some w' :=
                substQs_mem_some qm vs r hs w (getLast_zip_mem ks vs y w hg)
              obtain ⟨w', hw'⟩ := this
              simp [Option.bind, hw']
            | none =>
              by_cases ha : a = y <;> simp [ha, Option.bind, hq]

theorem substQs_zip_comp (qm : List (String × QArg)) (ks : List String) (vs vs' : List QArg)
    (h : substQs qm vs = some vs') (l : List QArg) :
    substQs (ks.zip vs') l = (substQs (ks.zip vs) l).bind (substQs qm) := by
  induction l with
  | nil => simp [substQs, Option.bind]
  | cons q qs ih =>
    simp only [substQs, substQ_zip_comp qm ks vs vs' h q, ih]
    cases h1 : substQ (ks.zip vs) q with
    | none => simp [Option.bind]
    | some q1 =>
      cases h2 : substQs (ks.zip vs) qs with
      | none =>
        simp only [Option.bind]
        cases substQ qm q1 <;> rfl
      | some qs1 =>
        simp only [Option.bind, substQs]

/-! ### `_construct_fused_gate` as a map -/

/-- every gate of a list compiled -/
def compileAll (qm : List (String × QArg)) (am : List (String × Arg ν)) :
    List (Prim ν) → Option (List (Prim ν))
  | [] => some []
  | p :: ps =>
    match compilePrim qm am p, compileAll qm am ps with
    | some a, some b => some (a :: b)
    | _, _ => none

/-- what the loop appends for one stored gate -/
def compileSG (qm : List (String × QArg)) (am : List (String × Arg ν)) : SG ν → Option (List (Prim ν))
  | .prim p => compileAll qm am [p]
  | .fused g =>
    match substQs qm g.qs with
    | none => none
    | some _ => compileAll qm am g.gates

def SG.headQs : SG ν → List QArg
  | .prim p => p.qs
  | .fused g => g.qs

theorem compileAll_append (qm : List (String × QArg)) (am : List (String × Arg ν))
    (a b : List (Prim ν)) :
    compileAll qm am (a ++ b) =
      match compileAll qm am a, compileAll qm am b with
      | some x, some y => some (x ++ y)
      | _, _ => none := by
  induction a with
  | nil =>
    simp only [List.nil_append, compileAll]
    cases compileAll qm am b <;> rfl
  | cons p ps ih =>
    simp only [List.cons_append, compileAll, ih]
    cases compilePrim qm am p <;> cases compileAll qm am ps <;> cases compileAll qm am b <;> simp

theorem constructPrims_spec (qm : List (String × QArg)) (am : List (String × Arg ν))
    (ps : List (Prim ν)) (f f' : Fused ν) (h : constructPrims qm am ps f = some f') :
    ∃ out, compileAll qm am ps = some out ∧ f'.gates = f.gates ++ out
      ∧ ∃ more, f'.qs = f.qs ++ more := by
  induction ps generalizing f with
  | nil =>
    simp only [constructPrims, Option.some.injEq] at h; subst h
    exact ⟨[], rfl, by simp, [], by simp⟩
  | cons p ps ih =>
    simp only [constructPrims] at h
    cases hp : compilePrim qm am p with
    | none => simp [hp] at h
    | some p' =>
      simp only [hp] at h
      obtain ⟨out, ho, hg, more, hm⟩ := ih _ h
      refine ⟨p' :: out, by simp [compileAll, hp, ho], ?_, p'.qs ++ more, ?_⟩
      · simp [hg, Fused.appendPrim]
      · simp [hm, Fused.appendPrim]

theorem construct_spec (qm : List (String × QArg)) (am : List (String × Arg ν))
    (gs : List (SG ν)) (f f' : Fused ν) (h : construct qm am gs f = some f') :
    ∃ out, flatMapM (compileSG qm am) gs = some out ∧ f'.gates = f.gates ++ out
      ∧ ∃ more, f'.qs = f.qs ++ more := by
  induction gs generalizing f with
  | nil =>
    simp only [construct, Option.some.injEq] at h; subst h
    exact ⟨[], rfl, by simp, [], by simp⟩
  | cons g gs ih =>
    cases g with
    | prim p =>
      simp only [construct] at h
      cases hp : compilePrim qm am p with
      | none => simp [hp] at h
      | some p' =>
        simp only [hp] at h
        obtain ⟨out, ho, hg, more, hm⟩ := ih _ h
        refine ⟨p' :: out, by simp [flatMapM, compileSG, compileAll, hp, ho], ?_, p'.qs ++ more, ?_⟩
        · simp [hg, Fused.appendPrim]
        · simp [hm, Fused.appendPrim]
    | fused g =>
      simp only [construct] at h
      cases hq : substQs qm g.qs with
      | none => simp [hq] at h
      | some qs' =>
        simp only [hq] at h
        cases hi : constructPrims qm am g.gates ⟨qs', []⟩ with
        | none => simp [hi] at h
        | some inner =>
          simp only [hi] at h
          obtain ⟨o1, ho1, hg1, -⟩ := constructPrims_spec qm am g.gates _ _ hi
          obtain ⟨out, ho, hg, more, hm⟩ := ih _ h
          refine ⟨o1 ++ out, by simp [flatMapM, compileSG, hq, ho1, ho], ?_, inner.qs ++ more, ?_⟩
          · simp only [List.nil_append] at hg1
            simp [hg, Fused.appendFused, hg1]
          · simp [hm, Fused.appendFused]

theorem compileSG_flat (qm : List (String × QArg)) (am : List (String × Arg ν)) (g : SG ν)
    (ps : List (Prim ν)) (h : compileSG qm am g = some ps) :
    compileAll qm am g.flat = some ps ∧ ∃ x, substQs qm g.headQs = some x := by
  cases g with
  | prim p =>
    simp only [compileSG, SG.flat, SG.headQs] at h ⊢
    refine ⟨h, ?_⟩
    simp only [compileAll, compilePrim] at h
    cases hq : substQs qm p.qs with
    | none => simp [hq] at h
    | some x => exact ⟨x, rfl⟩
  | fused g =>
    simp only [compileSG, SG.flat, SG.headQs] at h ⊢
    cases hq : substQs qm g.qs with
    | none => simp [hq] at h
    | some x => simp only [hq] at h; exact ⟨h, x, rfl⟩

/-! ### `flatMapM` -/

theorem flatMapM_congr {α β : Type} (f g : α → Option (List β)) (l : List α)
    (h : ∀ a ∈ l, f a = g a) : flatMapM f l = flatMapM g l := by
  induction l with
  | nil => rfl
  | cons a as ih =>
    simp only [flatMapM, h a (by simp), ih fun b hb => h b (by simp [hb])]

/-- mapping `compileAll` over the pieces = over the concatenation -/
theorem flatMapM_bind {α : Type} (qm : List (String × QArg)) (am : List (String × Arg ν))
    (F : α → Option (List (Prim ν))) (l : List α) :
    flatMapM (fun s => (F s).bind (compileAll qm am)) l = (flatMapM F l).bind (compileAll qm am) := by
  induction l with
  | nil => simp [flatMapM, Option.bind, compileAll]
  | cons a as ih =>
    simp only [flatMapM, ih]
    cases hF : F a with
    | none => simp [Option.bind]
    | some x =>
      cases hR : flatMapM F as with
      | none =>
        simp only [Option.bind]
        cases compileAll qm am x <;> rfl
      | some y =>
        simp only [Option.bind, compileAll_append]
        cases compileAll qm am x <;> cases compileAll qm am y <;> rfl

/-! ### substitution composes on a well-scoped statement -/

theorem substA_zip_comp (am : List (String × Arg ν)) (fs : List String) (vs : List (Arg ν))
    (hl : fs.length = vs.length) (a : Arg ν) (ha : a.scopedIn fs = true) :
    substA (fs.zip (vs.map (substA am))) a = substA am (substA (fs.zip vs) a) := by
  cases a with
  | val v => rfl
  | sym x =>
    simp only [Arg.scopedIn, List.contains_iff_mem] at ha
    obtain ⟨v, hv⟩ := getLast_zip_isSome fs vs x hl ha
    simp [substA, getLast_zip_map, hv]

/-- `σ(τ_c(s)) = τ_{σ(c)}(s)` for a body statement `s` whose identifiers are formals -/
theorem substCall_comp (qm : List (String × QArg)) (am : List (String × Arg ν))
    (fs qf : List String) (c c' s : Call ν) (hl : fs.length = c.args.length)
    (hc : substCall qm am c = some c') (hs : s.args.all (Arg.scopedIn fs) = true) :
    substCall (qf.zip c'.qs) (fs.zip c'.args) s
      = (substCall (qf.zip c.qs) (fs.zip c.args) s).bind (substCall qm am) := by
  simp only [substCall] at hc
  cases hq : substQs qm c.qs with
  | none => simp [hq] at hc
  | some qs' =>
    simp only [hq, Option.some.injEq] at hc
    subst hc
    simp only [substCall, substQs_zip_comp qm qf c.qs qs' hq s.qs]
    cases h1 : substQs (qf.zip c.qs) s.qs with
    | none => simp [Option.bind]
    | some q1 =>
      simp only [Option.bind, substCall]
      cases h2 : substQs qm q1 with
      | none => rfl
      | some q2 =>
        simp only [Option.some.injEq, Call.mk.injEq, true_and, and_true, List.map_map]
        apply List.map_congr_left
        intro a ha
        simp only [List.all_eq_true] at hs
        exact substA_zip_comp am fs c.args hl a (hs a ha)

theorem substCall_name (qm : List (String × QArg)) (am : List (String × Arg ν)) (c c' : Call ν)
    (h : substCall qm am c = some c') :
    c'.name = c.name ∧ c'.args.length = c.args.length ∧ c'.qs.length = c.qs.length
      ∧ compileAll qm am [⟨x, c.qs, c.args⟩] = some [⟨x, c'.qs, c'.args⟩] := by
  simp only [substCall] at h
  cases hq : substQs qm c.qs with
  | none => simp [hq] at h
  | some qs' =>
    simp only [hq, Option.some.injEq] at h
    subst h
    simp [compileAll, compilePrim, hq, substQs_length qm _ _ hq]

/-! ### the substitution lemma of inlining -/

theorem inline_subst (B : Builtins) (ds : List (Def ν)) (hs : ∀ d ∈ ds, d.scoped = true)
    (qm : List (String × QArg)) (am : List (String × Arg ν)) (c c' : Call ν)
    (h : substCall qm am c = some c') :
    inline B ds c' = (inline B ds c).bind (compileAll qm am) := by
  induction ds generalizing c c' qm am with
  | nil =>
    obtain ⟨hn, ha, hq, hp⟩ := substCall_name (x := (B.cls c.name).getD "") qm am c c' h
    simp only [inline, hn]
    cases hb : B.cls c.name with
    | none => simp [Option.bind]
    | some cls =>
      simp only [hb, Option.getD] at hp
      simp only [mkPrim, ha, hq]
      split
      · simp [Option.bind, hp]
      · simp [Option.bind]
  | cons d older ih =>
    obtain ⟨hn, ha, hq, hp⟩ := substCall_name (x := (B.cls c.name).getD "") qm am c c' h
    simp only [inline, hn]
    cases hb : B.cls c.name with
    | some cls =>
      simp only [hb, Option.getD] at hp
      simp only [mkPrim, ha, hq]
      split
      · simp [Option.bind, hp]
      · simp [Option.bind]
    | none =>
      simp only
      by_cases hd : d.name = c.name
      · simp only [hd, if_true, ha, hq]
        by_cases h1 : d.formals.length ≠ c.args.length
        · simp [h1, Option.bind]
        · simp only [h1, if_false]
          by_cases h2 : d.qformals.length ≠ c.qs.length
          · simp [h2, Option.bind]
          · simp only [h2, if_false]
            have hl : d.formals.length = c.args.length := by simpa using h1
            rw [← flatMapM_bind]
            apply flatMapM_congr
            intro s hsmem
            have hsc : s.args.all (Arg.scopedIn d.formals) = true := by
              have := hs d (by simp)
              simp only [Def.scoped, List.all_eq_true] at this
              simpa [List.all_eq_true] using this s hsmem
            rw [substCall_comp qm am d.formals d.qformals c c' s hl h hsc]
            cases h3 : substCall (d.qformals.zip c.qs) (d.formals.zip c.args) s with
            | none => simp [Option.bind]
            | some s1 =>
              simp only [Option.bind]
              cases h4 : substCall qm am s1 with
              | none =>
                -- impossible: the qubits of `s1` are actual qubits of `c`, all bound by σ
                exfalso
                simp only [substCall] at h3 h4 h
                cases h5 : substQs (d.qformals.zip c.qs) s.qs with
                | none => simp [h5] at h3
                | some q1 =>
                  simp only [h5, Option.some.injEq] at h3
                  subst h3
                  cases h6 : substQs qm c.qs with
                  | none => simp [h6] at h
                  | some z =>
                    obtain ⟨l', hl'⟩ := substQs_some_of_forall qm q1 fun q hq =>
                      substQs_mem_some qm c.qs z h6 q (substQs_zip_range _ _ _ _ h5 q hq)
                    simp [hl'] at h4
              | some s2 =>
                exact ih (fun d' hd' => hs d' (by simp [hd'])) qm am s1 s2 h4
      · simp only [hd, if_false]
        exact ih (fun d' hd' => hs d' (by simp [hd'])) qm am c c' h

/-! ### the reader's `defined_gates` represents the definitions read so far -/

/-- `env` is what `_def_gate` builds from the definitions `ds` (most recent first) -/
inductive Rep (B : Builtins) : List (String × Stored ν) → List (Def ν) → Prop
  | nil : Rep B [] []
  | cons (env : List (String × Stored ν)) (ds : List (Def ν)) (d : Def ν) (gs : List (SG ν)) :
      Rep B env ds → getGates B env d.body = some gs →
      Rep B (dictSet env d.name ⟨d.name, gs, d.qformals, d.formals⟩) (d :: ds)

theorem getGate_headQs (B : Builtins) (env : List (String × Stored ν)) (c : Call ν) (g : SG ν)
    (h : getGate B env c = some g) : ∃ more, g.headQs = c.qs ++ more := by
  simp only [getGate] at h
  cases hb : B.cls c.name with
  | some cls =>
    simp only [hb] at h
    split at h
    · simp only [Option.some.injEq] at h; subst h; exact ⟨[], by simp [SG.headQs]⟩
    · cases h
  | none =>
    simp only [hb] at h
    cases hd : dictGet env c.name with
    | none => simp [hd] at h
    | some st =>
      simp only [hd] at h
      cases hg : st.getGate c.qs c.args with
      | none => simp [hg] at h
      | some f =>
        simp only [hg, Option.some.injEq] at h
        subst h
        simp only [Stored.getGate] at hg
        split at hg
        · cases hg
        · split at hg
          · cases hg
          · obtain ⟨_, _, _, more, hm⟩ := construct_spec _ _ _ _ _ hg
            exact ⟨more, by simpa [SG.headQs] using hm⟩

/-- the body loop: rebuilding the stored gates of a definition under the call's maps gives
what inlining the substituted body statements gives -/
theorem body_inline (B : Builtins) (env : List (String × Stored ν)) (ds : List (Def ν))
    (hs : ∀ d ∈ ds, d.scoped = true)
    (IH : ∀ (c : Call ν) (g : SG ν), getGate B env c = some g → inline B ds c = some g.flat)
    (qm : List (String × QArg)) (am : List (String × Arg ν))
    (body : List (Call ν)) (gs : List (SG ν)) (out : List (Prim ν))
    (hg : getGates B env body = some gs) (ho : flatMapM (compileSG qm am) gs = some out) :
    flatMapM (fun s =>
        match substCall qm am s with
        | none => none
        | some s' => inline B ds s') body = some out := by
  induction body generalizing gs out with
  | nil =>
    simp only [getGates, Option.some.injEq] at hg; subst hg
    simpa [flatMapM] using ho
  | cons s body ih =>
    simp only [getGates] at hg
    cases h1 : getGate B env s with
    | none => simp [h1] at hg
    | some g =>
      cases h2 : getGates B env body with
      | none => simp [h1, h2] at hg
      | some gs' =>
        simp only [h1, h2, Option.some.injEq] at hg
        subst hg
        simp only [flatMapM] at ho
        cases h3 : compileSG qm am g with
        | none => simp [h3] at ho
        | some ps =>
          cases h4 : flatMapM (compileSG qm am) gs' with
          | none => simp [h3, h4] at ho
          | some out' =>
            simp only [h3, h4, Option.some.injEq] at ho
            subst ho
            obtain ⟨hflat, x, hx⟩ := compileSG_flat qm am g ps h3
            obtain ⟨more, hm⟩ := getGate_headQs B env s g h1
            rw [hm] at hx
            obtain ⟨qs', hqs'⟩ := substQs_append_some qm s.qs more x hx
            have hsub : substCall qm am s = some ⟨s.name, s.args.map (substA am), qs'⟩ := by
              simp [substCall, hqs']
            have := inline_subst B ds hs qm am s _ hsub
            rw [IH s g h1] at this
            simp only [Option.bind, hflat] at this
            simp only [flatMapM, hsub, this, ih gs' out' h2 h4]

/-- `_get_gate` returns a gate whose plain content is the inlining of the call -/
theorem getGate_inline (B : Builtins) (env : List (String × Stored ν)) (ds : List (Def ν))
    (hr : Rep B env ds) (hs : ∀ d ∈ ds, d.scoped = true) (c : Call ν) (g : SG ν)
    (h : getGate B env c = some g) : inline B ds c = some g.flat := by
  induction hr generalizing c g with
  | nil =>
    simp only [getGate, dictGet] at h
    simp only [inline, mkPrim]
    cases hb : B.cls c.name with
    | none => simp [hb] at h
    | some cls =>
      simp only [hb] at h ⊢
      split at h
      · rename_i hc
        simp only [Option.some.injEq] at h; subst h
        simp [hc, SG.flat]
      · cases h
  | cons env ds d gs hr hgs ih =>
    have hs' : ∀ d' ∈ ds, d'.scoped = true := fun d' hd' => hs d' (by simp [hd'])
    simp only [getGate, dictGet_dictSet] at h
    simp only [inline, mkPrim]
    cases hb : B.cls c.name with
    | some cls =>
      simp only [hb] at h ⊢
      split at h
      · rename_i hc
        simp only [Option.some.injEq] at h; subst h
        simp [hc, SG.flat]
      · cases h
    | none =>
      simp only [hb] at h ⊢
      by_cases hd : d.name = c.name
      · simp only [hd, if_true] at h ⊢
        cases hg : Stored.getGate ⟨c.name, gs, d.qformals, d.formals⟩ c.qs c.args with
        | none => simp [hg] at h
        | some f =>
          simp only [hg, Option.some.injEq] at h
          subst h
          simp only [Stored.getGate] at hg
          by_cases h1 : d.formals.length ≠ c.args.length
          · simp [h1] at hg
          · simp only [h1, if_false] at hg ⊢
            by_cases h2 : d.qformals.length ≠ c.qs.length
            · simp [h2] at hg
            · simp only [h2, if_false] at hg ⊢
              obtain ⟨out, ho, hgates, -⟩ := construct_spec _ _ _ _ _ hg
              simp only [List.nil_append] at hgates
              simp only [SG.flat, hgates]
              exact body_inline B env ds hs' (fun c g h => ih hs' c g h) _ _ d.body gs out hgs ho
      · simp only [hd, if_false] at h ⊢
        apply ih hs'
        simpa [getGate, hb] using h

/-- the statement loop: the gates handed to `Circuit.add`, flattened, are the inlining of
the program -/
theorem run_inline (B : Builtins) (env : List (String × Stored ν)) (ds : List (Def ν))
    (hr : Rep B env ds) (hs : ∀ d ∈ ds, d.scoped = true) (prog : List (Stmt ν))
    (hp : ∀ d ∈ progDefs prog, d.scoped = true) (gs : List (SG ν))
    (h : run B env prog = some gs) : inlineProg B ds prog = some (flatten gs) := by
  induction prog generalizing env ds gs with
  | nil =>
    simp only [run, Option.some.injEq] at h; subst h
    simp [inlineProg, flatten]
  | cons st rest ih =>
    cases st with
    | call c =>
      simp only [run] at h
      cases h1 : getGate B env c with
      | none => simp [h1] at h
      | some g =>
        cases h2 : run B env rest with
        | none => simp [h1, h2] at h
        | some gs' =>
          simp only [h1, h2, Option.some.injEq] at h
          subst h
          have hp' : ∀ d ∈ progDefs rest, d.scoped = true := by simpa [progDefs] using hp
          simp [inlineProg, getGate_inline B env ds hr hs c g h1, ih env ds hr hs hp' gs' h2, flatten]
    | gdef d =>
      simp only [run, defGate] at h
      cases h1 : getGates B env d.body with
      | none => simp [h1] at h
      | some body =>
        simp only [h1] at h
        have hp' : ∀ d' ∈ progDefs rest, d'.scoped = true := fun d' hd' => hp d' (by simp [progDefs, hd'])
        have hd : d.scoped = true := hp d (by simp [progDefs])
        simp only [inlineProg]
        exact ih _ (d :: ds) (Rep.cons env ds d body hr h1)
          (fun d' hd' => by rcases List.mem_cons.1 hd' with e | e; exact e ▸ hd; exact hs d' e) hp' gs h

/-! ### a fused gate covers the qubits of its gates -/

def Fused.Covers (f : Fused ν) : Prop := ∀ p ∈ f.gates, ∀ q ∈ p.qs, q ∈ f.qs

theorem covers_appendPrim (f : Fused ν) (p : Prim ν) (h : f.Covers) : (f.appendPrim p).Covers := by
  intro p' hp' q hq
  simp only [Fused.appendPrim, List.mem_append, List.mem_singleton] at hp' ⊢
  rcases hp' with e | e
  · exact Or.inl (h p' e q hq)
  · subst e; exact Or.inr hq

theorem covers_appendFused (f g : Fused ν) (h : f.Covers) (hg : g.Covers) :
    (f.appendFused g).Covers := by
  intro p' hp' q hq
  simp only [Fused.appendFused, List.mem_append] at hp' ⊢
  rcases hp' with e | e
  · exact Or.inl (h p' e q hq)
  · exact Or.inr (hg p' e q hq)

theorem constructPrims_covers (qm : List (String × QArg)) (am : List (String × Arg ν))
    (ps : List (Prim ν)) (f f' : Fused ν) (h : constructPrims qm am ps f = some f')
    (hc : f.Covers) : f'.Covers := by
  induction ps generalizing f with
  | nil => simp only [constructPrims, Option.some.injEq] at h; subst h; exact hc
  | cons p ps ih =>
    simp only [constructPrims] at h
    cases hp : compilePrim qm am p with
    | none => simp [hp] at h
    | some p' =>
      simp only [hp] at h
      exact ih _ h (covers_appendPrim f p' hc)

theorem construct_covers (qm : List (String × QArg)) (am : List (String × Arg ν))
    (gs : List (SG ν)) (f f' : Fused ν) (h : construct qm am gs f = some f')
    (hc : f.Covers) : f'.Covers := by
  induction gs generalizing f with
  | nil => simp only [construct, Option.some.injEq] at h; subst h; exact hc
  | cons g gs ih =>
    cases g with
    | prim p =>
      simp only [construct] at h
      cases hp : compilePrim qm am p with
      | none => simp [hp] at h
      | some p' =>
        simp only [hp] at h
        exact ih _ h (covers_appendPrim f p' hc)
    | fused g =>
      simp only [construct] at h
      cases hq : substQs qm g.qs with
      | none => simp [hq] at h
      | some qs' =>
        simp only [hq] at h
        cases hi : constructPrims qm am g.gates ⟨qs', []⟩ with
        | none => simp [hi] at h
        | some inner =>
          simp only [hi] at h
          have hin : inner.Covers :=
            constructPrims_covers qm am g.gates _ _ hi (by intro p hp; cases hp)
          exact ih _ h (covers_appendFused f inner hc hin)

end QV.QasmDef
