/-
  QV.Proofs.GateBinding — invariants of QV/Model/GateBinding.lean for the repaired logic.
-/
import QV.Model.GateBinding

namespace QV.GB

/-- the gates are bound to the circuit itself, which exists. -/
def GInv (σ : St) : Prop := σ.bound = 0 ∧ 1 ≤ σ.finals.length

/-- the gate-level result describes execution `e`: bound to the circuit, whose `_final_state` is
`e`, and either nothing is registered yet and `e` has not drawn, or `e`'s rows are registered. -/
def Fresh (σ : St) (e : Nat) : Prop :=
  σ.bound = 0 ∧ (σ.finals[0]?).join = some e ∧
    ((σ.cache = none ∧ σ.drawn[e]? = some false) ∨ σ.cache = some e)

theorem step_ginv (c : Cfg) (hc : c.rebind = true) (σ : St) (op : Op) (h : GInv σ) :
    GInv (step c σ op).1 := by
  obtain ⟨hb, hl⟩ := h
  cases op with
  | plain => exact ⟨hb, by simpa [step] using hl⟩
  | prep => simp [step, hc, GInv]
  | readGate =>
    simp only [step]
    cases σ.cache with
    | some e => exact ⟨hb, hl⟩
    | none =>
      simp only
      cases (σ.finals[σ.bound]?).join with
      | none => exact ⟨hb, hl⟩
      | some e => simp only; split <;> exact ⟨hb, hl⟩
  | readRes e =>
    simp only [step]
    cases hd : σ.drawn[e]? with
    | none => exact ⟨hb, hl⟩
    | some b => cases b <;> exact ⟨hb, hl⟩

theorem step_drawn_length (c : Cfg) (σ : St) (op : Op) :
    (step c σ op).1.drawn.length = σ.drawn.length + (if op.isExec then 1 else 0) := by
  cases op with
  | plain => simp [step, Op.isExec]
  | prep => simp [step, Op.isExec]
  | readGate =>
    simp only [step, Op.isExec]
    cases σ.cache with
    | some e => rfl
    | none =>
      simp only
      cases (σ.finals[σ.bound]?).join with
      | none => rfl
      | some e => simp only; split <;> simp
  | readRes e =>
    simp only [step, Op.isExec]
    cases hd : σ.drawn[e]? with
    | none => rfl
    | some b => cases b <;> simp

theorem nexec_cons (op : Op) (h : List Op) : nexec (op :: h) = (if op.isExec then 1 else 0) + nexec h := by
  unfold nexec
  cases hop : op.isExec <;> simp [hop]; omega

theorem stateAfter_ginv (c : Cfg) (hc : c.rebind = true) : ∀ (h : List Op) (σ : St), GInv σ →
    GInv (stateAfter c σ h) ∧ (stateAfter c σ h).drawn.length = σ.drawn.length + nexec h
  | [], σ, hσ => ⟨hσ, by simp [stateAfter, nexec]⟩
  | op :: ops, σ, hσ => by
    have ih := stateAfter_ginv c hc ops (step c σ op).1 (step_ginv c hc σ op hσ)
    refine ⟨ih.1, ?_⟩
    show (stateAfter c (step c σ op).1 ops).drawn.length = _
    rw [ih.2, step_drawn_length, nexec_cons]; omega

theorem stateAfter_append (c : Cfg) : ∀ (h1 h2 : List Op) (σ : St),
    stateAfter c σ (h1 ++ h2) = stateAfter c (stateAfter c σ h1) h2
  | [], _, _ => rfl
  | op :: ops, h2, σ => by simp [stateAfter, stateAfter_append c ops h2]

/-- an execution makes the gate-level result describe it. -/
theorem exec_fresh (c : Cfg) (hc : c.rebind = true) (hr : c.resets = true) (σ : St) (x : Op)
    (hx : x.isExec = true) (h : GInv σ) : Fresh (step c σ x).1 σ.drawn.length := by
  obtain ⟨hb, hl⟩ := h
  cases x with
  | plain =>
    refine ⟨hb, ?_, Or.inl ⟨by simp [step, hr], ?_⟩⟩
    · simp only [step]; rw [List.getElem?_set_self (by omega)]; rfl
    · simp [step]
  | prep =>
    refine ⟨by simp [step, hc], ?_, Or.inl ⟨by simp [step, hr], ?_⟩⟩
    · simp only [step, hc, if_true]
      rw [List.getElem?_set_self (by simp)]; rfl
    · simp [step]
  | readGate => simp [Op.isExec] at hx
  | readRes e => simp [Op.isExec] at hx

/-- reading the gate-level result, or the described execution's own result, keeps it so; and the
gate-level read answers that execution's rows. -/
theorem read_fresh (c : Cfg) (σ : St) (e : Nat) (h : Fresh σ e) :
    (step c σ .readGate).2 = .rows e ∧ Fresh (step c σ .readGate).1 e ∧
    Fresh (step c σ (.readRes e)).1 e := by
  obtain ⟨hb, hf, hcase⟩ := h
  rcases hcase with ⟨hc, hd⟩ | hc
  · have hstep : step c σ .readGate =
        ({ σ with cache := some e, drawn := σ.drawn.set e true }, .rows e) := by
      simp [step, hc, hb, hf, hd]
    refine ⟨?_, ?_, ?_⟩
    · rw [hstep]
    · rw [hstep]; exact ⟨hb, hf, Or.inr rfl⟩
    · simp only [step, hd]
      exact ⟨hb, hf, Or.inr rfl⟩
  · refine ⟨by simp [step, hc], by simp only [step, hc]; exact ⟨hb, hf, Or.inr hc⟩, ?_⟩
    simp only [step]
    cases hd : σ.drawn[e]? with
    | none => exact ⟨hb, hf, Or.inr hc⟩
    | some b => cases b <;> exact ⟨hb, hf, Or.inr (by first | rfl | exact hc)⟩

theorem reads_fresh (c : Cfg) (e : Nat) : ∀ (after : List Op) (σ : St), Fresh σ e →
    (∀ op ∈ after, op = .readGate ∨ op = .readRes e) → Fresh (stateAfter c σ after) e
  | [], _, h, _ => h
  | op :: ops, σ, h, hall => by
    have hr := read_fresh c σ e h
    rcases hall op (List.mem_cons_self) with rfl | rfl
    · exact reads_fresh c e ops _ hr.2.1 (fun o ho => hall o (List.mem_cons_of_mem _ ho))
    · exact reads_fresh c e ops _ hr.2.2 (fun o ho => hall o (List.mem_cons_of_mem _ ho))

end QV.GB
