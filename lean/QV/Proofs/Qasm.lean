/-
  Lemmas about the QASM writer / reader model (`QV.Model.Qasm`): the reader run on the
  writer's output, phase by phase (register declarations, gate lines, measure lines,
  `_merge_measurements`, the `Circuit.add` loop).
-/
import QV.Model.Qasm

namespace QV.Qasm

/-! ### dictionaries -/

theorem dictGet_none {β : Type} (d : List (String × β)) (k : String)
    (h : k ∉ d.map Prod.fst) : dictGet d k = none := by
  induction d with
  | nil => rfl
  | cons a d ih =>
    obtain ⟨k', v⟩ := a
    simp only [List.map_cons, List.mem_cons, not_or] at h
    have hne : ¬ k' = k := fun e => h.1 e.symm
    simp [dictGet, hne, ih h.2]

theorem dictSet_new {β : Type} (d : List (String × β)) (k : String) (v : β)
    (h : k ∉ d.map Prod.fst) : dictSet d k v = d ++ [(k, v)] := by
  induction d with
  | nil => rfl
  | cons a d ih =>
    obtain ⟨k', v'⟩ := a
    simp only [List.map_cons, List.mem_cons, not_or] at h
    have hne : ¬ k' = k := fun e => h.1 e.symm
    simp [dictSet, hne, ih h.2]

theorem dictGet_mid {β : Type} (pre post : List (String × β)) (k : String) (v : β)
    (h : k ∉ pre.map Prod.fst) : dictGet (pre ++ (k, v) :: post) k = some v := by
  induction pre with
  | nil => simp [dictGet]
  | cons a d ih =>
    obtain ⟨k', v'⟩ := a
    simp only [List.map_cons, List.mem_cons, not_or] at h
    have hne : ¬ k' = k := fun e => h.1 e.symm
    simp [dictGet, hne, ih h.2]

theorem dictSet_mid {β : Type} (pre post : List (String × β)) (k : String) (v w : β)
    (h : k ∉ pre.map Prod.fst) :
    dictSet (pre ++ (k, v) :: post) k w = pre ++ (k, w) :: post := by
  induction pre with
  | nil => simp [dictSet]
  | cons a d ih =>
    obtain ⟨k', v'⟩ := a
    simp only [List.map_cons, List.mem_cons, not_or] at h
    have hne : ¬ k' = k := fun e => h.1 e.symm
    simp [dictSet, hne, ih h.2]

/-! ### the statement loop -/

theorem parse_append (s : St) (a b : List Line) :
    parse s (a ++ b) = (parse s a).bind fun s' => parse s' b := by
  induction a generalizing s with
  | nil => rfl
  | cons l ls ih =>
    simp only [List.cons_append, parse]
    cases step s l with
    | none => rfl
    | some s' => exact ih s'

theorem parse_append_of_eq {s s' : St} {a b : List Line} (h : parse s a = some s') :
    parse s (a ++ b) = parse s' b := by
  rw [parse_append, h]; rfl

/-- the state after `qreg q[n];` -/
def stQ (n : Nat) (cregs : List (String × List Nat)) (items : List Item) : St :=
  { nq := n, qregs := [("q", List.range n)], cregs := cregs, items := items }

theorem step_qreg (n : Nat) : step {} (.qreg "q" n) = some (stQ n [] []) := by
  simp [step, stQ, dictSet]

def cregInit (r : Reg) : String × List Nat := (r.name, List.range r.qubits.length)
def cregDone (r : Reg) : String × List Nat := (r.name, r.qubits)

theorem parse_cregs (n : Nat) (regs : List Reg) (pre : List (String × List Nat))
    (hnd : (regs.map (·.name)).Nodup)
    (hdis : ∀ r ∈ regs, r.name ∉ pre.map Prod.fst) :
    parse (stQ n pre []) (regs.map fun r => Line.creg r.name r.qubits.length)
      = some (stQ n (pre ++ regs.map cregInit) []) := by
  induction regs generalizing pre with
  | nil => simp [parse]
  | cons r rs ih =>
    simp only [List.map_cons, List.nodup_cons] at hnd
    have hr : r.name ∉ pre.map Prod.fst := hdis r (by simp)
    simp only [List.map_cons, parse, step, stQ]
    rw [dictSet_new _ _ _ hr]
    have := ih (pre ++ [(r.name, List.range r.qubits.length)]) hnd.2 (by
      intro r' hr' hmem
      simp only [List.map_append, List.map_cons, List.map_nil, List.mem_append,
        List.mem_singleton] at hmem
      rcases hmem with hmem | hmem
      · exact hdis r' (by simp [hr']) hmem
      · exact hnd.1 (by rw [← hmem]; exact List.mem_map_of_mem hr'))
    simp only [stQ] at this
    rw [this]
    simp [cregInit]

/-! gate lines -/

theorem resolve_q (n i : Nat) (h : i < n) : resolve [("q", List.range n)] (qref i) = some i := by
  simp [resolve, qref, dictGet, h]

theorem resolveAll_q (n : Nat) (qs : List Nat) (h : ∀ q ∈ qs, q < n) :
    resolveAll [("q", List.range n)] (qs.map qref) = some qs := by
  induction qs with
  | nil => rfl
  | cons q qs ih =>
    have h1 : q < n := h q (by simp)
    have h2 := ih (fun q' hq' => h q' (by simp [hq']))
    simp [resolveAll, resolve_q n q h1, h2]

theorem parse_gates (n : Nat) (gates : List GateS) (D : List (String × List Nat))
    (items : List Item) (h : ∀ g ∈ gates, ∀ q ∈ g.qubits, q < n) :
    parse (stQ n D items) (gates.map gateLine)
      = some (stQ n D (items ++ gates.map Item.gate)) := by
  induction gates generalizing items with
  | nil => simp [parse]
  | cons g gs ih =>
    have hg := resolveAll_q n g.qubits (h g (by simp))
    simp only [List.map_cons, parse, step, gateLine, stQ, hg]
    have := ih (items ++ [Item.gate g]) (fun g' hg' => h g' (by simp [hg']))
    simp only [stQ] at this
    rw [this]
    simp

/-! measure lines of one register -/

theorem set_mid (a b : List Nat) (t q : Nat) :
    (a ++ t :: b).set a.length q = a ++ q :: b := by
  induction a with
  | nil => rfl
  | cons x a ih => simp [ih]

theorem parse_measFrom (n : Nat) (name : String) (qs : List Nat)
    (hq : ∀ q ∈ qs, q < n)
    (pre post : List (String × List Nat)) (hpre : name ∉ pre.map Prod.fst)
    (done todo : List Nat) (items : List Item) (hlen : todo.length = qs.length) :
    parse (stQ n (pre ++ (name, done ++ todo) :: post) items)
        (measLinesFrom name done.length qs)
      = some (stQ n (pre ++ (name, done ++ qs) :: post)
          (items ++ qs.map fun q => Item.meas q name)) := by
  induction qs generalizing done todo items with
  | nil =>
    have : todo = [] := List.eq_nil_of_length_eq_zero (by simpa using hlen)
    subst this
    simp [measLinesFrom, parse]
  | cons q qs ih =>
    match todo, hlen with
    | t :: todo', hlen =>
      have hq1 : q < n := hq q (by simp)
      simp only [measLinesFrom, parse, step, stQ]
      rw [resolve_q n q hq1, dictGet_mid pre post name _ hpre]
      have hlt : done.length < (done ++ t :: todo').length := by simp
      simp only [hlt, if_true]
      rw [dictSet_mid pre post name _ _ hpre, set_mid]
      have := ih (fun q' hq' => hq q' (by simp [hq'])) (done ++ [q]) todo'
        (items ++ [Item.meas q name]) (by simpa using hlen)
      simp only [stQ, List.length_append, List.length_cons, List.length_nil, Nat.zero_add,
        List.append_assoc, List.cons_append, List.nil_append] at this
      rw [this]
      simp

theorem parse_measReg (n : Nat) (r : Reg) (hq : ∀ q ∈ r.qubits, q < n)
    (pre post : List (String × List Nat)) (hpre : r.name ∉ pre.map Prod.fst)
    (items : List Item) :
    parse (stQ n (pre ++ cregInit r :: post) items) (measLines r)
      = some (stQ n (pre ++ cregDone r :: post)
          (items ++ r.qubits.map fun q => Item.meas q r.name)) := by
  have := parse_measFrom n r.name r.qubits hq pre post hpre [] (List.range r.qubits.length)
    items (by simp)
  simpa [measLines, cregInit, cregDone] using this

def measItems (r : Reg) : List Item := r.qubits.map fun q => Item.meas q r.name

theorem parse_measAll (n : Nat) (regs : List Reg) (done : List Reg) (items : List Item)
    (hq : ∀ r ∈ regs, ∀ q ∈ r.qubits, q < n)
    (hnd : ((done ++ regs).map (·.name)).Nodup) :
    parse (stQ n (done.map cregDone ++ regs.map cregInit) items) (regs.flatMap measLines)
      = some (stQ n ((done ++ regs).map cregDone) (items ++ regs.flatMap measItems)) := by
  induction regs generalizing done items with
  | nil => simp [parse]
  | cons r rs ih =>
    have hpre : r.name ∉ (done.map cregDone).map Prod.fst := by
      simp only [List.map_append, List.map_cons] at hnd
      have := (List.nodup_append.mp hnd).2.2
      intro hmem
      simp only [List.map_map] at hmem
      have h1 : r.name ∈ done.map (·.name) := by
        simpa [cregDone, Function.comp_def] using hmem
      exact this r.name h1 r.name (by simp) rfl
    simp only [List.flatMap_cons, List.map_cons]
    rw [parse_append_of_eq (parse_measReg n r (hq r (by simp)) _ _ hpre items)]
    have := ih (done ++ [r]) (items ++ r.qubits.map fun q => Item.meas q r.name)
      (fun r' hr' => hq r' (by simp [hr'])) (by simpa using hnd)
    simp only [List.map_append, List.map_cons, List.map_nil, List.append_assoc,
      List.cons_append, List.nil_append] at this
    rw [this]
    simp [measItems]

/-! ### `_merge_measurements` -/

theorem merge_gates (D : List (String × List Nat)) (gates : List GateS) (rest : List Item) :
    merge D (gates.map Item.gate ++ rest) = gates.map QItem.gate ++ merge D rest := by
  induction gates with
  | nil => rfl
  | cons g gs ih => simp [merge, ih]

theorem merge_skip (D : List (String × List Nat)) (name : String) (qs : List Nat)
    (rest : List Item) (h : name ∉ D.map Prod.fst) :
    merge D ((qs.map fun q => Item.meas q name) ++ rest) = merge D rest := by
  induction qs with
  | nil => rfl
  | cons q qs ih => simp [merge, dictGet_none D name h, ih]

theorem merge_regs (regs : List Reg) (hnd : (regs.map (·.name)).Nodup)
    (hne : ∀ r ∈ regs, r.qubits ≠ []) :
    merge (regs.map cregDone) (regs.flatMap measItems) = regs.map QItem.meas := by
  induction regs with
  | nil => rfl
  | cons r rs ih =>
    simp only [List.map_cons, List.nodup_cons] at hnd
    have hr := hne r (by simp)
    match hqs : r.qubits, hr with
    | q :: qs, _ =>
      have hnot : r.name ∉ (rs.map cregDone).map Prod.fst := by
        intro hmem
        apply hnd.1
        simpa [cregDone, Function.comp_def] using hmem
      simp only [List.flatMap_cons, List.map_cons, measItems, hqs, List.cons_append, merge,
        cregDone, dictGet, if_true, dictPop]
      rw [merge_skip _ _ _ _ (by simpa [cregDone] using hnot)]
      rw [ih hnd.2 (fun r' hr' => hne r' (by simp [hr']))]
      have : r = { name := r.name, qubits := q :: qs } := by
        cases r; simp_all
      rw [← this]

/-! ### the `Circuit.add` loop -/

theorem assemble_gates (n : Nat) (gates : List GateS) (rest : List QItem) (gs : List GateS)
    (h : ∀ g ∈ gates, ∀ q ∈ g.qubits, q < n) :
    assemble n (gates.map QItem.gate ++ rest) gs [] = assemble n rest (gs ++ gates) [] := by
  induction gates generalizing gs with
  | nil => simp
  | cons g gates ih =>
    have hg : allLt n g.qubits = true := by
      simp only [allLt, List.all_eq_true, decide_eq_true_eq]
      exact h g (by simp)
    simp only [List.map_cons, List.cons_append, assemble, hg, if_true, List.filter_nil]
    rw [ih (gs ++ [g]) (fun g' hg' => h g' (by simp [hg']))]
    simp

theorem assemble_regs (n : Nat) (regs : List Reg) (gs : List GateS) (rs : List Reg)
    (hq : ∀ r ∈ regs, ∀ q ∈ r.qubits, q < n)
    (hd : ∀ r ∈ regs, r.qubits.Nodup)
    (hnd : ((rs ++ regs).map (·.name)).Nodup) :
    assemble n (regs.map QItem.meas) gs rs = some (gs, rs ++ regs) := by
  induction regs generalizing rs with
  | nil => simp [assemble]
  | cons r regs ih =>
    have h1 : allLt n r.qubits = true := by
      simp only [allLt, List.all_eq_true, decide_eq_true_eq]
      exact hq r (by simp)
    have h2 : r.qubits.Nodup := hd r (by simp)
    have h3 : (rs.map (·.name)).contains r.name = false := by
      simp only [List.map_append, List.map_cons] at hnd
      have := (List.nodup_append.mp hnd).2.2
      cases hc : (rs.map (·.name)).contains r.name with
      | false => rfl
      | true =>
        exfalso
        have hm : r.name ∈ rs.map (·.name) := by simpa using hc
        exact this r.name hm r.name (by simp) rfl
    simp only [List.map_cons, assemble, h1, h2, h3, decide_true, Bool.not_false, Bool.and_self,
      if_true]
    rw [ih (rs ++ [r]) (fun r' hr' => hq r' (by simp [hr'])) (fun r' hr' => hd r' (by simp [hr']))
      (by simpa using hnd)]
    simp

end QV.Qasm
