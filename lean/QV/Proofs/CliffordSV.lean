/-
  QV.Proofs.CliffordSV — the tableau updates are conjugation of `n`-qubit Pauli operators by the
  gate operators of the state-vector simulator (QV/Model/CliffordSV.lean): ring structure of ℤ[i],
  Kronecker factorisation of two one-qubit gates, extraction of the gate's qubits from the Pauli
  string (permutation invariance of a product of one-qubit gates), relabelling of the local
  statements `Conj1` / `Conj2` from qubits (0, 1) to arbitrary qubits.
-/
import QV.Proofs.SimLemmas
import QV.Proofs.Clifford
import QV.Model.CliffordSV
import Mathlib.Algebra.Ring.Defs
import Mathlib.Tactic.Ring
import Mathlib.Data.List.Perm.Basic
import Mathlib.Data.List.Range

namespace QV

/-! ### ℤ[i] is a commutative ring -/
namespace GI

theorem ext' {a b : GI} (h1 : a.re = b.re) (h2 : a.im = b.im) : a = b := by
  cases a; cases b; simp_all

@[simp] theorem add_re (a b : GI) : (a + b).re = a.re + b.re := rfl
@[simp] theorem add_im (a b : GI) : (a + b).im = a.im + b.im := rfl
@[simp] theorem mul_re (a b : GI) : (a * b).re = a.re * b.re - a.im * b.im := rfl
@[simp] theorem mul_im (a b : GI) : (a * b).im = a.re * b.im + a.im * b.re := rfl
@[simp] theorem neg_re (a : GI) : (-a).re = -a.re := rfl
@[simp] theorem neg_im (a : GI) : (-a).im = -a.im := rfl
@[simp] theorem sub_re (a b : GI) : (a - b).re = a.re - b.re := rfl
@[simp] theorem sub_im (a b : GI) : (a - b).im = a.im - b.im := rfl
@[simp] theorem zero_re : (0 : GI).re = 0 := rfl
@[simp] theorem zero_im : (0 : GI).im = 0 := rfl
@[simp] theorem one_re : (1 : GI).re = 1 := rfl
@[simp] theorem one_im : (1 : GI).im = 0 := rfl

instance : CommRing GI where
  add_assoc a b c := ext' (by simp; ring) (by simp; ring)
  zero_add a := ext' (by simp) (by simp)
  add_zero a := ext' (by simp) (by simp)
  add_comm a b := ext' (by simp; ring) (by simp; ring)
  left_distrib a b c := ext' (by simp; ring) (by simp; ring)
  right_distrib a b c := ext' (by simp; ring) (by simp; ring)
  zero_mul a := ext' (by simp) (by simp)
  mul_zero a := ext' (by simp) (by simp)
  mul_assoc a b c := ext' (by simp; ring) (by simp; ring)
  one_mul a := ext' (by simp) (by simp)
  mul_one a := ext' (by simp) (by simp)
  neg_add_cancel a := ext' (by simp) (by simp)
  mul_comm a b := ext' (by simp; ring) (by simp; ring)
  sub_eq_add_neg a b := ext' (by simp; ring) (by simp; ring)
  nsmul := nsmulRec
  zsmul := zsmulRec

end GI
end QV

namespace QV.Cliff
open QV Finset

/-! ### matrices as local matrices of simulator gates -/

theorem nat2_mul (q : Nat) (A B : M2) :
    (fun i j => ∑ k ∈ range (2 ^ [q].length), nat2 A i k * nat2 B k j) = nat2 (mul2 A B) := by
  funext i j
  have : (2 : Nat) ^ [q].length = 2 := rfl
  rw [this]
  simp only [sum_range_succ, sum_range_zero, zero_add]
  rfl

theorem nat4_mul (c t : Nat) (A B : M4) :
    (fun i j => ∑ k ∈ range (2 ^ [c, t].length), nat4 A i k * nat4 B k j) = nat4 (mul4 A B) := by
  funext i j
  have : (2 : Nat) ^ [c, t].length = 4 := rfl
  rw [this]
  simp only [sum_range_succ, sum_range_zero, zero_add]
  rfl

/-- a scalar in front of the local matrix of an uncontrolled gate comes out of `applyGate`. -/
theorem applyGate_mat_smul (s : GI) (M : Nat → Nat → GI) (ts : List Nat) (ψ : Lab → GI) :
    QV.applyGate { mat := fun i j => s * M i j, targets := ts } ψ
      = fun x => s * QV.applyGate { mat := M, targets := ts } ψ x := by
  funext x
  unfold QV.applyGate
  simp only [Lab.allOne, List.all_nil, if_true, mul_assoc]
  rw [sumOver_mul_left]

/-- one-qubit gates written out. -/
theorem g1_apply (A : M2) (q : Nat) (ψ : Lab → GI) (x : Lab) :
    QV.applyGate (g1 A q) ψ x
      = nat2 A (if x q then 1 else 0) 0 * ψ (x.set q false)
        + nat2 A (if x q then 1 else 0) 1 * ψ (x.set q true) := by
  simp [QV.applyGate, g1, Lab.allOne, sumOver, Lab.idx, Lab.set]

/-- two one-qubit gates on different qubits are the two-qubit gate of the Kronecker product. -/
theorem g1_g1_eq_g2 (A B : M2) (c t : Nat) (hct : c ≠ t) (ψ : Lab → GI) :
    QV.applyGate (g1 A c) (QV.applyGate (g1 B t) ψ) = QV.applyGate (g2 (kron A B) c t) ψ := by
  funext x
  have htc : t ≠ c := fun e => hct e.symm
  rw [g1_apply]
  simp only [g1_apply]
  simp only [QV.applyGate, g2, Lab.allOne, List.all_nil, if_true, sumOver, Lab.idx, List.foldl,
    Lab.set_same, Lab.set_other _ _ htc, Lab.set_other _ _ hct]
  cases x c <;> cases x t <;> simp [nat2, nat4, kron] <;> ring

/-- the local relation `M·A = s·A'·M` between 2×2 matrices, as operators on state vectors. -/
theorem conj1_op (M A A' : M2) (s : GI) (q : Nat)
    (h : ∀ i j : Fin 2, mul2 M A i j = s * mul2 A' M i j) (ψ : Lab → GI) :
    QV.applyGate (g1 M q) (QV.applyGate (g1 A q) ψ)
      = fun x => s * QV.applyGate (g1 A' q) (QV.applyGate (g1 M q) ψ) x := by
  have hn : [q].Nodup := by simp
  have hd : ∀ c, c ∈ ([] : List Nat) → c ∉ [q] := by simp
  simp only [g1]
  rw [applyGate_mul [q] [] hn hd, applyGate_mul [q] [] hn hd, nat2_mul, nat2_mul]
  have hm : nat2 (mul2 M A) = fun i j => s * nat2 (mul2 A' M) i j := by
    funext i j; exact h _ _
  rw [hm]
  exact applyGate_mat_smul s _ [q] ψ

/-- the local relation `M·(A⊗B) = s·(A'⊗B')·M`, as operators on state vectors. -/
theorem conj2_op (M : M4) (A B A' B' : M2) (s : GI) (c t : Nat) (hct : c ≠ t)
    (h : ∀ i j : Fin 4, mul4 M (kron A B) i j = s * mul4 (kron A' B') M i j) (ψ : Lab → GI) :
    QV.applyGate (g2 M c t) (QV.applyGate (g1 A c) (QV.applyGate (g1 B t) ψ))
      = fun x => s * QV.applyGate (g1 A' c) (QV.applyGate (g1 B' t) (QV.applyGate (g2 M c t) ψ)) x := by
  have hn : [c, t].Nodup := by simp [hct]
  have hd : ∀ r, r ∈ ([] : List Nat) → r ∉ [c, t] := by simp
  rw [g1_g1_eq_g2 A B c t hct, g1_g1_eq_g2 A' B' c t hct]
  simp only [g2]
  rw [applyGate_mul [c, t] [] hn hd, applyGate_mul [c, t] [] hn hd, nat4_mul, nat4_mul]
  have hm : nat4 (mul4 M (kron A B)) = fun i j => s * nat4 (mul4 (kron A' B') M) i j := by
    funext i j; exact h _ _
  rw [hm]
  exact applyGate_mat_smul s _ [c, t] ψ

/-! ### products of one-qubit Pauli gates -/

theorem pauliList_cons (k : Nat) (qs : List Nat) (w : Row) (ψ : Lab → GI) :
    pauliList (k :: qs) w ψ = QV.applyGate (pauliGate w k) (pauliList qs w ψ) := rfl

theorem pauliGate_comm (w : Row) (a b : Nat) (ψ : Lab → GI) :
    QV.applyGate (pauliGate w a) (QV.applyGate (pauliGate w b) ψ)
      = QV.applyGate (pauliGate w b) (QV.applyGate (pauliGate w a) ψ) := by
  by_cases hab : a = b
  · subst hab; rfl
  · exact applyGate_comm_of_disjoint _ _ (by simp [pauliGate, g1]) (by simp [pauliGate, g1])
      (by simp [pauliGate, g1, hab]) ψ

/-- the order of the factors is irrelevant. -/
theorem pauliList_perm {qs qs' : List Nat} (h : qs.Perm qs') (w : Row) (ψ : Lab → GI) :
    pauliList qs w ψ = pauliList qs' w ψ := by
  induction h with
  | nil => rfl
  | cons a _ ih => simp only [pauliList_cons, ih]
  | swap a b l => simp only [pauliList_cons]; exact pauliGate_comm w b a _
  | trans _ _ ih1 ih2 => exact ih1.trans ih2

/-- only the bits on the listed qubits matter. -/
theorem pauliList_congr {qs : List Nat} {w w' : Row}
    (h : ∀ k ∈ qs, w.x k = w'.x k ∧ w.z k = w'.z k) (ψ : Lab → GI) :
    pauliList qs w ψ = pauliList qs w' ψ := by
  induction qs with
  | nil => rfl
  | cons k qs ih =>
    have hk := h k (List.mem_cons_self ..)
    rw [pauliList_cons, pauliList_cons, ih (fun j hj => h j (List.mem_cons_of_mem _ hj))]
    simp only [pauliGate, hk.1, hk.2]

/-- a gate on other qubits commutes with the product. -/
theorem pauliList_comm_gate (g : MGate GI) (hn : g.targets.Nodup) (qs : List Nat) (w : Row)
    (hd : ∀ k ∈ qs, k ∉ g.targets ++ g.controls) (ψ : Lab → GI) :
    QV.applyGate g (pauliList qs w ψ) = pauliList qs w (QV.applyGate g ψ) := by
  induction qs with
  | nil => rfl
  | cons k qs ih =>
    rw [pauliList_cons, pauliList_cons, ← ih (fun j hj => hd j (List.mem_cons_of_mem _ hj))]
    refine applyGate_comm_of_disjoint g (pauliGate w k) hn (by simp [pauliGate, g1]) ?_ _
    intro r hr
    have := hd k (List.mem_cons_self ..)
    simp only [pauliGate, g1, List.append_nil, List.mem_cons, List.mem_nil_iff, or_false]
    intro e; subst e; exact this hr

theorem pauliList_smul (qs : List Nat) (w : Row) (s : GI) (ψ : Lab → GI) :
    pauliList qs w (fun x => s * ψ x) = fun x => s * pauliList qs w ψ x := by
  induction qs with
  | nil => rfl
  | cons k qs ih => rw [pauliList_cons, pauliList_cons, ih, applyGate_smul]

/-- `range n` with the qubit `q < n` in front. -/
theorem range_perm1 (n q : Nat) (hq : q < n) :
    (List.range n).Perm (q :: (List.range n).erase q) ∧ q ∉ (List.range n).erase q :=
  ⟨List.perm_cons_erase (List.mem_range.2 hq),
   fun h => by
     have := (List.nodup_range (n := n)).mem_erase_iff.1 h
     exact this.1 rfl⟩

/-- `range n` with the qubits `c ≠ t` below `n` in front. -/
theorem range_perm2 (n c t : Nat) (hc : c < n) (ht : t < n) (hct : c ≠ t) :
    (List.range n).Perm (c :: t :: ((List.range n).erase c).erase t) ∧
      c ∉ ((List.range n).erase c).erase t ∧ t ∉ ((List.range n).erase c).erase t := by
  have hnd : (List.range n).Nodup := List.nodup_range
  have hnd' : ((List.range n).erase c).Nodup := hnd.erase c
  have htm : t ∈ (List.range n).erase c := hnd.mem_erase_iff.2 ⟨fun e => hct e.symm, List.mem_range.2 ht⟩
  refine ⟨(List.perm_cons_erase (List.mem_range.2 hc)).trans ((List.perm_cons_erase htm).cons c), ?_, ?_⟩
  · intro h
    have h1 := (hnd'.mem_erase_iff.1 h).2
    exact (hnd.mem_erase_iff.1 h1).1 rfl
  · intro h
    exact (hnd'.mem_erase_iff.1 h).1 rfl

/-! ### from the local relation to the `n`-qubit operator identity -/

theorem gi_one : gi 1 0 = 1 := rfl
theorem gi_zero : gi 0 0 = 0 := rfl

theorem sgn_mul_self (b : Bool) : sgn b * sgn b = 1 := by cases b <;> decide

theorem sgn_xor (a b : Bool) : sgn (a ^^ b) = sgn a * sgn b := by cases a <;> cases b <;> decide

/-- local relation at qubit `q` for every row (sign included). -/
def Loc1 (U : M2) (f : Row → Row) (q : Nat) : Prop :=
  ∀ w : Row, ∀ i j : Fin 2,
    mul2 U (sigma (w.x q) (w.z q)) i j
      = (sgn w.r * sgn (f w).r) * mul2 (sigma ((f w).x q) ((f w).z q)) U i j

/-- local relation at the ordered pair `(c, t)` for every row (sign included). -/
def Loc2 (U : M4) (f : Row → Row) (c t : Nat) : Prop :=
  ∀ w : Row, ∀ i j : Fin 4,
    mul4 U (kron (sigma (w.x c) (w.z c)) (sigma (w.x t) (w.z t))) i j
      = (sgn w.r * sgn (f w).r) *
          mul4 (kron (sigma ((f w).x c) ((f w).z c)) (sigma ((f w).x t) ((f w).z t))) U i j

theorem conj_n1 (n q : Nat) (hq : q < n) (U : M2) (f : Row → Row) (hoff : Off [q] f)
    (hloc : Loc1 U f q) (w : Row) (ψ : Lab → GI) :
    QV.applyGate (g1 U q) (pauliOp n w ψ) = pauliOp n (f w) (QV.applyGate (g1 U q) ψ) := by
  obtain ⟨hp, hnq⟩ := range_perm1 n q hq
  have hd : ∀ k ∈ (List.range n).erase q, k ∉ (g1 U q).targets ++ (g1 U q).controls := by
    intro k hk; simp only [g1, List.append_nil, List.mem_cons, List.mem_nil_iff, or_false]
    intro e; subst e; exact hnq hk
  have hcg : ∀ k ∈ (List.range n).erase q, w.x k = (f w).x k ∧ w.z k = (f w).z k := by
    intro k hk
    have hkq : k ∉ [q] := by
      simp only [List.mem_cons, List.mem_nil_iff, or_false]; intro e; subst e; exact hnq hk
    exact ⟨(hoff w k hkq).1.symm, (hoff w k hkq).2.symm⟩
  unfold pauliOp
  rw [applyGate_smul, pauliList_perm hp w ψ, pauliList_perm hp (f w), pauliList_cons, pauliList_cons]
  simp only [pauliGate]
  rw [conj1_op U _ _ _ q (hloc w), pauliList_comm_gate (g1 U q) (by simp [g1]) _ w hd ψ,
    pauliList_congr hcg]
  funext x
  rw [← mul_assoc, ← mul_assoc, sgn_mul_self, one_mul]

theorem conj_n2 (n c t : Nat) (hc : c < n) (ht : t < n) (hct : c ≠ t) (U : M4) (f : Row → Row)
    (hoff : Off [c, t] f) (hloc : Loc2 U f c t) (w : Row) (ψ : Lab → GI) :
    QV.applyGate (g2 U c t) (pauliOp n w ψ) = pauliOp n (f w) (QV.applyGate (g2 U c t) ψ) := by
  obtain ⟨hp, hnc, hnt⟩ := range_perm2 n c t hc ht hct
  have hd : ∀ k ∈ ((List.range n).erase c).erase t,
      k ∉ (g2 U c t).targets ++ (g2 U c t).controls := by
    intro k hk; simp only [g2, List.append_nil, List.mem_cons, List.mem_nil_iff, or_false]
    rintro (e | e)
    · subst e; exact hnc hk
    · subst e; exact hnt hk
  have hcg : ∀ k ∈ ((List.range n).erase c).erase t, w.x k = (f w).x k ∧ w.z k = (f w).z k := by
    intro k hk
    have hkq : k ∉ [c, t] := by
      simp only [List.mem_cons, List.mem_nil_iff, or_false]
      rintro (e | e)
      · subst e; exact hnc hk
      · subst e; exact hnt hk
    exact ⟨(hoff w k hkq).1.symm, (hoff w k hkq).2.symm⟩
  unfold pauliOp
  rw [applyGate_smul, pauliList_perm hp w ψ, pauliList_perm hp (f w)]
  simp only [pauliList_cons, pauliGate]
  rw [conj2_op U _ _ _ _ _ c t hct (hloc w), pauliList_comm_gate (g2 U c t) (by simp [g2, hct]) _ w hd ψ,
    pauliList_congr hcg]
  funext x
  rw [← mul_assoc, ← mul_assoc, sgn_mul_self, one_mul]

/-! ### relabelling: the update at qubits `(c, t)` is the update at `(0, 1)` of the local bits -/

theorem Row.ext' {a b : Row} (hx : ∀ k, a.x k = b.x k) (hz : ∀ k, a.z k = b.z k) (hr : a.r = b.r) :
    a = b := by
  cases a; cases b
  simp only [Row.mk.injEq]
  exact ⟨funext hx, funext hz, hr⟩

/-- multiply the sign of a row by `(-1)^s`. -/
def flipR (s : Bool) (w : Row) : Row := ⟨w.x, w.z, w.r ^^ s⟩

/-- the update commutes with a global sign. -/
def SignLin (f : Row → Row) : Prop := ∀ s w, f (flipR s w) = flipR s (f w)

theorem SignLin.comp {f g : Row → Row} (hf : SignLin f) (hg : SignLin g) :
    SignLin (fun w => f (g w)) := fun s w => by
  show f (g (flipR s w)) = flipR s (f (g w))
  rw [hg, hf]

theorem signLin_id : SignLin (fun w => w) := fun _ _ => rfl

/-- the bits of `w` on qubit `q`, moved to qubit 0. -/
def loc1 (q : Nat) (w : Row) : Row := ⟨fun k => k == 0 && w.x q, fun k => k == 0 && w.z q, w.r⟩

/-- the bits of `w` on qubits `c`, `t`, moved to qubits 0, 1. -/
def loc2 (c t : Nat) (w : Row) : Row :=
  ⟨fun k => (k == 0 && w.x c) || (k == 1 && w.x t), fun k => (k == 0 && w.z c) || (k == 1 && w.z t), w.r⟩

def Eqv1 (f f0 : Row → Row) (q : Nat) : Prop := ∀ w, loc1 q (f w) = f0 (loc1 q w)
def Eqv2 (f f0 : Row → Row) (c t : Nat) : Prop := ∀ w, loc2 c t (f w) = f0 (loc2 c t w)

theorem Eqv1.comp {f g f0 g0 : Row → Row} {q : Nat} (hf : Eqv1 f f0 q) (hg : Eqv1 g g0 q) :
    Eqv1 (fun w => f (g w)) (fun w => f0 (g0 w)) q := fun w => by
  show loc1 q (f (g w)) = f0 (g0 (loc1 q w))
  rw [hf, hg]

theorem Eqv2.comp {f g f0 g0 : Row → Row} {c t : Nat} (hf : Eqv2 f f0 c t) (hg : Eqv2 g g0 c t) :
    Eqv2 (fun w => f (g w)) (fun w => f0 (g0 w)) c t := fun w => by
  show loc2 c t (f (g w)) = f0 (g0 (loc2 c t w))
  rw [hf, hg]

theorem loc1_eq (q : Nat) (w : Row) : loc1 q w = flipR w.r (row1 (w.x q) (w.z q)) := by
  simp [loc1, flipR, row1]

theorem loc2_eq (c t : Nat) (w : Row) :
    loc2 c t w = flipR w.r (row2 (w.x c) (w.z c) (w.x t) (w.z t)) := by
  simp [loc2, flipR, row2]

theorem loc1_of_conj {U : M2} {f f0 : Row → Row} {q : Nat} (hc : Conj1 U f0) (he : Eqv1 f f0 q)
    (hl : SignLin f0) : Loc1 U f q := by
  intro w i j
  have e2 : loc1 q (f w) = flipR w.r (f0 (row1 (w.x q) (w.z q))) := by rw [he w, loc1_eq, hl]
  have hr : (f w).r = ((f0 (row1 (w.x q) (w.z q))).r ^^ w.r) := congrArg Row.r e2
  have hx : (f w).x q = (f0 (row1 (w.x q) (w.z q))).x 0 := by
    have := congrArg (fun r => r.x 0) e2; simpa [loc1, flipR] using this
  have hz : (f w).z q = (f0 (row1 (w.x q) (w.z q))).z 0 := by
    have := congrArg (fun r => r.z 0) e2; simpa [loc1, flipR] using this
  rw [hc (w.x q) (w.z q) i j, hr, hx, hz, sgn_xor, mul_comm (sgn _) (sgn w.r), ← mul_assoc (sgn w.r),
    sgn_mul_self, one_mul]

theorem loc2_of_conj {U : M4} {f f0 : Row → Row} {c t : Nat} (hc : Conj2 U f0) (he : Eqv2 f f0 c t)
    (hl : SignLin f0) : Loc2 U f c t := by
  intro w i j
  have e2 : loc2 c t (f w) = flipR w.r (f0 (row2 (w.x c) (w.z c) (w.x t) (w.z t))) := by
    rw [he w, loc2_eq, hl]
  have hr : (f w).r = ((f0 (row2 (w.x c) (w.z c) (w.x t) (w.z t))).r ^^ w.r) := congrArg Row.r e2
  have hxc : (f w).x c = (f0 (row2 (w.x c) (w.z c) (w.x t) (w.z t))).x 0 := by
    have := congrArg (fun r => r.x 0) e2; simpa [loc2, flipR] using this
  have hzc : (f w).z c = (f0 (row2 (w.x c) (w.z c) (w.x t) (w.z t))).z 0 := by
    have := congrArg (fun r => r.z 0) e2; simpa [loc2, flipR] using this
  have hxt : (f w).x t = (f0 (row2 (w.x c) (w.z c) (w.x t) (w.z t))).x 1 := by
    have := congrArg (fun r => r.x 1) e2; simpa [loc2, flipR] using this
  have hzt : (f w).z t = (f0 (row2 (w.x c) (w.z c) (w.x t) (w.z t))).z 1 := by
    have := congrArg (fun r => r.z 1) e2; simpa [loc2, flipR] using this
  rw [hc (w.x c) (w.z c) (w.x t) (w.z t) i j, hr, hxc, hzc, hxt, hzt, sgn_xor,
    mul_comm (sgn _) (sgn w.r), ← mul_assoc (sgn w.r), sgn_mul_self, one_mul]

/-! primitive updates: sign linearity -/

macro "signlin" d:ident s:ident : tactic =>
  `(tactic| (simp only [$d:ident, flipR, Row.mk.injEq, true_and, Bool.xor_assoc]
             try (rw [Bool.xor_comm $s]; try simp only [Bool.xor_assoc])))

theorem signLin_H (q) : SignLin (opH q) := by intro s w; signlin opH s
theorem signLin_X (q) : SignLin (opX q) := by intro s w; signlin opX s
theorem signLin_Y (q) : SignLin (opY q) := by intro s w; signlin opY s
theorem signLin_Z (q) : SignLin (opZ q) := by intro s w; signlin opZ s
theorem signLin_S (q) : SignLin (opS q) := by intro s w; signlin opS s
theorem signLin_SDG (q) : SignLin (opSDG q) := by intro s w; signlin opSDG s
theorem signLin_SX (q) : SignLin (opSX q) := by intro s w; signlin opSX s
theorem signLin_SXDG (q) : SignLin (opSXDG q) := by intro s w; signlin opSXDG s
theorem signLin_RYpi (q) : SignLin (opRYpi q) := by intro s w; signlin opRYpi s
theorem signLin_RY3pi2 (q) : SignLin (opRY3pi2 q) := by intro s w; signlin opRY3pi2 s
theorem signLin_CNOT (c t) : SignLin (opCNOT c t) := by intro s w; signlin opCNOT s
theorem signLin_CZ (c t) : SignLin (opCZ c t) := by intro s w; signlin opCZ s
theorem signLin_CY (c t) : SignLin (opCY c t) := by intro s w; signlin opCY s
theorem signLin_SWAP (c t) : SignLin (opSWAP c t) := by intro s w; signlin opSWAP s
theorem signLin_iSWAP (c t) : SignLin (opiSWAP c t) := by intro s w; signlin opiSWAP s

theorem signLin_RX (q k) : SignLin (opRX q k) := by
  unfold opRX; rcases res4_cases k with h | h | h | h <;> rw [h]
  · exact signLin_id
  · exact signLin_SX q
  · exact signLin_X q
  · exact signLin_SXDG q
theorem signLin_RY (q k) : SignLin (opRY q k) := by
  unfold opRY; rcases res4_cases k with h | h | h | h <;> rw [h]
  · exact signLin_id
  · exact signLin_RYpi q
  · exact signLin_Y q
  · exact signLin_RY3pi2 q
theorem signLin_RZ (q k) : SignLin (opRZ q k) := by
  unfold opRZ; rcases res4_cases k with h | h | h | h <;> rw [h]
  · exact signLin_id
  · exact signLin_S q
  · exact signLin_Z q
  · exact signLin_SDG q

theorem signLin_ECR (c t) : SignLin (opECR c t) :=
  (signLin_X c).comp ((signLin_CNOT c t).comp ((signLin_SX t).comp (signLin_S c)))

theorem signLin_FSWAP (c t) : SignLin (opFSWAP c t) :=
  (signLin_X c).comp ((signLin_CNOT c t).comp ((signLin_CNOT t c).comp ((signLin_RY c (-1)).comp
    ((signLin_CNOT t c).comp ((signLin_RY c 1).comp ((signLin_CNOT c t).comp (signLin_X t)))))))

theorem signLin_CRX (c t k) : SignLin (opCRX c t k) := by
  have hX := signLin_X t
  have hY := signLin_Y t
  unfold opCRX; rcases res4_cases k with h | h | h | h <;> rw [h]
  · exact signLin_id
  · exact (signLin_CY c t).comp (hX.comp ((signLin_CZ c t).comp hX))
  · exact hY.comp ((signLin_CZ c t).comp (hY.comp (signLin_CZ c t)))
  · exact (signLin_CZ c t).comp (hX.comp ((signLin_CY c t).comp hX))

theorem signLin_CRZ (c t k) : SignLin (opCRZ c t k) := by
  have hX := signLin_X t
  unfold opCRZ; rcases res4_cases k with h | h | h | h <;> rw [h]
  · exact signLin_id
  · exact (signLin_CNOT c t).comp (hX.comp ((signLin_CY c t).comp hX))
  · exact hX.comp ((signLin_CZ c t).comp (hX.comp (signLin_CZ c t)))
  · exact hX.comp ((signLin_CY c t).comp (hX.comp (signLin_CNOT c t)))

theorem signLin_CRY (c t k) : SignLin (opCRY c t k) := by
  have hZ := signLin_Z t
  unfold opCRY; rcases res4_cases k with h | h | h | h <;> rw [h]
  · exact signLin_id
  · exact (signLin_CZ c t).comp (hZ.comp ((signLin_CNOT c t).comp hZ))
  · exact signLin_CRZ c t k
  · exact hZ.comp ((signLin_CNOT c t).comp (hZ.comp (signLin_CZ c t)))

theorem signLin_gate (g : Gate) : SignLin g.act := by
  cases g <;> simp only [Gate.act]
  case I q => exact signLin_id
  case H q => exact signLin_H q
  case X q => exact signLin_X q
  case Y q => exact signLin_Y q
  case Z q => exact signLin_Z q
  case S q => exact signLin_S q
  case SDG q => exact signLin_SDG q
  case SX q => exact signLin_SX q
  case SXDG q => exact signLin_SXDG q
  case CNOT c t => exact signLin_CNOT c t
  case CZ c t => exact signLin_CZ c t
  case CY c t => exact signLin_CY c t
  case SWAP c t => exact signLin_SWAP c t
  case iSWAP c t => exact signLin_iSWAP c t
  case FSWAP c t => exact signLin_FSWAP c t
  case ECR c t => exact signLin_ECR c t
  case RX q k => exact signLin_RX q k
  case RY q k => exact signLin_RY q k
  case RZ q k => exact signLin_RZ q k
  case CRX c t k => exact signLin_CRX c t k
  case CRY c t k => exact signLin_CRY c t k
  case CRZ c t k => exact signLin_CRZ c t k

/-! primitive updates: relabelling -/

macro "eqv1" d:ident : tactic =>
  `(tactic| (
    intro w
    refine Row.ext' (fun k => ?_) (fun k => ?_) ?_
    · by_cases h0 : k = 0
      · subst h0; simp [loc1, $d:ident, upd]
      · have h0' : (k == 0) = false := by simpa using h0
        simp [loc1, $d:ident, upd, h0, h0']
    · by_cases h0 : k = 0
      · subst h0; simp [loc1, $d:ident, upd]
      · have h0' : (k == 0) = false := by simpa using h0
        simp [loc1, $d:ident, upd, h0, h0']
    · simp [loc1, $d:ident, upd]))

theorem eqv1_id (q) : Eqv1 (fun w => w) (fun w => w) q := fun _ => rfl
theorem eqv1_H (q) : Eqv1 (opH q) (opH 0) q := by eqv1 opH
theorem eqv1_X (q) : Eqv1 (opX q) (opX 0) q := by eqv1 opX
theorem eqv1_Y (q) : Eqv1 (opY q) (opY 0) q := by eqv1 opY
theorem eqv1_Z (q) : Eqv1 (opZ q) (opZ 0) q := by eqv1 opZ
theorem eqv1_S (q) : Eqv1 (opS q) (opS 0) q := by eqv1 opS
theorem eqv1_SDG (q) : Eqv1 (opSDG q) (opSDG 0) q := by eqv1 opSDG
theorem eqv1_SX (q) : Eqv1 (opSX q) (opSX 0) q := by eqv1 opSX
theorem eqv1_SXDG (q) : Eqv1 (opSXDG q) (opSXDG 0) q := by eqv1 opSXDG
theorem eqv1_RYpi (q) : Eqv1 (opRYpi q) (opRYpi 0) q := by eqv1 opRYpi
theorem eqv1_RY3pi2 (q) : Eqv1 (opRY3pi2 q) (opRY3pi2 0) q := by eqv1 opRY3pi2

theorem eqv1_RX (q k) : Eqv1 (opRX q k) (opRX 0 k) q := by
  unfold opRX; rcases res4_cases k with h | h | h | h <;> rw [h]
  · exact eqv1_id q
  · exact eqv1_SX q
  · exact eqv1_X q
  · exact eqv1_SXDG q
theorem eqv1_RY (q k) : Eqv1 (opRY q k) (opRY 0 k) q := by
  unfold opRY; rcases res4_cases k with h | h | h | h <;> rw [h]
  · exact eqv1_id q
  · exact eqv1_RYpi q
  · exact eqv1_Y q
  · exact eqv1_RY3pi2 q
theorem eqv1_RZ (q k) : Eqv1 (opRZ q k) (opRZ 0 k) q := by
  unfold opRZ; rcases res4_cases k with h | h | h | h <;> rw [h]
  · exact eqv1_id q
  · exact eqv1_S q
  · exact eqv1_Z q
  · exact eqv1_SDG q

macro "eqv2" d:ident hct:ident : tactic =>
  `(tactic| (
    intro w
    have hct' := Ne.symm $hct
    refine Row.ext' (fun k => ?_) (fun k => ?_) ?_
    · by_cases h0 : k = 0
      · subst h0; simp [loc2, $d:ident, upd, $hct:ident, hct']
      · by_cases h1 : k = 1
        · subst h1; simp [loc2, $d:ident, upd, $hct:ident, hct']
        · have h0' : (k == 0) = false := by simpa using h0
          have h1' : (k == 1) = false := by simpa using h1
          simp [loc2, $d:ident, upd, h0, h1, h0', h1']
    · by_cases h0 : k = 0
      · subst h0; simp [loc2, $d:ident, upd, $hct:ident, hct']
      · by_cases h1 : k = 1
        · subst h1; simp [loc2, $d:ident, upd, $hct:ident, hct']
        · have h0' : (k == 0) = false := by simpa using h0
          have h1' : (k == 1) = false := by simpa using h1
          simp [loc2, $d:ident, upd, h0, h1, h0', h1']
    · simp [loc2, $d:ident, upd, $hct:ident, hct']))

section
variable (c t : Nat) (hct : c ≠ t)
omit hct in
theorem eqv2_id : Eqv2 (fun w => w) (fun w => w) c t := fun _ => rfl
include hct
theorem eqv2_CNOT : Eqv2 (opCNOT c t) (opCNOT 0 1) c t := by eqv2 opCNOT hct
theorem eqv2_CNOT' : Eqv2 (opCNOT t c) (opCNOT 1 0) c t := by eqv2 opCNOT hct
theorem eqv2_CZ : Eqv2 (opCZ c t) (opCZ 0 1) c t := by eqv2 opCZ hct
theorem eqv2_CY : Eqv2 (opCY c t) (opCY 0 1) c t := by eqv2 opCY hct
theorem eqv2_SWAP : Eqv2 (opSWAP c t) (opSWAP 0 1) c t := by eqv2 opSWAP hct
theorem eqv2_iSWAP : Eqv2 (opiSWAP c t) (opiSWAP 0 1) c t := by eqv2 opiSWAP hct
theorem eqv2_Xc : Eqv2 (opX c) (opX 0) c t := by eqv2 opX hct
theorem eqv2_Xt : Eqv2 (opX t) (opX 1) c t := by eqv2 opX hct
theorem eqv2_Yt : Eqv2 (opY t) (opY 1) c t := by eqv2 opY hct
theorem eqv2_Zt : Eqv2 (opZ t) (opZ 1) c t := by eqv2 opZ hct
theorem eqv2_Sc : Eqv2 (opS c) (opS 0) c t := by eqv2 opS hct
theorem eqv2_SXt : Eqv2 (opSX t) (opSX 1) c t := by eqv2 opSX hct
theorem eqv2_RYpic : Eqv2 (opRYpi c) (opRYpi 0) c t := by eqv2 opRYpi hct
theorem eqv2_RY3pi2c : Eqv2 (opRY3pi2 c) (opRY3pi2 0) c t := by eqv2 opRY3pi2 hct

theorem eqv2_ECR : Eqv2 (opECR c t) (opECR 0 1) c t :=
  (eqv2_Xc c t hct).comp ((eqv2_CNOT c t hct).comp ((eqv2_SXt c t hct).comp (eqv2_Sc c t hct)))

theorem eqv2_FSWAP : Eqv2 (opFSWAP c t) (opFSWAP 0 1) c t :=
  (eqv2_Xc c t hct).comp ((eqv2_CNOT c t hct).comp ((eqv2_CNOT' c t hct).comp
    ((eqv2_RY3pi2c c t hct).comp ((eqv2_CNOT' c t hct).comp ((eqv2_RYpic c t hct).comp
      ((eqv2_CNOT c t hct).comp (eqv2_Xt c t hct)))))))

theorem eqv2_CRX (k : Int) : Eqv2 (opCRX c t k) (opCRX 0 1 k) c t := by
  have hX := eqv2_Xt c t hct
  have hY := eqv2_Yt c t hct
  have hCZ := eqv2_CZ c t hct
  have hCY := eqv2_CY c t hct
  unfold opCRX; rcases res4_cases k with h | h | h | h <;> rw [h]
  · exact eqv2_id c t
  · exact hCY.comp (hX.comp (hCZ.comp hX))
  · exact hY.comp (hCZ.comp (hY.comp hCZ))
  · exact hCZ.comp (hX.comp (hCY.comp hX))

theorem eqv2_CRZ (k : Int) : Eqv2 (opCRZ c t k) (opCRZ 0 1 k) c t := by
  have hX := eqv2_Xt c t hct
  have hCN := eqv2_CNOT c t hct
  have hCZ := eqv2_CZ c t hct
  have hCY := eqv2_CY c t hct
  unfold opCRZ; rcases res4_cases k with h | h | h | h <;> rw [h]
  · exact eqv2_id c t
  · exact hCN.comp (hX.comp (hCY.comp hX))
  · exact hX.comp (hCZ.comp (hX.comp hCZ))
  · exact hX.comp (hCY.comp (hX.comp hCN))

theorem eqv2_CRY (k : Int) : Eqv2 (opCRY c t k) (opCRY 0 1 k) c t := by
  have hZ := eqv2_Zt c t hct
  have hCN := eqv2_CNOT c t hct
  have hCZ := eqv2_CZ c t hct
  unfold opCRY; rcases res4_cases k with h | h | h | h <;> rw [h]
  · exact eqv2_id c t
  · exact hCZ.comp (hZ.comp (hCN.comp hZ))
  · exact eqv2_CRZ c t hct k
  · exact hZ.comp (hCN.comp (hZ.comp hCZ))
end

/-! ### circuits, rows of a tableau, the zero state -/

theorem getRow_runGates (gs : List Gate) (T : Tableau) (i : Nat) (hi : i < T.length) :
    getRow (runGates gs T) i = actAll gs (getRow T i) := by
  induction gs generalizing T with
  | nil => rfl
  | cons g gs ih =>
    simp only [runGates, List.foldl_cons, actAll]
    have := ih (Cliff.applyGate g T) (by simpa [Cliff.applyGate] using hi)
    simp only [runGates, actAll] at this
    rw [this, getRow_applyGate g T i hi]

/-- a string without any X or Z on the listed qubits acts as the identity there. -/
theorem pauliList_id {qs : List Nat} {w : Row} (h : ∀ k ∈ qs, w.x k = false ∧ w.z k = false)
    (ψ : Lab → GI) : pauliList qs w ψ = ψ := by
  induction qs with
  | nil => rfl
  | cons k qs ih =>
    rw [pauliList_cons, ih (fun j hj => h j (List.mem_cons_of_mem _ hj))]
    have hk := h k (List.mem_cons_self ..)
    funext x
    simp only [pauliGate, hk.1, hk.2, g1_apply]
    cases hx : x k
    · have : x.set k false = x := by rw [← hx]; exact Lab.set_self x k
      rw [this]; simp [nat2, sigma, ofRows2, gi_one, gi_zero]
    · have : x.set k true = x := by rw [← hx]; exact Lab.set_self x k
      rw [this]; simp [nat2, sigma, ofRows2, gi_one, gi_zero]

theorem zeroKet_of_one (n k : Nat) (hk : k < n) (x : Lab) (hx : x k = true) : zeroKet n x = 0 := by
  unfold zeroKet
  rw [if_neg]
  intro h
  have := List.all_eq_true.1 h k (List.mem_range.2 hk)
  simp [hx] at this

/-- `Z_k |0…0⟩ = |0…0⟩`. -/
theorem pauliOp_unitZ_zeroKet (n k : Nat) (hk : k < n) : pauliOp n (unitZ k) (zeroKet n) = zeroKet n := by
  obtain ⟨hp, hnk⟩ := range_perm1 n k hk
  unfold pauliOp
  rw [pauliList_perm hp, pauliList_cons, pauliList_id]
  · funext x
    simp only [pauliGate, unitZ, g1_apply]
    cases hx : x k
    · have : x.set k false = x := by rw [← hx]; exact Lab.set_self x k
      rw [this]; simp [nat2, sigma, ofRows2, gi_one, gi_zero, sgn]
    · have : x.set k true = x := by rw [← hx]; exact Lab.set_self x k
      rw [this, zeroKet_of_one n k hk x hx]; simp [nat2, sigma, ofRows2, gi_one, gi_zero, sgn]
  · intro j hj
    have : j ≠ k := fun e => hnk (e ▸ hj)
    simp [unitZ, this]

end QV.Cliff
