/-
  QV.Proofs.EncodingsHS2 — the chain of the hyperspherical binary encoder (`hsChain n`) walks
  through `hsWalk n`, and `hsWalk n` lists every bit string of length `n` exactly once, sorted by
  Hamming weight — for every number of qubits `n ≥ 1`.
-/
import Mathlib.Data.List.Nodup
import Mathlib.Tactic.Ring
import Mathlib.Data.Nat.Choose.Sum
import QV.Proofs.EncodingsHS0
import QV.Proofs.Ehrlich

set_option linter.unusedSimpArgs false
set_option linter.unusedVariables false
set_option linter.unnecessarySimpa false

namespace QV.Enc
open QV

/-! ### one step of the walk as a chain step -/

theorem getD_set_self' (bs : List Bool) (i : Nat) (v : Bool) (hi : i < bs.length) :
    (bs.set i v).getD i false = v := by
  simp [List.getD_eq_getElem?_getD, hi]

/-- pointwise form of "one 1 moved from `i` to `j`". -/
theorem getD_move (bs : List Bool) (i j p : Nat) (hi : i < bs.length) (hj : j < bs.length) :
    ((bs.set i false).set j true).getD p false
      = if p = j then true else if p = i then false else bs.getD p false := by
  by_cases hpj : p = j
  · subst hpj
    rw [getD_set_self' _ _ _ (by simpa using hj)]; simp
  · rw [getD_set_ne _ (fun h => hpj h.symm), if_neg hpj]
    by_cases hpi : p = i
    · subst hpi
      rw [getD_set_self' _ _ _ hi]; simp
    · rw [getD_set_ne _ (fun h => hpi h.symm), if_neg hpi]

/-- a filtered range with exactly one hit. -/
theorem headD_filter_range_single (p : Nat → Bool) (n m : Nat) (hm : m < n) (hp : p m = true)
    (hne : ∀ j, j ≠ m → p j = false) : ((List.range n).filter p).headD 0 = m := by
  rw [List.headD_eq_head?_getD, head?_filter_range p n m hm hp (fun j hj => hne j (by omega))]
  rfl

theorem nextString_src (bs : List Bool) (ms : List Nat) :
    (nextString bs ms).src = ((List.range bs.length).filter
      (fun p => bs.getD p false && !(nextBits bs (listMax ms)).getD p false)).headD 0 := rfl

theorem nextString_dst (bs : List Bool) (ms : List Nat) :
    (nextString bs ms).dst = ((List.range bs.length).filter
      (fun p => !bs.getD p false && (nextBits bs (listMax ms)).getD p false)).headD 0 := rfl

theorem nextString_controls (bs : List Bool) (ms : List Nat) :
    (nextString bs ms).controls = (onesOf bs).filter
      (fun p => ((List.range bs.length).filter
        (fun q => (nextBits bs (listMax ms)).getD q false)).contains p) := rfl

/-- a regular step of the walk is the chain step `moveOf`. -/
theorem moveStep_nextString (n : Nat) (bs : List Bool) (ms : List Nat) (i j : Nat)
    (hi : i < bs.length) (hj : j < bs.length) (hij : i ≠ j)
    (h1 : bs.getD i false = true) (h0 : bs.getD j false = false)
    (he : nextBits bs (listMax ms) = (bs.set i false).set j true) :
    moveStep n (nextString bs ms) = moveOf n bs i j := by
  have hsrc : (nextString bs ms).src = i := by
    rw [nextString_src, he]
    apply headD_filter_range_single _ _ i hi
    · simp only [getD_move bs i j i hi hj, h1, if_neg hij]; simp
    · intro p hp
      simp only [getD_move bs i j p hi hj, if_neg hp]
      by_cases hpj : p = j
      · subst hpj; simp [h0]
      · simp [hpj]
  have hdst : (nextString bs ms).dst = j := by
    rw [nextString_dst, he]
    apply headD_filter_range_single _ _ j hj
    · simp only [getD_move bs i j j hi hj, h0]; simp
    · intro p hp
      simp only [getD_move bs i j p hi hj, if_neg hp]
      by_cases hpi : p = i
      · subst hpi; simp [h1]
      · simp [hpi]
  have hctl : (nextString bs ms).controls = (onesOf bs).filter (· ≠ i) := by
    rw [nextString_controls, he]
    apply List.filter_congr
    intro p hp
    unfold onesOf at hp
    rw [List.mem_filter, List.mem_range] at hp
    obtain ⟨hpl, hpb⟩ := hp
    have hpj : p ≠ j := by
      intro h; subst h; rw [h0] at hpb; exact Bool.noConfusion hpb
    have key : ∀ q, ((bs.set i false).set j true).getD q false
        = if q = j then true else if q = i then false else bs.getD q false :=
      fun q => getD_move bs i j q hi hj
    simp only [key]
    by_cases hpi : p = i
    · subst hpi
      simp [-List.getD_eq_getElem?_getD, List.mem_filter, hpj]
    · simp [-List.getD_eq_getElem?_getD, List.mem_filter, hpj, hpi, hpl, hpb]
  unfold moveStep moveOf
  rw [hsrc, hdst, hctl]

theorem stepRel_nextString (n : Nat) (bs : List Bool) (ms : List Nat)
    (hr : regularAt bs (listMax ms) = true) :
    StepRel n (moveStep n (nextString bs ms)) bs (nextString bs ms).bits := by
  obtain ⟨hmx, hreg⟩ := regularAt_iff _ _ hr
  obtain ⟨i, j, hi, hj, hij, h1, h0, _, _, _, he⟩ := nextBits_move bs _ hmx hreg
  rw [moveStep_nextString n bs ms i j hi hj hij h1 h0 he, nextString_bits, he]
  exact StepRel.move bs i j hi hj hij h1 h0

/-! ### alignment of one block, gluing -/

theorem aligned_loop (n : Nat) : ∀ (fuel : Nat) (bs : List Bool) (ms : List Nat),
    regularRun fuel bs ms = true →
    Aligned n ((ehrlichLoop fuel bs ms).map (moveStep n))
      (bs :: (ehrlichLoop fuel bs ms).map (·.bits))
  | 0, bs, _, _ => Aligned.one bs
  | fuel + 1, bs, ms, h => by
    unfold regularRun at h
    rw [Bool.and_eq_true] at h
    simp only [ehrlichLoop, List.map_cons]
    exact Aligned.cons (stepRel_nextString n bs ms h.1) (aligned_loop n fuel _ _ h.2)

theorem getLast?_loop : ∀ (k : Nat) (bs : List Bool) (ms : List Nat),
    (bs :: (ehrlichLoop k bs ms).map (·.bits)).getLast? = some (ehrState k bs ms).1
  | 0, _, _ => rfl
  | k + 1, bs, ms => by
    simp only [ehrlichLoop, List.map_cons, ehrState, List.getLast?_cons_cons]
    exact getLast?_loop k _ _

theorem ehrlichStrings_getLast? (init : List Bool) :
    (ehrlichStrings init).getLast? = some (ehrLast init) :=
  getLast?_loop _ _ _

theorem Aligned.append {n : Nat} {ds : List ChainStep} {L : List (List Bool)}
    (h : Aligned n ds L) :
    ∀ {d : ChainStep} {u w : List Bool} {rest : List (List Bool)} {ds' : List ChainStep},
      L.getLast? = some u → StepRel n d u w → Aligned n ds' (w :: rest) →
      Aligned n (ds ++ d :: ds') (L ++ w :: rest) := by
  induction h with
  | one w0 =>
    intro d u w rest ds' hl hs ha
    simp at hl
    subst hl
    exact Aligned.cons hs ha
  | cons hstep hrest ih =>
    intro d u w rest ds' hl hs ha
    rw [List.getLast?_cons_cons] at hl
    exact Aligned.cons hstep (ih hl hs ha)

theorem Aligned.length_eq {n : Nat} {ds : List ChainStep} {L : List (List Bool)}
    (h : Aligned n ds L) : ds.length + 1 = L.length := by
  induction h with
  | one w0 => rfl
  | cons hstep hrest ih => simp only [List.length_cons] at ih ⊢; omega


/-! ### the add step -/

theorem exists_zero_of_weight_lt : ∀ (bs : List Bool), weight bs < bs.length →
    ∃ i, i < bs.length ∧ bs.getD i false = false
  | [], h => by simp [weight] at h
  | b :: bs, h => by
    cases b with
    | false => exact ⟨0, by simp, rfl⟩
    | true =>
      rw [weight_cons] at h
      simp only [if_true, List.length_cons] at h
      obtain ⟨i, hi, h0⟩ := exists_zero_of_weight_lt bs (by omega)
      exact ⟨i + 1, by simpa using hi, by simpa using h0⟩

theorem zerosOf_ne_nil (bs : List Bool) (h : weight bs < bs.length) : zerosOf bs ≠ [] := by
  obtain ⟨i, hi, h0⟩ := exists_zero_of_weight_lt bs h
  intro hnil
  have : i ∈ zerosOf bs := by
    unfold zerosOf
    rw [List.mem_filter, List.mem_range]
    exact ⟨hi, by rw [h0]; rfl⟩
  rw [hnil] at this
  simp at this

theorem mem_zerosOf {bs : List Bool} {a : Nat} (h : a ∈ zerosOf bs) :
    a < bs.length ∧ bs.getD a false = false := by
  unfold zerosOf at h
  rw [List.mem_filter, List.mem_range] at h
  refine ⟨h.1, ?_⟩
  have := h.2
  cases hb : bs.getD a false
  · rfl
  · rw [hb] at this; exact Bool.noConfusion this

/-- the position `_intermediate_gate` fills is an empty position of the string. -/
theorem hsIdx_spec (last : List Bool) (w : Nat) (h : weight last < last.length) :
    hsIdx last w < last.length ∧ last.getD (hsIdx last w) false = false := by
  have hne := zerosOf_ne_nil last h
  apply mem_zerosOf
  unfold hsIdx
  split
  · cases hl : (zerosOf last).getLast? with
    | none => exact absurd (List.getLast?_eq_none_iff.mp hl) hne
    | some a => exact List.mem_of_getLast? hl
  · cases hl : (zerosOf last).head? with
    | none => exact absurd (List.head?_eq_none_iff.mp hl) hne
    | some a => exact List.mem_of_head? hl

theorem hsNextInit_eq (last : List Bool) (w : Nat) :
    hsNextInit last w = last.set (hsIdx last w) true := rfl

theorem onesOf_replicate_false (n : Nat) : onesOf (List.replicate n false) = [] := by
  unfold onesOf
  apply filter_range_nil
  intro j hj
  exact getD_replicate_lt n j false (by simpa using hj)

theorem eq_replicate_true_of_weight {bs : List Bool} {n : Nat} (hl : bs.length = n)
    (hw : weight bs = n) : bs = List.replicate n true := by
  subst hl
  exact List.eq_replicate_iff.mpr ⟨rfl, weight_eq_length hw⟩

theorem eq_replicate_false_of_weight {bs : List Bool} {n : Nat} (hl : bs.length = n)
    (hw : weight bs = 0) : bs = List.replicate n false := by
  subst hl
  exact List.eq_replicate_iff.mpr ⟨rfl, weight_eq_zero hw⟩

/-! ### the blocks -/

theorem length_hsInitClosed (n w : Nat) (hw : w ≤ n) : (hsInitClosed n w).length = n := by
  unfold hsInitClosed
  split <;> simp [seStart] <;> omega

theorem weight_hsInitClosed (n w : Nat) : weight (hsInitClosed n w) = w := by
  unfold hsInitClosed
  split <;> simp [seStart, weight_append, weight_replicate_true, weight_replicate_false]

/-- what is needed of the walk of weight `w` on `n` positions that starts on `hsInitClosed n w`. -/
theorem block_facts (n w : Nat) (hw : w ≤ n) :
    regularRun (choose n w - 1) (hsInitClosed n w) (getMarkers (hsInitClosed n w) false) = true ∧
    (ehrlichStrings (hsInitClosed n w)).Nodup ∧
    (∀ τ : List Bool, τ.length = n → weight τ = w → τ ∈ ehrlichStrings (hsInitClosed n w)) ∧
    (∀ s ∈ ehrlichStrings (hsInitClosed n w), s.length = n ∧ weight s = w) ∧
    (ehrlichStrings (hsInitClosed n w)).length = choose n w := by
  obtain ⟨ρ, hse⟩ := hsInitClosed_valid n w
  obtain ⟨hr, hnd, hlen, hc, _⟩ := ehrlich_walk_shape _ _ hse
  have hl := length_hsInitClosed n w hw
  have hwt := weight_hsInitClosed n w
  rw [hl, hwt] at hr hc hlen
  refine ⟨hr, hnd, hc, ?_, hlen⟩
  intro s hs
  rw [ehrlichStrings, ehrlich, hl, hwt, List.mem_cons, List.mem_map] at hs
  rcases hs with rfl | ⟨st, hst, rfl⟩
  · exact ⟨hl, hwt⟩
  · have := (ehrlichLoop_chain _ _ _ hr).2 st hst
    rw [hl, hwt] at this
    exact ⟨this.2, this.1⟩

theorem ehrLast_mem (init : List Bool) : ehrLast init ∈ ehrlichStrings init :=
  List.mem_of_getLast? (ehrlichStrings_getLast? init)

/-- `_intermediate_gate` maps the closed form of weight `w` to the closed form of weight `w+1`,
including the last block. -/
theorem hsNext_closed' (n w : Nat) (hw : 1 ≤ w) (hn : w + 1 ≤ n) :
    (ehrLast (hsInitClosed n w)).set (hsIdx (ehrLast (hsInitClosed n w)) w) true
      = hsInitClosed n (w + 1) := by
  by_cases h2 : w + 2 ≤ n
  · exact hsNext_closed n w hw h2
  · have hn' : w + 1 = n := by omega
    obtain ⟨_, _, _, hall, _⟩ := block_facts n w (by omega)
    obtain ⟨hll, hlw⟩ := hall _ (ehrLast_mem _)
    obtain ⟨hi, h0⟩ := hsIdx_spec (ehrLast (hsInitClosed n w)) w (by omega)
    have hws := weight_set (ehrLast (hsInitClosed n w)) _ true hi
    rw [h0] at hws
    simp only [if_true, Bool.false_eq_true, if_false] at hws
    have e1 := eq_replicate_true_of_weight (n := n)
      (bs := (ehrLast (hsInitClosed n w)).set (hsIdx (ehrLast (hsInitClosed n w)) w) true)
      (by simpa using hll) (by omega)
    have e2 := eq_replicate_true_of_weight (n := n) (length_hsInitClosed n (w + 1) (by omega))
        (by rw [weight_hsInitClosed]; exact hn')
    rw [e1, e2]

theorem hsWalkFrom_head : ∀ (fuel w : Nat) (init : List Bool),
    ∃ rest, hsWalkFrom fuel w init = init :: rest
  | 0, _, _ => ⟨[], rfl⟩
  | fuel + 1, w, init => ⟨_, rfl⟩


theorem hsWalkFrom_succ_closed (n fuel w : Nat) (hw : 1 ≤ w) (hn : w + 1 ≤ n) :
    hsWalkFrom (fuel + 1) w (hsInitClosed n w)
      = ehrlichStrings (hsInitClosed n w) ++ hsWalkFrom fuel (w + 1) (hsInitClosed n (w + 1)) := by
  show ehrlichStrings _ ++ hsWalkFrom fuel (w + 1) _ = _
  rw [hsNext_closed' n w hw hn]

/-- every string of the blocks `w, w+1, …` has length `n` and weight at least `w`. -/
theorem hsWalkFrom_wf (n : Nat) : ∀ (fuel w : Nat), 1 ≤ w → w + fuel = n →
    ∀ s ∈ hsWalkFrom fuel w (hsInitClosed n w), s.length = n ∧ w ≤ weight s := by
  intro fuel
  induction fuel with
  | zero =>
    intro w hw hn s hs
    simp only [hsWalkFrom, List.mem_singleton] at hs
    subst hs
    exact ⟨length_hsInitClosed n w (by omega), by rw [weight_hsInitClosed]⟩
  | succ fuel ih =>
    intro w hw hn s hs
    rw [hsWalkFrom_succ_closed n fuel w hw (by omega), List.mem_append] at hs
    rcases hs with hs | hs
    · obtain ⟨a, b⟩ := (block_facts n w (by omega)).2.2.2.1 s hs
      exact ⟨a, by omega⟩
    · obtain ⟨a, b⟩ := ih (w + 1) (by omega) (by omega) s hs
      exact ⟨a, by omega⟩

theorem hsWalkFrom_nodup (n : Nat) : ∀ (fuel w : Nat), 1 ≤ w → w + fuel = n →
    (hsWalkFrom fuel w (hsInitClosed n w)).Nodup := by
  intro fuel
  induction fuel with
  | zero => intro w hw hn; simp [hsWalkFrom]
  | succ fuel ih =>
    intro w hw hn
    rw [hsWalkFrom_succ_closed n fuel w hw (by omega), List.nodup_append]
    refine ⟨(block_facts n w (by omega)).2.1, ih (w + 1) (by omega) (by omega), ?_⟩
    intro a ha b hb hab
    subst hab
    have h1 := ((block_facts n w (by omega)).2.2.2.1 a ha).2
    have h2 := (hsWalkFrom_wf n fuel (w + 1) (by omega) (by omega) a hb).2
    omega

theorem hsWalkFrom_sorted (n : Nat) : ∀ (fuel w : Nat), 1 ≤ w → w + fuel = n →
    (hsWalkFrom fuel w (hsInitClosed n w)).Pairwise (fun a b => weight a ≤ weight b) := by
  intro fuel
  induction fuel with
  | zero => intro w hw hn; simp [hsWalkFrom]
  | succ fuel ih =>
    intro w hw hn
    rw [hsWalkFrom_succ_closed n fuel w hw (by omega), List.pairwise_append]
    refine ⟨?_, ih (w + 1) (by omega) (by omega), ?_⟩
    · apply List.pairwise_of_forall_mem_list
      intro a ha b hb
      have h1 := ((block_facts n w (by omega)).2.2.2.1 a ha).2
      have h2 := ((block_facts n w (by omega)).2.2.2.1 b hb).2
      omega
    · intro a ha b hb
      have h1 := ((block_facts n w (by omega)).2.2.2.1 a ha).2
      have h2 := (hsWalkFrom_wf n fuel (w + 1) (by omega) (by omega) b hb).2
      omega

theorem hsWalkFrom_complete (n : Nat) : ∀ (fuel w : Nat), 1 ≤ w → w + fuel = n →
    ∀ τ : List Bool, τ.length = n → w ≤ weight τ → τ ∈ hsWalkFrom fuel w (hsInitClosed n w) := by
  intro fuel
  induction fuel with
  | zero =>
    intro w hw hn τ hl hwt
    have hle := weight_le_length τ
    have hwn : w = n := by omega
    subst hwn
    simp only [hsWalkFrom, List.mem_singleton]
    rw [eq_replicate_true_of_weight hl (by omega),
      eq_replicate_true_of_weight (length_hsInitClosed w w (le_refl _)) (weight_hsInitClosed w w)]
  | succ fuel ih =>
    intro w hw hn τ hl hwt
    rw [hsWalkFrom_succ_closed n fuel w hw (by omega), List.mem_append]
    by_cases h : weight τ = w
    · exact Or.inl ((block_facts n w (by omega)).2.2.1 τ hl h)
    · exact Or.inr (ih (w + 1) (by omega) (by omega) τ hl (by omega))

theorem block_aligned (n : Nat) (σ ρ : List Bool) (hse : SE σ ρ) :
    Aligned n ((ehrlich σ).map (moveStep n)) (ehrlichStrings σ) :=
  aligned_loop n _ _ _ (ehrlich_walk_shape σ ρ hse).1

/-- one block of the chain, followed by the add step, glued to the rest. -/
theorem aligned_block_step (n fuel w : Nat) (init next : List Bool) (rest : List (List Bool))
    (hblock : Aligned n ((ehrlich init).map (moveStep n)) (ehrlichStrings init))
    (hlt : weight (ehrLast init) < (ehrLast init).length)
    (hnext : (ehrLast init).set (hsIdx (ehrLast init) w) true = next)
    (hwk : hsWalkFrom fuel (w + 1) next = next :: rest)
    (ih : Aligned n (hsChainFrom n fuel (w + 1) next) (hsWalkFrom fuel (w + 1) next)) :
    Aligned n (hsChainFrom n (fuel + 1) w init) (hsWalkFrom (fuel + 1) w init) := by
  obtain ⟨hi, h0⟩ := hsIdx_spec (ehrLast init) w hlt
  have hs := StepRel.add (n := n) (ehrLast init) (hsIdx (ehrLast init) w) (fuel == 0) hi h0
  subst hnext
  rw [hwk] at ih
  have := hblock.append (ehrlichStrings_getLast? init) hs ih
  show Aligned n ((ehrlich init).map (moveStep n)
      ++ [addOf n (ehrLast init) (hsIdx (ehrLast init) w) (fuel == 0)]
      ++ hsChainFrom n fuel (w + 1) _) (ehrlichStrings init ++ hsWalkFrom fuel (w + 1) _)
  rw [hwk, List.append_assoc]
  exact this

theorem hsChainFrom_aligned (n : Nat) : ∀ (fuel w : Nat), 1 ≤ w → w + fuel = n →
    Aligned n (hsChainFrom n fuel w (hsInitClosed n w)) (hsWalkFrom fuel w (hsInitClosed n w)) := by
  intro fuel
  induction fuel with
  | zero => intro w hw hn; exact Aligned.one _
  | succ fuel ih =>
    intro w hw hn
    obtain ⟨ρ, hse⟩ := hsInitClosed_valid n w
    obtain ⟨rest, hrest⟩ := hsWalkFrom_head fuel (w + 1) (hsInitClosed n (w + 1))
    obtain ⟨hll, hlw⟩ := (block_facts n w (by omega)).2.2.2.1 _ (ehrLast_mem (hsInitClosed n w))
    exact aligned_block_step n fuel w _ _ rest (block_aligned n _ ρ hse) (by omega)
      (hsNext_closed' n w hw (by omega)) hrest (ih (w + 1) (by omega) (by omega))

/-! ### the theorems -/

theorem hsInit_one (n : Nat) : (true :: List.replicate (n - 1) false) = hsInitClosed n 1 := by
  simp [hsInitClosed, seStart]

theorem hsWalk_eq (n : Nat) :
    hsWalk n = List.replicate n false :: hsWalkFrom (n - 1) 1 (hsInitClosed n 1) := by
  unfold hsWalk
  rw [hsInit_one]

/-- **the chain of `binary_encoder(·, "hyperspherical")` leads through `hsWalk n`**: every step
is the `RBS` move / the `RY`/`U3` write between two consecutive strings, with all other ones of
the string as controls. -/
theorem hsChain_aligned (n : Nat) (hn : 1 ≤ n) : Aligned n (hsChain n) (hsWalk n) := by
  rw [hsWalk_eq]
  unfold hsChain
  rw [hsInit_one]
  obtain ⟨rest, hrest⟩ := hsWalkFrom_head (n - 1) 1 (hsInitClosed n 1)
  have ha := hsChainFrom_aligned n (n - 1) 1 (le_refl _) (by omega)
  rw [hrest] at ha ⊢
  have hs := StepRel.add (n := n) (List.replicate n false) 0 (n == 1) (by simp; omega)
    (getD_replicate_lt n 0 false (by omega))
  have e1 : (List.replicate n false).set 0 true = hsInitClosed n 1 := by
    rw [← hsInit_one]
    cases n with
    | zero => omega
    | succ m => simp [List.replicate_succ]
  have e2 : addOf n (List.replicate n false) 0 (n == 1)
      = { add := true, a := n - 1, cs := [], last := n == 1 } := by
    unfold addOf
    rw [onesOf_replicate_false]
    rfl
  rw [e1, e2] at hs
  exact Aligned.cons hs ha

theorem hsWalk_length (n : Nat) (hn : 1 ≤ n) : ∀ w ∈ hsWalk n, w.length = n := by
  intro s hs
  rw [hsWalk_eq, List.mem_cons] at hs
  rcases hs with rfl | hs
  · simp
  · exact (hsWalkFrom_wf n (n - 1) 1 (le_refl _) (by omega) s hs).1

theorem hsWalk_nodup (n : Nat) (hn : 1 ≤ n) : (hsWalk n).Nodup := by
  rw [hsWalk_eq, List.nodup_cons]
  refine ⟨?_, hsWalkFrom_nodup n (n - 1) 1 (le_refl _) (by omega)⟩
  intro hmem
  have := (hsWalkFrom_wf n (n - 1) 1 (le_refl _) (by omega) _ hmem).2
  rw [weight_replicate_false] at this
  omega

theorem hsWalk_sorted (n : Nat) (hn : 1 ≤ n) :
    (hsWalk n).Pairwise (fun a b => weight a ≤ weight b) := by
  rw [hsWalk_eq, List.pairwise_cons]
  refine ⟨?_, hsWalkFrom_sorted n (n - 1) 1 (le_refl _) (by omega)⟩
  intro b _
  rw [weight_replicate_false]
  exact Nat.zero_le _

theorem hsWalk_complete (n : Nat) (hn : 1 ≤ n) (τ : List Bool) (hτ : τ.length = n) :
    τ ∈ hsWalk n := by
  rw [hsWalk_eq, List.mem_cons]
  by_cases h : weight τ = 0
  · exact Or.inl (eq_replicate_false_of_weight hτ h)
  · exact Or.inr (hsWalkFrom_complete n (n - 1) 1 (le_refl _) (by omega) τ hτ (by omega))

theorem hsChain_length (n : Nat) (hn : 1 ≤ n) : (hsChain n).length + 1 = (hsWalk n).length :=
  (hsChain_aligned n hn).length_eq

theorem hsWalk_head (n : Nat) : (hsWalk n).headD [] = List.replicate n false := rfl


/-! ### the number of strings -/

theorem choose_eq_natChoose : ∀ (n k : Nat), choose n k = Nat.choose n k
  | _, 0 => by simp [choose]
  | 0, _ + 1 => by simp [choose]
  | n + 1, k + 1 => by
    rw [choose, Nat.choose_succ_succ, choose_eq_natChoose n k, choose_eq_natChoose n (k + 1)]

theorem hsWalkFrom_length (n : Nat) : ∀ (fuel w : Nat), 1 ≤ w → w + fuel = n →
    (hsWalkFrom fuel w (hsInitClosed n w)).length
      = (∑ i ∈ Finset.range fuel, Nat.choose n (w + i)) + 1 := by
  intro fuel
  induction fuel with
  | zero => intro w hw hn; simp [hsWalkFrom]
  | succ fuel ih =>
    intro w hw hn
    rw [hsWalkFrom_succ_closed n fuel w hw (by omega), List.length_append,
      (block_facts n w (by omega)).2.2.2.2, ih (w + 1) (by omega) (by omega),
      Finset.sum_range_succ', choose_eq_natChoose]
    have : ∀ i, w + 1 + i = w + (i + 1) := fun i => by omega
    simp only [this, Nat.add_zero]
    omega

theorem hsWalk_card (n : Nat) (hn : 1 ≤ n) : (hsWalk n).length = 2 ^ n := by
  obtain ⟨m, rfl⟩ : ∃ m, n = m + 1 := ⟨n - 1, by omega⟩
  rw [hsWalk_eq, List.length_cons, hsWalkFrom_length (m + 1) (m + 1 - 1) 1 (le_refl _) (by omega),
    ← Nat.sum_range_choose (m + 1), Finset.sum_range_succ, Finset.sum_range_succ']
  simp only [Nat.add_sub_cancel, Nat.choose_zero_right, Nat.choose_self]
  have : ∀ i, 1 + i = i + 1 := fun i => by omega
  simp only [this]

end QV.Enc
