/-
  QV.Proofs.EvolutionExp — the analytic / algebraic side of property C16, over Mathlib:
  matrix exponentials of commuting terms, powers of the one-step propagator, the step count
  as a function of the computed quotient, and the Runge–Kutta steps as Taylor polynomials.

  `expm` of scipy is read as `NormedSpace.exp`.
-/
import Mathlib.Analysis.Normed.Algebra.MatrixExponential
import Mathlib.Analysis.Complex.Basic
import Mathlib.Algebra.Order.Round
import Mathlib.Tactic.Module
import Mathlib.Tactic.NormNum
import Mathlib.Tactic.Linarith
import Mathlib.Tactic.NoncommRing

namespace QV
namespace Evo

open NormedSpace

/-! ### exponentials in a Banach algebra -/

section banach
variable {𝔸 : Type*} [NormedRing 𝔸] [NormedAlgebra ℚ 𝔸] [NormedAlgebra ℂ 𝔸] [CompleteSpace 𝔸]

/-- `term.exp(a)`: `expm(-1j * a * matrix)`. -/
noncomputable def propagator (a : ℂ) (h : 𝔸) : 𝔸 := exp ((-(Complex.I * a)) • h)

/-- the product of the symmetric Trotter queue: all terms forward, then all terms backward,
each for the halved step `a`. -/
noncomputable def trotterProd (a : ℂ) (hs : List 𝔸) : 𝔸 :=
  ((hs ++ hs.reverse).map (propagator a)).prod

theorem propagator_neg_mul (a : ℂ) (h : 𝔸) : propagator (-a) h * propagator a h = 1 := by
  unfold propagator
  rw [← exp_add_of_commute]
  · rw [← add_smul]
    simp
  · exact ((Commute.refl h).smul_left _).smul_right _

theorem propagator_pow (a : ℂ) (h : 𝔸) (k : ℕ) :
    propagator a h ^ k = propagator ((k : ℂ) * a) h := by
  unfold propagator
  rw [← exp_nsmul, ← Nat.cast_smul_eq_nsmul ℂ, smul_smul]
  congr 2
  ring

omit [NormedAlgebra ℚ 𝔸] [CompleteSpace 𝔸] in
theorem trotterProd_cons (a : ℂ) (h : 𝔸) (hs : List 𝔸) :
    trotterProd a (h :: hs) = propagator a h * trotterProd a hs * propagator a h := by
  unfold trotterProd
  simp [List.reverse_cons, mul_assoc]

/-- **commuting terms: the Trotter step is exact.** -/
theorem trotterProd_of_commute (dt : ℂ) (hs : List 𝔸) (hc : hs.Pairwise Commute) :
    trotterProd (dt / 2) hs = propagator dt hs.sum := by
  induction hs with
  | nil => simp [trotterProd, propagator]
  | cons h hs ih =>
    have hh : ∀ b ∈ hs, Commute h b := fun b hb => List.rel_of_pairwise_cons hc hb
    have hsum : Commute h hs.sum := Commute.list_sum_right _ _ hh
    rw [trotterProd_cons, ih (List.Pairwise.of_cons hc)]
    unfold propagator
    have c1 : Commute ((-(Complex.I * (dt / 2))) • h) ((-(Complex.I * dt)) • hs.sum) :=
      (hsum.smul_left _).smul_right _
    have c2 : Commute ((-(Complex.I * (dt / 2))) • h + (-(Complex.I * dt)) • hs.sum)
        ((-(Complex.I * (dt / 2))) • h) :=
      Commute.add_left (((Commute.refl h).smul_left _).smul_right _)
        ((hsum.symm.smul_left _).smul_right _)
    rw [← exp_add_of_commute c1, ← exp_add_of_commute c2]
    congr 1
    rw [List.sum_cons, smul_add]
    have : (-(Complex.I * dt)) • h
        = (-(Complex.I * (dt / 2))) • h + (-(Complex.I * (dt / 2))) • h := by
      rw [← add_smul]; congr 1; ring
    rw [this]
    abel

/-- **time reversal of the symmetric step**, for every list of terms (commuting or not). -/
theorem trotterProd_neg_mul (a : ℂ) (hs : List 𝔸) :
    trotterProd (-a) hs * trotterProd a hs = 1 := by
  induction hs with
  | nil => simp [trotterProd]
  | cons h hs ih =>
    rw [trotterProd_cons, trotterProd_cons]
    calc propagator (-a) h * trotterProd (-a) hs * propagator (-a) h
          * (propagator a h * trotterProd a hs * propagator a h)
        = propagator (-a) h * (trotterProd (-a) hs * ((propagator (-a) h * propagator a h)
          * trotterProd a hs)) * propagator a h := by simp only [mul_assoc]
      _ = 1 := by rw [propagator_neg_mul, one_mul, ih, mul_one, propagator_neg_mul]

end banach

/-! ### first order of the symmetric product, formally -/

section formal
variable {R : Type*} [Ring R]

/-- with a formal step `a` (`a² = 0`, commuting with the terms) every exponential is `1 + a h`
and a product of them is `1 + a Σ h`. -/
theorem prod_one_add_nilpotent (a : R) (ha : a * a = 0) (l : List R) (hc : ∀ h ∈ l, Commute a h) :
    (l.map fun h => 1 + a * h).prod = 1 + a * l.sum := by
  induction l with
  | nil => simp
  | cons h l ih =>
    have hah : Commute a h := hc h (List.mem_cons_self ..)
    rw [List.map_cons, List.prod_cons, ih (fun b hb => hc b (List.mem_cons_of_mem _ hb)),
      List.sum_cons]
    have key : a * h * (a * l.sum) = 0 := by
      rw [mul_assoc, ← mul_assoc h a, ← hah.eq, mul_assoc, ← mul_assoc, ha, zero_mul]
    calc (1 + a * h) * (1 + a * l.sum)
        = 1 + a * h + a * l.sum + a * h * (a * l.sum) := by noncomm_ring
      _ = 1 + a * (h + l.sum) := by rw [key]; noncomm_ring

/-- **first-order consistency of the symmetric Trotter product**, for every list of terms:
to first order in the (halved) step `a`, the queue `hs ++ hs.reverse` generates `2 a Σ h`,
i.e. `dt · H`. -/
theorem trotter_first_order (a : R) (ha : a * a = 0) (hs : List R) (hc : ∀ h ∈ hs, Commute a h) :
    ((hs ++ hs.reverse).map fun h => 1 + a * h).prod = 1 + a * (hs.sum + hs.sum) := by
  rw [prod_one_add_nilpotent a ha]
  · rw [List.sum_append, List.sum_reverse]
  · intro h hh
    rcases List.mem_append.mp hh with h1 | h1
    · exact hc h h1
    · exact hc h (List.mem_reverse.mp h1)

end formal

/-! ### the same for complex matrices (any finite index type, e.g. `Fin (2 ^ n)`) -/

section matrix
variable {n : Type} [Fintype n] [DecidableEq n]

/-- `expm(-1j * a * H)` for a complex matrix. -/
noncomputable def mprop (a : ℂ) (H : Matrix n n ℂ) : Matrix n n ℂ :=
  exp ((-(Complex.I * a)) • H)

noncomputable def mtrotter (a : ℂ) (hs : List (Matrix n n ℂ)) : Matrix n n ℂ :=
  ((hs ++ hs.reverse).map (mprop a)).prod

attribute [local instance] Matrix.linftyOpNormedRing Matrix.linftyOpNormedAlgebra

theorem mprop_eq (a : ℂ) (H : Matrix n n ℂ) : mprop a H = propagator a H := rfl

theorem mtrotter_eq (a : ℂ) (hs : List (Matrix n n ℂ)) : mtrotter a hs = trotterProd a hs := rfl

theorem mtrotter_of_commute (dt : ℂ) (hs : List (Matrix n n ℂ)) (hc : hs.Pairwise Commute) :
    mtrotter (dt / 2) hs = mprop dt hs.sum := by
  rw [mtrotter_eq, mprop_eq]; exact trotterProd_of_commute dt hs hc

theorem mtrotter_neg_mul (a : ℂ) (hs : List (Matrix n n ℂ)) :
    mtrotter (-a) hs * mtrotter a hs = 1 := by
  rw [mtrotter_eq, mtrotter_eq]; exact trotterProd_neg_mul a hs

theorem mprop_pow (a : ℂ) (H : Matrix n n ℂ) (k : ℕ) :
    mprop a H ^ k = mprop ((k : ℂ) * a) H := by
  rw [mprop_eq, mprop_eq]; exact propagator_pow a H k

theorem mprop_neg_mul (a : ℂ) (H : Matrix n n ℂ) : mprop (-a) H * mprop a H = 1 := by
  rw [mprop_eq, mprop_eq]; exact propagator_neg_mul a H

end matrix

/-! ### number of steps -/

/-- the step count of the repaired `StateEvolution.execute` as a function of the computed
quotient `q = (T - t0) / dt ≥ 0`: `round(q)` if within `1e-9` of it, else `int(q)`. -/
noncomputable def nstepsR (q : ℝ) : ℤ :=
  if |q - round q| < 1e-9 then round q else ⌊q⌋

theorem round_of_near {q : ℝ} {k : ℤ} (h : |q - k| < 1 / 2) : round q = k := by
  rw [round_eq, Int.floor_eq_iff]
  have := abs_lt.mp h
  constructor <;> linarith [this.1, this.2]

theorem nstepsR_of_near {q : ℝ} {k : ℤ} (h : |q - k| < 1e-9) : nstepsR q = k := by
  have hr : round q = k := round_of_near (lt_trans h (by norm_num))
  unfold nstepsR
  rw [hr, if_pos h]

theorem nstepsR_of_far {q : ℝ} (h : 1e-9 ≤ |q - round q|) : nstepsR q = ⌊q⌋ := by
  unfold nstepsR
  rw [if_neg (not_lt.mpr h)]

/-! ### Runge–Kutta steps for a constant Hamiltonian -/

section rk
variable {M : Type*} [AddCommGroup M] [Module ℂ M]

/-- `RungeKutta4.__call__` (repaired stages: `state - 1j * dt * k / 2`), the Hamiltonian at the
three stage times given separately. -/
noncomputable def rk4Step (H1 H2 H3 : M →ₗ[ℂ] M) (dt : ℂ) (ψ : M) : M :=
  let k1 := H1 ψ
  let k2 := H2 (ψ - (Complex.I * dt / 2) • k1)
  let k3 := H2 (ψ - (Complex.I * dt / 2) • k2)
  let k4 := H3 (ψ - (Complex.I * dt) • k3)
  ψ - (Complex.I * dt / 6) • (k1 + (2 : ℂ) • k2 + (2 : ℂ) • k3 + k4)

/-- the stages as the code had them before the repair (`state + dt * k / 2`). -/
noncomputable def rk4StepLegacy (H1 H2 H3 : M →ₗ[ℂ] M) (dt : ℂ) (ψ : M) : M :=
  let k1 := H1 ψ
  let k2 := H2 (ψ + (dt / 2) • k1)
  let k3 := H2 (ψ + (dt / 2) • k2)
  let k4 := H3 (ψ + dt • k3)
  ψ - (Complex.I * dt / 6) • (k1 + (2 : ℂ) • k2 + (2 : ℂ) • k3 + k4)

/-- `RungeKutta45.__call__` (repaired stages), constant Hamiltonian. -/
noncomputable def rk45Step (H : M →ₗ[ℂ] M) (dt : ℂ) (ψ : M) : M :=
  let c : ℂ := Complex.I * dt
  let k1 := H ψ
  let k2 := H (ψ - c • ((1 / 4 : ℂ) • k1))
  let k3 := H (ψ - c • ((1 / 32 : ℂ) • ((3 : ℂ) • k1 + (9 : ℂ) • k2)))
  let k4 := H (ψ - c • ((1 / 2197 : ℂ) • ((1932 : ℂ) • k1 - (7200 : ℂ) • k2 + (7296 : ℂ) • k3)))
  let k5 := H (ψ - c • ((439 / 216 : ℂ) • k1 - (8 : ℂ) • k2 + (3680 / 513 : ℂ) • k3
    - (845 / 4104 : ℂ) • k4))
  let k6 := H (ψ - c • (-(8 / 27 : ℂ) • k1 + (2 : ℂ) • k2 - (3544 / 2565 : ℂ) • k3
    + (1859 / 4104 : ℂ) • k4 - (11 / 40 : ℂ) • k5))
  ψ - c • ((16 / 135 : ℂ) • k1 + (6656 / 12825 : ℂ) • k3 + (28561 / 56430 : ℂ) • k4
    - (9 / 50 : ℂ) • k5 + (2 / 55 : ℂ) • k6)

/-- `A = -i dt H` applied `k` times. -/
noncomputable def iterA (H : M →ₗ[ℂ] M) (dt : ℂ) : ℕ → M → M
  | 0, ψ => ψ
  | k + 1, ψ => (-(Complex.I * dt)) • H (iterA H dt k ψ)

theorem rk4Step_taylor (H : M →ₗ[ℂ] M) (dt : ℂ) (ψ : M) :
    rk4Step H H H dt ψ = ψ + iterA H dt 1 ψ + (1 / 2 : ℂ) • iterA H dt 2 ψ
      + (1 / 6 : ℂ) • iterA H dt 3 ψ + (1 / 24 : ℂ) • iterA H dt 4 ψ := by
  simp only [rk4Step, iterA, map_sub, map_smul]
  module

theorem rk45Step_taylor (H : M →ₗ[ℂ] M) (dt : ℂ) (ψ : M) :
    rk45Step H dt ψ = ψ + iterA H dt 1 ψ + (1 / 2 : ℂ) • iterA H dt 2 ψ
      + (1 / 6 : ℂ) • iterA H dt 3 ψ + (1 / 24 : ℂ) • iterA H dt 4 ψ
      + (1 / 120 : ℂ) • iterA H dt 5 ψ + (1 / 2080 : ℂ) • iterA H dt 6 ψ := by
  simp only [rk45Step, iterA, map_sub, map_add, map_smul]
  module

end rk

/-- the unrepaired stages do not give the Taylor polynomial, already at second order:
one qubit-free "Hamiltonian" `H = 1` on `M = ℂ`, `dt = 1`. -/
theorem rk4StepLegacy_ne_taylor :
    rk4StepLegacy (LinearMap.id : ℂ →ₗ[ℂ] ℂ) LinearMap.id LinearMap.id 1 1
      ≠ 1 + iterA (LinearMap.id : ℂ →ₗ[ℂ] ℂ) 1 1 1 + (1 / 2 : ℂ) • iterA LinearMap.id 1 2 1
        + (1 / 6 : ℂ) • iterA LinearMap.id 1 3 1 + (1 / 24 : ℂ) • iterA LinearMap.id 1 4 1 := by
  intro h
  have := congrArg Complex.re h
  simp [rk4StepLegacy, iterA] at this
  norm_num at this

end Evo
end QV
