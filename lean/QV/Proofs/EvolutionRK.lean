/-
  QV.Proofs.EvolutionRK — global error bounds for the Runge–Kutta solvers of property C16,
  constant Hamiltonian.

  * `expRem N x = eˣ - Σ_{i<N} xⁱ/i!` (so `rem3 = expRem 3`), `0 ≤ expRem N x ≤ x^N eˣ / N!`;
  * in a Banach algebra: `‖exp z - Σ_{i<N} zⁱ/i!‖ ≤ expRem N ‖z‖`, `‖Σ_{i<N} zⁱ/i!‖ ≤ e^{‖z‖}`;
  * the one-step operators `rk4Op z = Σ_{i<5} zⁱ/i!`, `rk45Op z = Σ_{i<6} zⁱ/i! + z⁶/2080`
    (`z = -i dt H`) ARE the steps of the model (`rk4Step`, `rk45Step` — the transliterated
    stages) for bounded operators on a Hilbert space;
  * global: with `E = exp z` unitary (C⋆-algebra, `H` self-adjoint, `dt` real)
    `‖P^k - exp(-i k dt H)‖ ≤ (1 + ε)^k - 1 ≤ kε e^{kε}`, `ε` the local bound;
  * the normalisation `s / ‖s‖` that `StateEvolution` applies for the rk solvers (at the end, and
    after every step when callbacks are present): the final state is `normalize (P^k ψ)` in
    both cases, and is within `2((1+ε)^k - 1)` of `exp(-i k dt H) ψ` for `‖ψ‖ = 1`.
-/
import Mathlib.Analysis.InnerProductSpace.Adjoint
import Mathlib.Analysis.Normed.Operator.Basic
import QV.Proofs.Evolution
import QV.Proofs.EvolutionGlobal

namespace QV
namespace Evo

open NormedSpace

/-! ### the remainders of the real exponential series -/

/-- `Σ_{i<N} xⁱ / i!` -/
noncomputable def expSum (N : ℕ) (x : ℝ) : ℝ := ∑ i ∈ Finset.range N, x ^ i / (i.factorial : ℝ)

/-- `eˣ - Σ_{i<N} xⁱ / i! = Σ_{i≥N} xⁱ / i!` -/
noncomputable def expRem (N : ℕ) (x : ℝ) : ℝ := Real.exp x - expSum N x

theorem expSum_le_exp (N : ℕ) {x : ℝ} (hx : 0 ≤ x) : expSum N x ≤ Real.exp x :=
  Real.sum_le_exp_of_nonneg hx N

theorem expRem_nonneg (N : ℕ) {x : ℝ} (hx : 0 ≤ x) : 0 ≤ expRem N x :=
  sub_nonneg.mpr (expSum_le_exp N hx)

theorem expSum_nonneg (N : ℕ) {x : ℝ} (hx : 0 ≤ x) : 0 ≤ expSum N x :=
  Finset.sum_nonneg fun i _ => by positivity

theorem rem3_eq_expRem (x : ℝ) : rem3 x = expRem 3 x := by
  simp [rem3, taylor2, expRem, expSum, Finset.sum_range_succ, Nat.factorial]

theorem hasSum_expRem (N : ℕ) (x : ℝ) :
    HasSum (fun n : ℕ => x ^ (n + N) / ((n + N).factorial : ℝ)) (expRem N x) := by
  have hr : HasSum (fun n : ℕ => x ^ n / n.factorial) (Real.exp x) := by
    rw [Real.exp_eq_exp_ℝ]
    exact NormedSpace.expSeries_div_hasSum_exp x
  exact (hasSum_nat_add_iff' N).mpr hr

/-- `expRem N x ≤ x^N eˣ / N!` for `x ≥ 0` (termwise: `(n+N)! ≥ N! n!`). -/
theorem expRem_le (N : ℕ) {x : ℝ} (hx : 0 ≤ x) :
    expRem N x ≤ x ^ N / (N.factorial : ℝ) * Real.exp x := by
  have hr : HasSum (fun n : ℕ => x ^ n / n.factorial) (Real.exp x) := by
    rw [Real.exp_eq_exp_ℝ]
    exact NormedSpace.expSeries_div_hasSum_exp x
  have hmaj := hr.mul_left (x ^ N / (N.factorial : ℝ))
  refine hasSum_le ?_ (hasSum_expRem N x) hmaj
  intro n
  have hfn : (0 : ℝ) < (n.factorial : ℝ) := by exact_mod_cast Nat.factorial_pos _
  have hfN : (0 : ℝ) < (N.factorial : ℝ) := by exact_mod_cast Nat.factorial_pos _
  have hfnN : (0 : ℝ) < ((n + N).factorial : ℝ) := by exact_mod_cast Nat.factorial_pos _
  have hle : (N.factorial : ℝ) * (n.factorial : ℝ) ≤ ((n + N).factorial : ℝ) := by
    have := Nat.le_of_dvd (Nat.factorial_pos _) (Nat.factorial_mul_factorial_dvd_factorial_add N n)
    rw [Nat.add_comm] at this
    exact_mod_cast this
  rw [div_le_iff₀ hfnN]
  have hxn : 0 ≤ x ^ (n + N) := by positivity
  calc x ^ (n + N)
      = x ^ N / (N.factorial : ℝ) * (x ^ n / n.factorial) * (N.factorial * n.factorial) := by
        rw [pow_add]; field_simp
    _ ≤ x ^ N / (N.factorial : ℝ) * (x ^ n / n.factorial) * (n + N).factorial :=
        mul_le_mul_of_nonneg_left hle (by positivity)

/-- `(1 + e)^k - 1 ≤ k e · e^{k e}` for `e ≥ 0`. -/
theorem one_add_pow_sub_one_le {e : ℝ} (he : 0 ≤ e) (k : ℕ) :
    (1 + e) ^ k - 1 ≤ k * e * Real.exp (k * e) := by
  have h1 : (1 + e) ^ k ≤ Real.exp (k * e) := by
    rw [Real.exp_nat_mul]
    exact pow_le_pow_left₀ (by linarith) (by linarith [Real.add_one_le_exp e]) k
  have hy : 0 ≤ (k : ℝ) * e := mul_nonneg (Nat.cast_nonneg k) he
  have h2 : Real.exp (k * e) - 1 ≤ k * e * Real.exp (k * e) := by
    have h3 := Real.add_one_le_exp (-((k : ℝ) * e))
    have hpos := Real.exp_pos ((k : ℝ) * e)
    have h4 : Real.exp (-((k : ℝ) * e)) * Real.exp (k * e) = 1 := by
      rw [← Real.exp_add]; simp
    nlinarith
  linarith

/-! ### Taylor polynomials of the exponential in a Banach algebra -/

section banach
variable {𝔸 : Type*} [NormedRing 𝔸] [NormedAlgebra ℂ 𝔸]

/-- `Σ_{i<N} zⁱ / i!` -/
noncomputable def taylorP (N : ℕ) (z : 𝔸) : 𝔸 :=
  ∑ i ∈ Finset.range N, ((i.factorial : ℂ)⁻¹) • z ^ i

theorem norm_term_le (h1 : ‖(1 : 𝔸)‖ ≤ 1) (z : 𝔸) (i : ℕ) :
    ‖((i.factorial : ℂ)⁻¹) • z ^ i‖ ≤ ‖z‖ ^ i / (i.factorial : ℝ) := by
  rw [norm_smul, norm_inv, Complex.norm_natCast, div_eq_inv_mul]
  exact mul_le_mul_of_nonneg_left (norm_pow_le_of_le h1 le_rfl i) (by positivity)

theorem norm_taylorP_le (h1 : ‖(1 : 𝔸)‖ ≤ 1) (N : ℕ) (z : 𝔸) :
    ‖taylorP N z‖ ≤ expSum N ‖z‖ :=
  (norm_sum_le _ _).trans (Finset.sum_le_sum fun i _ => norm_term_le h1 z i)

theorem norm_taylorP_le_exp (h1 : ‖(1 : 𝔸)‖ ≤ 1) (N : ℕ) (z : 𝔸) :
    ‖taylorP N z‖ ≤ Real.exp ‖z‖ :=
  (norm_taylorP_le h1 N z).trans (expSum_le_exp N (norm_nonneg z))

theorem taylorP_succ (N : ℕ) (z : 𝔸) :
    taylorP (N + 1) z = taylorP N z + ((N.factorial : ℂ)⁻¹) • z ^ N := by
  unfold taylorP; rw [Finset.sum_range_succ]

variable [CompleteSpace 𝔸]

/-- **remainder of the exponential series**: `‖exp z - Σ_{i<N} zⁱ/i!‖ ≤ e^{‖z‖} - Σ_{i<N} ‖z‖ⁱ/i!`. -/
theorem norm_exp_sub_taylorP_le (h1 : ‖(1 : 𝔸)‖ ≤ 1) (N : ℕ) (z : 𝔸) :
    ‖exp z - taylorP N z‖ ≤ expRem N ‖z‖ := by
  have hs : HasSum (fun n : ℕ => ((n.factorial : ℂ)⁻¹) • z ^ n) (exp z) :=
    exp_series_hasSum_exp' (𝕂 := ℂ) z
  have hsN := (hasSum_nat_add_iff' N).mpr hs
  rw [show exp z - taylorP N z = exp z - ∑ i ∈ Finset.range N, ((i.factorial : ℂ)⁻¹) • z ^ i
    from rfl, ← hsN.tsum_eq]
  exact tsum_of_norm_bounded (hasSum_expRem N ‖z‖) fun n => norm_term_le h1 z (n + N)

/-- the operator of one RK4 step for a constant Hamiltonian, `z = -i dt H`. -/
noncomputable def rk4Op (z : 𝔸) : 𝔸 := taylorP 5 z

/-- the operator of one RK45 (Fehlberg) step, `z = -i dt H`. -/
noncomputable def rk45Op (z : 𝔸) : 𝔸 := taylorP 6 z + ((1 / 2080 : ℂ)) • z ^ 6

/-- the local error bound of the RK45 step: `r₇(x) + (1/720 - 1/2080) x⁶`. -/
noncomputable def rk45Loc (x : ℝ) : ℝ := expRem 7 x + (1 / 720 - 1 / 2080) * x ^ 6

theorem rk45Loc_nonneg {x : ℝ} (hx : 0 ≤ x) : 0 ≤ rk45Loc x := by
  unfold rk45Loc
  have := expRem_nonneg 7 hx
  have h6 : 0 ≤ x ^ 6 := by positivity
  nlinarith

theorem norm_rk4Op_sub_exp_le (h1 : ‖(1 : 𝔸)‖ ≤ 1) (z : 𝔸) :
    ‖rk4Op z - exp z‖ ≤ expRem 5 ‖z‖ := by
  rw [norm_sub_rev]; exact norm_exp_sub_taylorP_le h1 5 z

theorem norm_rk45Op_sub_exp_le (h1 : ‖(1 : 𝔸)‖ ≤ 1) (z : 𝔸) :
    ‖rk45Op z - exp z‖ ≤ rk45Loc ‖z‖ := by
  have e : rk45Op z - exp z
      = -(exp z - taylorP 7 z) + ((1 / 2080 - 1 / 720 : ℂ)) • z ^ 6 := by
    rw [taylorP_succ 6, rk45Op]
    have : ((Nat.factorial 6 : ℕ) : ℂ)⁻¹ = 1 / 720 := by norm_num [Nat.factorial]
    rw [this]
    module
  rw [e]
  have a := norm_exp_sub_taylorP_le h1 7 z
  have b : ‖((1 / 2080 - 1 / 720 : ℂ)) • z ^ 6‖ ≤ (1 / 720 - 1 / 2080) * ‖z‖ ^ 6 := by
    rw [norm_smul]
    have hn : ‖(1 / 2080 - 1 / 720 : ℂ)‖ = 1 / 720 - 1 / 2080 := by
      have : (1 / 2080 - 1 / 720 : ℂ) = ((1 / 2080 - 1 / 720 : ℝ) : ℂ) := by push_cast; rfl
      rw [this, Complex.norm_real, Real.norm_eq_abs]
      rw [abs_of_nonpos (by norm_num)]; ring
    rw [hn]
    exact mul_le_mul_of_nonneg_left (norm_pow_le_of_le h1 le_rfl 6) (by norm_num)
  calc _ ≤ ‖-(exp z - taylorP 7 z)‖ + ‖((1 / 2080 - 1 / 720 : ℂ)) • z ^ 6‖ := norm_add_le _ _
    _ ≤ _ := by rw [norm_neg]; unfold rk45Loc; linarith

omit [CompleteSpace 𝔸] in
theorem norm_rk4Op_le_exp (h1 : ‖(1 : 𝔸)‖ ≤ 1) (z : 𝔸) : ‖rk4Op z‖ ≤ Real.exp ‖z‖ :=
  norm_taylorP_le_exp h1 5 z

omit [CompleteSpace 𝔸] in
theorem norm_rk45Op_le_exp (h1 : ‖(1 : 𝔸)‖ ≤ 1) (z : 𝔸) : ‖rk45Op z‖ ≤ Real.exp ‖z‖ := by
  have a := norm_taylorP_le h1 6 z
  have b : ‖((1 / 2080 : ℂ)) • z ^ 6‖ ≤ ‖z‖ ^ 6 / (Nat.factorial 6 : ℝ) := by
    rw [norm_smul]
    have hn : ‖(1 / 2080 : ℂ)‖ = 1 / 2080 := by
      have : (1 / 2080 : ℂ) = ((1 / 2080 : ℝ) : ℂ) := by push_cast; rfl
      rw [this, Complex.norm_real, Real.norm_eq_abs, abs_of_nonneg (by norm_num)]
    rw [hn]
    have h6 := norm_pow_le_of_le h1 (le_refl ‖z‖) 6
    have h60 : 0 ≤ ‖z‖ ^ 6 := by positivity
    have : (Nat.factorial 6 : ℝ) = 720 := by norm_num [Nat.factorial]
    rw [this]
    nlinarith [norm_nonneg (z ^ 6)]
  have c : expSum 7 ‖z‖ = expSum 6 ‖z‖ + ‖z‖ ^ 6 / (Nat.factorial 6 : ℝ) := by
    unfold expSum; rw [Finset.sum_range_succ]
  calc ‖rk45Op z‖ ≤ ‖taylorP 6 z‖ + ‖((1 / 2080 : ℂ)) • z ^ 6‖ := norm_add_le _ _
    _ ≤ expSum 7 ‖z‖ := by rw [c]; linarith
    _ ≤ Real.exp ‖z‖ := expSum_le_exp 7 (norm_nonneg z)

omit [CompleteSpace 𝔸] in
theorem norm_step_arg (dt : ℝ) (H : 𝔸) : ‖(-(Complex.I * (dt : ℂ))) • H‖ = |dt| * ‖H‖ := by
  rw [norm_smul, norm_neg, norm_mul, Complex.norm_I, one_mul, Complex.norm_real, Real.norm_eq_abs]

/-- local error of the RK4 step operator against the propagator, real step. -/
theorem rk4_local (h1 : ‖(1 : 𝔸)‖ ≤ 1) (dt : ℝ) (H : 𝔸) :
    ‖rk4Op ((-(Complex.I * (dt : ℂ))) • H) - propagator (dt : ℂ) H‖
      ≤ expRem 5 (|dt| * ‖H‖) := by
  have := norm_rk4Op_sub_exp_le h1 ((-(Complex.I * (dt : ℂ))) • H)
  rwa [norm_step_arg] at this

/-- local error of the RK45 step operator against the propagator, real step. -/
theorem rk45_local (h1 : ‖(1 : 𝔸)‖ ≤ 1) (dt : ℝ) (H : 𝔸) :
    ‖rk45Op ((-(Complex.I * (dt : ℂ))) • H) - propagator (dt : ℂ) H‖
      ≤ rk45Loc (|dt| * ‖H‖) := by
  have := norm_rk45Op_sub_exp_le h1 ((-(Complex.I * (dt : ℂ))) • H)
  rwa [norm_step_arg] at this

end banach

/-! ### global bounds in a C⋆-algebra -/

section cstar
variable {𝔸 : Type*} [NormedRing 𝔸] [StarRing 𝔸] [CStarRing 𝔸] [NormedAlgebra ℂ 𝔸]
  [StarModule ℂ 𝔸] [CompleteSpace 𝔸]

/-- **global bound for a one-step operator `P` with local error `≤ e` against the exact
propagator of a self-adjoint Hamiltonian**: `‖P^k - exp(-i k dt H)‖ ≤ (1 + e)^k - 1`. -/
theorem onestep_global {H : 𝔸} (hH : IsSelfAdjoint H) (dt : ℝ) (P : 𝔸) (e : ℝ)
    (hloc : ‖P - propagator (dt : ℂ) H‖ ≤ e) (k : ℕ) :
    ‖P ^ k - propagator ((k : ℂ) * (dt : ℂ)) H‖ ≤ (1 + e) ^ k - 1 := by
  let +nondep : NormedAlgebra ℚ 𝔸 := .restrictScalars ℚ ℂ 𝔸
  rw [← propagator_pow]
  exact norm_pow_sub_pow_le_perturb cstar_norm_one_le (norm_propagator_le_one dt hH) hloc k

/-- **RK4, `k` steps, constant self-adjoint `H`**:
`‖P₄(-i dt H)^k - exp(-i k dt H)‖ ≤ (1 + r₅(|dt| ‖H‖))^k - 1`. -/
theorem rk4_global {H : 𝔸} (hH : IsSelfAdjoint H) (dt : ℝ) (k : ℕ) :
    ‖rk4Op ((-(Complex.I * (dt : ℂ))) • H) ^ k - propagator ((k : ℂ) * (dt : ℂ)) H‖
      ≤ (1 + expRem 5 (|dt| * ‖H‖)) ^ k - 1 := by
  apply onestep_global hH
  have := norm_rk4Op_sub_exp_le cstar_norm_one_le ((-(Complex.I * (dt : ℂ))) • H)
  rwa [norm_step_arg] at this

/-- **RK45, `k` steps, constant self-adjoint `H`**. -/
theorem rk45_global {H : 𝔸} (hH : IsSelfAdjoint H) (dt : ℝ) (k : ℕ) :
    ‖rk45Op ((-(Complex.I * (dt : ℂ))) • H) ^ k - propagator ((k : ℂ) * (dt : ℂ)) H‖
      ≤ (1 + rk45Loc (|dt| * ‖H‖)) ^ k - 1 := by
  apply onestep_global hH
  have := norm_rk45Op_sub_exp_le cstar_norm_one_le ((-(Complex.I * (dt : ℂ))) • H)
  rwa [norm_step_arg] at this

/-- the form with the growth factor of the step operator: `‖P₄^k - exp(-i k dt H)‖ ≤
k e^{(k-1)|dt|‖H‖} r₅(|dt|‖H‖)` (from `‖P₄(z)‖ ≤ e^{‖z‖}`; weaker than `rk4_global`). -/
theorem rk4_global_growth {H : 𝔸} (hH : IsSelfAdjoint H) (dt : ℝ) (k : ℕ) :
    ‖rk4Op ((-(Complex.I * (dt : ℂ))) • H) ^ k - propagator ((k : ℂ) * (dt : ℂ)) H‖
      ≤ k * Real.exp (|dt| * ‖H‖) ^ (k - 1) * expRem 5 (|dt| * ‖H‖) := by
  let +nondep : NormedAlgebra ℚ 𝔸 := .restrictScalars ℚ ℂ 𝔸
  rw [← propagator_pow]
  have hx : 0 ≤ |dt| * ‖H‖ := mul_nonneg (abs_nonneg _) (norm_nonneg _)
  have hS := norm_rk4Op_le_exp cstar_norm_one_le ((-(Complex.I * (dt : ℂ))) • H)
  have hloc := norm_rk4Op_sub_exp_le cstar_norm_one_le ((-(Complex.I * (dt : ℂ))) • H)
  rw [norm_step_arg] at hS hloc
  have h := norm_pow_sub_pow_le_growth cstar_norm_one_le (Real.one_le_exp hx) hS
    (norm_propagator_le_one dt hH) k
  refine h.trans (mul_le_mul_of_nonneg_left hloc ?_)
  positivity

/-- **order 4 in closed form**: with `c = (k dt) ‖H‖⁵ e^{dt‖H‖} / 120 · dt⁴` (`k dt = T`),
`‖P₄^k - exp(-i T H)‖ ≤ c e^c`. -/
theorem rk4_global_order {H : 𝔸} (hH : IsSelfAdjoint H) (dt : ℝ) (hdt : 0 ≤ dt) (k : ℕ) :
    ‖rk4Op ((-(Complex.I * (dt : ℂ))) • H) ^ k - propagator ((k : ℂ) * (dt : ℂ)) H‖
      ≤ ((k * dt) * ‖H‖ ^ 5 * Real.exp (dt * ‖H‖) / 120 * dt ^ 4)
        * Real.exp ((k * dt) * ‖H‖ ^ 5 * Real.exp (dt * ‖H‖) / 120 * dt ^ 4) := by
  have hx : 0 ≤ dt * ‖H‖ := mul_nonneg hdt (norm_nonneg _)
  have hloc := norm_rk4Op_sub_exp_le cstar_norm_one_le ((-(Complex.I * (dt : ℂ))) • H)
  rw [norm_step_arg, abs_of_nonneg hdt] at hloc
  have hr := expRem_le 5 hx
  have h120 : (Nat.factorial 5 : ℝ) = 120 := by norm_num [Nat.factorial]
  rw [h120] at hr
  have he : 0 ≤ (dt * ‖H‖) ^ 5 / 120 * Real.exp (dt * ‖H‖) := by positivity
  have h := onestep_global hH dt _ _ (hloc.trans hr) k
  have h2 := one_add_pow_sub_one_le he k
  have e : (k : ℝ) * ((dt * ‖H‖) ^ 5 / 120 * Real.exp (dt * ‖H‖))
      = (k * dt) * ‖H‖ ^ 5 * Real.exp (dt * ‖H‖) / 120 * dt ^ 4 := by ring
  rw [e] at h2
  exact h.trans h2

/-- **order 5 in closed form** for RK45: the local bound is `≤ x⁶ eˣ / 720 + x⁶ / 1000`,
so with `c = (k dt) ‖H‖⁶ (e^{dt‖H‖} / 720 + 1 / 1000) · dt⁵`, `‖P^k - exp(-i T H)‖ ≤ c e^c`. -/
theorem rk45_global_order {H : 𝔸} (hH : IsSelfAdjoint H) (dt : ℝ) (hdt : 0 ≤ dt) (k : ℕ) :
    ‖rk45Op ((-(Complex.I * (dt : ℂ))) • H) ^ k - propagator ((k : ℂ) * (dt : ℂ)) H‖
      ≤ ((k * dt) * ‖H‖ ^ 6 * (Real.exp (dt * ‖H‖) / 720 + 1 / 1000) * dt ^ 5)
        * Real.exp ((k * dt) * ‖H‖ ^ 6 * (Real.exp (dt * ‖H‖) / 720 + 1 / 1000) * dt ^ 5) := by
  have hx : 0 ≤ dt * ‖H‖ := mul_nonneg hdt (norm_nonneg _)
  have hloc := norm_rk45Op_sub_exp_le cstar_norm_one_le ((-(Complex.I * (dt : ℂ))) • H)
  rw [norm_step_arg, abs_of_nonneg hdt] at hloc
  have hr7 := expRem_le 7 hx
  have h5040 : (Nat.factorial 7 : ℝ) = 5040 := by norm_num [Nat.factorial]
  rw [h5040] at hr7
  -- r₇(x) ≤ r₆(x) ≤ x⁶ eˣ/720
  have hr6 := expRem_le 6 hx
  have h720 : (Nat.factorial 6 : ℝ) = 720 := by norm_num [Nat.factorial]
  rw [h720] at hr6
  have h76 : expRem 7 (dt * ‖H‖) ≤ expRem 6 (dt * ‖H‖) := by
    unfold expRem expSum
    rw [Finset.sum_range_succ _ 6]
    have : 0 ≤ (dt * ‖H‖) ^ 6 / (Nat.factorial 6 : ℝ) := by positivity
    linarith
  have hx6 : 0 ≤ (dt * ‖H‖) ^ 6 := by positivity
  have hb : rk45Loc (dt * ‖H‖)
      ≤ (dt * ‖H‖) ^ 6 * (Real.exp (dt * ‖H‖) / 720 + 1 / 1000) := by
    unfold rk45Loc
    nlinarith
  have he : 0 ≤ (dt * ‖H‖) ^ 6 * (Real.exp (dt * ‖H‖) / 720 + 1 / 1000) := by positivity
  have h := onestep_global hH dt _ _ (hloc.trans hb) k
  have h2 := one_add_pow_sub_one_le he k
  have e : (k : ℝ) * ((dt * ‖H‖) ^ 6 * (Real.exp (dt * ‖H‖) / 720 + 1 / 1000))
      = (k * dt) * ‖H‖ ^ 6 * (Real.exp (dt * ‖H‖) / 720 + 1 / 1000) * dt ^ 5 := by ring
  rw [e] at h2
  exact h.trans h2

end cstar

/-! ### states: bounded operators on a Hilbert space, the model's RK steps, normalisation -/

section hilbert
variable {V : Type} [NormedAddCommGroup V] [InnerProductSpace ℂ V] [CompleteSpace V]

omit [CompleteSpace V] in
/-- `-i dt H` applied `k` times is the `k`-th power of the operator `-i dt H`. -/
theorem iterA_clm (H : V →L[ℂ] V) (dt : ℂ) (k : ℕ) (ψ : V) :
    iterA (H : V →ₗ[ℂ] V) dt k ψ = (((-(Complex.I * dt)) • H) ^ k) ψ := by
  induction k with
  | zero => simp [iterA]
  | succ k ih =>
    rw [iterA, ih, pow_succ', mul_apply_eq_comp]
    simp

omit [CompleteSpace V] in
/-- **the model's RK4 step (the transliterated stages) IS the operator `rk4Op (-i dt H)`.** -/
theorem rk4Step_eq_op (H : V →L[ℂ] V) (dt : ℂ) (ψ : V) :
    rk4Step (H : V →ₗ[ℂ] V) H H dt ψ = (rk4Op ((-(Complex.I * dt)) • H)) ψ := by
  rw [rk4Step_taylor]
  simp only [iterA_clm, rk4Op, taylorP, Finset.sum_range_succ, Finset.sum_range_zero,
    add_apply, smul_apply, Nat.factorial, zero_add]
  simp only [pow_zero, pow_one, one_apply_eq_self]
  norm_num

omit [CompleteSpace V] in
/-- **the model's RK45 step IS the operator `rk45Op (-i dt H)`.** -/
theorem rk45Step_eq_op (H : V →L[ℂ] V) (dt : ℂ) (ψ : V) :
    rk45Step (H : V →ₗ[ℂ] V) dt ψ = (rk45Op ((-(Complex.I * dt)) • H)) ψ := by
  rw [rk45Step_taylor]
  simp only [iterA_clm, rk45Op, taylorP, Finset.sum_range_succ, Finset.sum_range_zero,
    add_apply, smul_apply, Nat.factorial, zero_add]
  simp only [pow_zero, pow_one, one_apply_eq_self]
  norm_num

/-- `s / ‖s‖` — `StateEvolution.normalize_state` for the rk solvers. -/
noncomputable def normalize (v : V) : V := ((‖v‖⁻¹ : ℝ) : ℂ) • v

omit [CompleteSpace V] in
theorem normalize_zero : normalize (0 : V) = 0 := by simp [normalize]

omit [CompleteSpace V] in
theorem normalize_smul_pos {c : ℝ} (hc : 0 < c) (v : V) :
    normalize (((c : ℝ) : ℂ) • v) = normalize v := by
  unfold normalize
  rw [norm_smul, Complex.norm_real, Real.norm_eq_abs, abs_of_pos hc, smul_smul,
    ← Complex.ofReal_mul]
  congr 2
  rw [mul_inv, mul_comm c⁻¹, mul_assoc, inv_mul_cancel₀ hc.ne', mul_one]

omit [CompleteSpace V] in
/-- normalising before a linear step does not change the normalised result. -/
theorem normalize_apply_normalize (A : V →L[ℂ] V) (v : V) :
    normalize (A (normalize v)) = normalize (A v) := by
  rcases eq_or_ne v 0 with h | h
  · simp [h, normalize_zero]
  · have hpos : 0 < ‖v‖⁻¹ := inv_pos.mpr (norm_pos_iff.mpr h)
    show normalize (A (((‖v‖⁻¹ : ℝ) : ℂ) • v)) = _
    rw [map_smul, normalize_smul_pos hpos]

omit [CompleteSpace V] in
/-- **normalising after every step (callbacks) or only at the end gives the same final state.** -/
theorem normalize_iterate (A : V →L[ℂ] V) (k : ℕ) (ψ : V) :
    normalize ((fun v => normalize (A v))^[k] ψ) = normalize ((A ^ k) ψ) := by
  induction k generalizing ψ with
  | zero => simp
  | succ k ih =>
    rw [Function.iterate_succ_apply, ih, pow_succ, mul_apply_eq_comp,
      normalize_apply_normalize]

omit [CompleteSpace V] in
theorem iterate_clm (A : V →L[ℂ] V) (k : ℕ) (ψ : V) : (fun v => A v)^[k] ψ = (A ^ k) ψ := by
  induction k generalizing ψ with
  | zero => simp
  | succ k ih => rw [Function.iterate_succ_apply, ih, pow_succ, mul_apply_eq_comp]

omit [InnerProductSpace ℂ V] [CompleteSpace V] in
/-- normalising an approximation `u` of a unit vector `v` at most doubles the error. -/
theorem norm_normalize_sub_le [NormedSpace ℂ V] (u v : V) (hv : ‖v‖ = 1) :
    ‖((‖u‖⁻¹ : ℝ) : ℂ) • u - v‖ ≤ 2 * ‖u - v‖ := by
  have hrev : |‖u‖ - 1| ≤ ‖u - v‖ := by
    have := abs_norm_sub_norm_le u v
    rwa [hv] at this
  rcases eq_or_ne u 0 with h | h
  · subst h
    simp only [smul_zero, zero_sub, norm_neg, hv]
    linarith [norm_nonneg v]
  · have hu : ‖u‖ ≠ 0 := norm_ne_zero_iff.mpr h
    have e : ((‖u‖⁻¹ : ℝ) : ℂ) • u - v = (((‖u‖⁻¹ - 1 : ℝ)) : ℂ) • u + (u - v) := by
      push_cast; rw [sub_smul, one_smul]; abel
    rw [e]
    have n1 : ‖(((‖u‖⁻¹ - 1 : ℝ)) : ℂ) • u‖ = |‖u‖ - 1| := by
      rw [norm_smul, Complex.norm_real, Real.norm_eq_abs]
      have : (‖u‖⁻¹ - 1) * ‖u‖ = 1 - ‖u‖ := by field_simp
      rw [← abs_of_nonneg (norm_nonneg u), ← abs_mul, abs_of_nonneg (norm_nonneg u), this,
        abs_sub_comm]
    calc _ ≤ ‖(((‖u‖⁻¹ - 1 : ℝ)) : ℂ) • u‖ + ‖u - v‖ := norm_add_le _ _
      _ ≤ _ := by rw [n1]; linarith

omit [CompleteSpace V] in
/-- the division `s / ‖s‖` of the code is never `0 / 0` when the global bound is below `1`:
a vector within distance `< 1` of a unit vector is non-zero, and if `P^k ψ ≠ 0` then every
intermediate `P^j ψ`, `j ≤ k`, is non-zero too. -/
theorem pow_apply_ne_zero_of_close (P : V →L[ℂ] V) (k : ℕ) (ψ φ : V) (hφ : ‖φ‖ = 1)
    (hclose : ‖(P ^ k) ψ - φ‖ < 1) (j : ℕ) (hj : j ≤ k) : (P ^ j) ψ ≠ 0 := by
  intro h0
  have hk : (P ^ k) ψ = 0 := by
    obtain ⟨m, rfl⟩ := Nat.exists_eq_add_of_le hj
    rw [Nat.add_comm, pow_add, mul_apply_eq_comp, h0, map_zero]
  rw [hk, zero_sub, norm_neg, hφ] at hclose
  exact lt_irrefl _ hclose

omit [CompleteSpace V] in
/-- **what `execute` returns for a normalising solver with one-step operator `P`**:
`normalize (P^k ψ)`, with or without callbacks. -/
theorem execute_normalize (P : V →L[ℂ] V) (cb : Bool) (k : ℕ) (ψ : V) :
    (execute (fun v => P v) normalize cb k ψ).1 = normalize ((P ^ k) ψ) := by
  cases cb
  · show (evolveLoop _ _ false k ψ [ψ]).1 = _
    rw [evolveLoop_fst_nocb, iterate_clm]
  · show (evolveLoop _ _ true k ψ [ψ]).1 = _
    rw [evolveLoop_fst_cb, normalize_iterate]

/-- **global state error of a normalising one-step solver**: if `‖P - exp(-i dt H)‖ ≤ e`, `H`
self-adjoint, `‖ψ‖ = 1`, the state `execute` returns after `k` steps is within
`2((1 + e)^k - 1)` of `exp(-i k dt H) ψ`. -/
theorem execute_normalize_error {H : V →L[ℂ] V} (hH : IsSelfAdjoint H) (dt : ℝ)
    (P : V →L[ℂ] V) (e : ℝ) (hloc : ‖P - propagator (dt : ℂ) H‖ ≤ e) (cb : Bool) (k : ℕ)
    (ψ : V) (hψ : ‖ψ‖ = 1) :
    ‖(execute (fun v => P v) normalize cb k ψ).1 - (propagator ((k : ℂ) * (dt : ℂ)) H) ψ‖
      ≤ 2 * ((1 + e) ^ k - 1) := by
  rw [execute_normalize]
  have hU : propagator ((k : ℂ) * (dt : ℂ)) H ∈ unitary (V →L[ℂ] V) := by
    have := propagator_mem_unitary (𝔸 := V →L[ℂ] V) ((k : ℝ) * dt) hH
    push_cast at this
    exact this
  have hv : ‖(propagator ((k : ℂ) * (dt : ℂ)) H) ψ‖ = 1 := by
    rw [ContinuousLinearMap.norm_map_of_mem_unitary hU, hψ]
  have hg := onestep_global hH dt P e hloc k
  have hop : ‖(P ^ k) ψ - (propagator ((k : ℂ) * (dt : ℂ)) H) ψ‖ ≤ (1 + e) ^ k - 1 := by
    rw [← sub_apply]
    calc _ ≤ ‖P ^ k - propagator ((k : ℂ) * (dt : ℂ)) H‖ * ‖ψ‖ :=
          ContinuousLinearMap.le_opNorm _ _
      _ ≤ _ := by rw [hψ, mul_one]; exact hg
  calc _ ≤ 2 * ‖(P ^ k) ψ - (propagator ((k : ℂ) * (dt : ℂ)) H) ψ‖ :=
        norm_normalize_sub_le _ _ hv
    _ ≤ _ := by linarith

end hilbert

end Evo
end QV
