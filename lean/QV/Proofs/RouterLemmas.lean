/-
  QV.Proofs.RouterLemmas — lemmas about the router model (QV/Model/Router.lean):
    * `look_set`, `updateMaps_*` : the list updates of `_update_mappings_swap` act on the
      maps as composition with a transposition, and keep them mutually inverse;
    * `Inv_step`                : the invariant is kept by every well-formed action;
    * `applyGate_swap`          : SWAP acts on labels as the transposition of two bits;
    * `SemInv_step`             : routed ≈ (executed) moved through l2p, for every action;
    * `pickOne_sound/pickCheck_sound` : the order checker only accepts reorderings of
      gates on disjoint qubits, which do not change the operator;
    * `AllOk_step`              : guards ⇒ every routed two-qubit gate sits on an edge.
-/
import QV.Model.Router
import QV.Props.C05
import QV.Proofs.SimLemmas

set_option linter.unusedSectionVars false
set_option linter.unusedSimpArgs false
set_option linter.unusedVariables false

namespace QV.Router
open QV QV.Props.C05

/-! ### list maps as functions -/

theorem look_lt {m : List Nat} {i : Nat} (h : i < m.length) : look m i = m[i] := by
  simp [look, List.getD_eq_getElem?_getD, h]

theorem look_ge {m : List Nat} {i : Nat} (h : m.length ≤ i) : look m i = i := by
  simp [look, List.getD_eq_getElem?_getD, h]

theorem look_set (m : List Nat) (i v j : Nat) :
    look (m.set i v) j = if j = i ∧ i < m.length then v else look m j := by
  unfold look
  simp only [List.getD_eq_getElem?_getD, List.getElem?_set]
  by_cases hij : i = j
  · subst hij
    by_cases hl : i < m.length
    · simp [hl]
    · simp [hl]
  · have : ¬ (j = i) := fun e => hij e.symm
    simp [hij, this]

theorem look_range {n i : Nat} : look (List.range n) i = i := by
  by_cases h : i < n
  · rw [look_lt (by simpa using h)]; simp
  · exact look_ge (by simpa using Nat.le_of_not_lt h)

/-- transposition of two qubits. -/
def tr (a b : Nat) (x : Nat) : Nat := if x = a then b else if x = b then a else x

theorem tr_tr (a b x : Nat) : tr a b (tr a b x) = x := by
  unfold tr
  by_cases h1 : x = a
  · by_cases h2 : b = a <;> simp [h1, h2]
  · by_cases h2 : x = b
    · simp [h1, h2]
    · simp [h1, h2]

theorem tr_comm (a b x : Nat) : tr a b x = tr b a x := by
  unfold tr
  by_cases h1 : x = a
  · by_cases h2 : x = b
    · simp [← h1, ← h2]
    · subst h1; simp [h2]
  · by_cases h2 : x = b <;> simp [h1, h2]

theorem tr_injective (a b : Nat) : Function.Injective (tr a b) := fun x y h => by
  have := congrArg (tr a b) h
  simpa [tr_tr] using this

/-- the two maps are mutually inverse permutations of `0..n-1`. -/
def Inv (n : Nat) (s : RState) : Prop :=
  s.p2l.length = n ∧ s.l2p.length = n ∧
  (∀ l, l < n → look s.l2p l < n ∧ look s.p2l (look s.l2p l) = l) ∧
  (∀ p, p < n → look s.p2l p < n ∧ look s.l2p (look s.p2l p) = p)

theorem Inv_init (n : Nat) : Inv n (init n) := by
  refine ⟨by simp [init], by simp [init], ?_, ?_⟩ <;>
  · intro l hl
    simp [init, look_range, hl]

theorem Inv.left_inv {n : Nat} {s : RState} (h : Inv n s) (l : Nat) :
    look s.p2l (look s.l2p l) = l := by
  by_cases hl : l < n
  · exact (h.2.2.1 l hl).2
  · have hl' : n ≤ l := Nat.le_of_not_lt hl
    rw [look_ge (m := s.l2p) (by rw [h.2.1]; exact hl'), look_ge (by rw [h.1]; exact hl')]

theorem Inv.right_inv {n : Nat} {s : RState} (h : Inv n s) (p : Nat) :
    look s.l2p (look s.p2l p) = p := by
  by_cases hl : p < n
  · exact (h.2.2.2 p hl).2
  · have hl' : n ≤ p := Nat.le_of_not_lt hl
    rw [look_ge (m := s.p2l) (by rw [h.1]; exact hl'), look_ge (by rw [h.2.1]; exact hl')]

theorem Inv.l2p_injective {n : Nat} {s : RState} (h : Inv n s) :
    Function.Injective (look s.l2p) :=
  Function.LeftInverse.injective (g := look s.p2l) h.left_inv

theorem Inv.p2l_injective {n : Nat} {s : RState} (h : Inv n s) :
    Function.Injective (look s.p2l) :=
  Function.LeftInverse.injective (g := look s.l2p) h.right_inv

/-- `_update_mappings_swap` on the logical→physical list = composition with the
    transposition of the two physical qubits. -/
theorem updateMaps_l2p {n : Nat} {s : RState} (h : Inv n s) {l0 l1 : Nat}
    (h0 : l0 < n) (h1 : l1 < n) (hne : l0 ≠ l1) (l : Nat) :
    look (updateMaps s l0 l1 (look s.l2p l0) (look s.l2p l1)).l2p l
      = tr (look s.l2p l0) (look s.l2p l1) (look s.l2p l) := by
  have hinj := h.l2p_injective
  simp only [updateMaps, look_set, List.length_set, h.2.1]
  unfold tr
  by_cases e1 : l = l1
  · subst e1
    have : look s.l2p l ≠ look s.l2p l0 := fun e => hne (hinj e).symm
    simp [h1, this]
  · by_cases e0 : l = l0
    · subst e0
      simp [e1, h0]
    · have a0 : look s.l2p l ≠ look s.l2p l0 := fun e => e0 (hinj e)
      have a1 : look s.l2p l ≠ look s.l2p l1 := fun e => e1 (hinj e)
      simp [e0, e1, a0, a1]

/-- … and on the physical→logical list = precomposition with the same transposition. -/
theorem updateMaps_p2l {n : Nat} {s : RState} (h : Inv n s) {l0 l1 : Nat}
    (h0 : l0 < n) (h1 : l1 < n) (hne : l0 ≠ l1) (p : Nat) :
    look (updateMaps s l0 l1 (look s.l2p l0) (look s.l2p l1)).p2l p
      = look s.p2l (tr (look s.l2p l0) (look s.l2p l1) p) := by
  have hinj := h.l2p_injective
  have hp0 := (h.2.2.1 l0 h0).1
  have hp1 := (h.2.2.1 l1 h1).1
  have hpne : look s.l2p l0 ≠ look s.l2p l1 := fun e => hne (hinj e)
  simp only [updateMaps, look_set, List.length_set, h.1]
  unfold tr
  by_cases e1 : p = look s.l2p l1
  · subst e1
    have : look s.l2p l1 ≠ look s.l2p l0 := fun e => hpne e.symm
    simp [hp1, this, h.left_inv]
  · by_cases e0 : p = look s.l2p l0
    · subst e0
      simp [e1, hp0, h.left_inv]
    · simp [e0, e1]

theorem updateMaps_Inv {n : Nat} {s : RState} (h : Inv n s) {l0 l1 : Nat}
    (h0 : l0 < n) (h1 : l1 < n) (hne : l0 ≠ l1) :
    Inv n (updateMaps s l0 l1 (look s.l2p l0) (look s.l2p l1)) := by
  have hinj := h.l2p_injective
  have hp0 := (h.2.2.1 l0 h0).1
  have hp1 := (h.2.2.1 l1 h1).1
  have key : ∀ x, x < n → tr (look s.l2p l0) (look s.l2p l1) x < n := by
    intro x hx; unfold tr; split
    · exact hp1
    · split
      · exact hp0
      · exact hx
  refine ⟨by simp [updateMaps, h.1], by simp [updateMaps, h.2.1], ?_, ?_⟩
  · intro l hl
    rw [updateMaps_l2p h h0 h1 hne, updateMaps_p2l h h0 h1 hne, tr_tr]
    exact ⟨key _ (h.2.2.1 l hl).1, h.left_inv l⟩
  · intro p hp
    rw [updateMaps_p2l h h0 h1 hne, updateMaps_l2p h h0 h1 hne, h.right_inv, tr_tr]
    exact ⟨(h.2.2.2 _ (key p hp)).1, rfl⟩

/-- changing the routed / executed lists does not touch the maps. -/
theorem Inv_congr {n : Nat} {s t : RState} (hp : t.p2l = s.p2l) (hl : t.l2p = s.l2p)
    (h : Inv n s) : Inv n t := by
  unfold Inv at *; rw [hp, hl]; exact h

/-! ### the invariant along a run -/

theorem wf_swap {n : Nat} {s : RState} {l0 l1 : Nat} (h : wf n s (.swap l0 l1) = true) :
    l0 ≠ l1 ∧ l0 < n ∧ l1 < n := by
  simpa [wf, and_assoc] using h

theorem wf_undo {n : Nat} {s : RState} (h : wf n s .undo = true) :
    ∃ g a b, s.routed.getLast? = some g ∧ g.qs = [a, b] ∧ g.tag = swapTag ∧ g.meas = false ∧
      a ≠ b ∧ a < n ∧ b < n := by
  have h' : (match s.routed.getLast? with
      | some g => isSwapOn g && g.qs.all (fun q => decide (q < n))
      | none => false) = true := h
  split at h'
  · rename_i g hg
    obtain ⟨tag, meas, qs⟩ := g
    simp only [Bool.and_eq_true] at h'
    obtain ⟨h1, h2⟩ := h'
    unfold isSwapOn at h1
    split at h1
    · rename_i a b hq
      simp only at hq
      subst hq
      simp only [Bool.and_eq_true, beq_iff_eq, Bool.not_eq_true', bne_iff_ne, ne_eq] at h1
      simp only [List.all_cons, List.all_nil, Bool.and_true, Bool.and_eq_true,
        decide_eq_true_eq] at h2
      exact ⟨_, a, b, hg, rfl, h1.1.1, h1.1.2, h1.2, h2.1, h2.2⟩
    · simp at h1
  · simp at h'

theorem step_undo_eq {s : RState} {g : RGate} {a b : Nat}
    (hl : s.routed.getLast? = some g) (hq : g.qs = [a, b]) :
    step s .undo = updateMaps { s with routed := s.routed.dropLast }
      (look s.p2l (min a b)) (look s.p2l (max a b)) (min a b) (max a b) := by
  simp [step, hl, hq]

theorem minmax_cases (a b : Nat) (h : a ≠ b) :
    (min a b = a ∧ max a b = b) ∨ (min a b = b ∧ max a b = a) := by
  rcases Nat.lt_or_gt_of_ne h with h | h
  · left; exact ⟨Nat.min_eq_left (Nat.le_of_lt h), Nat.max_eq_right (Nat.le_of_lt h)⟩
  · right; exact ⟨Nat.min_eq_right (Nat.le_of_lt h), Nat.max_eq_left (Nat.le_of_lt h)⟩

/-- undo is the swap update of the logical pair sitting on the two physical qubits. -/
theorem step_undo_eq' {n : Nat} {s : RState} (h : Inv n s) {g : RGate} {a b : Nat}
    (hl : s.routed.getLast? = some g) (hq : g.qs = [a, b]) :
    step s .undo = updateMaps { s with routed := s.routed.dropLast }
      (look s.p2l (min a b)) (look s.p2l (max a b))
      (look s.l2p (look s.p2l (min a b))) (look s.l2p (look s.p2l (max a b))) := by
  rw [step_undo_eq hl hq, h.right_inv, h.right_inv]

theorem Inv_step {n : Nat} {s : RState} (h : Inv n s) (a : Action) (hw : wf n s a = true) :
    Inv n (step s a) := by
  cases a with
  | exec gs => exact Inv_congr rfl rfl h
  | swap l0 l1 =>
    obtain ⟨hne, h0, h1⟩ := wf_swap hw
    exact Inv_congr rfl rfl (updateMaps_Inv h h0 h1 hne)
  | undo =>
    obtain ⟨g, a, b, hl, hq, _, _, hab, ha, hb⟩ := wf_undo hw
    rw [step_undo_eq' h hl hq]
    have hmin : min a b < n := by rcases minmax_cases a b hab with ⟨e, _⟩ | ⟨e, _⟩ <;> rw [e] <;> assumption
    have hmax : max a b < n := by rcases minmax_cases a b hab with ⟨_, e⟩ | ⟨_, e⟩ <;> rw [e] <;> assumption
    have hmm : min a b ≠ max a b := by
      rcases minmax_cases a b hab with ⟨e1, e2⟩ | ⟨e1, e2⟩ <;> rw [e1, e2]
      · exact hab
      · exact fun e => hab e.symm
    have hne : look s.p2l (min a b) ≠ look s.p2l (max a b) := fun e => hmm (h.p2l_injective e)
    exact Inv_congr rfl rfl
      (updateMaps_Inv h (h.2.2.2 _ hmin).1 (h.2.2.2 _ hmax).1 hne)

theorem Inv_run {n : Nat} {s : RState} (h : Inv n s) (as : List Action)
    (hw : wfAll n s as = true) : Inv n (run s as) := by
  induction as generalizing s with
  | nil => exact h
  | cons a as ih =>
    simp only [wfAll, Bool.and_eq_true] at hw
    exact ih (Inv_step h a hw.1) hw.2

theorem guardsOk_wfAll {n : Nat} {E : List (Nat × Nat)} {s : RState} {as : List Action}
    (h : guardsOk n E s as = true) : wfAll n s as = true := by
  induction as generalizing s with
  | nil => rfl
  | cons a as ih =>
    simp only [guardsOk, guard, Bool.and_eq_true] at h
    simp only [wfAll, Bool.and_eq_true]
    exact ⟨h.1.1, ih h.2⟩

/-! ### connectivity -/

/-- every routed gate is executable on the graph. -/
def AllOk (E : List (Nat × Nat)) (s : RState) : Prop := ∀ g ∈ s.routed, gateOk E g = true

theorem updateMaps_routed (s : RState) (a b c d : Nat) : (updateMaps s a b c d).routed = s.routed := rfl

theorem AllOk_step {n : Nat} {E : List (Nat × Nat)} {s : RState} (h : AllOk E s) (a : Action)
    (hg : guard n E s a = true) : AllOk E (step s a) := by
  simp only [guard, Bool.and_eq_true] at hg
  obtain ⟨hw, he⟩ := hg
  cases a with
  | exec gs =>
    intro g hgm
    simp only [step, List.mem_append, List.mem_map] at hgm
    rcases hgm with hgm | ⟨g', hg', rfl⟩
    · exact h g hgm
    · simp only [edgeGuard, List.all_eq_true] at he
      exact he g' hg'
  | swap l0 l1 =>
    intro g hgm
    simp only [step, updateMaps_routed, List.mem_append, List.mem_singleton] at hgm
    rcases hgm with hgm | rfl
    · exact h g hgm
    · simpa [gateOk, swapGate, edgeGuard] using he
  | undo =>
    obtain ⟨g, a, b, hl, hq, _⟩ := wf_undo hw
    rw [step_undo_eq hl hq]
    intro g' hgm
    simp only [updateMaps_routed] at hgm
    exact h g' (List.dropLast_subset _ hgm)

theorem AllOk_run {n : Nat} {E : List (Nat × Nat)} {s : RState} (h : AllOk E s)
    (as : List Action) (hg : guardsOk n E s as = true) : AllOk E (run s as) := by
  induction as generalizing s with
  | nil => exact h
  | cons a as ih =>
    simp only [guardsOk, Bool.and_eq_true] at hg
    exact ih (AllOk_step h a hg.1) hg.2

/-! ### semantics -/

section Sem
variable {α : Type} [CommSemiring α]

/-- matrix of SWAP in qibo's index convention (first listed qubit = most significant). -/
def swapMat : Nat → Nat → α := fun i j =>
  if (i = 0 ∧ j = 0) ∨ (i = 1 ∧ j = 2) ∨ (i = 2 ∧ j = 1) ∨ (i = 3 ∧ j = 3) then 1 else 0

/-- meaning of a router gate: tag 0 is SWAP, every other tag `t` has the matrix `mats t`
    (arbitrary: unitary gates, projectors of measurement outcomes, integer test matrices). -/
def den (mats : Nat → Nat → Nat → α) (g : RGate) : MGate α :=
  { mat := if g.tag = swapTag then swapMat else mats g.tag, targets := g.qs, controls := [] }

theorem den_relabel (mats : Nat → Nat → Nat → α) (σ : Nat → Nat) (g : RGate) :
    den mats (g.relabel σ) = (den mats g).relabel σ := rfl

theorem den_map_relabel (mats : Nat → Nat → Nat → α) (σ : Nat → Nat) (gs : List RGate) :
    (gs.map (RGate.relabel σ)).map (den mats) = relabelCircuit σ (gs.map (den mats)) := by
  simp [relabelCircuit, List.map_map, Function.comp_def, den_relabel]

/-- SWAP on two different qubits exchanges the two bits of every label. -/
theorem applyGate_swap (a b : Nat) (h : a ≠ b) (Φ : Lab → α) :
    applyGate ({ mat := swapMat, targets := [a, b], controls := [] } : MGate α) Φ
      = fun y => Φ (pull (tr a b) y) := by
  funext x
  have hba : b ≠ a := fun e => h e.symm
  have hlab : ((x.set a (x b)).set b (x a)) = pull (tr a b) x := by
    funext r
    simp only [Lab.set, pull, tr]
    by_cases h1 : r = b
    · subst h1; simp [hba]
    · by_cases h2 : r = a
      · subst h2; simp [h]
      · simp [h1, h2]
  rw [← hlab]
  simp only [applyGate, Lab.allOne, List.all_nil, if_true, sumOver, Lab.idx, List.foldl_cons,
    List.foldl_nil, Lab.set, swapMat]
  cases hxa : x a <;> cases hxb : x b <;> simp [h, hba, hxa, hxb]

theorem den_swapGate (mats : Nat → Nat → Nat → α) (a b : Nat) :
    den mats (swapGate a b) = { mat := swapMat, targets := [a, b], controls := [] } := by
  simp [den, swapGate]

theorem pull_pull (σ τ : Nat → Nat) (y : Lab) : pull σ (pull τ y) = pull (τ ∘ σ) y := rfl

/-- the routed circuit is the executed logical circuit seen through the current layout. -/
def SemInv (mats : Nat → Nat → Nat → α) (s : RState) (ψ : Lab → α) : Prop :=
  runCircuit (s.routed.map (den mats)) ψ
    = fun y => runCircuit (s.executed.map (den mats)) ψ (pull (look s.l2p) y)

theorem SemInv_init (mats : Nat → Nat → Nat → α) (n : Nat) (ψ : Lab → α) :
    SemInv mats (init n) ψ := by
  unfold SemInv
  funext y
  simp only [init, List.map_nil, runCircuit, List.foldl_nil]
  congr 1
  funext r
  simp [pull, look_range]

theorem SemInv_step {n : Nat} (mats : Nat → Nat → Nat → α) {s : RState} (ψ : Lab → α)
    (hI : Inv n s) (h : SemInv mats s ψ) (a : Action) (hw : wf n s a = true) :
    SemInv mats (step s a) ψ := by
  unfold SemInv at *
  cases a with
  | exec gs =>
    simp only [step, List.map_append, runCircuit_append, h, den_map_relabel]
    exact T05_relabel_run (look s.l2p) hI.l2p_injective (gs.map (den mats)) _
  | swap l0 l1 =>
    obtain ⟨hne, h0, h1⟩ := wf_swap hw
    have hpne : look s.l2p l0 ≠ look s.l2p l1 := fun e => hne (hI.l2p_injective e)
    have hmaps : ∀ l, look (step s (.swap l0 l1)).l2p l
        = tr (look s.l2p l0) (look s.l2p l1) (look s.l2p l) := fun l =>
      updateMaps_l2p hI h0 h1 hne l
    have hr : (step s (.swap l0 l1)).routed
        = s.routed ++ [swapGate (look s.l2p l0) (look s.l2p l1)] := rfl
    have he : (step s (.swap l0 l1)).executed = s.executed := rfl
    rw [hr, he, List.map_append, runCircuit_append, h]
    simp only [List.map_cons, List.map_nil, runCircuit, List.foldl_cons, List.foldl_nil,
      den_swapGate]
    rw [applyGate_swap _ _ hpne]
    funext y
    have : pull (look s.l2p) (pull (tr (look s.l2p l0) (look s.l2p l1)) y)
        = pull (look (step s (.swap l0 l1)).l2p) y := by
      funext r
      simp [pull, hmaps]
    show runCircuit _ ψ _ = runCircuit _ ψ _
    rw [this]
  | undo =>
    obtain ⟨g, a, b, hl, hq, htag, hmeas, hab, ha, hb⟩ := wf_undo hw
    have hmin : min a b < n := by rcases minmax_cases a b hab with ⟨e, _⟩ | ⟨e, _⟩ <;> rw [e] <;> assumption
    have hmax : max a b < n := by rcases minmax_cases a b hab with ⟨_, e⟩ | ⟨_, e⟩ <;> rw [e] <;> assumption
    have hmm : min a b ≠ max a b := by
      rcases minmax_cases a b hab with ⟨e1, e2⟩ | ⟨e1, e2⟩ <;> rw [e1, e2]
      · exact hab
      · exact fun e => hab e.symm
    have hne : look s.p2l (min a b) ≠ look s.p2l (max a b) := fun e => hmm (hI.p2l_injective e)
    have hmaps : ∀ l, look (step s .undo).l2p l = tr (min a b) (max a b) (look s.l2p l) := by
      intro l
      rw [step_undo_eq' hI hl hq]
      have := updateMaps_l2p hI (hI.2.2.2 _ hmin).1 (hI.2.2.2 _ hmax).1 hne l
      rw [hI.right_inv, hI.right_inv] at this
      rw [hI.right_inv, hI.right_inv]
      exact this
    have hr : (step s .undo).routed = s.routed.dropLast := by rw [step_undo_eq hl hq]; rfl
    have he : (step s .undo).executed = s.executed := by rw [step_undo_eq hl hq]; rfl
    have hsplit : s.routed = s.routed.dropLast ++ [g] :=
      (List.dropLast_append_getLast? g (by simp [hl])).symm
    have hg : den mats g = { mat := swapMat, targets := [a, b], controls := [] } := by
      simp [den, htag, hq]
    rw [hsplit, List.map_append, runCircuit_append] at h
    simp only [List.map_cons, List.map_nil, runCircuit_cons, runCircuit_nil, hg] at h
    rw [applyGate_swap _ _ hab] at h
    rw [hr, he]
    funext y
    have h2 := congrFun h (pull (tr a b) y)
    have e1 : pull (tr a b) (pull (tr a b) y) = y := by
      funext r; simp [pull, tr_tr]
    rw [e1] at h2
    rw [h2]
    have e2 : pull (look s.l2p) (pull (tr a b) y) = pull (look (step s .undo).l2p) y := by
      funext r
      simp only [pull, hmaps]
      rcases minmax_cases a b hab with ⟨e1, e2⟩ | ⟨e1, e2⟩ <;> rw [e1, e2]
      rw [tr_comm]
    rw [e2]

theorem SemInv_run {n : Nat} (mats : Nat → Nat → Nat → α) {s : RState} (ψ : Lab → α)
    (hI : Inv n s) (h : SemInv mats s ψ) (as : List Action) (hw : wfAll n s as = true) :
    SemInv mats (run s as) ψ := by
  induction as generalizing s with
  | nil => exact h
  | cons a as ih =>
    simp only [wfAll, Bool.and_eq_true] at hw
    exact ih (Inv_step hI a hw.1) (SemInv_step mats ψ hI h a hw.1) hw.2

/-! ### the order checker -/

theorem pickOne_mem {o : RGate} {rem rem' : List RGate} (h : pickOne o rem = some rem') :
    o ∈ rem ∧ ∀ g ∈ rem', g ∈ rem := by
  induction rem generalizing rem' with
  | nil => simp [pickOne] at h
  | cons g rest ih =>
    unfold pickOne at h
    split at h
    · rename_i hg
      simp only [Option.some.injEq] at h
      subst h; subst hg
      exact ⟨List.mem_cons_self .., fun g' hm => List.mem_cons_of_mem _ hm⟩
    · split at h
      · cases hp : pickOne o rest with
        | none => simp [hp] at h
        | some r =>
          simp only [hp, Option.map_some, Option.some.injEq] at h
          subst h
          obtain ⟨h1, h2⟩ := ih hp
          refine ⟨List.mem_cons_of_mem _ h1, fun g' hm => ?_⟩
          rcases List.mem_cons.mp hm with e | hm
          · exact e ▸ List.mem_cons_self ..
          · exact List.mem_cons_of_mem _ (h2 g' hm)
      · simp at h

theorem disjointG_spec {a b : RGate} (h : disjointG a b = true) :
    ∀ r, r ∈ a.qs → r ∉ b.qs := by
  intro r hr
  simp only [disjointG, List.all_eq_true, Bool.not_eq_true', List.contains_eq_mem,
    decide_eq_false_iff_not] at h
  exact h r hr

/-- taking a gate out from behind gates on other qubits does not change the operator. -/
theorem pickOne_sound (mats : Nat → Nat → Nat → α) {o : RGate} {rem rem' : List RGate}
    (h : pickOne o rem = some rem') (hn : ∀ g ∈ rem, g.qs.Nodup) (ψ : Lab → α) :
    runCircuit (rem.map (den mats)) ψ = runCircuit ((o :: rem').map (den mats)) ψ := by
  induction rem generalizing rem' ψ with
  | nil => simp [pickOne] at h
  | cons g rest ih =>
    have ho : o.qs.Nodup := hn o (pickOne_mem h).1
    unfold pickOne at h
    split at h
    · rename_i hg
      simp only [Option.some.injEq] at h
      subst h; subst hg; rfl
    · split at h
      · rename_i hne hd
        cases hp : pickOne o rest with
        | none => simp [hp] at h
        | some r =>
          simp only [hp, Option.map_some, Option.some.injEq] at h
          subst h
          have hn' : ∀ g' ∈ rest, g'.qs.Nodup := fun g' hm => hn g' (List.mem_cons_of_mem _ hm)
          have hg : g.qs.Nodup := hn g (List.mem_cons_self ..)
          simp only [List.map_cons, runCircuit_cons]
          rw [ih hp hn' (applyGate (den mats g) ψ)]
          simp only [List.map_cons, runCircuit_cons]
          congr 1
          apply (applyGate_comm_of_disjoint (den mats g) (den mats o) hg ho _ ψ).symm
          intro r hr
          simp only [den, List.append_nil] at hr ⊢
          exact disjointG_spec hd r hr
      · simp at h

theorem pickCheck_sound (mats : Nat → Nat → Nat → α) {rem out : List RGate}
    (h : pickCheck rem out = true) (hn : ∀ g ∈ rem, g.qs.Nodup) (ψ : Lab → α) :
    runCircuit (rem.map (den mats)) ψ = runCircuit (out.map (den mats)) ψ := by
  induction out generalizing rem ψ with
  | nil =>
    unfold pickCheck at h
    have : rem = [] := by simpa using h
    subst this; rfl
  | cons o out ih =>
    unfold pickCheck at h
    split at h
    · rename_i rem' hp
      rw [pickOne_sound mats hp hn ψ]
      simp only [List.map_cons, runCircuit_cons]
      exact ih h (fun g hm => hn g ((pickOne_mem hp).2 g hm)) _
    · simp at h

/-- the checker accepts exactly permutations (so nothing is lost or duplicated). -/
theorem pickOne_perm {o : RGate} {rem rem' : List RGate} (h : pickOne o rem = some rem') :
    rem.Perm (o :: rem') := by
  induction rem generalizing rem' with
  | nil => simp [pickOne] at h
  | cons g rest ih =>
    unfold pickOne at h
    split at h
    · rename_i hg
      simp only [Option.some.injEq] at h
      subst h; subst hg; exact List.Perm.refl _
    · split at h
      · cases hp : pickOne o rest with
        | none => simp [hp] at h
        | some r =>
          simp only [hp, Option.map_some, Option.some.injEq] at h
          subst h
          exact ((ih hp).cons g).trans (List.Perm.swap o g r)
      · simp at h

theorem pickCheck_perm {rem out : List RGate} (h : pickCheck rem out = true) : rem.Perm out := by
  induction out generalizing rem with
  | nil =>
    unfold pickCheck at h
    have : rem = [] := by simpa using h
    subst this; exact List.Perm.refl _
  | cons o out ih =>
    unfold pickCheck at h
    split at h
    · rename_i rem' hp
      exact (pickOne_perm hp).trans ((ih h).cons o)
    · simp at h

end Sem

end QV.Router
