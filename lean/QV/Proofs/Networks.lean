/-
  QV.Proofs.Networks — lemmas about the quantum-network model QV.Model.Networks.
-/
import Mathlib.Algebra.BigOperators.Group.Finset.Basic
import Mathlib.Algebra.BigOperators.Ring.Finset
import Mathlib.Algebra.BigOperators.Intervals
import Mathlib.Algebra.Ring.Defs
import Mathlib.Tactic.Ring
import QV.Model.Networks
import QV.Proofs.Superop

namespace QV.Networks
open Finset QV.Superop

variable {α : Type}

/-- what is needed of the conjugation. -/
structure ConjHom [CommSemiring α] (conj : α → α) : Prop where
  zero : conj 0 = 0
  one : conj 1 = 1
  add : ∀ x y, conj (x + y) = conj x + conj y
  mul : ∀ x y, conj (x * y) = conj x * conj y

/-! ### multi-index arithmetic, any number of systems -/

/-- every entry of the multi-index is below the corresponding extent (and the lengths agree). -/
def InRange : List Nat → List Nat → Prop
  | [], [] => True
  | i :: is, p :: ps => i < p ∧ InRange is ps
  | _, _ => False

theorem flat_lt : ∀ (ps is : List Nat), InRange is ps → flat ps is < prodL ps
  | [], [], _ => by simp [flat, prodL]
  | [], _ :: _, h => by simp [InRange] at h
  | _ :: _, [], h => by simp [InRange] at h
  | p :: ps, i :: is, h => by
    obtain ⟨hi, hr⟩ := h
    have ih := flat_lt ps is hr
    simp only [flat, prodL]
    calc i * prodL ps + flat ps is < i * prodL ps + prodL ps := by omega
      _ = (i + 1) * prodL ps := by ring
      _ ≤ p * prodL ps := Nat.mul_le_mul_right _ hi

theorem unflat_flat : ∀ (ps is : List Nat), InRange is ps → unflat ps (flat ps is) = is
  | [], [], _ => rfl
  | [], _ :: _, h => by simp [InRange] at h
  | _ :: _, [], h => by simp [InRange] at h
  | p :: ps, i :: is, h => by
    obtain ⟨_, hr⟩ := h
    have hlt := flat_lt ps is hr
    simp only [flat, unflat]
    rw [mul_add_div' i hlt, mul_add_mod' i hlt, unflat_flat ps is hr]

theorem unflat_inRange : ∀ (ps : List Nat) (k : Nat), k < prodL ps → InRange (unflat ps k) ps
  | [], _, _ => trivial
  | p :: ps, k, h => by
    simp only [prodL] at h
    have hpos : 0 < prodL ps := by
      rcases Nat.eq_zero_or_pos (prodL ps) with h0 | h0
      · rw [h0] at h; simp at h
      · exact h0
    refine ⟨?_, unflat_inRange ps _ (Nat.mod_lt _ hpos)⟩
    exact Nat.div_lt_of_lt_mul (by rw [Nat.mul_comm]; exact h)

theorem flat_unflat : ∀ (ps : List Nat) (k : Nat), k < prodL ps → flat ps (unflat ps k) = k
  | [], k, h => by simp only [prodL] at h; simp [flat]; omega
  | p :: ps, k, h => by
    simp only [prodL] at h
    have hpos : 0 < prodL ps := by
      rcases Nat.eq_zero_or_pos (prodL ps) with h0 | h0
      · rw [h0] at h; simp at h
      · exact h0
    simp only [unflat, flat]
    rw [flat_unflat ps _ (Nat.mod_lt _ hpos)]
    exact div_mul_add_mod k (prodL ps)

theorem rowIdx_pairIdx : ∀ (ps as bs : List Nat), InRange as ps → InRange bs ps →
    rowIdx ps (pairIdx ps as bs) = as
  | [], [], [], _, _ => rfl
  | [], _ :: _, _, h, _ => by simp [InRange] at h
  | [], [], _ :: _, _, h => by simp [InRange] at h
  | _ :: _, [], _, h, _ => by simp [InRange] at h
  | _ :: _, _ :: _, [], _, h => by simp [InRange] at h
  | p :: ps, a :: as, b :: bs, ha, hb => by
    simp only [pairIdx, rowIdx]
    rw [mul_add_div' a hb.1, rowIdx_pairIdx ps as bs ha.2 hb.2]

theorem colIdx_pairIdx : ∀ (ps as bs : List Nat), InRange as ps → InRange bs ps →
    colIdx ps (pairIdx ps as bs) = bs
  | [], [], [], _, _ => rfl
  | [], _ :: _, _, h, _ => by simp [InRange] at h
  | [], [], _ :: _, _, h => by simp [InRange] at h
  | _ :: _, [], _, h, _ => by simp [InRange] at h
  | _ :: _, _ :: _, [], _, h => by simp [InRange] at h
  | p :: ps, a :: as, b :: bs, ha, hb => by
    simp only [pairIdx, colIdx]
    rw [mul_add_mod' a hb.1, colIdx_pairIdx ps as bs ha.2 hb.2]

/-- `t_k = (t_k / p_k) p_k + t_k % p_k`: the tensor index is recovered from its two parts. -/
theorem pairIdx_rowIdx_colIdx : ∀ (ps ts : List Nat), ts.length = ps.length →
    pairIdx ps (rowIdx ps ts) (colIdx ps ts) = ts
  | [], [], _ => rfl
  | [], _ :: _, h => by simp at h
  | _ :: _, [], h => by simp at h
  | p :: ps, t :: ts, h => by
    simp only [rowIdx, colIdx, pairIdx]
    rw [div_mul_add_mod, pairIdx_rowIdx_colIdx ps ts (by simpa using h)]

section link
variable [CommSemiring α]

theorem matmulCh_ten (conj : α → α) (A B : Net α) {d0 d1 d1' d2 : Nat}
    (hA : A.part = [d0, d1]) (hB : B.part = [d1', d2]) (t0 t2 : Nat) :
    (matmulCh conj A B).ten [t0, t2]
      = sumRange (d1 * d1) (fun t => fullTen conj A [t0, t] * fullTen conj B [t, t2]) := by
  simp [matmulCh, linkProduct, einsum, summedLabels, dedup, labelDim, sumLabels, bindEnv, mulAll,
    hA, hB, sq]


theorem matmulCh_part (conj : α → α) (A B : Net α) {d0 d1 d1' d2 : Nat}
    (hA : A.part = [d0, d1]) (hB : B.part = [d1', d2]) :
    (matmulCh conj A B).part = [d0, d2] ∧ (matmulCh conj A B).pure = false := by
  simp [matmulCh, linkProduct, linkMeta, hA, hB]

theorem matmulCh_sysIn (conj : α → α) (A B : Net α) {a0 a1 b0 b1 : Bool}
    (hA : A.sysIn = [a0, a1]) (hB : B.sysIn = [b0, b1]) :
    (matmulCh conj A B).sysIn = [a0, b1] := by
  simp [matmulCh, linkProduct, linkMeta, hA, hB]

theorem matmulSuper_ten (conj : α → α) (S B : Net α) {d0 d1 d2 d3 e1 e2 : Nat}
    (hS : S.part = [d0, d1, d2, d3]) (hB : B.part = [e1, e2]) (t0 t3 : Nat) :
    (matmulSuper conj S B).ten [t0, t3]
      = sumRange (d1 * d1) (fun t1 => sumRange (d2 * d2) (fun t2 =>
          fullTen conj S [t0, t1, t2, t3] * fullTen conj B [t1, t2])) := by
  simp [matmulSuper, linkProduct, einsum, summedLabels, dedup, labelDim, sumLabels, bindEnv, mulAll,
    hS, hB, sq]

theorem matmulSuper_part (conj : α → α) (S B : Net α) {d0 d1 d2 d3 e1 e2 : Nat}
    (hS : S.part = [d0, d1, d2, d3]) (hB : B.part = [e1, e2]) :
    (matmulSuper conj S B).part = [d0, d3] := by
  simp [matmulSuper, linkProduct, linkMeta, hS, hB]

theorem matmul_channels (conj : α → α) (A B : Net α) {d0 d1 d2 : Nat}
    (hA : A.part = [d0, d1]) (hB : B.part = [d1, d2]) :
    matmul conj A B = some (matmulCh conj A B) := by
  simp [matmul, hA, hB]

theorem matmul_refuses (conj : α → α) (A B : Net α) {d0 d1 d1' d2 : Nat}
    (hA : A.part = [d0, d1]) (hB : B.part = [d1', d2]) (h : d1 ≠ d1') :
    matmul conj A B = none := by
  simp [matmul, hA, hB, h]

theorem fullTen_of_not_pure (conj : α → α) (N : Net α) (h : N.pure = false) :
    fullTen conj N = N.ten := by
  simp [fullTen, h]

/-- associativity of `@` on channels, entrywise, for arbitrary tensors (pure or not). -/
theorem matmulCh_assoc (conj : α → α) (A B C : Net α) {d0 d1 d2 d3 : Nat}
    (hA : A.part = [d0, d1]) (hB : B.part = [d1, d2]) (hC : C.part = [d2, d3]) (t0 t3 : Nat) :
    (matmulCh conj (matmulCh conj A B) C).ten [t0, t3]
      = (matmulCh conj A (matmulCh conj B C)).ten [t0, t3] := by
  have hAB := matmulCh_part conj A B hA hB
  have hBC := matmulCh_part conj B C hB hC
  rw [matmulCh_ten conj _ C hAB.1 hC, matmulCh_ten conj A _ hA hBC.1,
    fullTen_of_not_pure conj _ hAB.2, fullTen_of_not_pure conj _ hBC.2]
  simp only [matmulCh_ten conj A B hA hB, matmulCh_ten conj B C hB hC, sumRange_eq_sum,
    Finset.sum_mul, Finset.mul_sum]
  rw [Finset.sum_comm]
  exact Finset.sum_congr rfl (fun t _ => Finset.sum_congr rfl (fun u _ => by ring))

theorem identity_fullTen {conj : α → α} (hc : ConjHom conj) (d t0 t1 : Nat) :
    fullTen conj (identityChannel d : Net α) [t0, t1] = if t0 = t1 then 1 else 0 := by
  have key : (t0 / d = t1 / d ∧ t0 % d = t1 % d) ↔ t0 = t1 := by
    constructor
    · rintro ⟨h1, h2⟩
      rw [← Nat.div_add_mod t0 d, ← Nat.div_add_mod t1 d, h1, h2]
    · rintro rfl; exact ⟨rfl, rfl⟩
  have hr : rowIdx [d, d] [t0, t1] = [t0 / d, t1 / d] := rfl
  have hcI : colIdx [d, d] [t0, t1] = [t0 % d, t1 % d] := rfl
  have hp : (identityChannel d : Net α).pure = true := rfl
  have hpart : (identityChannel d : Net α).part = [d, d] := rfl
  have hten : ∀ a b : Nat, (identityChannel d : Net α).ten [a, b] = if a = b then 1 else 0 := by
    intro a b; rfl
  simp only [fullTen, hp, if_true, hpart, hr, hcI, hten]
  by_cases h : t0 = t1
  · rw [if_pos (key.mpr h).1, if_pos (key.mpr h).2, if_pos h, hc.one, mul_one]
  · rw [if_neg h]
    by_cases h1 : t0 / d = t1 / d
    · have h2 : ¬ t0 % d = t1 % d := fun h2 => h (key.mp ⟨h1, h2⟩)
      rw [if_neg h2, hc.zero, mul_zero]
    · rw [if_neg h1, zero_mul]

theorem matmulCh_identity_left {conj : α → α} (hc : ConjHom conj) (A : Net α) {d0 d1 : Nat}
    (hA : A.part = [d0, d1]) {t0 : Nat} (h0 : t0 < d0 * d0) (t1 : Nat) :
    (matmulCh conj (identityChannel d0) A).ten [t0, t1] = fullTen conj A [t0, t1] := by
  rw [matmulCh_ten conj _ A (rfl : (identityChannel d0 : Net α).part = [d0, d0]) hA,
    sumRange_eq_sum]
  simp only [identity_fullTen hc]
  rw [Finset.sum_eq_single t0]
  · simp
  · intro b _ hb; simp [Ne.symm hb]
  · intro h; exact absurd (mem_range.mpr h0) h

theorem matmulCh_identity_right {conj : α → α} (hc : ConjHom conj) (A : Net α) {d0 d1 : Nat}
    (hA : A.part = [d0, d1]) (t0 : Nat) {t1 : Nat} (h1 : t1 < d1 * d1) :
    (matmulCh conj A (identityChannel d1)).ten [t0, t1] = fullTen conj A [t0, t1] := by
  rw [matmulCh_ten conj A _ hA (rfl : (identityChannel d1 : Net α).part = [d1, d1]),
    sumRange_eq_sum]
  simp only [identity_fullTen hc]
  rw [Finset.sum_eq_single t1]
  · simp
  · intro b _ hb; simp [hb]
  · intro h; exact absurd (mem_range.mpr h1) h

end link

/-! ### channel objects from a Choi operator; `apply` -/

section apply
variable [CommSemiring α]

theorem applyChoiRect_square (o : Order) (d n : Nat) (C ρ : Mat α) :
    applyChoiRect o d d n C ρ = applyChoi o d n C ρ := by
  cases o <;> rfl

theorem combFromOperator_inv_part (C : Mat α) (din dout : Nat) :
    (combFromOperator C [dout, din] true).part = [din, dout]
      ∧ (combFromOperator C [dout, din] true).pure = false
      ∧ (combFromOperator C [dout, din] true).sysIn = [true, false] := by
  refine ⟨rfl, rfl, ?_⟩
  simp [combFromOperator, inverseNet, fromOperator, combSysIn, List.range_succ]

theorem combFromOperator_part (C : Mat α) (din dout : Nat) :
    (combFromOperator C [din, dout] false).part = [din, dout]
      ∧ (combFromOperator C [din, dout] false).pure = false
      ∧ (combFromOperator C [din, dout] false).sysIn = [true, false] := by
  refine ⟨rfl, rfl, ?_⟩
  simp [combFromOperator, fromOperator, combSysIn, List.range_succ]

theorem combFromOperator_inv_ten (C : Mat α) (din dout a b : Nat) :
    (combFromOperator C [dout, din] true).ten [a, b]
      = C ((b / dout) * din + a / din) ((b % dout) * din + a % din) := by
  simp [combFromOperator, inverseNet, fromOperator, operatorToTensor, rowIdx, colIdx, flat, prodL]

theorem combFromOperator_ten (C : Mat α) (din dout a b : Nat) :
    (combFromOperator C [din, dout] false).ten [a, b]
      = C ((a / din) * dout + b / dout) ((a % din) * dout + b % dout) := by
  simp [combFromOperator, fromOperator, operatorToTensor, rowIdx, colIdx, flat, prodL]

theorem chanApply_not_pure (conj : α → α) (N : Net α) (hp : N.pure = false) {din dout : Nat}
    (hN : N.part = [din, dout]) (ρ : Mat α) (j l : Nat) :
    chanApply conj N ρ j l
      = ∑ i ∈ range din, ∑ k ∈ range din, N.ten [i * din + k, j * dout + l] * ρ i k := by
  simp [chanApply, hp, hN, pairIdx, sumRange_eq_sum]

theorem chanApply_pure (conj : α → α) (N : Net α) (hp : N.pure = true) {din dout : Nat}
    (hN : N.part = [din, dout]) (ρ : Mat α) (j k : Nat) :
    chanApply conj N ρ j k
      = ∑ i ∈ range din, ∑ l ∈ range din, N.ten [i, j] * conj (N.ten [l, k]) * ρ i l := by
  simp [chanApply, hp, hN, sumRange_eq_sum]

/-- `QuantumChannel.from_operator(C, (d_out, d_in), inverse=True).apply(ρ)` reads `C` as a
row-vectorised (output leg first) Choi operator. -/
theorem chanApply_fromChoi_row (conj : α → α) (C ρ : Mat α) {din dout : Nat} (n : Nat) {j l : Nat}
    (hj : j < dout) (hl : l < dout) :
    chanApply conj (combFromOperator C [dout, din] true) ρ j l
      = applyChoiRect .row din dout n C ρ j l := by
  rw [chanApply_not_pure conj _ (combFromOperator_inv_part C din dout).2.1
    (combFromOperator_inv_part C din dout).1]
  simp only [applyChoiRect, sumRange_eq_sum, dimOf, vecIdx]
  refine Finset.sum_congr rfl (fun i hi => Finset.sum_congr rfl (fun k hk => ?_))
  have hk' := mem_range.mp hk
  rw [combFromOperator_inv_ten, mul_add_div' j hl, mul_add_mod' j hl, mul_add_div' i hk',
    mul_add_mod' i hk']

/-- `QuantumChannel.from_operator(C, (d_in, d_out)).apply(ρ)` reads `C` as a column-vectorised
(input leg first) Choi operator. -/
theorem chanApply_fromChoi_column (conj : α → α) (C ρ : Mat α) {din dout : Nat} (n : Nat)
    {j l : Nat} (hj : j < dout) (hl : l < dout) :
    chanApply conj (combFromOperator C [din, dout] false) ρ j l
      = applyChoiRect .column din dout n C ρ j l := by
  rw [chanApply_not_pure conj _ (combFromOperator_part C din dout).2.1
    (combFromOperator_part C din dout).1]
  simp only [applyChoiRect, sumRange_eq_sum, dimOf, vecIdx]
  refine Finset.sum_congr rfl (fun i hi => Finset.sum_congr rfl (fun k hk => ?_))
  have hk' := mem_range.mp hk
  rw [combFromOperator_ten, mul_add_div' j hl, mul_add_mod' j hl, mul_add_div' i hk',
    mul_add_mod' i hk']

/-- entries of the Choi matrix of a rectangular Kraus family. -/
theorem krausToChoi_rect_at (conj : α → α) (o : Order) (ho : o ≠ .system) {din dout : Nat}
    (n : Nat) (Ks : List (Mat α)) {j i l k : Nat} (hj : j < dout) (hi : i < din) (hl : l < dout)
    (hk : k < din) :
    krausToChoi conj o (dimOf o din dout) n Ks (vecIdx o (dimOf o din dout) n j i)
        (vecIdx o (dimOf o din dout) n l k)
      = sumList Ks (fun K => K j i * conj (K l k)) := by
  cases o with
  | row =>
    simp only [krausToChoi, vectorization, rowOf, colOf, vecIdx, dimOf, mul_add_div' j hi,
      mul_add_mod' j hi, mul_add_div' l hk, mul_add_mod' l hk]
  | column =>
    simp only [krausToChoi, vectorization, rowOf, colOf, vecIdx, dimOf, mul_add_div' i hj,
      mul_add_mod' i hj, mul_add_div' k hl, mul_add_mod' k hl]
  | system => exact absurd rfl ho

/-- the rectangular Choi matrix of a Kraus family acts as the Kraus map. -/
theorem applyChoiRect_krausToChoi (conj : α → α) (o : Order) (ho : o ≠ .system) {din dout : Nat}
    (n : Nat) (Ks : List (Mat α)) (ρ : Mat α) {j l : Nat} (hj : j < dout) (hl : l < dout) :
    applyChoiRect o din dout n (krausToChoi conj o (dimOf o din dout) n Ks) ρ j l
      = applyKraus conj din Ks ρ j l := by
  simp only [applyChoiRect, applyKraus, sumRange_eq_sum]
  have : ∀ i ∈ range din, ∀ k ∈ range din,
      krausToChoi conj o (dimOf o din dout) n Ks (vecIdx o (dimOf o din dout) n j i)
          (vecIdx o (dimOf o din dout) n l k) * ρ i k
        = sumList Ks (fun K => K j i * ρ i k * conj (K l k)) := by
    intro i hi k hk
    rw [krausToChoi_rect_at conj o ho n Ks hj (mem_range.mp hi) hl (mem_range.mp hk),
      sumList_mul_right]
    exact sumList_congr _ (fun K _ => by ring)
  rw [Finset.sum_congr rfl (fun i hi => Finset.sum_congr rfl (fun k hk => this i hi k hk))]
  rw [Finset.sum_congr rfl (fun i _ => sum_sumList_comm _ _ _), sum_sumList_comm]

/-- the channel object of a Kraus family acts as the Kraus map. -/
theorem chanApply_krausNet (conj : α → α) {din dout : Nat} (Ks : List (Mat α)) (ρ : Mat α)
    {j l : Nat} (hj : j < dout) (hl : l < dout) :
    chanApply conj (krausNet conj din dout Ks) ρ j l = applyKraus conj din Ks ρ j l := by
  rw [chanApply_not_pure conj _ rfl (rfl : (krausNet conj din dout Ks).part = [din, dout])]
  simp only [applyKraus, sumRange_eq_sum]
  have : ∀ i ∈ range din, ∀ k ∈ range din,
      (krausNet conj din dout Ks).ten [i * din + k, j * dout + l] * ρ i k
        = sumList Ks (fun K => K j i * ρ i k * conj (K l k)) := by
    intro i hi k hk
    have hk' := mem_range.mp hk
    show krausTen conj din dout Ks [i * din + k, j * dout + l] * ρ i k = _
    simp only [krausTen, List.getD_cons_zero, List.getD_cons_succ, mul_add_div' j hl,
      mul_add_mod' j hl, mul_add_div' i hk', mul_add_mod' i hk']
    rw [sumList_mul_right]
    exact sumList_congr _ (fun K _ => by ring)
  rw [Finset.sum_congr rfl (fun i hi => Finset.sum_congr rfl (fun k hk => this i hi k hk))]
  rw [Finset.sum_congr rfl (fun i _ => sum_sumList_comm _ _ _), sum_sumList_comm]

/-- the channel object built from the row-order Choi operator (`inverse=True`) of a Kraus family
has the tensor `krausTen`. -/
theorem fromChoi_row_ten (conj : α → α) {din dout : Nat} (n : Nat) (Ks : List (Mat α))
    {t0 : Nat} (h0 : t0 < din * din) (t1 : Nat) :
    (combFromOperator (krausToChoi conj .row din n Ks) [dout, din] true).ten [t0, t1]
      = krausTen conj din dout Ks [t0, t1] := by
  have h := div_lt_of_lt_sq h0
  rw [combFromOperator_inv_ten]
  simp only [krausToChoi, vectorization, rowOf, colOf, krausTen, List.getD_cons_zero,
    List.getD_cons_succ, mul_add_div' _ h, mul_add_mod' _ h]
  have h' : t0 % din < din := mod_lt_of_lt_sq h0
  simp only [mul_add_div' _ h', mul_add_mod' _ h']

/-- … and so has the one built from the column-order Choi operator without `inverse`. -/
theorem fromChoi_column_ten (conj : α → α) {din dout : Nat} (n : Nat) (Ks : List (Mat α))
    (t0 : Nat) {t1 : Nat} (h1 : t1 < dout * dout) :
    (combFromOperator (krausToChoi conj .column dout n Ks) [din, dout] false).ten [t0, t1]
      = krausTen conj din dout Ks [t0, t1] := by
  have h := div_lt_of_lt_sq h1
  have h' : t1 % dout < dout := mod_lt_of_lt_sq h1
  rw [combFromOperator_ten]
  simp only [krausToChoi, vectorization, rowOf, colOf, krausTen, List.getD_cons_zero,
    List.getD_cons_succ, mul_add_div' _ h, mul_add_mod' _ h, mul_add_div' _ h', mul_add_mod' _ h']

/-! ### pure networks -/

/-- the Kraus operator stored by a pure channel object: `K[out, in] = ψ[in, out]`. -/
def storedOp (N : Net α) : Mat α := fun o i => N.ten [i, o]

/-- `full()` of a pure channel object is the tensor of the one-element Kraus family `{K}`,
`K[out, in] = ψ[in, out]`: `T[t₀, t₁] = ψ[t₀ / d_in, t₁ / d_out] · conj ψ[t₀ % d_in, t₁ % d_out]`. -/
theorem fullTen_pure_channel (conj : α → α) (N : Net α) (hp : N.pure = true) {din dout : Nat}
    (hN : N.part = [din, dout]) (t0 t1 : Nat) :
    fullTen conj N [t0, t1] = krausTen conj din dout [storedOp N] [t0, t1] := by
  simp [fullTen, hp, hN, rowIdx, colIdx, krausTen, sumList, storedOp]

/-- the pure branch of `apply` is the Kraus action of the stored operator. -/
theorem chanApply_pure_kraus (conj : α → α) (N : Net α) (hp : N.pure = true) {din dout : Nat}
    (hN : N.part = [din, dout]) (ρ : Mat α) (j k : Nat) :
    chanApply conj N ρ j k = applyKraus conj din [storedOp N] ρ j k := by
  rw [chanApply_pure conj N hp hN]
  simp only [applyKraus, sumList, sumRange_eq_sum, add_zero, storedOp]
  exact Finset.sum_congr rfl (fun i _ => Finset.sum_congr rfl (fun l _ => by ring))

/-- `apply` gives the same result before and after `full(update=True)`. -/
theorem chanApply_fullNet (conj : α → α) (N : Net α) (hp : N.pure = true) {din dout : Nat}
    (hN : N.part = [din, dout]) (ρ : Mat α) {j k : Nat} (hj : j < dout) (hk : k < dout) :
    chanApply conj (fullNet conj N) ρ j k = chanApply conj N ρ j k := by
  rw [chanApply_pure_kraus conj N hp hN, ← chanApply_krausNet conj [storedOp N] ρ hj hk,
    chanApply_not_pure conj (fullNet conj N) rfl (hN : (fullNet conj N).part = [din, dout]),
    chanApply_not_pure conj _ rfl (rfl : (krausNet conj din dout [storedOp N]).part = [din, dout])]
  refine Finset.sum_congr rfl (fun i _ => Finset.sum_congr rfl (fun l _ => ?_))
  show fullTen conj N _ * _ = krausTen conj din dout [storedOp N] _ * _
  rw [fullTen_pure_channel conj N hp hN]

end apply

/-! ### composition -/

section compose
variable [CommSemiring α]

theorem sumList_flatMap {β γ : Type} (l : List β) (g : β → List γ) (f : γ → α) :
    sumList (l.flatMap g) f = sumList l (fun x => sumList (g x) f) := by
  induction l with
  | nil => rfl
  | cons x xs ih =>
    simp only [List.flatMap_cons, sumList]
    rw [← ih]
    generalize g x = l1
    induction l1 with
    | nil => simp [sumList]
    | cons y ys ih2 => simp only [List.cons_append, sumList, ih2, add_assoc]

theorem sumList_map {β γ : Type} (l : List β) (g : β → γ) (f : γ → α) :
    sumList (l.map g) f = sumList l (fun x => f (g x)) := by
  induction l with
  | nil => rfl
  | cons x xs ih => simp only [List.map_cons, sumList, ih]

theorem sumList_mul_left {β : Type} (l : List β) (f : β → α) (c : α) :
    c * sumList l f = sumList l (fun x => c * f x) := by
  induction l with
  | nil => simp [sumList]
  | cons x xs ih => simp only [sumList, mul_add, ih]

theorem conj_sum {conj : α → α} (hc : ConjHom conj) (s : Finset Nat) (f : Nat → α) :
    conj (∑ k ∈ s, f k) = ∑ k ∈ s, conj (f k) := by
  classical
  induction s using Finset.induction_on with
  | empty => simp [hc.zero]
  | insert a s ha ih => rw [Finset.sum_insert ha, Finset.sum_insert ha, hc.add, ih]

/-- contraction of the tensors of two Kraus families over the shared leg gives the tensor of the
family of products `L · K`. -/
theorem krausTen_compose {conj : α → α} (hc : ConjHom conj) {d0 d1 d2 : Nat}
    (Ks Ls : List (Mat α)) (t0 t2 : Nat) :
    ∑ t ∈ range (d1 * d1), krausTen conj d0 d1 Ks [t0, t] * krausTen conj d1 d2 Ls [t, t2]
      = krausTen conj d0 d2 (composeKraus d1 Ks Ls) [t0, t2] := by
  rw [sum_range_mul]
  simp only [krausTen, composeKraus, List.getD_cons_zero, List.getD_cons_succ, sumList_flatMap,
    sumList_map, matMul, sumRange_eq_sum, conj_sum hc, hc.mul]
  -- push the sums over a, b inside the sums over the two families
  have step : ∀ a ∈ range d1, ∀ b ∈ range d1,
      sumList Ks (fun K => K ((a * d1 + b) / d1) (t0 / d0) * conj (K ((a * d1 + b) % d1) (t0 % d0)))
        * sumList Ls (fun L => L (t2 / d2) ((a * d1 + b) / d1) * conj (L (t2 % d2) ((a * d1 + b) % d1)))
      = sumList Ks (fun K => sumList Ls (fun L =>
          (L (t2 / d2) a * K a (t0 / d0)) * (conj (L (t2 % d2) b) * conj (K b (t0 % d0))))) := by
    intro a _ b hb
    have hb' := mem_range.mp hb
    rw [mul_add_div' a hb', mul_add_mod' a hb', sumList_mul_right]
    refine sumList_congr _ (fun K _ => ?_)
    rw [sumList_mul_left]
    exact sumList_congr _ (fun L _ => by ring)
  rw [Finset.sum_congr rfl (fun a ha => Finset.sum_congr rfl (fun b hb => step a ha b hb))]
  rw [Finset.sum_congr rfl (fun a _ => sum_sumList_comm _ _ _), sum_sumList_comm]
  refine sumList_congr _ (fun K _ => ?_)
  rw [Finset.sum_congr rfl (fun a _ => sum_sumList_comm _ _ _), sum_sumList_comm]
  refine sumList_congr _ (fun L _ => ?_)
  rw [Finset.sum_mul_sum]

/-- `A @ B` for the channel objects of two Kraus families is the channel object of `{L · K}`. -/
theorem matmulCh_krausNet {conj : α → α} (hc : ConjHom conj) {d0 d1 d2 : Nat}
    (Ks Ls : List (Mat α)) (t0 t2 : Nat) :
    (matmulCh conj (krausNet conj d0 d1 Ks) (krausNet conj d1 d2 Ls)).ten [t0, t2]
      = (krausNet conj d0 d2 (composeKraus d1 Ks Ls)).ten [t0, t2] := by
  rw [matmulCh_ten conj _ _ (rfl : (krausNet conj d0 d1 Ks).part = [d0, d1])
    (rfl : (krausNet conj d1 d2 Ls).part = [d1, d2]), sumRange_eq_sum]
  exact krausTen_compose hc Ks Ls t0 t2

theorem tensorCh_ten (conj : α → α) (P Q : Net α) {p0 p1 q0 q1 : Nat}
    (hP : P.part = [p0, p1]) (hQ : Q.part = [q0, q1]) (t0 t1 t2 t3 : Nat) :
    (tensorCh conj P Q).ten [t0, t1, t2, t3] = fullTen conj P [t0, t1] * fullTen conj Q [t2, t3] := by
  simp [tensorCh, linkProduct, einsum, summedLabels, dedup, sumLabels, bindEnv, mulAll, hP, hQ]

theorem tensorCh_part (conj : α → α) (P Q : Net α) {p0 p1 q0 q1 : Nat}
    (hP : P.part = [p0, p1]) (hQ : Q.part = [q0, q1]) :
    (tensorCh conj P Q).part = [p0, p1, q0, q1] ∧ (tensorCh conj P Q).pure = false := by
  simp [tensorCh, linkProduct, linkMeta, hP, hQ]

/-- a super-channel that is a tensor product `P ⊗ Q` (pre- and post-processing) applied to a
channel `B` is `P`, then `B`, then `Q`. -/
theorem matmulSuper_tensorCh (conj : α → α) (P Q B : Net α) {d0 d1 d2 d3 : Nat}
    (hP : P.part = [d0, d1]) (hB : B.part = [d1, d2]) (hQ : Q.part = [d2, d3]) (t0 t3 : Nat) :
    (matmulSuper conj (tensorCh conj P Q) B).ten [t0, t3]
      = (matmulCh conj (matmulCh conj P B) Q).ten [t0, t3] := by
  have hT := tensorCh_part conj P Q hP hQ
  have hPB := matmulCh_part conj P B hP hB
  rw [matmulSuper_ten conj _ B hT.1 hB, matmulCh_ten conj _ Q hPB.1 hQ,
    fullTen_of_not_pure conj _ hT.2, fullTen_of_not_pure conj _ hPB.2]
  simp only [tensorCh_ten conj P Q hP hQ, matmulCh_ten conj P B hP hB, sumRange_eq_sum,
    Finset.sum_mul]
  rw [Finset.sum_comm]
  exact Finset.sum_congr rfl (fun u _ => Finset.sum_congr rfl (fun t _ => by ring))

/-- feeding a state through a channel by link product (`state @ N`, `"jk,kl->jl"` with a trivial
first leg) is `apply`: the result is the state network of `N.apply(ρ)`. -/
theorem matmulCh_stateNet (conj : α → α) (N : Net α) {d0 d1 : Nat} (hN : N.part = [d0, d1])
    (ρ : Mat α) {j l : Nat} (hl : l < d1) :
    (matmulCh conj (stateNet ρ d0) N).ten [0, j * d1 + l]
      = (stateNet (chanApply conj (fullNet conj N) ρ) d1).ten [0, j * d1 + l] := by
  rw [matmulCh_ten conj _ N (rfl : (stateNet ρ d0).part = [1, d0]) hN,
    fullTen_of_not_pure conj (stateNet ρ d0) rfl]
  show _ = chanApply conj (fullNet conj N) ρ ((j * d1 + l) / d1) ((j * d1 + l) % d1)
  rw [mul_add_div' j hl, mul_add_mod' j hl,
    chanApply_not_pure conj (fullNet conj N) rfl (hN : (fullNet conj N).part = [d0, d1]),
    sumRange_eq_sum, sum_range_mul]
  refine Finset.sum_congr rfl (fun i _ => Finset.sum_congr rfl (fun k hk => ?_))
  have hk' := Finset.mem_range.mp hk
  show ρ ((i * d0 + k) / d0) ((i * d0 + k) % d0) * _ = fullTen conj N _ * _
  rw [mul_add_div' i hk', mul_add_mod' i hk', mul_comm]

/-- `apply` of `A @ B` is `apply` of `B` after `apply` of `A`, for arbitrary tensors. -/
theorem chanApply_matmulCh (conj : α → α) (A B : Net α) {d0 d1 d2 : Nat}
    (hA : A.part = [d0, d1]) (hB : B.part = [d1, d2]) (ρ : Mat α) (j l : Nat) :
    chanApply conj (matmulCh conj A B) ρ j l
      = chanApply conj (fullNet conj B) (chanApply conj (fullNet conj A) ρ) j l := by
  have hAB := matmulCh_part conj A B hA hB
  rw [chanApply_not_pure conj _ hAB.2 hAB.1,
    chanApply_not_pure conj (fullNet conj B) rfl (hB : (fullNet conj B).part = [d1, d2])]
  simp only [chanApply_not_pure conj (fullNet conj A) rfl (hA : (fullNet conj A).part = [d0, d1]),
    matmulCh_ten conj A B hA hB, sumRange_eq_sum, sum_range_mul, Finset.sum_mul, Finset.mul_sum]
  show _ = ∑ a ∈ range d1, ∑ b ∈ range d1, ∑ i ∈ range d0, ∑ k ∈ range d0,
    fullTen conj B [a * d1 + b, j * d2 + l] * (fullTen conj A [i * d0 + k, a * d1 + b] * ρ i k)
  rw [Finset.sum_congr rfl (fun i _ => Finset.sum_comm)]
  rw [Finset.sum_comm]
  refine Finset.sum_congr rfl (fun a _ => ?_)
  rw [Finset.sum_congr rfl (fun i _ => Finset.sum_comm)]
  rw [Finset.sum_comm]
  refine Finset.sum_congr rfl (fun b _ => Finset.sum_congr rfl (fun i _ =>
    Finset.sum_congr rfl (fun k _ => by ring)))

end compose

/-! ### `is_causal`, `is_unital`, `is_hermitian` on channel objects -/

section predicates
variable [CommSemiring α]

theorem nsmulN_eq (n : Nat) (x : α) : nsmulN n x = n • x := by
  induction n with
  | zero => simp [nsmulN]
  | succ n ih => rw [nsmulN, ih, succ_nsmul]

/-- contracting a leg with the flattened identity is the partial trace. -/
theorem sum_eyeVec (d : Nat) (f : Nat → α) :
    sumRange (d * d) (fun t => f t * eyeVec d t) = ∑ o ∈ range d, f (o * d + o) := by
  rw [sumRange_eq_sum, sum_range_mul]
  refine Finset.sum_congr rfl (fun a ha => ?_)
  rw [Finset.sum_eq_single a]
  · have ha' := mem_range.mp ha
    simp [eyeVec, mul_add_div' a ha', mul_add_mod' a ha']
  · intro b hb hne
    have hb' := mem_range.mp hb
    simp [eyeVec, mul_add_div' a hb', mul_add_mod' a hb', Ne.symm hne]
  · intro h; exact absurd ha h

/-- `(Σ K†K)ᵀ`: `G[i,k] = Σ_K Σ_o K[o,i] · conj K[o,k]`. -/
def gramIn (conj : α → α) (dout : Nat) (Ks : List (Mat α)) (i k : Nat) : α :=
  sumList Ks (fun K => ∑ o ∈ range dout, K o i * conj (K o k))

/-- `Σ K K†`: `H[o,p] = Σ_K Σ_i K[o,i] · conj K[p,i]`. -/
def gramOut (conj : α → α) (din : Nat) (Ks : List (Mat α)) (o p : Nat) : α :=
  sumList Ks (fun K => ∑ i ∈ range din, K o i * conj (K p i))

theorem traceLast_krausTen (conj : α → α) (din dout : Nat) (Ks : List (Mat α)) (t0 : Nat) :
    traceLast dout (krausTen conj din dout Ks) [t0] = gramIn conj dout Ks (t0 / din) (t0 % din) := by
  show sumRange (dout * dout) (fun t => krausTen conj din dout Ks ([t0] ++ [t]) * eyeVec dout t) = _
  rw [sum_eyeVec]
  simp only [krausTen, gramIn, List.cons_append, List.nil_append, List.getD_cons_zero,
    List.getD_cons_succ]
  rw [sum_sumList_comm]
  refine sumList_congr _ (fun K _ => Finset.sum_congr rfl (fun o ho => ?_))
  have ho' := mem_range.mp ho
  rw [mul_add_div' o ho', mul_add_mod' o ho']

theorem traceFirst_krausTen (conj : α → α) (din dout : Nat) (Ks : List (Mat α)) (t1 : Nat) :
    traceFirst din (krausTen conj din dout Ks) [t1] = gramOut conj din Ks (t1 / dout) (t1 % dout) := by
  show sumRange (din * din) (fun t => krausTen conj din dout Ks (t :: [t1]) * eyeVec din t) = _
  rw [sum_eyeVec]
  simp only [krausTen, gramOut, List.getD_cons_zero, List.getD_cons_succ]
  rw [sum_sumList_comm]
  refine sumList_congr _ (fun K _ => Finset.sum_congr rfl (fun i hi => ?_))
  have hi' := mem_range.mp hi
  rw [mul_add_div' i hi', mul_add_mod' i hi']

/-- what `is_causal` tests on the channel object of a Kraus family, exactly:
`d_in · (Σ K†K)ᵀ = tr(Σ K†K) · 1` (the Gram matrix is a multiple of the identity). -/
theorem isCausal_krausNet [DecidableEq α] (conj : α → α) (din dout : Nat) (Ks : List (Mat α)) :
    isCausal conj (krausNet conj din dout Ks) = true ↔
      ∀ t, t < din * din →
        din • gramIn conj dout Ks (t / din) (t % din)
          = (∑ j ∈ range din, gramIn conj dout Ks j j) * eyeVec din t := by
  have hsub : traceLast din (traceLast dout (krausTen conj din dout Ks)) []
      = ∑ j ∈ range din, gramIn conj dout Ks j j := by
    show sumRange (din * din) (fun t => traceLast dout (krausTen conj din dout Ks) ([] ++ [t])
      * eyeVec din t) = _
    rw [sum_eyeVec]
    refine Finset.sum_congr rfl (fun j hj => ?_)
    have hj' := mem_range.mp hj
    rw [List.nil_append, traceLast_krausTen, mul_add_div' j hj', mul_add_mod' j hj']
  have hfull : fullTen conj (krausNet conj din dout Ks) = krausTen conj din dout Ks := rfl
  have hpart : (krausNet conj din dout Ks).part = [din, dout] := rfl
  simp only [isCausal, isCausal.go, hpart, hfull, List.length_cons, List.length_nil, causalStep,
    sq, allIdx, List.take_zero, List.map_nil, List.all_cons, List.all_nil, Bool.and_true,
    List.all_eq_true, List.mem_range, beq_iff_eq, Nat.reduceAdd, Nat.reduceSub, Nat.le_refl,
    if_true, List.getD_cons_zero, List.getD_cons_succ, List.nil_append, nsmulN_eq,
    traceLast_krausTen, hsub]

/-- … in particular the channel object of a trace-preserving family is causal. -/
theorem isCausal_of_tp [DecidableEq α] (conj : α → α) (din dout : Nat) (Ks : List (Mat α))
    (htp : ∀ i k, i < din → k < din → gramIn conj dout Ks i k = if i = k then 1 else 0) :
    isCausal conj (krausNet conj din dout Ks) = true := by
  rw [isCausal_krausNet]
  intro t ht
  have h1 := div_lt_of_lt_sq ht
  have h2 := mod_lt_of_lt_sq ht
  rw [htp _ _ h1 h2, Finset.sum_congr rfl (fun j hj => htp j j (mem_range.mp hj) (mem_range.mp hj))]
  simp only [if_true, eyeVec, Finset.sum_const, Finset.card_range]
  by_cases h : t / din = t % din <;> simp [h]

/-- what `is_unital` tests: `d_out · Σ K K† = tr(Σ K K†) · 1`. -/
theorem isUnital_krausNet [DecidableEq α] (conj : α → α) (din dout : Nat) (Ks : List (Mat α)) :
    isUnital conj (krausNet conj din dout Ks) = true ↔
      ∀ t, t < dout * dout →
        dout • gramOut conj din Ks (t / dout) (t % dout)
          = eyeVec dout t * (∑ o ∈ range dout, gramOut conj din Ks o o) := by
  have hsub : traceFirst dout (traceFirst din (krausTen conj din dout Ks)) []
      = ∑ o ∈ range dout, gramOut conj din Ks o o := by
    show sumRange (dout * dout) (fun t => traceFirst din (krausTen conj din dout Ks) (t :: [])
      * eyeVec dout t) = _
    rw [sum_eyeVec]
    refine Finset.sum_congr rfl (fun o ho => ?_)
    have ho' := mem_range.mp ho
    rw [traceFirst_krausTen, mul_add_div' o ho', mul_add_mod' o ho']
  have hfull : fullTen conj (krausNet conj din dout Ks) = krausTen conj din dout Ks := rfl
  have hpart : (krausNet conj din dout Ks).part = [din, dout] := rfl
  simp only [isUnital, hpart, hfull, List.all_eq_true, List.mem_range, beq_iff_eq,
    List.getD_cons_zero, List.getD_cons_succ, nsmulN_eq, traceFirst_krausTen, hsub]

theorem conj_sumList {conj : α → α} (hc : ConjHom conj) {β : Type} (l : List β) (f : β → α) :
    conj (sumList l f) = sumList l (fun x => conj (f x)) := by
  induction l with
  | nil => simp [sumList, hc.zero]
  | cons x xs ih => simp only [sumList, hc.add, ih]

theorem matrix_krausNet (conj : α → α) {din dout : Nat} (Ks : List (Mat α)) {r c : Nat}
    (hr : r < din * dout) (hc' : c < din * dout) :
    matrix conj (krausNet conj din dout Ks) r c
      = sumList Ks (fun K => K (r % dout) (r / dout) * conj (K (c % dout) (c / dout))) := by
  have hdpos : 0 < dout := by
    rcases Nat.eq_zero_or_pos dout with h | h
    · subst h; simp at hr
    · exact h
  have h1 : c % dout < dout := Nat.mod_lt _ hdpos
  have h2 : c / dout < din := Nat.div_lt_of_lt_mul (by rw [Nat.mul_comm]; exact hc')
  have hm : matrix conj (krausNet conj din dout Ks) r c
      = krausTen conj din dout Ks [r / dout * din + c / dout, r % dout * dout + c % dout] := by
    simp [matrix, fullTen, krausNet, unflat, prodL, pairIdx]
  rw [hm]
  simp only [krausTen, List.getD_cons_zero, List.getD_cons_succ, mul_add_div' _ h1,
    mul_add_mod' _ h1, mul_add_div' _ h2, mul_add_mod' _ h2]

/-- the Choi matrix of the channel object of a Kraus family is Hermitian. -/
theorem krausNet_hermitian {conj : α → α} (hc : ConjHom conj) (hinv : ∀ x, conj (conj x) = x)
    {din dout : Nat} (Ks : List (Mat α)) {r c : Nat} (hr : r < din * dout) (hc' : c < din * dout) :
    conj (matrix conj (krausNet conj din dout Ks) c r) = matrix conj (krausNet conj din dout Ks) r c := by
  rw [matrix_krausNet conj Ks hc' hr, matrix_krausNet conj Ks hr hc', conj_sumList hc]
  refine sumList_congr _ (fun K _ => ?_)
  rw [hc.mul, hinv, mul_comm]

theorem isHermitian_krausNet [DecidableEq α] {conj : α → α} (hc : ConjHom conj)
    (hinv : ∀ x, conj (conj x) = x) (din dout : Nat) (Ks : List (Mat α)) :
    isHermitian conj (krausNet conj din dout Ks) = true := by
  have hpart : prodL (krausNet conj din dout Ks).part = din * dout := by
    simp [krausNet, prodL]
  simp only [isHermitian, hpart, Bool.or_eq_true, List.all_eq_true, List.mem_range, beq_iff_eq]
  right
  intro r hr c hc'
  exact krausNet_hermitian hc hinv Ks hr hc'

end predicates

/-! ### operator ↔ tensor, any partition -/

section operator
variable [CommSemiring α]

/-- `from_operator(M, partition).matrix() = M`. -/
theorem matrix_fromOperator (conj : α → α) (M : Mat α) (part : List Nat) (s : Option (List Bool))
    {r c : Nat} (hr : r < prodL part) (hc : c < prodL part) :
    matrix conj (fromOperator M part s) r c = M r c := by
  have h1 := unflat_inRange part r hr
  have h2 := unflat_inRange part c hc
  unfold matrix
  rw [fullTen_of_not_pure conj _ (rfl : (fromOperator M part s).pure = false)]
  show operatorToTensor M part (pairIdx part (unflat part r) (unflat part c)) = M r c
  unfold operatorToTensor
  rw [rowIdx_pairIdx part _ _ h1 h2, colIdx_pairIdx part _ _ h1 h2, flat_unflat part r hr,
    flat_unflat part c hc]

/-- `full()` of a pure network, entrywise in the tensor index, any partition. -/
theorem fullTen_pure (conj : α → α) (v : Nat → α) (part : List Nat) (s : Option (List Bool))
    (t : List Nat) :
    fullTen conj (mkNet v part s true) t
      = v (flat part (rowIdx part t)) * conj (v (flat part (colIdx part t))) := by
  simp [fullTen, mkNet]

/-- `matrix()` of a pure network storing `ψ` (flattened: `v`) is `vec ψ · vec ψ†`. -/
theorem matrix_pure (conj : α → α) (v : Nat → α) (part : List Nat) (s : Option (List Bool))
    {r c : Nat} (hr : r < prodL part) (hc : c < prodL part) :
    matrix conj (mkNet v part s true) r c = v r * conj (v c) := by
  have h1 := unflat_inRange part r hr
  have h2 := unflat_inRange part c hc
  unfold matrix
  rw [fullTen_pure]
  show v (flat part (rowIdx part (pairIdx part (unflat part r) (unflat part c))))
    * conj (v (flat part (colIdx part (pairIdx part (unflat part r) (unflat part c))))) = _
  rw [rowIdx_pairIdx part _ _ h1 h2, colIdx_pairIdx part _ _ h1 h2, flat_unflat part r hr,
    flat_unflat part c hc]

/-- `_operator_to_tensor` after `operator()` gives the tensor back (any partition). -/
theorem operatorToTensor_matrix (conj : α → α) (N : Net α) (hp : N.pure = false) (t : List Nat)
    (ht : InRange (rowIdx N.part t) N.part) (ht' : InRange (colIdx N.part t) N.part)
    (hl : t.length = N.part.length) :
    operatorToTensor (matrix conj N) N.part t = N.ten t := by
  unfold operatorToTensor matrix
  rw [fullTen_of_not_pure conj _ hp, unflat_flat _ _ ht, unflat_flat _ _ ht',
    pairIdx_rowIdx_colIdx _ _ hl]

end operator
end QV.Networks
