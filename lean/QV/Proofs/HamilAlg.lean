/-
  QV.Proofs.HamilAlg — the algebra of `SymbolicHamiltonian` objects over call histories
  (QV/Model/HamilAlg.lean): every cache that exists is sound for the object's own form, with
  and without term reuse; forms do not depend on what was read before.
-/
import QV.Proofs.HamilTerms
import QV.Model.HamilAlg
import Mathlib.Tactic.Ring

namespace QV

variable {α : Type} [CommRing α]

/-- the cached term list of an object, when present, acts as the object's form. -/
def SObj.CacheOK (o : SObj α) : Prop :=
  ∀ ts, o.terms = some ts → ∀ ψ, (TermHam.mk ts o.constant).applyGates ψ = o.form.denote ψ

theorem SObj.cacheOK_fresh (f : PForm α) : (SObj.fresh f).CacheOK := by
  intro ts h
  cases h

theorem SObj.touch_some (same : PSym α → PSym α → Bool) (o : SObj α) {ts : List (STerm α)}
    (h : o.terms = some ts) : o.touch same = o := by
  unfold SObj.touch
  rw [h]

theorem SObj.touch_none (same : PSym α → PSym α → Bool) (o : SObj α) (h : o.terms = none) :
    o.touch same = { o with terms := some (TermHam.ofForm same o.form).terms,
                            constant := (TermHam.ofForm same o.form).constant } := by
  unfold SObj.touch
  rw [h]

theorem SObj.touch_form (same : PSym α → PSym α → Bool) (o : SObj α) :
    (o.touch same).form = o.form := by
  cases ht : o.terms with
  | some ts => rw [SObj.touch_some same o ht]
  | none => rw [SObj.touch_none same o ht]

theorem SObj.cacheOK_touch (same : PSym α → PSym α → Bool)
    (hsame : ∀ a b, same a b = true → a = b) (hinv : ∀ s : PSym α, s.pauli = true → s.Invol)
    (o : SObj α) (h : o.CacheOK) : (o.touch same).CacheOK := by
  cases ht : o.terms with
  | some ts => rw [SObj.touch_some same o ht]; exact h
  | none =>
    rw [SObj.touch_none same o ht]
    intro ts hts ψ
    simp only [Option.some.injEq] at hts
    subst hts
    exact TermHam.ofForm_applyGates same hsame hinv o.form ψ

/-- **`h @ state` of any object whose cache is sound is the operator of its form**, whether
or not `terms` had been read before. -/
theorem SObj.act_eq (same : PSym α → PSym α → Bool)
    (hsame : ∀ a b, same a b = true → a = b) (hinv : ∀ s : PSym α, s.pauli = true → s.Invol)
    (o : SObj α) (h : o.CacheOK) (ψ : Lab → α) : o.act same ψ = o.form.denote ψ := by
  have h' := SObj.cacheOK_touch same hsame hinv o h
  unfold SObj.act SObj.termHam
  cases ht : (o.touch same).terms with
  | some ts =>
    rw [← SObj.touch_form same o]
    exact h' ts ht ψ
  | none =>
    exfalso
    cases ho : o.terms with
    | some ts => rw [SObj.touch_some same o ho, ho] at ht; cases ht
    | none => rw [SObj.touch_none same o ho] at ht; cases ht

theorem STerm.scale_denote (c : α) (t : STerm α) (ψ : Lab → α) (x : Lab) :
    (STerm.scale c t).denote ψ x = c * t.denote ψ x := by
  simp only [STerm.scale, STerm.denote]
  ring

theorem applyGates_scale (c : α) (ts : List (STerm α)) (k : α) (ψ : Lab → α) (x : Lab) :
    (TermHam.mk (ts.map (STerm.scale c)) (c * k)).applyGates ψ x
      = c * (TermHam.mk ts k).applyGates ψ x := by
  simp only [TermHam.applyGates_eq, List.map_map, Function.comp_def, STerm.scale_denote]
  rw [List.sum_map_mul_left]
  ring

theorem applyGates_append (ta tb : List (STerm α)) (ca cb : α) (ψ : Lab → α) (x : Lab) :
    (TermHam.mk (ta ++ tb) (ca + cb)).applyGates ψ x
      = (TermHam.mk ta ca).applyGates ψ x + (TermHam.mk tb cb).applyGates ψ x := by
  simp only [TermHam.applyGates_eq, List.map_append, List.sum_append]
  ring

/-- **term reuse for `h_a ± h_b` is sound**: `terms_a ++ sign·terms_b` with the constant
`constant_a + sign·constant_b` acts as `A + sign·B`. -/
theorem cacheOK_composeSum (reuse : Bool) (s : α) (a b : SObj α) (f : PForm α)
    (ha : a.CacheOK) (hb : b.CacheOK)
    (hf : ∀ ψ x, f.denote ψ x = a.form.denote ψ x + s * b.form.denote ψ x) :
    (composeSum reuse s a b f).CacheOK := by
  unfold composeSum
  cases reuse with
  | false => exact SObj.cacheOK_fresh f
  | true =>
    cases hta : a.terms with
    | none => exact SObj.cacheOK_fresh f
    | some ta =>
      cases htb : b.terms with
      | none => exact SObj.cacheOK_fresh f
      | some tb =>
        intro ts hts ψ
        simp only [Option.some.injEq] at hts
        subst hts
        funext x
        show (TermHam.mk (ta ++ tb.map (STerm.scale s)) (a.constant + s * b.constant)).applyGates ψ x = _
        rw [applyGates_append, applyGates_scale, ha ta hta, hb tb htb, hf]

/-- **term reuse for `c * h_a` is sound.** -/
theorem cacheOK_composeScale (reuse : Bool) (c : α) (a : SObj α) (f : PForm α)
    (ha : a.CacheOK) (hf : ∀ ψ x, f.denote ψ x = c * a.form.denote ψ x) :
    (composeScale reuse c a f).CacheOK := by
  unfold composeScale
  cases reuse with
  | false => exact SObj.cacheOK_fresh f
  | true =>
    cases hta : a.terms with
    | none => exact SObj.cacheOK_fresh f
    | some ta =>
      intro ts hts ψ
      simp only [Option.some.injEq] at hts
      subst hts
      funext x
      show (TermHam.mk (ta.map (STerm.scale c)) (c * a.constant)).applyGates ψ x = _
      rw [applyGates_scale, ha ta hta, hf]

theorem composeSum_form (reuse : Bool) (s : α) (a b : SObj α) (f : PForm α) :
    (composeSum reuse s a b f).form = f := by
  unfold composeSum
  cases reuse <;> cases a.terms <;> cases b.terms <;> rfl

theorem composeScale_form (reuse : Bool) (c : α) (a : SObj α) (f : PForm α) :
    (composeScale reuse c a f).form = f := by
  unfold composeScale
  cases reuse <;> cases a.terms <;> rfl

/-! ### histories -/

theorem mem_of_getElem? {β : Type} {l : List β} {i : Nat} {a : β} (h : l[i]? = some a) : a ∈ l :=
  List.mem_of_getElem? h

theorem stepAlg_cacheOK (same : PSym α → PSym α → Bool)
    (hsame : ∀ a b, same a b = true → a = b) (hinv : ∀ s : PSym α, s.pauli = true → s.Invol)
    (reuse : Bool) (st : List (SObj α)) (h : ∀ o ∈ st, o.CacheOK) (s : AStep α) :
    ∀ o ∈ stepAlg same reuse st s, o.CacheOK := by
  have app : ∀ (o' : SObj α), o'.CacheOK → ∀ o ∈ st ++ [o'], o.CacheOK := by
    intro o' ho' o ho
    rcases List.mem_append.mp ho with ho | ho
    · exact h o ho
    · rw [List.mem_singleton.mp ho]; exact ho'
  cases s with
  | new f => exact app _ (SObj.cacheOK_fresh f)
  | touch i =>
    simp only [stepAlg]
    split
    · rename_i o hi
      intro o' ho'
      rcases List.mem_or_eq_of_mem_set ho' with ho' | rfl
      · exact h o' ho'
      · exact SObj.cacheOK_touch same hsame hinv o (h o (mem_of_getElem? hi))
    · exact h
  | add i j =>
    simp only [stepAlg]
    split
    · rename_i a b hi hj
      exact app _ (cacheOK_composeSum reuse 1 a b _ (h a (mem_of_getElem? hi))
        (h b (mem_of_getElem? hj)) (fun ψ x => by simp [PForm.denote]))
    · exact h
  | sub i j =>
    simp only [stepAlg]
    split
    · rename_i a b hi hj
      exact app _ (cacheOK_composeSum reuse (-1) a b _ (h a (mem_of_getElem? hi))
        (h b (mem_of_getElem? hj)) (fun ψ x => by simp [PForm.denote, PForm.neg]))
    · exact h
  | matmul i j =>
    simp only [stepAlg]
    split
    · exact app _ (SObj.cacheOK_fresh _)
    · exact h
  | smul c i =>
    simp only [stepAlg]
    split
    · rename_i a hi
      exact app _ (cacheOK_composeScale reuse c a _ (h a (mem_of_getElem? hi))
        (fun ψ x => by simp [PForm.denote]))
    · exact h
  | sadd c i =>
    simp only [stepAlg]
    split
    · exact app _ (SObj.cacheOK_fresh _)
    · exact h
  | ssub c i =>
    simp only [stepAlg]
    split
    · exact app _ (SObj.cacheOK_fresh _)
    · exact h
  | rsub c i =>
    simp only [stepAlg]
    split
    · exact app _ (SObj.cacheOK_fresh _)
    · exact h

theorem foldl_stepAlg_cacheOK (same : PSym α → PSym α → Bool)
    (hsame : ∀ a b, same a b = true → a = b) (hinv : ∀ s : PSym α, s.pauli = true → s.Invol)
    (reuse : Bool) (steps : List (AStep α)) (st : List (SObj α)) (h : ∀ o ∈ st, o.CacheOK) :
    ∀ o ∈ steps.foldl (stepAlg same reuse) st, o.CacheOK := by
  induction steps generalizing st with
  | nil => exact h
  | cons s steps ih =>
    rw [List.foldl_cons]
    exact ih _ (stepAlg_cacheOK same hsame hinv reuse st h s)

theorem set_of_getElem? {β : Type} : ∀ (l : List β) (i : Nat) (a : β), l[i]? = some a → l.set i a = l
  | [], _, _, _ => rfl
  | b :: l, 0, a, h => by
    simp only [List.getElem?_cons_zero, Option.some.injEq] at h
    rw [List.set_cons_zero, h]
  | b :: l, i + 1, a, h => by
    simp only [List.getElem?_cons_succ] at h
    rw [List.set_cons_succ, set_of_getElem? l i a h]

/-- one step commutes with forgetting the caches. -/
theorem stepAlg_forms (same : PSym α → PSym α → Bool) (reuse : Bool) (st : List (SObj α))
    (s : AStep α) :
    (stepAlg same reuse st s).map (·.form) = stepForms (st.map (·.form)) s := by
  cases s with
  | new f => simp [stepAlg, stepForms, SObj.fresh]
  | touch i =>
    simp only [stepAlg, stepForms]
    split
    · rename_i o hi
      rw [List.map_set, SObj.touch_form]
      apply set_of_getElem?
      rw [List.getElem?_map, hi]; rfl
    · rfl
  | add i j =>
    simp only [stepAlg, stepForms, List.getElem?_map]
    cases st[i]? <;> cases st[j]? <;> simp [composeSum_form]
  | sub i j =>
    simp only [stepAlg, stepForms, List.getElem?_map]
    cases st[i]? <;> cases st[j]? <;> simp [composeSum_form]
  | matmul i j =>
    simp only [stepAlg, stepForms, List.getElem?_map]
    cases st[i]? <;> cases st[j]? <;> simp [SObj.fresh]
  | smul c i =>
    simp only [stepAlg, stepForms, List.getElem?_map]
    cases st[i]? <;> simp [composeScale_form]
  | sadd c i =>
    simp only [stepAlg, stepForms, List.getElem?_map]
    cases st[i]? <;> simp [SObj.fresh]
  | ssub c i =>
    simp only [stepAlg, stepForms, List.getElem?_map]
    cases st[i]? <;> simp [SObj.fresh]
  | rsub c i =>
    simp only [stepAlg, stepForms, List.getElem?_map]
    cases st[i]? <;> simp [SObj.fresh]

theorem foldl_stepAlg_forms (same : PSym α → PSym α → Bool) (reuse : Bool)
    (steps : List (AStep α)) (st : List (SObj α)) :
    (steps.foldl (stepAlg same reuse) st).map (·.form)
      = steps.foldl stepForms (st.map (·.form)) := by
  induction steps generalizing st with
  | nil => rfl
  | cons s steps ih => rw [List.foldl_cons, List.foldl_cons, ih, stepAlg_forms]

end QV
