/-
  QV.Proofs.SymPoly — semantics and soundness of the monomial / polynomial layer of
  `QV.Core.Sym` over Mathlib's ℂ.
-/
import QV.Core.Sym
import Mathlib.Analysis.SpecialFunctions.Trigonometric.Basic
import Mathlib.Analysis.SpecialFunctions.Complex.Circle

namespace QV

open Complex

/-! ## Valuations -/

/-- the canonical valuation: `v 0 = exp(iπ/8)`, `v (j+1) = exp(i θ_j / 8)`. -/
noncomputable def vals (θ : Nat → ℝ) : Nat → ℂ
  | 0 => Complex.exp (Complex.I * Real.pi / 8)
  | j + 1 => Complex.exp (Complex.I * θ j / 8)

@[simp] theorem vals_zero (θ : Nat → ℝ) : vals θ 0 = Complex.exp (Complex.I * Real.pi / 8) := rfl
@[simp] theorem vals_succ (θ : Nat → ℝ) (j : Nat) :
    vals θ (j + 1) = Complex.exp (Complex.I * θ j / 8) := rfl

/-- hypotheses on a valuation under which the polynomial arithmetic is sound. -/
structure GoodVal (v : Nat → ℂ) : Prop where
  ne0 : ∀ k, v k ≠ 0
  zeta8 : v 0 ^ 8 = -1

/-- additional hypothesis (unit modulus) for `Poly.conj`. -/
def UnitVal (v : Nat → ℂ) : Prop := ∀ k, starRingEnd ℂ (v k) = (v k)⁻¹

theorem vals_ne_zero (θ : Nat → ℝ) (k : Nat) : vals θ k ≠ 0 := by
  cases k <;> simp [vals, Complex.exp_ne_zero]

theorem vals_zeta8 (θ : Nat → ℝ) : vals θ 0 ^ 8 = -1 := by
  rw [vals_zero, ← Complex.exp_nat_mul]
  have : ((8 : ℕ) : ℂ) * (Complex.I * Real.pi / 8) = Real.pi * Complex.I := by
    push_cast; ring
  rw [this, Complex.exp_pi_mul_I]

theorem vals_good (θ : Nat → ℝ) : GoodVal (vals θ) := ⟨vals_ne_zero θ, vals_zeta8 θ⟩

theorem vals_unit (θ : Nat → ℝ) : UnitVal (vals θ) := by
  intro k
  cases k with
  | zero =>
    rw [vals_zero, ← Complex.exp_conj, ← Complex.exp_neg]
    congr 1
    simp [Complex.conj_ofReal, map_ofNat]
    ring
  | succ j =>
    rw [vals_succ, ← Complex.exp_conj, ← Complex.exp_neg]
    congr 1
    simp [Complex.conj_ofReal, map_ofNat]
    ring

/-! ## Monomials -/

/-- `∏ v (k + i) ^ e_i`. -/
noncomputable def Mono.evalFrom (v : Nat → ℂ) : Nat → Mono → ℂ
  | _, [] => 1
  | k, e :: es => v k ^ e * Mono.evalFrom v (k + 1) es

/-- `∏ v k ^ e_k`. -/
noncomputable def Mono.eval (v : Nat → ℂ) (m : Mono) : ℂ := Mono.evalFrom v 0 m

@[simp] theorem Mono.evalFrom_nil (v : Nat → ℂ) (k : Nat) : Mono.evalFrom v k [] = 1 := rfl
@[simp] theorem Mono.evalFrom_cons (v : Nat → ℂ) (k : Nat) (e : Int) (es : Mono) :
    Mono.evalFrom v k (e :: es) = v k ^ e * Mono.evalFrom v (k + 1) es := rfl

theorem Mono.evalFrom_mul {v : Nat → ℂ} (hv : ∀ k, v k ≠ 0) :
    ∀ (k : Nat) (a b : Mono),
      Mono.evalFrom v k (Mono.mul a b) = Mono.evalFrom v k a * Mono.evalFrom v k b
  | k, [], b => by simp [Mono.mul]
  | k, a :: as, [] => by simp [Mono.mul]
  | k, a :: as, b :: bs => by
    simp only [Mono.mul, Mono.evalFrom_cons, Mono.evalFrom_mul hv (k + 1) as bs,
      zpow_add₀ (hv k)]
    ring

theorem Mono.eval_mul {v : Nat → ℂ} (hv : ∀ k, v k ≠ 0) (a b : Mono) :
    Mono.eval v (Mono.mul a b) = Mono.eval v a * Mono.eval v b :=
  Mono.evalFrom_mul hv 0 a b

theorem Mono.evalFrom_inv (v : Nat → ℂ) :
    ∀ (k : Nat) (m : Mono), Mono.evalFrom v k (Mono.inv m) = (Mono.evalFrom v k m)⁻¹
  | k, [] => by simp [Mono.inv]
  | k, e :: es => by
    have ih := Mono.evalFrom_inv v (k + 1) es
    simp only [Mono.inv] at ih
    simp only [Mono.inv, List.map_cons, Mono.evalFrom_cons, ih, zpow_neg, mul_inv]

theorem Mono.eval_inv (v : Nat → ℂ) (m : Mono) :
    Mono.eval v (Mono.inv m) = (Mono.eval v m)⁻¹ :=
  Mono.evalFrom_inv v 0 m

theorem Mono.evalFrom_ne_zero {v : Nat → ℂ} (hv : ∀ k, v k ≠ 0) :
    ∀ (k : Nat) (m : Mono), Mono.evalFrom v k m ≠ 0
  | k, [] => by simp
  | k, e :: es => by
    simp only [Mono.evalFrom_cons]
    exact mul_ne_zero (zpow_ne_zero _ (hv k)) (Mono.evalFrom_ne_zero hv (k + 1) es)

theorem Mono.evalFrom_conj {v : Nat → ℂ} (hu : UnitVal v) :
    ∀ (k : Nat) (m : Mono),
      starRingEnd ℂ (Mono.evalFrom v k m) = Mono.evalFrom v k (Mono.inv m)
  | k, [] => by simp [Mono.inv]
  | k, e :: es => by
    have ih := Mono.evalFrom_conj hu (k + 1) es
    simp only [Mono.inv] at ih
    simp only [Mono.inv, List.map_cons, Mono.evalFrom_cons, map_mul, map_zpow₀, hu k, ih,
      zpow_neg, inv_zpow]

theorem Mono.eval_conj {v : Nat → ℂ} (hu : UnitVal v) (m : Mono) :
    starRingEnd ℂ (Mono.eval v m) = Mono.eval v (Mono.inv m) :=
  Mono.evalFrom_conj hu 0 m

theorem Mono.evalFrom_replicate_zero (v : Nat → ℂ) :
    ∀ (n k : Nat), Mono.evalFrom v k (List.replicate n 0) = 1
  | 0, k => by simp
  | n + 1, k => by
    simp [List.replicate_succ, Mono.evalFrom_replicate_zero v n (k + 1)]

theorem Mono.evalFrom_append (v : Nat → ℂ) :
    ∀ (k : Nat) (a b : Mono),
      Mono.evalFrom v k (a ++ b) = Mono.evalFrom v k a * Mono.evalFrom v (k + a.length) b
  | k, [], b => by simp
  | k, a :: as, b => by
    simp only [List.cons_append, Mono.evalFrom_cons, Mono.evalFrom_append v (k + 1) as b,
      List.length_cons]
    rw [show k + 1 + as.length = k + (as.length + 1) by omega]
    ring

/-- `Mono.reduce` preserves the value up to the recorded sign. -/
theorem Mono.eval_reduce {v : Nat → ℂ} (hv : GoodVal v) (m : Mono) :
    Mono.eval v m =
      (if (Mono.reduce m).1 then -1 else 1) * Mono.eval v (Mono.reduce m).2 := by
  cases m with
  | nil => simp [Mono.reduce]
  | cons e es =>
    have h0 := hv.ne0 0
    have h16 : v 0 ^ (16 : ℤ) = 1 := by
      have : v 0 ^ (16 : ℤ) = (v 0 ^ 8) ^ 2 := by
        rw [← pow_mul]; norm_cast
      rw [this, hv.zeta8]; norm_num
    have hsplit : v 0 ^ e = v 0 ^ (e % 16) := by
      conv_lhs => rw [← Int.mul_ediv_add_emod e 16]
      rw [zpow_add₀ h0, zpow_mul, h16, one_zpow, one_mul]
    simp only [Mono.reduce, Mono.eval, Mono.evalFrom_cons]
    split
    · simp [hsplit]
    · have h8 : v 0 ^ (e % 16) = - v 0 ^ (e % 16 - 8) := by
        have : e % 16 = (e % 16 - 8) + 8 := by ring
        conv_lhs => rw [this]
        rw [zpow_add₀ h0]
        have : v 0 ^ (8 : ℤ) = -1 := by
          rw [← hv.zeta8]; norm_cast
        rw [this]; ring
      simp only [hsplit, h8, if_true, Mono.evalFrom_cons]
      ring

/-! ## Polynomials -/

/-- `Σ c · m`. -/
noncomputable def Poly.eval (v : Nat → ℂ) (p : Poly) : ℂ :=
  (p.map (fun t => ((t.2 : ℚ) : ℂ) * Mono.eval v t.1)).sum

namespace Poly

@[simp] theorem eval_nil (v : Nat → ℂ) : Poly.eval v [] = 0 := rfl

@[simp] theorem eval_cons (v : Nat → ℂ) (t : Mono × Rat) (p : Poly) :
    Poly.eval v (t :: p) = ((t.2 : ℚ) : ℂ) * Mono.eval v t.1 + Poly.eval v p := by
  simp [Poly.eval]

theorem eval_append (v : Nat → ℂ) (p q : Poly) :
    Poly.eval v (p ++ q) = Poly.eval v p + Poly.eval v q := by
  simp [Poly.eval, List.sum_append]

theorem eval_add (v : Nat → ℂ) (p q : Poly) :
    Poly.eval v (Poly.add p q) = Poly.eval v p + Poly.eval v q :=
  eval_append v p q

theorem eval_neg (v : Nat → ℂ) (p : Poly) :
    Poly.eval v (Poly.neg p) = - Poly.eval v p := by
  induction p with
  | nil => simp [Poly.neg]
  | cons t p ih =>
    simp only [Poly.neg, List.map_cons, eval_cons] at ih ⊢
    rw [ih]; push_cast; ring

theorem eval_smul (v : Nat → ℂ) (k : Rat) (p : Poly) :
    Poly.eval v (Poly.smul k p) = (k : ℂ) * Poly.eval v p := by
  induction p with
  | nil => simp [Poly.smul]
  | cons t p ih =>
    simp only [Poly.smul, List.map_cons, eval_cons] at ih ⊢
    rw [ih]; push_cast; ring

theorem eval_sub (v : Nat → ℂ) (p q : Poly) :
    Poly.eval v (Poly.sub p q) = Poly.eval v p - Poly.eval v q := by
  simp [Poly.sub, eval_add, eval_neg, sub_eq_add_neg]

theorem eval_mulMono {v : Nat → ℂ} (hv : ∀ k, v k ≠ 0) (m : Mono) (c : Rat) (q : Poly) :
    Poly.eval v (Poly.mulMono m c q) = ((c : ℚ) : ℂ) * Mono.eval v m * Poly.eval v q := by
  induction q with
  | nil => simp [Poly.mulMono]
  | cons t q ih =>
    simp only [Poly.mulMono, List.map_cons, eval_cons] at ih ⊢
    rw [ih, Mono.eval_mul hv]; push_cast; ring

theorem eval_mulRaw {v : Nat → ℂ} (hv : ∀ k, v k ≠ 0) (p q : Poly) :
    Poly.eval v (Poly.mulRaw p q) = Poly.eval v p * Poly.eval v q := by
  induction p with
  | nil => simp [Poly.mulRaw]
  | cons t p ih =>
    obtain ⟨m, c⟩ := t
    simp only [Poly.mulRaw, eval_append, eval_mulMono hv, ih, eval_cons]
    ring

theorem eval_conj {v : Nat → ℂ} (hu : UnitVal v) (p : Poly) :
    Poly.eval v (Poly.conj p) = starRingEnd ℂ (Poly.eval v p) := by
  induction p with
  | nil => simp [Poly.conj]
  | cons t p ih =>
    simp only [Poly.conj, List.map_cons, eval_cons] at ih ⊢
    rw [ih, map_add, map_mul, Mono.eval_conj hu, map_ratCast]

theorem eval_insert (v : Nat → ℂ) (m : Mono) (c : Rat) (p : Poly) :
    Poly.eval v (Poly.insert m c p) = ((c : ℚ) : ℂ) * Mono.eval v m + Poly.eval v p := by
  induction p with
  | nil => simp [Poly.insert]
  | cons t p ih =>
    obtain ⟨m', c'⟩ := t
    simp only [Poly.insert]
    split
    · next h => subst h; simp only [eval_cons]; push_cast; ring
    · simp only [eval_cons, ih]; ring

theorem eval_insertRed {v : Nat → ℂ} (hv : GoodVal v) (acc : Poly) (t : Mono × Rat) :
    Poly.eval v (Poly.insertRed acc t) =
      Poly.eval v acc + ((t.2 : ℚ) : ℂ) * Mono.eval v t.1 := by
  simp only [Poly.insertRed, eval_insert]
  rw [Mono.eval_reduce hv t.1]
  cases (Mono.reduce t.1).1 <;> simp <;> ring

theorem eval_dropZeros (v : Nat → ℂ) (p : Poly) :
    Poly.eval v (Poly.dropZeros p) = Poly.eval v p := by
  induction p with
  | nil => simp [Poly.dropZeros]
  | cons t p ih =>
    simp only [Poly.dropZeros, List.filter_cons] at ih ⊢
    split
    · simp only [eval_cons, ih]
    · next h =>
      have : t.2 = 0 := by simpa using h
      simp [ih, this]

theorem eval_foldl_insertRed {v : Nat → ℂ} (hv : GoodVal v) (p acc : Poly) :
    Poly.eval v (p.foldl Poly.insertRed acc) = Poly.eval v acc + Poly.eval v p := by
  induction p generalizing acc with
  | nil => simp
  | cons t p ih =>
    simp only [List.foldl_cons, ih, eval_insertRed hv, eval_cons]; ring

theorem eval_normalize {v : Nat → ℂ} (hv : GoodVal v) (p : Poly) :
    Poly.eval v (Poly.normalize p) = Poly.eval v p := by
  simp [Poly.normalize, eval_dropZeros, eval_foldl_insertRed hv]

theorem eval_mul {v : Nat → ℂ} (hv : GoodVal v) (p q : Poly) :
    Poly.eval v (Poly.mul p q) = Poly.eval v p * Poly.eval v q := by
  simp [Poly.mul, eval_normalize hv, eval_mulRaw hv.ne0]

theorem eval_of_isZero {v : Nat → ℂ} (hv : GoodVal v) (p : Poly)
    (h : Poly.isZero p = true) : Poly.eval v p = 0 := by
  rw [← eval_normalize hv p]
  simp only [Poly.isZero, List.isEmpty_iff] at h
  rw [h]; rfl

theorem eval_const (v : Nat → ℂ) (np : Nat) (c : Rat) :
    Poly.eval v (Poly.const np c) = (c : ℂ) := by
  simp [Poly.const, Mono.eval, Mono.evalFrom_replicate_zero]

end Poly

end QV
