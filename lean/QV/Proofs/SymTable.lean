/-
  QV.Proofs.SymTable — meaning of the checks of `QV/Model/SymTable.lean` over ℝ / ℂ:
  substitution lemma for `Ex.denote`, realness of `isRealB` expressions, and "two traced matrices
  that pass `matEqCheck` and are square denote the same function `Nat → Nat → ℂ`".
-/
import QV.Model.SymTable
import QV.Proofs.SymSound
namespace QV
open Complex

/-- substitution lemma: evaluating `e[σ]` at `θ` is evaluating `e` at the values of `σ`. -/
theorem Ex.denote_subst (θ θ' : Nat → ℝ) (σ : List Ex)
    (h : ∀ i, ((θ' i : ℝ) : ℂ) = (σ.getD i (.par i)).denote θ) :
    ∀ e : Ex, (e.subst σ).denote θ = e.denote θ'
  | .rat _ _ => rfl
  | .I => rfl
  | .pi => rfl
  | .sqrt2 => rfl
  | .par i => by simp only [Ex.subst, Ex.denote]; exact (h i).symm
  | .add a b => by simp only [Ex.subst, Ex.denote, Ex.denote_subst θ θ' σ h a, Ex.denote_subst θ θ' σ h b]
  | .sub a b => by simp only [Ex.subst, Ex.denote, Ex.denote_subst θ θ' σ h a, Ex.denote_subst θ θ' σ h b]
  | .mul a b => by simp only [Ex.subst, Ex.denote, Ex.denote_subst θ θ' σ h a, Ex.denote_subst θ θ' σ h b]
  | .div a b => by simp only [Ex.subst, Ex.denote, Ex.denote_subst θ θ' σ h a, Ex.denote_subst θ θ' σ h b]
  | .neg a => by simp only [Ex.subst, Ex.denote, Ex.denote_subst θ θ' σ h a]
  | .cos a => by simp only [Ex.subst, Ex.denote, Ex.denote_subst θ θ' σ h a]
  | .sin a => by simp only [Ex.subst, Ex.denote, Ex.denote_subst θ θ' σ h a]
  | .exp a => by simp only [Ex.subst, Ex.denote, Ex.denote_subst θ θ' σ h a]
  | .conj a => by simp only [Ex.subst, Ex.denote, Ex.denote_subst θ θ' σ h a]

/-- a syntactically real expression denotes a real number. -/
theorem Ex.isRealB_sound (θ : Nat → ℝ) : ∀ e : Ex, e.isRealB = true → (e.denote θ).im = 0
  | .rat n d, _ => by
      simp only [Ex.denote]
      have : ((n : ℂ) / (d : ℂ)) = (((n : ℝ) / (d : ℝ) : ℝ) : ℂ) := by push_cast; rfl
      rw [this, Complex.ofReal_im]
  | .pi, _ => by simp [Ex.denote]
  | .sqrt2, _ => by simp [Ex.denote]
  | .par i, _ => by simp [Ex.denote]
  | .add a b, h => by
      simp only [Ex.isRealB, Bool.and_eq_true] at h
      simp [Ex.denote, Ex.isRealB_sound θ a h.1, Ex.isRealB_sound θ b h.2]
  | .sub a b, h => by
      simp only [Ex.isRealB, Bool.and_eq_true] at h
      simp [Ex.denote, Ex.isRealB_sound θ a h.1, Ex.isRealB_sound θ b h.2]
  | .mul a b, h => by
      simp only [Ex.isRealB, Bool.and_eq_true] at h
      simp [Ex.denote, Ex.isRealB_sound θ a h.1, Ex.isRealB_sound θ b h.2]
  | .div a b, h => by
      simp only [Ex.isRealB, Bool.and_eq_true] at h
      have ha := Ex.isRealB_sound θ a h.1
      have hb := Ex.isRealB_sound θ b h.2
      simp only [Ex.denote]
      rw [Complex.div_im, ha, hb]
      simp
  | .neg a, h => by
      simp only [Ex.isRealB] at h
      simp [Ex.denote, Ex.isRealB_sound θ a h]
  | .I, h => by simp [Ex.isRealB] at h
  | .cos _, h => by simp [Ex.isRealB] at h
  | .sin _, h => by simp [Ex.isRealB] at h
  | .exp _, h => by simp [Ex.isRealB] at h
  | .conj _, h => by simp [Ex.isRealB] at h

theorem Ex.ofReal_re_of_isRealB (θ : Nat → ℝ) (e : Ex) (h : e.isRealB = true) :
    (((e.denote θ).re : ℝ) : ℂ) = e.denote θ :=
  Complex.ext (by simp) (by simp [Ex.isRealB_sound θ e h])

theorem getD_map' {α β : Type} {f : α → β} {d : α} : ∀ {l : List α} {i : Nat},
    (l.map f).getD i (f d) = f (l.getD i d)
  | [], _ => rfl
  | _ :: _, 0 => rfl
  | _ :: l, i + 1 => by
    simp only [List.map_cons, List.getD_cons_succ]
    exact getD_map' (l := l) (i := i)

theorem getD_of_le {α : Type} {d : α} : ∀ {l : List α} {i : Nat}, l.length ≤ i → l.getD i d = d
  | [], _, _ => rfl
  | _ :: l, 0, h => by simp at h
  | _ :: l, i + 1, h => by
    simp only [List.getD_cons_succ]
    exact getD_of_le (l := l) (i := i) (by simpa using h)

theorem denoteEntry_substMat (θ θ' : Nat → ℝ) (σ : List Ex)
    (h : ∀ i, ((θ' i : ℝ) : ℂ) = (σ.getD i (.par i)).denote θ) (m : List (List Ex)) (i j : Nat) :
    denoteEntry θ (substMat σ m) i j = denoteEntry θ' m i j := by
  unfold denoteEntry substMat
  have e1 : (m.map fun r => r.map (Ex.subst σ)).getD i [] = (m.getD i []).map (Ex.subst σ) :=
    getD_map' (f := fun r : List Ex => r.map (Ex.subst σ)) (d := [])
  have e2 : ((m.getD i []).map (Ex.subst σ)).getD j (Ex.rat 0 1)
      = ((m.getD i []).getD j (Ex.rat 0 1)).subst σ :=
    getD_map' (f := Ex.subst σ) (d := Ex.rat 0 1)
  rw [e1, e2]
  exact Ex.denote_subst θ θ' σ h _

/-- out-of-range entries of a square traced matrix read as `0`. -/
theorem denoteEntry_out (θ : Nat → ℝ) (m : List (List Ex)) (hsq : squareB m = true) (i j : Nat)
    (h : ¬ (i < m.length ∧ j < m.length)) : denoteEntry θ m i j = 0 := by
  unfold denoteEntry
  by_cases hi : i < m.length
  · have hj : m.length ≤ j := by
      by_contra hj
      exact h ⟨hi, Nat.lt_of_not_le hj⟩
    have hr : (m.getD i []).length = m.length := by
      simp only [squareB, List.all_eq_true, beq_iff_eq] at hsq
      have : m.getD i [] = m[i] := by simp [List.getD_eq_getElem?_getD, hi]
      rw [this]
      exact hsq _ (List.getElem_mem hi)
    have : (m.getD i []).getD j (Ex.rat 0 1) = Ex.rat 0 1 := getD_of_le (hr ▸ hj)
    rw [this]
    simp [Ex.denote]
  · have : m.getD i [] = [] := getD_of_le (Nat.not_lt.mp hi)
    rw [this]
    simp [Ex.denote]

/-- two square traced matrices that pass `matEqCheck` denote the same function. -/
theorem denoteEntry_eq_of_check (np : Nat) (a b : List (List Ex)) (ha : squareB a = true)
    (hb : squareB b = true) (h : matEqCheck np a b = true) (θ : Nat → ℝ) :
    denoteEntry θ a = denoteEntry θ b := by
  funext i j
  have hl := matEqCheck_length np a b h
  by_cases hij : i < a.length ∧ j < a.length
  · exact matEqCheck_sound np a b h θ i j hij.1 hij.2
  · rw [denoteEntry_out θ a ha i j hij, denoteEntry_out θ b hb i j (hl ▸ hij)]

theorem squareB_substMat (σ : List Ex) (m : List (List Ex)) (h : squareB m = true) :
    squareB (substMat σ m) = true := by
  simp only [squareB, substMat, List.all_eq_true, beq_iff_eq, List.length_map, List.mem_map] at h ⊢
  rintro r ⟨r0, hr0, rfl⟩
  simpa using h r0 hr0

end QV
