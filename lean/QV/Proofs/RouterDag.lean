/-
  QV.Proofs.RouterDag — completeness of the dependency graph built by `_create_dag`
  (model `dagEdges`, QV/Model/Router.lean) and what it implies for execution orders:
    * `go_first`          : the scan of `dagEdgesFrom` emits an edge to the FIRST later block
                            using a given qubit of the block (the `saturated_qubits` rule
                            never stops the scan before that block);
    * `dag_reach`         : two blocks sharing a qubit are joined by a directed path;
    * `Respects`, `reach_idx` : every order that respects all edges respects all paths;
    * `pickCheck_of_proj` : completeness of the order checker (equal per-qubit projections
                            ⇒ accepted), `pickCheck_iff_traceEq`;
    * `order_proj`        : executing blocks in any linear extension of the DAG keeps every
                            per-qubit projection of the flattened block list.
-/
import QV.Props.C09
import QV.Proofs.TraceEq

set_option linter.unusedSectionVars false
set_option linter.unusedSimpArgs false
set_option linter.unusedVariables false

namespace QV.Router
open QV QV.Props.C09

/-! ### the scan of one node -/

theorem go_first (idx a b q r : Nat) (hab : a ≠ b)
    (hqr : (q = a ∧ r = b) ∨ (q = b ∧ r = a)) :
    ∀ (later : List (List Nat)) (sat : List Nat) (k j : Nat),
      (sat = [] ∨ sat = [r]) → j < later.length → q ∈ later.getD j [] →
      ∃ m, m ≤ j ∧ q ∈ later.getD m [] ∧ (idx, k + m) ∈ dagEdgesFrom.go idx [a, b] sat k later := by
  have hqr' : q ≠ r := by
    rcases hqr with ⟨rfl, rfl⟩ | ⟨rfl, rfl⟩
    · exact hab
    · exact fun e => hab e.symm
  have hqg : q ∈ [a, b] := by
    rcases hqr with ⟨rfl, rfl⟩ | ⟨rfl, rfl⟩ <;> simp
  intro later
  induction later with
  | nil => intro sat k j _ hj; simp at hj
  | cons p ps ih =>
    intro sat k j hsat hj hq
    have hqs : q ∉ sat := by
      rcases hsat with rfl | rfl
      · simp
      · simpa using hqr'
    by_cases hqp : q ∈ p
    · refine ⟨0, Nat.zero_le _, by simpa using hqp, ?_⟩
      have hnew : q ∈ ([a, b].filter fun x => p.contains x && !sat.contains x).eraseDups := by
        rw [List.mem_eraseDups, List.mem_filter]
        refine ⟨hqg, ?_⟩
        simp [hqp, hqs]
      have hes : (idx, k + 0) ∈
          (([a, b].filter fun x => p.contains x && !sat.contains x).eraseDups).map
            fun _ => (idx, k) := by
        rw [List.mem_map]
        exact ⟨q, hnew, rfl⟩
      unfold dagEdgesFrom.go
      simp only
      split
      · exact hes
      · exact List.mem_append_left _ hes
    · -- the scan goes on: the other qubit alone cannot saturate the node
      cases j with
      | zero => simp at hq; exact absurd hq hqp
      | succ j' =>
        have hj' : j' < ps.length := by simpa using hj
        have hq' : q ∈ ps.getD j' [] := by simpa using hq
        have hfa : ([a, b].filter fun x => p.contains x && !sat.contains x)
            = if p.contains r && !sat.contains r then [r] else [] := by
          rcases hqr with ⟨rfl, rfl⟩ | ⟨rfl, rfl⟩
          · simp [List.filter_cons, hqp]
          · simp [List.filter_cons, hqp]
        have hsat' : (sat ++ ([a, b].filter fun x => p.contains x && !sat.contains x).eraseDups = []
            ∨ sat ++ ([a, b].filter fun x => p.contains x && !sat.contains x).eraseDups = [r]) := by
          rw [hfa]
          rcases hsat with rfl | rfl
          · by_cases hr : r ∈ p
            · right; simp [hr, List.eraseDups_cons]
            · left; simp [hr]
          · right; simp
        obtain ⟨m, hm, hqm, he⟩ := ih _ (k + 1) j' hsat' hj' hq'
        refine ⟨m + 1, by omega, by simpa using hqm, ?_⟩
        unfold dagEdgesFrom.go
        simp only
        have hlen : ¬ (sat ++ ([a, b].filter fun x => p.contains x && !sat.contains x).eraseDups).length ≥ 2 := by
          rcases hsat' with e | e <;> rw [e] <;> simp
        rw [if_neg hlen]
        apply List.mem_append_right
        have : k + (m + 1) = k + 1 + m := by omega
        rw [this]
        exact he

/-! ### all nodes -/

theorem dagEdgesFrom_sub : ∀ (pairs : List (List Nat)) (o i : Nat), i < pairs.length →
    ∀ e ∈ dagEdgesFrom (o + i) (pairs.getD i []) (pairs.drop (i + 1)), e ∈ dagEdges o pairs := by
  intro pairs
  induction pairs with
  | nil => intro o i hi; simp at hi
  | cons g rest ih =>
    intro o i hi e he
    cases i with
    | zero =>
      simp only [dagEdges, List.mem_append]
      left
      simpa using he
    | succ i' =>
      simp only [dagEdges, List.mem_append]
      right
      have hi' : i' < rest.length := by simpa using hi
      have := ih (o + 1) i' hi' e
      have e1 : o + 1 + i' = o + (i' + 1) := by omega
      rw [e1] at this
      apply this
      simpa using he

theorem getD_drop (pairs : List (List Nat)) (s d : Nat) :
    (pairs.drop s).getD d [] = pairs.getD (s + d) [] := by
  simp [List.getD_eq_getElem?_getD, List.getElem?_drop]

/-- two blocks sharing a qubit are joined by a directed path of the DAG. -/
theorem dag_reach (pairs : List (List Nat)) (hp : ∀ p ∈ pairs, ∃ a b, a ≠ b ∧ p = [a, b]) :
    ∀ (d i j q : Nat), j = i + 1 + d → j < pairs.length → q ∈ pairs.getD i [] →
      q ∈ pairs.getD j [] → Reach (dagEdges 0 pairs) i j := by
  intro d
  induction d using Nat.strong_induction_on with
  | _ d ih =>
    intro i j q hj hjl hqi hqj
    have hil : i < pairs.length := by omega
    have hgi : pairs.getD i [] = pairs[i] := by
      simp [List.getD_eq_getElem?_getD, hil]
    obtain ⟨a, b, hab, hpi⟩ := hp pairs[i] (List.getElem_mem hil)
    have hqab : q ∈ [a, b] := by rw [← hpi, ← hgi]; exact hqi
    have hqr : ∃ r, (q = a ∧ r = b) ∨ (q = b ∧ r = a) := by
      simp only [List.mem_cons, List.not_mem_nil, or_false] at hqab
      rcases hqab with rfl | rfl
      · exact ⟨b, Or.inl ⟨rfl, rfl⟩⟩
      · exact ⟨a, Or.inr ⟨rfl, rfl⟩⟩
    obtain ⟨r, hqr⟩ := hqr
    have hdl : d < (pairs.drop (i + 1)).length := by simp; omega
    have hqd : q ∈ (pairs.drop (i + 1)).getD d [] := by rw [getD_drop, ← hj]; exact hqj
    obtain ⟨m, hm, hqm, he⟩ :=
      go_first i a b q r hab hqr (pairs.drop (i + 1)) [] (i + 1) d (Or.inl rfl) hdl hqd
    have hedge : (i, i + 1 + m) ∈ dagEdges 0 pairs := by
      apply dagEdgesFrom_sub pairs 0 i hil
      rw [hgi, hpi, Nat.zero_add]
      exact he
    rw [getD_drop] at hqm
    by_cases hmd : m = d
    · subst hmd
      rw [hj]
      exact Reach.edge hedge
    · have hlt : m < d := Nat.lt_of_le_of_ne hm hmd
      exact Reach.trans (Reach.edge hedge)
        (ih (d - m - 1) (by omega) (i + 1 + m) j q (by omega) hjl hqm hqj)

/-! ### orders that respect the edges -/

/-- `ord` lists `a` before `b` for every edge `(a,b)` (position = `idxOf`). -/
def Respects (E : List (Nat × Nat)) (ord : List Nat) : Prop :=
  ∀ e ∈ E, ord.idxOf e.1 < ord.idxOf e.2

theorem reach_idx {E : List (Nat × Nat)} {ord : List Nat} (h : Respects E ord) {a b : Nat}
    (hr : Reach E a b) : ord.idxOf a < ord.idxOf b := by
  induction hr with
  | edge he => exact h _ he
  | trans _ _ ih1 ih2 => exact Nat.lt_trans ih1 ih2

/-! ### completeness of the order checker -/

theorem disjointG_eq (a b : RGate) : disjointG a b = disjointB a.qs b.qs := rfl

theorem pickOne_append {o : RGate} {u v : List RGate}
    (hu : ∀ g ∈ u, g ≠ o ∧ disjointG g o = true) : pickOne o (u ++ o :: v) = some (u ++ v) := by
  induction u with
  | nil => simp [pickOne]
  | cons g u ih =>
    have hg := hu g (List.mem_cons_self ..)
    have ih' := ih (fun g' hg' => hu g' (List.mem_cons_of_mem _ hg'))
    simp only [List.cons_append, pickOne, if_neg hg.1, hg.2, if_true, ih', Option.map_some]

/-- taking a gate out is a trace equivalence. -/
theorem pickOne_traceEq {o : RGate} {rem rem' : List RGate} (h : pickOne o rem = some rem') :
    TraceEq RGate.qs rem (o :: rem') := by
  induction rem generalizing rem' with
  | nil => simp [pickOne] at h
  | cons g rest ih =>
    unfold pickOne at h
    split at h
    · rename_i hg
      simp only [Option.some.injEq] at h
      subst h; subst hg; exact TraceEq.refl _ _
    · split at h
      · rename_i hd
        cases hp : pickOne o rest with
        | none => simp [hp] at h
        | some r =>
          simp only [hp, Option.map_some, Option.some.injEq] at h
          subst h
          exact TraceEq.trans (TraceEq.cons g (ih hp)) (TraceEq.swap g o r hd)
      · simp at h

theorem pickCheck_traceEq {rem out : List RGate} (h : pickCheck rem out = true) :
    TraceEq RGate.qs rem out := by
  induction out generalizing rem with
  | nil =>
    unfold pickCheck at h
    have : rem = [] := by simpa using h
    subst this; exact TraceEq.nil
  | cons o out ih =>
    unfold pickCheck at h
    split at h
    · rename_i rem' hp
      exact TraceEq.trans (pickOne_traceEq hp) (TraceEq.cons o (ih h))
    · simp at h

/-- equal per-qubit projections ⇒ accepted by the checker. -/
theorem pickCheck_of_proj : ∀ (out inp : List RGate), (∀ g ∈ inp, g.qs ≠ []) →
    (∀ g ∈ out, g.qs ≠ []) → (∀ q, proj RGate.qs q inp = proj RGate.qs q out) →
    pickCheck inp out = true := by
  intro out
  induction out with
  | nil =>
    intro inp h₁ _ h
    cases inp with
    | nil => rfl
    | cons b l =>
      exfalso
      obtain ⟨q, hq⟩ := List.exists_mem_of_ne_nil _ (h₁ b (List.mem_cons_self ..))
      have := h q
      rw [proj_cons_of_mem (supp := RGate.qs) _ hq, proj_nil] at this
      exact List.cons_ne_nil _ _ this
  | cons o out ih =>
    intro inp h₁ h₂ h
    obtain ⟨q, hq⟩ := List.exists_mem_of_ne_nil _ (h₂ o (List.mem_cons_self ..))
    have ho : o ∈ inp := by
      have : o ∈ proj RGate.qs q inp := by
        rw [h q, proj_cons_of_mem (supp := RGate.qs) _ hq]; exact List.mem_cons_self ..
      exact (mem_proj.1 this).1
    obtain ⟨u, v, rfl, hou⟩ := List.eq_append_cons_of_mem ho
    have hdis : ∀ b ∈ u, b ≠ o ∧ disjointG b o = true := by
      intro b hb
      refine ⟨fun e => hou (e ▸ hb), ?_⟩
      rw [disjointG_eq, disjointB_iff]
      intro q' hq'b hq'o
      have hbm : b ∈ proj RGate.qs q' u := mem_proj.2 ⟨hb, hq'b⟩
      have hq' := h q'
      rw [proj_cons_of_mem (supp := RGate.qs) _ hq'o, proj_append] at hq'
      cases hpu : proj RGate.qs q' u with
      | nil => rw [hpu] at hbm; exact List.not_mem_nil hbm
      | cons c w =>
        rw [hpu, List.cons_append] at hq'
        have hca : c = o := (List.cons.inj hq').1
        have hc : c ∈ proj RGate.qs q' u := by rw [hpu]; exact List.mem_cons_self ..
        exact hou (hca ▸ (mem_proj.1 hc).1)
    have hrest : ∀ q', proj RGate.qs q' (u ++ v) = proj RGate.qs q' out := by
      intro q'
      have hq' := h q'
      rw [proj_append] at hq' ⊢
      by_cases hqo : q' ∈ o.qs
      · have hu : proj RGate.qs q' u = [] :=
          proj_eq_nil_of (fun g hg hqg =>
            (disjointB_iff.1 ((disjointG_eq g o) ▸ (hdis g hg).2)) q' hqg hqo)
        rw [proj_cons_of_mem (supp := RGate.qs) _ hqo, proj_cons_of_mem (supp := RGate.qs) _ hqo,
          hu, List.nil_append] at hq'
        rw [hu, List.nil_append]
        exact (List.cons.inj hq').2
      · rw [proj_cons_of_not_mem (supp := RGate.qs) _ hqo,
          proj_cons_of_not_mem (supp := RGate.qs) _ hqo] at hq'
        exact hq'
    unfold pickCheck
    rw [pickOne_append hdis]
    simp only
    apply ih _ _ (fun g hg => h₂ g (List.mem_cons_of_mem _ hg)) hrest
    intro g hg
    apply h₁
    rcases List.mem_append.1 hg with hg | hg
    · exact List.mem_append_left _ hg
    · exact List.mem_append_right _ (List.mem_cons_of_mem _ hg)

/-- the checker decides trace equivalence (reordering by commuting gates on disjoint
    qubits), for lists of gates that all touch at least one qubit. -/
theorem pickCheck_iff_traceEq {inp out : List RGate} (h₁ : ∀ g ∈ inp, g.qs ≠ [])
    (h₂ : ∀ g ∈ out, g.qs ≠ []) :
    pickCheck inp out = true ↔ TraceEq RGate.qs inp out :=
  ⟨pickCheck_traceEq, fun h => pickCheck_of_proj out inp h₁ h₂ (traceEq_proj h)⟩

/-! ### executing the blocks in a linear extension of the DAG -/

/-- gate list obtained by executing the blocks `bs` in the order `ord` (list of block
    indices). -/
def execOrder (bs : List (List RGate)) (ord : List Nat) : List RGate :=
  (ord.map fun i => bs.getD i []).flatten

theorem pairwise_idxOf : ∀ (l : List Nat), l.Nodup →
    l.Pairwise (fun a b => l.idxOf a < l.idxOf b)
  | [], _ => List.Pairwise.nil
  | x :: t, h => by
    have hx : x ∉ t := (List.nodup_cons.1 h).1
    have ht := (List.nodup_cons.1 h).2
    rw [List.pairwise_cons]
    constructor
    · intro b hb
      have : x ≠ b := fun e => hx (e ▸ hb)
      simp [List.idxOf_cons, this]
    · refine List.Pairwise.imp_of_mem ?_ (pairwise_idxOf t ht)
      intro a b ha hb hab
      have ha' : x ≠ a := fun e => hx (e ▸ ha)
      have hb' : x ≠ b := fun e => hx (e ▸ hb)
      simp [List.idxOf_cons, ha', hb', hab]

theorem execOrder_range (bs : List (List RGate)) : execOrder bs (List.range bs.length) = bs.flatten := by
  unfold execOrder
  congr 1
  apply List.ext_getElem
  · simp
  · intro i h1 h2
    simp at h1
    simp [List.getD_eq_getElem?_getD, h1]

theorem proj_flatten (q : Nat) (L : List (List RGate)) :
    proj RGate.qs q L.flatten = (L.map (proj RGate.qs q)).flatten := by
  induction L with
  | nil => rfl
  | cons a L ih => simp [proj_append, ih]

theorem flatten_map_filter {F : Nat → List RGate} (P : Nat → Bool) :
    ∀ (L : List Nat), (∀ i ∈ L, P i = false → F i = []) →
      (L.map F).flatten = ((L.filter P).map F).flatten := by
  intro L
  induction L with
  | nil => intro _; rfl
  | cons a L ih =>
    intro h
    have ih' := ih (fun i hi => h i (List.mem_cons_of_mem _ hi))
    by_cases hP : P a = true
    · simp [List.filter_cons, hP, ih']
    · have hP' : P a = false := by simpa using hP
      simp [List.filter_cons, hP', ih', h a (List.mem_cons_self ..) hP']

/-- **Every linear extension of the DAG keeps all per-qubit projections.** -/
theorem order_proj (bs : List (List RGate)) (pairs : List (List Nat)) (ord : List Nat)
    (hp : ∀ p ∈ pairs, ∃ a b, a ≠ b ∧ p = [a, b])
    (hlen : pairs.length = bs.length)
    (hin : ∀ i g, g ∈ bs.getD i [] → ∀ q ∈ g.qs, q ∈ pairs.getD i [])
    (hperm : ord.Perm (List.range bs.length))
    (hres : Respects (dagEdges 0 pairs) ord) (q : Nat) :
    proj RGate.qs q bs.flatten = proj RGate.qs q (execOrder bs ord) := by
  rw [← execOrder_range bs]
  unfold execOrder
  rw [proj_flatten, proj_flatten, List.map_map, List.map_map]
  let P : Nat → Bool := fun i => (pairs.getD i []).contains q
  have hnil : ∀ (L : List Nat), ∀ i ∈ L, P i = false →
      ((proj RGate.qs q) ∘ fun i => bs.getD i []) i = [] := by
    intro L i _ hPi
    apply proj_eq_nil_of
    intro g hg hqg
    have := hin i g hg q hqg
    simp [P] at hPi
    exact hPi this
  rw [flatten_map_filter P (List.range bs.length) (hnil _), flatten_map_filter P ord (hnil _)]
  congr 2
  -- the two filtered index lists are the same sorted list
  have hnd : ord.Nodup := hperm.symm.nodup List.nodup_range
  have hmem : ∀ i ∈ ord, i < pairs.length := by
    intro i hi
    have := hperm.subset hi
    rw [hlen]; simpa using this
  symm
  apply List.Perm.eq_of_pairwise (le := fun a b => a < b)
  · intro a b _ _ h1 h2; exact absurd h1 (Nat.lt_asymm h2)
  · refine List.Pairwise.imp_of_mem ?_ ((pairwise_idxOf ord hnd).filter P)
    intro a b ha hb hab
    rw [List.mem_filter] at ha hb
    have hqa : q ∈ pairs.getD a [] := by simpa [P] using ha.2
    have hqb : q ∈ pairs.getD b [] := by simpa [P] using hb.2
    rcases Nat.lt_trichotomy a b with hlt | heq | hgt
    · exact hlt
    · subst heq; exact absurd hab (Nat.lt_irrefl _)
    · exfalso
      have hr := dag_reach pairs hp (a - b - 1) b a q (by omega) (hmem a ha.1) hqb hqa
      exact Nat.lt_asymm hab (reach_idx hres hr)
  · exact (List.pairwise_lt_range).filter P
  · exact hperm.filter P
