/-
  QV.Proofs.SymMat — entrywise semantics and soundness of the `SMat` layer of
  `QV.Core.Sym` (matrix product, dagger, the Boolean checks).
-/
import QV.Proofs.SymEx
import Mathlib.Algebra.BigOperators.Group.Finset.Basic

namespace QV

open Complex

namespace SMat

/-- value of entry `(i, j)`; out-of-range entries read as `0`. -/
noncomputable def evalEntry (v : Nat → ℂ) (A : SMat) (i j : Nat) : ℂ := (A.get i j).eval v

@[simp] theorem eval_zeroP (v : Nat → ℂ) : Poly.eval v zeroP = 0 := rfl

@[simp] theorem dim_ofFn (n : Nat) (f : Nat → Nat → Poly) : (ofFn n f).dim = n := by
  simp [dim, ofFn]

theorem get_ofFn (n : Nat) (f : Nat → Nat → Poly) {i j : Nat} (hi : i < n) (hj : j < n) :
    (ofFn n f).get i j = f i j := by
  simp [get, ofFn, List.getD_eq_getElem?_getD, hi, hj]

theorem get_ofFn_row_ge (n : Nat) (f : Nat → Nat → Poly) {i : Nat} (j : Nat) (hi : n ≤ i) :
    (ofFn n f).get i j = zeroP := by
  have : ¬ i < n := by omega
  simp [get, ofFn, List.getD_eq_getElem?_getD, this]

theorem get_ofFn_col_ge (n : Nat) (f : Nat → Nat → Poly) (i : Nat) {j : Nat} (hj : n ≤ j) :
    (ofFn n f).get i j = zeroP := by
  have hj' : ¬ j < n := by omega
  by_cases hi : i < n
  · simp [get, ofFn, List.getD_eq_getElem?_getD, hi, hj']
  · exact get_ofFn_row_ge n f j (by omega)

theorem evalEntry_ofFn (v : Nat → ℂ) (n : Nat) (f : Nat → Nat → Poly) {i j : Nat}
    (hi : i < n) (hj : j < n) : evalEntry v (ofFn n f) i j = Poly.eval v (f i j) := by
  simp [evalEntry, get_ofFn n f hi hj]

theorem evalEntry_ofFn_of_ge (v : Nat → ℂ) (n : Nat) (f : Nat → Nat → Poly) {i j : Nat}
    (h : n ≤ i ∨ n ≤ j) : evalEntry v (ofFn n f) i j = 0 := by
  rcases h with h | h
  · simp [evalEntry, get_ofFn_row_ge n f j h]
  · simp [evalEntry, get_ofFn_col_ge n f i h]

theorem eval_sumRange (v : Nat → ℂ) (n : Nat) (f : Nat → Poly) :
    Poly.eval v (sumRange n f) = ∑ k ∈ Finset.range n, Poly.eval v (f k) := by
  induction n with
  | zero => simp [sumRange]
  | succ n ih =>
    unfold sumRange at ih ⊢
    rw [List.range_succ, List.foldl_append, Finset.sum_range_succ, ← ih]
    simp [Poly.eval_add]

/-! ### entrywise soundness of the matrix operations -/

@[simp] theorem dim_mul (A B : SMat) : (mul A B).dim = A.dim := by simp [mul]
@[simp] theorem dim_sub (A B : SMat) : (sub A B).dim = A.dim := by simp [sub]
@[simp] theorem dim_dagger (A : SMat) : (dagger A).dim = A.dim := by simp [dagger]
@[simp] theorem dim_one (np n : Nat) : (one np n).dim = n := by simp [one]

theorem evalEntry_mul {v : Nat → ℂ} (hv : GoodVal v) (A B : SMat) {i j : Nat}
    (hi : i < A.dim) (hj : j < A.dim) :
    evalEntry v (mul A B) i j =
      ∑ k ∈ Finset.range A.dim, evalEntry v A i k * evalEntry v B k j := by
  unfold mul
  rw [evalEntry_ofFn v _ _ hi hj]
  simp only [Poly.eval_normalize hv, eval_sumRange,
    Poly.eval_mulRaw hv.ne0, evalEntry]

theorem evalEntry_sub {v : Nat → ℂ} (hv : GoodVal v) (A B : SMat) {i j : Nat}
    (hi : i < A.dim) (hj : j < A.dim) :
    evalEntry v (sub A B) i j = evalEntry v A i j - evalEntry v B i j := by
  unfold sub
  rw [evalEntry_ofFn v _ _ hi hj]
  simp only [Poly.eval_normalize hv, Poly.eval_sub, evalEntry]

theorem evalEntry_dagger {v : Nat → ℂ} (hu : UnitVal v) (A : SMat) {i j : Nat}
    (hi : i < A.dim) (hj : j < A.dim) :
    evalEntry v (dagger A) i j = starRingEnd ℂ (evalEntry v A j i) := by
  unfold dagger
  rw [evalEntry_ofFn v _ _ hi hj]
  simp only [Poly.eval_conj hu, evalEntry]

theorem evalEntry_one (v : Nat → ℂ) (np n : Nat) {i j : Nat} (hi : i < n) (hj : j < n) :
    evalEntry v (one np n) i j = if i = j then 1 else 0 := by
  unfold one
  rw [evalEntry_ofFn v _ _ hi hj]
  split <;> simp [Poly.eval_const]

/-! ### soundness of the Boolean checks -/

theorem isZero_sound {v : Nat → ℂ} (hv : GoodVal v) (A : SMat) (h : A.isZero = true)
    (i j : Nat) : evalEntry v A i j = 0 := by
  simp only [isZero, List.all_eq_true] at h
  unfold evalEntry get
  rw [List.getD_eq_getElem?_getD, List.getD_eq_getElem?_getD]
  cases hr : A[i]? with
  | none => simp
  | some r =>
    have hrm : r ∈ A := List.mem_of_getElem? hr
    simp only [Option.getD_some]
    cases hp : r[j]? with
    | none => simp
    | some p =>
      simpa using Poly.eval_of_isZero hv p (h r hrm p (List.mem_of_getElem? hp))

theorem eq_sound {v : Nat → ℂ} (hv : GoodVal v) (A B : SMat) (h : SMat.eq A B = true) :
    A.dim = B.dim ∧
    ∀ i j, i < A.dim → j < A.dim → evalEntry v A i j = evalEntry v B i j := by
  simp only [SMat.eq, Bool.and_eq_true, beq_iff_eq] at h
  refine ⟨h.1, fun i j hi hj => ?_⟩
  have := isZero_sound hv _ h.2 i j
  rw [evalEntry_sub hv A B hi hj] at this
  exact sub_eq_zero.1 this

theorem isUnitary_sound {v : Nat → ℂ} (hv : GoodVal v) (hu : UnitVal v) (np : Nat) (A : SMat)
    (h : SMat.isUnitary np A = true) :
    ∀ i j, i < A.dim → j < A.dim →
      (∑ k ∈ Finset.range A.dim, starRingEnd ℂ (evalEntry v A k i) * evalEntry v A k j)
        = if i = j then 1 else 0 := by
  intro i j hi hj
  unfold isUnitary at h
  have h0 := isZero_sound hv _ h i j
  have hi' : i < (mul (dagger A) A).dim := by simpa using hi
  have hj' : j < (mul (dagger A) A).dim := by simpa using hj
  have hi'' : i < (dagger A).dim := by simpa using hi
  have hj'' : j < (dagger A).dim := by simpa using hj
  rw [evalEntry_sub hv _ _ hi' hj', evalEntry_mul hv _ _ hi'' hj'',
    evalEntry_one v np A.dim hi hj, sub_eq_zero, dim_dagger] at h0
  rw [← h0]
  refine Finset.sum_congr rfl fun k hk => ?_
  rw [evalEntry_dagger hu A hi (Finset.mem_range.1 hk)]

theorem propTo_sound {v : Nat → ℂ} (hv : GoodVal v) (A B : SMat) (h : SMat.propTo A B = true) :
    A.dim = B.dim ∧
    ∀ i j k l, i < A.dim → j < A.dim → k < A.dim → l < A.dim →
      evalEntry v A i j * evalEntry v B k l = evalEntry v A k l * evalEntry v B i j := by
  simp only [propTo, Bool.and_eq_true, beq_iff_eq, List.all_eq_true, List.mem_range] at h
  refine ⟨h.1, fun i j k l hi hj hk hl => ?_⟩
  have := Poly.eval_of_isZero hv _ (h.2 i hi j hj k hk l hl)
  rw [Poly.eval_sub, Poly.eval_mulRaw hv.ne0, Poly.eval_mulRaw hv.ne0, sub_eq_zero] at this
  exact this

end SMat

/-! ## traced expression matrices -/

/-- entry `(i, j)` of a traced matrix of expressions; out-of-range entries read as `0`. -/
noncomputable def denoteEntry (θ : Nat → ℝ) (m : List (List Ex)) (i j : Nat) : ℂ :=
  ((m.getD i []).getD j (Ex.rat 0 1)).denote θ

/-- generic lemma on `List.mapM` in the `Option` monad, phrased with `getD`. -/
theorem mapM_option_getD {α β γ : Type} (f : α → Option β) (g : α → γ) (g' : β → γ)
    (da : α) (db : β) (hd : g da = g' db) (hf : ∀ a b, f a = some b → g a = g' b) :
    ∀ (l : List α) (l' : List β), l.mapM f = some l' →
      l'.length = l.length ∧ ∀ i, g (l.getD i da) = g' (l'.getD i db)
  | [], l', h => by
    simp only [List.mapM_nil, Option.pure_def, Option.some.injEq] at h
    subst h; simp [hd]
  | a :: l, l', h => by
    simp only [List.mapM_cons, Option.bind_eq_bind, Option.bind_eq_some_iff, Option.pure_def,
      Option.some.injEq] at h
    obtain ⟨b, hb, bs, hbs, rfl⟩ := h
    obtain ⟨hl, ih⟩ := mapM_option_getD f g g' da db hd hf l bs hbs
    refine ⟨by simp [hl], fun i => ?_⟩
    cases i with
    | zero => simpa using hf a b hb
    | succ i => simpa using ih i

theorem normMat_sound (np : Nat) (m : List (List Ex)) (A : SMat) (h : normMat np m = some A)
    (θ : Nat → ℝ) :
    A.dim = m.length ∧ ∀ i j, denoteEntry θ m i j = SMat.evalEntry (vals θ) A i j := by
  unfold normMat at h
  have hrow : ∀ (r : List Ex) (r' : List Poly),
      r.mapM (fun e => (e.norm np).map Poly.normalize) = some r' →
      (fun (r : List Ex) (j : Nat) => (r.getD j (Ex.rat 0 1)).denote θ) r =
      (fun (r' : List Poly) (j : Nat) => Poly.eval (vals θ) (r'.getD j SMat.zeroP)) r' := by
    intro r r' hr
    funext j
    refine (mapM_option_getD (fun e => (e.norm np).map Poly.normalize)
      (fun e => e.denote θ) (fun p => Poly.eval (vals θ) p) (Ex.rat 0 1) SMat.zeroP ?_ ?_
      r r' hr).2 j
    · simp [Ex.denote]
    · intro e p he
      simp only [Option.map_eq_some_iff] at he
      obtain ⟨p0, hp0, rfl⟩ := he
      rw [Poly.eval_normalize (vals_good θ)]
      exact Ex.norm_sound np e p0 hp0 θ
  have := mapM_option_getD (fun r => r.mapM (fun e => (e.norm np).map Poly.normalize))
    (fun (r : List Ex) (j : Nat) => (r.getD j (Ex.rat 0 1)).denote θ)
    (fun (r' : List Poly) (j : Nat) => Poly.eval (vals θ) (r'.getD j SMat.zeroP))
    [] [] (by funext j; simp [Ex.denote]) hrow m A h
  refine ⟨this.1, fun i j => ?_⟩
  exact congrFun (this.2 i) j

end QV
