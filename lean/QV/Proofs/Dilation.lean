/-
  QV.Proofs.Dilation — the Stinespring dilation built by `kraus_to_stinespring` acts as the channel.
-/
import Mathlib.Algebra.BigOperators.Group.Finset.Basic
import Mathlib.Algebra.BigOperators.Ring.Finset
import Mathlib.Algebra.BigOperators.Intervals
import Mathlib.Algebra.Ring.Defs
import Mathlib.Tactic.Ring
import QV.Model.Dilation
import QV.Proofs.Superop

namespace QV.Superop
open Finset

variable {α : Type} [CommSemiring α]

/-- what is needed of the conjugation: an involutive semiring homomorphism. -/
structure ConjRing (conj : α → α) : Prop where
  zero : conj 0 = 0
  one : conj 1 = 1
  add : ∀ x y, conj (x + y) = conj x + conj y
  mul : ∀ x y, conj (x * y) = conj x * conj y
  invol : ∀ x, conj (conj x) = x

theorem ConjRing.sum {conj : α → α} (hc : ConjRing conj) (s : Finset Nat) (f : Nat → α) :
    conj (∑ k ∈ s, f k) = ∑ k ∈ s, conj (f k) := by
  classical
  induction s using Finset.induction_on with
  | empty => simp [hc.zero]
  | insert a s ha ih => rw [Finset.sum_insert ha, Finset.sum_insert ha, hc.add, ih]

theorem sumList_append {β : Type} (l1 l2 : List β) (f : β → α) :
    sumList (l1 ++ l2) f = sumList l1 f + sumList l2 f := by
  induction l1 with
  | nil => simp [sumList]
  | cons x xs ih => simp only [List.cons_append, sumList, ih, add_assoc]

theorem sumList_range_map {γ : Type} (e : Nat) (g : Nat → γ) (f : γ → α) :
    sumList ((List.range e).map g) f = ∑ a ∈ range e, f (g a) := by
  induction e with
  | zero => simp [sumList]
  | succ e ih =>
    rw [List.range_succ, List.map_append, sumList_append, ih, Finset.sum_range_succ]
    simp [sumList]

/-- a sum over a list as a sum over positions. -/
theorem sumList_eq_sum_getD {β : Type} (l : List β) (dflt : β) (f : β → α) :
    sumList l f = ∑ a ∈ range l.length, f (l.getD a dflt) := by
  induction l with
  | nil => simp [sumList]
  | cons x xs ih =>
    rw [List.length_cons, Finset.sum_range_succ', sumList, ih, add_comm]
    simp

/-- for EVERY matrix `S` and environment state `v`: tracing out the environment after `S` is the
Kraus map of the operators `stinespring_to_kraus(S, v)` returns. -/
theorem applyStinespring_eq_kraus {conj : α → α} (hc : ConjRing conj) (d e : Nat) (S : Mat α)
    (v : Nat → α) (ρ : Mat α) (i i' : Nat) :
    applyStinespring conj d e S v ρ i i'
      = applyKraus conj d (stinespringKrausList e S v) ρ i i' := by
  simp only [applyStinespring, applyKraus, stinespringKrausList, sumList_range_map,
    stinespringToKraus, sumRange_eq_sum, sum_range_mul, hc.sum, hc.mul, Finset.sum_mul,
    Finset.mul_sum]
  refine Finset.sum_congr rfl (fun a _ => Finset.sum_congr rfl (fun j _ => ?_))
  rw [Finset.sum_comm]
  refine Finset.sum_congr rfl (fun j' _ => ?_)
  rw [Finset.sum_comm]
  refine Finset.sum_congr rfl (fun b' hb' => Finset.sum_congr rfl (fun b hb => ?_))
  have hb1 := mem_range.mp hb
  have hb2 := mem_range.mp hb'
  rw [mul_add_div' j hb1, mul_add_mod' j hb1, mul_add_div' j' hb2, mul_add_mod' j' hb2]
  ring

/-- entries of the dilation `kraus_to_stinespring` builds: `U[(i,a),(j,b)] = K_a[i,j] · conj v_b`. -/
theorem krausToStinespring_at (conj : α → α) {e a b : Nat} (ha : a < e) (hb : b < e)
    (Ks : List (Mat α)) (v : Nat → α) (i j : Nat) :
    krausToStinespring conj e Ks v (i * e + a) (j * e + b)
      = (Ks.getD a (fun _ _ => 0)) i j * conj (v b) := by
  simp only [krausToStinespring, sumRange_eq_sum, mul_add_div' i ha, mul_add_mod' i ha,
    mul_add_div' j hb, mul_add_mod' j hb]
  rw [Finset.sum_eq_single a]
  · simp
  · intro a' _ hne
    rw [if_neg (fun h => hne h.symm), mul_zero]
  · intro hna
    exact absurd (mem_range.mpr ha) hna

theorem conj_norm {conj : α → α} (hc : ConjRing conj) (e : Nat) (v : Nat → α) :
    conj (sumRange e (fun b => conj (v b) * v b)) = sumRange e (fun b => conj (v b) * v b) := by
  simp only [sumRange_eq_sum, hc.sum, hc.mul, hc.invol]
  exact Finset.sum_congr rfl (fun b _ => mul_comm _ _)

/-- the dilation built by `kraus_to_stinespring` from `e = len(kraus_ops)` operators and the
environment state `v`, followed by the partial trace over the environment, is the Kraus map times
`⟨v|v⟩²` — for every system dimension and every Kraus rank. -/
theorem applyStinespring_krausToStinespring {conj : α → α} (hc : ConjRing conj) (d : Nat)
    (Ks : List (Mat α)) (v : Nat → α) (ρ : Mat α) (i i' : Nat) :
    applyStinespring conj d Ks.length (krausToStinespring conj Ks.length Ks v) v ρ i i'
      = applyKraus conj d Ks ρ i i'
        * (sumRange Ks.length (fun b => conj (v b) * v b)
            * sumRange Ks.length (fun b => conj (v b) * v b)) := by
  rw [applyStinespring_eq_kraus hc]
  simp only [applyKraus, stinespringKrausList, sumList_range_map]
  rw [sumList_eq_sum_getD Ks (fun _ _ => 0), Finset.sum_mul]
  refine Finset.sum_congr rfl (fun a ha => ?_)
  have hrt : ∀ x y, stinespringToKraus Ks.length (krausToStinespring conj Ks.length Ks v) v a x y
      = (Ks.getD a (fun _ _ => 0)) x y * sumRange Ks.length (fun b => conj (v b) * v b) :=
    fun x y => stinespring_roundtrip conj (mem_range.mp ha) Ks v x y
  simp only [hrt, hc.mul, conj_norm hc]
  generalize sumRange Ks.length (fun b => conj (v b) * v b) = nv
  simp only [sumRange_eq_sum, Finset.sum_mul]
  exact Finset.sum_congr rfl (fun j _ => Finset.sum_congr rfl (fun j' _ => by ring))

/-- `U†U = (Σ K†K) ⊗ |v⟩⟨v|`: for a trace-preserving family and a normalised `v` the matrix is a
partial isometry with initial space `H ⊗ |v⟩`. -/
theorem krausToStinespring_gram {conj : α → α} (hc : ConjRing conj) (d : Nat) (Ks : List (Mat α))
    (v : Nat → α) {b b' : Nat} (hb : b < Ks.length) (hb' : b' < Ks.length) (j j' : Nat) :
    matMul (d * Ks.length) (conjT conj (krausToStinespring conj Ks.length Ks v))
        (krausToStinespring conj Ks.length Ks v) (j * Ks.length + b) (j' * Ks.length + b')
      = krausGram conj d Ks j j' * (v b * conj (v b')) := by
  simp only [matMul, conjT, krausGram, sumRange_eq_sum, sum_range_mul]
  rw [sumList_eq_sum_getD Ks (fun _ _ => 0), Finset.sum_mul, Finset.sum_comm]
  refine Finset.sum_congr rfl (fun a ha => ?_)
  rw [Finset.sum_mul]
  refine Finset.sum_congr rfl (fun i _ => ?_)
  rw [krausToStinespring_at conj (mem_range.mp ha) hb, krausToStinespring_at conj (mem_range.mp ha) hb',
    hc.mul, hc.invol]
  ring

/-- the other round trip: `kraus_to_stinespring(stinespring_to_kraus(S, v), v) = S · (1 ⊗ |v⟩⟨v|)`. -/
theorem krausToStinespring_stinespringToKraus (conj : α → α) {e a c : Nat} (ha : a < e) (hc' : c < e)
    (S : Mat α) (v : Nat → α) (i j : Nat) :
    krausToStinespring conj e (stinespringKrausList e S v) v (i * e + a) (j * e + c)
      = sumRange e (fun b => S (i * e + a) (j * e + b) * v b) * conj (v c) := by
  rw [krausToStinespring_at conj ha hc']
  have : (stinespringKrausList e S v).getD a (fun _ _ => 0) = stinespringToKraus e S v a := by
    simp [stinespringKrausList, List.getD_eq_getElem?_getD, ha]
  rw [this]
  rfl

end QV.Superop
