/-
  QV.Proofs.UnrollerOn — the semantic-preservation chain of QV/Proofs/Unroller.lean
  RELATIVISED to a predicate `K` on gates.

  `TablesOK` (QV/Proofs/Unroller.lean) asks every table call on EVERY `UGate` to be correct,
  including gates with repeated qubits or of the wrong arity, for which no table is correct.
  Here the hypothesis is asked only of the gates satisfying `K` (`TablesOKOn`), together with
  the closure of `K` under the tables' outputs (`KClosed`): the dispatch only ever calls a table
  on the input gate, on outputs of `cz_dec` (the iSWAP-only recursion) and on the one-qubit gates
  of a two-qubit decomposition (re-translation), so `K` is all that is needed.

    * `single_cases`, `twoQ_cases`      : what `_translate_*_qubit_gates` can return, structurally
    * `translateAux_K`                  : `K` is an invariant of `translate_gate`
    * `translateAux_phase_on`           : per-call correctness on `K` ⇒ `translate_gate` correct on `K`
    * `unroll_phase_on`                 : … ⇒ whole circuits
    * `WellPlaced ar`                   : the concrete `K`: no `controlled_by` controls, duplicate-free
                                          qubits, as many as the class's arity `ar`
    * `place_nodup`, `call_wellPlaced`  : placing a duplicate-free template on duplicate-free qubits
    * `exists_perm_extending`           : every duplicate-free qubit list is `σ 0, σ 1, …` for a
                                          permutation σ of ℕ (so a well-placed gate is a relabelled
                                          template gate)
-/
import Mathlib.Logic.Equiv.Basic
import QV.Proofs.Unroller

namespace QV.Unroll

/-! ### structure of the dispatch -/

theorem single_cases {T : Tables} {nat : Natives} {g : UGate} {out : List UGate}
    (h : single T nat g = some out) :
    ∃ t ∈ [T.gpi2, T.u3, T.cz, T.iswap, T.opt, T.cnot], Table.call t g = some out := by
  unfold single at h
  split at h
  · exact ⟨T.u3, by simp, h⟩
  · split at h
    · exact ⟨T.gpi2, by simp, h⟩
    · simp at h

/-- `_translate_two_qubit_gates` returns one table's answer, or (iSWAP-only natives, class not in
    `iswap_dec`) the recursive translation of `cz_dec`'s answer. -/
theorem twoQ_cases {T : Tables} {nat : Natives} {rec : UGate → Option (List UGate)} {g : UGate}
    {out : List UGate} (h : twoQ T nat rec g = some out) :
    (∃ t ∈ [T.gpi2, T.u3, T.cz, T.iswap, T.opt, T.cnot], Table.call t g = some out) ∨
    (∃ d, T.cz.call g = some d ∧ flatMapM rec d = some out) := by
  have key : ∀ t ∈ [T.gpi2, T.u3, T.cz, T.iswap, T.opt, T.cnot], Table.call t g = some out →
      (∃ t ∈ [T.gpi2, T.u3, T.cz, T.iswap, T.opt, T.cnot], Table.call t g = some out) ∨
      (∃ d, T.cz.call g = some d ∧ flatMapM rec d = some out) := fun t ht e => Or.inl ⟨t, ht, e⟩
  have ho := key T.opt (by simp)
  have hc := key T.cz (by simp)
  have hi := key T.iswap (by simp)
  have hn := key T.cnot (by simp)
  unfold twoQ at h
  split at h
  · split at h
    · exact ho h
    · split at h
      · exact hc h
      · cases h1 : T.cz.count2q g with
        | none => simp [h1] at h
        | some c =>
          cases h2 : T.iswap.count2q g with
          | none => simp [h1, h2] at h
          | some i =>
            simp only [h1, h2, Option.bind_eq_bind, Option.bind_some] at h
            split at h
            · exact hc h
            · split at h
              · exact hi h
              · cases h3 : T.cz.count1q g with
                | none => simp [h3] at h
                | some c1 =>
                  cases h4 : T.iswap.count1q g with
                  | none => simp [h3, h4] at h
                  | some i1 =>
                    simp only [h3, h4, Option.bind_some] at h
                    split at h
                    · exact hc h
                    · exact hi h
  · split at h
    · exact hc h
    · split at h
      · split at h
        · exact hi h
        · cases hd : T.cz.call g with
          | none => simp [hd] at h
          | some d =>
            simp only [hd, Option.bind_eq_bind, Option.bind_some] at h
            exact Or.inr ⟨d, rfl, h⟩
      · split at h
        · exact hn h
        · simp at h

/-! ### the invariant `K` -/

/-- `K` is closed under the tables' outputs. -/
def KClosed (T : Tables) (K : UGate → Prop) : Prop :=
  ∀ t ∈ [T.gpi2, T.u3, T.cz, T.iswap, T.opt, T.cnot], ∀ g, K g → ∀ d,
    Table.call t g = some d → ∀ y ∈ d, K y

theorem retranslate_K {T : Tables} {nat : Natives} {K : UGate → Prop} (hK : KClosed T K)
    {x : UGate} (hx : K x) {p : List UGate} (h : retranslate T nat x = some p) :
    ∀ y ∈ p, K y := by
  unfold retranslate at h
  split at h
  · obtain ⟨t, ht, hc⟩ := single_cases h
    exact hK t ht x hx p hc
  · simp at h; subst h
    intro y hy
    simp at hy; subst hy; exact hx

/-- every gate `translate_gate` returns for a `K` gate is a `K` gate (through re-translation
    and the CZ-then-iSWAP recursion). -/
theorem translateAux_K {T : Tables} {nat : Natives} {K : UGate → Prop} (hK : KClosed T K) :
    ∀ (fuel : Nat) (lo : Bool) (g : UGate) (out : List UGate), K g →
      translateAux T nat fuel lo g = some out → ∀ y ∈ out, K y
  | 0, _, _, _, _, h => by simp [translateAux] at h
  | fuel + 1, lo, g, out, hg, h => by
    unfold translateAux at h
    split at h
    · split at h
      · simp at h
      · simp at h; subst h
        intro y hy
        simp at hy; subst hy; exact hg
    · split at h
      · simp at h
      · split at h
        · obtain ⟨t, ht, hc⟩ := single_cases h
          exact hK t ht g hg out hc
        · cases hd : twoQ T nat (translateAux T nat fuel true) g with
          | none => simp [hd] at h
          | some d =>
            simp only [hd, Option.bind_eq_bind, Option.bind_some] at h
            have hdK : ∀ x ∈ d, K x := by
              rcases twoQ_cases hd with ⟨t, ht, hc⟩ | ⟨d', hc, hf⟩
              · exact hK t ht g hg d hc
              · have hd' := hK T.cz (by simp) g hg d' hc
                exact flatMapM_forall K
                  (fun x hx p hp => translateAux_K hK fuel true x p (hd' x hx) hp) hf
            exact flatMapM_forall K (fun x hx p hp => retranslate_K hK (hdK x hx) hp) h

/-! ### equality up to a phase, relativised -/

section Phase
variable {α : Type} [CommSemiring α]

/-- every call of every table ON A GATE OF `K` reproduces the gate up to a phase. -/
def TablesOKOn (P : Submonoid α) (sem : UGate → MGate α) (T : Tables) (K : UGate → Prop) : Prop :=
  ∀ t ∈ [T.gpi2, T.u3, T.cz, T.iswap, T.opt, T.cnot], ∀ g, K g → ∀ d,
    Table.call t g = some d → PhaseEq P (d.map sem) [sem g]

/-- the unrelativised hypothesis is the case `K = everything`. -/
theorem tablesOK_iff_on_all (P : Submonoid α) (sem : UGate → MGate α) (T : Tables) :
    TablesOK P sem T ↔ TablesOKOn P sem T (fun _ => True) :=
  ⟨fun h t ht g _ d hd => h t ht g d hd, fun h t ht g d hd => h t ht g trivial d hd⟩

theorem translateAux_phase_on {P : Submonoid α} {sem : UGate → MGate α} {T : Tables}
    {nat : Natives} {K : UGate → Prop} (hT : TablesOKOn P sem T K) (hK : KClosed T K) :
    ∀ (fuel : Nat) (lo : Bool) (g : UGate) (out : List UGate),
      (passThrough g.cls = true ∨ K g) →
      translateAux T nat fuel lo g = some out → PhaseEq P (out.map sem) [sem g]
  | 0, _, _, _, _, h => by simp [translateAux] at h
  | fuel + 1, lo, g, out, hg, h => by
    unfold translateAux at h
    split at h
    · split at h
      · simp at h
      · simp at h; subst h; exact PhaseEq.refl P _
    · rename_i hp
      have hg : K g := hg.resolve_left hp
      split at h
      · simp at h
      · split at h
        · obtain ⟨t, ht, hc⟩ := single_cases h
          exact hT t ht g hg out hc
        · cases hd : twoQ T nat (translateAux T nat fuel true) g with
          | none => simp [hd] at h
          | some d =>
            simp only [hd, Option.bind_eq_bind, Option.bind_some] at h
            have hdK : ∀ x ∈ d, K x ∧ True := by
              rcases twoQ_cases hd with ⟨t, ht, hc⟩ | ⟨d', hc, hf⟩
              · exact fun x hx => ⟨hK t ht g hg d hc x hx, trivial⟩
              · have hd' := hK T.cz (by simp) g hg d' hc
                exact fun x hx => ⟨flatMapM_forall K
                  (fun x hx p hp => translateAux_K hK fuel true x p (hd' x hx) hp) hf x hx, trivial⟩
            have h1 : PhaseEq P (d.map sem) [sem g] := by
              rcases twoQ_cases hd with ⟨t, ht, hc⟩ | ⟨d', hc, hf⟩
              · exact hT t ht g hg d hc
              · have hd' := hK T.cz (by simp) g hg d' hc
                exact (flatMapM_phase sem (fun x hx p hp =>
                  translateAux_phase_on hT hK fuel true x p (Or.inr (hd' x hx)) hp) hf).trans
                  (hT T.cz (by simp) g hg d' hc)
            have h2 := flatMapM_phase (P := P) sem (f := retranslate T nat) (l := d) (out := out)
              (fun x hx p hp => by
                unfold retranslate at hp
                split at hp
                · obtain ⟨t, ht, hc⟩ := single_cases hp
                  exact hT t ht x (hdK x hx).1 p hc
                · simp at hp; subst hp; exact PhaseEq.refl P _) h
            exact h2.trans h1

/-- whole circuits: every gate is a pass-through gate (`I`, `Align`, `M`) or a `K` gate. -/
theorem unroll_phase_on {P : Submonoid α} {sem : UGate → MGate α} {T : Tables}
    {nat : Natives} {K : UGate → Prop} (hT : TablesOKOn P sem T K) (hK : KClosed T K)
    (fuel : Nat) (gs out : List UGate) (hgs : ∀ g ∈ gs, passThrough g.cls = true ∨ K g)
    (h : unroll T nat fuel gs = some out) : PhaseEq P (out.map sem) (gs.map sem) :=
  flatMapM_phase sem
    (fun g hg p hp => translateAux_phase_on hT hK fuel false g p (hgs g hg) hp) h

end Phase

/-! ### the concrete `K`: well-placed gates -/

/-- no `controlled_by` controls, duplicate-free qubits, as many as the arity of the class. -/
def WellPlaced (ar : Nat → Option Nat) (g : UGate) : Prop :=
  g.cb = false ∧ g.qubits.Nodup ∧ ar g.cls = some g.qubits.length

/-- template gates: qubits `0, 1, …, k-1`. -/
def Template (ar : Nat → Option Nat) (g : UGate) : Prop :=
  g.cb = false ∧ ∃ k, ar g.cls = some k ∧ g.qubits = List.range k

theorem getElem?_inj_of_nodup {qs : List Nat} (hqs : qs.Nodup) {i j a : Nat}
    (hi : qs[i]? = some a) (hj : qs[j]? = some a) : i = j := by
  have hi' : i < qs.length := (List.getElem?_eq_some_iff.mp hi).1
  exact (List.getElem?_inj hi' hqs).mp (hi.trans hj.symm)

/-- picking duplicate-free positions out of a duplicate-free list gives a duplicate-free list. -/
theorem mapM_getElem?_nodup {qs : List Nat} (hqs : qs.Nodup) :
    ∀ {l q : List Nat}, l.Nodup → l.mapM (fun i => qs[i]?) = some q → q.Nodup
  | [], q, _, h => by simp at h; subst h; exact List.nodup_nil
  | i :: l, q, hl, h => by
    rw [List.mapM_cons] at h
    cases hi : qs[i]? with
    | none => simp [hi] at h
    | some a =>
      cases hr : l.mapM (fun i => qs[i]?) with
      | none => simp [hi, hr] at h
      | some b =>
        simp [hi, hr] at h
        subst h
        have hl' := List.nodup_cons.mp hl
        refine List.nodup_cons.mpr ⟨fun ha => ?_, mapM_getElem?_nodup hqs hl'.2 hr⟩
        obtain ⟨j, hj, hja⟩ := mapM_option_mem hr a ha
        have : i = j := getElem?_inj_of_nodup hqs hi hja
        exact hl'.1 (this ▸ hj)

theorem place_nodup {qs : List Nat} (hqs : qs.Nodup) {x y : UGate} (hx : x.qubits.Nodup)
    (h : place qs x = some y) : y.qubits.Nodup := by
  unfold place at h
  cases hq : x.qubits.mapM (fun i => qs[i]?) with
  | none => simp [hq] at h
  | some q =>
    simp [hq] at h
    subst h
    exact mapM_getElem?_nodup hqs hx hq

/-- what a table call returns for a gate without controls, with the placing made explicit. -/
theorem call_some' {t : Table} {g : UGate} {out : List UGate} (hcb : g.cb = false)
    (h : t.call g = some out) :
    ∃ d, t.has g.cls = true ∧ t.entry g.cls g.tag = some d ∧ d.mapM (place g.qubits) = some out := by
  unfold Table.call at h
  simp only [hcb] at h
  cases hc : t.check g with
  | none => simp [hc] at h
  | some d =>
    simp [hc] at h
    unfold Table.check at hc
    by_cases hh : t.has g.cls = true
    · simp only [hh, if_true] at hc
      exact ⟨d, hh, hc, h⟩
    · simp [hh] at hc

/-- rows whose gates are well-formed (no controls, duplicate-free template qubits, right arity)
    turn well-placed gates into well-placed gates. -/
theorem call_wellPlaced {ar : Nat → Option Nat} {t : Table}
    (hrows : ∀ c tag d, t.has c = true → t.entry c tag = some d →
      ∀ x ∈ d, x.cb = false ∧ x.qubits.Nodup ∧ ar x.cls = some x.qubits.length)
    {g : UGate} (hg : WellPlaced ar g) {out : List UGate} (h : t.call g = some out) :
    ∀ y ∈ out, WellPlaced ar y := by
  obtain ⟨d, hh, he, hm⟩ := call_some' hg.1 h
  intro y hy
  obtain ⟨x, hx, hp⟩ := mapM_option_mem hm y hy
  obtain ⟨h1, h2, h3⟩ := hrows _ _ d hh he x hx
  obtain ⟨e1, _, e3, e4⟩ := place_some hp
  exact ⟨by rw [e3]; exact h1, place_nodup hg.2.1 h2 hp, by rw [e1, e4]; exact h3⟩

/-- placing a template on `0 … k-1` changes nothing. -/
theorem mapM_getElem?_range (k : Nat) :
    ∀ l : List Nat, (∀ q ∈ l, q < k) → l.mapM (fun i => (List.range k)[i]?) = some l
  | [], _ => rfl
  | i :: l, h => by
    rw [List.mapM_cons, mapM_getElem?_range k l (fun q hq => h q (List.mem_cons_of_mem _ hq))]
    have : (List.range k)[i]? = some i := by
      rw [List.getElem?_range (h i (List.mem_cons_self ..))]
    simp [this]

theorem place_range (k : Nat) (x : UGate) (h : ∀ q ∈ x.qubits, q < k) :
    place (List.range k) x = some x := by
  unfold place
  rw [mapM_getElem?_range k x.qubits h]
  rfl

theorem mapM_place_range (k : Nat) :
    ∀ d : List UGate, (∀ x ∈ d, ∀ q ∈ x.qubits, q < k) → d.mapM (place (List.range k)) = some d
  | [], _ => rfl
  | x :: d, h => by
    rw [List.mapM_cons, place_range k x (h x (List.mem_cons_self ..)),
      mapM_place_range k d (fun y hy => h y (List.mem_cons_of_mem _ hy))]
    rfl

/-! ### every duplicate-free qubit list is the image of `0, 1, …` under a permutation of ℕ -/

theorem exists_perm_prefix (qs : List Nat) (hqs : qs.Nodup) :
    ∀ i, i ≤ qs.length → ∃ σ : Equiv.Perm Nat, ∀ j, j < i → qs[j]? = some (σ j)
  | 0, _ => ⟨Equiv.refl _, fun j hj => absurd hj (Nat.not_lt_zero _)⟩
  | i + 1, hi => by
    obtain ⟨σ, hσ⟩ := exists_perm_prefix qs hqs i (Nat.le_of_succ_le hi)
    have hil : i < qs.length := hi
    let a := σ.symm qs[i]
    have ha : σ a = qs[i] := by simp [a]
    have hai : ∀ j, j < i → a ≠ j := by
      intro j hj e
      have h1 : qs[j]? = some (σ j) := hσ j hj
      rw [← e, ha] at h1
      have h2 : qs[i]? = some qs[i] := List.getElem?_eq_getElem hil
      have := getElem?_inj_of_nodup hqs h1 h2
      omega
    refine ⟨(Equiv.swap i a).trans σ, fun j hj => ?_⟩
    by_cases hji : j = i
    · subst hji
      simp [Equiv.swap_apply_left, ha]
    · have hj' : j < i := by omega
      have hja : j ≠ a := fun e => hai j hj' e.symm
      simp only [Equiv.trans_apply, Equiv.swap_apply_of_ne_of_ne hji hja]
      exact hσ j hj'

/-- a duplicate-free list of qubits is `[σ 0, σ 1, …]` for a relabelling σ with inverse τ. -/
theorem exists_perm_extending (qs : List Nat) (hqs : qs.Nodup) :
    ∃ σ τ : Nat → Nat, (∀ q, σ (τ q) = q) ∧ (∀ q, τ (σ q) = q) ∧
      (List.range qs.length).map σ = qs := by
  obtain ⟨σ, hσ⟩ := exists_perm_prefix qs hqs qs.length (Nat.le_refl _)
  refine ⟨σ, σ.symm, fun q => by simp, fun q => by simp, ?_⟩
  apply List.ext_getElem?
  intro j
  by_cases hj : j < qs.length
  · rw [hσ j hj]
    simp [hj]
  · have hj' : qs.length ≤ j := Nat.le_of_not_lt hj
    simp [hj']

/-- a well-placed gate is a template gate moved by a relabelling of the qubits. -/
theorem wellPlaced_is_relabelled_template {ar : Nat → Option Nat} {g : UGate}
    (hg : WellPlaced ar g) :
    ∃ (g0 : UGate) (σ τ : Nat → Nat), Template ar g0 ∧ (∀ q, σ (τ q) = q) ∧ (∀ q, τ (σ q) = q) ∧
      g = g0.relabel σ := by
  obtain ⟨σ, τ, h1, h2, h3⟩ := exists_perm_extending g.qubits hg.2.1
  refine ⟨{ g with qubits := List.range g.qubits.length }, σ, τ,
    ⟨hg.1, g.qubits.length, hg.2.2, rfl⟩, h1, h2, ?_⟩
  cases g
  simp only [UGate.relabel] at h3 ⊢
  rw [h3]

end QV.Unroll
